package main

import (
	"encoding/json"
	"fmt"
	"math/big"
	"math/rand"

	"github.com/zenon-network/go-zenon/chain/genesis"
	"github.com/zenon-network/go-zenon/common/types"
	"github.com/zenon-network/go-zenon/vm/embedded/definition"
)

func rAddr(rng *rand.Rand) types.Address {
	var a types.Address
	rng.Read(a[:])
	a[0] = 0
	return a
}
func rHash(rng *rand.Rand) types.Hash {
	var h types.Hash
	rng.Read(h[:])
	return h
}
func amt(rng *rand.Rand) *big.Int {
	switch rng.Intn(6) {
	case 0:
		return big.NewInt(0)
	case 1:
		return big.NewInt(int64(1 + rng.Intn(10)))
	default:
		return new(big.Int).Mul(big.NewInt(int64(1+rng.Intn(100000))), big.NewInt(100000000))
	}
}

var sporkFundedNoSection int
var genSeq int

// genConfig: a random CONSISTENT configuration with pairwise distinct entry identities.
func genConfig(rng *rand.Rand) *genesis.GenesisConfig {
	spork := rAddr(rng)
	cfg := &genesis.GenesisConfig{
		ChainIdentifier:     uint64(1 + rng.Intn(1000)),
		ExtraData:           fmt.Sprintf("verif-%d", rng.Intn(1000000)),
		GenesisTimestampSec: genesisTimestamp(rng),
		SporkAddress:        &spork,
		PillarConfig:        &genesis.PillarContractConfig{},
		TokenConfig:         &genesis.TokenContractConfig{},
		PlasmaConfig:        &genesis.PlasmaContractConfig{},
		SwapConfig:          &genesis.SwapContractConfig{},
		GenesisBlocks:       &genesis.GenesisBlocksConfig{},
	}
	extra := types.ZenonTokenStandard{}
	hasExtra := rng.Intn(2) == 0
	if hasExtra {
		rng.Read(extra[:])
	}
	tokens := []types.ZenonTokenStandard{types.ZnnTokenStandard, types.QsrTokenStandard}
	if hasExtra {
		tokens = append(tokens, extra)
	}
	total := map[types.ZenonTokenStandard]*big.Int{}
	for _, z := range tokens {
		total[z] = big.NewInt(0)
	}
	add := func(addr types.Address, bal map[types.ZenonTokenStandard]*big.Int) {
		cfg.GenesisBlocks.Blocks = append(cfg.GenesisBlocks.Blocks, &genesis.GenesisBlockConfig{Address: addr, BalanceList: bal})
		for z, a := range bal {
			total[z].Add(total[z], a)
		}
	}
	// users
	users := make([]types.Address, 2+rng.Intn(6))
	for i := range users {
		users[i] = rAddr(rng)
		bal := map[types.ZenonTokenStandard]*big.Int{}
		for _, z := range tokens {
			// CheckGenesis refuses a declared token that nobody holds ("declared but not given at all"): the first user
			// holds every token, so that a configuration called consistent here is one the validators accept
			if i == 0 || rng.Intn(4) != 0 {
				bal[z] = amt(rng)
			}
		}
		add(users[i], bal)
	}
	// pillars
	pillarTotal := big.NewInt(0)
	np := rng.Intn(5)
	for i := 0; i < np; i++ {
		a := rAddr(rng)
		p := &definition.PillarInfo{Name: fmt.Sprintf("pillar-%d-%d", i, rng.Intn(1000)), BlockProducingAddress: a, StakeAddress: a,
			RewardWithdrawAddress: a, Amount: amt(rng), RegistrationTime: cfg.GenesisTimestampSec, GiveDelegateRewardPercentage: 100, PillarType: definition.LegacyPillarType}
		// pillars in every life-cycle state the record can express: active, revoked (RevokeTime set; the validators still
		// count its Amount against the pillar contract's ZNN), legacy / regular type, odd percentages
		switch rng.Intn(4) {
		case 0:
			p.RevokeTime = cfg.GenesisTimestampSec - int64(rng.Intn(100000))
		case 1:
			p.PillarType = definition.NormalPillarType
			p.GiveBlockRewardPercentage = uint8(rng.Intn(101))
			p.GiveDelegateRewardPercentage = uint8(rng.Intn(101))
		}
		cfg.PillarConfig.Pillars = append(cfg.PillarConfig.Pillars, p)
		pillarTotal.Add(pillarTotal, p.Amount)
		cfg.PillarConfig.Delegations = append(cfg.PillarConfig.Delegations, &definition.DelegationInfo{Name: p.Name, Backer: a})
	}
	for _, u := range users {
		if np > 0 && rng.Intn(2) == 0 {
			cfg.PillarConfig.Delegations = append(cfg.PillarConfig.Delegations, &definition.DelegationInfo{Name: cfg.PillarConfig.Pillars[rng.Intn(np)].Name, Backer: u})
		}
	}
	for i := rng.Intn(3); i > 0; i-- {
		cfg.PillarConfig.LegacyEntries = append(cfg.PillarConfig.LegacyEntries, &definition.LegacyPillarEntry{KeyIdHash: rHash(rng), PillarCount: uint8(1 + rng.Intn(3))})
	}
	if pillarTotal.Sign() != 0 || rng.Intn(2) == 0 {
		add(types.PillarContract, map[types.ZenonTokenStandard]*big.Int{types.ZnnTokenStandard: new(big.Int).Set(pillarTotal)})
	}
	// fusions (distinct (owner, id))
	fuseTotal := big.NewInt(0)
	for i := rng.Intn(6); i > 0; i-- {
		f := &definition.FusionInfo{Owner: users[rng.Intn(len(users))], Id: rHash(rng), Amount: amt(rng), Beneficiary: users[rng.Intn(len(users))]}
		cfg.PlasmaConfig.Fusions = append(cfg.PlasmaConfig.Fusions, f)
		fuseTotal.Add(fuseTotal, f.Amount)
	}
	if fuseTotal.Sign() != 0 || rng.Intn(2) == 0 {
		add(types.PlasmaContract, map[types.ZenonTokenStandard]*big.Int{types.QsrTokenStandard: new(big.Int).Set(fuseTotal)})
	}
	// swap: entries are liabilities minted on demand; the contract itself holds nothing
	for i := rng.Intn(4); i > 0; i-- {
		cfg.SwapConfig.Entries = append(cfg.SwapConfig.Entries, &definition.SwapAssets{KeyIdHash: rHash(rng), Znn: amt(rng), Qsr: amt(rng)})
	}
	switch rng.Intn(3) {
	case 0:
		add(types.SwapContract, map[types.ZenonTokenStandard]*big.Int{types.ZnnTokenStandard: big.NewInt(0), types.QsrTokenStandard: big.NewInt(0)})
	case 1:
		add(types.SwapContract, map[types.ZenonTokenStandard]*big.Int{})
	}
	// other embedded contracts with a balance: any of them may be funded at genesis (accelerator, spork, token, htlc,
	// bridge, liquidity, stake, sentinel), with or without the configuration section that belongs to it
	for _, c := range types.EmbeddedContracts {
		if c == types.PillarContract || c == types.PlasmaContract || c == types.SwapContract {
			continue // their holdings are fixed by the pillar / fusion / swap sections above
		}
		// systematic part: the k-th generated configuration funds the (k mod n)-th embedded contract for sure, so that
		// every contract is funded at genesis in every run, with and without its own configuration section (see sporks below)
		focus := types.EmbeddedContracts[genSeq%len(types.EmbeddedContracts)]
		if c == focus || rng.Intn(3) == 0 {
			bal := map[types.ZenonTokenStandard]*big.Int{}
			for _, z := range tokens {
				if rng.Intn(3) != 0 {
					bal[z] = new(big.Int).Add(amt(rng), big.NewInt(1))
				}
			}
			add(c, bal)
		}
	}
	// sporks (section absent for the first of the two configurations that focus on the spork contract)
	sporkSection := rng.Intn(2) == 0
	if types.EmbeddedContracts[genSeq%len(types.EmbeddedContracts)] == types.SporkContract {
		sporkSection = (genSeq/len(types.EmbeddedContracts))%2 == 1
	}
	genSeq++
	if sporkSection {
		cfg.SporkConfig = &genesis.SporkConfig{}
		for i := rng.Intn(3); i > 0; i-- {
			cfg.SporkConfig.Sporks = append(cfg.SporkConfig.Sporks, &definition.Spork{Id: rHash(rng), Name: fmt.Sprintf("spork-%d", i), Activated: rng.Intn(2) == 0, EnforcementHeight: uint64(1000 + rng.Intn(100))})
		}
	}
	for _, b := range cfg.GenesisBlocks.Blocks {
		if b.Address == types.SporkContract && cfg.SporkConfig == nil {
			sporkFundedNoSection++
		}
	}
	// tokens
	for i, z := range tokens {
		cfg.TokenConfig.Tokens = append(cfg.TokenConfig.Tokens, &definition.TokenInfo{Owner: users[0], TokenName: fmt.Sprintf("Token%d", i), TokenSymbol: fmt.Sprintf("T%d", i),
			TokenDomain: "zenon.network", TotalSupply: new(big.Int).Set(total[z]), MaxSupply: big.NewInt(4611686018427387903), Decimals: 8,
			IsMintable: true, IsBurnable: true, IsUtility: true, TokenStandard: z})
	}
	return cfg
}

func clone(cfg *genesis.GenesisConfig) *genesis.GenesisConfig {
	b, err := json.Marshal(cfg)
	if err != nil {
		panic(err)
	}
	c := new(genesis.GenesisConfig)
	if err := json.Unmarshal(b, c); err != nil {
		panic(err)
	}
	return c
}

// permuted: a deep copy with every order-free list shuffled
func permuted(rng *rand.Rand, cfg *genesis.GenesisConfig) *genesis.GenesisConfig {
	c := clone(cfg)
	rng.Shuffle(len(c.GenesisBlocks.Blocks), func(i, j int) {
		c.GenesisBlocks.Blocks[i], c.GenesisBlocks.Blocks[j] = c.GenesisBlocks.Blocks[j], c.GenesisBlocks.Blocks[i]
	})
	p := c.PillarConfig
	rng.Shuffle(len(p.Pillars), func(i, j int) { p.Pillars[i], p.Pillars[j] = p.Pillars[j], p.Pillars[i] })
	rng.Shuffle(len(p.Delegations), func(i, j int) { p.Delegations[i], p.Delegations[j] = p.Delegations[j], p.Delegations[i] })
	rng.Shuffle(len(p.LegacyEntries), func(i, j int) { p.LegacyEntries[i], p.LegacyEntries[j] = p.LegacyEntries[j], p.LegacyEntries[i] })
	t := c.TokenConfig
	rng.Shuffle(len(t.Tokens), func(i, j int) { t.Tokens[i], t.Tokens[j] = t.Tokens[j], t.Tokens[i] })
	f := c.PlasmaConfig
	rng.Shuffle(len(f.Fusions), func(i, j int) { f.Fusions[i], f.Fusions[j] = f.Fusions[j], f.Fusions[i] })
	s := c.SwapConfig
	rng.Shuffle(len(s.Entries), func(i, j int) { s.Entries[i], s.Entries[j] = s.Entries[j], s.Entries[i] })
	if c.SporkConfig != nil {
		k := c.SporkConfig
		rng.Shuffle(len(k.Sporks), func(i, j int) { k.Sporks[i], k.Sporks[j] = k.Sporks[j], k.Sporks[i] })
	}
	return c
}

// mostly a plausible time; now and then a boundary value of the field (absent / zero / negative / the first second)
func genesisTimestamp(rng *rand.Rand) int64 {
	switch rng.Intn(8) {
	case 0:
		return []int64{0, 0, -1, -1000000000, 1}[rng.Intn(5)]
	}
	return int64(1000000000 + rng.Intn(1000000))
}
