package main

import (
	"bytes"
	"crypto/sha256"
	"encoding/hex"
	"encoding/json"
	"fmt"
	"math/big"
	"math/rand"
	"os"
	"os/exec"
	"path/filepath"
	"sort"
	"time"
	. "zharness/hz"

	"github.com/zenon-network/go-zenon/chain"
	"github.com/zenon-network/go-zenon/chain/genesis"
	"github.com/zenon-network/go-zenon/chain/nom"
	"github.com/zenon-network/go-zenon/common/db"
	"github.com/zenon-network/go-zenon/common/types"
	"github.com/zenon-network/go-zenon/vm/embedded/definition"
	"github.com/zenon-network/go-zenon/vm/vm_context"
)

func main() {
	Main(map[string]Runner{"genesis": runGenesis, "compat": runCompat, "child": runChild})
}

// ---- observation helpers

type kvT struct{ k, v []byte }
type collector struct{ m map[string][]byte }

func (c *collector) Put(key, value []byte) { c.m[string(key)] = append([]byte{}, value...) }
func (c *collector) Delete(key []byte)     { c.m[string(key)] = nil }

// sorted last-wins contents of a patch
func patchKV(p db.Patch) []kvT {
	c := &collector{m: map[string][]byte{}}
	if err := p.Replay(c); err != nil {
		panic(err)
	}
	keys := make([]string, 0, len(c.m))
	for k := range c.m {
		keys = append(keys, k)
	}
	sort.Strings(keys)
	r := make([]kvT, len(keys))
	for i, k := range keys {
		r[i] = kvT{[]byte(k), c.m[k]}
	}
	return r
}

// the writes in program order
type recorder struct{ l []kvT }

func (c *recorder) Put(key, value []byte) {
	c.l = append(c.l, kvT{append([]byte{}, key...), append([]byte{}, value...)})
}
func (c *recorder) Delete(key []byte) {}
func writesOf(save func(d db.DB)) []kvT {
	d := db.NewMemDB()
	save(d)
	p, err := d.Changes()
	if err != nil {
		panic(err)
	}
	r := &recorder{}
	p.Replay(r)
	return r.l
}

// the writes of a Save method on the contract's storage (as the account patch sees them)
func storageWrites(addr types.Address, save func(d db.DB)) []kvT {
	ctx := vm_context.NewGenesisAccountContext(addr)
	save(ctx.Storage())
	p, err := ctx.Changes()
	if err != nil {
		panic(err)
	}
	r := &recorder{}
	p.Replay(r)
	return r.l
}
func kvTerm(l []kvT) []interface{} {
	r := make([]interface{}, len(l))
	for i, e := range l {
		r[i] = Tup(Byt(e.k), Byt(e.v))
	}
	return r
}

// the writes each configuration entry of one account performs, in the order of chain/genesis/account_block.go
func accountEntries(cfg *genesis.GenesisConfig, addr types.Address, block *nom.AccountBlock) []interface{} {
	var es []interface{}
	add := func(w []kvT) { es = append(es, kvTerm(w)) }
	switch addr {
	case types.PillarContract:
		for _, p := range cfg.PillarConfig.Pillars {
			p := p
			add(storageWrites(addr, func(d db.DB) { p.Save(d) }))
			add(storageWrites(addr, func(d db.DB) {
				(&definition.ProducingPillar{Name: p.Name, Producing: &p.BlockProducingAddress}).Save(d)
			}))
		}
		for _, x := range cfg.PillarConfig.Delegations {
			x := x
			add(storageWrites(addr, func(d db.DB) { x.Save(d) }))
		}
		for _, x := range cfg.PillarConfig.LegacyEntries {
			x := x
			add(storageWrites(addr, func(d db.DB) { x.Save(d) }))
		}
	case types.TokenContract:
		for _, x := range cfg.TokenConfig.Tokens {
			x := x
			add(storageWrites(addr, func(d db.DB) { x.Save(d) }))
		}
	case types.PlasmaContract:
		fused := map[types.Address]*big.Int{}
		var order []types.Address
		for _, x := range cfg.PlasmaConfig.Fusions {
			x := x
			add(storageWrites(addr, func(d db.DB) { x.Save(d) }))
			if a, ok := fused[x.Beneficiary]; ok {
				a.Add(a, x.Amount)
			} else {
				fused[x.Beneficiary] = new(big.Int).Set(x.Amount)
				order = append(order, x.Beneficiary)
			}
		}
		for _, b := range order {
			b := b
			add(storageWrites(addr, func(d db.DB) { (&definition.FusedAmount{Beneficiary: b, Amount: fused[b]}).Save(d) }))
		}
	case types.SwapContract:
		for _, x := range cfg.SwapConfig.Entries {
			x := x
			add(storageWrites(addr, func(d db.DB) { x.Save(d) }))
		}
	case types.SporkContract:
		if cfg.SporkConfig != nil {
			for _, x := range cfg.SporkConfig.Sporks {
				x := x
				add(storageWrites(addr, func(d db.DB) { x.Save(d) }))
			}
		}
	}
	// balances: every entry of the address, every token of its BalanceList
	for _, b := range cfg.GenesisBlocks.Blocks {
		if b.Address != addr {
			continue
		}
		zs := make([]types.ZenonTokenStandard, 0, len(b.BalanceList))
		for z := range b.BalanceList {
			zs = append(zs, z)
		}
		sort.Slice(zs, func(i, j int) bool { return bytes.Compare(zs[i][:], zs[j][:]) < 0 })
		for _, z := range zs {
			ctx := vm_context.NewGenesisAccountContext(addr)
			if err := ctx.SetBalance(z, b.BalanceList[z]); err != nil {
				panic(err)
			}
			p, _ := ctx.Changes()
			r := &recorder{}
			p.Replay(r)
			add(r.l)
		}
	}
	// the block itself: db.SetFrontier(identifier, Serialize())
	data, _ := block.Serialize()
	add(writesOf(func(d db.DB) { db.SetFrontier(d, block.Identifier(), data) }))
	return es
}

// ---- terms of the validator model (coq/theories/Genesis.v)
func balTerm(m map[types.ZenonTokenStandard]*big.Int) []interface{} {
	zs := make([]types.ZenonTokenStandard, 0, len(m))
	for z := range m {
		zs = append(zs, z)
	}
	sort.Slice(zs, func(i, j int) bool { return bytes.Compare(zs[i][:], zs[j][:]) < 0 })
	r := make([]interface{}, len(zs))
	for i, z := range zs {
		r[i] = Tup(Byt(z[:]), Big(m[z]))
	}
	return r
}
func blocksTerm(cfg *genesis.GenesisConfig) []interface{} {
	r := []interface{}{}
	for _, b := range cfg.GenesisBlocks.Blocks {
		r = append(r, Con("mkGB", Byt(b.Address[:]), balTerm(b.BalanceList)))
	}
	return r
}
func cfgTerm(cfg *genesis.GenesisConfig) M {
	opt := func(present bool, f func() interface{}) M {
		if !present {
			return None()
		}
		return Some(f())
	}
	return Con("mkCfg", cfg.SporkAddress != nil,
		opt(cfg.PillarConfig != nil, func() interface{} {
			r := []interface{}{}
			for _, p := range cfg.PillarConfig.Pillars {
				r = append(r, Big(p.Amount))
			}
			return r
		}),
		opt(cfg.TokenConfig != nil, func() interface{} {
			r := []interface{}{}
			for _, t := range cfg.TokenConfig.Tokens {
				r = append(r, Tup(Byt(t.TokenStandard[:]), Big(t.TotalSupply)))
			}
			return r
		}),
		opt(cfg.PlasmaConfig != nil, func() interface{} {
			r := []interface{}{}
			for _, f := range cfg.PlasmaConfig.Fusions {
				if f == nil {
					r = append(r, None())
				} else {
					r = append(r, Some(Big(f.Amount)))
				}
			}
			return r
		}),
		opt(cfg.SwapConfig != nil, func() interface{} {
			r := []interface{}{}
			for _, e := range cfg.SwapConfig.Entries {
				r = append(r, Tup(e.Znn != nil, e.Qsr != nil))
			}
			return r
		}),
		opt(cfg.GenesisBlocks != nil, func() interface{} { return blocksTerm(cfg) }))
}

func checkCase(out *Out, cfg *genesis.GenesisConfig, tag string) error {
	err := genesis.CheckGenesis(cfg)
	out.Case("check_genesis", cfgTerm(cfg), err == nil, tag)
	return err
}

type built struct {
	hash types.Hash
	dump []byte
	g    interface {
		GetGenesisMomentum() *nom.Momentum
		GetGenesisTransaction() *nom.MomentumTransaction
	}
}

func build(cfg *genesis.GenesisConfig) built {
	g := genesis.NewGenesis(cfg)
	return built{hash: g.GetGenesisMomentum().Hash, dump: g.GetGenesisTransaction().Changes.Dump(), g: g}
}

func loadPaths(out *Out, cfg *genesis.GenesisConfig, b0 built, i int) {
	data, err := json.MarshalIndent(cfg, "", "  ")
	if err != nil {
		out.Oracle(false, "config-does-not-marshal", M{"err": err.Error()})
		return
	}
	dir, _ := os.MkdirTemp("", "c20file")
	defer os.RemoveAll(dir)
	path := filepath.Join(dir, "genesis.json")
	if err := os.WriteFile(path, data, 0600); err != nil {
		panic(err)
	}
	g, err := genesis.ReadGenesisConfigFromFile(path)
	if err != nil || g == nil {
		out.Oracle(false, "consistent-config-refused-from-file", M{"config": i, "err": fmt.Sprint(err)})
		return
	}
	same := g.GetGenesisMomentum().Hash == b0.hash && bytes.Equal(g.GetGenesisTransaction().Changes.Dump(), b0.dump) &&
		len(g.GetGenesisMomentum().Content) == len(b0.g.GetGenesisMomentum().Content)
	out.Oracle(same, "file-loaded-genesis-equals-in-memory-genesis",
		M{"config": i, "spork_section": cfg.SporkConfig != nil, "from_file": g.GetGenesisMomentum().Hash.String(), "in_memory": b0.hash.String(),
			"blocks_from_file": len(g.GetGenesisMomentum().Content), "blocks_in_memory": len(b0.g.GetGenesisMomentum().Content)})
	// and decoded by hand (what an embedding program does) and built again
	var back genesis.GenesisConfig
	if err := json.Unmarshal(data, &back); err == nil {
		out.Oracle(build(&back).hash == b0.hash, "json-round-trip-of-config-same-genesis", M{"config": i})
	}
	out.Count(fmt.Sprintf("load-paths:spork-section=%v", cfg.SporkConfig != nil))
}

// ---- perturbations: every single-entry change of a consistent configuration that breaks consistency
type pert struct {
	what string
	key  string
	cfg  *genesis.GenesisConfig
}

func perturbations(cfg *genesis.GenesisConfig) []pert {
	var ps []pert
	one := big.NewInt(1)
	addp := func(what, key string, f func(c *genesis.GenesisConfig) bool) {
		c := clone(cfg)
		if f(c) {
			ps = append(ps, pert{what, key, c})
		}
	}
	// a declared token with a supply taken away from EVERY holder (nobody holds it any more): for every token, in each
	// of its flag combinations (mintable / burnable / utility as generated and flipped)
	for ti, t := range cfg.TokenConfig.Tokens {
		ti, z := ti, t.TokenStandard
		if t.TotalSupply.Sign() == 0 || z == types.ZnnTokenStandard || z == types.QsrTokenStandard {
			continue
		}
		for _, flip := range []bool{false, true} {
			flip := flip
			addp(fmt.Sprintf("token %d taken from every holder (mintable flipped: %v)", ti, flip), "inconsistent-config-accepted", func(c *genesis.GenesisConfig) bool {
				for _, o := range c.GenesisBlocks.Blocks {
					delete(o.BalanceList, z)
				}
				if flip {
					c.TokenConfig.Tokens[ti].IsMintable = !c.TokenConfig.Tokens[ti].IsMintable
				}
				return true
			})
		}
	}
	for i, b := range cfg.GenesisBlocks.Blocks {
		i := i
		isContract := b.Address == types.PlasmaContract || b.Address == types.PillarContract || b.Address == types.SwapContract
		for z := range b.BalanceList {
			z := z
			addp(fmt.Sprintf("balance %d +1", i), "inconsistent-config-accepted", func(c *genesis.GenesisConfig) bool {
				c.GenesisBlocks.Blocks[i].BalanceList[z].Add(c.GenesisBlocks.Blocks[i].BalanceList[z], one)
				return true
			})
			addp(fmt.Sprintf("balance %d token removed", i), "inconsistent-config-accepted", func(c *genesis.GenesisConfig) bool {
				nonzero := c.GenesisBlocks.Blocks[i].BalanceList[z].Sign() != 0
				delete(c.GenesisBlocks.Blocks[i].BalanceList, z)
				// removing a zero amount keeps the sums; it is inconsistent only if the token is then given nowhere
				if !nonzero {
					for _, o := range c.GenesisBlocks.Blocks {
						if _, ok := o.BalanceList[z]; ok {
							return false
						}
					}
				}
				return true
			})
		}
		addp(fmt.Sprintf("entry %d: undeclared token added", i), "inconsistent-config-accepted", func(c *genesis.GenesisConfig) bool {
			var z types.ZenonTokenStandard
			z[0] = 0xee
			c.GenesisBlocks.Blocks[i].BalanceList[z] = big.NewInt(0)
			return true
		})
		if isContract {
			// drop the contract's entry and lower the supplies by what it held: only the holdings check can notice (F14)
			addp(fmt.Sprintf("contract entry %d removed, supplies lowered", i), "contract-without-entry-accepted", func(c *genesis.GenesisConfig) bool {
				e := c.GenesisBlocks.Blocks[i]
				nonzero := false
				for z, a := range e.BalanceList {
					if a.Sign() != 0 {
						nonzero = true
					}
					for _, t := range c.TokenConfig.Tokens {
						if t.TokenStandard == z {
							t.TotalSupply.Sub(t.TotalSupply, a)
						}
					}
				}
				c.GenesisBlocks.Blocks = append(c.GenesisBlocks.Blocks[:i], c.GenesisBlocks.Blocks[i+1:]...)
				return nonzero
			})
		} else if len(b.BalanceList) > 0 {
			// a second entry for the same address that takes over part of the balance: sums unchanged, state changed
			addp(fmt.Sprintf("entry %d split into two entries of one address", i), "duplicate-address-accepted", func(c *genesis.GenesisConfig) bool {
				e := c.GenesisBlocks.Blocks[i]
				for z, a := range e.BalanceList {
					if a.Sign() > 0 {
						half := new(big.Int).Rsh(a, 1)
						rest := new(big.Int).Sub(a, half)
						e.BalanceList[z] = half
						c.GenesisBlocks.Blocks = append(c.GenesisBlocks.Blocks, &genesis.GenesisBlockConfig{Address: e.Address,
							BalanceList: map[types.ZenonTokenStandard]*big.Int{z: rest}})
						return true
					}
				}
				return false
			})
		}
	}
	for i := range cfg.TokenConfig.Tokens {
		i := i
		addp(fmt.Sprintf("token %d supply +1", i), "inconsistent-config-accepted", func(c *genesis.GenesisConfig) bool {
			c.TokenConfig.Tokens[i].TotalSupply.Add(c.TokenConfig.Tokens[i].TotalSupply, one)
			return true
		})
		addp(fmt.Sprintf("token %d removed", i), "inconsistent-config-accepted", func(c *genesis.GenesisConfig) bool {
			c.TokenConfig.Tokens = append(c.TokenConfig.Tokens[:i], c.TokenConfig.Tokens[i+1:]...)
			return true
		})
	}
	for i := range cfg.PillarConfig.Pillars {
		i := i
		addp(fmt.Sprintf("pillar %d stake +1", i), "inconsistent-config-accepted", func(c *genesis.GenesisConfig) bool {
			c.PillarConfig.Pillars[i].Amount.Add(c.PillarConfig.Pillars[i].Amount, one)
			return true
		})
		addp(fmt.Sprintf("pillar %d removed", i), "inconsistent-config-accepted", func(c *genesis.GenesisConfig) bool {
			nz := c.PillarConfig.Pillars[i].Amount.Sign() != 0
			c.PillarConfig.Pillars = append(c.PillarConfig.Pillars[:i], c.PillarConfig.Pillars[i+1:]...)
			return nz
		})
	}
	for i := range cfg.PlasmaConfig.Fusions {
		i := i
		addp(fmt.Sprintf("fusion %d amount +1", i), "inconsistent-config-accepted", func(c *genesis.GenesisConfig) bool {
			c.PlasmaConfig.Fusions[i].Amount.Add(c.PlasmaConfig.Fusions[i].Amount, one)
			return true
		})
		addp(fmt.Sprintf("fusion %d removed", i), "inconsistent-config-accepted", func(c *genesis.GenesisConfig) bool {
			nz := c.PlasmaConfig.Fusions[i].Amount.Sign() != 0
			c.PlasmaConfig.Fusions = append(c.PlasmaConfig.Fusions[:i], c.PlasmaConfig.Fusions[i+1:]...)
			return nz
		})
		addp(fmt.Sprintf("fusion %d nil", i), "inconsistent-config-accepted", func(c *genesis.GenesisConfig) bool {
			c.PlasmaConfig.Fusions[i] = nil
			return true
		})
	}
	for i := range cfg.SwapConfig.Entries {
		i := i
		addp(fmt.Sprintf("swap entry %d without znn", i), "inconsistent-config-accepted", func(c *genesis.GenesisConfig) bool {
			c.SwapConfig.Entries[i].Znn = nil
			return true
		})
		addp(fmt.Sprintf("swap entry %d without qsr", i), "inconsistent-config-accepted", func(c *genesis.GenesisConfig) bool {
			c.SwapConfig.Entries[i].Qsr = nil
			return true
		})
	}
	addp("swap contract holds 1 znn (supply raised)", "inconsistent-config-accepted", func(c *genesis.GenesisConfig) bool {
		c.GenesisBlocks.Blocks = append(c.GenesisBlocks.Blocks, &genesis.GenesisBlockConfig{Address: types.SwapContract,
			BalanceList: map[types.ZenonTokenStandard]*big.Int{types.ZnnTokenStandard: big.NewInt(1)}})
		for _, o := range cfg.GenesisBlocks.Blocks {
			if o.Address == types.SwapContract {
				return false
			}
		}
		for _, t := range c.TokenConfig.Tokens {
			if t.TokenStandard == types.ZnnTokenStandard {
				t.TotalSupply.Add(t.TotalSupply, one)
			}
		}
		return true
	})
	for k, f := range []func(c *genesis.GenesisConfig){
		func(c *genesis.GenesisConfig) { c.GenesisBlocks = nil },
		func(c *genesis.GenesisConfig) { c.TokenConfig = nil },
		func(c *genesis.GenesisConfig) { c.PillarConfig = nil },
		func(c *genesis.GenesisConfig) { c.SporkAddress = nil },
		func(c *genesis.GenesisConfig) { c.PlasmaConfig = nil },
		func(c *genesis.GenesisConfig) { c.SwapConfig = nil },
	} {
		f := f
		addp(fmt.Sprintf("section %d nil", k), "inconsistent-config-accepted", func(c *genesis.GenesisConfig) bool { f(c); return true })
	}
	return ps
}

// direct statement on the genesis STATE: balances add up to the supplies, contracts hold their liabilities
func stateOracle(out *Out, cfg *genesis.GenesisConfig, tag string) {
	dir, _ := os.MkdirTemp("", "c20")
	defer os.RemoveAll(dir)
	ch := chain.NewChain(db.NewLevelDBManager(dir), genesis.NewGenesis(cfg))
	if err := ch.Init(); err != nil {
		out.Oracle(false, "fresh-db-refused", M{"err": err.Error()})
		return
	}
	defer ch.Stop()
	st := ch.GetFrontierMomentumStore()
	sum := map[types.ZenonTokenStandard]*big.Int{}
	seen := map[types.Address]bool{}
	for _, b := range cfg.GenesisBlocks.Blocks {
		if seen[b.Address] {
			continue
		}
		seen[b.Address] = true
		as := st.GetAccountStore(b.Address)
		for _, t := range cfg.TokenConfig.Tokens {
			bal, err := as.GetBalance(t.TokenStandard)
			if err != nil {
				panic(err)
			}
			if sum[t.TokenStandard] == nil {
				sum[t.TokenStandard] = big.NewInt(0)
			}
			sum[t.TokenStandard].Add(sum[t.TokenStandard], bal)
			out.Case("state_balance", Tup(blocksTerm(cfg), Byt(b.Address[:]), Byt(t.TokenStandard[:])), Big(bal), tag)
		}
	}
	ok := true
	for _, t := range cfg.TokenConfig.Tokens {
		s := sum[t.TokenStandard]
		if s == nil {
			s = big.NewInt(0)
		}
		if s.Cmp(t.TotalSupply) != 0 {
			ok = false
		}
	}
	hold := func(a types.Address, z types.ZenonTokenStandard) *big.Int {
		b, _ := st.GetAccountStore(a).GetBalance(z)
		return b
	}
	fuse := big.NewInt(0)
	for _, f := range cfg.PlasmaConfig.Fusions {
		fuse.Add(fuse, f.Amount)
	}
	stake := big.NewInt(0)
	for _, p := range cfg.PillarConfig.Pillars {
		stake.Add(stake, p.Amount)
	}
	okHold := hold(types.PlasmaContract, types.QsrTokenStandard).Cmp(fuse) == 0 && hold(types.PillarContract, types.ZnnTokenStandard).Cmp(stake) == 0 &&
		hold(types.SwapContract, types.ZnnTokenStandard).Sign() == 0 && hold(types.SwapContract, types.QsrTokenStandard).Sign() == 0
	out.Oracle(ok && okHold, "accepted-config-state-inconsistent", M{"tag": tag, "supplies_ok": ok, "holdings_ok": okHold})
}

func runGenesis(rng *rand.Rand, n int, out *Out, _ []string) {
	Quiet()
	defer func() {
		out.Count(fmt.Sprintf("gen:configs-with-funded-spork-contract-and-no-spork-section=%d", sporkFundedNoSection))
	}()
	for i := 0; i < n; i++ {
		cfg := genConfig(rng)
		if err := checkCase(out, cfg, "consistent"); err != nil {
			out.Oracle(false, "consistent-config-refused", M{"err": err.Error()})
			continue
		}
		out.Oracle(true, "consistent-config-refused", nil)
		b0 := build(cfg)
		// the same configuration reaching a node by its other load path — written as the JSON file a node is started
		// with and read back by the product's own loader — is the same chain (same hash, same genesis transaction)
		loadPaths(out, cfg, b0, i)
		// construction: per-account patch and the content order
		pool := genesis.VerifGenesisAccountPool(cfg)
		blocks := pool.GetAllUncommittedAccountBlocks()
		accs := []interface{}{}
		for _, b := range blocks {
			p := pool.GetPatch(b.Address, b.Identifier())
			if i%2 == 0 || types.IsEmbeddedAddress(b.Address) {
				out.Case("genesis_patch", accountEntries(cfg, b.Address, b), kvTerm(patchKV(p)), "account")
			}
		}
		// accounts in the order the pool is filled: the four contracts, spork, then GenesisBlocks order
		order := []types.Address{types.PillarContract, types.TokenContract, types.PlasmaContract, types.SwapContract}
		if cfg.SporkConfig != nil {
			order = append(order, types.SporkContract)
		}
		for _, gb := range cfg.GenesisBlocks.Blocks {
			order = append(order, gb.Address)
		}
		hashOf := map[types.Address]types.Hash{}
		for _, b := range blocks {
			hashOf[b.Address] = b.Hash
		}
		for _, a := range order {
			h := hashOf[a]
			accs = append(accs, Con("mkGA", Byt(a[:]), Byt(h[:]), Lst()))
		}
		content := []interface{}{}
		for _, h := range b0.g.GetGenesisMomentum().Content {
			content = append(content, Con("mkAHeader", Byt(h.Address[:]), Byt(h.Hash[:]), U64(h.Height)))
		}
		out.Case("genesis_content", accs, content, "content")
		// permutations of every order-free list
		for k := 0; k < 3; k++ {
			p := permuted(rng, cfg)
			bp := build(p)
			out.Oracle(bp.hash == b0.hash && bytes.Equal(bp.dump, b0.dump), "permutation-changes-genesis", M{"config": i})
			if k == 0 {
				checkCase(out, p, "permuted")
			}
		}
		// fresh processes (map iteration order, allocation)
		if i%4 == 0 || cfg.GenesisTimestampSec <= 1 {
			if cfg.GenesisTimestampSec <= 1 {
				// the second construction happens in another wall-clock second
				time.Sleep(1100 * time.Millisecond)
				out.Count("gen:boundary-timestamp-rebuilt-in-another-second")
				again := build(cfg)
				out.Oracle(again.hash == b0.hash && bytes.Equal(again.dump, b0.dump), "process-changes-genesis", M{"config": i, "what": "rebuilt in the same process one second later", "timestamp": cfg.GenesisTimestampSec})
			}
			h, d, err := childBuild(cfg)
			sum := sha256.Sum256(b0.dump)
			out.Oracle(err == nil && h == b0.hash.String() && d == hex.EncodeToString(sum[:]), "process-changes-genesis", M{"config": i, "err": fmt.Sprint(err)})
		}
		// state of an accepted configuration
		stateOracle(out, cfg, "consistent")
		// single-entry perturbations
		for _, p := range perturbations(cfg) {
			err := checkCase(out, p.cfg, "perturbed")
			out.Count("perturbation:" + p.key)
			out.Oracle(err != nil, p.key, M{"what": p.what, "config": i})
		}
	}
}

// ---- fresh process
func childBuild(cfg *genesis.GenesisConfig) (string, string, error) {
	f, err := os.CreateTemp("", "c20cfg")
	if err != nil {
		return "", "", err
	}
	defer os.Remove(f.Name())
	json.NewEncoder(f).Encode(cfg)
	f.Close()
	o, err := os.CreateTemp("", "c20out")
	if err != nil {
		return "", "", err
	}
	o.Close()
	defer os.Remove(o.Name())
	cmd := exec.Command(os.Args[0], "child", "-seed", "0", "-n", "0", "-out", o.Name(), f.Name())
	if b, err := cmd.CombinedOutput(); err != nil {
		return "", "", fmt.Errorf("%v: %s", err, b)
	}
	data, _ := os.ReadFile(o.Name())
	for _, line := range bytes.Split(data, []byte("\n")) {
		var m map[string]interface{}
		if json.Unmarshal(line, &m) == nil && m["k"] == "child" {
			return m["hash"].(string), m["dump"].(string), nil
		}
	}
	return "", "", fmt.Errorf("no child result")
}
func runChild(_ *rand.Rand, _ int, out *Out, args []string) {
	Quiet()
	data, err := os.ReadFile(args[0])
	if err != nil {
		panic(err)
	}
	cfg := new(genesis.GenesisConfig)
	if err := json.Unmarshal(data, cfg); err != nil {
		panic(err)
	}
	b := build(cfg)
	sum := sha256.Sum256(b.dump)
	out.Emit(M{"k": "child", "hash": b.hash.String(), "dump": hex.EncodeToString(sum[:])})
}

// ---- database created with configuration A, node started with configuration B
func initWith(dir string, cfg *genesis.GenesisConfig) (error, types.Hash) {
	ch := chain.NewChain(db.NewLevelDBManager(dir), genesis.NewGenesis(cfg))
	err := ch.Init()
	var h types.Hash
	if m, e := ch.GetFrontierMomentumStore().GetMomentumByHeight(1); e == nil && m != nil {
		h = m.Hash
	}
	ch.Stop()
	return err, h
}
func runCompat(rng *rand.Rand, n int, out *Out, _ []string) {
	Quiet()
	for i := 0; i < n; i++ {
		a := genConfig(rng)
		ha := build(a).hash
		var b *genesis.GenesisConfig
		what := ""
		switch rng.Intn(7) {
		case 0:
			b, what = clone(a), "same"
		case 1:
			b, what = permuted(rng, a), "permuted"
		case 2:
			b, what = clone(a), "chain identifier"
			b.ChainIdentifier++
		case 3:
			b, what = clone(a), "timestamp"
			b.GenesisTimestampSec++
		case 4:
			b, what = clone(a), "extra data"
			b.ExtraData += "x"
		case 5:
			ps := perturbations(a)
			p := ps[rng.Intn(len(ps))]
			b, what = p.cfg, "perturbed: "+p.what
			if b.GenesisBlocks == nil || b.TokenConfig == nil || b.PillarConfig == nil || b.PlasmaConfig == nil || b.SwapConfig == nil {
				b, what = genConfig(rng), "unrelated"
			}
			for _, f := range b.PlasmaConfig.Fusions {
				if f == nil {
					b, what = genConfig(rng), "unrelated"
					break
				}
			}
			for _, e := range b.SwapConfig.Entries {
				if e.Znn == nil || e.Qsr == nil {
					b, what = genConfig(rng), "unrelated"
					break
				}
			}
		default:
			b, what = genConfig(rng), "unrelated"
		}
		hb := build(b).hash
		dir, _ := os.MkdirTemp("", "c20db")
		// empty database
		err0, h0 := initWith(dir, a)
		out.Case("init_db", Tup(None(), Byt(ha[:])), optHash(err0, h0), "empty-db")
		out.Oracle(err0 == nil && h0 == ha, "fresh-db-refused", M{"what": what})
		// restart with B
		err1, h1 := initWith(dir, b)
		out.Case("init_db", Tup(Some(Byt(ha[:])), Byt(hb[:])), optHash(err1, h1), "restart:"+map[bool]string{true: "same-genesis", false: "other-genesis"}[ha == hb])
		if ha == hb {
			out.Oracle(err1 == nil, "matching-db-refused", M{"what": what})
		} else {
			out.Oracle(err1 != nil && h1 == ha, "mismatching-db-accepted", M{"what": what})
		}
		// and the original still starts on its own database afterwards
		err2, h2 := initWith(dir, a)
		out.Oracle(err2 == nil && h2 == ha, "db-damaged-by-refused-start", M{"what": what})
		os.RemoveAll(dir)
	}
}
func optHash(err error, h types.Hash) M {
	if err != nil {
		return None()
	}
	return Some(Byt(h[:]))
}
