package main

import . "zharness/hz"

func main() {
	Main(map[string]Runner{"abi": runAbi, "calls": runCalls, "removed": runRemoved})
}
