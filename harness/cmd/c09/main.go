package main

import (
	"zharness/embx"
	. "zharness/hz"
)

func main() {
	Main(map[string]Runner{"abi": embx.RunAbi, "calls": embx.RunCalls, "removed": embx.RunRemoved, "wedge": embx.RunWedge})
}
