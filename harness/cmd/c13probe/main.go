package main

import (
	"bytes"
	"fmt"
	"math/big"
	. "zharness/hz"

	g "github.com/zenon-network/go-zenon/chain/genesis/mock"
	"github.com/zenon-network/go-zenon/chain/nom"
	"github.com/zenon-network/go-zenon/common/db"
	"github.com/zenon-network/go-zenon/common/types"
	"github.com/zenon-network/go-zenon/vm/embedded/definition"
	"github.com/zenon-network/go-zenon/zenon/mock"
	"github.com/zenon-network/go-zenon/protocol"
	"github.com/zenon-network/go-zenon/verifier"
)

func cp(b *nom.AccountBlock) *nom.AccountBlock {
	d, _ := b.Serialize()
	x, _ := nom.DeserializeAccountBlock(d)
	return x
}

func try(nd *Node, name string, orig *nom.AccountBlockTransaction, v *nom.AccountBlock) {
	ob, _ := orig.Block.Serialize()
	tx, err := nd.Apply(v)
	if err != nil {
		fmt.Printf("%-40s rejected: %v\n", name, err)
		return
	}
	vb, _ := tx.Block.Serialize()
	fmt.Printf("%-40s ACCEPTED sameBytes=%v samePatch=%v sameHash=%v\n", name, bytes.Equal(ob, vb), db.PatchHash(tx.Changes) == db.PatchHash(orig.Changes), tx.Block.Hash == orig.Block.Hash)
}

func main() {
	nd := NewNode()
	defer nd.Stop()
	// user send, signed
	b := &nom.AccountBlock{BlockType: nom.BlockTypeUserSend, Address: g.User1.Address, ToAddress: g.User2.Address,
		TokenStandard: types.ZnnTokenStandard, Amount: big.NewInt(5 * g.Zexp), FusedPlasma: 21000}
	nd.Fill(b)
	Sign(b, g.User1)
	orig, err := nd.Apply(cp(b))
	fmt.Println("orig user send:", err, orig.Block.BasePlasma, orig.Block.TotalPlasma, orig.Block.ChangesHash)
	v := cp(b); v.ChangesHash = types.NewHash([]byte("x")); try(nd, "user changeshash", orig, v)
	v = cp(b); v.BasePlasma = 7; v.TotalPlasma = 9; try(nd, "user plasma fields", orig, v)
	v = cp(b); v.PublicKey = append(append([]byte{}, v.PublicKey...), 0); try(nd, "user pk trailing", orig, v)
	v = cp(b); v.Signature = append(append([]byte{}, v.Signature...), 0); try(nd, "user sig trailing", orig, v)
	v = cp(b); v.Signature[63] |= 0x80; try(nd, "user sig high bit", orig, v)
	v = cp(b); v.DescendantBlocks = []*nom.AccountBlock{}; try(nd, "user empty desc", orig, v)
	v = cp(b); v.Amount = new(big.Int).Neg(v.Amount); try(nd, "user negative amount (same hash)", orig, v)

	// contract call -> contract receive with descendant (refund)
	nd.Z.InsertSendBlock(&nom.AccountBlock{Address: g.User1.Address, ToAddress: types.SentinelContract,
		TokenStandard: types.QsrTokenStandard, Amount: big.NewInt(50 * g.Zexp),
		Data: definition.ABISentinel.PackMethodPanic(definition.DepositQsrMethodName)}, nil, mock.SkipVmChanges)
	nd.Momentum(); nd.Momentum()
	sb := nd.Z.InsertSendBlock(&nom.AccountBlock{Address: g.User1.Address, ToAddress: types.SentinelContract,
		Data: definition.ABISentinel.PackMethodPanic(definition.WithdrawQsrMethodName)}, nil, mock.SkipVmChanges)
	nd.Momentum()
	_ = sb
	fb, _ := nd.Ch.GetFrontierAccountStore(types.SentinelContract).Frontier()
	cr, err := nd.Apply(cp(fb))
	if err != nil { panic(err) }
	fmt.Println("contract receive: desc", len(cr.Block.DescendantBlocks), "from", fb.FromBlockHash == sb.Hash)
	for _, d := range cr.Block.DescendantBlocks { fmt.Println("  desc", d.BlockType, d.ToAddress, d.Amount, d.TokenStandard, d.Height) }
	v = cp(cr.Block); try(nd, "cr identical", cr, v)
	v = cp(cr.Block); v.ChangesHash = types.NewHash([]byte("x")); try(nd, "cr changeshash", cr, v)
	v = cp(cr.Block); v.BasePlasma = 7; v.TotalPlasma = 9; try(nd, "cr plasma fields", cr, v)
	v = cp(cr.Block); v.DescendantBlocks[0].Amount = big.NewInt(7777 * g.Zexp); try(nd, "cr desc amount (hash field kept)", cr, v)
	v = cp(cr.Block); v.DescendantBlocks[0].ToAddress = g.User3.Address; try(nd, "cr desc toaddress", cr, v)
	v = cp(cr.Block); v.DescendantBlocks[0].ChangesHash = types.NewHash([]byte("x")); try(nd, "cr desc changeshash", cr, v)
	v = cp(cr.Block); v.DescendantBlocks[0].PublicKey = []byte{1, 2, 3}; try(nd, "cr desc publickey", cr, v)
	v = cp(cr.Block); v.DescendantBlocks[0].Data = []byte{1, 2, 3}; try(nd, "cr desc data", cr, v)
	v = cp(cr.Block); v.DescendantBlocks[0].BasePlasma = 5; try(nd, "cr desc baseplasma", cr, v)
	v = cp(cr.Block); v.DescendantBlocks[0].DescendantBlocks = []*nom.AccountBlock{cp(b)}; try(nd, "cr desc nested desc", cr, v)
	v = cp(cr.Block); v.PublicKey = []byte{1}; try(nd, "cr publickey", cr, v)

	// end to end: a node that has momentum M_k (send confirmed) but not yet the contract receive
	br := protocol.NewChainBridge(nd.Ch, nd.Cs, verifier.NewVerifier(nd.Ch, nd.Cs), nd.Sv)
	st := nd.Ch.GetFrontierMomentumStore()
	mk, _ := st.GetFrontierMomentum()
	dm := br.GetBlock(mk.Hash)
	prev, _ := st.GetMomentumByHeight(mk.Height - 1)
	ins := nd.Ch.AcquireInsert("x")
	fmt.Println("rollback:", nd.Ch.RollbackTo(ins, prev.Identifier()))
	ins.Unlock()
	_, err = br.InsertChain([]*nom.DetailedMomentum{dm})
	fmt.Println("reinsert M_k:", err, "frontier", nd.FrontierHeight())
	fb2, _ := nd.Ch.GetFrontierAccountStore(types.SentinelContract).Frontier()
	fmt.Println("contract frontier height now", fb2.Height, "cr height", fb.Height)
	v = cp(fb)
	v.DescendantBlocks[0].Amount = big.NewInt(7777 * g.Zexp)
	v.DescendantBlocks[0].ToAddress = g.User3.Address
	fmt.Println("peer delivers variant via AddAccountBlocks:", br.AddAccountBlocks([]*nom.AccountBlock{v}))
	nd.Momentum()
	nd.Momentum()
	st = nd.Ch.GetFrontierMomentumStore()
	sd, _ := st.GetAccountBlockByHash(v.DescendantBlocks[0].Hash)
	fmt.Println("stored descendant: amount", sd.Amount, "to", sd.ToAddress, "hash-ok", sd.ComputeHash() == sd.Hash, "frontier", nd.FrontierHeight())
	bal0, _ := nd.Ch.GetFrontierAccountStore(g.User3.Address).GetBalance(types.QsrTokenStandard)
	rb := nd.Z.InsertReceiveBlock(sd.Header(), &nom.AccountBlock{Address: g.User3.Address}, nil, mock.SkipVmChanges)
	nd.Momentum()
	bal1, _ := nd.Ch.GetFrontierAccountStore(g.User3.Address).GetBalance(types.QsrTokenStandard)
	fmt.Println("receive by User3:", rb != nil, "QSR before", bal0, "after", bal1, "delta", new(big.Int).Sub(bal1, bal0))
}
