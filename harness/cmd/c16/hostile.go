package main

// The hostile producer (C16, clauses "whose every momentum and account block passes full verification in order" /
// "the node never ends up holding a momentum or account block that failed verification" / "missing or extra account
// blocks"): momentums that are stamped with the start of their slot and correctly signed by the pillar ELECTED for it
// (the harness owns the pillar keys), but whose CONTENT does not correspond to the account blocks that are delivered
// with them / that were applied when the changes hash was computed:
//
//	a header listed without any block; the header of a bare BlockTypeContractSend of an embedded contract that no
//	contract receive carries (the sync loop and the content check both skip delivered contract sends: such a block is
//	verified by nobody); a header listed twice; a block that is delivered and applied but not listed; a listed block
//	that is delivered but was not applied by the producer (changes hash of the others); headers in another order;
//	a header that names a delivered block under another account; a block that is confirmed already listed again;
//	the changes hash of "nothing applied".
//
// They come (1) as corruption kinds of `corrupt` (any position of any batch, known prefixes, forks, interleaved
// deliveries; the genuine changes hash is kept, i.e. it is the hash of "the listed extra not applied"), and (2) as the
// family hostileDelivery, in which the real supervisor of the source computes the changes hash of exactly a SUBSET of the
// source's unconfirmed blocks and the content is rewritten afterwards. Two of the rewritings are VALID (a pillar may
// include a subset of what it holds, in any order of the accounts): they are the control, the receiver must adopt them.
//
// contentOracle is the clause itself, on the real node, for every momentum adopted by a call and for the whole chain at
// the end of every history: every header a momentum lists resolves to a block the node stores (by hash and by account
// height, confirmed by that very momentum, listed once), and every stored block confirmed at that height is listed.

import (
	"bytes"
	"fmt"
	"math/big"
	"math/rand"
	"sort"
	. "zharness/hz"

	"github.com/zenon-network/go-zenon/chain"
	g "github.com/zenon-network/go-zenon/chain/genesis/mock"
	"github.com/zenon-network/go-zenon/chain/nom"
	"github.com/zenon-network/go-zenon/common/types"
)

var hostileKinds = []string{"hostile:lists-bare-contract-send", "hostile:lists-bare-contract-send", "hostile:lists-bare-contract-send",
	"hostile:lists-header-without-block", "hostile:lists-confirmed-block-again"}
var hostileKindsWithContent = []string{"hostile:header-listed-twice", "hostile:omits-delivered-block",
	"hostile:bare-contract-send-in-place-of-named-block", "hostile:changes-hash-of-nothing-applied",
	"hostile:header-under-another-account", "hostile:order-changed", "hostile:order-changed"}

func headersOf(m *nom.Momentum) []*types.AccountHeader {
	return append([]*types.AccountHeader{}, m.Content...)
}

// the elected pillar signs the momentum with the new content (timestamp, producer, changes hash unchanged)
func setContent(m *nom.Momentum, hs []*types.AccountHeader) {
	m.Content = nom.MomentumContent(hs)
	Resign(m)
}
func headerAt(hs []*types.AccountHeader, i int, h types.AccountHeader) []*types.AccountHeader {
	r := append([]*types.AccountHeader{}, hs[:i]...)
	r = append(r, &h)
	return append(r, hs[i:]...)
}

// bareContractSend: a send block of an embedded contract that no contract receive carries. Three looks: random hash,
// height and amount (junkContractSend); the hash of its fields on an unknown previous block; the plausible next block of
// the contract's account chain on src (right height, right previous hash), acknowledging the momentum's parent.
func bareContractSend(rng *rand.Rand, src chain.Chain, m *nom.Momentum) (*nom.AccountBlock, string) {
	switch rng.Intn(3) {
	case 0:
		return junkContractSend(rng, m.ChainIdentifier), "random-hash"
	case 1:
		b := &nom.AccountBlock{Version: 1, ChainIdentifier: m.ChainIdentifier, BlockType: nom.BlockTypeContractSend,
			Address: embedded[rng.Intn(len(embedded))], ToAddress: users[rng.Intn(len(users))].Address,
			Amount: big.NewInt(int64(1+rng.Intn(1000)) * g.Zexp), TokenStandard: types.ZnnTokenStandard,
			Height: uint64(2 + rng.Intn(2000)), MomentumAcknowledged: m.Previous()}
		rng.Read(b.PreviousHash[:])
		b.Hash = b.ComputeHash()
		return WireCopyBlock(b), "hashed-on-unknown-previous"
	}
	addr := embedded[rng.Intn(len(embedded))]
	b := &nom.AccountBlock{Version: 1, ChainIdentifier: m.ChainIdentifier, BlockType: nom.BlockTypeContractSend,
		Address: addr, ToAddress: users[rng.Intn(len(users))].Address,
		Amount: big.NewInt(int64(1+rng.Intn(1000)) * g.Zexp), TokenStandard: types.ZnnTokenStandard,
		Height: 1, MomentumAcknowledged: m.Previous()}
	if st := src.GetMomentumStore(m.Previous()); st != nil {
		if fr, _ := st.GetFrontierAccountBlock(addr); fr != nil {
			b.Height, b.PreviousHash = fr.Height+1, fr.Hash
		}
	}
	b.Hash = b.ComputeHash()
	return WireCopyBlock(b), "next-of-contract-chain"
}

// hostileCorrupt: one of the hostile rewritings applied to a genuine momentum of the source (e.d is modified in
// place). The changes hash stays the genuine one unless the kind says otherwise. Returns the label.
func hostileCorrupt(rng *rand.Rand, e *delivered, kind string, src chain.Chain, l chain.Chain, lo, hi uint64, pairs []int) string {
	d := e.d
	m := d.Momentum
	hs := headersOf(m)
	listBare := func() string {
		b, look := bareContractSend(rng, src, m)
		setContent(m, headerAt(hs, rng.Intn(len(hs)+1), b.Header()))
		d.AccountBlocks = insertAt(d.AccountBlocks, rng.Intn(len(d.AccountBlocks)+1), b)
		e.unheld = true // as many distinct delivered blocks as headers, genuine changes hash, elected signer: only the pool can tell
		return "hostile:lists-bare-contract-send(" + look + ")"
	}
	switch kind {
	case "hostile:lists-bare-contract-send":
		// the content lists it, it is delivered, the changes hash is the one of "not applied": nothing but the momentum's own
		// application can tell that the node holds no such block
		return listBare()
	case "hostile:lists-header-without-block":
		// one header more than blocks: of a made-up contract send, of a made-up user send, or of a valid block the producer
		// knew (a stray) that is not delivered
		var h types.AccountHeader
		look := "made-up-contract-send"
		switch c := rng.Intn(3); {
		case c == 0 && len(strays[m.Hash]) > 0:
			h, look = strays[m.Hash][rng.Intn(len(strays[m.Hash]))].b.Header(), "valid-block-not-delivered"
		case c == 1:
			h = types.AccountHeader{Address: users[rng.Intn(len(users))].Address, HashHeight: types.HashHeight{Height: uint64(1 + rng.Intn(50))}}
			rng.Read(h.Hash[:])
			look = "made-up-user-block"
		default:
			b, _ := bareContractSend(rng, src, m)
			h = b.Header()
		}
		setContent(m, headerAt(hs, rng.Intn(len(hs)+1), h))
		e.okM = false
		return "hostile:lists-header-without-block(" + look + ")"
	case "hostile:lists-confirmed-block-again":
		// a block that an earlier momentum (below the batch: the receiver has it confirmed) lists is listed and delivered again
		var again *nom.AccountBlock
		for try := 0; try < 12 && again == nil && lo > 2; try++ {
			if o := DetailedAt(src, 2+uint64(rng.Intn(int(lo-2)))); o != nil && len(o.AccountBlocks) > 0 {
				again = WireCopyBlock(o.AccountBlocks[rng.Intn(len(o.AccountBlocks))])
			}
		}
		if again == nil || Pooled(l, again) {
			return listBare()
		}
		for _, b := range d.AccountBlocks {
			if b.Hash == again.Hash {
				return listBare()
			}
		}
		setContent(m, headerAt(hs, rng.Intn(len(hs)+1), again.Header()))
		d.AccountBlocks = insertAt(d.AccountBlocks, rng.Intn(len(d.AccountBlocks)+1), again)
		e.markBad(again.Hash)
		e.okM = false
		return "hostile:lists-confirmed-block-again"
	case "hostile:header-listed-twice":
		i := rng.Intn(len(hs))
		setContent(m, headerAt(hs, i+1+rng.Intn(len(hs)-i), *hs[i]))
		e.okM = false
		if rng.Intn(2) == 0 {
			// ... with a made-up contract send delivered, so that there are as many distinct delivered blocks as headers
			d.AccountBlocks = insertAt(d.AccountBlocks, rng.Intn(len(d.AccountBlocks)+1), junkContractSend(rng, m.ChainIdentifier))
			return "hostile:header-listed-twice(as-many-delivered-blocks-as-headers)"
		}
		return "hostile:header-listed-twice"
	case "hostile:omits-delivered-block":
		// every block is delivered (and was applied by the producer: genuine changes hash), one is not listed
		i := rng.Intn(len(hs))
		setContent(m, append(append([]*types.AccountHeader{}, hs[:i]...), hs[i+1:]...))
		e.okM = false
		return "hostile:omits-delivered-block"
	case "hostile:bare-contract-send-in-place-of-named-block":
		// header and block of a named block are both replaced by a bare contract send: as many blocks as headers, every
		// header names a delivered block; the changes hash still holds the changes of the replaced block
		i := rng.Intn(len(d.AccountBlocks))
		gone := d.AccountBlocks[i]
		b, look := bareContractSend(rng, src, m)
		var nh []*types.AccountHeader
		for _, h := range hs {
			if h.Hash == gone.Hash {
				bh := b.Header()
				h = &bh
			}
			nh = append(nh, h)
		}
		setContent(m, nh)
		bs := append([]*nom.AccountBlock{}, d.AccountBlocks...)
		bs[i] = b
		d.AccountBlocks = bs
		for _, x := range bs[i+1:] {
			if x.Address == gone.Address {
				e.markBad(x.Hash)
			}
		}
		e.okM = false
		return "hostile:bare-contract-send-in-place-of-named-block(" + look + ")"
	case "hostile:changes-hash-of-nothing-applied":
		m.ChangesHash = EmptyChangesHash()
		Resign(m)
		e.okM = false
		return kind
	case "hostile:header-under-another-account":
		i := rng.Intn(len(hs))
		h := *hs[i]
		for _, u := range users {
			if u.Address != h.Address {
				h.Address = u.Address
				break
			}
		}
		hs[i] = &h
		setContent(m, hs)
		e.okM = false
		return kind
	case "hostile:order-changed":
		// two blocks of one account listed in the wrong order (the blocks are delivered in the right one): invalid
		if len(pairs) > 0 && rng.Intn(2) == 0 {
			a := d.AccountBlocks[pairs[rng.Intn(len(pairs))]]
			ia, ib := -1, -1
			for k, h := range hs {
				if h.Address == a.Address && h.Height == a.Height {
					ia = k
				}
				if h.Address == a.Address && h.Height == a.Height+1 {
					ib = k
				}
			}
			if ia >= 0 && ib >= 0 {
				hs[ia], hs[ib] = hs[ib], hs[ia]
				setContent(m, hs)
				e.okM = false
				return "hostile:order-changed(two-blocks-of-one-account)"
			}
		}
		// the accounts in another order: the pillar's choice, VALID (only for the last element of a batch: what was
		// produced on top of the genuine momentum does not link to this one)
		if m.Height == hi {
			var at []int
			for k := 0; k+1 < len(hs); k++ {
				if hs[k].Address != hs[k+1].Address {
					at = append(at, k)
				}
			}
			if len(at) > 0 {
				k := at[rng.Intn(len(at))]
				hs[k], hs[k+1] = hs[k+1], hs[k]
				setContent(m, hs)
				e.forgedValid = true
				return "hostile:order-changed(accounts,valid)"
			}
		}
		return listBare()
	}
	panic("unknown hostile kind " + kind)
}

// hostileDelivery: the source s holds 1..6 unconfirmed sends; the pillar elected for one of the next slots computes the
// changes of a subset of them with the real supervisor (per account a prefix of what is pooled) and signs a momentum
// whose content is rewritten. The momentum is the last element of a batch from the fork point (0..n honest unknown
// momentums of s in front, known prefix 0..6, extension or fork of whatever depth the history has). s keeps its chain;
// the sends stay unconfirmed on s and go into its next honest momentum.
func (w *world) hostileDelivery(s *Node) {
	rng, l, out := w.rng, w.l, w.out
	if rng.Intn(3) == 0 {
		grow(s, rng, 1+rng.Intn(2))
		w.remember(s)
	}
	lf := FrontierOf(l.Ch).Height
	fp := forkPoint(l.Ch, s.Ch)
	if lf-fp > 31 {
		return
	}
	for try := 0; try < 4 && len(poolOf(s.Ch)) < 1+rng.Intn(4); try++ {
		sendSome(s, rng)
	}
	pool := poolOf(s.Ch) // sorted by account and height
	// the subset the producer applies: per account a prefix
	var inc, omitted []*nom.AccountBlock // omitted: per account the first block that is left out
	cut := map[types.Address]bool{}
	whole := rng.Intn(3) == 0
	for _, b := range pool {
		if !cut[b.Address] && (whole || rng.Intn(3) != 0) {
			inc = append(inc, b)
			continue
		}
		if !cut[b.Address] {
			omitted = append(omitted, b)
		}
		cut[b.Address] = true
	}
	prev := FrontierOf(s.Ch)
	dt := slotSec*int64(1+rng.Intn(3)) - (int64(prev.TimestampUnix)-genesisSec)%slotSec
	tx, err := BuildNextWith(s, prev, dt, inc)
	if err != nil {
		out.Count("sync:hostile:subset-not-generated")
		return
	}
	m := tx.Momentum
	hs := headersOf(m)
	blocks := append([]*nom.AccountBlock{}, inc...)
	e := delivered{okM: false}
	variants := []string{"subset(valid)", "lists-bare-contract-send", "lists-bare-contract-send", "lists-bare-contract-send", "lists-header-without-block"}
	if len(hs) > 0 {
		variants = append(variants, "header-listed-twice+bare-contract-send-delivered", "omits-applied-block(delivered)", "omits-applied-block(not-delivered)",
			"bare-contract-send-listed-for-applied-block")
	}
	if len(hs) > 1 {
		variants = append(variants, "accounts-reordered(valid)")
	}
	if len(omitted) > 0 {
		variants = append(variants, "lists-unapplied-block(delivered)", "lists-unapplied-block(delivered)", "lists-unapplied-block(not-delivered)",
			"unapplied-block-delivered-not-listed")
	}
	variant := variants[rng.Intn(len(variants))]
	switch variant {
	case "subset(valid)":
		e.okM, e.forgedValid = true, true
	case "accounts-reordered(valid)":
		var at []int
		for k := 0; k+1 < len(hs); k++ {
			if hs[k].Address != hs[k+1].Address {
				at = append(at, k)
			}
		}
		if len(at) > 0 {
			k := at[rng.Intn(len(at))]
			hs[k], hs[k+1] = hs[k+1], hs[k]
			setContent(m, hs)
		} else {
			variant = "subset(valid)"
		}
		e.okM, e.forgedValid = true, true
	case "lists-bare-contract-send":
		// changes hash = exactly the applied subset; the bare contract send is listed, delivered and applied by nobody
		b, look := bareContractSend(rng, s.Ch, m)
		setContent(m, headerAt(hs, rng.Intn(len(hs)+1), b.Header()))
		blocks = insertAt(blocks, rng.Intn(len(blocks)+1), b)
		variant += "(" + look + ")"
		e.okM, e.unheld = true, true
	case "lists-header-without-block":
		b, _ := bareContractSend(rng, s.Ch, m)
		setContent(m, headerAt(hs, rng.Intn(len(hs)+1), b.Header()))
	case "header-listed-twice+bare-contract-send-delivered":
		i := rng.Intn(len(hs))
		setContent(m, headerAt(hs, i+1+rng.Intn(len(hs)-i), *hs[i]))
		blocks = insertAt(blocks, rng.Intn(len(blocks)+1), junkContractSend(rng, m.ChainIdentifier))
	case "omits-applied-block(delivered)", "omits-applied-block(not-delivered)":
		// the last applied block of an account is not listed (its changes are in the changes hash)
		i := len(inc) - 1
		for k := rng.Intn(len(inc)); k < len(inc); k++ {
			if k+1 == len(inc) || inc[k+1].Address != inc[k].Address {
				i = k
				break
			}
		}
		var nh []*types.AccountHeader
		for _, h := range hs {
			if h.Hash != inc[i].Hash {
				nh = append(nh, h)
			}
		}
		setContent(m, nh)
		if variant == "omits-applied-block(not-delivered)" {
			blocks = append(append([]*nom.AccountBlock{}, inc[:i]...), inc[i+1:]...)
		}
	case "bare-contract-send-listed-for-applied-block":
		// an applied block (the last of its account) is delivered, but the content names a bare contract send in its place
		i := len(inc) - 1
		for k := rng.Intn(len(inc)); k < len(inc); k++ {
			if k+1 == len(inc) || inc[k+1].Address != inc[k].Address {
				i = k
				break
			}
		}
		b, look := bareContractSend(rng, s.Ch, m)
		var nh []*types.AccountHeader
		for _, h := range hs {
			if h.Hash == inc[i].Hash {
				bh := b.Header()
				h = &bh
			}
			nh = append(nh, h)
		}
		setContent(m, nh)
		blocks = insertAt(blocks, rng.Intn(len(blocks)+1), b)
		variant += "(" + look + ")"
	case "lists-unapplied-block(delivered)", "lists-unapplied-block(not-delivered)", "unapplied-block-delivered-not-listed":
		// a valid unconfirmed block the producer holds but did not apply (changes hash without it)
		x := omitted[rng.Intn(len(omitted))]
		if variant != "unapplied-block-delivered-not-listed" {
			setContent(m, headerAt(hs, rng.Intn(len(hs)+1), x.Header()))
		}
		if variant != "lists-unapplied-block(not-delivered)" {
			blocks = append(blocks, x) // behind the blocks of its account that were applied
		}
	}
	e.d = WireCopy(&nom.DetailedMomentum{Momentum: m, AccountBlocks: blocks})
	e.reason = "hostile-producer:" + variant
	batch := w.span(s, fp, w.prefixLen(), prev.Height)
	unknownBefore := int(prev.Height - fp)
	batch = append(batch, e)
	out.Count("sync:hostile:variant:" + variant)
	out.Count(fmt.Sprintf("sync:hostile:applied-subset:%d-of-%d", min(len(inc), 6), min(len(pool), 6)))
	out.Count(fmt.Sprintf("sync:hostile:honest-unknown-momentums-in-front:%d", min(unknownBefore, 8)))
	out.Count("sync:corruption:" + e.reason)
	depth := lf - fp
	kind := fmt.Sprintf("hostile-producer-in-fork-depth%02d", depth)
	if depth == 0 {
		kind = "hostile-producer-in-extension"
	}
	if e.okM && !e.unheld {
		kind += "(valid)"
	}
	w.deliver(batch, kind, s.Ch)
}

// addresses whose account chains the content oracle walks, besides the ones a momentum or its delivery names
var watched = func() []types.Address {
	var r []types.Address
	for _, kp := range users {
		r = append(r, kp.Address)
	}
	for _, kp := range quiet {
		r = append(r, kp.Address)
	}
	return append(r, embedded...)
}()

// contentOracle: momentums lo..hi of nd's chain against nd's ledger, without the node's verifier or the generator's books.
//
//	adopted-momentum-content-resolves-to-stored-blocks: every header of the content is found by hash (same account, same
//	  height) and by account height (same hash), its block is confirmed by this momentum, no header is listed twice;
//	stored-block-confirmed-by-adopted-momentum-is-listed: every block of the watched / named account chains whose
//	  confirmation height lies in lo..hi is listed by the momentum of that height.
//
// Returns false when a header does not resolve (DetailedAt would hand out nil blocks for that chain).
func contentOracle(out *Out, nd *BareNode, lo, hi uint64, kind string, as func(h uint64) string, named []types.Address) bool {
	if lo < 2 {
		lo = 2
	}
	if hi < lo {
		return true
	}
	st := nd.Ch.GetFrontierMomentumStore()
	resolved := true
	listed := map[uint64]map[types.Hash]bool{}
	addrs := map[types.Address]bool{}
	for _, a := range watched {
		addrs[a] = true
	}
	for _, a := range named {
		addrs[a] = true
	}
	for h := lo; h <= hi; h++ {
		m, _ := st.GetMomentumByHeight(h)
		if m == nil {
			continue // reported by adopted-momentum-passes-full-verification
		}
		listed[h] = map[types.Hash]bool{}
		ok, detail := true, M{}
		for i, hd := range m.Content {
			addrs[hd.Address] = true
			byHash, _ := st.GetAccountBlockByHash(hd.Hash)
			byHeight, _ := st.GetAccountBlock(*hd)
			conf, _ := st.GetBlockConfirmationHeight(hd.Hash)
			good := byHash != nil && byHash.Address == hd.Address && byHash.Height == hd.Height &&
				byHeight != nil && byHeight.Hash == hd.Hash && conf == h && !listed[h][hd.Hash]
			if byHash == nil || byHeight == nil {
				resolved = false
			}
			if !good && ok {
				ok = false
				detail = M{"kind": kind, "height": U64(h), "headers": len(m.Content), "header": i, "account": hd.Address.String(), "account_height": U64(hd.Height),
					"found_by_hash": byHash != nil, "found_at_account_height": byHeight != nil, "same_block_at_account_height": byHeight != nil && byHeight.Hash == hd.Hash,
					"confirmation_height": U64(conf), "listed_before": listed[h][hd.Hash], "delivered_as": as(h)}
			}
			listed[h][hd.Hash] = true
		}
		out.Oracle(ok, "adopted-momentum-content-resolves-to-stored-blocks", detail)
	}
	// the other direction: walk every account chain down from its frontier as long as the blocks are confirmed at >= lo
	allListed, detail := true, M{}
	var order []types.Address
	for a := range addrs {
		order = append(order, a)
	}
	sort.Slice(order, func(i, j int) bool { return bytes.Compare(order[i].Bytes(), order[j].Bytes()) < 0 })
	for _, a := range order {
		fr, _ := st.GetFrontierAccountBlock(a)
		for b := fr; b != nil && b.Height >= 1; {
			conf, _ := st.GetBlockConfirmationHeight(b.Hash)
			if conf < lo {
				break
			}
			if conf <= hi && !listed[conf][b.Hash] && allListed {
				allListed = false
				detail = M{"kind": kind, "account": a.String(), "account_height": U64(b.Height), "confirmation_height": U64(conf), "delivered_as": as(conf)}
			}
			if b.Height == 1 {
				break
			}
			b, _ = st.GetAccountBlockByHeight(a, b.Height-1)
		}
	}
	out.Oracle(allListed, "stored-block-confirmed-by-adopted-momentum-is-listed", detail)
	return resolved
}
