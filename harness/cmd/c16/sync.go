package main

import (
	"bytes"
	"fmt"
	"math/big"
	"math/rand"
	"sort"
	. "zharness/hz"

	"github.com/zenon-network/go-zenon/chain"
	g "github.com/zenon-network/go-zenon/chain/genesis/mock"
	"github.com/zenon-network/go-zenon/chain/nom"
	"github.com/zenon-network/go-zenon/common/types"
	"github.com/zenon-network/go-zenon/consensus"
	"github.com/zenon-network/go-zenon/protocol"
	"github.com/zenon-network/go-zenon/wallet"
	"github.com/zenon-network/go-zenon/zenon/mock"
)

// 40-bit identifiers (the model only compares hashes for equality)
func hashZ(h types.Hash) interface{} { return Big(new(big.Int).SetBytes(h.Bytes()[:5])) }

var users = []*wallet.KeyPair{g.User1, g.User2, g.User3, g.User4, g.User5}

// accounts with funds and plasma that never send inside momentums produced by grow: their account chains are the same on
// every branch, apart from what the receiving node's own unconfirmed blocks add
var quiet = []*wallet.KeyPair{g.Pillar1, g.Pillar2, g.Pillar3, g.Pillar4, g.Pillar5, g.Pillar6, g.Pillar7, g.Pillar8, g.Spork}

// A stray: a VALID account block (signed, right previous block, acknowledged momentum below, funds, plasma) that was
// generated on the producing node in the very state a receiver is in when it has applied the account blocks of the
// momentum (chain up to the momentum before, the momentum's blocks unconfirmed) and that the momentum does not name.
// It is never stored on the producer. Delivered with that momentum it is a surplus account block that verifies.
type stray struct {
	b          *nom.AccountBlock
	inMomentum bool // its account has blocks in the momentum (the stray sits on top of the last of them)
}

var strays = map[types.Hash][]stray{} // by momentum hash; reset per history

// sendSome: 0..2 ZNN sends between users, unconfirmed on nd (content of its next momentum)
func sendSome(nd *Node, rng *rand.Rand) []*wallet.KeyPair {
	var senders []*wallet.KeyPair
	for s := 0; s < rng.Intn(3); s++ {
		from, to := users[rng.Intn(len(users))], users[rng.Intn(len(users))]
		bal, _ := nd.Ch.GetFrontierAccountStore(from.Address).GetBalance(types.ZnnTokenStandard)
		if bal.Cmp(big.NewInt(1000)) > 0 {
			nd.Z.InsertSendBlock(&nom.AccountBlock{Address: from.Address, ToAddress: to.Address,
				TokenStandard: types.ZnnTokenStandard, Amount: big.NewInt(int64(1 + rng.Intn(999)))}, nil, mock.SkipVmChanges)
			senders = append(senders, from)
		}
	}
	return senders
}

// grow: k momentums on nd with random ZNN sends (content) and slot gaps. Honest pillars stamp the START of a slot: the
// next momentum sits 1, 2 or 3 slots after the slot its parent is in (the parent itself may be stamped inside its slot
// when it is one of the faulty momentums of slotDelivery).
func grow(nd *Node, rng *rand.Rand, k int) {
	for i := 0; i < k; i++ {
		senders := sendSome(nd, rng)
		var st []stray
		if rng.Intn(4) != 0 {
			st = makeStrays(nd, rng, senders)
		}
		dt := []int64{10, 10, 10, 20, 30}[rng.Intn(5)]
		dt -= (int64(FrontierOf(nd.Ch).TimestampUnix) - genesisSec) % slotSec
		if err := ProduceAt(nd, dt); err != nil {
			panic(err)
		}
		if len(st) > 0 {
			strays[FrontierOf(nd.Ch).Hash] = st
		}
	}
}

// makeStrays: one or two valid blocks on top of nd's present state (frontier momentum + its unconfirmed blocks) that
// are NOT put into the pool: of an account that sends in the momentum about to be produced and / or of one that does not
// (a user or a quiet account), acknowledging the frontier or a momentum 1..2 below it.
func makeStrays(nd *Node, rng *rand.Rand, senders []*wallet.KeyPair) []stray {
	var r []stray
	fr := FrontierOf(nd.Ch)
	mk := func(kp *wallet.KeyPair, in bool) {
		ack := types.HashHeight{}
		if back := uint64(1 + rng.Intn(2)); rng.Intn(3) == 0 && fr.Height > back+1 {
			m, _ := nd.Ch.GetFrontierMomentumStore().GetMomentumByHeight(fr.Height - back)
			ack = m.Identifier()
		}
		// (the producer's own verifier decides: a template it refuses gives no stray)
		to := users[rng.Intn(len(users))]
		tx, err := MakeSend(nd.Sv, kp, to.Address, int64(1+rng.Intn(99)), ack)
		if err == nil {
			r = append(r, stray{b: WireCopyBlock(tx.Block), inMomentum: in})
		}
	}
	if len(senders) > 0 && rng.Intn(2) == 0 {
		mk(senders[rng.Intn(len(senders))], true)
	}
	if len(r) == 0 || rng.Intn(3) == 0 {
		all := append(append([]*wallet.KeyPair{}, users...), quiet...)
		for try := 0; try < 6; try++ {
			kp := all[rng.Intn(len(all))]
			busy := len(nd.Ch.GetUncommittedAccountBlocksByAddress(kp.Address)) > 0
			for _, sn := range senders {
				busy = busy || sn.Address == kp.Address
			}
			if !busy {
				mk(kp, false)
				break
			}
		}
	}
	return r
}

func hashAt(ch chain.Chain, h uint64) types.Hash {
	m, _ := ch.GetFrontierMomentumStore().GetMomentumByHeight(h)
	if m == nil {
		return types.ZeroHash
	}
	return m.Hash
}

// forkPoint: the highest height at which both chains hold the same momentum
func forkPoint(l, s chain.Chain) uint64 {
	h := FrontierOf(l).Height
	if sh := FrontierOf(s).Height; sh < h {
		h = sh
	}
	for ; h >= 1; h-- {
		if hashAt(l, h) == hashAt(s, h) {
			return h
		}
	}
	return 0
}

type delivered struct {
	d      *nom.DetailedMomentum
	okM    bool                // the momentum itself passes verification once all its account blocks are accepted
	badB   map[types.Hash]bool // account blocks that do not pass verification at their place, everything before accepted
	reason string
	// a momentum the harness signed itself with the key of the elected pillar that IS valid (the control of the hostile
	// producer family): it counts as genuinely produced
	forgedValid bool
	// the content lists a header for which the receiver will hold no block when the momentum is applied, and NOTHING else
	// is wrong with the momentum (sizes, links, changes hash, signature, producer): okM stays true - it stands for
	// everything but "the pool holds a patch for every listed header", which the model decides itself (apply_momentum)
	unheld bool
}

func (e *delivered) bad(h types.Hash) bool { return e.badB != nil && e.badB[h] }
func (e *delivered) markBad(h types.Hash) {
	if e.badB == nil {
		e.badB = map[types.Hash]bool{}
	}
	e.badB[h] = true
}

// the unconfirmed blocks of a node in a fixed order (the pool is a map)
func poolOf(ch chain.Chain) []*nom.AccountBlock {
	bs := ch.GetAllUncommittedAccountBlocks()
	sort.Slice(bs, func(i, j int) bool {
		if c := bytes.Compare(bs[i].Address.Bytes(), bs[j].Address.Bytes()); c != 0 {
			return c < 0
		}
		return bs[i].Height < bs[j].Height
	})
	return bs
}

// 40-bit identifier of an account
func addrZ(a types.Address) interface{} { return Big(new(big.Int).SetBytes(a.Bytes()[:6])) }
func blockZ(b *nom.AccountBlock) interface{} {
	return Tup(hashZ(b.Hash), addrZ(b.Address), U64(b.Height))
}

// corrupt one delivered element. l is the receiving node; lo..hi are the heights of the batch (an extra account block is
// never taken from a momentum of the batch itself, so that every block has one place in it).
// cs is the consensus of the source node (who is elected for which slot on the chain the element belongs to).
func corrupt(rng *rand.Rand, e *delivered, src chain.Chain, cs consensus.Consensus, l chain.Chain, lo, hi uint64) {
	d := e.d
	m := d.Momentum
	// every rule of the raw momentum verifier, each violated alone in a momentum that is otherwise honest and correctly
	// hashed and signed by the pillar elected for its slot
	kinds := []string{"data-not-empty-signed-by-elected-pillar", "version-other-signed-by-elected-pillar", "chain-identifier-other-signed-by-elected-pillar",
		"bad-signature", "wrong-producer", "wrong-changes-hash", "extra-account-block",
		"surplus-junk-contract-send", "surplus-junk-contract-send", "surplus-block-of-later-momentum",
		"stamped-inside-slot-by-elected-pillar", "stamped-inside-slot-by-elected-pillar",
		"stamped-at-later-slot-start-by-this-slots-pillar", "signed-by-pillar-of-nearby-slot"}
	if len(d.AccountBlocks) > 0 {
		kinds = append(kinds, "missing-account-block", "invalid-account-block", "missing-account-block", "content-header-mismatch",
			"duplicate-of-named-block(valid)", "tampered-duplicate-before-named-block", "tampered-duplicate-after-named-block(valid)",
			"named-block-replaced-by-junk-contract-send")
	}
	// valid blocks the momentum does not name (strays made when it was produced). One of an account without blocks in the
	// momentum only verifies if the receiver holds no unconfirmed block of that account itself.
	var usable []stray
	for _, st := range strays[m.Hash] {
		if st.inMomentum || len(l.GetUncommittedAccountBlocksByAddress(st.b.Address)) == 0 || Pooled(l, st.b) {
			usable = append(usable, st)
		}
	}
	if len(usable) > 0 {
		kinds = append(kinds, "surplus-valid-user-block", "surplus-valid-user-block", "surplus-valid-user-block", "surplus-valid-user-block", "surplus-valid-user-block")
	}
	var pairs []int // positions of two consecutive blocks of one account
	for i := 0; i+1 < len(d.AccountBlocks); i++ {
		if d.AccountBlocks[i].Address == d.AccountBlocks[i+1].Address {
			pairs = append(pairs, i)
		}
	}
	if len(pairs) > 0 {
		kinds = append(kinds, "swapped-account-blocks", "swapped-account-blocks")
	}
	// the hostile producer: content that does not correspond to the delivered / applied blocks, signed by the elected pillar
	kinds = append(kinds, hostileKinds...)
	if len(d.AccountBlocks) > 0 {
		kinds = append(kinds, hostileKindsWithContent...)
	}
	kind := kinds[rng.Intn(len(kinds))]
	switch kind {
	default:
		kind = hostileCorrupt(rng, e, kind, src, l, lo, hi, pairs)
	case "data-not-empty-signed-by-elected-pillar":
		m.Data = make([]byte, 1+rng.Intn(40))
		rng.Read(m.Data)
		Resign(m)
		e.okM = false
	case "version-other-signed-by-elected-pillar":
		m.Version = []uint64{0, 2, 1 << 32, ^uint64(0)}[rng.Intn(4)]
		Resign(m)
		e.okM = false
	case "chain-identifier-other-signed-by-elected-pillar":
		m.ChainIdentifier = []uint64{0, m.ChainIdentifier + 1, ^uint64(0)}[rng.Intn(3)]
		Resign(m)
		e.okM = false
	case "bad-signature":
		m.Signature[rng.Intn(len(m.Signature))] ^= byte(1 << uint(rng.Intn(8)))
		e.okM = false
	case "wrong-producer":
		prod := types.PubKeyToAddress(m.PublicKey)
		for _, kp := range g.PillarKeys {
			if kp.Address != prod {
				m.Signature = kp.Sign(m.Hash.Bytes())
				m.PublicKey = kp.Public
				break
			}
		}
		e.okM = false
	case "wrong-changes-hash":
		m.ChangesHash[rng.Intn(32)] ^= 0x10
		Resign(m)
		e.okM = false
	case "stamped-inside-slot-by-elected-pillar":
		// everything honest (content, changes hash, hash, signature of the pillar elected for the slot), but the momentum is
		// stamped with second 1..9 of its slot instead of the first one
		m.TimestampUnix = uint64(slotOf(int64(m.TimestampUnix)) + 1 + int64(rng.Intn(int(slotSec)-1)))
		Resign(m)
		e.okM = false
	case "stamped-at-later-slot-start-by-this-slots-pillar":
		// the pillar of this slot stamps the start of a slot 1..3 later, which belongs to somebody else
		prod, moved := types.PubKeyToAddress(m.PublicKey), false
		for _, k := range rng.Perm(3) {
			ts := int64(m.TimestampUnix) + int64(k+1)*slotSec
			if _, who, ok := electedAt(cs, ts); ok && who != prod {
				m.TimestampUnix, moved = uint64(ts), true
				kind = fmt.Sprintf("stamped-at-slot-start+%d-by-this-slots-pillar", k+1)
				break
			}
		}
		if !moved {
			m.TimestampUnix = uint64(slotOf(int64(m.TimestampUnix)) + 1 + int64(rng.Intn(int(slotSec)-1)))
			kind = "stamped-inside-slot-by-elected-pillar"
		}
		Resign(m)
		e.okM = false
	case "signed-by-pillar-of-nearby-slot":
		// right timestamp, signed by the pillar elected for a slot 1..3 before / after it
		if dist, kp := pillarAtDistance(cs, rng, int64(m.TimestampUnix)); kp != nil {
			m.Signature = kp.Sign(m.Hash.Bytes())
			m.PublicKey = kp.Public
			kind = fmt.Sprintf("slot-start-signed-by-pillar-of-slot%+d", dist)
		} else {
			m.Signature[rng.Intn(len(m.Signature))] ^= 0x08
			kind = "bad-signature"
		}
		e.okM = false
	case "content-header-mismatch":
		// the momentum lists another block hash than the one delivered with it
		c := *m.Content[rng.Intn(len(m.Content))]
		c.Hash[rng.Intn(32)] ^= 0x01
		nc := make(nom.MomentumContent, len(m.Content))
		copy(nc, m.Content)
		for i := range nc {
			if nc[i].Address == c.Address && nc[i].Height == c.Height {
				nc[i] = &c
			}
		}
		m.Content = nc
		Resign(m)
		e.okM = false
	case "missing-account-block":
		i := rng.Intn(len(d.AccountBlocks))
		gone := d.AccountBlocks[i]
		d.AccountBlocks = append(append([]*nom.AccountBlock{}, d.AccountBlocks[:i]...), d.AccountBlocks[i+1:]...)
		for _, b := range d.AccountBlocks[i:] { // the later blocks of that account have lost their previous block
			if b.Address == gone.Address {
				e.markBad(b.Hash)
			}
		}
		e.okM = false
	case "swapped-account-blocks":
		// two consecutive blocks of one account are delivered in the wrong order: the first one now lacks its
		// previous block (the momentum, which only looks the delivered blocks up, would still accept them)
		i := pairs[rng.Intn(len(pairs))]
		if Pooled(l, d.AccountBlocks[i]) { // the receiver would find the previous block in its pool
			m.Signature[3] ^= 2
			e.okM = false
			kind = "bad-signature"
			break
		}
		bs := append([]*nom.AccountBlock{}, d.AccountBlocks...)
		bs[i], bs[i+1] = bs[i+1], bs[i]
		d.AccountBlocks = bs
		e.markBad(bs[i].Hash)
	case "invalid-account-block":
		// the delivered copy is tampered with; if the receiver holds the block in its pool when it gets there, its own
		// verified copy is used and the delivered one is ignored (the model knows: pooled blocks are skipped)
		b := d.AccountBlocks[rng.Intn(len(d.AccountBlocks))]
		b.Signature[rng.Intn(len(b.Signature))] ^= 0x04
		e.markBad(b.Hash)
	case "surplus-junk-contract-send":
		// contract sends travel inside their receive block: neither InsertChain nor AddAccountBlocks ever looks at one.
		// Only the momentum's own verification can tell that this one is not named by the content.
		d.AccountBlocks = insertAt(d.AccountBlocks, rng.Intn(len(d.AccountBlocks)+1), junkContractSend(rng, m.ChainIdentifier))
		e.okM = false
	case "named-block-replaced-by-junk-contract-send":
		// as many delivered blocks as headers, but one header has no block
		i := rng.Intn(len(d.AccountBlocks))
		gone := d.AccountBlocks[i]
		bs := append([]*nom.AccountBlock{}, d.AccountBlocks...)
		bs[i] = junkContractSend(rng, m.ChainIdentifier)
		d.AccountBlocks = bs
		for _, b := range bs[i+1:] {
			if b.Address == gone.Address {
				e.markBad(b.Hash)
			}
		}
		e.okM = false
	case "surplus-valid-user-block":
		st := usable[rng.Intn(len(usable))]
		kind += ":account-without-blocks-in-momentum"
		at := rng.Intn(len(d.AccountBlocks) + 1)
		if st.inMomentum { // on top of the account's last block in the momentum
			kind = "surplus-valid-user-block:account-with-blocks-in-momentum"
			at = len(d.AccountBlocks)
		}
		d.AccountBlocks = insertAt(d.AccountBlocks, at, WireCopyBlock(st.b))
		e.okM = false // every delivered block verifies, the momentum does not: it carries a block it does not name
	case "duplicate-of-named-block(valid)":
		// the same block twice: still exactly the blocks the content names (the second copy is "already applied")
		i := rng.Intn(len(d.AccountBlocks))
		d.AccountBlocks = insertAt(d.AccountBlocks, i+1+rng.Intn(len(d.AccountBlocks)-i), WireCopyBlock(d.AccountBlocks[i]))
	case "tampered-duplicate-after-named-block(valid)":
		// ... the second copy does not even verify, but it is never used: the verified first one is
		i := rng.Intn(len(d.AccountBlocks))
		c := WireCopyBlock(d.AccountBlocks[i])
		c.Signature[rng.Intn(len(c.Signature))] ^= 0x20
		d.AccountBlocks = insertAt(d.AccountBlocks, i+1+rng.Intn(len(d.AccountBlocks)-i), c)
	case "tampered-duplicate-before-named-block":
		// the copy that does not verify comes first (unless the receiver holds the block itself: then neither is looked at)
		i := rng.Intn(len(d.AccountBlocks))
		c := WireCopyBlock(d.AccountBlocks[i])
		c.Signature[rng.Intn(len(c.Signature))] ^= 0x20
		d.AccountBlocks = insertAt(d.AccountBlocks, rng.Intn(i+1), c)
		e.markBad(c.Hash)
	case "surplus-block-of-later-momentum":
		// a block named by a later momentum of the source (inside the batch or beyond it) is delivered one momentum early
		var extra *nom.AccountBlock
		for h := m.Height + 1; h <= m.Height+6 && extra == nil; h++ {
			if o := DetailedAt(src, h); o != nil && len(o.AccountBlocks) > 0 && !Pooled(l, o.AccountBlocks[0]) &&
				o.AccountBlocks[0].MomentumAcknowledged.Height >= m.Height {
				extra = WireCopyBlock(o.AccountBlocks[0]) // acknowledges a momentum the receiver cannot have at that point
			}
		}
		if extra == nil {
			d.AccountBlocks = insertAt(d.AccountBlocks, rng.Intn(len(d.AccountBlocks)+1), junkContractSend(rng, m.ChainIdentifier))
			kind = "surplus-junk-contract-send"
		} else {
			d.AccountBlocks = append(append([]*nom.AccountBlock{}, d.AccountBlocks...), extra)
			e.markBad(extra.Hash)
		}
		e.okM = false
	case "extra-account-block":
		// a block the momentum does not list: taken from a momentum of the source chain outside the batch, or made up
		var extra *nom.AccountBlock
		fr := FrontierOf(src).Height
		for try := 0; try < 20 && extra == nil; try++ {
			h := 2 + uint64(rng.Intn(int(fr-1)))
			if h >= lo && h <= hi {
				continue
			}
			o := DetailedAt(src, h)
			if o != nil && len(o.AccountBlocks) > 0 && !Pooled(l, o.AccountBlocks[0]) {
				extra = WireCopyBlock(o.AccountBlocks[0])
			}
		}
		if extra == nil {
			extra = &nom.AccountBlock{Version: 1, ChainIdentifier: 100, BlockType: nom.BlockTypeUserSend, Address: g.User1.Address,
				ToAddress: g.User2.Address, Height: 9999, Amount: big.NewInt(1), TokenStandard: types.ZnnTokenStandard}
			extra.Hash = extra.ComputeHash()
		}
		d.AccountBlocks = append(d.AccountBlocks, extra)
		e.markBad(extra.Hash)
		e.okM = false
	}
	e.d = WireCopy(d) // as received from the wire: cached producer / timestamps follow the bytes
	e.reason = kind
}

func insertAt(bs []*nom.AccountBlock, i int, b *nom.AccountBlock) []*nom.AccountBlock {
	r := append([]*nom.AccountBlock{}, bs[:i]...)
	r = append(r, b)
	return append(r, bs[i:]...)
}

var embedded = []types.Address{types.TokenContract, types.PillarContract, types.PlasmaContract, types.StakeContract, types.SentinelContract}

// a made-up send block of an embedded contract: random hash, height and amount
func junkContractSend(rng *rand.Rand, chainId uint64) *nom.AccountBlock {
	b := &nom.AccountBlock{Version: 1, ChainIdentifier: chainId, BlockType: nom.BlockTypeContractSend,
		Address: embedded[rng.Intn(len(embedded))], ToAddress: users[rng.Intn(len(users))].Address,
		Height: uint64(1 + rng.Intn(200)), Amount: big.NewInt(int64(rng.Intn(1000)) * g.Zexp), TokenStandard: types.ZnnTokenStandard}
	rng.Read(b.Hash[:])
	return WireCopyBlock(b)
}

// observable result class: 0 = (0, nil), 1 = an error with an index, 3 = panic. InsertChain's own refusals and the
// verifier's rejections are both plain error values; they are told apart by the frontier and the index, not by text.
func errClass(err error, panicked interface{}) (int64, string) {
	switch {
	case panicked != nil:
		return 3, "panic"
	case err == nil:
		return 0, "ok"
	}
	return 1, "error"
}

func tryInsert(b *BareNode, ds []*nom.DetailedMomentum) (idx int, err error, panicked interface{}) {
	return tryInsertBr(b.Br, ds)
}
func tryInsertBr(br protocol.ChainBridge, ds []*nom.DetailedMomentum) (idx int, err error, panicked interface{}) {
	defer func() {
		if r := recover(); r != nil {
			panicked = r
		}
	}()
	idx, err = br.InsertChain(ds)
	return
}

// servedFirst: another writer of the receiving node that obtains the insert lock while the observed InsertChain is
// waiting for it (run from the pre-lock hook of the bridge). It returns what it inserted as batches for the model
// (own production = a batch of one valid momentum whose blocks the node holds in its pool).
type servedFirst struct {
	name string
	lo   uint64 // lowest height it may deliver (0: only above the frontier)
	run  func() [][]delivered
}

type world struct {
	rng     *rand.Rand
	out     *Out
	a, b    *Node
	l       *BareNode
	genuine map[types.Hash][]byte // serialisation of every momentum really produced by a or b
	// the node holds a momentum whose content does not resolve to stored blocks (reported by the content oracle): the
	// history ends there, the helpers that read detailed momentums off the node's chain cannot go on
	broken bool
}

func (w *world) remember(nd *Node) {
	st := nd.Ch.GetFrontierMomentumStore()
	for h := uint64(1); h <= FrontierOf(nd.Ch).Height; h++ {
		m, _ := st.GetMomentumByHeight(h)
		if _, ok := w.genuine[m.Hash]; !ok {
			bts, _ := m.Serialize()
			w.genuine[m.Hash] = bts
		}
	}
}

// term of a batch for the model: momentums with the generator's flags, account blocks without contract sends
func batchTerm(batch []delivered) []interface{} {
	dl := Lst()
	for _, e := range batch {
		bl := Lst()
		for _, b := range e.d.AccountBlocks {
			if b.BlockType == nom.BlockTypeContractSend {
				continue
			}
			bl = append(bl, Tup(hashZ(b.Hash), addrZ(b.Address), U64(b.Height), !e.bad(b.Hash)))
		}
		hl := Lst() // the headers the momentum lists, all of them
		for _, h := range e.d.Momentum.Content {
			hl = append(hl, Tup(hashZ(h.Hash), addrZ(h.Address), U64(h.Height)))
		}
		dl = append(dl, Tup(hashZ(e.d.Momentum.Hash), hashZ(e.d.Momentum.PreviousHash), U64(e.d.Momentum.Height), e.okM, bl, hl))
	}
	return dl
}

// deliver one batch to the local node, compare with the model, evaluate the property directly
func (w *world) deliver(batch []delivered, kind string, src chain.Chain) {
	w.deliverAfter(batch, kind, src, nil)
}

// deliverAfter: the same with another writer served first on the insert lock (first != nil). Everything InsertChain
// decides is judged against the node AS IT IS WHEN THE LOCK IS TAKEN: the snapshot of chain and pool the oracles use is
// taken at the end of the pre-lock hook, and the model gets the state before the hook plus what the other writer inserted.
func (w *world) deliverAfter(batch []delivered, kind string, src chain.Chain, first *servedFirst) {
	out, l := w.out, w.l
	before0 := l.Frontier()
	// local chain as the model sees it: from below the lowest delivered height / 37 below the frontier
	lo := before0.Height
	if lo > 37 {
		lo -= 37
	} else {
		lo = 1
	}
	for _, e := range batch {
		if h := e.d.Momentum.Height; h >= 2 && h-1 < lo {
			lo = h - 1
		}
	}
	if first != nil && first.lo >= 2 && first.lo-1 < lo {
		lo = first.lo - 1
	}
	local := Lst()
	st := l.Ch.GetFrontierMomentumStore()
	for h := lo; h <= before0.Height; h++ {
		m, _ := st.GetMomentumByHeight(h)
		local = append(local, Tup(hashZ(m.Hash), hashZ(m.PreviousHash), U64(m.Height)))
	}
	poolT := Lst()
	for _, b := range poolOf(l.Ch) {
		poolT = append(poolT, blockZ(b))
	}
	// the node under the lock
	var before *nom.Momentum
	var oldHashes map[uint64]types.Hash
	var poolBefore []*nom.AccountBlock
	var inPoolBefore map[types.Hash]*nom.AccountBlock
	snapshot := func() {
		before = l.Frontier()
		oldHashes = map[uint64]types.Hash{}
		for h := uint64(1); h <= before.Height; h++ {
			oldHashes[h] = hashAt(l.Ch, h)
		}
		poolBefore = poolOf(l.Ch)
		inPoolBefore = map[types.Hash]*nom.AccountBlock{}
		for _, b := range poolBefore {
			inPoolBefore[b.Hash] = b
		}
	}
	snapshot()
	ds := make([]*nom.DetailedMomentum, len(batch))
	deliveredBlock := map[types.Hash]bool{}
	var namedAccounts []types.Address
	for i, e := range batch {
		ds[i] = e.d
		if e.forgedValid {
			bts, _ := e.d.Momentum.Serialize()
			w.genuine[e.d.Momentum.Hash] = bts
		}
		for _, b := range e.d.AccountBlocks {
			namedAccounts = append(namedAccounts, b.Address)
		}
		for _, b := range e.d.AccountBlocks {
			if b.BlockType != nom.BlockTypeContractSend {
				deliveredBlock[b.Hash] = true
			}
		}
	}
	dl := batchTerm(batch)
	br := l.Br
	interT := Lst()
	if first != nil {
		br = NewBridgeWithPreLockHook(l, func() {
			for _, ib := range first.run() {
				interT = append(interT, batchTerm(ib))
			}
			snapshot()
			out.Count("sync:served-first:" + first.name)
		})
	}
	idx, err, p := tryInsertBr(br, ds)
	cls, cname := errClass(err, p)
	after := l.Frontier()
	// what happened to the own chain
	abandoned := 0
	for h := uint64(1); h <= before.Height; h++ {
		if hashAt(l.Ch, h) != oldHashes[h] {
			abandoned++
		}
	}
	poolAfter := poolOf(l.Ch)
	surv := Lst()
	var survivors []*nom.AccountBlock
	for _, b := range poolAfter {
		if inPoolBefore[b.Hash] != nil && abandoned > 0 {
			surv = append(surv, hashZ(b.Hash))
			survivors = append(survivors, b)
		}
	}
	out.Case("insert_chain", Tup(local, poolT, interT, dl), Tup(I64(cls), I64(int64(idx)), hashZ(after.Hash), U64(after.Height), surv), kind+" -> "+cname)
	out.Count("sync:kind:" + kind)
	if len(poolBefore) > 0 {
		out.Count("sync:delivery-with-pooled-blocks")
		if abandoned > 0 {
			out.Count("sync:rollback-with-pooled-blocks")
		}
	}

	// ---- the property itself
	out.Oracle(p == nil, "insertchain-no-panic", M{"kind": kind, "panic": fmt.Sprint(p)})
	// which delivered momentums were unknown before, in order
	var unknown []delivered
	firstUnknown := -1
	for i, e := range batch {
		if oldHashes[e.d.Momentum.Height] != e.d.Momentum.Hash {
			unknown = append(unknown, e)
			if firstUnknown < 0 {
				firstUnknown = i
			}
		}
	}
	natural := kind != "duplicates" && kind != "reversed" && kind != "gap-inside" && kind != "crafted-height" && kind != "gap-above-fork-point"
	var head, tail *nom.Momentum
	extends, refuse, linkedHead := false, false, false
	if len(unknown) > 0 {
		head = unknown[0].d.Momentum
		tail = batch[len(batch)-1].d.Momentum
		linkedHead = head.Height >= 2 && oldHashes[head.Height-1] == head.PreviousHash
		extends = head.Previous() == before.Identifier()
		refuse = !extends && (!linkedHead || before.Height-(head.Height-1) > 30 || tail.Height <= before.Height)
	}
	// The first delivered element that does not pass verification in order. An account block the node has itself
	// verified on the branch it stays on (it is in the pool when the loop gets to it, no own momentum abandoned, not
	// replaced by a delivered block of the same account) counts as verified, whatever the delivered copy looks like;
	// once own momentums are abandoned nothing verified before counts any more.
	firstBad := -1
	if len(unknown) > 0 {
		trusted := map[types.Hash]*nom.AccountBlock{}
		if extends {
			for h, b := range inPoolBefore {
				trusted[h] = b
			}
		}
	scan:
		for i := firstUnknown; i < len(batch); i++ {
			e := batch[i]
			for _, b := range e.d.AccountBlocks {
				if trusted[b.Hash] != nil {
					continue
				}
				if e.bad(b.Hash) {
					firstBad = i
					break scan
				}
				for h, t := range trusted {
					if t.Address == b.Address && t.Height >= b.Height {
						delete(trusted, h)
					}
				}
				trusted[b.Hash] = b
			}
			if !e.okM || e.unheld {
				firstBad = i
				break scan
			}
		}
	}
	// (1a) only verified momentums on the chain, stated without the generator's books: every momentum adopted by this call is
	// stamped with the start of a slot by the pillar elected for it, later than its parent, with the hash of its fields and
	// the signer's signature
	for h := uint64(2); h <= after.Height; h++ {
		if h <= before.Height && hashAt(l.Ch, h) == oldHashes[h] {
			continue
		}
		as := "not in the batch"
		for i := range batch {
			if batch[i].d.Momentum.Hash == hashAt(l.Ch, h) {
				as = "element " + fmt.Sprint(i) + " of " + fmt.Sprint(len(batch)) + ": " + batch[i].reason
				if batch[i].reason == "" {
					as = "element " + fmt.Sprint(i) + " of " + fmt.Sprint(len(batch)) + ": as produced"
				}
			}
		}
		adoptedMomentumOracle(out, l, h, kind, as)
	}
	// (1a') ... and what an adopted momentum lists is what the node holds: every header resolves to a stored block that this
	// momentum confirms, every stored block confirmed by it is listed
	firstAdopted := uint64(2)
	for firstAdopted <= before.Height && firstAdopted <= after.Height && hashAt(l.Ch, firstAdopted) == oldHashes[firstAdopted] {
		firstAdopted++
	}
	deliveredAs := func(h uint64) string {
		for i := range batch {
			if batch[i].d.Momentum.Hash == hashAt(l.Ch, h) {
				if batch[i].reason == "" {
					return fmt.Sprintf("element %d of %d: as produced", i, len(batch))
				}
				return fmt.Sprintf("element %d of %d: %s", i, len(batch), batch[i].reason)
			}
		}
		return "not in the batch"
	}
	// (1a'') ... and the account blocks it lists extend the confirmed account chains: no hole, no block on a foreign previous
	accountChainOracle(out, l, firstAdopted, after.Height, kind, deliveredAs, namedAccounts)
	if !contentOracle(out, l, firstAdopted, after.Height, kind, deliveredAs, namedAccounts) {
		w.broken = true
		out.Count("sync:history-ended:adopted-content-does-not-resolve")
		return
	}
	// (1) only verified momentums on the chain: every stored momentum is byte-identical to a genuinely produced one
	okStored := true
	storedDetail := M{"kind": kind}
	for h := uint64(2); h <= after.Height; h++ {
		m, _ := l.Ch.GetFrontierMomentumStore().GetMomentumByHeight(h)
		bts, _ := m.Serialize()
		if gb, ok := w.genuine[m.Hash]; !ok || !bytes.Equal(gb, bts) {
			if okStored {
				// the first held momentum that nobody produced honestly: where it is, how it came (this call or an earlier one)
				storedDetail = M{"kind": kind, "height": U64(h), "hash_known_as_genuinely_produced": ok, "same_bytes_as_produced": ok && bytes.Equal(gb, bts),
					"adopted_by_this_call": h > before.Height || m.Hash != oldHashes[h], "delivered_as": deliveredAs(h), "headers": len(m.Content),
					"timestamp": U64(m.TimestampUnix), "producer": types.PubKeyToAddress(m.PublicKey).String(),
					"frontier_under_lock": U64(before.Height), "frontier_after": U64(after.Height), "class": cname, "index": idx, "batch_len": len(batch), "known_prefix": firstUnknown}
			}
			okStored = false
		}
	}
	out.Oracle(okStored, "insertchain-holds-only-verified-momentums", storedDetail)
	// (1b) ... and only verified account blocks: every block of a momentum adopted by this call acknowledges a momentum
	// that is on the chain, below the momentum that confirms it
	for h := uint64(2); h <= after.Height; h++ {
		if h <= before.Height && hashAt(l.Ch, h) == oldHashes[h] {
			continue
		}
		d := DetailedAt(l.Ch, h)
		for _, b := range d.AccountBlocks {
			ack := b.MomentumAcknowledged
			out.Oracle(OnChain(l.Ch, ack) && ack.Height < h, "adopted-block-acknowledges-momentum-on-chain",
				M{"kind": kind, "momentum_height": U64(h), "block_account_height": U64(b.Height), "acknowledged_height": U64(ack.Height),
					"was_in_own_pool": inPoolBefore[b.Hash] != nil, "abandoned_own_momentums": abandoned})
		}
	}
	// (1c) the unconfirmed blocks the node holds afterwards are verified on ITS chain as well
	for _, b := range poolAfter {
		out.Oracle(OnChain(l.Ch, b.MomentumAcknowledged), "pooled-block-acknowledges-momentum-on-chain",
			M{"kind": kind, "acknowledged_height": U64(b.MomentumAcknowledged.Height), "frontier": U64(after.Height),
				"was_in_pool_before": inPoolBefore[b.Hash] != nil, "abandoned_own_momentums": abandoned})
	}
	// (1d) giving up own momentums gives up everything verified on top of them: an unconfirmed block that is still in the
	// pool afterwards was delivered with the new branch (and verified there)
	if abandoned > 0 {
		okDrop := true
		for _, b := range survivors {
			if !deliveredBlock[b.Hash] {
				okDrop = false
			}
		}
		out.Oracle(okDrop, "rollback-drops-unconfirmed-pool", M{"kind": kind, "pooled_before": len(poolBefore), "kept": len(survivors), "abandoned_own_momentums": abandoned})
	}
	// (1e) an adopted momentum was delivered with exactly the account blocks its content names (as many distinct delivered
	// blocks as headers, every header names a delivered block), in a form that verifies: the block the node now stores for
	// a header is byte for byte a delivered copy, or the copy the node had verified itself and held unconfirmed
	adoptedWith := map[types.Hash]bool{} // every block that travelled with a momentum adopted by this call
	for h := uint64(2); h <= after.Height; h++ {
		if h <= before.Height && hashAt(l.Ch, h) == oldHashes[h] {
			continue
		}
		stored := DetailedAt(l.Ch, h)
		var e *delivered
		for i := range batch {
			if batch[i].d.Momentum.Hash == stored.Momentum.Hash {
				e = &batch[i]
				break
			}
		}
		if e == nil {
			out.Oracle(false, "adopted-momentum-was-delivered", M{"kind": kind, "height": U64(h)})
			continue
		}
		ids := map[types.HashHeight][][]byte{}
		for _, b := range e.d.AccountBlocks {
			bts, _ := b.Serialize()
			ids[b.Identifier()] = append(ids[b.Identifier()], bts)
			adoptedWith[b.Hash] = true
		}
		named, verifiedForm := true, true
		for _, sb := range stored.AccountBlocks {
			copies, ok := ids[sb.Identifier()]
			named = named && ok
			sbts, _ := sb.Serialize()
			same := inPoolBefore[sb.Hash] != nil && abandoned == 0
			for _, c := range copies {
				same = same || bytes.Equal(c, sbts)
			}
			verifiedForm = verifiedForm && same
		}
		out.Oracle(len(ids) == len(stored.Momentum.Content) && len(stored.AccountBlocks) == len(stored.Momentum.Content) && named && verifiedForm,
			"adopted-momentum-delivered-with-exactly-its-account-blocks",
			M{"kind": kind, "height": U64(h), "headers": len(stored.Momentum.Content), "distinct_delivered_blocks": len(ids),
				"delivered_blocks": len(e.d.AccountBlocks), "every_header_names_a_delivered_block": named, "stored_is_a_delivered_or_own_verified_copy": verifiedForm,
				"corruption": e.reason})
	}
	// (1f) ... and nothing that only rode along with an adopted momentum is left in the node's pool
	for _, b := range poolAfter {
		out.Oracle(!(adoptedWith[b.Hash] && inPoolBefore[b.Hash] == nil), "pool-holds-nothing-that-rode-along-with-an-adopted-momentum",
			M{"kind": kind, "block_account_height": U64(b.Height), "frontier_before": U64(before.Height), "frontier_after": U64(after.Height)})
	}
	// (2a) whatever was delivered and whoever wrote first: if the call reports success, the node's chain is the one it had
	// when the insert lock was taken, or strictly longer than that and forking at most 30 below that frontier
	if cls == 0 {
		out.Oracle(after.Identifier() == before.Identifier() || (after.Height > before.Height && abandoned <= 30),
			"insertchain-success-means-unchanged-or-longer-within-30-of-frontier-under-lock",
			M{"kind": kind, "frontier_under_lock": U64(before.Height), "frontier_after": U64(after.Height), "abandoned": abandoned,
				"frontier_before_other_writer": U64(before0.Height)})
	}
	// (2) leaving the own chain implies: linked to an own momentum at most 30 below the frontier, strictly longer delivered chain
	if abandoned > 0 {
		tail := batch[len(batch)-1].d.Momentum
		okDepth := abandoned <= 30
		okLonger := tail.Height > before.Height
		out.Oracle(okDepth && okLonger, "insertchain-leave-implies-within-30-and-longer",
			M{"kind": kind, "abandoned": abandoned, "tail": U64(tail.Height), "frontier": U64(before.Height)})
		// (3) ... and only for a chain whose every element passes verification: this is finding F11 (rollback first)
		adopted := firstBad < 0 && err == nil && after.Height > before.Height
		out.Oracle(adopted, "insertchain-rollback-before-verify",
			M{"kind": kind, "abandoned_own_momentums": abandoned, "frontier_before": U64(before.Height), "frontier_after": U64(after.Height),
				"index": idx, "class": cname})
		if adopted {
			out.Count("sync:left-own-chain-for-valid-longer")
		} else {
			out.Count("sync:left-own-chain-for-invalid(F11)")
		}
	}
	// (2b) leaving the own chain implies a delivered chain that LINKS to an own momentum: whatever known momentums the
	// delivery starts with, its first unknown momentum names an own momentum (hash and height) as previous, and the node
	// goes back to exactly that momentum
	if abandoned > 0 {
		lowest := uint64(0)
		for h := uint64(1); h <= before.Height && lowest == 0; h++ {
			if hashAt(l.Ch, h) != oldHashes[h] {
				lowest = h
			}
		}
		d := M{"kind": kind, "abandoned": abandoned, "lowest_abandoned_height": U64(lowest), "frontier_before": U64(before.Height), "frontier_after": U64(after.Height),
			"known_prefix": firstUnknown, "class": cname, "index": idx}
		if head != nil {
			d["first_unknown_height"] = U64(head.Height)
			d["first_unknown_names_own_momentum"] = linkedHead
		}
		out.Oracle(head != nil && linkedHead && lowest == head.Height, "insertchain-leaves-chain-only-for-delivery-linked-to-own-momentum", d)
	}
	// (2c) a delivery whose first unknown momentum sits on none of the node's momentums is refused; chain and pool stay as they are
	if head != nil && !extends && !linkedHead {
		samePool := len(poolAfter) == len(poolBefore)
		for _, b := range poolAfter {
			samePool = samePool && inPoolBefore[b.Hash] != nil
		}
		out.Oracle(cls == 1 && after.Identifier() == before.Identifier() && abandoned == 0 && samePool, "insertchain-unlinked-delivery-changes-nothing",
			M{"kind": kind, "class": cname, "index": idx, "known_prefix": firstUnknown, "first_unknown_height": U64(head.Height), "frontier_before": U64(before.Height),
				"frontier_after": U64(after.Height), "abandoned": abandoned, "pool_before": len(poolBefore), "pool_after": len(poolAfter)})
		out.Count(fmt.Sprintf("sync:unlinked-first-unknown:known-prefix:%d", min(firstUnknown, 6)))
	}
	// (4) failure index. The batch is refused as a whole (index of its first unknown momentum since fix 39747b8 — the
	// deliverer of THAT momentum is the one to blame, not the deliverer of the known prefix —, nothing changed) when its first unknown momentum does not
	// sit on one of ours, sits more than 30 below the frontier, or the batch does not end above the frontier; otherwise
	// an error must name the first element OF THE DELIVERED BATCH (known prefix included) that does not verify, the node
	// stops on the element before it, and a batch of genuine linked momentums must be accepted.
	if len(batch) > 0 {
		out.Oracle(cls != 1 || (idx >= 0 && idx < len(batch)), "insertchain-error-index-within-batch", M{"kind": kind, "index": idx, "len": len(batch)})
	}
	if len(unknown) > 0 && natural {
		known := fmt.Sprintf("known-prefix:%d", min(firstUnknown, 6))
		switch {
		case refuse:
			out.Oracle(cls == 1 && idx == firstUnknown && after.Identifier() == before.Identifier(), "insertchain-refuses-unlinked-deep-or-not-longer",
				M{"kind": kind, "class": cname, "index": idx, "first_unknown": firstUnknown})
			out.Count("sync:refused")
		case firstBad >= 0:
			out.Oracle(cls == 1 && idx == firstBad, "insertchain-reports-index-of-failing-momentum",
				M{"kind": kind, "index": idx, "first_bad": firstBad, "known_prefix": firstUnknown, "class": cname, "corruption": batch[firstBad].reason})
			last := head.PreviousHash
			if firstBad > firstUnknown {
				last = batch[firstBad-1].d.Momentum.Hash
			}
			out.Oracle(after.Hash == last, "insertchain-stops-at-last-verified-element",
				M{"kind": kind, "index": idx, "first_bad": firstBad, "known_prefix": firstUnknown, "frontier_after": U64(after.Height), "corruption": batch[firstBad].reason})
			fk := "extension"
			if !extends {
				fk = "fork"
			}
			out.Count("sync:invalid-element:" + fk + ":" + known)
			out.Count(fmt.Sprintf("sync:invalid-element:%s:unknown-before-it:%d", fk, min(firstBad-firstUnknown, 6)))
		default:
			out.Oracle(cls == 0 && after.Hash == tail.Hash, "insertchain-accepts-valid-linked-chain", M{"kind": kind, "index": idx, "err": fmt.Sprint(err)})
			out.Count("sync:accepted:" + known)
		}
	}
	// (5) re-delivering known momentums changes nothing
	if len(unknown) == 0 && len(batch) > 0 {
		okPool := len(poolAfter) == len(poolBefore)
		for _, b := range poolAfter {
			okPool = okPool && inPoolBefore[b.Hash] != nil
		}
		out.Oracle(cls == 0 && idx == 0 && after.Identifier() == before.Identifier() && okPool, "insertchain-known-redelivery-changes-nothing",
			M{"kind": kind, "class": cname})
	}
}

func min(a, b int) int {
	if a < b {
		return a
	}
	return b
}

func (w *world) segment(src chain.Chain, lo, hi uint64) []delivered {
	var r []delivered
	for _, d := range WireCopyAll(DetailedRange(src, lo, hi)) {
		r = append(r, delivered{d: d, okM: true})
	}
	return r
}

// unknown part of s's chain up to hi, preceded by k momentums the local node already has (as far as there are any)
func (w *world) span(s *Node, fp uint64, k int, hi uint64) []delivered {
	lo := fp + 1
	for ; k > 0 && lo > 2; k-- {
		lo--
	}
	return w.segment(s.Ch, lo, hi)
}

// number of already known momentums in front of a batch
func (w *world) prefixLen() int {
	switch w.rng.Intn(6) {
	case 0, 1:
		return 0
	case 2:
		return 1
	case 3:
		return 2
	default:
		return 1 + w.rng.Intn(6)
	}
}

// fillPool: the receiving node gets unconfirmed account blocks the way a running node does (generated by a wallet on
// that node / broadcast by a peer: verified against its own chain, then pooled). They acknowledge its frontier or one
// of its recent momentums.
func (w *world) fillPool() {
	rng, l := w.rng, w.l
	lf := l.Frontier()
	for n := 1 + rng.Intn(3); n > 0; n-- {
		from, to := users[rng.Intn(len(users))], users[rng.Intn(len(users))]
		if rng.Intn(2) == 0 {
			from = quiet[rng.Intn(len(quiet))]
		}
		if len(l.Ch.GetUncommittedAccountBlocksByAddress(from.Address)) > 0 && rng.Intn(3) != 0 {
			continue // mostly one unconfirmed block per account, sometimes a chain of them
		}
		ack := types.HashHeight{}
		if back := uint64(rng.Intn(4)); back > 0 && lf.Height > back+1 && rng.Intn(2) == 0 {
			m, _ := l.Ch.GetFrontierMomentumStore().GetMomentumByHeight(lf.Height - back)
			ack = m.Identifier()
		}
		tx, err := MakeSend(l.Sv, from, to.Address, int64(1+rng.Intn(999)), ack)
		if err == nil {
			err = Broadcast(l.Br, tx.Block)
		}
		if err != nil {
			w.out.Count("sync:pool-fill:refused")
			continue
		}
		w.out.Count("sync:pool-fill:ok")
	}
}

// pooledDelivery: a batch from s whose last-but-k momentum carries account blocks the receiving node holds unconfirmed.
// s gets them as a broadcast first (its verifier decides: valid on s's chain -> an honest pillar includes them); the ones
// s refuses are put into the momentum WITHOUT verification (a faulty pillar: ForceAddAccountBlockTransaction, or, when
// even the pool of s cannot take them, written into the content of a momentum after it was generated). For an honest
// verifier the delivered chain is invalid at that momentum. s is restored afterwards.
func (w *world) pooledDelivery(s *Node) {
	rng, l, out := w.rng, w.l, w.out
	if len(l.Ch.GetAllUncommittedAccountBlocks()) == 0 {
		w.fillPool()
	}
	pool := poolOf(l.Ch)
	if len(pool) == 0 {
		return
	}
	lf := FrontierOf(l.Ch).Height
	if sf := FrontierOf(s.Ch).Height; sf < lf { // the delivered chain is to be longer than the local one
		if lf-sf > 8 {
			return
		}
		grow(s, rng, int(lf-sf)+rng.Intn(2))
	} else if rng.Intn(2) == 0 {
		grow(s, rng, 1+rng.Intn(2))
	}
	w.remember(s)
	fp := forkPoint(l.Ch, s.Ch)
	depth := lf - fp
	if depth > 30 {
		return
	}
	// does the account of the block have blocks in the momentums that are going to be rolled back?
	touched := map[types.Address]bool{}
	for h := fp + 1; h <= lf; h++ {
		for _, b := range DetailedAt(l.Ch, h).AccountBlocks {
			touched[b.Address] = true
		}
	}
	h0 := FrontierOf(s.Ch).Height
	var forced, inject []*nom.AccountBlock
	legit := 0
	for _, b := range pool {
		if rng.Intn(3) == 0 && len(pool) > 1 {
			continue
		}
		where := "account-without-blocks-in-abandoned-momentums"
		if touched[b.Address] {
			where = "account-with-blocks-in-abandoned-momentums"
		}
		if depth == 0 {
			where = "extension"
		}
		ackOwn := "acknowledges-common-momentum"
		if b.MomentumAcknowledged.Height > fp {
			ackOwn = "acknowledges-momentum-of-own-branch"
		}
		if ch, _ := s.Ch.GetFrontierMomentumStore().GetBlockConfirmationHeight(b.Hash); ch != 0 {
			out.Count("sync:pooled-block-delivered:already-confirmed-on-source")
			continue // an earlier momentum of s has it; it travels with that one
		}
		if Broadcast(BridgeOf(s), b) == nil {
			legit++
			out.Count("sync:pooled-block-delivered:valid-on-source:" + where + ":" + ackOwn)
			continue
		}
		if len(s.Ch.GetUncommittedAccountBlocksByAddress(b.Address)) > 0 {
			// s refused b because of its own POOL (it holds a competing unconfirmed block of that account, e.g. a send left
			// over by the hostile-producer family), which says nothing about b on s's CONFIRMED chain: force-adding b replaces
			// the competitor and the momentum produced from it can be perfectly valid (thorough seed 1: adopted, re-verified on
			// a fresh node, while the books called it "unverified by producer"). Such a block is not part of this delivery.
			out.Count("sync:pooled-block-delivered:source-holds-competing-unconfirmed-block")
			continue
		}
		if dump := PatchDumpOf(l.Ch, b); dump != nil && ForcePool(s.Ch, b, dump) == nil && Pooled(s.Ch, b) {
			forced = append(forced, b)
			out.Count("sync:pooled-block-delivered:unverified-by-producer:" + where + ":" + ackOwn)
			continue
		}
		inject = append(inject, b)
		out.Count("sync:pooled-block-delivered:written-into-content:" + where + ":" + ackOwn)
	}
	if legit+len(forced)+len(inject) == 0 {
		return
	}
	evilAt := uint64(0)
	if legit+len(forced) > 0 {
		if err := ProduceAt(s, 10); err != nil {
			panic(err)
		}
		if len(forced) > 0 {
			evilAt = FrontierOf(s.Ch).Height
		} else {
			w.remember(s)
		}
	}
	var last *delivered
	if len(inject) > 0 {
		tx, blocks, err := BuildNext(s, FrontierOf(s.Ch), 10, true)
		if err != nil {
			panic(err)
		}
		m := tx.Momentum
		all := append([]*nom.AccountBlock{}, blocks...)
		for _, b := range inject {
			all = append(all, WireCopyBlock(b))
		}
		m.Content = nom.NewMomentumContent(all)
		Resign(m)
		last = &delivered{d: WireCopy(&nom.DetailedMomentum{Momentum: m, AccountBlocks: all}), okM: false, reason: "own-pooled-block-of-other-branch(written-into-content)"}
		for _, b := range inject {
			last.markBad(b.Hash)
		}
	} else if k := rng.Intn(3); k > 0 { // momentums on top of the one with the pooled blocks
		grow(s, rng, k)
		if evilAt == 0 {
			w.remember(s)
		}
	}
	batch := w.span(s, fp, w.prefixLen(), FrontierOf(s.Ch).Height)
	for i := range batch {
		if batch[i].d.Momentum.Height == evilAt {
			for _, b := range forced {
				batch[i].markBad(b.Hash)
			}
			batch[i].reason = "own-pooled-block-of-other-branch(unverified-by-producer)"
		}
	}
	if last != nil {
		batch = append(batch, *last)
	}
	kind := fmt.Sprintf("own-pooled-blocks-in-fork-depth%02d", depth)
	if depth == 0 {
		kind = "own-pooled-blocks-in-extension"
	}
	switch {
	case len(forced)+len(inject) == 0:
		kind += "(valid)"
	default:
		kind += "(invalid)"
	}
	w.deliver(batch, kind, s.Ch)
	if evilAt > 0 { // s goes back to its honest chain; its pool is dropped with the momentums
		if err := s.RollbackTo(h0); err != nil {
			panic(err)
		}
	}
}

// ownProduction: the receiving node's own pillar produces k momentums (content: the node's unconfirmed blocks)
func (w *world) ownProduction(k int) *servedFirst {
	return &servedFirst{name: fmt.Sprintf("own-pillar-produces-%d", k), run: func() [][]delivered {
		var r [][]delivered
		for i := 0; i < k; i++ {
			d, err := ProduceOnBare(w.l, []int64{10, 10, 20}[w.rng.Intn(3)])
			if err != nil {
				panic(err)
			}
			bts, _ := d.Momentum.Serialize()
			w.genuine[d.Momentum.Hash] = bts
			r = append(r, []delivered{{d: d, okM: true}})
		}
		return r
	}}
}

// otherBatch: a second InsertChain (fetcher vs downloader) with an honest segment lo..hi of t's chain
func (w *world) otherBatch(name string, t *Node, lo, hi uint64) *servedFirst {
	return &servedFirst{name: name, lo: lo, run: func() [][]delivered {
		seg := w.segment(t.Ch, lo, hi)
		ds := make([]*nom.DetailedMomentum, len(seg))
		for i := range seg {
			ds[i] = seg[i].d
		}
		if _, _, p := tryInsert(w.l, ds); p != nil {
			panic(p)
		}
		return [][]delivered{seg}
	}}
}

// interleavedDelivery: a batch from s is delivered while another writer of the receiving node gets the insert lock
// first: the node's own pillar (1..3 momentums), the next momentums of the chain the node follows, the first part of
// the very batch, or (now and then) nobody. The batch ends around the frontier the node has ONCE THE OTHER WRITER IS
// DONE (one below, equal, one above, further), its fork point is wherever the histories have put it (in the deep histories
// 29..31 below the frontier before the other writer, so 29..34 below the one under the lock).
func (w *world) interleavedDelivery(s, other *Node) {
	rng, l := w.rng, w.l
	lf := FrontierOf(l.Ch).Height
	fp := forkPoint(l.Ch, s.Ch)
	var first *servedFirst
	k := uint64(0) // momentums the other writer is going to put on top of the frontier
	switch c := rng.Intn(8); {
	case c < 4:
		k = uint64(1 + rng.Intn(2))
		if rng.Intn(6) == 0 {
			k = 3
		}
		first = w.ownProduction(int(k))
	case c < 6:
		// the chain the node is on grows (announced momentums inserted by the fetcher)
		if of := FrontierOf(other.Ch).Height; forkPoint(l.Ch, other.Ch) == lf {
			k = uint64(1 + rng.Intn(2))
			if of < lf+k {
				grow(other, rng, int(lf+k-of))
				w.remember(other)
			}
			first = w.otherBatch(fmt.Sprintf("followed-chain-extends-%d", k), other, lf+1, lf+k)
		} else {
			k = 1
			first = w.ownProduction(1)
		}
	case c < 7:
		// the first part of the very batch arrives twice (decided below, once the batch is known)
	default:
	}
	target := lf + k // the frontier under the lock, if the other writer extends
	hi := target
	switch rng.Intn(6) {
	case 0, 1:
	case 2, 3:
		hi = target + 1
	case 4:
		if target > fp+1 {
			hi = target - 1
		}
	default:
		hi = target + 2 + uint64(rng.Intn(3))
	}
	if hi <= fp {
		hi = fp + 1
	}
	if sf := FrontierOf(s.Ch).Height; sf < hi {
		if hi-sf > 12 {
			return
		}
		grow(s, rng, int(hi-sf))
		w.remember(s)
		fp = forkPoint(l.Ch, s.Ch)
	}
	batch := w.span(s, fp, w.prefixLen(), hi)
	name := "nobody"
	if first == nil && rng.Intn(3) != 0 && hi > fp+1 {
		j := fp + 1 + uint64(rng.Intn(int(hi-fp)))
		first = w.otherBatch("same-batch-first-part", s, fp+1, j)
	}
	if first != nil {
		name = first.name
	}
	// now and then the batch has an invalid element as well
	if rng.Intn(5) == 0 {
		nk := 0
		for nk < len(batch) && batch[nk].d.Momentum.Height <= fp {
			nk++
		}
		if nk < len(batch) {
			i := nk + rng.Intn(len(batch)-nk)
			corrupt(rng, &batch[i], s.Ch, s.Cs, l.Ch, batch[0].d.Momentum.Height, hi)
			w.out.Count("sync:corruption:" + batch[i].reason)
			name += "+invalid-element"
		}
	}
	rel := "tail=frontier-under-lock"
	switch {
	case hi < target:
		rel = "tail<frontier-under-lock"
	case hi == target+1:
		rel = "tail=frontier-under-lock+1"
	case hi > target+1:
		rel = "tail>frontier-under-lock+1"
	}
	depth := "fork-point-within-30-before-and-under-lock"
	switch {
	case lf-fp > 30:
		depth = "fork-point-beyond-30-before-and-under-lock"
	case target-fp > 30:
		depth = "fork-point-within-30-before-beyond-under-lock"
	case lf == fp:
		depth = "extension-before"
	}
	w.out.Count("sync:interleaved:" + rel)
	w.out.Count("sync:interleaved:" + depth)
	w.out.Count(fmt.Sprintf("sync:interleaved:depth-under-lock:%02d", min(int(target-fp), 35)))
	w.deliverAfter(batch, "served-first("+name+")", s.Ch, first)
}

// one delivery of a random kind from source node s
func (w *world) randomDelivery(s *Node) {
	rng := w.rng
	lf := FrontierOf(w.l.Ch).Height
	sf := FrontierOf(s.Ch).Height
	fp := forkPoint(w.l.Ch, s.Ch)
	pickHi := func() uint64 {
		var hi uint64
		switch rng.Intn(6) {
		case 0:
			hi = lf // as long as ours
		case 1:
			hi = lf + 1 // one longer
		case 2:
			if lf > fp+1 {
				hi = lf - 1
			} else {
				hi = lf
			}
		case 3:
			hi = fp + 1 + uint64(rng.Intn(5))
		default:
			hi = sf
		}
		if hi > sf {
			hi = sf
		}
		if hi <= fp {
			hi = fp + 1
		}
		return hi
	}
	if sf <= fp { // nothing unknown on this source
		if fp >= 2 {
			lo := 2 + uint64(rng.Intn(int(fp-1)))
			w.deliver(w.segment(s.Ch, lo, fp), "all-known", s.Ch)
		}
		return
	}
	depth := lf - fp
	tagDepth := fmt.Sprintf("depth%02d", depth)
	if depth > 30 {
		tagDepth = "depth>30"
	}
	switch k := rng.Intn(18); {
	case k < 4:
		kind := "fork-" + tagDepth
		if depth == 0 {
			kind = "extension"
		}
		w.deliver(w.segment(s.Ch, fp+1, pickHi()), kind, s.Ch)
	case k < 6:
		w.deliver(w.span(s, fp, 1+rng.Intn(4), pickHi()), "overlap", s.Ch)
	case k < 12:
		// an invalid element at any position of a batch that starts with 0..k known momentums
		hi := pickHi()
		if rng.Intn(2) == 0 {
			hi = sf // longer batches: room in front of and behind the invalid element
		}
		b := w.span(s, fp, w.prefixLen(), hi)
		nk := 0
		for nk < len(b) && b[nk].d.Momentum.Height <= fp {
			nk++
		}
		i := nk + rng.Intn(len(b)-nk)
		if nk > 0 && rng.Intn(8) == 0 {
			i = rng.Intn(nk) // inside the known part
		}
		corrupt(rng, &b[i], s.Ch, s.Cs, w.l.Ch, b[0].d.Momentum.Height, b[len(b)-1].d.Momentum.Height)
		kind := "invalid-in-fork-" + tagDepth
		if depth == 0 {
			kind = "invalid-in-extension"
		}
		if i < nk {
			kind = "invalid-in-known-part"
		}
		w.out.Count("sync:corruption:" + b[i].reason)
		w.out.Count(fmt.Sprintf("sync:invalid-position:known%d+%d-of-%d", min(nk, 6), min(i-nk, 8), min(len(b)-nk, 12)))
		w.deliver(b, kind, s.Ch)
	case k == 12:
		if fp >= 2 {
			lo := 2 + uint64(rng.Intn(int(fp-1)))
			w.deliver(w.segment(s.Ch, lo, fp), "all-known", s.Ch)
		}
	case k == 13:
		if sf >= fp+2 {
			w.deliver(w.segment(s.Ch, fp+2+uint64(rng.Intn(int(sf-fp-1))), sf), "gap-above-fork-point", s.Ch)
		}
	case k == 14:
		b := w.segment(s.Ch, fp+1, pickHi())
		if len(b) >= 3 {
			i := 1 + rng.Intn(len(b)-2)
			b = append(b[:i], b[i+1:]...)
			w.deliver(b, "gap-inside", s.Ch)
		}
	case k == 15:
		b := w.segment(s.Ch, fp+1, pickHi())
		i := rng.Intn(len(b))
		dup := delivered{d: WireCopy(b[i].d), okM: true}
		nb := append([]delivered{}, b[:i+1]...)
		nb = append(nb, dup)
		nb = append(nb, b[i+1:]...)
		w.deliver(nb, "duplicates", s.Ch)
	case k == 16:
		b := w.segment(s.Ch, fp+1, pickHi())
		if len(b) >= 2 {
			for i, j := 0, len(b)-1; i < j; i, j = i+1, j-1 {
				b[i], b[j] = b[j], b[i]
			}
			w.deliver(b, "reversed", s.Ch)
		}
	default:
		// crafted heights: a known previous hash with a height that is not previous+1
		b := w.segment(s.Ch, fp+1, fp+1)
		switch rng.Intn(3) {
		case 0:
			b[0].d.Momentum.Height = 0
		case 1:
			b[0].d.Momentum.Height = lf + 2 + uint64(rng.Intn(40))
		default:
			b[0].d.Momentum.Height = ^uint64(0) - uint64(rng.Intn(3))
		}
		b[0].okM = false
		w.deliver(b, "crafted-height", s.Ch)
	}
}

// setupRefused: an honest producer's own momentums lo..hi, delivered in ONE InsertChain call to a node whose frontier is
// that chain's momentum `frontier`, were refused (or the call panicked) while the scenario was being set up. That is a failure
// of the property ("a valid linked chain is adopted"), reported with the input; the history ends there.
func setupRefused(out *Out, what string, lo, hi, frontier uint64, idx int, err error, p interface{}) {
	out.Oracle(false, "insertchain-accepts-valid-linked-chain", M{"kind": "setup: " + what, "delivered_heights": fmt.Sprintf("%d..%d", lo, hi),
		"receiver_frontier_height": U64(frontier), "index": idx, "refused_height": U64(lo + uint64(idx)), "err": fmt.Sprint(err), "panic": fmt.Sprint(p)})
	out.Count("sync:setup-delivery-refused")
}

func runSync(rng *rand.Rand, n int, out *Out, _ []string) {
	reproduced := false // the F11 reproducer runs in the first history whose local chain allows it
	for h := 0; h < n; h++ {
		if syncHistory(rng, out, !reproduced) {
			reproduced = true
		}
	}
}

func syncHistory(rng *rand.Rand, out *Out, first bool) (reproduced bool) {
	a := NewNode()
	defer a.Stop()
	b := NewNode()
	defer b.Stop()
	FreezeClock()
	strays = map[types.Hash][]stray{}
	w := &world{rng: rng, out: out, a: a, b: b, genuine: map[types.Hash][]byte{}}
	n0 := 2 + rng.Intn(10)
	grow(a, rng, n0)
	if idx, err, p := tryInsertBr(BridgeOf(b), WireCopyAll(DetailedRange(a.Ch, 2, FrontierOf(a.Ch).Height))); err != nil || p != nil {
		// a refused honest delivery is a verdict about the node, not a reason for the harness to stop
		setupRefused(out, "common prefix of the two producers (one delivery to a fresh node)", 2, FrontierOf(a.Ch).Height, 1, idx, err, p)
		return false
	}
	ka, kb := 1+rng.Intn(12), 1+rng.Intn(12)
	deep := rng.Intn(3) == 0
	if deep { // deep forks, around and beyond the 30-momentum window
		ka, kb = 31+rng.Intn(5), 33+rng.Intn(8)
	}
	fpAB := FrontierOf(a.Ch).Height
	grow(a, rng, ka)
	grow(b, rng, kb)
	w.remember(a)
	w.remember(b)
	w.l = OpenBare("")
	defer func() { w.l.Destroy() }()
	la := uint64(2 + rng.Intn(int(FrontierOf(a.Ch).Height-1)))
	if rng.Intn(2) == 0 {
		la = FrontierOf(a.Ch).Height
	}
	if deep { // the local node sits exactly 29, 30 or 31 above the fork point
		la = fpAB + 29 + uint64(rng.Intn(3))
	}
	if idx, err, p := tryInsert(w.l, WireCopyAll(DetailedRange(a.Ch, 2, la))); err != nil || p != nil {
		setupRefused(out, "chain of the local node (one delivery to a fresh node)", 2, la, 1, idx, err, p)
		return false
	}
	w.deliver(nil, "empty", a.Ch)
	if deep && rng.Intn(2) == 0 {
		// the same boundary with another writer served first: the window and "longer" move with the frontier under the lock
		w.interleavedDelivery(b, a)
	}
	if deep && forkPoint(w.l.Ch, b.Ch) == fpAB && FrontierOf(w.l.Ch).Height == la {
		// window boundary: b's branch from the fork point, longer than the local chain, and one of equal length
		if rng.Intn(3) == 0 {
			w.deliver(w.segment(b.Ch, fpAB+1, la), fmt.Sprintf("boundary-equal-length-depth%02d", la-fpAB), b.Ch)
		}
		w.deliver(w.segment(b.Ch, fpAB+1, la+1+uint64(rng.Intn(2))), fmt.Sprintf("boundary-fork-depth%02d", la-fpAB), b.Ch)
	}

	if first {
		// F11 reproducer, every run: the local node is on one branch (own), the other branch (side) is longer, its second
		// unknown momentum has a bad signature -> own momentums are rolled back before anything of side was verified
		own, side := a, b
		if lf := FrontierOf(w.l.Ch).Height; forkPoint(w.l.Ch, b.Ch) == lf && forkPoint(w.l.Ch, a.Ch) < lf {
			own, side = b, a // the boundary deliveries have moved the local node to b's branch
		}
		fp := forkPoint(w.l.Ch, side.Ch)
		if FrontierOf(w.l.Ch).Height == fp && FrontierOf(own.Ch).Height > fp && forkPoint(w.l.Ch, own.Ch) == fp {
			// local must have own momentums above the fork point
			if idx, err, p := tryInsert(w.l, WireCopyAll(DetailedRange(own.Ch, fp+1, FrontierOf(own.Ch).Height))); err != nil || p != nil {
				setupRefused(out, "extension of the local node's own branch", fp+1, FrontierOf(own.Ch).Height, fp, idx, err, p)
				return false
			}
		}
		if FrontierOf(w.l.Ch).Height-fp <= 30 && FrontierOf(w.l.Ch).Height > fp {
			for FrontierOf(side.Ch).Height <= FrontierOf(w.l.Ch).Height+1 {
				grow(side, rng, 2)
				w.remember(side)
			}
			seg := w.segment(side.Ch, fp+1, FrontierOf(side.Ch).Height)
			seg[1].d.Momentum.Signature[5] ^= 1
			seg[1].d = WireCopy(seg[1].d)
			seg[1].okM, seg[1].reason = false, "bad-signature"
			w.deliver(seg, "F11-reproducer", side.Ch)
			reproduced = true
		}
	}
	steps := 8 + rng.Intn(8)
	for s := 0; s < steps && !w.broken; s++ {
		src, other := a, b
		if rng.Intn(2) == 0 {
			src, other = b, a
		}
		if rng.Intn(4) == 0 {
			grow(src, rng, 1+rng.Intn(6))
			w.remember(src)
		}
		// the branch the local node is not on overtakes it: forks keep coming, from a fork point that falls behind
		if lf, sf := FrontierOf(w.l.Ch).Height, FrontierOf(src.Ch).Height; rng.Intn(3) == 0 && sf <= lf && lf-sf < 8 &&
			forkPoint(w.l.Ch, src.Ch) < lf && forkPoint(w.l.Ch, other.Ch) == lf {
			grow(src, rng, int(lf-sf)+1+rng.Intn(3))
			w.remember(src)
		}
		switch rng.Intn(13) {
		case 11:
			// an overlapping delivery whose remainder does not sit on the last known momentum
			if rng.Intn(2) == 0 {
				w.fillPool()
			}
			w.unlinkedDelivery(src)
		case 12:
			// a hostile elected producer: listed account blocks that do not extend the confirmed account chains
			w.gapDelivery(src, other)
		case 10:
			// a hostile elected producer: content that does not correspond to the applied / delivered blocks
			if rng.Intn(3) == 0 {
				w.fillPool()
			}
			w.hostileDelivery(src)
		case 0, 1:
			w.fillPool()
			w.randomDelivery(src)
		case 2, 3:
			w.pooledDelivery(src)
		case 4, 5:
			if rng.Intn(2) == 0 {
				w.fillPool()
			}
			w.interleavedDelivery(src, other)
		case 6:
			if rng.Intn(3) == 0 {
				w.fillPool()
			}
			from := src
			if rng.Intn(2) == 0 {
				// the cheap longer side chain: the branch the receiver is not on, when it is not longer than the receiver's
				for _, c := range []*Node{src, other} {
					lf, cf, fp := FrontierOf(w.l.Ch).Height, FrontierOf(c.Ch).Height, forkPoint(w.l.Ch, c.Ch)
					if fp < lf && cf <= lf && lf-cf < 7 && lf-fp <= 30 {
						from = c
						break
					}
				}
			}
			w.slotDelivery(from)
		default:
			w.randomDelivery(src)
		}
	}
	// ORACLE: whatever path brought it there (the initial sync included), every momentum of the resulting chain sits at the
	// start of a slot, signed by the pillar elected for it
	for h := uint64(2); h <= FrontierOf(w.l.Ch).Height; h++ {
		adoptedMomentumOracle(out, w.l, h, "resulting-chain", "")
	}
	// ORACLE: ... whose account blocks form gapless account chains
	accountChainOracle(out, w.l, 2, FrontierOf(w.l.Ch).Height, "resulting-chain", func(uint64) string { return "" }, nil)
	// ORACLE: ... and lists exactly the account blocks the node stores as confirmed by it
	if !contentOracle(out, w.l, 2, FrontierOf(w.l.Ch).Height, "resulting-chain", func(uint64) string { return "" }, nil) {
		return
	}
	// ORACLE: every momentum (and its account blocks) of the resulting chain re-verifies on a fresh node
	fresh := OpenBare("")
	defer fresh.Destroy()
	final := WireCopyAll(DetailedRange(w.l.Ch, 2, FrontierOf(w.l.Ch).Height))
	okAll := true
	detail := M{}
	for i, d := range final {
		if idx, err, p := tryInsert(fresh, []*nom.DetailedMomentum{d}); err != nil || p != nil {
			okAll = false
			detail = M{"height": U64(d.Momentum.Height), "i": i, "idx": idx, "err": fmt.Sprint(err), "panic": fmt.Sprint(p)}
			break
		}
	}
	out.Oracle(okAll && FrontierOf(fresh.Ch).Hash == FrontierOf(w.l.Ch).Hash, "resulting-chain-reverifies-on-fresh-node", detail)
	return
}
