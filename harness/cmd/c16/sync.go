package main

import (
	"bytes"
	"fmt"
	"math/big"
	"math/rand"
	. "zharness/hz"

	"github.com/zenon-network/go-zenon/chain"
	g "github.com/zenon-network/go-zenon/chain/genesis/mock"
	"github.com/zenon-network/go-zenon/chain/nom"
	"github.com/zenon-network/go-zenon/common/types"
	"github.com/zenon-network/go-zenon/wallet"
	"github.com/zenon-network/go-zenon/zenon/mock"
)

// 40-bit identifiers (the model only compares hashes for equality)
func hashZ(h types.Hash) interface{} { return Big(new(big.Int).SetBytes(h.Bytes()[:5])) }

var users = []*wallet.KeyPair{g.User1, g.User2, g.User3, g.User4, g.User5}

// grow: k momentums on nd with random ZNN sends (content) and slot gaps
func grow(nd *Node, rng *rand.Rand, k int) {
	for i := 0; i < k; i++ {
		for s := 0; s < rng.Intn(3); s++ {
			from, to := users[rng.Intn(len(users))], users[rng.Intn(len(users))]
			bal, _ := nd.Ch.GetFrontierAccountStore(from.Address).GetBalance(types.ZnnTokenStandard)
			if bal.Cmp(big.NewInt(1000)) > 0 {
				nd.Z.InsertSendBlock(&nom.AccountBlock{Address: from.Address, ToAddress: to.Address,
					TokenStandard: types.ZnnTokenStandard, Amount: big.NewInt(int64(1 + rng.Intn(999)))}, nil, mock.SkipVmChanges)
			}
		}
		if err := ProduceAt(nd, []int64{10, 10, 10, 20, 30}[rng.Intn(5)]); err != nil {
			panic(err)
		}
	}
}

func hashAt(ch chain.Chain, h uint64) types.Hash {
	m, _ := ch.GetFrontierMomentumStore().GetMomentumByHeight(h)
	if m == nil {
		return types.ZeroHash
	}
	return m.Hash
}

// forkPoint: the highest height at which both chains hold the same momentum
func forkPoint(l, s chain.Chain) uint64 {
	h := FrontierOf(l).Height
	if sh := FrontierOf(s).Height; sh < h {
		h = sh
	}
	for ; h >= 1; h-- {
		if hashAt(l, h) == hashAt(s, h) {
			return h
		}
	}
	return 0
}

type delivered struct {
	d      *nom.DetailedMomentum
	ok     bool // passes full verification when applied in order (false = corrupted by the generator)
	reason string
}

// corrupt one delivered element. l is the receiving node: a block that is already in its pool is not verified
// again by InsertChain (the pooled, verified copy is used), so tampering with the delivered copy has no effect then.
func corrupt(rng *rand.Rand, e *delivered, src chain.Chain, l chain.Chain) {
	d := e.d
	m := d.Momentum
	kinds := []string{"bad-signature", "wrong-producer", "wrong-changes-hash", "extra-account-block"}
	if len(d.AccountBlocks) > 0 {
		kinds = append(kinds, "missing-account-block", "invalid-account-block", "missing-account-block")
	}
	kind := kinds[rng.Intn(len(kinds))]
	switch kind {
	case "bad-signature":
		m.Signature[rng.Intn(len(m.Signature))] ^= byte(1 << uint(rng.Intn(8)))
	case "wrong-producer":
		prod := types.PubKeyToAddress(m.PublicKey)
		for _, kp := range g.PillarKeys {
			if kp.Address != prod {
				m.Signature = kp.Sign(m.Hash.Bytes())
				m.PublicKey = kp.Public
				break
			}
		}
	case "wrong-changes-hash":
		kp := KeyOf(types.PubKeyToAddress(m.PublicKey))
		m.ChangesHash[rng.Intn(32)] ^= 0x10
		m.Hash = m.ComputeHash()
		m.Signature = kp.Sign(m.Hash.Bytes())
	case "missing-account-block":
		i := rng.Intn(len(d.AccountBlocks))
		d.AccountBlocks = append(append([]*nom.AccountBlock{}, d.AccountBlocks[:i]...), d.AccountBlocks[i+1:]...)
	case "invalid-account-block":
		b := d.AccountBlocks[rng.Intn(len(d.AccountBlocks))]
		b.Signature[rng.Intn(len(b.Signature))] ^= 0x04
		if l.GetPatch(b.Address, b.Identifier()) != nil {
			e.d = WireCopy(d)
			e.reason = kind + "(already-pooled:no-effect)"
			return
		}
	case "extra-account-block":
		// a block the momentum does not list: taken from another momentum of the source chain, or made up
		var extra *nom.AccountBlock
		fr := FrontierOf(src).Height
		for try := 0; try < 20 && extra == nil; try++ {
			o := DetailedAt(src, 2+uint64(rng.Intn(int(fr-1))))
			if o != nil && o.Momentum.Height != m.Height && len(o.AccountBlocks) > 0 {
				extra = WireCopyBlock(o.AccountBlocks[0])
			}
		}
		if extra == nil {
			extra = &nom.AccountBlock{Version: 1, ChainIdentifier: 100, BlockType: nom.BlockTypeUserSend, Address: g.User1.Address,
				ToAddress: g.User2.Address, Height: 9999, Amount: big.NewInt(1), TokenStandard: types.ZnnTokenStandard}
			extra.Hash = extra.ComputeHash()
		}
		d.AccountBlocks = append(d.AccountBlocks, extra)
	}
	e.d = WireCopy(d) // as received from the wire: cached producer / timestamps follow the bytes
	e.ok = false
	e.reason = kind
}

// observable result class: 0 = (0, nil), 1 = an error with an index, 3 = panic. InsertChain's own refusals and the
// verifier's rejections are both plain error values; they are told apart by the frontier and the index, not by text.
func errClass(err error, panicked interface{}) (int64, string) {
	switch {
	case panicked != nil:
		return 3, "panic"
	case err == nil:
		return 0, "ok"
	}
	return 1, "error"
}

func tryInsert(b *BareNode, ds []*nom.DetailedMomentum) (idx int, err error, panicked interface{}) {
	defer func() {
		if r := recover(); r != nil {
			panicked = r
		}
	}()
	idx, err = b.Br.InsertChain(ds)
	return
}

type world struct {
	rng     *rand.Rand
	out     *Out
	a, b    *Node
	l       *BareNode
	genuine map[types.Hash][]byte // serialisation of every momentum really produced by a or b
}

func (w *world) remember(nd *Node) {
	st := nd.Ch.GetFrontierMomentumStore()
	for h := uint64(1); h <= FrontierOf(nd.Ch).Height; h++ {
		m, _ := st.GetMomentumByHeight(h)
		if _, ok := w.genuine[m.Hash]; !ok {
			bts, _ := m.Serialize()
			w.genuine[m.Hash] = bts
		}
	}
}

// deliver one batch to the local node, compare with the model, evaluate the property directly
func (w *world) deliver(batch []delivered, kind string, src chain.Chain) {
	out, l := w.out, w.l
	before := l.Frontier()
	// local chain as the model sees it: from below the lowest delivered height / 36 below the frontier
	lo := before.Height
	if lo > 37 {
		lo -= 37
	} else {
		lo = 1
	}
	for _, e := range batch {
		if h := e.d.Momentum.Height; h >= 2 && h-1 < lo {
			lo = h - 1
		}
	}
	local := Lst()
	oldHashes := map[uint64]types.Hash{}
	st := l.Ch.GetFrontierMomentumStore()
	for h := lo; h <= before.Height; h++ {
		m, _ := st.GetMomentumByHeight(h)
		local = append(local, Tup(hashZ(m.Hash), hashZ(m.PreviousHash), U64(m.Height)))
	}
	for h := uint64(1); h <= before.Height; h++ {
		oldHashes[h] = hashAt(l.Ch, h)
	}
	dl := Lst()
	ds := make([]*nom.DetailedMomentum, len(batch))
	firstBad := -1
	for i, e := range batch {
		ds[i] = e.d
		dl = append(dl, Tup(hashZ(e.d.Momentum.Hash), hashZ(e.d.Momentum.PreviousHash), U64(e.d.Momentum.Height), e.ok, len(e.d.AccountBlocks) > 0))
	}
	idx, err, p := tryInsert(l, ds)
	cls, cname := errClass(err, p)
	after := l.Frontier()
	out.Case("insert_chain", Tup(local, dl), Tup(I64(cls), I64(int64(idx)), hashZ(after.Hash), U64(after.Height)), kind+" -> "+cname)
	out.Count("sync:kind:" + kind)

	// ---- the property itself
	out.Oracle(p == nil, "insertchain-no-panic", M{"kind": kind, "panic": fmt.Sprint(p)})
	// what happened to the own chain
	abandoned := 0
	for h := uint64(1); h <= before.Height; h++ {
		if hashAt(l.Ch, h) != oldHashes[h] {
			abandoned++
		}
	}
	// which delivered momentums were unknown before, in order; first corrupted one among them
	var unknown []delivered
	for _, e := range batch {
		if oldHashes[e.d.Momentum.Height] != e.d.Momentum.Hash {
			unknown = append(unknown, e)
		}
	}
	for i, e := range batch {
		if !e.ok && oldHashes[e.d.Momentum.Height] != e.d.Momentum.Hash {
			firstBad = i
			break
		}
	}
	// (1) only verified momentums on the chain: every stored momentum is byte-identical to a genuinely produced one
	okStored := true
	for h := uint64(2); h <= after.Height; h++ {
		m, _ := l.Ch.GetFrontierMomentumStore().GetMomentumByHeight(h)
		bts, _ := m.Serialize()
		if gb, ok := w.genuine[m.Hash]; !ok || !bytes.Equal(gb, bts) {
			okStored = false
		}
	}
	out.Oracle(okStored, "insertchain-holds-only-verified-momentums", M{"kind": kind})
	// (2) leaving the own chain implies: linked to an own momentum at most 30 below the frontier, strictly longer delivered chain
	if abandoned > 0 {
		tail := batch[len(batch)-1].d.Momentum
		okDepth := abandoned <= 30
		okLonger := tail.Height > before.Height
		out.Oracle(okDepth && okLonger, "insertchain-leave-implies-within-30-and-longer",
			M{"kind": kind, "abandoned": abandoned, "tail": U64(tail.Height), "frontier": U64(before.Height)})
		// (3) ... and only for a chain whose every element passes verification: this is finding F11 (rollback first)
		adopted := firstBad < 0 && err == nil && after.Height > before.Height
		out.Oracle(adopted, "insertchain-rollback-before-verify",
			M{"kind": kind, "abandoned_own_momentums": abandoned, "frontier_before": U64(before.Height), "frontier_after": U64(after.Height),
				"index": idx, "class": cname})
		if adopted {
			out.Count("sync:left-own-chain-for-valid-longer")
		} else {
			out.Count("sync:left-own-chain-for-invalid(F11)")
		}
	}
	// (4) failure index. The batch is refused as a whole (index 0, nothing changed) when its first unknown momentum does not
	// sit on one of ours, sits more than 30 below the frontier, or the batch does not end above the frontier; otherwise
	// an error must name the first element that does not verify, and a batch of genuine linked momentums must be accepted.
	natural := kind != "duplicates" && kind != "reversed" && kind != "gap-inside" && kind != "crafted-height" && kind != "gap-above-fork-point"
	if len(unknown) > 0 && natural {
		head := unknown[0].d.Momentum
		tail := batch[len(batch)-1].d.Momentum
		linkedHead := head.Height >= 2 && oldHashes[head.Height-1] == head.PreviousHash
		extends := head.Previous() == before.Identifier()
		refuse := !extends && (!linkedHead || before.Height-(head.Height-1) > 30 || tail.Height <= before.Height)
		switch {
		case refuse:
			out.Oracle(cls == 1 && idx == 0 && after.Identifier() == before.Identifier(), "insertchain-refuses-unlinked-deep-or-not-longer",
				M{"kind": kind, "class": cname, "index": idx})
			out.Count("sync:refused")
		case firstBad >= 0:
			out.Oracle(cls == 1 && idx == firstBad, "insertchain-reports-index-of-failing-momentum",
				M{"kind": kind, "index": idx, "first_bad": firstBad, "class": cname, "corruption": batch[firstBad].reason})
		default:
			out.Oracle(cls == 0 && after.Hash == tail.Hash, "insertchain-accepts-valid-linked-chain", M{"kind": kind, "index": idx, "err": fmt.Sprint(err)})
		}
	}
	// (5) re-delivering known momentums changes nothing
	if len(unknown) == 0 && len(batch) > 0 {
		out.Oracle(cls == 0 && idx == 0 && after.Identifier() == before.Identifier(), "insertchain-known-redelivery-changes-nothing",
			M{"kind": kind, "class": cname})
	}
}

func (w *world) segment(src chain.Chain, lo, hi uint64) []delivered {
	var r []delivered
	for _, d := range WireCopyAll(DetailedRange(src, lo, hi)) {
		r = append(r, delivered{d: d, ok: true})
	}
	return r
}

// one delivery of a random kind from source node s
func (w *world) randomDelivery(s *Node) {
	rng := w.rng
	lf := FrontierOf(w.l.Ch).Height
	sf := FrontierOf(s.Ch).Height
	fp := forkPoint(w.l.Ch, s.Ch)
	pickHi := func() uint64 {
		var hi uint64
		switch rng.Intn(6) {
		case 0:
			hi = lf // as long as ours
		case 1:
			hi = lf + 1 // one longer
		case 2:
			if lf > fp+1 {
				hi = lf - 1
			} else {
				hi = lf
			}
		case 3:
			hi = fp + 1 + uint64(rng.Intn(5))
		default:
			hi = sf
		}
		if hi > sf {
			hi = sf
		}
		if hi <= fp {
			hi = fp + 1
		}
		return hi
	}
	if sf <= fp { // nothing unknown on this source
		if fp >= 2 {
			lo := 2 + uint64(rng.Intn(int(fp-1)))
			w.deliver(w.segment(s.Ch, lo, fp), "all-known", s.Ch)
		}
		return
	}
	depth := lf - fp
	tagDepth := fmt.Sprintf("depth%02d", depth)
	if depth > 30 {
		tagDepth = "depth>30"
	}
	switch k := rng.Intn(16); {
	case k < 4:
		kind := "fork-" + tagDepth
		if depth == 0 {
			kind = "extension"
		}
		w.deliver(w.segment(s.Ch, fp+1, pickHi()), kind, s.Ch)
	case k < 6:
		o := uint64(1 + rng.Intn(4))
		lo := fp + 1
		if lo > o+1 {
			lo -= o
		} else {
			lo = 2
		}
		w.deliver(w.segment(s.Ch, lo, pickHi()), "overlap", s.Ch)
	case k < 10:
		b := w.segment(s.Ch, fp+1, pickHi())
		i := rng.Intn(len(b))
		corrupt(rng, &b[i], s.Ch, w.l.Ch)
		kind := "invalid-in-fork-" + tagDepth
		if depth == 0 {
			kind = "invalid-in-extension"
		}
		w.out.Count("sync:corruption:" + b[i].reason)
		w.out.Count(fmt.Sprintf("sync:invalid-position:%d-of-%d", i, len(b)))
		w.deliver(b, kind, s.Ch)
	case k == 10:
		if fp >= 2 {
			lo := 2 + uint64(rng.Intn(int(fp-1)))
			w.deliver(w.segment(s.Ch, lo, fp), "all-known", s.Ch)
		}
	case k == 11:
		if sf >= fp+2 {
			w.deliver(w.segment(s.Ch, fp+2+uint64(rng.Intn(int(sf-fp-1))), sf), "gap-above-fork-point", s.Ch)
		}
	case k == 12:
		b := w.segment(s.Ch, fp+1, pickHi())
		if len(b) >= 3 {
			i := 1 + rng.Intn(len(b)-2)
			b = append(b[:i], b[i+1:]...)
			w.deliver(b, "gap-inside", s.Ch)
		}
	case k == 13:
		b := w.segment(s.Ch, fp+1, pickHi())
		i := rng.Intn(len(b))
		dup := delivered{d: WireCopy(b[i].d), ok: true}
		nb := append([]delivered{}, b[:i+1]...)
		nb = append(nb, dup)
		nb = append(nb, b[i+1:]...)
		w.deliver(nb, "duplicates", s.Ch)
	case k == 14:
		b := w.segment(s.Ch, fp+1, pickHi())
		if len(b) >= 2 {
			for i, j := 0, len(b)-1; i < j; i, j = i+1, j-1 {
				b[i], b[j] = b[j], b[i]
			}
			w.deliver(b, "reversed", s.Ch)
		}
	default:
		// crafted heights: a known previous hash with a height that is not previous+1
		b := w.segment(s.Ch, fp+1, fp+1)
		switch rng.Intn(3) {
		case 0:
			b[0].d.Momentum.Height = 0
		case 1:
			b[0].d.Momentum.Height = lf + 2 + uint64(rng.Intn(40))
		default:
			b[0].d.Momentum.Height = ^uint64(0) - uint64(rng.Intn(3))
		}
		b[0].ok = false
		w.deliver(b, "crafted-height", s.Ch)
	}
}

func runSync(rng *rand.Rand, n int, out *Out, _ []string) {
	for h := 0; h < n; h++ {
		syncHistory(rng, out, h == 0)
	}
}

func syncHistory(rng *rand.Rand, out *Out, first bool) {
	a := NewNode()
	defer a.Stop()
	b := NewNode()
	defer b.Stop()
	FreezeClock()
	w := &world{rng: rng, out: out, a: a, b: b, genuine: map[types.Hash][]byte{}}
	n0 := 2 + rng.Intn(10)
	grow(a, rng, n0)
	if idx, err := BridgeOf(b).InsertChain(WireCopyAll(DetailedRange(a.Ch, 2, FrontierOf(a.Ch).Height))); err != nil {
		panic(fmt.Sprint("prefix not accepted by b: ", idx, err))
	}
	ka, kb := 1+rng.Intn(12), 1+rng.Intn(12)
	deep := rng.Intn(3) == 0
	if deep { // deep forks, around and beyond the 30-momentum window
		ka, kb = 31+rng.Intn(5), 33+rng.Intn(8)
	}
	fpAB := FrontierOf(a.Ch).Height
	grow(a, rng, ka)
	grow(b, rng, kb)
	w.remember(a)
	w.remember(b)
	w.l = OpenBare("")
	defer func() { w.l.Destroy() }()
	la := uint64(2 + rng.Intn(int(FrontierOf(a.Ch).Height-1)))
	if rng.Intn(2) == 0 {
		la = FrontierOf(a.Ch).Height
	}
	if deep { // the local node sits exactly 29, 30 or 31 above the fork point
		la = fpAB + 29 + uint64(rng.Intn(3))
	}
	if _, err, p := tryInsert(w.l, WireCopyAll(DetailedRange(a.Ch, 2, la))); err != nil || p != nil {
		panic(fmt.Sprint("local chain not accepted: ", err, p))
	}
	w.deliver(nil, "empty", a.Ch)
	if deep {
		// window boundary: b's branch from the fork point, longer than the local chain, and one of equal length
		if rng.Intn(3) == 0 {
			w.deliver(w.segment(b.Ch, fpAB+1, la), fmt.Sprintf("boundary-equal-length-depth%02d", la-fpAB), b.Ch)
		}
		w.deliver(w.segment(b.Ch, fpAB+1, la+1+uint64(rng.Intn(2))), fmt.Sprintf("boundary-fork-depth%02d", la-fpAB), b.Ch)
	}

	if first {
		// F11 reproducer, every run: the local node is on a's branch, b's branch is longer, its second unknown
		// momentum has a bad signature -> own momentums are rolled back before anything of b was verified
		for FrontierOf(b.Ch).Height <= FrontierOf(w.l.Ch).Height+1 {
			grow(b, rng, 2)
			w.remember(b)
		}
		fp := forkPoint(w.l.Ch, b.Ch)
		if FrontierOf(w.l.Ch).Height == fp { // local must have own momentums above the fork point
			if _, err, p := tryInsert(w.l, WireCopyAll(DetailedRange(a.Ch, fp+1, FrontierOf(a.Ch).Height))); err != nil || p != nil {
				panic("cannot extend local")
			}
		}
		if FrontierOf(w.l.Ch).Height-fp <= 30 && FrontierOf(w.l.Ch).Height > fp {
			for FrontierOf(b.Ch).Height <= FrontierOf(w.l.Ch).Height+1 {
				grow(b, rng, 2)
				w.remember(b)
			}
			seg := w.segment(b.Ch, fp+1, FrontierOf(b.Ch).Height)
			seg[1].d.Momentum.Signature[5] ^= 1
			seg[1].d = WireCopy(seg[1].d)
			seg[1].ok, seg[1].reason = false, "bad-signature"
			w.deliver(seg, "F11-reproducer", b.Ch)
		}
	}
	steps := 8 + rng.Intn(8)
	for s := 0; s < steps; s++ {
		src := a
		if rng.Intn(2) == 0 {
			src = b
		}
		if rng.Intn(4) == 0 {
			grow(src, rng, 1+rng.Intn(6))
			w.remember(src)
		}
		w.randomDelivery(src)
	}
	// ORACLE: every momentum (and its account blocks) of the resulting chain re-verifies on a fresh node
	fresh := OpenBare("")
	defer fresh.Destroy()
	final := WireCopyAll(DetailedRange(w.l.Ch, 2, FrontierOf(w.l.Ch).Height))
	okAll := true
	detail := M{}
	for i, d := range final {
		if idx, err, p := tryInsert(fresh, []*nom.DetailedMomentum{d}); err != nil || p != nil {
			okAll = false
			detail = M{"height": U64(d.Momentum.Height), "i": i, "idx": idx, "err": fmt.Sprint(err), "panic": fmt.Sprint(p)}
			break
		}
	}
	out.Oracle(okAll && FrontierOf(fresh.Ch).Hash == FrontierOf(w.l.Ch).Hash, "resulting-chain-reverifies-on-fresh-node", detail)
}
