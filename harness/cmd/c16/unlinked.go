package main

// Two families of deliveries (C16):
//
// unlinkedDelivery - clause "a node leaves its current chain only for a delivered chain that links to one of the node's own
// momentums": an OVERLAPPING delivery, k >= 1 momentums the node already has (ending at its frontier or 1..33 below it),
// followed by a remainder that does not sit on the last of them: the other branch from ITS fork point (it links to another
// own momentum: the known prefix is only redundant, a valid longer chain must be adopted and the node goes back exactly to
// the momentum the remainder names), the other branch from above its fork point (sits on a momentum the node does not
// have), a momentum of the right height on an unknown parent with a tail that claims a height above the frontier, the
// hash of the last known momentum under a wrong height. Whatever the known prefix is, the link of the first unknown
// momentum decides; a refused delivery leaves chain and pool untouched.
//
// gapDelivery - clause "every momentum and account block passes full verification in order", the hostile ELECTED
// producer again: a momentum stamped at a slot start and signed by the pillar elected for it, with the changes hash of
// exactly what it lists (computed like vm.MomentumVM.applyMomentum does, without the verifier), whose content lists
// account blocks that do NOT extend the account's confirmed chain: it skips one or more heights at the start (the
// skipped blocks sit in the receiver's unconfirmed pool - a relayed transaction - or nowhere), has a hole inside, names
// a block whose previous is a block of another account, or a block of a height that is confirmed already. The same
// construction listing a prefix of the pooled chain is the control (valid, must be adopted).
//
// accountChainOracle is the clause on the real node's ledger: after every InsertChain, every account chain touched by an
// adopted momentum is contiguous (block of height n sits on the stored block of height n-1, height 1 on nothing) and
// confirmed in order.

import (
	"bytes"
	"fmt"
	"sort"
	. "zharness/hz"

	"github.com/zenon-network/go-zenon/chain/nom"
	"github.com/zenon-network/go-zenon/common/types"
	"github.com/zenon-network/go-zenon/wallet"
)

// a copy of momentum m moved to another place (previous hash, height), re-signed by the pillar that produced m
func reparent(m *nom.DetailedMomentum, prev types.Hash, height uint64) *nom.DetailedMomentum {
	d := WireCopy(m)
	d.Momentum.PreviousHash = prev
	d.Momentum.Height = height
	Resign(d.Momentum)
	return WireCopy(d)
}

func (w *world) unlinkedDelivery(s *Node) {
	rng, l, out := w.rng, w.l, w.out
	lf := FrontierOf(l.Ch).Height
	if lf < 4 {
		return
	}
	// the branch the node is not on is made longer than the node's chain every other time (a tail above the frontier)
	if sf, fp := FrontierOf(s.Ch).Height, forkPoint(l.Ch, s.Ch); rng.Intn(2) == 0 && sf <= lf && lf-sf < 8 && fp < lf {
		grow(s, rng, int(lf-sf)+1+rng.Intn(2))
		w.remember(s)
	}
	sf := FrontierOf(s.Ch).Height
	fp := forkPoint(l.Ch, s.Ch)
	// the known prefix: k own momentums ending at height h
	var h uint64
	where := ""
	switch c := rng.Intn(8); {
	case c == 0:
		h, where = lf, "at-frontier"
	case c == 1 && lf > 30:
		h, where = lf-uint64(27+rng.Intn(7)), "27..33-below-frontier"
	default:
		span := lf - 2
		if span > 12 {
			span = 12
		}
		h, where = lf-1-uint64(rng.Intn(int(span))), "1..12-below-frontier"
	}
	if h < 2 || h > lf {
		h = 2
	}
	k := uint64(1 + rng.Intn(4))
	lo := uint64(2)
	if h+1 > k+2 {
		lo = h + 1 - k
	}
	batch := w.segment(l.Ch, lo, h)
	ownH := hashAt(l.Ch, h)
	var variants []string
	if sf > fp && h != fp {
		variants = append(variants, "other-branch-from-its-fork-point", "other-branch-from-its-fork-point")
	}
	if sf >= fp+2 {
		variants = append(variants, "other-branch-above-its-fork-point", "other-branch-above-its-fork-point")
	}
	variants = append(variants, "unknown-parent-at-next-height", "hash-of-last-known-under-wrong-height", "parent-is-own-momentum-of-another-height")
	variant := variants[rng.Intn(len(variants))]
	donor := DetailedAt(s.Ch, 2+uint64(rng.Intn(int(sf-1))))
	switch variant {
	case "other-branch-from-its-fork-point":
		batch = append(batch, w.segment(s.Ch, fp+1, sf)...)
	case "other-branch-above-its-fork-point":
		batch = append(batch, w.segment(s.Ch, fp+2+uint64(rng.Intn(int(sf-fp-1))), sf)...)
	case "unknown-parent-at-next-height":
		var ph types.Hash
		rng.Read(ph[:])
		x1 := reparent(donor, ph, h+1)
		batch = append(batch, delivered{d: x1, okM: false, reason: "re-parented:unknown-parent"})
		top := h + 2
		if top <= lf {
			top = lf + 1 + uint64(rng.Intn(3))
		}
		if rng.Intn(4) != 0 {
			batch = append(batch, delivered{d: reparent(donor, x1.Momentum.Hash, top), okM: false, reason: "re-parented:tail-claims-height-above-frontier"})
		}
	case "hash-of-last-known-under-wrong-height":
		batch = append(batch, delivered{d: reparent(donor, ownH, lf+2+uint64(rng.Intn(3))), okM: false, reason: "re-parented:right-hash-wrong-height"})
	case "parent-is-own-momentum-of-another-height":
		// names the hash of an own momentum j != h, under the height h+1
		j := 1 + uint64(rng.Intn(int(lf)))
		if j == h {
			j = h - 1
		}
		x1 := reparent(donor, hashAt(l.Ch, j), h+1)
		batch = append(batch, delivered{d: x1, okM: false, reason: "re-parented:hash-of-another-own-momentum"})
		batch = append(batch, delivered{d: reparent(donor, x1.Momentum.Hash, lf+1+uint64(rng.Intn(3))), okM: false, reason: "re-parented:tail-claims-height-above-frontier"})
	}
	tail := batch[len(batch)-1].d.Momentum.Height
	out.Count("sync:unlinked:variant:" + variant)
	out.Count(fmt.Sprintf("sync:unlinked:known-prefix:%d", h+1-lo))
	out.Count("sync:unlinked:known-prefix-ends:" + where)
	if tail > lf {
		out.Count("sync:unlinked:tail-above-frontier")
	} else {
		out.Count("sync:unlinked:tail-not-above-frontier")
	}
	w.deliver(batch, "known-prefix-then-"+variant, s.Ch)
}

// gapDelivery: see the head of the file. s is the source (preferably the chain the receiver extends), the hostile momentum
// sits on s's frontier and is the last element of the batch.
func (w *world) gapDelivery(s, other *Node) {
	rng, l, out := w.rng, w.l, w.out
	lf := FrontierOf(l.Ch).Height
	if forkPoint(l.Ch, s.Ch) != lf && forkPoint(l.Ch, other.Ch) == lf && rng.Intn(4) != 0 {
		s = other // no own momentum is abandoned: the receiver's pool survives the delivery
	}
	fp := forkPoint(l.Ch, s.Ch)
	if lf-fp > 31 || fp < 2 {
		return
	}
	prev := FrontierOf(s.Ch)
	// an account with the same confirmed chain on both nodes and no unconfirmed block on either
	all := append(append([]*wallet.KeyPair{}, users...), quiet...)
	rng.Shuffle(len(all), func(i, j int) { all[i], all[j] = all[j], all[i] })
	var kp *wallet.KeyPair
	var base uint64
	for _, c := range all {
		if len(s.Ch.GetUncommittedAccountBlocksByAddress(c.Address)) > 0 || len(l.Ch.GetUncommittedAccountBlocksByAddress(c.Address)) > 0 {
			continue
		}
		fs, _ := s.Ch.GetFrontierMomentumStore().GetFrontierAccountBlock(c.Address)
		fl, _ := l.Ch.GetFrontierMomentumStore().GetFrontierAccountBlock(c.Address)
		if (fs == nil) != (fl == nil) || (fs != nil && fs.Hash != fl.Hash) {
			continue
		}
		kp, base = c, 0
		if fs != nil {
			base = fs.Height
		}
		break
	}
	if kp == nil {
		out.Count("sync:gap:no-account-with-same-chain-on-both")
		return
	}
	// the account's next blocks, unconfirmed on s, acknowledging a momentum both nodes have
	ackM, _ := s.Ch.GetFrontierMomentumStore().GetMomentumByHeight(fp - uint64(rng.Intn(2)))
	sbr := BridgeOf(s)
	var bs []*nom.AccountBlock
	for n := 2 + rng.Intn(3); n > 0; n-- {
		tx, err := MakeSend(s.Sv, kp, users[rng.Intn(len(users))].Address, int64(1+rng.Intn(99)), ackM.Identifier())
		if err == nil {
			err = Broadcast(sbr, tx.Block)
		}
		if err != nil {
			break
		}
		bs = append(bs, WireCopyBlock(tx.Block))
	}
	if len(bs) < 2 {
		out.Count("sync:gap:source-refused-the-sends")
		return
	}
	variants := []string{"prefix(valid)", "skips-blocks-at-the-start", "skips-blocks-at-the-start", "skips-blocks-at-the-start", "skips-blocks-at-the-start",
		"previous-names-block-of-another-account", "height-already-confirmed"}
	if len(bs) >= 3 {
		variants = append(variants, "hole-inside", "hole-inside")
	}
	variant := variants[rng.Intn(len(variants))]
	if variant == "height-already-confirmed" && base == 0 {
		variant = "skips-blocks-at-the-start"
	}
	var listed []*nom.AccountBlock // what the momentum lists and what is delivered with it
	needs := 0                     // the receiver needs bs[:needs] in its pool for the listed blocks to sit on something
	e := delivered{okM: false}
	switch variant {
	case "prefix(valid)":
		listed = bs[:1+rng.Intn(len(bs))]
		e.okM, e.forgedValid = true, true
	case "skips-blocks-at-the-start":
		needs = 1 + rng.Intn(len(bs)-1)
		listed = bs[needs : needs+1+rng.Intn(len(bs)-needs)]
	case "hole-inside":
		hole := 1 + rng.Intn(len(bs)-2)
		listed = append(append([]*nom.AccountBlock{}, bs[:hole]...), bs[hole+1:]...)
		needs = hole + 1
	default:
		listed = bs[:1]
	}
	dt := slotSec*int64(1+rng.Intn(3)) - (int64(prev.TimestampUnix)-genesisSec)%slotSec
	m, err := BuildNextListing(s, prev, dt, listed)
	if err != nil {
		out.Count("sync:gap:not-built:" + variant)
		return
	}
	deliveredBlocks := append([]*nom.AccountBlock{}, listed...)
	switch variant {
	case "previous-names-block-of-another-account", "height-already-confirmed":
		// the changes are those of the genuine next block; the block that is listed and delivered in its place is signed by
		// the account's key but sits elsewhere
		x := WireCopyBlock(bs[0])
		if variant == "height-already-confirmed" {
			x.Height = base
			x.PreviousHash = types.ZeroHash
			if below, _ := s.Ch.GetFrontierMomentumStore().GetAccountBlockByHeight(kp.Address, base-1); below != nil && base > 1 {
				x.PreviousHash = below.Hash
			}
		} else {
			for _, o := range all {
				if fo, _ := s.Ch.GetFrontierMomentumStore().GetFrontierAccountBlock(o.Address); o.Address != kp.Address && fo != nil {
					x.PreviousHash = fo.Hash
					if rng.Intn(2) == 0 {
						x.Height = fo.Height + 1
					}
					break
				}
			}
		}
		Sign(x, kp)
		x = WireCopyBlock(x)
		hd := x.Header()
		setContent(m, []*types.AccountHeader{&hd})
		deliveredBlocks = []*nom.AccountBlock{x}
		e.markBad(x.Hash)
	}
	// the receiver's pool: the skipped blocks arrive as relayed transactions (verified by the receiver), or not at all
	victim := "nothing-pooled-on-receiver"
	held := 0
	if needs > 0 && rng.Intn(4) != 0 {
		upto := needs
		if rng.Intn(2) == 0 {
			upto = needs + rng.Intn(len(bs)-needs+1) // ... and some of the listed ones as well
		}
		for _, b := range bs[:upto] {
			if Broadcast(l.Br, b) != nil {
				break
			}
			held++
		}
		victim = "skipped-blocks-pooled-on-receiver"
		if held < needs {
			victim = "receiver-refused-the-skipped-blocks"
		} else if held > needs {
			victim = "skipped-and-listed-blocks-pooled-on-receiver"
		}
	}
	// a listed block verifies at its place iff the block below it is confirmed, pooled on the receiver (and the pool is
	// not dropped by a rollback) or a listed block that verified
	if needs > 0 {
		good := map[uint64]bool{base: true}
		if fp == lf {
			for _, b := range bs[:held] {
				good[b.Height] = true
			}
		}
		for _, b := range listed {
			if good[b.Height-1] {
				good[b.Height] = true
			} else {
				e.markBad(b.Hash)
			}
		}
	}
	e.d = WireCopy(&nom.DetailedMomentum{Momentum: m, AccountBlocks: deliveredBlocks})
	e.reason = "hostile-producer:gap:" + variant + ":" + victim
	batch := w.span(s, fp, w.prefixLen(), prev.Height)
	batch = append(batch, e)
	out.Count("sync:gap:variant:" + variant)
	out.Count("sync:gap:receiver:" + victim)
	out.Count(fmt.Sprintf("sync:gap:pooled-chain:%d:listed:%d:skipped-at-start:%d", len(bs), len(listed), int(listed[0].Height-base-1)))
	out.Count(fmt.Sprintf("sync:gap:honest-unknown-momentums-in-front:%d", min(int(prev.Height-fp), 8)))
	out.Count("sync:corruption:" + e.reason)
	depth := lf - fp
	kind := fmt.Sprintf("hostile-producer-gap-in-fork-depth%02d", depth)
	if depth == 0 {
		kind = "hostile-producer-gap-in-extension"
	}
	if e.okM {
		kind += "(valid)"
	}
	w.deliver(batch, kind, s.Ch)
}

// accountChainOracle: the account chains touched by the momentums lo..hi of nd's chain (every account a content header or
// a delivery names, and the watched ones), walked down by height from the account's frontier as long as the blocks are
// confirmed at >= lo: the block of height n > 1 names the stored block of height n-1 as previous and is not confirmed
// before it, the block of height 1 names nothing.
func accountChainOracle(out *Out, nd *BareNode, lo, hi uint64, kind string, as func(h uint64) string, named []types.Address) {
	if lo < 2 {
		lo = 2
	}
	if hi < lo {
		return
	}
	st := nd.Ch.GetFrontierMomentumStore()
	addrs := map[types.Address]bool{}
	for _, a := range watched {
		addrs[a] = true
	}
	for _, a := range named {
		addrs[a] = true
	}
	for h := lo; h <= hi; h++ {
		if m, _ := st.GetMomentumByHeight(h); m != nil {
			for _, hd := range m.Content {
				addrs[hd.Address] = true
			}
		}
	}
	var order []types.Address
	for a := range addrs {
		order = append(order, a)
	}
	sort.Slice(order, func(i, j int) bool { return bytes.Compare(order[i].Bytes(), order[j].Bytes()) < 0 })
	ok, detail := true, M{}
	for _, a := range order {
		b, _ := st.GetFrontierAccountBlock(a)
		for b != nil && ok {
			conf, _ := st.GetBlockConfirmationHeight(b.Hash)
			if conf < lo {
				break
			}
			if b.Height <= 1 {
				if b.Height != 1 || b.PreviousHash != types.ZeroHash {
					ok = false
					detail = M{"kind": kind, "account": a.String(), "account_height": U64(b.Height), "confirmation_height": U64(conf),
						"what": "first block names a previous block", "delivered_as": as(conf)}
				}
				break
			}
			below, _ := st.GetAccountBlockByHeight(a, b.Height-1)
			var confBelow uint64
			if below != nil {
				confBelow, _ = st.GetBlockConfirmationHeight(below.Hash)
			}
			if below == nil || below.Hash != b.PreviousHash || confBelow > conf || confBelow == 0 {
				ok = false
				detail = M{"kind": kind, "account": a.String(), "account_height": U64(b.Height), "confirmation_height": U64(conf),
					"block_below_stored": below != nil, "previous_is_block_below": below != nil && below.Hash == b.PreviousHash,
					"confirmation_height_of_block_below": U64(confBelow), "delivered_as": as(conf)}
			}
			b = below
		}
	}
	out.Oracle(ok, "adopted-account-blocks-extend-confirmed-account-chain-without-gaps", detail)
}
