package main

// Slots and producers (C16, clause "every momentum of the adopted chain passes full verification"): a momentum is valid
// only if it is stamped with the FIRST second of a slot and signed by the pillar elected for that slot - one momentum
// per slot. This file holds
//   - a reference for "who is elected for the slot a timestamp falls into" that does not go through
//     consensus.GetMomentumProducer / VerifyMomentumProducer (the code under test): the producers of a tick, in slot
//     order, come from the election manager (hook consensus.VerifElectionByTick), the slot arithmetic is done here;
//   - forge: a momentum honest in everything (content, changes hash, hash, signature) except when it is stamped and by
//     whom it is signed, put on a producing node's chain without verification so that honest momentums can follow;
//   - slotDelivery: delivered chains with such momentums (stamped inside a slot by the slot's pillar, once or several
//     times per slot; stamped at a slot start by the pillar of a slot 1..3 away; a valid re-stamped one as control);
//   - adoptedMomentumOracle: the clause itself, for every momentum a node adopted.

import (
	"fmt"
	"math/rand"
	"sort"
	. "zharness/hz"

	g "github.com/zenon-network/go-zenon/chain/genesis/mock"
	"github.com/zenon-network/go-zenon/chain/nom"
	"github.com/zenon-network/go-zenon/common/types"
	"github.com/zenon-network/go-zenon/consensus"
	"github.com/zenon-network/go-zenon/vm/constants"
	"github.com/zenon-network/go-zenon/wallet"
)

var (
	genesisSec = int64(g.EmbeddedGenesis.GenesisTimestampSec)
	slotSec    = constants.ConsensusConfig.BlockTime
	tickSlots  = int64(constants.ConsensusConfig.NodeCount)
)

// slotOf: start of the slot ts falls into
func slotOf(ts int64) int64 { return ts - (ts-genesisSec)%slotSec }

// electedAt: the pillar elected for the slot that CONTAINS ts, on the chain cs sits on (the election of a tick is a
// function of the chain two ticks below: the same on every chain that holds the ancestors of a momentum stamped ts).
func electedAt(cs consensus.Consensus, ts int64) (slotStart int64, who types.Address, ok bool) {
	off := ts - genesisSec
	if off < 0 {
		return 0, who, false
	}
	tick := off / (slotSec * tickSlots)
	i := (off - tick*slotSec*tickSlots) / slotSec
	slotStart = genesisSec + tick*slotSec*tickSlots + i*slotSec
	prods, _, err := consensus.VerifElectionByTick(cs, uint64(tick))
	if err != nil || int64(len(prods)) != tickSlots {
		return slotStart, who, false
	}
	return slotStart, prods[i].Producer, true
}

// forge puts a momentum on top of nd's frontier that is honest in everything but its slot: content = nd's unconfirmed
// blocks, changes hash computed by the real supervisor (GenerateMomentum at the next slot start with the pillar elected
// there; the changes are the patches of the account blocks, they depend neither on the timestamp nor on the signer),
// then stamped ts, hashed, signed by kp and inserted WITHOUT verification (chain.AddMomentumTransaction).
func forge(nd *Node, ts int64, kp *wallet.KeyPair) *nom.Momentum {
	prev := FrontierOf(nd.Ch)
	tx, _, err := BuildNext(nd, prev, slotSec-(int64(prev.TimestampUnix)-genesisSec)%slotSec, true)
	if err != nil {
		panic(err)
	}
	m := tx.Momentum
	m.TimestampUnix = uint64(ts)
	m.PublicKey = kp.Public
	m.Hash = m.ComputeHash()
	m.Signature = kp.Sign(m.Hash.Bytes())
	bts, _ := m.Serialize()
	m2, err := nom.DeserializeMomentum(bts) // cached timestamp / producer follow the bytes
	if err != nil {
		panic(err)
	}
	if err := AddMomentum(nd.Ch, &nom.MomentumTransaction{Momentum: m2, Changes: tx.Changes}); err != nil {
		panic(err)
	}
	return m2
}

// pillarAtDistance: the pillar elected for a slot 1..3 slots before / after the slot of ts that is not the one elected
// for the slot of ts itself (d = 0: there is none)
func pillarAtDistance(cs consensus.Consensus, rng *rand.Rand, ts int64) (d int64, kp *wallet.KeyPair) {
	_, own, ok := electedAt(cs, ts)
	if !ok {
		return 0, nil
	}
	ds := []int64{-1, 1, -2, 2, -3, 3}
	rng.Shuffle(len(ds), func(i, j int) { ds[i], ds[j] = ds[j], ds[i] })
	for _, c := range ds {
		if _, who, ok := electedAt(cs, ts+c*slotSec); ok && who != own && KeyOf(who) != nil {
			return c, KeyOf(who)
		}
	}
	return 0, nil
}

// slotDelivery: a chain from s that holds momentums which are honest in everything but their slot.
//
//	in-slot    1..9 momentums stamped with seconds 1..9 of ONE slot (strictly increasing), all signed by the pillar
//	           elected for that slot: in the slot of s's frontier momentum (the receiver may know that one), in the slot
//	           of a momentum produced honestly just before (delivered with them), or in a later slot that has no momentum
//	           at its start. Now and then exactly as many as it takes to make a side chain longer than the receiver's.
//	distance   one momentum stamped at a slot start, signed by the pillar elected for a slot 1..3 before / after it
//	control    one momentum built the same way, stamped at a slot start by that slot's pillar: valid, must be adopted
//
// with 0..3 honest momentums of s in front that the receiver does not know, 0..3 honest momentums produced on top, known
// prefixes, as extension and as fork of whatever depth the history has. s returns to its honest chain afterwards.
func (w *world) slotDelivery(s *Node) {
	rng, l, out := w.rng, w.l, w.out
	if rng.Intn(3) == 0 {
		grow(s, rng, 1+rng.Intn(3))
		w.remember(s)
	}
	if FrontierOf(l.Ch).Height-forkPoint(l.Ch, s.Ch) > 31 {
		return
	}
	variant := "in-slot"
	switch rng.Intn(9) {
	case 0:
		variant = "control"
	case 1, 2:
		variant = "distance"
	}
	anchor := "later-slot-without-momentum-at-its-start"
	if variant == "in-slot" {
		switch rng.Intn(3) {
		case 0:
			anchor = "slot-of-source-frontier"
		case 1:
			anchor = "slot-of-momentum-delivered-in-front"
			grow(s, rng, 1)
			w.remember(s)
		}
	}
	lf := FrontierOf(l.Ch).Height
	h0 := FrontierOf(s.Ch).Height
	parent := FrontierOf(s.Ch)
	T := slotOf(int64(parent.TimestampUnix))
	if anchor == "later-slot-without-momentum-at-its-start" {
		T += slotSec * int64(1+rng.Intn(3))
	}
	_, who, ok := electedAt(s.Cs, T)
	if !ok || KeyOf(who) == nil {
		out.Count("sync:slot-fault:no-election")
		return
	}
	forged := map[types.Hash]bool{}
	tag := variant
	switch variant {
	case "control":
		sendSome(s, rng)
		forged[forge(s, T, KeyOf(who)).Hash] = true
	case "distance":
		d, kp := pillarAtDistance(s.Cs, rng, T)
		if kp == nil {
			out.Count("sync:slot-fault:no-other-pillar-nearby")
			return
		}
		sendSome(s, rng)
		forged[forge(s, T, kp).Hash] = true
		tag = fmt.Sprintf("slot-start-signed-by-pillar-of-slot%+d", d)
	default:
		k := 1
		if rng.Intn(3) != 0 {
			k = 2 + rng.Intn(8)
		}
		// exactly what it takes to overtake the receiver: the side chain is longer only thanks to what one pillar puts
		// into one slot
		if need := int(lf) - int(h0) + 1; need >= 1 && need <= 8 && (rng.Intn(2) == 0 || (forkPoint(l.Ch, s.Ch) < lf && rng.Intn(3) != 0)) {
			k = need + rng.Intn(2)
			out.Count("sync:slot-fault:longer-only-thanks-to-in-slot-momentums")
		}
		offs := rng.Perm(9)[:k]
		sort.Ints(offs)
		for _, o := range offs {
			if rng.Intn(2) == 0 {
				sendSome(s, rng)
			}
			forged[forge(s, T+1+int64(o), KeyOf(who)).Hash] = true
		}
		tag = fmt.Sprintf("stamped-inside-slot-by-elected-pillar(%s)", anchor)
		out.Count(fmt.Sprintf("sync:slot-fault:in-slot-momentums-of-one-pillar:%d", k))
		out.Count("sync:slot-fault:in-slot-anchor:" + anchor)
	}
	top := 0
	if rng.Intn(2) == 0 {
		top = 1 + rng.Intn(3)
		grow(s, rng, top) // honest pillars go on from the next slots
	}
	out.Count(fmt.Sprintf("sync:slot-fault:honest-momentums-on-top:%d", top))
	fp := forkPoint(l.Ch, s.Ch)
	batch := w.span(s, fp, w.prefixLen(), FrontierOf(s.Ch).Height)
	firstForged, unknownBefore := -1, 0
	for i := range batch {
		m := batch[i].d.Momentum
		if !forged[m.Hash] {
			if firstForged < 0 && m.Height > fp {
				unknownBefore++
			}
			continue
		}
		if firstForged < 0 {
			firstForged = i
		}
		if variant == "control" {
			bts, _ := m.Serialize()
			w.genuine[m.Hash] = bts // valid: elected pillar, slot start, honest hashes
			continue
		}
		batch[i].okM, batch[i].reason = false, tag
	}
	pos := "first-unknown"
	switch {
	case firstForged < 0:
		pos = "not-delivered"
	case unknownBefore > 0 && top > 0:
		pos = "inside"
	case unknownBefore > 0:
		pos = "behind-honest-unknown-ones,last"
	case top == 0:
		pos = "first-unknown,last"
	}
	out.Count("sync:slot-fault:position:" + pos)
	out.Count("sync:slot-fault:variant:" + variant)
	out.Count("sync:corruption:" + tag)
	depth := lf - fp
	kind := fmt.Sprintf("slot-%s-in-fork-depth%02d", variant, depth)
	if depth == 0 {
		kind = "slot-" + variant + "-in-extension"
	}
	if tail := FrontierOf(s.Ch).Height; depth > 0 && tail > lf && tail-uint64(len(forged)) <= lf && variant == "in-slot" {
		out.Count("sync:slot-fault:fork-longer-than-own-chain-only-with-the-in-slot-momentums")
	}
	if variant == "control" {
		w.remember(s) // everything on s is valid, the momentums on top as well
	}
	w.deliver(batch, kind, s.Ch)
	if variant == "control" {
		return
	}
	if err := s.RollbackTo(h0); err != nil {
		panic(err)
	}
}

// adoptedMomentumOracle: the property's clause "every momentum of the adopted chain passes full verification", evaluated
// on momentum h of the node's chain without asking the node's verifier: stamped with the first second of a slot, signed
// by the pillar elected for that slot (electedAt), later than its parent, linked to it, hash = hash of its fields,
// signature of the signer over the hash.
func adoptedMomentumOracle(out *Out, nd *BareNode, h uint64, kind, corruption string) {
	st := nd.Ch.GetFrontierMomentumStore()
	m, _ := st.GetMomentumByHeight(h)
	p, _ := st.GetMomentumByHeight(h - 1)
	if m == nil || p == nil {
		out.Oracle(false, "adopted-momentum-passes-full-verification", M{"kind": kind, "height": U64(h), "missing": true})
		return
	}
	ts := int64(m.TimestampUnix)
	slot, elected, ok := electedAt(nd.Cs, ts)
	signer := types.PubKeyToAddress(m.PublicKey)
	out.Oracle(ok && ts == slot && (ts-genesisSec)%slotSec == 0 && signer == elected,
		"adopted-momentum-stamped-at-slot-start-by-elected-pillar",
		M{"kind": kind, "height": U64(h), "timestamp": I64(ts), "slot_start": I64(slot), "seconds_into_slot": I64(ts - slot),
			"signer": signer.String(), "elected_for_slot": elected.String(), "election_known": ok,
			"parent_timestamp": U64(p.TimestampUnix), "same_slot_as_parent": slotOf(int64(p.TimestampUnix)) == slot,
			"delivered_as": corruption})
	sigOk, _ := wallet.VerifySignature(m.PublicKey, m.Hash.Bytes(), m.Signature)
	later := m.TimestampUnix > p.TimestampUnix
	linked := m.PreviousHash == p.Hash && m.Height == p.Height+1
	hashOk := m.Hash == m.ComputeHash()
	out.Oracle(later && linked && hashOk && sigOk, "adopted-momentum-passes-full-verification",
		M{"kind": kind, "height": U64(h), "timestamp_after_parent": later, "linked_to_parent": linked, "hash_of_fields": hashOk,
			"signature_verifies": sigOk, "delivered_as": corruption})
}
