package main

import . "zharness/hz"

// C16 — sync adopts only verified, strictly longer chains within the rollback window.
func main() {
	Main(map[string]Runner{"sync": runSync})
}
