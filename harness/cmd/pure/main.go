package main

// pure: validation of the Tier-A translator. Runs the original Go functions on boundary and random
// inputs; the driver evaluates coq/gen/Pure.v on the same inputs inside Coq and compares.
import (
	"fmt"
	"math/big"
	"math/rand"
	"time"

	"github.com/zenon-network/go-zenon/chain/nom"
	"github.com/zenon-network/go-zenon/rpc/api"
	"github.com/zenon-network/go-zenon/vm"
	"github.com/zenon-network/go-zenon/vm/constants"
	"github.com/zenon-network/go-zenon/vm/embedded/definition"
	"github.com/zenon-network/go-zenon/vm/embedded/implementation"
	. "zharness/hz"
)

func main() { Main(map[string]Runner{"pure": runPure}) }

func errCode(err error) int64 {
	switch err {
	case nil:
		return 0
	case constants.ErrForbiddenParam:
		return 1
	}
	return -1
}

func want(args []string, name string) bool {
	if len(args) == 0 {
		return true
	}
	for _, a := range args {
		if a == name {
			return true
		}
	}
	return false
}

func bU32(rng *rand.Rand) uint32 {
	switch rng.Intn(6) {
	case 0:
		return uint32(rng.Intn(5))
	case 1:
		return ^uint32(0) - uint32(rng.Intn(3))
	case 2:
		return uint32(1)<<uint(rng.Intn(32)) + uint32(rng.Intn(3)) - 1
	case 3:
		return uint32(rng.Intn(2000))
	}
	return rng.Uint32()
}

func runPure(rng *rand.Rand, n int, out *Out, args []string) {
	for i := 0; i < n; i++ {
		if want(args, "GetRange") {
			a, b, c := bU32(rng), bU32(rng), bU32(rng)
			s, e := api.GetRange(a, b, c)
			out.Case("GetRange", Tup(U64(uint64(a)), U64(uint64(b)), U64(uint64(c))), Tup(U64(uint64(s)), U64(uint64(e))), "boundary-mix")
		}
		if want(args, "DifficultyToPlasma") {
			d := BoundaryU64(rng)
			out.Case("DifficultyToPlasma", U64(d), U64(vm.DifficultyToPlasma(d)), "boundary-mix")
			d = 141750000 + uint64(rng.Intn(7)) - 3
			out.Case("DifficultyToPlasma", U64(d), U64(vm.DifficultyToPlasma(d)), "around-max")
			// plasma earned by proof-of-work is bounded per block whatever difficulty is claimed
			for _, x := range []uint64{d, BoundaryU64(rng), 141750000 + uint64(rng.Int63n(1<<40)), ^uint64(0) - uint64(rng.Intn(1000))} {
				out.Oracle(vm.DifficultyToPlasma(x) <= constants.MaxPoWPlasmaForAccountBlock, "pow-plasma-within-per-block-maximum", M{"difficulty": x, "plasma": vm.DifficultyToPlasma(x)})
			}
		}
		if want(args, "GetDifficultyForPlasma") {
			p := BoundaryU64(rng)
			if rng.Intn(2) == 0 {
				p = uint64(rng.Intn(94505))
			}
			d, err := vm.GetDifficultyForPlasma(p)
			out.Case("GetDifficultyForPlasma", U64(p), Tup(U64(d), I64(errCode(err))), "boundary-mix")
		}
		if want(args, "FussedAmountToPlasma") {
			var a *big.Int
			switch rng.Intn(6) {
			case 0:
				a = big.NewInt(int64(rng.Intn(5)) - 2)
			case 1:
				a = new(big.Int).Add(constants.MaxFussedAmountForAccountBig, big.NewInt(int64(rng.Intn(5))-2))
			case 2:
				a = new(big.Int).Lsh(big.NewInt(1), uint(rng.Intn(130)))
			case 3:
				a = big.NewInt(int64(rng.Intn(6000)) * 100000000)
			case 4:
				a = big.NewInt(rng.Int63n(600000000000))
			default:
				a = big.NewInt(-rng.Int63())
			}
			out.Case("FussedAmountToPlasma", Big(a), U64(vm.FussedAmountToPlasma(a)), "boundary-mix")
		}
		if want(args, "rewards") {
			ep := BoundaryU64(rng)
			switch rng.Intn(3) {
			case 0:
				ep = uint64(rng.Intn(400))
			case 1:
				ep = uint64(i % 450) // every epoch up to past the end of both schedules, in turn
			}
			// the emission functions run inside the receive of every reward contract's Update (no recover on the
			// producing pillar): a panic for some epoch is a failing input of its own
			noPanic(out, "NetworkZnnRewardPerEpoch", ep, func() {
				out.Case("NetworkZnnRewardPerEpoch", U64(ep), I64(constants.NetworkZnnRewardPerEpoch(ep)), "epoch")
			})
			noPanic(out, "NetworkQsrRewardPerEpoch", ep, func() {
				out.Case("NetworkQsrRewardPerEpoch", U64(ep), I64(constants.NetworkQsrRewardPerEpoch(ep)), "epoch")
			})
			noPanic(out, "PillarRewardPerMomentum", ep, func() {
				a, b := constants.PillarRewardPerMomentum(ep)
				out.Case("PillarRewardPerMomentum", U64(ep), Tup(Big(a), Big(b)), "epoch")
			})
			noPanic(out, "SentinelRewardForEpoch", ep, func() {
				a, b := constants.SentinelRewardForEpoch(ep)
				out.Case("SentinelRewardForEpoch", U64(ep), Tup(Big(a), Big(b)), "epoch")
			})
			noPanic(out, "LiquidityRewardForEpoch", ep, func() {
				a, b := constants.LiquidityRewardForEpoch(ep)
				out.Case("LiquidityRewardForEpoch", U64(ep), Tup(Big(a), Big(b)), "epoch")
			})
			noPanic(out, "StakeQsrRewardPerEpoch", ep, func() {
				out.Case("StakeQsrRewardPerEpoch", U64(ep), Big(constants.StakeQsrRewardPerEpoch(ep)), "epoch")
			})
		}
		if want(args, "revoke") {
			reg := rng.Int63n(2000000000)
			now := reg + rng.Int63n(400*86400)
			switch rng.Intn(5) {
			case 0:
				now = reg + (constants.PillarEpochLockTime+constants.PillarEpochRevokeTime)*int64(rng.Intn(4)) + constants.PillarEpochLockTime + int64(rng.Intn(5)) - 2
			case 1:
				now = reg + (constants.SentinelLockTimeWindow+constants.SentinelRevokeTimeWindow)*int64(rng.Intn(4)) + constants.SentinelLockTimeWindow + int64(rng.Intn(5)) - 2
			case 2:
				now = reg - rng.Int63n(100000) // registration in the future of the momentum (Go's % is truncated)
			}
			ts := time.Unix(now, 0)
			m := &nom.Momentum{Timestamp: &ts}
			ok, left := implementation.PillarGetRevokeStatus(&definition.PillarInfo{RegistrationTime: reg}, m)
			out.Case("PillarGetRevokeStatus", Tup(I64(now), I64(reg)), Tup(ok, I64(left)), "window")
			ok, left = implementation.GetSentinelRevokeStatus(reg, m)
			out.Case("GetSentinelRevokeStatus", Tup(I64(reg), I64(now)), Tup(ok, I64(left)), "window")
		}
	}
}

func noPanic(out *Out, fn string, ep uint64, f func()) {
	defer func() {
		r := recover()
		out.Oracle(r == nil, "emission-function-does-not-panic", M{"function": fn, "epoch": ep, "panic": fmt.Sprint(r)})
	}()
	f()
}
