package main

import (
	"fmt"
	"math/big"
	"math/rand"
	"time"
	. "zharness/hz"

	"github.com/zenon-network/go-zenon/chain/nom"
	"github.com/zenon-network/go-zenon/common"
	"github.com/zenon-network/go-zenon/common/types"
	"github.com/zenon-network/go-zenon/consensus/api"
	"github.com/zenon-network/go-zenon/vm/constants"
	"github.com/zenon-network/go-zenon/vm/embedded/definition"
	"github.com/zenon-network/go-zenon/vm/embedded/implementation"
)

func pick64(rng *rand.Rand, xs ...int64) int64 { return xs[rng.Intn(len(xs))] }

// epoch durations from one election-tick multiple up to the default 24 h epoch
func genDur(rng *rand.Rand) int64 {
	return pick64(rng, 600, 900, 1200, 1800, 3600, 7200, 21600, 43200, 86400, 86400)
}

func genEpoch(rng *rand.Rand) uint64 {
	switch rng.Intn(6) {
	case 0:
		return uint64(rng.Intn(5))
	case 1:
		return uint64(30*rng.Intn(14)) + uint64(rng.Intn(3)) - 1 + 1 // around table ticks
	case 2:
		return BoundaryU64(rng)
	default:
		return uint64(rng.Intn(400))
	}
}

func genAmount(rng *rand.Rand) *big.Int {
	switch rng.Intn(6) {
	case 0:
		return big.NewInt(0)
	case 1:
		return big.NewInt(int64(1 + rng.Intn(10)))
	case 2:
		return new(big.Int).Mul(big.NewInt(rng.Int63n(100000)+1), big.NewInt(constants.Decimals))
	case 3:
		return new(big.Int).Lsh(big.NewInt(1), uint(rng.Intn(90)))
	default:
		return big.NewInt(rng.Int63n(1 << 50))
	}
}

func pillarName(i int) string { return fmt.Sprintf("synth-pillar-%02d", i) }

func runFormulas(rng *rand.Rand, n int, out *Out, _ []string) {
	Quiet()
	for i := 0; i < n; i++ {
		formulaWeights(rng, out)
		formulaShares(rng, out)
		formulaPillarOne(rng, out)
		formulaPillarEpoch(rng, out)
		formulaStakeEpoch(rng, out)
		formulaSentinelEpoch(rng, out)
		formulaCursor(rng, out)
		formulaCollect(rng, out)
		formulaLiqStake(rng, out)
		if i%4 == 0 {
			formulaRops(rng, out)
		}
		runBatches(rng, out, i%2 == 0)
	}
}

// ---- go2coq-translated weight functions against the originals
func genTime(rng *rand.Rand, base int64) int64 {
	switch rng.Intn(7) {
	case 0:
		return 0
	case 1:
		return base
	case 2:
		return base + int64(rng.Intn(5)) - 2
	case 3:
		return base + rng.Int63n(200000) - 100000
	case 4:
		return base + 3600
	default:
		return base + rng.Int63n(7200) - 1800
	}
}

// the property's statement on the emission functions themselves: the per-contract amounts of an epoch
// (pillars: per-momentum amounts times MomentumsPerEpoch) add up to at most the epoch's emission
func formulaShares(rng *rand.Rand, out *Out) {
	e := genEpoch(rng)
	d, b := constants.PillarRewardPerMomentum(e)
	sz, sq := constants.SentinelRewardForEpoch(e)
	lz, lq := constants.LiquidityRewardForEpoch(e)
	st := constants.StakeQsrRewardPerEpoch(e)
	znn := new(big.Int).Add(d, b)
	znn.Mul(znn, big.NewInt(constants.MomentumsPerEpoch))
	znn.Add(znn, sz).Add(znn, lz)
	qsr := new(big.Int).Add(st, sq)
	qsr.Add(qsr, lq)
	nonneg := d.Sign() >= 0 && b.Sign() >= 0 && sz.Sign() >= 0 && sq.Sign() >= 0 && lz.Sign() >= 0 && lq.Sign() >= 0 && st.Sign() >= 0
	out.Oracle(nonneg && znn.Cmp(big.NewInt(constants.NetworkZnnRewardPerEpoch(e))) <= 0 && qsr.Cmp(big.NewInt(constants.NetworkQsrRewardPerEpoch(e))) <= 0,
		"epoch-shares-within-epoch-emission", M{"epoch": U64(e), "znn_shares": Big(znn), "qsr_shares": Big(qsr),
			"znn_emission": I64(constants.NetworkZnnRewardPerEpoch(e)), "qsr_emission": I64(constants.NetworkQsrRewardPerEpoch(e))})
}

func formulaWeights(rng *rand.Rand, out *Out) {
	s := int64(1000000000) + int64(rng.Intn(1000))*3600
	e := s + pick64(rng, genDur(rng), genDur(rng), 1)
	st, rv := genTime(rng, s), genTime(rng, s)
	wa := genAmount(rng)
	w := implementation.VerifGetWeightedStake(&definition.StakeInfo{StartTime: st, RevokeTime: rv, WeightedAmount: wa}, s, e)
	tag := "zero"
	if w.Sign() != 0 {
		tag = "positive"
	}
	out.Case("w_stake", Tup(I64(s), I64(e), I64(st), I64(rv), Big(wa)), Big(w), tag)
	w = implementation.VerifGetWeightedLiquidityStake(&definition.LiquidityStakeEntry{StartTime: st, RevokeTime: rv, WeightedAmount: wa}, s, e)
	out.Case("w_liqstake", Tup(I64(s), I64(e), I64(st), I64(rv), Big(wa)), Big(w), tag)
	w = implementation.VerifGetWeightedSentinel(&definition.SentinelInfo{RegistrationTimestamp: st, RevokeTimestamp: rv}, s, e)
	tag = "zero"
	if w.Sign() != 0 {
		tag = "one"
	}
	out.Case("w_sentinel", Tup(I64(s), I64(e), I64(st), I64(rv)), Big(w), tag)
	// sentinel uptime threshold: exactly 90% +- 1s
	dur := e - s
	st = s + dur/10 + int64(rng.Intn(3)) - 1
	w = implementation.VerifGetWeightedSentinel(&definition.SentinelInfo{RegistrationTimestamp: st, RevokeTimestamp: 0}, s, e)
	out.Case("w_sentinel", Tup(I64(s), I64(e), I64(st), I64(0)), Big(w), "threshold")

	amt := genAmount(rng)
	stakingTime := constants.StakeTimeUnitSec*int64(rng.Intn(13)) + pick64(rng, 0, 0, 1, -1, 100)
	if stakingTime < 0 {
		stakingTime = 0
	}
	out.Case("w_stake_amount", Tup(Big(amt), I64(stakingTime)), Big(implementation.VerifGetWeightedStakeAmount(amt, stakingTime)), "amount")
	if stakingTime/constants.StakeTimeUnitSec < int64(len(constants.LiquidityStakeWeights)) {
		out.Case("w_liq_amount", Tup(Big(amt), I64(stakingTime)), Big(implementation.VerifGetWeightedLiquidityStakeAmount(amt, stakingTime)), "amount")
	}
}

// ---- epoch statistics generator
type synthStats struct {
	epoch uint64
	tw    *big.Int
	names []int
	prod  []uint64
	exp   []uint64
	wgt   []*big.Int
	wf    bool
}

func genStats(rng *rand.Rand) *synthStats {
	st := &synthStats{epoch: genEpoch(rng), wf: true}
	n := rng.Intn(7)
	sum := big.NewInt(0)
	for i := 0; i < n; i++ {
		e := uint64(0)
		switch rng.Intn(5) {
		case 0:
			e = 0
		case 1:
			e = uint64(1 + rng.Intn(3))
		default:
			e = uint64(1 + rng.Intn(300))
		}
		p := uint64(0)
		if e > 0 {
			switch rng.Intn(6) {
			case 0:
				p = 0
			case 1:
				p = e
			case 2:
				p = e + uint64(1+rng.Intn(3)) // not well-formed: more produced than expected
				st.wf = false
			default:
				p = uint64(rng.Int63n(int64(e) + 1))
			}
		}
		w := genAmount(rng)
		st.names = append(st.names, i)
		st.prod = append(st.prod, p)
		st.exp = append(st.exp, e)
		st.wgt = append(st.wgt, w)
		sum.Add(sum, w)
	}
	switch rng.Intn(8) {
	case 0:
		st.tw = big.NewInt(0)
		if sum.Sign() != 0 {
			st.wf = false
		}
	case 1:
		st.tw = new(big.Int).Add(sum, genAmount(rng))
	case 2:
		st.tw = new(big.Int).Quo(sum, big.NewInt(2)) // weights exceed the total: not well-formed
		if sum.Cmp(st.tw) > 0 {
			st.wf = false
		}
	default:
		st.tw = sum
	}
	return st
}

func (st *synthStats) api() *api.EpochStats {
	r := &api.EpochStats{Epoch: st.epoch, TotalWeight: new(big.Int).Set(st.tw), Pillars: map[string]*api.EpochPillarStats{}}
	for i, nm := range st.names {
		r.Pillars[pillarName(nm)] = &api.EpochPillarStats{Epoch: st.epoch, BlockNum: st.prod[i], ExceptedBlockNum: st.exp[i],
			Weight: new(big.Int).Set(st.wgt[i]), Name: pillarName(nm)}
	}
	return r
}
func (st *synthStats) term() (interface{}, interface{}, interface{}) {
	ps := Lst()
	for i, nm := range st.names {
		ps = append(ps, Tup(I64(int64(nm)), U64(st.prod[i]), U64(st.exp[i]), Big(st.wgt[i])))
	}
	return U64(st.epoch), Big(st.tw), ps
}
func (st *synthStats) totalExpected() uint64 {
	var t uint64
	for _, e := range st.exp {
		t += e
	}
	return t
}

func formulaPillarOne(rng *rand.Rand, out *Out) {
	st := genStats(rng)
	if len(st.names) == 0 {
		return
	}
	k := rng.Intn(len(st.names))
	ep, tw, ps := st.term()
	var d, b, t *big.Int
	s := status(func() error {
		d, b, t = implementation.VerifPillarEpochReward(st.api(), pillarName(st.names[k]))
		return nil
	})
	tag := "reward"
	switch {
	case s != 0:
		d, b, t = big.NewInt(-1), big.NewInt(-1), big.NewInt(-1)
		tag = "panic"
		// the routine runs on the producing pillar inside a contract receive: a panic there takes the pillar down
		// and the epoch is never rewarded (no panic occurs on the unchanged tree for any generated input)
		out.Oracle(false, "reward-routine-panics", M{"routine": "pillar-epoch-reward"})
	case st.exp[k] == 0:
		tag = "expected-zero"
	case st.tw.Sign() == 0:
		tag = "total-weight-zero"
	case !st.wf:
		tag = "reward-not-wf"
	}
	out.Case("pillar_one", Tup(ep, tw, ps, I64(int64(st.names[k]))), Tup(Big(d), Big(b), Big(t)), tag)
}

func credTerm(cs []credit, znn bool) []interface{} {
	l := Lst()
	for _, c := range cs {
		if znn {
			l = append(l, Tup(I64(int64(c.addr)), Big(c.znn)))
		} else {
			l = append(l, Tup(I64(int64(c.addr)), Big(c.qsr)))
		}
	}
	return l
}

func synthIdx(a types.Address) int { return int(a[19]) | int(a[18])<<8 }

func formulaPillarEpoch(rng *rand.Rand, out *Out) {
	st := genStats(rng)
	wf := st.wf
	rd := &fakeReader{stats: map[uint64]*api.EpochStats{st.epoch: st.api()}, deleg: map[uint64]map[string]*types.PillarDelegationDetail{}}
	ctx := synthContext(types.PillarContract, 2000000000, 1000, rd)
	// pillar infos: usually one per statistics entry, some extra (registered later), rarely one missing
	infos := Lst()
	errPath := ""
	present := map[int]bool{}
	for _, nm := range st.names {
		if rng.Intn(25) == 0 {
			errPath = "info-missing"
			continue
		}
		present[nm] = true
	}
	extra := rng.Intn(3)
	for i := 0; i < extra; i++ {
		present[100+i] = true
	}
	for nm := range present {
		gb, gd := uint8(rng.Intn(101)), uint8(rng.Intn(101))
		switch rng.Intn(6) {
		case 0:
			gb, gd = 0, 100
		case 1:
			gb, gd = 100, 100
		case 2:
			gb, gd = 0, 0
		}
		addr := 10 + nm
		if rng.Intn(6) == 0 {
			addr = 10 + rng.Intn(4) // shared reward address
		}
		pi := &definition.PillarInfo{Name: pillarName(nm), BlockProducingAddress: synthAddr(500 + nm), StakeAddress: synthAddr(600 + nm),
			RewardWithdrawAddress: synthAddr(addr), Amount: big.NewInt(0), GiveBlockRewardPercentage: gb, GiveDelegateRewardPercentage: gd,
			PillarType: definition.NormalPillarType}
		if err := pi.Save(ctx.Storage()); err != nil {
			panic(err)
		}
		infos = append(infos, Tup(I64(int64(nm)), I64(int64(gb)), I64(int64(gd)), I64(int64(addr))))
	}
	// delegation details
	details := map[string]*types.PillarDelegationDetail{}
	dterm := Lst()
	for nm := range present {
		if rng.Intn(4) == 0 {
			continue
		}
		if nm >= 100 && rng.Intn(3) != 0 {
			continue // a detail for a pillar without statistics is the "can't find amount to backers" error
		}
		if nm >= 100 {
			errPath = "detail-without-reward"
		}
		d := &types.PillarDelegationDetail{Backers: map[types.Address]*big.Int{}}
		d.Name = pillarName(nm)
		d.Weight = big.NewInt(0)
		bt := Lst()
		nb := rng.Intn(5)
		for j := 0; j < nb; j++ {
			a := 200 + rng.Intn(12)
			if _, ok := d.Backers[synthAddr(a)]; ok {
				continue
			}
			amt := genAmount(rng)
			if rng.Intn(5) == 0 {
				amt = big.NewInt(0)
			}
			d.Backers[synthAddr(a)] = amt
			bt = append(bt, Tup(I64(int64(a)), Big(amt)))
		}
		details[d.Name] = d
		dterm = append(dterm, Tup(I64(int64(nm)), bt))
	}
	if rng.Intn(40) == 0 { // a detail for a name that is not registered at all
		d := &types.PillarDelegationDetail{Backers: map[types.Address]*big.Int{synthAddr(201): big.NewInt(5)}}
		d.Name = pillarName(77)
		d.Weight = big.NewInt(0)
		details[d.Name] = d
		dterm = append(dterm, Tup(I64(77), Lst(Tup(I64(201), I64(5)))))
		errPath = "detail-unknown-pillar"
	}
	rd.deleg[st.epoch] = details

	s := status(func() error { return implementation.VerifComputeDetailedPillarReward(ctx, st.epoch) })
	var cs []credit
	if s == 0 {
		cs = readHistory(ctx.Storage(), synthIdx)[st.epoch]
	}
	ep, tw, ps := st.term()
	tag := "done"
	switch {
	case s == 1:
		tag = "error:" + errPath
	case s == 2:
		tag = "panic"
		// the routine runs on the producing pillar inside a contract receive: a panic there takes the pillar down
		// and the epoch is never rewarded (no panic occurs on the unchanged tree for any generated input)
		out.Oracle(false, "reward-routine-panics", M{"routine": "stake-or-sentinel-epoch-rewards"})
	case len(st.names) == 0:
		tag = "done-empty"
	case !wf:
		tag = "done-not-wf"
	}
	out.Case("pillar_epoch", Tup(ep, tw, ps, infos, dterm), Tup(I64(s), credTerm(cs, true)), tag)

	// the property's own statement: what is credited for the epoch stays within the delegation + producing
	// reward per momentum times the number of momentum slots of the epoch
	if s == 0 && wf {
		d, b := constants.PillarRewardPerMomentum(st.epoch)
		bound := new(big.Int).Add(d, b)
		bound.Mul(bound, new(big.Int).SetUint64(st.totalExpected()))
		z, q := sumCredits(cs)
		out.Oracle(z.Cmp(bound) <= 0 && q.Sign() == 0, "pillar-credits-within-emission",
			M{"epoch": U64(st.epoch), "credited": Big(z), "bound": Big(bound)})
	}
}

func formulaStakeEpoch(rng *rand.Rand, out *Out) {
	epoch := genEpoch(rng) % 100000
	g := int64(1000000000)
	dur := genDur(rng)
	rd := &fakeReader{ticker: common.NewTicker(time.Unix(g, 0), time.Duration(dur)*time.Second)}
	ctx := synthContext(types.StakeContract, 2000000000, 1000, rd)
	s0, e0 := g+dur*int64(epoch), g+dur*int64(epoch+1)
	n := rng.Intn(7)
	lt := Lst()
	for i := 0; i < n; i++ {
		st, rv := genTime(rng, s0), int64(0)
		if rng.Intn(2) == 0 {
			rv = genTime(rng, s0+dur/2)
		}
		wa := genAmount(rng)
		addr := 300 + rng.Intn(5)
		var id types.Hash
		id[0], id[1] = byte(i), 0x11
		info := &definition.StakeInfo{Amount: wa, WeightedAmount: wa, StartTime: st, RevokeTime: rv, ExpirationTime: st + 1000, StakeAddress: synthAddr(addr), Id: id}
		if err := info.Save(ctx.Storage()); err != nil {
			panic(err)
		}
		lt = append(lt, Tup(I64(st), I64(rv), Big(wa), I64(int64(addr))))
	}
	s := status(func() error { return implementation.VerifComputeStakeRewardsForEpoch(ctx, epoch) })
	var cs []credit
	left := 0
	if s == 0 {
		cs = readHistory(ctx.Storage(), synthIdx)[epoch]
		definition.IterateStakeEntries(ctx.Storage(), func(*definition.StakeInfo) error { left++; return nil })
	}
	tag := "done"
	if s != 0 {
		tag = "failed"
	} else if len(cs) == 0 {
		tag = "done-no-weight"
	} else if left < n {
		tag = "done-entries-deleted"
	}
	out.Case("stake_epoch", Tup(U64(epoch), I64(s0), I64(e0), lt), Tup(I64(s), credTerm(cs, false), I64(int64(left))), tag)
	if s == 0 {
		z, q := sumCredits(cs)
		out.Oracle(q.Cmp(constants.StakeQsrRewardPerEpoch(epoch)) <= 0 && z.Sign() == 0, "stake-credits-within-emission",
			M{"epoch": U64(epoch), "credited": Big(q), "bound": Big(constants.StakeQsrRewardPerEpoch(epoch))})
	}
}

func formulaSentinelEpoch(rng *rand.Rand, out *Out) {
	epoch := genEpoch(rng) % 100000
	g := int64(1000000000)
	dur := genDur(rng)
	rd := &fakeReader{ticker: common.NewTicker(time.Unix(g, 0), time.Duration(dur)*time.Second)}
	ctx := synthContext(types.SentinelContract, 2000000000, 1000, rd)
	s0, e0 := g+dur*int64(epoch), g+dur*int64(epoch+1)
	n := rng.Intn(7)
	lt := Lst()
	for i := 0; i < n; i++ {
		rg, rv := genTime(rng, s0), int64(0)
		if rng.Intn(3) == 0 {
			rg = s0 + dur/10 + int64(rng.Intn(3)) - 1
		}
		if rng.Intn(3) == 0 {
			rv = genTime(rng, e0)
		}
		addr := 400 + i
		info := &definition.SentinelInfo{SentinelInfoKey: definition.SentinelInfoKey{Owner: synthAddr(addr)}, RegistrationTimestamp: rg, RevokeTimestamp: rv,
			ZnnAmount: big.NewInt(1), QsrAmount: big.NewInt(1)}
		info.Save(ctx.Storage())
		lt = append(lt, Tup(I64(rg), I64(rv), I64(int64(addr))))
	}
	s := status(func() error { return implementation.VerifComputeSentinelRewardsForEpoch(ctx, epoch) })
	var cs []credit
	if s == 0 {
		cs = readHistory(ctx.Storage(), synthIdx)[epoch]
	}
	tag := "done"
	if s != 0 {
		tag = "failed"
	} else if len(cs) == 0 {
		tag = "done-no-active"
	} else if len(cs) < n {
		tag = "done-some-inactive"
	}
	out.Case("sentinel_epoch", Tup(U64(epoch), I64(s0), I64(e0), lt), Tup(I64(s), credTerm(cs, true), credTerm(cs, false)), tag)
	if s == 0 {
		z, q := sumCredits(cs)
		bz, bq := constants.SentinelRewardForEpoch(epoch)
		out.Oracle(z.Cmp(bz) <= 0 && q.Cmp(bq) <= 0, "sentinel-credits-within-emission",
			M{"epoch": U64(epoch), "znn": Big(z), "qsr": Big(q), "bound_znn": Big(bz), "bound_qsr": Big(bq)})
	}
}

// ---- epoch cursor through the real update loops
func formulaCursor(rng *rand.Rand, out *Out) {
	g := int64(1000000000)
	dur := genDur(rng)
	last := int64(-1)
	if rng.Intn(3) != 0 {
		last = int64(rng.Intn(50))
	}
	// now around the due time of epoch last+1+k
	k := int64(rng.Intn(4))
	switch rng.Intn(8) {
	case 0:
		k = int64(8 + rng.Intn(8)) // many epochs behind (around MaxEpochsPerUpdate/2)
	case 1:
		k = int64(15 + rng.Intn(30))
	}
	now := g + dur*(last+1+k) + constants.RewardTimeLimit + pick64(rng, -1, 0, 1, -dur/2, dur/2, -dur, 7)
	variant := int64(rng.Intn(2))
	rd := &fakeReader{ticker: common.NewTicker(time.Unix(g, 0), time.Duration(dur)*time.Second)}
	contract := types.StakeContract
	if variant == 1 {
		contract = types.LiquidityContract
	}
	ctx := synthContext(contract, now, 100000, rd)
	if last != -1 {
		if err := (&definition.LastEpochUpdate{LastEpoch: last}).Save(ctx.Storage()); err != nil {
			panic(err)
		}
	}
	var rewarded []interface{}
	rewarded = Lst()
	tag := "none-due"
	if variant == 0 {
		// one stake entry that is active in every epoch: an epoch is rewarded iff it gets a history entry
		info := &definition.StakeInfo{Amount: big.NewInt(1), WeightedAmount: big.NewInt(1), StartTime: 0, RevokeTime: 0, ExpirationTime: 1, StakeAddress: synthAddr(300)}
		if err := info.Save(ctx.Storage()); err != nil {
			panic(err)
		}
		if s := status(func() error { return implementation.VerifUpdateStakeRewards(ctx) }); s != 0 {
			out.Oracle(false, "cursor-update-failed", M{"status": I64(s)})
			return
		}
		h := readHistory(ctx.Storage(), synthIdx)
		eps := make([]uint64, 0, len(h))
		for e := range h {
			eps = append(eps, e)
		}
		sortU64(eps)
		for _, e := range eps {
			rewarded = append(rewarded, U64(e))
		}
	} else {
		var nb int
		if s := status(func() error { var err error; nb, err = implementation.VerifUpdateLiquidityRewards(ctx); return err }); s != 0 {
			out.Oracle(false, "cursor-update-failed", M{"status": I64(s)})
			return
		}
		for i := 0; i < nb/2; i++ {
			rewarded = append(rewarded, I64(last+1+int64(i)))
		}
	}
	newLast := lastEpochOf(ctx.Storage())
	switch {
	case len(rewarded) == 1:
		tag = "one-epoch"
	case len(rewarded) > 10:
		tag = "more-than-ten-epochs"
	case len(rewarded) > 1:
		tag = "several-epochs"
	}
	if variant == 1 {
		tag = "liquidity-" + tag
	}
	out.Case("cursor", Tup(I64(variant), I64(g), I64(dur), I64(now), I64(last)), Tup(rewarded, I64(newLast)), tag)

	// property oracles on the real loop: every epoch the cursor passed was rewarded, in order, and had ended
	// RewardTimeLimit before `now`; the next one is not yet due (or the per-call limit was reached)
	okOrder := true
	for i, e := range rewarded {
		if fmt.Sprint(e) != fmt.Sprint(last+1+int64(i)) {
			okOrder = false
		}
	}
	key := "cursor-rewards-every-epoch-it-passes"
	if variant == 1 {
		key = "liquidity-cursor-rewards-every-epoch-it-passes"
	}
	out.Oracle(okOrder && newLast == last+int64(len(rewarded)), key,
		M{"variant": I64(variant), "last": I64(last), "new_last": I64(newLast), "rewarded": rewarded, "now": I64(now), "genesis": I64(g), "epoch_duration": I64(dur)})
	if variant == 0 {
		out.Oracle(now < g+dur*(newLast+2)+constants.RewardTimeLimit, "cursor-rewards-all-due-epochs",
			M{"new_last": I64(newLast), "now": I64(now), "genesis": I64(g), "epoch_duration": I64(dur)})
	}
	if len(rewarded) > 0 {
		lastRewarded := last + int64(len(rewarded))
		out.Oracle(g+dur*(lastRewarded+1)+constants.RewardTimeLimit <= now, "cursor-only-after-grace-period",
			M{"last_rewarded": I64(lastRewarded), "now": I64(now)})
	}
}

func sortU64(a []uint64) {
	for i := 1; i < len(a); i++ {
		for j := i; j > 0 && a[j-1] > a[j]; j-- {
			a[j-1], a[j] = a[j], a[j-1]
		}
	}
}

// ---- CollectReward on a given deposit
func mintsOf(blocks []*nom.AccountBlock, want types.Address) ([]interface{}, bool) {
	res := Lst()
	ok := true
	for _, b := range blocks {
		p := new(definition.MintParam)
		if err := definition.ABIToken.UnpackMethod(p, definition.MintMethodName, b.Data); err != nil {
			panic(err)
		}
		tok := int64(-1)
		switch p.TokenStandard {
		case types.ZnnTokenStandard:
			tok = 0
		case types.QsrTokenStandard:
			tok = 1
		}
		if p.ReceiveAddress != want || b.ToAddress != types.TokenContract || b.Amount.Sign() != 0 {
			ok = false
		}
		res = append(res, Tup(I64(tok), Big(p.Amount)))
	}
	return res, ok
}

func formulaCollect(rng *rand.Rand, out *Out) {
	contract := []types.Address{types.PillarContract, types.StakeContract, types.SentinelContract, types.LiquidityContract}[rng.Intn(4)]
	ctx := synthContext(contract, 2000000000, 1000, &fakeReader{})
	z, q := genAmount(rng), genAmount(rng)
	if rng.Intn(3) == 0 {
		z = big.NewInt(0)
	}
	if rng.Intn(3) == 0 {
		q = big.NewInt(0)
	}
	who := synthAddr(42)
	if z.Sign() != 0 || q.Sign() != 0 || rng.Intn(2) == 0 {
		if err := (&definition.RewardDeposit{Address: &who, Znn: z, Qsr: q}).Save(ctx.Storage()); err != nil {
			panic(err)
		}
	}
	m := &implementation.CollectRewardMethod{MethodName: definition.CollectRewardMethodName}
	send := &nom.AccountBlock{Address: who, ToAddress: contract, Amount: big.NewInt(0), TokenStandard: types.ZnnTokenStandard,
		Data: definition.ABICommon.PackMethodPanic(definition.CollectRewardMethodName)}
	blocks, err := m.ReceiveBlock(ctx, send)
	st := int64(0)
	if err == constants.ErrNothingToWithdraw {
		st = 1
	} else if err != nil {
		out.Oracle(false, "collect-unexpected-error", M{"err": err.Error()})
		return
	}
	mints, okShape := mintsOf(blocks, who)
	after, _ := definition.GetRewardDeposit(ctx.Storage(), &who)
	tag := []string{"minted", "nothing-to-withdraw"}[st]
	if st == 0 && len(blocks) == 2 {
		tag = "minted-both"
	}
	out.Case("collect", Tup(Big(z), Big(q)), Tup(I64(st), mints, Tup(Big(after.Znn), Big(after.Qsr))), tag)
	// second collect right away must fail and mint nothing
	blocks2, err2 := m.ReceiveBlock(ctx, send)
	out.Oracle(okShape && (st == 1 || (err2 == constants.ErrNothingToWithdraw && len(blocks2) == 0)), "collect-second-time-mints-nothing",
		M{"znn": Big(z), "qsr": Big(q)})
	mz, mq := big.NewInt(0), big.NewInt(0)
	for _, b := range blocks {
		p := new(definition.MintParam)
		definition.ABIToken.UnpackMethod(p, definition.MintMethodName, b.Data)
		if p.TokenStandard == types.ZnnTokenStandard {
			mz.Add(mz, p.Amount)
		} else {
			mq.Add(mq, p.Amount)
		}
	}
	out.Oracle(mz.Cmp(z) == 0 && mq.Cmp(q) == 0 && after.Znn.Sign() == 0 && after.Qsr.Sign() == 0 || st == 1, "collect-mints-exactly-the-deposit",
		M{"znn": Big(z), "qsr": Big(q), "minted_znn": Big(mz), "minted_qsr": Big(mq)})
}

// ---- histories of addReward / CollectReward on one contract storage
func formulaRops(rng *rand.Rand, out *Out) {
	ctx := synthContext(types.StakeContract, 2000000000, 1000, &fakeReader{})
	na := 1 + rng.Intn(4)
	nops := rng.Intn(14)
	ops := Lst()
	mintedZ := make([]*big.Int, na)
	mintedQ := make([]*big.Int, na)
	for i := range mintedZ {
		mintedZ[i], mintedQ[i] = big.NewInt(0), big.NewInt(0)
	}
	m := &implementation.CollectRewardMethod{MethodName: definition.CollectRewardMethodName}
	for i := 0; i < nops; i++ {
		a := rng.Intn(na)
		addr := synthAddr(a)
		if rng.Intn(3) != 0 {
			z, q := genAmount(rng), genAmount(rng)
			if rng.Intn(2) == 0 {
				z = big.NewInt(0)
			}
			if rng.Intn(2) == 0 {
				q = big.NewInt(0)
			}
			implementation.VerifAddReward(ctx, uint64(rng.Intn(5)), definition.RewardDeposit{Address: &addr, Znn: z, Qsr: q})
			ops = append(ops, Tup(I64(0), I64(int64(a)), Big(z), Big(q)))
		} else {
			send := &nom.AccountBlock{Address: addr, ToAddress: types.StakeContract, Amount: big.NewInt(0), TokenStandard: types.ZnnTokenStandard,
				Data: definition.ABICommon.PackMethodPanic(definition.CollectRewardMethodName)}
			blocks, _ := m.ReceiveBlock(ctx, send)
			for _, b := range blocks {
				p := new(definition.MintParam)
				definition.ABIToken.UnpackMethod(p, definition.MintMethodName, b.Data)
				if p.TokenStandard == types.ZnnTokenStandard {
					mintedZ[a].Add(mintedZ[a], p.Amount)
				} else {
					mintedQ[a].Add(mintedQ[a], p.Amount)
				}
			}
			ops = append(ops, Tup(I64(1), I64(int64(a)), I64(0), I64(0)))
		}
	}
	deps, mints := Lst(), Lst()
	for a := 0; a < na; a++ {
		addr := synthAddr(a)
		d, _ := definition.GetRewardDeposit(ctx.Storage(), &addr)
		deps = append(deps, Tup(Big(d.Znn), Big(d.Qsr)))
		mints = append(mints, Tup(Big(mintedZ[a]), Big(mintedQ[a])))
	}
	out.Case("rops", Tup(I64(int64(na)), ops), Tup(deps, mints), "history")
}

// ---- computeLiquidityStakeRewardsForEpoch (method table after the bridge-and-liquidity spork)
func synthZts(i int) types.ZenonTokenStandard {
	var z types.ZenonTokenStandard
	z[0], z[9] = 0x7c, byte(i)
	return z
}

func formulaLiqStake(rng *rand.Rand, out *Out) {
	epoch := genEpoch(rng) % 100000
	g := int64(1000000000)
	dur := genDur(rng)
	rd := &fakeReader{ticker: common.NewTicker(time.Unix(g, 0), time.Duration(dur)*time.Second)}
	ctx := synthContext(types.LiquidityContract, 2000000000, 1000, rd)
	s0, e0 := g+dur*int64(epoch), g+dur*int64(epoch+1)
	halted := rng.Intn(8) == 0
	extraZ, extraQ := big.NewInt(0), big.NewInt(0)
	if rng.Intn(2) == 0 {
		extraZ = genAmount(rng)
	}
	if rng.Intn(2) == 0 {
		extraQ = genAmount(rng)
	}
	balZ, balQ := genAmount(rng), genAmount(rng)
	switch rng.Intn(4) {
	case 0:
		balZ, balQ = new(big.Int).Set(extraZ), new(big.Int).Set(extraQ)
	case 1:
		balZ = new(big.Int).Add(extraZ, big.NewInt(int64(rng.Intn(3))-1))
		balQ = new(big.Int).Add(extraQ, genAmount(rng))
		if balZ.Sign() < 0 {
			balZ = big.NewInt(0)
		}
	case 2:
		balZ, balQ = new(big.Int).Lsh(big.NewInt(1), 100), new(big.Int).Lsh(big.NewInt(1), 100)
	}
	if err := ctx.SetBalance(types.ZnnTokenStandard, balZ); err != nil {
		panic(err)
	}
	if err := ctx.SetBalance(types.QsrTokenStandard, balQ); err != nil {
		panic(err)
	}
	info := &definition.LiquidityInfo{Administrator: synthAddr(1), IsHalted: halted, ZnnReward: extraZ, QsrReward: extraQ}
	tt := Lst()
	nt := rng.Intn(4)
	sumZ, sumQ := uint32(0), uint32(0)
	for i := 0; i < nt; i++ {
		tok := rng.Intn(4)
		zp, qp := uint32(rng.Intn(6000)), uint32(rng.Intn(6000))
		switch rng.Intn(5) {
		case 0:
			zp, qp = 10000-sumZ, 10000-sumQ
		case 1:
			zp, qp = 0, 10000
		case 2: // percentages that add up to more than the whole (SetTokenTuple rejects that; the routine must then refuse)
			zp, qp = 9000, 9000
		}
		if zp > 10000 {
			zp = 10000
		}
		if qp > 10000 {
			qp = 10000
		}
		sumZ, sumQ = sumZ+zp, sumQ+qp
		info.TokenTuples = append(info.TokenTuples, definition.TokenTuple{TokenStandard: synthZts(tok).String(), ZnnPercentage: zp, QsrPercentage: qp, MinAmount: big.NewInt(1)})
		tt = append(tt, Tup(I64(int64(tok)), I64(int64(zp)), I64(int64(qp))))
	}
	v, err := definition.EncodeLiquidityInfo(info)
	if err != nil {
		panic(err)
	}
	if err := v.Save(ctx.Storage()); err != nil {
		panic(err)
	}
	n := rng.Intn(8)
	lt := Lst()
	for i := 0; i < n; i++ {
		st, rv := genTime(rng, s0), int64(0)
		if rng.Intn(2) == 0 {
			rv = genTime(rng, s0+dur/2)
		}
		if rng.Intn(2) == 0 {
			st = s0 - int64(rng.Intn(5000))
		}
		wa := genAmount(rng)
		if wa.Sign() == 0 && rng.Intn(3) != 0 {
			wa = big.NewInt(int64(1 + rng.Intn(1000)))
		}
		tok := rng.Intn(5)
		if len(info.TokenTuples) > 0 && rng.Intn(5) != 0 {
			for k, z := 0, info.TokenTuples[rng.Intn(len(info.TokenTuples))].TokenStandard; k < 5; k++ {
				if synthZts(k).String() == z {
					tok = k
				}
			}
		}
		addr := 300 + rng.Intn(5)
		var id types.Hash
		id[0], id[1] = byte(i), 0x22
		en := &definition.LiquidityStakeEntry{Amount: wa, TokenStandard: synthZts(tok), WeightedAmount: wa, StartTime: st, RevokeTime: rv, ExpirationTime: st + 1000,
			StakeAddress: synthAddr(addr), Id: id}
		if err := en.Save(ctx.Storage()); err != nil {
			panic(err)
		}
		lt = append(lt, Tup(I64(int64(tok)), I64(st), I64(rv), Big(wa), I64(int64(addr))))
	}
	var blocks []*nom.AccountBlock
	var rerr error
	s := status(func() error {
		blocks, rerr = implementation.VerifComputeLiquidityStakeRewardsForEpoch(ctx, epoch)
		return rerr
	})
	if s == 1 && rerr != constants.ErrInvalidRewards {
		out.Oracle(false, "liquidity-stake-unexpected-error", M{"err": rerr.Error()})
		return
	}
	var cs []credit
	left := 0
	burn := [2]*big.Int{big.NewInt(0), big.NewInt(0)}
	mint := [2]*big.Int{big.NewInt(0), big.NewInt(0)}
	okShape := true
	if s == 0 {
		cs = readHistory(ctx.Storage(), synthIdx)[epoch]
		left = len(definition.GetAllLiquidityStakeEntries(ctx.Storage()))
		for _, b := range blocks {
			k := 0
			if b.ToAddress != types.TokenContract {
				okShape = false
			}
			if b.Amount.Sign() > 0 { // burn of the additional reward
				if b.TokenStandard == types.QsrTokenStandard {
					k = 1
				} else if b.TokenStandard != types.ZnnTokenStandard {
					okShape = false
				}
				if string(b.Data) != string(definition.ABIToken.PackMethodPanic(definition.BurnMethodName)) {
					okShape = false
				}
				burn[k].Add(burn[k], b.Amount)
				continue
			}
			p := new(definition.MintParam)
			if err := definition.ABIToken.UnpackMethod(p, definition.MintMethodName, b.Data); err != nil || p.ReceiveAddress != types.LiquidityContract {
				okShape = false
				continue
			}
			if p.TokenStandard == types.QsrTokenStandard {
				k = 1
			}
			mint[k].Add(mint[k], p.Amount)
		}
	}
	tag := "done"
	switch {
	case s == 1:
		tag = "invalid-rewards"
	case s == 2:
		tag = "panic"
		// the routine runs on the producing pillar inside a contract receive: a panic there takes the pillar down
		// and the epoch is never rewarded (no panic occurs on the unchanged tree for any generated input)
		out.Oracle(false, "reward-routine-panics", M{"routine": "liquidity-stake-epoch-rewards"})
	case halted:
		tag = "halted"
	case len(cs) == 0:
		tag = "done-no-credits"
	case burn[0].Sign() > 0 || burn[1].Sign() > 0:
		tag = "done-additional-reward"
	case left < n:
		tag = "done-entries-deleted"
	}
	out.Case("liq_stake_epoch", Tup(U64(epoch), I64(s0), I64(e0), halted, Tup(Big(balZ), Big(balQ), Big(extraZ), Big(extraQ)), tt, lt),
		Tup(I64(s), credTerm(cs, true), credTerm(cs, false), Tup(Big(burn[0]), Big(burn[1])), Tup(Big(mint[0]), Big(mint[1])), I64(int64(left))), tag)
	if s == 0 {
		// own statement: credited + minted to the contract - burned from the contract = the epoch's liquidity share, and
		// credits stay within share + burned additional reward
		z, q := sumCredits(cs)
		lz, lq := constants.LiquidityRewardForEpoch(epoch)
		netZ := new(big.Int).Sub(new(big.Int).Add(z, mint[0]), burn[0])
		netQ := new(big.Int).Sub(new(big.Int).Add(q, mint[1]), burn[1])
		okB := z.Cmp(new(big.Int).Add(lz, burn[0])) <= 0 && q.Cmp(new(big.Int).Add(lq, burn[1])) <= 0 && burn[0].Cmp(balZ) <= 0 && burn[1].Cmp(balQ) <= 0
		out.Oracle(okShape && okB && netZ.Cmp(lz) == 0 && netQ.Cmp(lq) == 0, "liquidity-stake-epoch-issues-exactly-the-share",
			M{"epoch": U64(epoch), "credited_znn": Big(z), "credited_qsr": Big(q), "minted_znn": Big(mint[0]), "minted_qsr": Big(mint[1]),
				"burned_znn": Big(burn[0]), "burned_qsr": Big(burn[1]), "share_znn": Big(lz), "share_qsr": Big(lq)})
	}
}
