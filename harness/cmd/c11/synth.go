package main

import (
	"encoding/binary"
	"fmt"
	"math/big"
	"sort"
	"time"

	"github.com/zenon-network/go-zenon/chain/account"
	"github.com/zenon-network/go-zenon/chain/nom"
	"github.com/zenon-network/go-zenon/chain/store"
	"github.com/zenon-network/go-zenon/common"
	"github.com/zenon-network/go-zenon/common/db"
	"github.com/zenon-network/go-zenon/common/types"
	"github.com/zenon-network/go-zenon/consensus/api"
	"github.com/zenon-network/go-zenon/vm/embedded/definition"
	"github.com/zenon-network/go-zenon/vm/vm_context"
)

// ---- synthetic context: real account storage + real contract code, consensus data and time supplied

type fakeReader struct {
	stats  map[uint64]*api.EpochStats
	deleg  map[uint64]map[string]*types.PillarDelegationDetail
	ticker common.Ticker
}

func (f *fakeReader) GetPillarWeights() (map[string]*big.Int, error) { return nil, nil }
func (f *fakeReader) EpochTicker() common.Ticker                     { return f.ticker }
func (f *fakeReader) EpochStats(epoch uint64) (*api.EpochStats, error) {
	return f.stats[epoch], nil
}
func (f *fakeReader) GetPillarDelegationsByEpoch(epoch uint64) (map[string]*types.PillarDelegationDetail, error) {
	return f.deleg[epoch], nil
}

type fakeMS struct {
	store.Momentum
	m *nom.Momentum
}

func (f *fakeMS) GetFrontierMomentum() (*nom.Momentum, error) { return f.m, nil }

func synthContext(contract types.Address, now int64, height uint64, rd *fakeReader) vm_context.AccountVmContext {
	ts := time.Unix(now, 0)
	ms := &fakeMS{m: &nom.Momentum{Height: height, Timestamp: &ts}}
	return vm_context.NewAccountContext(ms, account.NewAccountStore(contract, db.NewMemDB()), rd)
}

// synthetic user address number i
func synthAddr(i int) types.Address {
	var a types.Address
	a[0] = 0
	binary.BigEndian.PutUint32(a[1:5], 0xC11C11C1)
	binary.BigEndian.PutUint32(a[16:20], uint32(i))
	return a
}

type credit struct {
	addr int
	znn  *big.Int
	qsr  *big.Int
}

// all RewardDepositHistory entries in a contract storage: epoch -> address -> (znn, qsr)
func readHistory(st db.DB, idx func(types.Address) int) map[uint64][]credit {
	res := map[uint64][]credit{}
	it := st.NewIterator([]byte{132})
	defer it.Release()
	for it.Next() {
		key := it.Key()
		if len(key) != 1+types.AddressSize+8 {
			panic(fmt.Sprintf("unexpected history key length %d", len(key)))
		}
		addr, err := types.BytesToAddress(key[1 : 1+types.AddressSize])
		if err != nil {
			panic(err)
		}
		epoch := binary.LittleEndian.Uint64(key[1+types.AddressSize:])
		e := new(definition.RewardDepositHistory)
		if err := definition.ABICommon.UnpackVariable(e, definition.RewardDepositHistoryVariableName, it.Value()); err != nil {
			panic(err)
		}
		res[epoch] = append(res[epoch], credit{idx(addr), e.Znn, e.Qsr})
	}
	for _, l := range res {
		sort.Slice(l, func(i, j int) bool { return l[i].addr < l[j].addr })
	}
	return res
}

func lastEpochOf(st db.DB) int64 {
	le, err := definition.GetLastEpochUpdate(st)
	if err != nil {
		panic(err)
	}
	return le.LastEpoch
}

func sumCredits(cs []credit) (*big.Int, *big.Int) {
	z, q := big.NewInt(0), big.NewInt(0)
	for _, c := range cs {
		z.Add(z, c.znn)
		q.Add(q, c.qsr)
	}
	return z, q
}

// runs f; 0 = nil error, 1 = error returned, 2 = panic
func status(f func() error) (st int64) {
	defer func() {
		if r := recover(); r != nil {
			st = 2
		}
	}()
	if err := f(); err != nil {
		return 1
	}
	return 0
}
