package main

// "The credited amounts are a function of the chain alone, so every node computes the same ones."
//
// Two real nodes with the very same chain: the producer (mock node with its pillars) and a follower fed through
// ChainBridge.InsertChain in lock-step. ONE of them - the "asked" node - is asked for the consensus statistics at
// EVERY momentum, for the previous, the RUNNING and the next epoch and election period (what the RPC layer does on a
// public node: EpochStats / weights / delegations of the current epoch, period and epoch points); the other node is
// never asked anything. The chain has gaps (empty momentum slots) of every kind: a few slots, up to the end of the
// period, from anywhere in the epoch up to its end (whole empty periods at the end of an epoch), over the epoch
// boundary (empty periods at the beginning of the next one), whole empty periods in the middle, whole empty epochs.
// Then the reward Updates arrive (RewardTimeLimit after the end of each epoch).
//
// Oracles: the follower accepts every momentum of the producer (a contract receive whose credits differ fails
// verification); after every Update receive of a reward contract the whole storage of the four reward contracts is
// identical on both nodes; the statistics of every FINISHED epoch / period on the asked node - which was queried about
// them while they were running - equal those of a consensus module with an empty DB over the same chain and those of
// the node that was never asked.

import (
	"bytes"
	"fmt"
	"math/big"
	"math/rand"
	"sort"
	. "zharness/hz"

	"github.com/zenon-network/go-zenon/chain"
	"github.com/zenon-network/go-zenon/chain/store"
	"github.com/zenon-network/go-zenon/common/db"
	"github.com/zenon-network/go-zenon/common/types"
	"github.com/zenon-network/go-zenon/consensus"
	"github.com/zenon-network/go-zenon/consensus/storage"
	"github.com/zenon-network/go-zenon/vm/constants"
	"github.com/zenon-network/go-zenon/zenon/mock"
)

const periodSec = 300 // one election period (consensus tick)

// ---- gaps: for every epoch a stretch [from, to) of slots (counted from the first slot of the epoch; `to` may reach
// into the following epochs) in which no momentum is produced
type gapPlan struct {
	perPeriod, perEpoch int64
	plan                map[int64][2]int64
	kind                map[int64]string
	rng                 *rand.Rand
}

func newGapPlan(rng *rand.Rand, durSec int64) *gapPlan {
	return &gapPlan{perPeriod: periodSec / 10, perEpoch: durSec / 10, plan: map[int64][2]int64{}, kind: map[int64]string{}, rng: rng}
}

func (gp *gapPlan) of(epoch int64) ([2]int64, string) {
	if p, ok := gp.plan[epoch]; ok {
		return p, gp.kind[epoch]
	}
	gp.force(epoch, gp.rng.Intn(10))
	return gp.plan[epoch], gp.kind[epoch]
}

// draws the gap of an epoch from one class
func (gp *gapPlan) force(epoch int64, class int) {
	rng, pp, pe := gp.rng, gp.perPeriod, gp.perEpoch
	mult := pe / pp
	var p [2]int64
	k := "none"
	switch class {
	case 0, 1: // from somewhere in the epoch up to its end, at least the whole last period: the last momentum of the epoch
		// stands in front of empty periods; production resumes with the first slot of the next epoch or later
		p = [2]int64{1 + rng.Int63n(pe-pp), pe + pick64(rng, 0, 0, 0, 1, 3, pp-1, pp, pp+1)}
		k = "tail-whole-periods"
	case 2: // from somewhere in the last period up to the end of the epoch
		p = [2]int64{pe - pp + 1 + rng.Int63n(pp-1), pe + pick64(rng, 0, 0, 1, pp)}
		k = "tail"
	case 3: // the beginning of the epoch is empty
		p = [2]int64{0, pick64(rng, 1, 2, pp-1, pp, pp+1, 2*pp)}
		k = "head"
	case 4: // a whole period is empty
		j := rng.Int63n(mult)
		p = [2]int64{j*pp - int64(rng.Intn(2)), (j+1)*pp + int64(rng.Intn(2))}
		if p[0] < 0 {
			p[0] = 0
		}
		k = "whole-period"
	case 5: // up to the end of some period
		j := rng.Int63n(mult)
		p = [2]int64{j*pp + 1 + rng.Int63n(pp-1), (j+1)*pp + int64(rng.Intn(2))}
		k = "to-period-end"
	case 6: // (almost) the whole epoch
		if rng.Intn(2) == 0 {
			p = [2]int64{int64(rng.Intn(3)), pe + int64(rng.Intn(2))*pp}
			k = "whole-epoch"
		}
	}
	gp.plan[epoch], gp.kind[epoch] = p, k
}

func common0() *big.Int { return big.NewInt(0) }

// number of slots to leave empty in front of the next momentum, given the slot of the frontier momentum
func (gp *gapPlan) skip(frontierSlot int64, out *Out) int {
	next := frontierSlot + 1
	for step := 0; step < 4; step++ {
		e, s := next/gp.perEpoch, next%gp.perEpoch
		moved := false
		// the plan of this epoch, and the plan of the epoch before reaching into this one
		for _, pe := range []int64{e, e - 1} {
			if pe < 0 {
				continue
			}
			p, k := gp.of(pe)
			off := s + (e-pe)*gp.perEpoch
			if p[1] > p[0] && off >= p[0] && off < p[1] {
				next = pe*gp.perEpoch + p[1]
				moved = true
				if out != nil {
					out.Count("gap:" + k)
				}
				break
			}
		}
		if !moved {
			break
		}
	}
	if next == frontierSlot+1 && gp.rng.Intn(14) == 0 {
		next += int64(1 + gp.rng.Intn(3))
		if out != nil {
			out.Count("gap:few-slots")
		}
	}
	return int(next - frontierSlot - 1)
}

func (h *nodeHist) frontierSlot() int64 { return (h.nowTs() - h.genesis) / 10 }

func (h *nodeHist) gapMomentum(gp *gapPlan) {
	if k := gp.skip(h.frontierSlot(), h.out); k > 0 {
		mock.VerifInsertMomentumSkipping(h.nd.Z, k)
	} else {
		h.nd.Momentum()
	}
	h.observe()
}

// ---- the questions
func pointStr(p *storage.Point, err error) string {
	if err != nil {
		return "error"
	}
	if p == nil {
		return "nil"
	}
	names := make([]string, 0, len(p.Pillars))
	for n := range p.Pillars {
		names = append(names, n)
	}
	sort.Strings(names)
	s := fmt.Sprintf("%v..%v total=%v", p.PrevHash, p.EndHash, p.TotalWeight)
	for _, n := range names {
		d := p.Pillars[n]
		s += fmt.Sprintf(" %s:%d/%d/%v", n, d.FactualNum, d.ExpectedNum, d.Weight)
	}
	return s
}

// everything a client can ask about the previous, the running and the next epoch / period
func askEverything(cs consensus.Consensus, ch chain.Chain, durSec int64, rng *rand.Rand) {
	fr := FrontierOf(ch)
	gts := ch.GetGenesisMomentum().Timestamp.Unix()
	curP := (fr.Timestamp.Unix() - gts) / periodSec
	cur := (fr.Timestamp.Unix() - gts) / durSec
	rd := cs.FrontierPillarReader()
	pts := consensus.VerifPoints(cs)
	for e := cur - 1; e <= cur+1; e++ {
		if e < 0 {
			continue
		}
		_, _ = rd.EpochStats(uint64(e))
		_, _ = pts.GetEpochPoints().GetPoint(uint64(e))
		if rng.Intn(4) == 0 {
			_, _ = rd.GetPillarDelegationsByEpoch(uint64(e))
		}
	}
	for t := curP - 1; t <= curP+1; t++ {
		if t < 0 {
			continue
		}
		_, _ = pts.GetPeriodPoints().GetPoint(uint64(t))
	}
	_, _ = rd.GetPillarWeights()
}

// the contract's state as of the frontier MOMENTUM (blocks still in the pool are not on the follower yet)
func confirmedStore(ch chain.Chain, c types.Address) store.Account {
	return ch.GetFrontierMomentumStore().GetAccountStore(c)
}

// ---- whole storage of a contract, canonical
func storageDump(ch chain.Chain, c types.Address) []byte {
	st := confirmedStore(ch, c).Storage()
	it := st.NewIterator(nil)
	defer it.Release()
	var buf bytes.Buffer
	for it.Next() {
		fmt.Fprintf(&buf, "%x=%x;", it.Key(), it.Value())
	}
	return buf.Bytes()
}

type twin struct {
	h        *nodeHist
	f        *BareNode
	askedF   bool // the follower is the asked node (else the producer)
	failed   bool
	checked  map[int64]bool
	updates  int
	lastSeen map[types.Address]int64
}

// feeds the follower everything it does not have yet, one momentum at a time; the asked node is asked after every
// momentum it gets
func (t *twin) sync() bool {
	h := t.h
	top := h.nd.FrontierHeight()
	for ht := t.f.Frontier().Height + 1; ht <= top; ht++ {
		if _, err := t.f.Br.InsertChain(WireCopyAll(DetailedRange(h.nd.Ch, ht, ht))); err != nil {
			t.failed = true
			d := DetailedAt(h.nd.Ch, ht)
			var blocks []interface{}
			for _, b := range d.AccountBlocks {
				if n, ok := contractName[b.Address]; ok {
					blocks = append(blocks, fmt.Sprintf("%s height %d type %d", n, b.Height, b.BlockType))
				}
			}
			h.out.Oracle(false, "follower-accepts-the-producers-chain", M{"where": "twin nodes, one of them asked for the statistics of running epochs", "asked_node": t.askedName(),
				"height": U64(ht), "momentum_time": I64(d.Momentum.Timestamp.Unix() - h.genesis), "epoch_duration": I64(h.dur), "reward_contract_blocks": blocks, "error": err.Error()})
			return false
		}
		if t.askedF {
			askEverything(t.f.Cs, t.f.Ch, h.dur, h.rng)
			t.finishedEpochs(t.f.Cs, t.f.Ch)
		}
	}
	return true
}

func (t *twin) askedName() string {
	if t.askedF {
		return "follower"
	}
	return "producer"
}

// the statistics of the epochs that are finished by now (each checked once, at the first momentum behind its end, and
// all of them again at the end of the history) on the asked node against a consensus module with an empty DB
func (t *twin) finishedEpochs(cs consensus.Consensus, ch chain.Chain) {
	h := t.h
	cur := (FrontierOf(ch).Timestamp.Unix() - h.genesis) / h.dur
	for e := cur - 2; e < cur; e++ {
		if e < 0 || t.checked[e] {
			continue
		}
		t.checked[e] = true
		t.compareEpoch(cs, ch, e, "first momentum behind the end of the epoch")
	}
}

func (t *twin) compareEpoch(cs consensus.Consensus, ch chain.Chain, e int64, when string) {
	h := t.h
	cold := consensus.VerifPoints(consensus.NewConsensus(db.NewMemDB(), ch, true))
	got := pointStr(consensus.VerifPoints(cs).GetEpochPoints().GetPoint(uint64(e)))
	want := pointStr(cold.GetEpochPoints().GetPoint(uint64(e)))
	h.out.Oracle(got == want, "finished-epoch-statistics-independent-of-earlier-queries",
		M{"asked_node": t.askedName(), "when": when, "epoch": I64(e), "epoch_duration": I64(h.dur), "gap_in_epoch": fmt.Sprint(t.gapOf(e)),
			"asked_node_answers": got, "node_with_empty_consensus_db": want})
	mult := h.dur / periodSec
	for p := e * mult; p < (e+1)*mult; p++ {
		got := pointStr(consensus.VerifPoints(cs).GetPeriodPoints().GetPoint(uint64(p)))
		want := pointStr(cold.GetPeriodPoints().GetPoint(uint64(p)))
		h.out.Oracle(got == want, "finished-period-statistics-independent-of-earlier-queries",
			M{"asked_node": t.askedName(), "when": when, "period": I64(p), "epoch_duration": I64(h.dur), "asked_node_answers": got, "node_with_empty_consensus_db": want})
	}
}

var twinGaps *gapPlan

func (t *twin) gapOf(e int64) interface{} {
	if twinGaps == nil {
		return nil
	}
	p, k := twinGaps.of(e)
	return fmt.Sprintf("%s slots [%d,%d) of %d", k, p[0], p[1], twinGaps.perEpoch)
}

// after an Update receive of a reward contract: the whole storage of the reward contracts, on both nodes
func (t *twin) compareStorage(why string) {
	h := t.h
	if t.failed || t.f.Frontier().Hash != FrontierOf(h.nd.Ch).Hash {
		return
	}
	for _, c := range rewardContracts {
		a, b := storageDump(h.nd.Ch, c), storageDump(t.f.Ch, c)
		pa, pb := h.readState(confirmedStore(h.nd.Ch, c)), h.readState(confirmedStore(t.f.Ch, c))
		h.out.Oracle(bytes.Equal(a, b), "follower-credits-identical-rewards", M{"where": "twin nodes, whole contract storage after " + why, "asked_node": t.askedName(),
			"contract": contractName[c], "cursor_producer": I64(pa.last), "cursor_follower": I64(pb.last), "height": U64(h.height())})
	}
	t.updates++
}

// cursors of the reward contracts on the producer: did an Update pass an epoch since the last look
func (t *twin) cursorMoved() bool {
	moved := false
	for _, c := range rewardContracts {
		l := lastEpochOf(confirmedStore(t.h.nd.Ch, c).Storage())
		if old, ok := t.lastSeen[c]; ok && old != l {
			moved = true
		}
		t.lastSeen[c] = l
	}
	return moved
}

func gappedTwin(rng *rand.Rand, out *Out) {
	durSec := []int64{600, 600, 900, 1200}[rng.Intn(4)]
	auto := rng.Intn(2) == 0
	// Updates may run every 40-120 momentums (instead of 300): with 10-20 minute epochs one Update then issues one,
	// two or several epochs, and the history needs no long tail for the last epochs to be rewarded
	defer func(v uint64) { constants.UpdateMinNumMomentums = v }(constants.UpdateMinNumMomentums)
	constants.UpdateMinNumMomentums = uint64(40 + rng.Intn(80))
	h := newHist(rng, out, durSec, auto, true)
	defer h.nd.Stop()
	f := OpenBare("")
	defer f.Destroy()
	t := &twin{h: h, f: f, askedF: rng.Intn(2) == 0, checked: map[int64]bool{}, lastSeen: map[types.Address]int64{}}
	gp := newGapPlan(rng, durSec)
	twinGaps = gp
	defer func() { twinGaps = nil }()
	out.Count(fmt.Sprintf("twin:history:epoch=%ds:auto-update=%v:asked=%s", durSec, auto, t.askedName()))
	perEpoch := durSec / 10
	// epochs 0..n-1 with gaps, then long enough without gaps for the rewards of all of them to come due
	gapEpochs := int64(4 + rng.Intn(3))
	endSlot := gapEpochs*perEpoch + 360 + 130
	// a tail gap over whole periods and an empty beginning occur in every history; the other epochs are drawn
	forced := rng.Perm(int(gapEpochs))
	gp.force(int64(forced[0]), 0)
	gp.force(int64(forced[1]), 3)
	for e := gapEpochs; e < gapEpochs+40; e++ { // no gaps behind the gapped epochs (except what reaches over from the last one)
		gp.plan[e], gp.kind[e] = [2]int64{0, 0}, "none"
	}
	t.cursorMoved()
	for h.frontierSlot() < endSlot && !t.failed {
		slot := h.frontierSlot()
		if slot < gapEpochs*perEpoch {
			for k := 0; k < 2; k++ {
				if rng.Intn(4) == 0 {
					h.act()
				}
			}
		}
		if !auto && (rng.Intn(30) == 0 || slot%perEpoch == 7) {
			for _, c := range rewardContracts {
				h.send(actors[rng.Intn(len(actors))], c, types.ZnnTokenStandard, nil, updateData)
			}
			out.Count("node:act:update-all")
		}
		h.gapMomentum(gp)
		if !t.askedF {
			askEverything(h.nd.Cs, h.nd.Ch, durSec, rng)
			t.finishedEpochs(h.nd.Cs, h.nd.Ch)
		}
		if !t.sync() {
			break
		}
		if t.cursorMoved() {
			t.compareStorage("an Update passed an epoch")
		}
	}
	if t.failed {
		return
	}
	// at the end: all finished epochs once more on the asked node, and the never-asked node against the asked one
	cur := h.frontierSlot() / perEpoch
	for e := int64(0); e < cur; e++ {
		if t.askedF {
			t.compareEpoch(f.Cs, f.Ch, e, "end of the history")
		} else {
			t.compareEpoch(h.nd.Cs, h.nd.Ch, e, "end of the history")
		}
		a := pointStr(consensus.VerifPoints(h.nd.Cs).GetEpochPoints().GetPoint(uint64(e)))
		b := pointStr(consensus.VerifPoints(f.Cs).GetEpochPoints().GetPoint(uint64(e)))
		out.Oracle(a == b, "follower-computes-identical-epoch-statistics", M{"where": "twin nodes", "asked_node": t.askedName(), "epoch": I64(e), "producer": a, "follower": b})
	}
	t.compareStorage("the end of the history")
	out.Oracle(t.updates > 1, "harness-twin-history-without-updates", M{"updates": I64(int64(t.updates))})
	for _, c := range rewardContracts {
		out.Count(fmt.Sprintf("twin:cursor:%s=%d", contractName[c], min64(lastEpochOf(h.nd.Ch.GetFrontierAccountStore(c).Storage()), 12)))
	}
}

// ---- Updates of all four reward contracts on a real node that issue several epochs at once, around the first epoch
// of a reward tick (epoch 30, 60, ...: the emission per epoch changes there). The network stalls (no momentum for many
// epochs: the producers' slots stay empty) and nobody calls Update, so that the cursors stand `j` epochs in front of the
// boundary when `k` epochs come due at once; the pillar / stake / sentinel contract cross the boundary in one batch,
// the liquidity contract in batches of at most MaxEpochsPerUpdate/2. The per-update oracles of observeReceive compare
// the credits of EVERY epoch of a batch with the emission of that epoch (and with the model), the follower re-executes
// everything.
func (h *nodeHist) stallUntil(ts int64) {
	skip := (ts-h.nowTs())/10 - 1
	if skip > 0 {
		mock.VerifInsertMomentumSkipping(h.nd.Z, int(skip))
	} else {
		h.nd.Momentum()
	}
	h.observe()
}

func (h *nodeHist) updateAll(rounds int) {
	for r := 0; r < rounds; r++ {
		for _, c := range rewardContracts {
			h.send(actors[h.rng.Intn(len(actors))], c, types.ZnnTokenStandard, nil, updateData)
		}
		for i := 0; i < int(constants.UpdateMinNumMomentums)+1; i++ {
			h.nd.Momentum()
			h.observe()
		}
	}
}

func boundaryBatches(rng *rand.Rand, out *Out, boundary int64) {
	defer func(v uint64) { constants.UpdateMinNumMomentums = v }(constants.UpdateMinNumMomentums)
	constants.UpdateMinNumMomentums = 1
	h := newHist(rng, out, 600, false, true)
	defer h.nd.Stop()
	k := pick64(rng, 2, 3, 7, int64(constants.MaxEpochsPerUpdate/2))
	first := boundary + int64(rng.Intn(5)) - 2 - rng.Int63n(k)
	out.Count(fmt.Sprintf("node:boundary-batches:boundary=%d:%s", boundary, batchTag(first, k, boundary)))
	// something to reward in every contract: a stake, a sentinel, delegations, a registered pillar now and then
	for i := 0; i < 40; i++ {
		h.act()
		h.momentum()
	}
	due := func(e int64) int64 { return h.genesis + h.dur*(e+1) + constants.RewardTimeLimit }
	// the cursors are brought to first-1 (the liquidity contract needs one Update per MaxEpochsPerUpdate/2 epochs)
	// (the rounds of Updates take two momentums each and have to be over before the next epoch comes due)
	rounds := int(first)/(constants.MaxEpochsPerUpdate/2) + 1
	slack := (h.dur-int64(rounds)*20)/10 - 6
	if slack < 1 {
		slack = 1
	}
	h.stallUntil(due(first-1) + 10*rng.Int63n(slack))
	h.updateAll(rounds)
	for _, c := range rewardContracts {
		l := lastEpochOf(confirmedStore(h.nd.Ch, c).Storage())
		out.Oracle(l == first-1, "harness-boundary-cursor-not-in-place", M{"contract": contractName[c], "cursor": I64(l), "want": I64(first - 1)})
	}
	// k epochs come due at once
	h.stallUntil(due(first+k-1) + int64(10*rng.Intn(30)))
	h.updateAll(1)
	// and a few more, one or two at a time, with some life in between
	for i := 0; i < 2; i++ {
		for j := 0; j < 50+rng.Intn(40); j++ {
			if rng.Intn(6) == 0 {
				h.act()
			}
			h.momentum()
		}
		h.updateAll(1)
	}
	h.finish()
}
