package main

import (
	"math/rand"
	. "zharness/hz"
)

func runNode(rng *rand.Rand, n int, out *Out, args []string)       {}
func runNodeWorker(rng *rand.Rand, n int, out *Out, args []string) {}
