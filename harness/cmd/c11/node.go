package main

import (
	"bufio"
	"bytes"
	"encoding/json"
	"fmt"
	"math/big"
	"math/rand"
	"os"
	"os/exec"
	"sort"
	"sync"
	"time"
	. "zharness/hz"

	g "github.com/zenon-network/go-zenon/chain/genesis/mock"
	"github.com/zenon-network/go-zenon/chain/nom"
	"github.com/zenon-network/go-zenon/chain/store"
	"github.com/zenon-network/go-zenon/common/db"
	"github.com/zenon-network/go-zenon/common/types"
	"github.com/zenon-network/go-zenon/consensus"
	"github.com/zenon-network/go-zenon/consensus/api"
	"github.com/zenon-network/go-zenon/verifier"
	"github.com/zenon-network/go-zenon/vm"
	"github.com/zenon-network/go-zenon/vm/constants"
	"github.com/zenon-network/go-zenon/vm/embedded/definition"
	"github.com/zenon-network/go-zenon/wallet"
	"github.com/zenon-network/go-zenon/zenon/mock"
)

// ---- parent: runs the histories in child processes (the mock node uses process globals: clock, epoch duration)
func runNode(rng *rand.Rand, n int, out *Out, args []string) {
	exe, err := os.Executable()
	if err != nil {
		panic(err)
	}
	// the random histories go to four child processes; two more children run the fixed scenarios: twin nodes with gaps,
	// a node asked at every momentum, Updates around a reward-tick boundary, late liquidity Update, Update starvation
	scenarios := [][]string{{}, {}, {}, {}, {"twin", "asked", "repro"}, {"boundary", "asked", "starved"}}
	const histWorkers = 4
	if n == 0 {
		return
	}
	workers := len(scenarios)
	base := rng.Int63n(1 << 40)
	files := make([]string, workers)
	var wg sync.WaitGroup
	errs := make([]error, workers)
	for w := 0; w < workers; w++ {
		k := 0
		if w < histWorkers {
			k = n / histWorkers
			if w < n%histWorkers {
				k++
			}
		}
		f, err := os.CreateTemp("", "c11node")
		if err != nil {
			panic(err)
		}
		f.Close()
		files[w] = f.Name()
		a := []string{"nodeworker", "-seed", fmt.Sprint(base + int64(w)), "-n", fmt.Sprint(k), "-out", files[w]}
		if len(scenarios[w]) > 0 {
			a = append(a, fmt.Sprintf("reps=%d", 1+n/20)) // quick: once; thorough (60 histories): four times, new draws
		}
		a = append(a, scenarios[w]...)
		wg.Add(1)
		go func(w int, a []string) {
			defer wg.Done()
			cmd := exec.Command(exe, a...)
			var buf bytes.Buffer
			cmd.Stdout, cmd.Stderr = &buf, &buf
			if err := cmd.Run(); err != nil {
				errs[w] = fmt.Errorf("%v: %s", err, tail(buf.String(), 1500))
			}
		}(w, a)
	}
	wg.Wait()
	for w := 0; w < workers; w++ {
		if errs[w] != nil {
			fmt.Fprintln(os.Stderr, "worker failed:", errs[w])
			os.Exit(3)
		}
		f, err := os.Open(files[w])
		if err != nil {
			panic(err)
		}
		sc := bufio.NewScanner(f)
		sc.Buffer(make([]byte, 1<<20), 1<<28)
		for sc.Scan() {
			var m M
			d := json.NewDecoder(bytes.NewReader(sc.Bytes()))
			d.UseNumber()
			if err := d.Decode(&m); err != nil {
				panic(err)
			}
			switch m["k"] {
			case "case":
				out.Cases++
			case "oracle":
				out.Fails++
			}
			out.Emit(m)
		}
		f.Close()
		os.Remove(files[w])
	}
}

func tail(s string, n int) string {
	if len(s) > n {
		return s[len(s)-n:]
	}
	return s
}

func runNodeWorker(rng *rand.Rand, n int, out *Out, args []string) {
	reps := 1
	if len(args) > 0 {
		if _, err := fmt.Sscanf(args[0], "reps=%d", &reps); err == nil {
			args = args[1:]
		}
	}
	for r := 1; r < reps; r++ {
		args = append(args, args[:len(args)/r]...)
	}
	for i := 0; i < len(args); i++ {
		switch args[i] {
		case "repro":
			liquidityLateUpdate(out)
		case "starved":
			starvedUpdates(rng, out)
		case "twin":
			gappedTwin(rng, out)
		case "asked":
			askedPointsHistory(rng, out)
		case "boundary":
			// the first epoch of a reward tick: 30 (ZNN 10 -> 6 per momentum), 60, ..., 120 (QSR 20000 -> 15000); "boundary=N" fixes it
			b := int64(constants.RewardTickDurationInEpochs) * pick64(rng, 1, 1, 2, 4)
			boundaryBatches(rng, out, b)
		default:
			var b int64
			if _, err := fmt.Sscanf(args[i], "boundary=%d", &b); err == nil {
				boundaryBatches(rng, out, b)
			} else {
				panic("unknown scenario " + args[i])
			}
		}
	}
	for i := 0; i < n; i++ {
		nodeHistory(rng, out)
	}
}

// ---- one real node with a custom epoch duration
func newNodeEpoch(d time.Duration) *Node {
	verifier.ReceiverMismatchEnforcementHeight = 0
	t := &FakeT{}
	z := mock.NewMockZenonWithCustomEpochDuration(t, d)
	Quiet()
	return &Node{T: t, Z: z, Ch: z.Chain(), Cs: z.Consensus(), Sv: vm.NewSupervisor(z.Chain(), z.Consensus())}
}

var defaultWUpdate = append([]types.Address{}, types.EmbeddedWUpdate...)
var defaultConsts = struct{ stakeUnit, stakeMin, stakeMax, sentLock, sentRevoke, pilLock, pilRevoke int64 }{
	constants.StakeTimeUnitSec, constants.StakeTimeMinSec, constants.StakeTimeMaxSec, constants.SentinelLockTimeWindow,
	constants.SentinelRevokeTimeWindow, constants.PillarEpochLockTime, constants.PillarEpochRevokeTime}

func setWindows(short bool) {
	d := defaultConsts
	if short {
		constants.StakeTimeUnitSec, constants.StakeTimeMinSec, constants.StakeTimeMaxSec = 600, 600, 7200
		constants.SentinelLockTimeWindow, constants.SentinelRevokeTimeWindow = 900, 600
		constants.PillarEpochLockTime, constants.PillarEpochRevokeTime = 1200, 900
	} else {
		constants.StakeTimeUnitSec, constants.StakeTimeMinSec, constants.StakeTimeMaxSec = d.stakeUnit, d.stakeMin, d.stakeMax
		constants.SentinelLockTimeWindow, constants.SentinelRevokeTimeWindow = d.sentLock, d.sentRevoke
		constants.PillarEpochLockTime, constants.PillarEpochRevokeTime = d.pilLock, d.pilRevoke
	}
}

var rewardContracts = []types.Address{types.PillarContract, types.StakeContract, types.SentinelContract, types.LiquidityContract}
var contractName = map[types.Address]string{types.PillarContract: "pillar", types.StakeContract: "stake", types.SentinelContract: "sentinel", types.LiquidityContract: "liquidity"}

type stakeRef struct {
	owner *wallet.KeyPair
	id    types.Hash
	exp   int64
	gone  bool
}

type nodeHist struct {
	nd       *Node
	rng      *rand.Rand
	out      *Out
	dur      int64
	genesis  int64
	short    bool
	auto     bool
	probes   bool // read-only consensus queries at random moments
	longGaps bool

	addrIdx map[types.Address]int
	nameIdx map[string]int
	seen    map[types.Address]uint64
	minted  map[types.Address]map[types.Address][2]*big.Int
	liqMint [2]*big.Int
	stats   map[uint64]string // epoch -> canonical statistics as seen when the pillar contract rewarded it

	pillarStage map[int]int // key index in g.PillarKeys -> 0 none, 1 qsr deposited, 2 registered, 3 revoked
	pillarAt    map[int]uint64
	sentStage   map[types.Address]int
	sentAt      map[types.Address]uint64
	stakes      []*stakeRef
	supply0     *big.Int
}

func (h *nodeHist) aidx(a types.Address) int {
	if i, ok := h.addrIdx[a]; ok {
		return i
	}
	i := len(h.addrIdx)
	h.addrIdx[a] = i
	return i
}
func (h *nodeHist) nidx(n string) int {
	if i, ok := h.nameIdx[n]; ok {
		return i
	}
	i := len(h.nameIdx)
	h.nameIdx[n] = i
	return i
}

func (h *nodeHist) send(kp *wallet.KeyPair, to types.Address, zts types.ZenonTokenStandard, amount *big.Int, data []byte) *nom.AccountBlock {
	if amount == nil {
		amount = big.NewInt(0)
	}
	tpl := &nom.AccountBlock{BlockType: nom.BlockTypeUserSend, Address: kp.Address, ToAddress: to, TokenStandard: zts, Amount: amount, Data: data}
	tx, err := h.nd.Sv.GenerateFromTemplate(tpl, kp.Signer)
	if err != nil {
		h.out.Count("node:send-rejected")
		return nil
	}
	if err := h.nd.Insert(tx); err != nil {
		h.out.Count("node:insert-failed")
		return nil
	}
	return tx.Block
}

func (h *nodeHist) height() uint64 { return h.nd.FrontierHeight() }
func (h *nodeHist) nowTs() int64 {
	m, _ := h.nd.Ch.GetFrontierMomentumStore().GetFrontierMomentum()
	return m.Timestamp.Unix()
}

func (h *nodeHist) momentum() {
	if h.rng.Intn(14) == 0 {
		mock.VerifInsertMomentumSkipping(h.nd.Z, 1+h.rng.Intn(3))
		h.out.Count("node:skipped-slots")
	} else if h.longGaps && h.rng.Intn(250) == 0 {
		// the rest of the epoch stays empty (whole empty election periods when the frontier is not in the last one), now
		// and then the beginning of the next one too; the node is asked about the running epoch in front of the gap
		perEpoch := h.dur / 10
		k := perEpoch - 1 - h.frontierSlot()%perEpoch + pick64(h.rng, 0, 0, 1, periodSec/10)
		if h.probes {
			probeConsensus(h.rng, h.nd.Cs, *FrontierOf(h.nd.Ch).Timestamp, h.out)
		}
		if k > 0 {
			mock.VerifInsertMomentumSkipping(h.nd.Z, int(k))
			h.out.Count("node:gap-to-the-end-of-the-epoch")
		} else {
			h.nd.Momentum()
		}
	} else {
		h.nd.Momentum()
	}
	h.observe()
}

// ---- contract state readers
type cstate struct {
	last int64
	hist map[uint64][]credit
}

func (h *nodeHist) readState(st store.Account) *cstate {
	return &cstate{last: lastEpochOf(st.Storage()), hist: readHistory(st.Storage(), h.aidx)}
}

func histKey(e uint64, a int) string { return fmt.Sprintf("%d/%d", e, a) }
func flatten(hs map[uint64][]credit) map[string]credit {
	r := map[string]credit{}
	for e, l := range hs {
		for _, c := range l {
			r[histKey(e, c.addr)] = c
		}
	}
	return r
}

var updateData = definition.ABICommon.PackMethodPanic(definition.UpdateMethodName)
var collectData = definition.ABICommon.PackMethodPanic(definition.CollectRewardMethodName)

// observe every new block of the four reward contracts while it is still unconfirmed: the account store
// before and after the block are then both available
func (h *nodeHist) observe() {
	for _, c := range rewardContracts {
		blocks := h.nd.Ch.GetUncommittedAccountBlocksByAddress(c)
		for _, b := range blocks {
			if b.Height <= h.seen[c] {
				continue
			}
			h.seen[c] = b.Height
			if b.BlockType != nom.BlockTypeContractReceive {
				continue
			}
			prev := b.Previous()
			if len(b.DescendantBlocks) > 0 {
				prev = b.DescendantBlocks[0].Previous()
			}
			before := h.nd.Ch.GetAccountStore(c, prev)
			after := h.nd.Ch.GetAccountStore(c, b.Identifier())
			if before == nil || after == nil {
				h.out.Oracle(false, "harness-store-unavailable", M{"contract": contractName[c], "height": U64(b.Height)})
				continue
			}
			sendB, err := h.nd.Ch.GetFrontierMomentumStore().GetAccountBlockByHash(b.FromBlockHash)
			if err != nil || sendB == nil {
				h.out.Oracle(false, "harness-send-block-unavailable", M{"contract": contractName[c]})
				continue
			}
			h.observeReceive(c, b, sendB, before, after)
		}
	}
}

func (h *nodeHist) observeReceive(c types.Address, b, sendB *nom.AccountBlock, before, after store.Account) {
	sb, sa := h.readState(before), h.readState(after)
	fb, fa := flatten(sb.hist), flatten(sa.hist)
	ackM, err := h.nd.Ch.GetFrontierMomentumStore().GetMomentumByHash(b.MomentumAcknowledged.Hash)
	if err != nil || ackM == nil {
		h.out.Oracle(false, "harness-ack-momentum-unavailable", nil)
		return
	}
	now := ackM.Timestamp.Unix()

	// paid once / in order: history entries appear or change only for the epochs the cursor passes in this very block
	okHist := true
	for k, ca := range fa {
		cb, had := fb[k]
		changed := !had || cb.znn.Cmp(ca.znn) != 0 || cb.qsr.Cmp(ca.qsr) != 0
		if !changed {
			continue
		}
		var e uint64
		var a int
		fmt.Sscanf(k, "%d/%d", &e, &a)
		if !(int64(e) > sb.last && int64(e) <= sa.last) {
			okHist = false
		}
	}
	for k := range fb {
		if _, ok := fa[k]; !ok {
			okHist = false
		}
	}
	h.out.Oracle(okHist, "reward-history-changes-only-for-epochs-passed-now", M{"contract": contractName[c], "last_before": I64(sb.last), "last_after": I64(sa.last)})
	h.out.Oracle(sa.last >= sb.last, "cursor-never-decreases", M{"contract": contractName[c]})

	isUpdate := bytes.Equal(sendB.Data, updateData)
	isCollect := bytes.Equal(sendB.Data, collectData)
	if !isUpdate {
		h.out.Oracle(sa.last == sb.last, "cursor-moves-only-in-update", M{"contract": contractName[c]})
	}
	if isCollect {
		h.observeCollect(c, b, sendB, before, after)
	}
	if !isUpdate || sa.last == sb.last {
		if isUpdate {
			h.out.Count("node:update-no-epoch-due:" + contractName[c])
		}
		return
	}
	h.out.Count(fmt.Sprintf("node:update:%s:epochs=%d", contractName[c], min64(sa.last-sb.last, 12)))
	// every passed epoch ended at least RewardTimeLimit before the acknowledged momentum; the next one is not yet due
	endLast := h.genesis + h.dur*(sa.last+1)
	h.out.Oracle(endLast+constants.RewardTimeLimit <= now, "cursor-only-after-grace-period",
		M{"contract": contractName[c], "last_after": I64(sa.last), "now": I64(now)})
	if c != types.LiquidityContract {
		h.out.Oracle(now < h.genesis+h.dur*(sa.last+2)+constants.RewardTimeLimit, "cursor-rewards-all-due-epochs",
			M{"contract": contractName[c], "last_after": I64(sa.last), "now": I64(now)})
	}

	reader := h.nd.Cs.FixedPillarReader(b.MomentumAcknowledged)
	switch c {
	case types.PillarContract:
		infos, err := definition.GetPillarsList(before.Storage(), false, definition.AnyPillarType)
		if err != nil {
			panic(err)
		}
		for e := sb.last + 1; e <= sa.last; e++ {
			h.pillarEpoch(uint64(e), reader, infos, sa.hist[uint64(e)])
		}
	case types.StakeContract:
		var entries []*definition.StakeInfo
		definition.IterateStakeEntries(before.Storage(), func(s *definition.StakeInfo) error { entries = append(entries, s); return nil })
		for e := sb.last + 1; e <= sa.last; e++ {
			entries = h.stakeEpoch(uint64(e), entries, sa.hist[uint64(e)], e == sa.last, after)
		}
	case types.SentinelContract:
		var entries []*definition.SentinelInfo
		definition.IterateSentinelEntries(before.Storage(), func(s *definition.SentinelInfo) error { entries = append(entries, s); return nil })
		for e := sb.last + 1; e <= sa.last; e++ {
			h.sentinelEpoch(uint64(e), entries, sa.hist[uint64(e)])
		}
	case types.LiquidityContract:
		h.liquidityUpdate(b, sb.last, sa.last)
	}
}

func min64(a, b int64) int64 {
	if a < b {
		return a
	}
	return b
}

func statsString(st *api.EpochStats) string {
	names := make([]string, 0, len(st.Pillars))
	for n := range st.Pillars {
		names = append(names, n)
	}
	sort.Strings(names)
	s := fmt.Sprintf("%d|%s|", st.Epoch, st.TotalWeight)
	for _, n := range names {
		p := st.Pillars[n]
		s += fmt.Sprintf("%s:%d/%d/%s;", n, p.BlockNum, p.ExceptedBlockNum, p.Weight)
	}
	return s
}

func (h *nodeHist) pillarEpoch(e uint64, reader api.PillarReader, infos []*definition.PillarInfo, credits []credit) {
	st, err := reader.EpochStats(e)
	if err != nil || st == nil {
		h.out.Oracle(false, "harness-epoch-stats-unavailable", M{"epoch": U64(e)})
		return
	}
	h.stats[e] = statsString(st)
	details, err := reader.GetPillarDelegationsByEpoch(e)
	if err != nil {
		h.out.Oracle(false, "harness-delegations-unavailable", M{"epoch": U64(e)})
		return
	}
	// the hypothesis of C11_pillar_bounded, checked on what the consensus module really produced
	wf := true
	sumW := big.NewInt(0)
	var totalExp uint64
	names := make([]string, 0, len(st.Pillars))
	for n := range st.Pillars {
		names = append(names, n)
	}
	sort.Strings(names)
	ps := Lst()
	missed := false
	for _, n := range names {
		p := st.Pillars[n]
		if p.BlockNum > p.ExceptedBlockNum || p.Weight.Sign() < 0 {
			wf = false
		}
		if p.BlockNum < p.ExceptedBlockNum {
			missed = true
		}
		sumW.Add(sumW, p.Weight)
		totalExp += p.ExceptedBlockNum
		ps = append(ps, Tup(I64(int64(h.nidx(n))), U64(p.BlockNum), U64(p.ExceptedBlockNum), Big(p.Weight)))
	}
	if sumW.Cmp(st.TotalWeight) > 0 {
		wf = false
	}
	slots := uint64(h.dur / constants.ConsensusConfig.BlockTime)
	h.out.Oracle(wf && totalExp == slots, "epoch-stats-well-formed",
		M{"epoch": U64(e), "stats": h.stats[e], "slots": U64(slots), "total_expected": U64(totalExp)})

	it := Lst()
	for _, pi := range infos {
		it = append(it, Tup(I64(int64(h.nidx(pi.Name))), I64(int64(pi.GiveBlockRewardPercentage)), I64(int64(pi.GiveDelegateRewardPercentage)),
			I64(int64(h.aidx(pi.RewardWithdrawAddress)))))
	}
	dt := Lst()
	dnames := make([]string, 0, len(details))
	for n := range details {
		dnames = append(dnames, n)
	}
	sort.Strings(dnames)
	nb := 0
	for _, n := range dnames {
		d := details[n]
		type ba struct {
			a   int
			amt *big.Int
		}
		var bl []ba
		for a, amt := range d.Backers {
			bl = append(bl, ba{h.aidx(a), amt})
		}
		sort.Slice(bl, func(i, j int) bool { return bl[i].a < bl[j].a })
		bt := Lst()
		for _, x := range bl {
			bt = append(bt, Tup(I64(int64(x.a)), Big(x.amt)))
			nb++
		}
		dt = append(dt, Tup(I64(int64(h.nidx(n))), bt))
	}
	tag := "node"
	if missed {
		tag = "node-missed-momentums"
	}
	if len(st.Pillars) > 3 {
		tag += "-more-pillars"
	}
	h.out.Case("pillar_epoch", Tup(U64(e), Big(st.TotalWeight), ps, it, dt), Tup(I64(0), credTerm(credits, true)), tag)

	d, b := constants.PillarRewardPerMomentum(e)
	bound := new(big.Int).Add(d, b)
	bound.Mul(bound, new(big.Int).SetUint64(totalExp))
	z, q := sumCredits(credits)
	// share of the epoch's emission, scaled to the number of momentum slots of this epoch duration
	share := big.NewInt(constants.NetworkZnnRewardPerEpoch(e))
	share.Mul(share, big.NewInt(constants.DelegationZnnRewardPercentage+constants.MomentumProducingZnnRewardPercentage))
	share.Mul(share, new(big.Int).SetUint64(slots))
	share.Quo(share, big.NewInt(100*constants.MomentumsPerEpoch))
	h.out.Oracle(z.Cmp(bound) <= 0 && z.Cmp(share) <= 0 && q.Sign() == 0, "pillar-credits-within-emission",
		M{"epoch": U64(e), "credited": Big(z), "bound": Big(bound), "share": Big(share)})
	h.out.Count("node:epochs-rewarded:pillar")
}

func (h *nodeHist) stakeEpoch(e uint64, entries []*definition.StakeInfo, credits []credit, lastOfUpdate bool, after store.Account) []*definition.StakeInfo {
	s0, e0 := h.genesis+h.dur*int64(e), h.genesis+h.dur*int64(e+1)
	lt := Lst()
	for _, s := range entries {
		lt = append(lt, Tup(I64(s.StartTime), I64(s.RevokeTime), Big(s.WeightedAmount), I64(int64(h.aidx(s.StakeAddress)))))
	}
	// entries that the routine deletes after rewarding them (cancelled before the end of the epoch)
	var rest []*definition.StakeInfo
	if len(credits) == 0 {
		rest = entries
	} else {
		for _, s := range entries {
			if !(s.RevokeTime != 0 && s.RevokeTime < e0) {
				rest = append(rest, s)
			}
		}
	}
	left := len(rest)
	if lastOfUpdate {
		left = 0
		definition.IterateStakeEntries(after.Storage(), func(*definition.StakeInfo) error { left++; return nil })
	}
	tag := "node"
	if len(entries) == 0 {
		tag = "node-no-entries"
	} else if len(rest) < len(entries) {
		tag = "node-entries-deleted"
	}
	h.out.Case("stake_epoch", Tup(U64(e), I64(s0), I64(e0), lt), Tup(I64(0), credTerm(credits, false), I64(int64(left))), tag)
	z, q := sumCredits(credits)
	h.out.Oracle(q.Cmp(constants.StakeQsrRewardPerEpoch(e)) <= 0 && z.Sign() == 0, "stake-credits-within-emission",
		M{"epoch": U64(e), "credited": Big(q), "bound": Big(constants.StakeQsrRewardPerEpoch(e))})
	h.out.Count("node:epochs-rewarded:stake")
	return rest
}

func (h *nodeHist) sentinelEpoch(e uint64, entries []*definition.SentinelInfo, credits []credit) {
	s0, e0 := h.genesis+h.dur*int64(e), h.genesis+h.dur*int64(e+1)
	lt := Lst()
	for _, s := range entries {
		lt = append(lt, Tup(I64(s.RegistrationTimestamp), I64(s.RevokeTimestamp), I64(int64(h.aidx(s.Owner)))))
	}
	tag := "node"
	if len(entries) == 0 {
		tag = "node-no-entries"
	} else if len(credits) < len(entries) {
		tag = "node-some-inactive"
	}
	h.out.Case("sentinel_epoch", Tup(U64(e), I64(s0), I64(e0), lt), Tup(I64(0), credTerm(credits, true), credTerm(credits, false)), tag)
	z, q := sumCredits(credits)
	bz, bq := constants.SentinelRewardForEpoch(e)
	h.out.Oracle(z.Cmp(bz) <= 0 && q.Cmp(bq) <= 0, "sentinel-credits-within-emission",
		M{"epoch": U64(e), "znn": Big(z), "qsr": Big(q), "bound_znn": Big(bz), "bound_qsr": Big(bq)})
	h.out.Count("node:epochs-rewarded:sentinel")
}

// liquidity contract (method table before the bridge-and-liquidity spork): two mints per rewarded epoch
func (h *nodeHist) liquidityUpdate(b *nom.AccountBlock, lastBefore, lastAfter int64) {
	mints, okShape := mintsOf(b.DescendantBlocks, types.LiquidityContract)
	rewarded := int64(len(mints) / 2)
	okAmounts := okShape && len(mints)%2 == 0
	for i := int64(0); i < rewarded && okAmounts; i++ {
		z, q := constants.LiquidityRewardForEpoch(uint64(lastBefore + 1 + i))
		okAmounts = fmt.Sprint(mints[2*i]) == fmt.Sprint(Tup(I64(0), Big(z))) && fmt.Sprint(mints[2*i+1]) == fmt.Sprint(Tup(I64(1), Big(q)))
	}
	h.out.Oracle(okAmounts, "liquidity-mints-the-epoch-amounts", M{"last_before": I64(lastBefore), "mints": mints})
	// each epoch the cursor passes is rewarded
	h.out.Oracle(lastAfter-lastBefore == rewarded, "liquidity-cursor-rewards-every-epoch-it-passes",
		M{"where": "real node: Update send -> contract receive", "last": I64(lastBefore), "new_last": I64(lastAfter), "rewarded_epochs": I64(rewarded), "epoch_duration": I64(h.dur)})
	for _, db := range b.DescendantBlocks {
		p := new(definition.MintParam)
		definition.ABIToken.UnpackMethod(p, definition.MintMethodName, db.Data)
		if p.TokenStandard == types.ZnnTokenStandard {
			h.liqMint[0].Add(h.liqMint[0], p.Amount)
		} else {
			h.liqMint[1].Add(h.liqMint[1], p.Amount)
		}
	}
	ep := Lst()
	for i := int64(0); i < rewarded; i++ {
		ep = append(ep, I64(lastBefore+1+i))
	}
	ackM, _ := h.nd.Ch.GetFrontierMomentumStore().GetMomentumByHash(b.MomentumAcknowledged.Hash)
	tag := "node-liquidity"
	if rewarded > 10 || lastAfter-lastBefore > 10 {
		tag = "node-liquidity-more-than-ten-due"
	}
	h.out.Case("cursor", Tup(I64(1), I64(h.genesis), I64(h.dur), I64(ackM.Timestamp.Unix()), I64(lastBefore)), Tup(ep, I64(lastAfter)), tag)
	h.out.Count("node:epochs-rewarded:liquidity")
}

func (h *nodeHist) observeCollect(c types.Address, b, sendB *nom.AccountBlock, before, after store.Account) {
	who := sendB.Address
	db0, _ := definition.GetRewardDeposit(before.Storage(), &who)
	db1, _ := definition.GetRewardDeposit(after.Storage(), &who)
	mints, okShape := mintsOf(b.DescendantBlocks, who)
	st := int64(0)
	if len(mints) == 0 && db0.Znn.Cmp(db1.Znn) == 0 && db0.Qsr.Cmp(db1.Qsr) == 0 {
		st = 1
	}
	tag := "node-minted"
	if st == 1 {
		tag = "node-nothing-to-withdraw"
	}
	h.out.Case("collect", Tup(Big(db0.Znn), Big(db0.Qsr)), Tup(I64(st), mints, Tup(Big(db1.Znn), Big(db1.Qsr))), tag)
	mz, mq := big.NewInt(0), big.NewInt(0)
	for _, d := range b.DescendantBlocks {
		p := new(definition.MintParam)
		definition.ABIToken.UnpackMethod(p, definition.MintMethodName, d.Data)
		if p.TokenStandard == types.ZnnTokenStandard {
			mz.Add(mz, p.Amount)
		} else {
			mq.Add(mq, p.Amount)
		}
	}
	ok := okShape && mz.Cmp(db0.Znn) == 0 && mq.Cmp(db0.Qsr) == 0 && db1.Znn.Sign() == 0 && db1.Qsr.Sign() == 0
	h.out.Oracle(ok, "collect-mints-exactly-the-deposit",
		M{"contract": contractName[c], "deposit_znn": Big(db0.Znn), "deposit_qsr": Big(db0.Qsr), "minted_znn": Big(mz), "minted_qsr": Big(mq)})
	m := h.minted[c]
	cur, okc := m[who]
	if !okc {
		cur = [2]*big.Int{big.NewInt(0), big.NewInt(0)}
	}
	cur[0].Add(cur[0], mz)
	cur[1].Add(cur[1], mq)
	m[who] = cur
}

// ---- actions
var actors = []*wallet.KeyPair{g.User1, g.User2, g.User3, g.User4, g.User5, g.Spork, g.Pillar4, g.Pillar5, g.Pillar6, g.Pillar7, g.Pillar8}
var pillarCandidates = []int{3, 4, 5} // indices into g.PillarKeys (Pillar4..6)
var newPillarNames = map[int]string{3: g.Pillar4Name, 4: g.Pillar5Name, 5: g.Pillar6Name}
var sentinelCandidates = []*wallet.KeyPair{g.User1, g.User2, g.Spork, g.Pillar7, g.Pillar8}

func (h *nodeHist) activeNames() []string {
	l, err := definition.GetPillarsList(h.nd.Ch.GetFrontierAccountStore(types.PillarContract).Storage(), true, definition.AnyPillarType)
	if err != nil {
		panic(err)
	}
	r := make([]string, 0, len(l))
	for _, p := range l {
		r = append(r, p.Name)
	}
	sort.Strings(r)
	return r
}

func (h *nodeHist) act() {
	rng := h.rng
	switch rng.Intn(16) {
	case 0, 1: // delegate
		names := h.activeNames()
		if len(names) > 0 {
			u := actors[rng.Intn(len(actors))]
			h.send(u, types.PillarContract, types.ZnnTokenStandard, nil, definition.ABIPillars.PackMethodPanic(definition.DelegateMethodName, names[rng.Intn(len(names))]))
			h.out.Count("node:act:delegate")
		}
	case 2: // undelegate
		u := actors[rng.Intn(len(actors))]
		h.send(u, types.PillarContract, types.ZnnTokenStandard, nil, definition.ABIPillars.PackMethodPanic(definition.UndelegateMethodName))
		h.out.Count("node:act:undelegate")
	case 3, 4: // pillar registration (two steps) / revocation
		i := pillarCandidates[rng.Intn(len(pillarCandidates))]
		kp := g.PillarKeys[i]
		switch h.pillarStage[i] {
		case 0:
			cost := new(big.Int).Add(constants.PillarQsrStakeBaseAmount, new(big.Int).Mul(constants.PillarQsrStakeIncreaseAmount, big.NewInt(3)))
			if h.send(kp, types.PillarContract, types.QsrTokenStandard, cost, definition.ABIPillars.PackMethodPanic(definition.DepositQsrMethodName)) != nil {
				h.pillarStage[i], h.pillarAt[i] = 1, h.height()
			}
		case 1:
			if h.height() >= h.pillarAt[i]+3 {
				reward := actors[rng.Intn(len(actors))].Address
				gb, gd := uint8(rng.Intn(101)), uint8(rng.Intn(101))
				if h.send(kp, types.PillarContract, types.ZnnTokenStandard, constants.PillarStakeAmount,
					definition.ABIPillars.PackMethodPanic(definition.RegisterMethodName, newPillarNames[i], kp.Address, reward, gb, gd)) != nil {
					h.pillarStage[i], h.pillarAt[i] = 2, h.height()
					h.out.Count("node:act:register-pillar")
				}
			}
		case 2:
			if h.short && rng.Intn(3) == 0 {
				if h.send(kp, types.PillarContract, types.ZnnTokenStandard, nil, definition.ABIPillars.PackMethodPanic(definition.RevokeMethodName, newPillarNames[i])) != nil {
					h.out.Count("node:act:revoke-pillar-attempt")
				}
			}
		}
	case 5: // change give-percentages / reward address of an existing pillar
		type own struct {
			kp   *wallet.KeyPair
			name string
		}
		owners := []own{{g.Pillar1, g.Pillar1Name}, {g.Pillar2, g.Pillar2Name}, {g.Pillar3, g.Pillar3Name}}
		for i, n := range newPillarNames {
			if h.pillarStage[i] == 2 {
				owners = append(owners, own{g.PillarKeys[i], n})
			}
		}
		o := owners[rng.Intn(len(owners))]
		reward := o.kp.Address
		if rng.Intn(2) == 0 {
			reward = actors[rng.Intn(len(actors))].Address
		}
		h.send(o.kp, types.PillarContract, types.ZnnTokenStandard, nil,
			definition.ABIPillars.PackMethodPanic(definition.UpdatePillarMethodName, o.name, o.kp.Address, reward, uint8(rng.Intn(101)), uint8(rng.Intn(101))))
		h.out.Count("node:act:update-pillar")
	case 6, 7: // stake
		u := actors[rng.Intn(6)]
		k := int64(1 + rng.Intn(12))
		amt := new(big.Int).Mul(big.NewInt(int64(1+rng.Intn(50))), big.NewInt(g.Zexp))
		if b := h.send(u, types.StakeContract, types.ZnnTokenStandard, amt, definition.ABIStake.PackMethodPanic(definition.StakeMethodName, k*constants.StakeTimeUnitSec)); b != nil {
			h.stakes = append(h.stakes, &stakeRef{owner: u, id: b.Hash, exp: h.nowTs() + k*constants.StakeTimeUnitSec + 20})
			h.out.Count("node:act:stake")
		}
	case 8: // cancel an expired stake
		for _, s := range h.stakes {
			if !s.gone && s.exp <= h.nowTs() {
				if h.send(s.owner, types.StakeContract, types.ZnnTokenStandard, nil, definition.ABIStake.PackMethodPanic(definition.CancelStakeMethodName, s.id)) != nil {
					s.gone = true
					h.out.Count("node:act:cancel-stake")
				}
				break
			}
		}
	case 9, 10: // sentinel registration (two steps) / revocation
		kp := sentinelCandidates[rng.Intn(len(sentinelCandidates))]
		switch h.sentStage[kp.Address] {
		case 0:
			if h.send(kp, types.SentinelContract, types.QsrTokenStandard, constants.SentinelQsrDepositAmount, definition.ABISentinel.PackMethodPanic(definition.DepositQsrMethodName)) != nil {
				h.sentStage[kp.Address], h.sentAt[kp.Address] = 1, h.height()
			}
		case 1:
			if h.height() >= h.sentAt[kp.Address]+3 {
				if h.send(kp, types.SentinelContract, types.ZnnTokenStandard, constants.SentinelZnnRegisterAmount, definition.ABISentinel.PackMethodPanic(definition.RegisterSentinelMethodName)) != nil {
					h.sentStage[kp.Address] = 2
					h.out.Count("node:act:register-sentinel")
				}
			}
		case 2:
			if h.short && rng.Intn(3) == 0 {
				h.send(kp, types.SentinelContract, types.ZnnTokenStandard, nil, definition.ABISentinel.PackMethodPanic(definition.RevokeSentinelMethodName))
				h.out.Count("node:act:revoke-sentinel-attempt")
			}
		}
	case 11, 12, 13: // collect
		u := actors[rng.Intn(len(actors))]
		if rng.Intn(4) == 0 {
			u = []*wallet.KeyPair{g.Pillar1, g.Pillar2, g.Pillar3}[rng.Intn(3)]
		}
		c := rewardContracts[rng.Intn(3)]
		h.send(u, c, types.ZnnTokenStandard, nil, collectData)
		h.out.Count("node:act:collect")
	default: // Update sent by a user (the only source of updates when the pillars' automatic update is off)
		u := actors[rng.Intn(len(actors))]
		c := rewardContracts[rng.Intn(4)]
		h.send(u, c, types.ZnnTokenStandard, nil, updateData)
		h.out.Count("node:act:update")
	}
}

func znnSupply(nd *Node) *big.Int {
	ti, err := nd.Ch.GetFrontierMomentumStore().GetTokenInfoByTs(types.ZnnTokenStandard)
	if err != nil {
		panic(err)
	}
	return new(big.Int).Set(ti.TotalSupply)
}

func newHist(rng *rand.Rand, out *Out, durSec int64, auto, short bool) *nodeHist {
	setWindows(short)
	if auto {
		types.EmbeddedWUpdate = append([]types.Address{}, defaultWUpdate...)
	} else {
		types.EmbeddedWUpdate = []types.Address{}
	}
	nd := newNodeEpoch(time.Duration(durSec) * time.Second)
	h := &nodeHist{nd: nd, rng: rng, out: out, dur: durSec, genesis: nd.Ch.GetGenesisMomentum().Timestamp.Unix(), short: short, auto: auto,
		addrIdx: map[types.Address]int{}, nameIdx: map[string]int{}, seen: map[types.Address]uint64{},
		minted: map[types.Address]map[types.Address][2]*big.Int{}, liqMint: [2]*big.Int{big.NewInt(0), big.NewInt(0)}, stats: map[uint64]string{},
		pillarStage: map[int]int{}, pillarAt: map[int]uint64{}, sentStage: map[types.Address]int{}, sentAt: map[types.Address]uint64{}}
	for _, c := range rewardContracts {
		h.minted[c] = map[types.Address][2]*big.Int{}
		h.seen[c] = nd.Ch.GetFrontierAccountStore(c).Identifier().Height
	}
	for _, kp := range g.AllKeyPairs {
		h.aidx(kp.Address)
	}
	for _, n := range []string{g.Pillar1Name, g.Pillar2Name, g.Pillar3Name, g.Pillar4Name, g.Pillar5Name, g.Pillar6Name} {
		h.nidx(n)
	}
	h.supply0 = znnSupply(nd)
	return h
}

func nodeHistory(rng *rand.Rand, out *Out) {
	durSec := []int64{600, 600, 600, 900, 900, 1800, 3600}[rng.Intn(7)] // 300 s = one election tick is not supported by consensus/points.go (tick multiplier 1)
	auto := rng.Intn(2) == 0
	short := rng.Intn(2) == 0
	h := newHist(rng, out, durSec, auto, short)
	defer h.nd.Stop()
	out.Count(fmt.Sprintf("node:history:epoch=%ds:auto-update=%v:short-windows=%v", durSec, auto, short))
	perEpoch := durSec / 10
	length := 360 + perEpoch*int64(3+rng.Intn(5))
	if length > 1100 {
		length = 1100
	}
	if length < 700 && rng.Intn(2) == 0 {
		length += 200
	}
	busyUntil := length - 40
	probes := rng.Intn(3) != 0
	h.probes, h.longGaps = probes, true
	// reorganisations across an epoch boundary: around some boundaries nothing is sent for a few slots; once the chain
	// is 1-3 slots into the new epoch (the statistics of the finished epoch may already have been computed and cached
	// on this branch, by the node itself or by a probe) the last momentums - all empty, at least one of them in the
	// finished epoch - are rolled back and replaced by a branch on which a producer misses its slot: the statistics
	// and the rewards of that epoch must be those of the adopted branch (the follower only ever sees that one)
	reorgAt := map[int64]bool{}
	reorgDone := map[int64]bool{}
	nearBoundary := func() (int64, int64) { // (index of the nearest boundary, slots since it; negative = before it)
		sl := (h.nowTs() - h.genesis) / 10
		b := (sl + perEpoch/2) / perEpoch
		return b, sl - b*perEpoch
	}
	for i := int64(0); i < length; i++ {
		bnd, off := nearBoundary()
		if _, ok := reorgAt[bnd]; !ok {
			reorgAt[bnd] = bnd > 0 && rng.Intn(2) == 0
		}
		quiet := reorgAt[bnd] && !reorgDone[bnd] && off >= -7 && off <= 4
		if quiet && off >= 1 {
			reorgDone[bnd] = true
			h.reorgAcrossBoundary(bnd*perEpoch*10 + h.genesis)
		}
		if i < busyUntil && !quiet {
			for k := 0; k < 2; k++ {
				if rng.Intn(5) == 0 {
					h.act()
				}
			}
			if !auto && rng.Intn(40) == 0 {
				for _, c := range rewardContracts {
					h.send(actors[rng.Intn(len(actors))], c, types.ZnnTokenStandard, nil, updateData)
				}
				out.Count("node:act:update-all")
			}
		}
		h.momentum()
		if probes && rng.Intn(25) == 0 {
			probeConsensus(rng, h.nd.Cs, *FrontierOf(h.nd.Ch).Timestamp, out)
		}
	}
	h.finish()
}

// read-only consensus queries (what the RPC layer and its 5-minute cache do on a running node): statistics of the
// running and of earlier epochs, weights, delegations. They must not influence anything the node computes later
// ("the credited amounts are a function of the chain alone"); asked at random moments on the producer and on the
// follower, whose results are compared at the end with a cold consensus module.
func probeConsensus(rng *rand.Rand, cs consensus.Consensus, now time.Time, out *Out) {
	rd := cs.FrontierPillarReader()
	cur := rd.EpochTicker().ToTick(now)
	for k := 0; k < 1+rng.Intn(3); k++ {
		e := cur
		if d := uint64(rng.Intn(3)); d <= e {
			e -= d
		}
		switch rng.Intn(4) {
		case 0, 1:
			_, _ = rd.EpochStats(e)
		case 2:
			_, _ = rd.GetPillarWeights()
		default:
			_, _ = rd.GetPillarDelegationsByEpoch(e)
		}
	}
	// the points behind them, of the previous, the running and the next epoch / election period
	pts := consensus.VerifPoints(cs)
	curP := pts.GetPeriodPoints().ToTick(now)
	for d := uint64(0); d < 3; d++ {
		if rng.Intn(2) == 0 && cur+1 >= d {
			_, _ = pts.GetEpochPoints().GetPoint(cur + 1 - d)
		}
		if rng.Intn(2) == 0 && curP+1 >= d {
			_, _ = pts.GetPeriodPoints().GetPoint(curP + 1 - d)
		}
	}
	out.Count("node:read-only-consensus-probe")
}

// rolls back the last momentums if all of them are empty and the oldest one lies before the epoch boundary, then
// lets a producer miss its slot on the new branch
func (h *nodeHist) reorgAcrossBoundary(boundaryTs int64) {
	st := h.nd.Ch.GetFrontierMomentumStore()
	top := h.height()
	if len(h.nd.Ch.GetAllUncommittedAccountBlocks()) != 0 {
		h.out.Count("node:reorg-skipped:pool-not-empty")
		return
	}
	k := uint64(0)
	crossed := false
	for k < 8 && top-k > 2 {
		m, err := st.GetMomentumByHeight(top - k)
		if err != nil || m == nil || len(m.Content) != 0 {
			break
		}
		k++
		if m.Timestamp.Unix() < boundaryTs {
			crossed = true
			if h.rng.Intn(2) == 0 {
				break
			}
		}
	}
	if !crossed || k == 0 {
		h.out.Count("node:reorg-skipped:momentums-not-empty")
		return
	}
	if err := h.nd.RollbackTo(top - k); err != nil {
		h.out.Oracle(false, "harness-rollback-failed", M{"err": err.Error()})
		return
	}
	mock.VerifInsertMomentumSkipping(h.nd.Z, 1+h.rng.Intn(2))
	h.observe()
	h.out.Count(fmt.Sprintf("node:reorg-across-epoch-boundary:depth=%d", k))
}

// end-of-history oracles
func (h *nodeHist) finish() {
	for i := 0; i < 6; i++ {
		h.nd.Momentum()
		h.observe()
	}
	// minted + still deposited = credited, per contract and address
	for _, c := range rewardContracts[:3] {
		st := h.nd.Ch.GetFrontierAccountStore(c)
		hist := readHistory(st.Storage(), h.aidx)
		credited := map[int][2]*big.Int{}
		for _, l := range hist {
			for _, cr := range l {
				cur, ok := credited[cr.addr]
				if !ok {
					cur = [2]*big.Int{big.NewInt(0), big.NewInt(0)}
				}
				cur[0].Add(cur[0], cr.znn)
				cur[1].Add(cur[1], cr.qsr)
				credited[cr.addr] = cur
			}
		}
		for addr, i := range h.addrIdx {
			cr, ok := credited[i]
			if !ok {
				cr = [2]*big.Int{big.NewInt(0), big.NewInt(0)}
			}
			a := addr
			dep, _ := definition.GetRewardDeposit(st.Storage(), &a)
			m, okm := h.minted[c][addr]
			if !okm {
				m = [2]*big.Int{big.NewInt(0), big.NewInt(0)}
			}
			if !ok && !okm && dep.Znn.Sign() == 0 && dep.Qsr.Sign() == 0 {
				continue
			}
			okc := new(big.Int).Add(m[0], dep.Znn).Cmp(cr[0]) == 0 && new(big.Int).Add(m[1], dep.Qsr).Cmp(cr[1]) == 0
			h.out.Oracle(okc, "minted-plus-deposit-equals-credited",
				M{"contract": contractName[c], "address": I64(int64(i)), "credited_znn": Big(cr[0]), "credited_qsr": Big(cr[1]),
					"minted_znn": Big(m[0]), "minted_qsr": Big(m[1]), "deposit_znn": Big(dep.Znn), "deposit_qsr": Big(dep.Qsr)})
		}
	}
	// ZNN supply grew by exactly what was minted for collected rewards and for the liquidity contract
	want := new(big.Int).Set(h.liqMint[0])
	for _, c := range rewardContracts {
		for _, m := range h.minted[c] {
			want.Add(want, m[0])
		}
	}
	grown := new(big.Int).Sub(znnSupply(h.nd), h.supply0)
	h.out.Oracle(grown.Cmp(want) == 0, "znn-supply-grows-by-collected-rewards", M{"grown": Big(grown), "minted_by_rewards": Big(want)})

	h.follower()

	// the statistics used for the rewards do not depend on the consensus cache: a consensus module with a cold
	// cache over the same chain reports the same statistics
	cs2 := consensus.NewConsensus(db.NewMemDB(), h.nd.Ch, true)
	rd := cs2.FixedPillarReader(h.nd.Ch.GetFrontierMomentumStore().Identifier())
	for e, s := range h.stats {
		st, err := rd.EpochStats(e)
		h.out.Oracle(err == nil && st != nil && statsString(st) == s, "epoch-stats-independent-of-cache", M{"epoch": U64(e), "at_reward_time": s})
	}
}

// ---- the scenario of the defect fixed in /repo a732e8e, on the real node, every run (a revert of the fix fails the
// oracle liquidity-cursor-rewards-every-epoch-it-passes):
// 10-minute epochs, nobody calls Update until 12 epochs are due, then one Update
func liquidityLateUpdate(out *Out) {
	rng := rand.New(rand.NewSource(11))
	h := newHist(rng, out, 600, false, false)
	defer h.nd.Stop()
	for i := 0; i < 60*12+360+3; i++ {
		h.nd.Momentum()
	}
	h.observe()
	h.send(g.User1, types.LiquidityContract, types.ZnnTokenStandard, nil, updateData)
	for i := 0; i < 4; i++ {
		h.nd.Momentum()
		h.observe()
	}
	out.Count("node:repro:liquidity-late-update")
	// a second Update continues after the skipped epoch
	for i := 0; i < int(constants.UpdateMinNumMomentums); i++ {
		h.nd.Momentum()
	}
	h.observe()
	h.send(g.User2, types.LiquidityContract, types.ZnnTokenStandard, nil, updateData)
	for i := 0; i < 4; i++ {
		h.nd.Momentum()
		h.observe()
	}
}

// Update starvation: nobody calls Update of any reward contract until 22-27 epochs (10-minute epochs) are due, a few
// stakes / a sentinel registered early so that every contract has something to reward; then the Updates arrive. The
// per-update oracles of observeReceive (cursor-rewards-all-due-epochs, the per-epoch comparison of the credits with
// the model for EVERY epoch the cursor passes, reward-history-changes-only-for-epochs-passed-now) then see a cursor
// that has to cross more than 20 epochs in one go (or in several bounded Updates, each of which must reward what it passes).
func starvedUpdates(rng *rand.Rand, out *Out) {
	h := newHist(rng, out, 600, false, true)
	defer h.nd.Stop()
	for i := 0; i < 4; i++ {
		h.act()
		h.momentum()
	}
	due := 22 + rng.Intn(6)
	for i := 0; i < 60*due+360+3; i++ {
		h.nd.Momentum()
	}
	h.observe()
	out.Count(fmt.Sprintf("node:starved-updates:epochs-due=%d", due))
	for round := 0; round < 3; round++ {
		for _, c := range rewardContracts {
			h.send(actors[rng.Intn(len(actors))], c, types.ZnnTokenStandard, nil, updateData)
		}
		for i := 0; i < 4; i++ {
			h.nd.Momentum()
			h.observe()
		}
		for i := 0; i < int(constants.UpdateMinNumMomentums); i++ {
			h.nd.Momentum()
		}
		h.observe()
	}
}

// "identical on all nodes": a second node (chain + consensus + verifier + vm, no pillars) with a cold consensus
// cache is fed the producer's chain through ChainBridge.InsertChain in batches. It re-executes every contract
// receive (an Update whose credits differed would fail verification: changes hash) and must end with exactly the
// same cursors, reward histories, deposits and epoch statistics.
func (h *nodeHist) follower() {
	f := OpenBare("")
	defer f.Destroy()
	top := h.nd.FrontierHeight()
	okChain := true
	for lo := uint64(2); lo <= top; {
		hi := lo + uint64(40+h.rng.Intn(260))
		if h.rng.Intn(3) == 0 {
			hi = lo + uint64(h.rng.Intn(40))
		}
		if hi > top {
			hi = top
		}
		ds := WireCopyAll(DetailedRange(h.nd.Ch, lo, hi))
		if _, err := f.Br.InsertChain(ds); err != nil {
			okChain = false
			h.out.Oracle(false, "follower-accepts-the-producers-chain", M{"from": U64(lo), "to": U64(hi), "error": err.Error()})
			break
		}
		lo = hi + 1
		if h.rng.Intn(2) == 0 {
			probeConsensus(h.rng, f.Cs, *f.Frontier().Timestamp, h.out)
		}
	}
	if !okChain {
		return
	}
	h.out.Oracle(f.Frontier().Hash == FrontierOf(h.nd.Ch).Hash, "follower-accepts-the-producers-chain", M{"height": U64(top)})
	for _, c := range rewardContracts {
		ps, fs := h.nd.Ch.GetFrontierAccountStore(c), f.Ch.GetFrontierAccountStore(c)
		a, b := h.readState(ps), h.readState(fs)
		same := a.last == b.last && len(a.hist) == len(b.hist)
		fa, fb := flatten(a.hist), flatten(b.hist)
		if len(fa) != len(fb) {
			same = false
		}
		for k, x := range fa {
			y, ok := fb[k]
			if !ok || x.znn.Cmp(y.znn) != 0 || x.qsr.Cmp(y.qsr) != 0 {
				same = false
			}
		}
		for addr := range h.addrIdx {
			ad := addr
			d1, _ := definition.GetRewardDeposit(ps.Storage(), &ad)
			d2, _ := definition.GetRewardDeposit(fs.Storage(), &ad)
			if d1.Znn.Cmp(d2.Znn) != 0 || d1.Qsr.Cmp(d2.Qsr) != 0 {
				same = false
			}
		}
		h.out.Oracle(same, "follower-credits-identical-rewards", M{"contract": contractName[c], "cursor_producer": I64(a.last), "cursor_follower": I64(b.last),
			"entries_producer": I64(int64(len(fa))), "entries_follower": I64(int64(len(fb)))})
	}
	rd := f.Cs.FixedPillarReader(f.Ch.GetFrontierMomentumStore().Identifier())
	for e, s := range h.stats {
		st, err := rd.EpochStats(e)
		h.out.Oracle(err == nil && st != nil && statsString(st) == s, "follower-computes-identical-epoch-statistics", M{"epoch": U64(e), "producer": s})
	}
	h.out.Count("node:follower-synced")
}
