package main

import . "zharness/hz"

// c11: rewards. "formulas" drives the real reward code of /repo over synthetic contexts (real storage,
// fake consensus reader / momentum time), "node" drives a real node over several short epochs.
func main() {
	Main(map[string]Runner{"formulas": runFormulas, "node": runNode, "nodeworker": runNodeWorker})
}
