package main

// Update calls that issue SEVERAL epochs at once, with the batch placed around every epoch at which an emission
// changes (constants.RewardTickDurationInEpochs = 30 epochs per reward tick: epoch 30, 60, ... up to one tick behind
// the end of the longer table). The REAL update routines (updatePillar/Stake/SentinelRewards, updateLiquidityRewards,
// updateLiquidityStakeRewards) run on real contract storage with a fake consensus reader / momentum time.
//
// The property's own statement, per epoch of the batch: what the contract credits for epoch e stays within the
// emission OF e (the liquidity contract before the spork mints exactly that amount, after the spork credited + minted
// - burned is exactly that amount), the cursor passes exactly the due epochs, and - "for all timings of the Update
// calls ... the credited amounts are a function of the chain alone" - the very same storage rewarded one epoch per
// call gets the same per-epoch credits as in one batch.

import (
	"fmt"
	"math/big"
	"math/rand"
	"time"
	. "zharness/hz"

	"github.com/zenon-network/go-zenon/chain/account"
	"github.com/zenon-network/go-zenon/chain/nom"
	"github.com/zenon-network/go-zenon/chain/store"
	"github.com/zenon-network/go-zenon/common"
	"github.com/zenon-network/go-zenon/common/db"
	"github.com/zenon-network/go-zenon/common/types"
	"github.com/zenon-network/go-zenon/consensus/api"
	"github.com/zenon-network/go-zenon/vm/constants"
	"github.com/zenon-network/go-zenon/vm/embedded/definition"
	"github.com/zenon-network/go-zenon/vm/embedded/implementation"
	"github.com/zenon-network/go-zenon/vm/vm_context"
)

// every first epoch of a reward tick, one tick beyond the longer table; those where an amount really changes twice
func emissionBoundaries() []int64 {
	n := len(constants.NetworkZnnRewardConfig)
	if len(constants.NetworkQsrRewardConfig) > n {
		n = len(constants.NetworkQsrRewardConfig)
	}
	var r []int64
	for t := 1; t <= n+1; t++ {
		b := uint64(t) * constants.RewardTickDurationInEpochs
		r = append(r, int64(b))
		if constants.NetworkZnnRewardPerEpoch(b) != constants.NetworkZnnRewardPerEpoch(b-1) || constants.NetworkQsrRewardPerEpoch(b) != constants.NetworkQsrRewardPerEpoch(b-1) {
			r = append(r, int64(b))
		}
	}
	return r
}

// a batch of k epochs first..first+k-1 whose position relative to a boundary B is: some epoch of the batch is B+delta,
// delta in -2..+2 (so batches ending just before, straddling, and starting just behind the boundary all occur)
func genBatch(rng *rand.Rand, sizes ...int64) (first, k, boundary int64) {
	bs := emissionBoundaries()
	boundary = bs[rng.Intn(len(bs))]
	k = sizes[rng.Intn(len(sizes))]
	first = boundary + int64(rng.Intn(5)) - 2 - int64(rng.Intn(int(k)))
	if first < 0 {
		first = 0
	}
	return
}

// the per-epoch correspondence cases of a long batch are emitted for its first and last epoch and for the epochs
// next to the boundary (the oracles look at every epoch)
func (b *batchEnv) caseFor(e, last int64) bool {
	if !batchCases {
		return false
	}
	d := e - b.boundary
	return e == b.first || e == last || (d >= -2 && d <= 2)
}

func batchTag(first, k, boundary int64) string {
	pos := "straddles"
	switch {
	case first+k-1 < boundary:
		pos = "before"
	case first >= boundary:
		pos = "behind"
	}
	return fmt.Sprintf("batch-%s-boundary:epochs=%d", pos, min64(k, 11))
}

func synthStore(contract types.Address) store.Account {
	return account.NewAccountStore(contract, db.NewMemDB())
}
func synthContextOn(st store.Account, now int64, height uint64, rd *fakeReader) vm_context.AccountVmContext {
	ts := time.Unix(now, 0)
	return vm_context.NewAccountContext(&fakeMS{m: &nom.Momentum{Height: height, Timestamp: &ts}}, st, rd)
}

type batchEnv struct {
	g, dur, first, k, boundary, now int64
	rd                              *fakeReader
}

func newBatchEnv(rng *rand.Rand, sizes ...int64) *batchEnv {
	b := &batchEnv{g: 1000000000, dur: genDur(rng)}
	b.first, b.k, b.boundary = genBatch(rng, sizes...)
	// exactly the epochs first..first+k-1 are due: the end of epoch first+k-1 lies RewardTimeLimit (+ less than an epoch) back
	b.now = b.g + b.dur*(b.first+b.k) + constants.RewardTimeLimit + pick64(rng, 0, 0, 1, b.dur-1, b.dur/2)
	b.rd = &fakeReader{ticker: common.NewTicker(time.Unix(b.g, 0), time.Duration(b.dur)*time.Second),
		stats: map[uint64]*api.EpochStats{}, deleg: map[uint64]map[string]*types.PillarDelegationDetail{}}
	return b
}
func (b *batchEnv) span(e int64) (int64, int64) { return b.g + b.dur*e, b.g + b.dur*(e+1) }
func (b *batchEnv) saveCursor(st store.Account) {
	if b.first > 0 {
		if err := (&definition.LastEpochUpdate{LastEpoch: b.first - 1}).Save(st.Storage()); err != nil {
			panic(err)
		}
	}
}

// the cursor after the batch: exactly the due epochs were passed
func (b *batchEnv) cursorOracles(out *Out, contract string, newLast int64) {
	out.Oracle(newLast == b.first+b.k-1, "cursor-rewards-all-due-epochs",
		M{"where": "batch", "contract": contract, "last": I64(b.first - 1), "new_last": I64(newLast), "now": I64(b.now), "genesis": I64(b.g), "epoch_duration": I64(b.dur)})
}

// a time in or around the epochs of the batch
func (b *batchEnv) genTimeIn(rng *rand.Rand) int64 {
	e := b.first + int64(rng.Intn(int(b.k)+2)) - 1
	s0, _ := b.span(e)
	switch rng.Intn(5) {
	case 0:
		return s0
	case 1:
		return s0 + int64(rng.Intn(3)) - 1
	case 2:
		return s0 + b.dur/10 + int64(rng.Intn(3)) - 1
	default:
		return s0 + rng.Int63n(b.dur)
	}
}

func sameHistory(a, b map[uint64][]credit) (bool, uint64) {
	for e, la := range a {
		lb := b[e]
		if len(la) != len(lb) {
			return false, e
		}
		for i := range la {
			if la[i].addr != lb[i].addr || la[i].znn.Cmp(lb[i].znn) != 0 || la[i].qsr.Cmp(lb[i].qsr) != 0 {
				return false, e
			}
		}
	}
	for e := range b {
		if _, ok := a[e]; !ok {
			return false, e
		}
	}
	return true, 0
}

// the same storage, rewarded with one Update per epoch (now moved from epoch to epoch), against the batch
func (b *batchEnv) oneByOne(out *Out, contract types.Address, name string, setup func(store.Account), update func(vm_context.AccountVmContext) error, batch map[uint64][]credit, batchLast int64) {
	st := synthStore(contract)
	setup(st)
	for i := int64(0); i < b.k; i++ {
		now := b.g + b.dur*(b.first+i+1) + constants.RewardTimeLimit
		ctx := synthContextOn(st, now, 100000+uint64(i), b.rd)
		if s := status(func() error { return update(ctx) }); s != 0 {
			out.Oracle(false, "batch-update-failed", M{"contract": name, "status": I64(s), "one_by_one": true})
			return
		}
	}
	single := readHistory(st.Storage(), synthIdx)
	same, e := sameHistory(batch, single)
	out.Oracle(same && lastEpochOf(st.Storage()) == batchLast, "credits-independent-of-update-batching",
		M{"contract": name, "first_epoch": I64(b.first), "epochs": I64(b.k), "differing_epoch": U64(e), "epoch_duration": I64(b.dur), "now": I64(b.now),
			"in_one_batch": credTermBoth(batch[e]), "one_update_per_epoch": credTermBoth(single[e])})
}

func credTermBoth(cs []credit) []interface{} {
	l := Lst()
	for _, c := range cs {
		l = append(l, Tup(I64(int64(c.addr)), Big(c.znn), Big(c.qsr)))
	}
	return l
}

// the oracles run on every batch; the correspondence cases with the model are emitted for every other one
var batchCases = true

func runBatches(rng *rand.Rand, out *Out, withCases bool) {
	batchCases = withCases
	batchStake(rng, out)
	batchSentinel(rng, out)
	batchPillar(rng, out)
	batchLiquidity(rng, out)
	batchLiquidityStake(rng, out)
}

// ---- stake
func batchStake(rng *rand.Rand, out *Out) {
	b := newBatchEnv(rng, 1, 2, 3, 7, 7, 12, 12, 25)
	n := 1 + rng.Intn(5)
	var entries []*definition.StakeInfo
	for i := 0; i < n; i++ {
		st, rv := b.genTimeIn(rng), int64(0)
		if rng.Intn(3) == 0 {
			st = b.g // staked since genesis
		}
		if rng.Intn(3) == 0 {
			rv = b.genTimeIn(rng)
		}
		wa := genAmount(rng)
		if wa.Sign() == 0 {
			wa = big.NewInt(int64(1 + rng.Intn(1000)))
		}
		var id types.Hash
		id[0], id[1] = byte(i), 0x33
		entries = append(entries, &definition.StakeInfo{Amount: wa, WeightedAmount: wa, StartTime: st, RevokeTime: rv, ExpirationTime: st + 1000,
			StakeAddress: synthAddr(300 + rng.Intn(4)), Id: id})
	}
	setup := func(st store.Account) {
		b.saveCursor(st)
		for _, e := range entries {
			if err := e.Save(st.Storage()); err != nil {
				panic(err)
			}
		}
	}
	st := synthStore(types.StakeContract)
	setup(st)
	ctx := synthContextOn(st, b.now, 100000, b.rd)
	if s := status(func() error { return implementation.VerifUpdateStakeRewards(ctx) }); s != 0 {
		if s == 2 {
			out.Oracle(false, "reward-routine-panics", M{"routine": "updateStakeRewards", "first_epoch": I64(b.first), "epochs": I64(b.k)})
		}
		out.Oracle(false, "batch-update-failed", M{"contract": "stake", "status": I64(s)})
		return
	}
	hist := readHistory(st.Storage(), synthIdx)
	newLast := lastEpochOf(st.Storage())
	b.cursorOracles(out, "stake", newLast)
	cur := entries
	for e := b.first; e <= newLast; e++ {
		s0, e0 := b.span(e)
		credits := hist[uint64(e)]
		lt := Lst()
		for _, s := range cur {
			lt = append(lt, Tup(I64(s.StartTime), I64(s.RevokeTime), Big(s.WeightedAmount), I64(int64(synthIdx(s.StakeAddress)))))
		}
		var rest []*definition.StakeInfo
		if len(credits) == 0 {
			rest = cur
		} else {
			for _, s := range cur {
				if !(s.RevokeTime != 0 && s.RevokeTime < e0) {
					rest = append(rest, s)
				}
			}
		}
		left := len(rest)
		if e == newLast {
			left = 0
			definition.IterateStakeEntries(st.Storage(), func(*definition.StakeInfo) error { left++; return nil })
		}
		if b.caseFor(e, newLast) {
			out.Case("stake_epoch", Tup(U64(uint64(e)), I64(s0), I64(e0), lt), Tup(I64(0), credTerm(credits, false), I64(int64(left))), batchTag(b.first, b.k, b.boundary))
		}
		z, q := sumCredits(credits)
		out.Oracle(q.Cmp(constants.StakeQsrRewardPerEpoch(uint64(e))) <= 0 && z.Sign() == 0, "stake-credits-within-emission",
			M{"where": "batch", "epoch": I64(e), "first_epoch": I64(b.first), "epochs": I64(b.k), "credited": Big(q), "bound": Big(constants.StakeQsrRewardPerEpoch(uint64(e)))})
		cur = rest
	}
	b.oneByOne(out, types.StakeContract, "stake", setup, implementation.VerifUpdateStakeRewards, hist, newLast)
	out.Count("batch:stake:" + batchTag(b.first, b.k, b.boundary))
}

// ---- sentinel
func batchSentinel(rng *rand.Rand, out *Out) {
	b := newBatchEnv(rng, 1, 2, 3, 7, 7, 12, 12, 25)
	n := 1 + rng.Intn(5)
	var entries []*definition.SentinelInfo
	for i := 0; i < n; i++ {
		rg, rv := b.genTimeIn(rng), int64(0)
		if rng.Intn(2) == 0 {
			rg = b.g
		}
		if rng.Intn(3) == 0 {
			rv = b.genTimeIn(rng)
		}
		entries = append(entries, &definition.SentinelInfo{SentinelInfoKey: definition.SentinelInfoKey{Owner: synthAddr(400 + i)}, RegistrationTimestamp: rg, RevokeTimestamp: rv,
			ZnnAmount: big.NewInt(1), QsrAmount: big.NewInt(1)})
	}
	setup := func(st store.Account) {
		b.saveCursor(st)
		for _, e := range entries {
			e.Save(st.Storage())
		}
	}
	st := synthStore(types.SentinelContract)
	setup(st)
	ctx := synthContextOn(st, b.now, 100000, b.rd)
	if s := status(func() error { return implementation.VerifUpdateSentinelRewards(ctx) }); s != 0 {
		if s == 2 {
			out.Oracle(false, "reward-routine-panics", M{"routine": "updateSentinelRewards", "first_epoch": I64(b.first), "epochs": I64(b.k)})
		}
		out.Oracle(false, "batch-update-failed", M{"contract": "sentinel", "status": I64(s)})
		return
	}
	hist := readHistory(st.Storage(), synthIdx)
	newLast := lastEpochOf(st.Storage())
	b.cursorOracles(out, "sentinel", newLast)
	lt := Lst()
	for _, s := range entries {
		lt = append(lt, Tup(I64(s.RegistrationTimestamp), I64(s.RevokeTimestamp), I64(int64(synthIdx(s.Owner)))))
	}
	for e := b.first; e <= newLast; e++ {
		s0, e0 := b.span(e)
		credits := hist[uint64(e)]
		if b.caseFor(e, newLast) {
			out.Case("sentinel_epoch", Tup(U64(uint64(e)), I64(s0), I64(e0), lt), Tup(I64(0), credTerm(credits, true), credTerm(credits, false)), batchTag(b.first, b.k, b.boundary))
		}
		z, q := sumCredits(credits)
		bz, bq := constants.SentinelRewardForEpoch(uint64(e))
		out.Oracle(z.Cmp(bz) <= 0 && q.Cmp(bq) <= 0, "sentinel-credits-within-emission",
			M{"where": "batch", "epoch": I64(e), "first_epoch": I64(b.first), "epochs": I64(b.k), "znn": Big(z), "qsr": Big(q), "bound_znn": Big(bz), "bound_qsr": Big(bq)})
	}
	b.oneByOne(out, types.SentinelContract, "sentinel", setup, implementation.VerifUpdateSentinelRewards, hist, newLast)
	out.Count("batch:sentinel:" + batchTag(b.first, b.k, b.boundary))
}

// ---- pillars: well-formed statistics and delegation details for every epoch of the batch
func batchPillar(rng *rand.Rand, out *Out) {
	b := newBatchEnv(rng, 1, 2, 3, 7, 12)
	np := 1 + rng.Intn(4)
	type pinf struct {
		nm, gb, gd, addr int
	}
	var infos []pinf
	ninfo := np + rng.Intn(2) // sometimes a pillar that was registered later: no statistics, no reward
	for nm := 0; nm < ninfo; nm++ {
		gb, gd := rng.Intn(101), rng.Intn(101)
		switch rng.Intn(5) {
		case 0:
			gb, gd = 0, 100
		case 1:
			gb, gd = 100, 100
		case 2:
			gb, gd = 0, 0
		}
		infos = append(infos, pinf{nm, gb, gd, 10 + nm})
	}
	statsOf := map[int64]*synthStats{}
	dterms := map[int64][]interface{}{}
	for e := b.first; e < b.first+b.k; e++ {
		st := &synthStats{epoch: uint64(e), wf: true}
		sum := big.NewInt(0)
		for i := 0; i < np; i++ {
			exp := uint64(1 + rng.Intn(300))
			if rng.Intn(6) == 0 {
				exp = 0
			}
			prod := exp
			if exp > 0 && rng.Intn(2) == 0 {
				prod = uint64(rng.Int63n(int64(exp) + 1))
			}
			w := genAmount(rng)
			st.names, st.prod, st.exp, st.wgt = append(st.names, i), append(st.prod, prod), append(st.exp, exp), append(st.wgt, w)
			sum.Add(sum, w)
		}
		st.tw = sum
		if rng.Intn(4) == 0 {
			st.tw = new(big.Int).Add(sum, genAmount(rng))
		}
		statsOf[e] = st
		b.rd.stats[uint64(e)] = st.api()
		details := map[string]*types.PillarDelegationDetail{}
		dt := Lst()
		for i := 0; i < np; i++ {
			if rng.Intn(4) == 0 {
				continue
			}
			d := &types.PillarDelegationDetail{Backers: map[types.Address]*big.Int{}}
			d.Name, d.Weight = pillarName(i), big.NewInt(0)
			bt := Lst()
			for j := 0; j < rng.Intn(4); j++ {
				a := 200 + rng.Intn(8)
				if _, ok := d.Backers[synthAddr(a)]; ok {
					continue
				}
				amt := genAmount(rng)
				d.Backers[synthAddr(a)] = amt
				bt = append(bt, Tup(I64(int64(a)), Big(amt)))
			}
			details[d.Name] = d
			dt = append(dt, Tup(I64(int64(i)), bt))
		}
		b.rd.deleg[uint64(e)] = details
		dterms[e] = dt
	}
	setup := func(st store.Account) {
		b.saveCursor(st)
		for _, p := range infos {
			pi := &definition.PillarInfo{Name: pillarName(p.nm), BlockProducingAddress: synthAddr(500 + p.nm), StakeAddress: synthAddr(600 + p.nm),
				RewardWithdrawAddress: synthAddr(p.addr), Amount: big.NewInt(0), GiveBlockRewardPercentage: uint8(p.gb), GiveDelegateRewardPercentage: uint8(p.gd),
				PillarType: definition.NormalPillarType}
			if err := pi.Save(st.Storage()); err != nil {
				panic(err)
			}
		}
	}
	st := synthStore(types.PillarContract)
	setup(st)
	ctx := synthContextOn(st, b.now, 100000, b.rd)
	if s := status(func() error { return implementation.VerifUpdatePillarRewards(ctx) }); s != 0 {
		if s == 2 {
			out.Oracle(false, "reward-routine-panics", M{"routine": "updatePillarRewards", "first_epoch": I64(b.first), "epochs": I64(b.k)})
		}
		out.Oracle(false, "batch-update-failed", M{"contract": "pillar", "status": I64(s)})
		return
	}
	hist := readHistory(st.Storage(), synthIdx)
	newLast := lastEpochOf(st.Storage())
	b.cursorOracles(out, "pillar", newLast)
	it := Lst()
	for _, p := range infos {
		it = append(it, Tup(I64(int64(p.nm)), I64(int64(p.gb)), I64(int64(p.gd)), I64(int64(p.addr))))
	}
	for e := b.first; e <= newLast && e < b.first+b.k; e++ {
		sst := statsOf[e]
		ep, tw, ps := sst.term()
		credits := hist[uint64(e)]
		if b.caseFor(e, newLast) {
			out.Case("pillar_epoch", Tup(ep, tw, ps, it, dterms[e]), Tup(I64(0), credTerm(credits, true)), batchTag(b.first, b.k, b.boundary))
		}
		d, bb := constants.PillarRewardPerMomentum(uint64(e))
		bound := new(big.Int).Add(d, bb)
		bound.Mul(bound, new(big.Int).SetUint64(sst.totalExpected()))
		z, q := sumCredits(credits)
		out.Oracle(z.Cmp(bound) <= 0 && q.Sign() == 0, "pillar-credits-within-emission",
			M{"where": "batch", "epoch": I64(e), "first_epoch": I64(b.first), "epochs": I64(b.k), "credited": Big(z), "bound": Big(bound)})
	}
	b.oneByOne(out, types.PillarContract, "pillar", setup, implementation.VerifUpdatePillarRewards, hist, newLast)
	out.Count("batch:pillar:" + batchTag(b.first, b.k, b.boundary))
}

// ---- liquidity contract before the bridge-and-liquidity spork: two Mint blocks per issued epoch, at most
// MaxEpochsPerUpdate/2 epochs per call; further calls at the same momentum time continue where the call before stopped
func batchLiquidity(rng *rand.Rand, out *Out) {
	perCall := int64(constants.MaxEpochsPerUpdate / 2)
	b := newBatchEnv(rng, 1, 2, 3, 7, perCall, perCall+4)
	st := synthStore(types.LiquidityContract)
	b.saveCursor(st)
	issued := map[int64][2]*big.Int{}
	for call := 0; call < 3; call++ {
		last := lastEpochOf(st.Storage())
		ctx := synthContextOn(st, b.now, 100000+uint64(call), b.rd)
		var blocks []*nom.AccountBlock
		if s := status(func() error {
			var err error
			blocks, err = implementation.VerifUpdateLiquidityRewardsBlocks(ctx)
			return err
		}); s != 0 {
			if s == 2 {
				out.Oracle(false, "reward-routine-panics", M{"routine": "updateLiquidityRewards", "first_epoch": I64(b.first), "epochs": I64(b.k)})
			}
			out.Oracle(false, "batch-update-failed", M{"contract": "liquidity", "status": I64(s)})
			return
		}
		newLast := lastEpochOf(st.Storage())
		mints, okShape := mintsOf(blocks, types.LiquidityContract)
		okShape = okShape && len(blocks)%2 == 0
		rewarded := int64(len(blocks) / 2)
		ms, eps := Lst(), Lst()
		for i := int64(0); i < rewarded; i++ {
			e := last + 1 + i
			var amt [2]*big.Int
			for t := 0; t < 2; t++ {
				p := new(definition.MintParam)
				if err := definition.ABIToken.UnpackMethod(p, definition.MintMethodName, blocks[2*i+int64(t)].Data); err != nil {
					panic(err)
				}
				amt[t] = p.Amount
				if (t == 0) != (p.TokenStandard == types.ZnnTokenStandard) || (t == 1) != (p.TokenStandard == types.QsrTokenStandard) {
					okShape = false
				}
			}
			issued[e] = amt
			ms = append(ms, Tup(I64(e), Tup(Big(amt[0]), Big(amt[1]))))
			eps = append(eps, I64(e))
			z, q := constants.LiquidityRewardForEpoch(uint64(e))
			detail := M{"where": "batch", "epoch": I64(e), "last_before": I64(last), "epochs_in_call": I64(rewarded), "minted_znn": Big(amt[0]), "minted_qsr": Big(amt[1]),
				"emission_znn": Big(z), "emission_qsr": Big(q), "now": I64(b.now), "genesis": I64(b.g), "epoch_duration": I64(b.dur)}
			out.Oracle(amt[0].Cmp(z) <= 0 && amt[1].Cmp(q) <= 0, "liquidity-credits-within-emission", detail)
			out.Oracle(amt[0].Cmp(z) == 0 && amt[1].Cmp(q) == 0, "liquidity-mints-the-epoch-amounts", detail)
		}
		_ = mints
		out.Oracle(okShape && newLast-last == rewarded, "liquidity-cursor-rewards-every-epoch-it-passes",
			M{"where": "batch", "last": I64(last), "new_last": I64(newLast), "rewarded_epochs": I64(rewarded), "now": I64(b.now), "genesis": I64(b.g), "epoch_duration": I64(b.dur)})
		tag := batchTag(last+1, rewarded, b.boundary)
		if rewarded == 0 {
			tag = "batch-nothing-due"
		}
		if batchCases {
			out.Case("liq_update", Tup(I64(b.g), I64(b.dur), I64(b.now), I64(last)), Tup(I64(0), ms, I64(newLast)), tag)
			out.Case("cursor", Tup(I64(1), I64(b.g), I64(b.dur), I64(b.now), I64(last)), Tup(eps, I64(newLast)), "liquidity-"+tag)
		}
		if rewarded < perCall && rng.Intn(4) != 0 {
			break // nothing more is due (sometimes asked anyway: the call issues nothing)
		}
	}
	b.cursorOracles(out, "liquidity", lastEpochOf(st.Storage()))
	// one call per epoch issues the same amounts
	st2 := synthStore(types.LiquidityContract)
	b.saveCursor(st2)
	same := true
	var bad int64
	for i := int64(0); i < b.k; i++ {
		ctx := synthContextOn(st2, b.g+b.dur*(b.first+i+1)+constants.RewardTimeLimit, 200000+uint64(i), b.rd)
		blocks, err := implementation.VerifUpdateLiquidityRewardsBlocks(ctx)
		ms, _ := mintsOf(blocks, types.LiquidityContract)
		amt, ok := issued[b.first+i]
		if err != nil || len(ms) != 2 || !ok || fmt.Sprint(ms[0]) != fmt.Sprint(Tup(I64(0), Big(amt[0]))) || fmt.Sprint(ms[1]) != fmt.Sprint(Tup(I64(1), Big(amt[1]))) {
			same, bad = false, b.first+i
		}
	}
	out.Oracle(same, "credits-independent-of-update-batching", M{"contract": "liquidity", "first_epoch": I64(b.first), "epochs": I64(b.k), "differing_epoch": I64(bad)})
	out.Count("batch:liquidity:" + batchTag(b.first, b.k, b.boundary))
}

// ---- liquidity contract after the spork: one epoch per call; k calls at the same momentum time walk over the boundary
func batchLiquidityStake(rng *rand.Rand, out *Out) {
	b := newBatchEnv(rng, 1, 2, 3, 7)
	st := synthStore(types.LiquidityContract)
	b.saveCursor(st)
	extraZ, extraQ := big.NewInt(0), big.NewInt(0)
	if rng.Intn(3) == 0 {
		extraZ, extraQ = genAmount(rng), genAmount(rng)
	}
	balZ, balQ := new(big.Int).Add(extraZ, genAmount(rng)), new(big.Int).Add(extraQ, genAmount(rng))
	if rng.Intn(4) == 0 {
		balZ = big.NewInt(0)
	}
	if err := st.SetBalance(types.ZnnTokenStandard, balZ); err != nil {
		panic(err)
	}
	if err := st.SetBalance(types.QsrTokenStandard, balQ); err != nil {
		panic(err)
	}
	halted := rng.Intn(10) == 0
	info := &definition.LiquidityInfo{Administrator: synthAddr(1), IsHalted: halted, ZnnReward: extraZ, QsrReward: extraQ}
	tt := Lst()
	nt := rng.Intn(3)
	for i := 0; i < nt; i++ {
		zp, qp := uint32(rng.Intn(5001)), uint32(rng.Intn(5001))
		if rng.Intn(3) == 0 {
			zp, qp = 5000, 5000
		}
		info.TokenTuples = append(info.TokenTuples, definition.TokenTuple{TokenStandard: synthZts(i).String(), ZnnPercentage: zp, QsrPercentage: qp, MinAmount: big.NewInt(1)})
		tt = append(tt, Tup(I64(int64(i)), I64(int64(zp)), I64(int64(qp))))
	}
	v, err := definition.EncodeLiquidityInfo(info)
	if err != nil {
		panic(err)
	}
	if err := v.Save(st.Storage()); err != nil {
		panic(err)
	}
	n := rng.Intn(5)
	lt := Lst()
	for i := 0; i < n; i++ {
		start := b.genTimeIn(rng)
		if rng.Intn(2) == 0 {
			start = b.g
		}
		wa := big.NewInt(int64(1 + rng.Intn(100000)))
		tok := rng.Intn(3)
		addr := 300 + rng.Intn(4)
		var id types.Hash
		id[0], id[1] = byte(i), 0x44
		en := &definition.LiquidityStakeEntry{Amount: wa, TokenStandard: synthZts(tok), WeightedAmount: wa, StartTime: start, RevokeTime: 0, ExpirationTime: start + 1000,
			StakeAddress: synthAddr(addr), Id: id}
		if err := en.Save(st.Storage()); err != nil {
			panic(err)
		}
		lt = append(lt, Tup(I64(int64(tok)), I64(start), I64(0), Big(wa), I64(int64(addr))))
	}
	for i := int64(0); i < b.k; i++ {
		e := b.first + i
		ctx := synthContextOn(st, b.now, 100000+uint64(i), b.rd)
		var blocks []*nom.AccountBlock
		s := status(func() error {
			var err error
			blocks, err = implementation.VerifUpdateLiquidityStakeRewardsBlocks(ctx)
			return err
		})
		if s != 0 {
			if s == 2 {
				out.Oracle(false, "reward-routine-panics", M{"routine": "updateLiquidityStakeRewards", "epoch": I64(e)})
			}
			out.Oracle(false, "batch-update-failed", M{"contract": "liquidity-stake", "status": I64(s)})
			return
		}
		newLast := lastEpochOf(st.Storage())
		out.Oracle(newLast == e, "liquidity-cursor-rewards-every-epoch-it-passes",
			M{"where": "batch, after the spork", "last": I64(e - 1), "new_last": I64(newLast), "now": I64(b.now), "genesis": I64(b.g), "epoch_duration": I64(b.dur)})
		if b.caseFor(e, b.first+b.k-1) {
			out.Case("cursor", Tup(I64(2), I64(b.g), I64(b.dur), I64(b.now), I64(e-1)), Tup(Lst(I64(e)), I64(newLast)), "liquidity-stake-"+batchTag(b.first, b.k, b.boundary))
		}
		cs := readHistory(st.Storage(), synthIdx)[uint64(e)]
		burn := [2]*big.Int{big.NewInt(0), big.NewInt(0)}
		mint := [2]*big.Int{big.NewInt(0), big.NewInt(0)}
		okShape := true
		for _, bl := range blocks {
			k := 0
			if bl.ToAddress != types.TokenContract {
				okShape = false
			}
			if bl.Amount.Sign() > 0 {
				if bl.TokenStandard == types.QsrTokenStandard {
					k = 1
				} else if bl.TokenStandard != types.ZnnTokenStandard {
					okShape = false
				}
				burn[k].Add(burn[k], bl.Amount)
				continue
			}
			p := new(definition.MintParam)
			if err := definition.ABIToken.UnpackMethod(p, definition.MintMethodName, bl.Data); err != nil || p.ReceiveAddress != types.LiquidityContract {
				okShape = false
				continue
			}
			if p.TokenStandard == types.QsrTokenStandard {
				k = 1
			}
			mint[k].Add(mint[k], p.Amount)
		}
		s0, e0 := b.span(e)
		if b.caseFor(e, b.first+b.k-1) {
			out.Case("liq_stake_epoch", Tup(U64(uint64(e)), I64(s0), I64(e0), halted, Tup(Big(balZ), Big(balQ), Big(extraZ), Big(extraQ)), tt, lt),
				Tup(I64(0), credTerm(cs, true), credTerm(cs, false), Tup(Big(burn[0]), Big(burn[1])), Tup(Big(mint[0]), Big(mint[1])), I64(int64(n))), batchTag(b.first, b.k, b.boundary))
		}
		z, q := sumCredits(cs)
		lz, lq := constants.LiquidityRewardForEpoch(uint64(e))
		netZ := new(big.Int).Sub(new(big.Int).Add(z, mint[0]), burn[0])
		netQ := new(big.Int).Sub(new(big.Int).Add(q, mint[1]), burn[1])
		okB := z.Cmp(new(big.Int).Add(lz, burn[0])) <= 0 && q.Cmp(new(big.Int).Add(lq, burn[1])) <= 0
		out.Oracle(okShape && okB && netZ.Cmp(lz) == 0 && netQ.Cmp(lq) == 0, "liquidity-stake-epoch-issues-exactly-the-share",
			M{"where": "batch", "epoch": I64(e), "credited_znn": Big(z), "credited_qsr": Big(q), "minted_znn": Big(mint[0]), "minted_qsr": Big(mint[1]),
				"burned_znn": Big(burn[0]), "burned_qsr": Big(burn[1]), "share_znn": Big(lz), "share_qsr": Big(lq)})
	}
	out.Count("batch:liquidity-stake:" + batchTag(b.first, b.k, b.boundary))
}
