package main

// The consensus statistics behind the pillar rewards (consensus/points.go) on a real node that is ASKED AT EVERY
// MOMENTUM for the running, the previous and the next epoch / election period, on chains with gaps of every kind
// (gapPlan in twin.go: whole empty periods at the end / beginning / middle of an epoch, empty epochs), compared
//   - with the model coq/theories/Points.v through the tie function `points` (TiePoints.points_run: the same history of
//     insertions and queries replayed on the model node with its two caches; C11_statistics_identical_on_all_nodes /
//     C06_points_coherent are theorems about that model), and
//   - by an oracle of the statement itself, with a consensus module that has an empty DB over the very same chain:
//     every answer - in particular the one for an epoch that has finished meanwhile and was asked for while it was
//     running - is what a node that was never asked computes.

import (
	"fmt"
	"math/rand"
	"sort"
	"time"
	. "zharness/hz"

	"github.com/zenon-network/go-zenon/chain/nom"
	"github.com/zenon-network/go-zenon/common/db"
	"github.com/zenon-network/go-zenon/common/types"
	"github.com/zenon-network/go-zenon/consensus"
	"github.com/zenon-network/go-zenon/consensus/storage"
	"github.com/zenon-network/go-zenon/vm/embedded/definition"
	"github.com/zenon-network/go-zenon/zenon/mock"
)

type askedHist struct {
	nd      *Node
	rng     *rand.Rand
	out     *Out
	hashId  map[types.Hash]int64
	nameId  map[string]int64
	addrId  map[types.Address]int64
	chain   []*nom.Momentum // genesis first
	gts     int64
	mult    int64
	ops     []interface{}
	answers []interface{}
	tab     []interface{}
	seenEl  map[string]bool
}

func (h *askedHist) hid(x types.Hash) int64 {
	if v, ok := h.hashId[x]; ok {
		return v
	}
	v := int64(len(h.hashId) + 1)
	h.hashId[x] = v
	return v
}
func (h *askedHist) nid(s string) int64 {
	if s == "" {
		return 0
	}
	if v, ok := h.nameId[s]; ok {
		return v
	}
	v := int64(len(h.nameId) + 1)
	h.nameId[s] = v
	return v
}
func (h *askedHist) aid(a types.Address) int64 {
	if v, ok := h.addrId[a]; ok {
		return v
	}
	v := int64(len(h.addrId) + 1)
	h.addrId[a] = v
	return v
}
func (h *askedHist) momTerm(m *nom.Momentum) interface{} {
	return Con("mkMom", I64(h.hid(m.Hash)), I64(h.hid(m.PreviousHash)), I64(m.Timestamp.Unix()), I64(h.aid(m.Producer())))
}
func (h *askedHist) extend() {
	st := h.nd.Ch.GetFrontierMomentumStore()
	top := h.nd.FrontierHeight()
	for i := uint64(len(h.chain) + 1); i <= top; i++ {
		m, err := st.GetMomentumByHeight(i)
		if err != nil || m == nil {
			panic(fmt.Sprint("momentum missing ", i, err))
		}
		h.chain = append(h.chain, m)
	}
}
func (h *askedHist) endBlock(tick int64) *nom.Momentum {
	end := h.gts + (tick+1)*periodSec
	i := sort.Search(len(h.chain), func(i int) bool { return h.chain[i].Timestamp.Unix() >= end })
	if i == 0 {
		return nil
	}
	return h.chain[i-1]
}
func (h *askedHist) frontierTick() int64 {
	return (h.chain[len(h.chain)-1].Timestamp.Unix() - h.gts) / periodSec
}

// elections of every started tick on the current chain, keyed by the tick's end block
func (h *askedHist) recordElections() {
	for t := int64(0); t <= h.frontierTick(); t++ {
		eb := h.endBlock(t)
		if eb == nil {
			continue
		}
		key := fmt.Sprintf("%d/%d", h.hid(eb.Hash), t)
		if h.seenEl[key] {
			continue
		}
		h.seenEl[key] = true
		prods, delegs, err := consensus.VerifElectionByTick(h.nd.Cs, uint64(t))
		if err != nil {
			h.out.Count("asked:election-error")
			continue
		}
		pl := Lst()
		for _, p := range prods {
			pl = append(pl, Tup(I64(h.aid(p.Producer)), I64(h.nid(p.Name))))
		}
		dl := Lst()
		for _, d := range delegs {
			dl = append(dl, Tup(I64(h.nid(d.Name)), Big(d.Weight)))
		}
		h.tab = append(h.tab, Tup(I64(h.hid(eb.Hash)), I64(t), Con("mkE", pl, dl)))
	}
}

func (h *askedHist) pointTerm(p *storage.Point, err error) interface{} {
	if err != nil {
		return Con("PErr")
	}
	if p == nil {
		return Con("PNone")
	}
	type kv struct {
		k int64
		d *storage.ProducerDetail
	}
	var l []kv
	for n, d := range p.Pillars {
		l = append(l, kv{h.nid(n), d})
	}
	sort.Slice(l, func(i, j int) bool { return l[i].k < l[j].k })
	pl := Lst()
	for _, e := range l {
		pl = append(pl, Tup(I64(e.k), Con("mkD", I64(int64(e.d.ExpectedNum)), I64(int64(e.d.FactualNum)), Big(e.d.Weight))))
	}
	return Con("PSome", Con("mkP", I64(h.hid(p.PrevHash)), I64(h.hid(p.EndHash)), pl, Big(p.TotalWeight)))
}

func (h *askedHist) query(epoch bool, tick int64, fresh consensus.Points) {
	pts := consensus.VerifPoints(h.nd.Cs)
	var got, want *storage.Point
	var e1, e2 error
	what, dur := "period", int64(periodSec)
	if epoch {
		got, e1 = pts.GetEpochPoints().GetPoint(uint64(tick))
		want, e2 = fresh.GetEpochPoints().GetPoint(uint64(tick))
		h.ops = append(h.ops, Con("TEpoch", I64(tick)))
		what, dur = "epoch", periodSec*h.mult
	} else {
		got, e1 = pts.GetPeriodPoints().GetPoint(uint64(tick))
		want, e2 = fresh.GetPeriodPoints().GetPoint(uint64(tick))
		h.ops = append(h.ops, Con("TPeriod", I64(tick)))
	}
	h.answers = append(h.answers, h.pointTerm(got, e1))
	fts := h.chain[len(h.chain)-1].Timestamp.Unix()
	state := "running"
	switch {
	case fts >= h.gts+(tick+1)*dur:
		state = "finished"
	case fts < h.gts+tick*dur:
		state = "not-started"
	}
	h.out.Count("asked:" + what + ":" + state)
	h.out.Oracle(pointStr(got, e1) == pointStr(want, e2), "statistics-independent-of-earlier-queries",
		M{"what": what, "tick": I64(tick), "state_at_the_query": state, "height": U64(h.nd.FrontierHeight()), "slot_of_frontier": I64((fts - h.gts) / 10),
			"slots_per_epoch": I64(h.mult * periodSec / 10), "node_asked_at_every_momentum": pointStr(got, e1), "node_with_empty_consensus_db": pointStr(want, e2)})
}

func askedPointsHistory(rng *rand.Rand, out *Out) {
	mult := int64(2 + rng.Intn(2))
	durSec := periodSec * mult
	setWindows(true)
	types.EmbeddedWUpdate = []types.Address{}
	nd := newNodeEpoch(time.Duration(durSec) * time.Second)
	defer nd.Stop()
	h := &askedHist{nd: nd, rng: rng, out: out, hashId: map[types.Hash]int64{}, nameId: map[string]int64{}, addrId: map[types.Address]int64{},
		mult: mult, seenEl: map[string]bool{}}
	h.extend()
	h.gts = h.chain[0].Timestamp.Unix()
	gen := h.momTerm(h.chain[0])
	h.recordElections()
	gp := newGapPlan(rng, durSec)
	// a tail gap over whole periods and an empty beginning occur in every history; the other epochs are drawn
	epochs := int64(3 + rng.Intn(2))
	forced := rng.Perm(int(epochs))
	gp.force(int64(forced[0]), 0)
	gp.force(int64(forced[1]), 3)
	endSlot := epochs*durSec/10 + 3
	users := Actors()
	for {
		slot := (h.chain[len(h.chain)-1].Timestamp.Unix() - h.gts) / 10
		if slot >= endSlot {
			break
		}
		// delegations move the weights from period to period
		if rng.Intn(6) == 0 {
			names := []string{"TEST-pillar-1", "TEST-pillar-cool", "TEST-pillar-znn"}
			u := users[rng.Intn(len(users))]
			tpl := &nom.AccountBlock{BlockType: nom.BlockTypeUserSend, Address: u.Address, ToAddress: types.PillarContract, TokenStandard: types.ZnnTokenStandard,
				Amount: common0(), Data: definition.ABIPillars.PackMethodPanic(definition.DelegateMethodName, names[rng.Intn(len(names))])}
			if tx, err := nd.Sv.GenerateFromTemplate(tpl, u.Signer); err == nil {
				if nd.Insert(tx) == nil {
					out.Count("asked:delegate")
				}
			}
		}
		if k := gp.skip(slot, out); k > 0 {
			mock.VerifInsertMomentumSkipping(nd.Z, k)
		} else {
			nd.Momentum()
		}
		h.extend()
		h.ops = append(h.ops, Con("TInsert", h.momTerm(h.chain[len(h.chain)-1])))
		h.answers = append(h.answers, Con("PNone"))
		h.recordElections()
		// the questions, at every momentum: running and previous epoch and period; the next ones and the one before now and then
		fresh := consensus.VerifPoints(consensus.NewConsensus(db.NewMemDB(), nd.Ch, true))
		ft := h.frontierTick()
		fe := ft / mult
		h.query(true, fe, fresh)
		if fe > 0 {
			h.query(true, fe-1, fresh)
		}
		if rng.Intn(2) == 0 {
			h.query(false, ft, fresh)
		}
		if ft > 0 && rng.Intn(4) == 0 {
			h.query(false, ft-1, fresh)
		}
		if rng.Intn(8) == 0 {
			h.query(true, fe+1, fresh)
			h.query(false, ft+1, fresh)
		}
		if fe > 1 && rng.Intn(8) == 0 {
			h.query(true, fe-2, fresh)
		}
	}
	out.Case("points", Tup(I64(h.gts), I64(periodSec), I64(h.mult), h.tab, gen, h.ops), h.answers, fmt.Sprintf("asked-at-every-momentum:mult=%d", mult))
}
