package main

// C01 harness: random histories on a real in-process node; per momentum and per pool state
//   - ORACLE (independent of the model): for every token sum(balances) + in-flight == TotalSupply <= MaxSupply, balances >= 0
//   - c01_seg case: the blocks of the momentum (or of the pool) as model ops, state before -> state after
//   - c01_step case: every candidate block the harness submits (valid and invalid), verdict class and local state
import (
	"fmt"
	"math/big"
	"math/rand"
	"os"
	"sort"
	"time"
	. "zharness/hz"

	g "github.com/zenon-network/go-zenon/chain/genesis/mock"
	"github.com/zenon-network/go-zenon/chain/nom"
	"github.com/zenon-network/go-zenon/common"
	"github.com/zenon-network/go-zenon/common/types"
	"github.com/zenon-network/go-zenon/verifier"
	"github.com/zenon-network/go-zenon/vm/abi"
	"github.com/zenon-network/go-zenon/vm/constants"
	"github.com/zenon-network/go-zenon/vm/embedded/definition"
	"github.com/zenon-network/go-zenon/wallet"
)

func main() { Main(map[string]Runner{"hist": runHist}) }

func runHist(rng *rand.Rand, n int, out *Out, _ []string) {
	for i := 0; i < n; i++ {
		if i%15 == 14 {
			rewardHistory(rng, out)
		} else {
			history(rng, out, 55+rng.Intn(50))
		}
	}
}

type hist struct {
	nd     *Node
	rng    *rand.Rand
	out    *Out
	ids    *IDs
	sc     *Scanner
	actors []*wallet.KeyPair
	users  []types.Address
	tokens []types.ZenonTokenStandard
	owned  map[types.Address][]types.ZenonTokenStandard
	prev   *Scan            // confirmed state after the last momentum
	xcache map[types.Hash]M // contract receive (by hash) -> its op, built when first seen in the pool
	quiet  bool             // reward histories: scan only momentums with content
	forced *forcedCall
}

// tightCap: some histories run on a genesis whose ZNN / QSR maximum supply leaves little head-room above the genesis
// supply (a configuration CheckGenesis accepts), so that the protocol's own mints (reward collection, swap retrieval,
// liquidity rewards) meet the MaxSupply guard of the token contract. Returns the function restoring the mock genesis.
func tightCap(rng *rand.Rand, out *Out) func() {
	type saved struct {
		t   *definition.TokenInfo
		max *big.Int
	}
	var sv []saved
	for _, t := range g.EmbeddedGenesis.TokenConfig.Tokens {
		if t.TokenStandard == types.ZnnTokenStandard || t.TokenStandard == types.QsrTokenStandard {
			sv = append(sv, saved{t, t.MaxSupply})
			room := new(big.Int).Mul(big.NewInt(int64(rng.Intn(4)*rng.Intn(300))), big.NewInt(100000000))
			room.Add(room, big.NewInt(int64(rng.Intn(3))))
			t.MaxSupply = new(big.Int).Add(t.TotalSupply, room)
		}
	}
	out.Count("c01:history-with-tight-max-supply")
	return func() {
		for _, s := range sv {
			s.t.MaxSupply = s.max
		}
	}
}

// qsrNotBurnable: some histories run on a genesis whose QSR is not burnable (a configuration CheckGenesis accepts). A
// pillar registration then makes the pillar contract send a fund-carrying Burn call to the token contract that FAILS
// there: a contract-to-contract call with value that is rolled back (the refund path with an embedded sender).
func qsrNotBurnable(out *Out) func() {
	var tok *definition.TokenInfo
	for _, t := range g.EmbeddedGenesis.TokenConfig.Tokens {
		if t.TokenStandard == types.QsrTokenStandard {
			tok = t
		}
	}
	if tok == nil {
		return func() {}
	}
	was := tok.IsBurnable
	tok.IsBurnable = false
	out.Count("c01:history-with-qsr-not-burnable")
	return func() { tok.IsBurnable = was }
}

// failingContractToContractCall: DepositQsr + Register of a new pillar by an actor that can afford it; with QSR not
// burnable the pillar contract's Burn call (150000 QSR) fails in the token contract
func (h *hist) failingContractToContractCall() {
	kp := g.Pillar4
	if h.rng.Intn(2) == 0 {
		kp = g.Pillar5
	}
	h.sendCall(kp, Call{"pillar.DepositQsr", types.PillarContract, types.QsrTokenStandard, zx(150000),
		definition.ABIPillars.PackMethodPanic(definition.DepositQsrMethodName)})
	h.momentum()
	h.momentum()
	h.sendCall(kp, Call{"pillar.Register", types.PillarContract, types.ZnnTokenStandard, new(big.Int).Set(constants.PillarStakeAmount),
		definition.ABIPillars.PackMethodPanic(definition.RegisterMethodName, fmt.Sprintf("c01-pillar-%d", h.rng.Intn(1000)), kp.Address, kp.Address, uint8(0), uint8(100))})
	for i := 0; i < 4; i++ {
		h.momentum()
	}
	h.out.Count("c01:act:pillar-registration-with-failing-burn")
}

// wide tokens: user tokens whose supplies and balances sit around 2^64 (where a machine word ends and big.Int goes on) and
// a token whose MaxSupply is far below 2^64 while mints of almost 2^64 are attempted
var two64 = new(big.Int).Lsh(big.NewInt(1), 64)

func (h *hist) issueWideTokens() {
	kp := h.actors[h.rng.Intn(3)]
	tot := []*big.Int{
		new(big.Int).Sub(two64, big.NewInt(1000)), new(big.Int).Sub(two64, big.NewInt(1)), new(big.Int).Set(two64),
		new(big.Int).Add(two64, big.NewInt(12345)), new(big.Int).Mul(big.NewInt(3), new(big.Int).Lsh(big.NewInt(1), 63)),
	}[h.rng.Intn(5)]
	h.sendCall(kp, Call{"token.Issue", types.TokenContract, types.ZnnTokenStandard, new(big.Int).Set(constants.TokenIssueAmount),
		definition.ABIToken.PackMethodPanic(definition.IssueMethodName, "wide", "WIDE", "", tot, new(big.Int).Lsh(big.NewInt(1), 70), uint8(0), true, true, false)})
	h.sendCall(kp, Call{"token.Issue", types.TokenContract, types.ZnnTokenStandard, new(big.Int).Set(constants.TokenIssueAmount),
		definition.ABIToken.PackMethodPanic(definition.IssueMethodName, "narrow", "NARROW", "", big.NewInt(500), big.NewInt(1000), uint8(0), true, true, false)})
	for i := 0; i < 3; i++ {
		h.momentum()
	}
	h.out.Count("c01:history-with-tokens-around-2^64")
}

// wideOp: transfers whose amounts and the receiver's balance are each below 2^64 while their sum is not; mints of almost
// 2^64 against a small MaxSupply (must be refused) and against a wide one
func (h *hist) wideOp() {
	if h.prev == nil {
		return
	}
	for _, t := range h.prev.Tokens {
		owner := KeyOf(t.Owner)
		if owner == nil {
			continue
		}
		switch t.TokenSymbol {
		case "WIDE":
			// from whoever holds some to one fixed receiver, in amounts around 2^63
			to := h.users[len(h.users)-1]
			for _, kp := range h.actors {
				bal := h.prev.Bal[kp.Address][t.TokenStandard]
				if bal == nil || bal.Sign() <= 0 || kp.Address == to {
					continue
				}
				amt := []*big.Int{new(big.Int).Lsh(big.NewInt(1), 63), new(big.Int).Add(new(big.Int).Lsh(big.NewInt(1), 63), big.NewInt(int64(h.rng.Intn(1000)))),
					new(big.Int).Sub(two64, big.NewInt(1)), new(big.Int).Rsh(bal, 1)}[h.rng.Intn(4)]
				if amt.Cmp(bal) > 0 {
					amt = new(big.Int).Set(bal)
				}
				h.sendCall(kp, Call{"transfer", to, t.TokenStandard, amt, nil})
				h.out.Count("c01:act:wide-transfer")
				break
			}
			if h.rng.Intn(3) == 0 {
				h.sendCall(owner, Call{"token.Mint", types.TokenContract, types.ZnnTokenStandard, big.NewInt(0),
					definition.ABIToken.PackMethodPanic(definition.MintMethodName, t.TokenStandard, new(big.Int).Sub(two64, big.NewInt(int64(1+h.rng.Intn(200)))), h.users[h.rng.Intn(len(h.users))])})
			}
		case "NARROW":
			amt := []*big.Int{new(big.Int).Sub(two64, big.NewInt(100)), new(big.Int).Sub(two64, big.NewInt(1)), new(big.Int).Sub(two64, t.TotalSupply),
				new(big.Int).Set(two64), new(big.Int).Sub(t.MaxSupply, t.TotalSupply), new(big.Int).Add(new(big.Int).Sub(t.MaxSupply, t.TotalSupply), big.NewInt(1))}[h.rng.Intn(6)]
			if amt.Sign() > 0 {
				h.sendCall(owner, Call{"token.Mint", types.TokenContract, types.ZnnTokenStandard, big.NewInt(0),
					definition.ABIToken.PackMethodPanic(definition.MintMethodName, t.TokenStandard, amt, h.users[h.rng.Intn(len(h.users))])})
				h.out.Count("c01:act:narrow-mint")
			}
		}
	}
}

func history(rng *rand.Rand, out *Out, steps int) {
	c2c := false
	if rng.Intn(5) == 0 {
		defer tightCap(rng, out)()
	} else if rng.Intn(4) == 0 {
		defer qsrNotBurnable(out)()
		c2c = true
	}
	nd := NewNode()
	defer nd.Stop()
	h := &hist{nd: nd, rng: rng, out: out, ids: NewIDs(), sc: NewScanner(nd), actors: append(Actors(), g.Pillar4, g.Pillar5), xcache: map[types.Hash]M{}}
	for _, kp := range h.actors {
		h.users = append(h.users, kp.Address)
	}
	h.prev = h.sc.Scan(false)
	ok, d := h.prev.SupplyOracle()
	out.Oracle(ok, "c01-genesis-supply", d)
	wide := rng.Intn(4) == 0
	if wide {
		h.issueWideTokens()
	}
	probed := false
	c2cAt := -1
	if c2c {
		c2cAt = rng.Intn(steps/2 + 1)
	}
	for s := 0; s < steps; s++ {
		if s == c2cAt {
			h.failingContractToContractCall()
		}
		if wide && rng.Intn(6) == 0 {
			h.wideOp()
		}
		switch k := rng.Intn(100); {
		case k < 30:
			h.attemptSend(false)
		case k < 50:
			h.attemptSend(true)
		case k < 55:
			if !h.ownerMint() {
				h.attemptSend(true)
			}
		case k < 80:
			h.attemptReceive()
		default:
			h.momentum()
			if !probed && s > steps/4 {
				probed = h.relayProbe()
			}
		}
	}
	h.momentum()
	h.momentum()
	h.momentum()
}

// ---------------------------------------------------------------- momentum: segment cases + oracle

func (h *hist) momentum() {
	before := h.nd.FrontierHeight()
	h.nd.Momentum()
	after := h.nd.FrontierHeight()
	if after != before+1 {
		h.out.Count("c01:momentum-not-inserted")
		return
	}
	if h.quiet {
		// long reward histories: a momentum without content and with an empty pool changes nothing
		fm, _ := h.nd.Ch.GetFrontierMomentumStore().GetFrontierMomentum()
		if fm != nil && len(fm.Content) == 0 && len(h.nd.Ch.GetAllUncommittedAccountBlocks()) == 0 {
			h.out.Count("c01:reward-history:empty-momentum-skipped")
			return
		}
	}
	cur := h.sc.Scan(false)
	ok, d := cur.SupplyOracle()
	h.out.Oracle(ok, "c01-supply-at-momentum", d)
	h.segment(h.prev, cur, h.sc.BlocksOfMomentum(after), true, "momentum")
	pl := h.sc.Scan(true)
	ok, d = pl.SupplyOracle()
	h.out.Oracle(ok, "c01-supply-at-pool", d)
	h.segment(cur, pl, h.sc.PoolBlocks(), false, "pool")
	h.prev = cur
	// remember issued tokens
	h.tokens = h.tokens[:0]
	h.owned = map[types.Address][]types.ZenonTokenStandard{}
	for _, t := range cur.Tokens {
		if t.TokenStandard != types.ZnnTokenStandard && t.TokenStandard != types.QsrTokenStandard {
			h.tokens = append(h.tokens, t.TokenStandard)
			h.owned[t.Owner] = append(h.owned[t.Owner], t.TokenStandard)
		}
	}
}

func (h *hist) findBlock(hash types.Hash) *nom.AccountBlock {
	b, err := h.nd.Ch.GetFrontierMomentumStore().GetAccountBlockByHash(hash)
	if err == nil && b != nil {
		return b
	}
	for _, p := range h.nd.Ch.GetAllUncommittedAccountBlocks() {
		if p.Hash == hash {
			return p
		}
	}
	return nil
}

// callTerm: what the receiving method does, as the model's [call].
func (h *hist) callTerm(send, recv *nom.AccountBlock) (M, string) {
	success := common.BytesToUint64(recv.Data) == 1
	x := h.ids
	if send.ToAddress == types.TokenContract {
		if m, err := definition.ABIToken.MethodById(send.Data); err == nil {
			switch m.Name {
			case definition.IssueMethodName:
				p := new(definition.IssueParam)
				if err := definition.ABIToken.UnpackMethod(p, m.Name, send.Data); err == nil {
					nz := types.NewZenonTokenStandard(send.Hash.Bytes())
					return Con("KIssue", I64(x.Zts(nz)), Big(p.TotalSupply), Big(p.MaxSupply), p.IsMintable, p.IsBurnable, true, true), "issue"
				}
			case definition.MintMethodName:
				p := new(definition.MintParam)
				if err := definition.ABIToken.UnpackMethod(p, m.Name, send.Data); err == nil {
					dok := true
					if types.IsEmbeddedAddress(p.ReceiveAddress) {
						data, _ := definition.ABICommon.PackMethod(definition.DonateMethodName)
						dok = h.lookupOK(p.ReceiveAddress, data, p.Amount, p.TokenStandard)
					}
					if os.Getenv("C01_DEBUG") != "" {
						ti, _ := h.nd.Ch.GetFrontierMomentumStore().GetTokenInfoByTs(p.TokenStandard)
						fmt.Fprintf(os.Stderr, "MINT success=%v sender=%v zts=%v amt=%v to=%v info=%+v\n", success, send.Address, p.TokenStandard, p.Amount, p.ReceiveAddress, ti)
					}
					if types.IsEmbeddedAddress(send.Address) {
						h.out.Count(fmt.Sprintf("c01:reward-mint:by=%s:success=%v", contractABI[send.Address].name, success))
					}
					return Con("KMint", I64(x.Zts(p.TokenStandard)), Big(p.Amount), I64(x.Addr(p.ReceiveAddress)), true, dok), "mint"
				}
			case definition.BurnMethodName:
				return Con("KBurn", true), "burn"
			case definition.UpdateTokenMethodName:
				p := new(definition.UpdateTokenParam)
				if err := definition.ABIToken.UnpackMethod(p, m.Name, send.Data); err == nil {
					return Con("KUpdateToken", I64(x.Zts(p.TokenStandard)), I64(x.Addr(p.Owner)), p.IsMintable, p.IsBurnable, true), "update-token"
				}
			}
		}
	}
	descs := Lst()
	if success {
		for _, d := range recv.DescendantBlocks {
			descs = append(descs, Tup(I64(x.Addr(d.ToAddress)), I64(x.Zts(d.TokenStandard)), Big(d.Amount), true))
		}
		return Con("KOther", true, descs), "other-ok"
	}
	return Con("KOther", false, descs), "other-fail"
}

// lookupOK: would vm.applySend accept a descendant send from the token contract to the embedded address with this data
func (h *hist) lookupOK(to types.Address, data []byte, amount *big.Int, zts types.ZenonTokenStandard) bool {
	b := &nom.AccountBlock{BlockType: nom.BlockTypeContractSend, Address: types.TokenContract, ToAddress: to, Data: data, Amount: amount, TokenStandard: zts}
	fm, _ := h.nd.Ch.GetFrontierMomentumStore().GetFrontierMomentum()
	b.MomentumAcknowledged = fm.Identifier()
	fr := h.nd.Ch.GetFrontierAccountStore(b.Address).Identifier()
	b.PreviousHash, b.Height = fr.Hash, fr.Height+1
	return h.nd.SendValidates(b)
}

// opsOf turns blocks (content order) into model ops; involved collects the accounts whose balances may change.
func (h *hist) opsOf(blocks []*nom.AccountBlock, confirm bool, involved map[types.Address]bool) []interface{} {
	x := h.ids
	ops := Lst()
	for _, b := range blocks {
		switch b.BlockType {
		case nom.BlockTypeUserSend:
			involved[b.Address] = true
			involved[b.ToAddress] = true
			ops = append(ops, Con("XPlain", Con("OSend", I64(x.Hash(b.Hash)), I64(x.Addr(b.Address)), I64(x.Addr(b.ToAddress)), I64(x.Zts(b.TokenStandard)), Big(b.Amount), true)))
			if confirm {
				ops = append(ops, Con("XPlain", Con("OConfirm", I64(x.Hash(b.Hash)))))
			}
			h.out.Count("c01:op:user-send")
		case nom.BlockTypeUserReceive:
			involved[b.Address] = true
			ops = append(ops, Con("XPlain", Con("OReceive", I64(x.Addr(b.Address)), I64(x.Hash(b.FromBlockHash)))))
			h.out.Count("c01:op:user-receive")
		case nom.BlockTypeContractReceive:
			involved[b.Address] = true
			send := h.findBlock(b.FromBlockHash)
			if send == nil {
				panic("contract receive of a send that is not on the ledger")
			}
			involved[send.Address] = true
			dh := Lst()
			for _, d := range b.DescendantBlocks {
				involved[d.ToAddress] = true
				dh = append(dh, I64(x.Hash(d.Hash)))
			}
			kind := ""
			if xo, ok := h.xcache[b.Hash]; ok {
				ops = append(ops, xo)
				kind = "concrete-body"
			} else if xo, name := h.embTerm(send, b, dh); xo != nil {
				h.xcache[b.Hash] = xo
				ops = append(ops, xo)
				kind = "concrete-body"
				h.out.Count("c01:method:concrete(Emb.v):" + name)
			} else {
				var k M
				k, kind = h.callTerm(send, b)
				ops = append(ops, Con("XPlain", Con("OContractReceive", I64(x.Addr(b.Address)), I64(x.Hash(b.FromBlockHash)), k, dh, true)))
				if !confirm {
					if kind == "other-ok" || kind == "other-fail" {
						h.out.Count("c01:method:parametric:" + methodName(send))
					} else {
						h.out.Count("c01:method:concrete(Ledger.v):token." + kind)
					}
				}
			}
			if confirm {
				for _, d := range b.DescendantBlocks {
					ops = append(ops, Con("XPlain", Con("OConfirm", I64(x.Hash(d.Hash)))))
				}
			}
			st := "ok"
			if common.BytesToUint64(b.Data) != 1 {
				st = "failed"
				if len(b.DescendantBlocks) > 0 {
					st = "failed-refunded"
				}
			}
			h.out.Count("c01:op:contract-receive:" + kind + ":" + st)
			if h.quiet && !confirm {
				h.out.Count(fmt.Sprintf("c01:reward-history:%s:%s:at-height-%d00", methodName(send), st, h.nd.FrontierHeight()/100))
			}
		}
	}
	return ops
}

func (h *hist) segment(pre, post *Scan, blocks []*nom.AccountBlock, confirm bool, tag string) {
	involved := map[types.Address]bool{}
	ops := h.opsOf(blocks, confirm, involved)
	// frame: nothing else moved
	frameOK := true
	var frameDetail string
	for _, a := range post.Accounts {
		if involved[a] {
			continue
		}
		if !sameBalances(pre.Bal[a], post.Bal[a]) {
			frameOK = false
			frameDetail = fmt.Sprintf("%v changed without a block of/for it (%s at height %d)", a, tag, post.Height)
		}
	}
	h.out.Oracle(frameOK, "c01-frame", frameDetail)
	h.statementOracles(pre, post, blocks, tag)
	if len(ops) == 0 {
		h.out.Count("c01:empty-segment:" + tag)
		return
	}
	keep := func(a types.Address) bool { return involved[a] }
	h.out.Case("c01_seg", Tup(pre.StateTerm(h.ids, keep), ops), Some(post.StateTerm(h.ids, keep)), tag)
}

func sameBalances(a, b map[types.ZenonTokenStandard]*big.Int) bool {
	for z, v := range a {
		w := b[z]
		if w == nil {
			w = new(big.Int)
		}
		if v.Cmp(w) != 0 {
			return false
		}
	}
	for z, v := range b {
		if _, ok := a[z]; !ok && v.Sign() != 0 {
			return false
		}
	}
	return true
}

// ---------------------------------------------------------------- candidate blocks: local cases

func errCode(err error) int64 {
	switch err {
	case nil:
		return 0
	case verifier.ErrABAmountNegative:
		return 1
	case verifier.ErrABAmountTooBig:
		return 2
	case verifier.ErrABZtsMissing:
		return 3
	case constants.ErrInsufficientBalance:
		return 5
	case verifier.ErrABFromBlockMissing:
		return 6
	case verifier.ErrABFromBlockReceiverMismatch:
		return 7
	case verifier.ErrABFromBlockAlreadyReceived:
		return 8
	}
	return -1
}

var codeName = map[int64]string{0: "accepted", 1: "amount-negative", 2: "amount-too-big", 3: "zts-missing", 4: "method-refused",
	5: "insufficient-balance", 6: "from-missing", 7: "receiver-mismatch", 8: "already-received"}

// localState: model state restricted to the given accounts + one send
type localState struct {
	bal   []interface{}
	toks  []interface{}
	send  *nom.AccountBlock
	conf  bool
	rcvBy []types.Address
}

func (h *hist) readLocal(accts []types.Address, send *nom.AccountBlock, rcvCandidates []types.Address) *localState {
	x := h.ids
	ls := &localState{bal: Lst(), toks: Lst(), send: send}
	sort.Slice(accts, func(i, j int) bool { return x.Addr(accts[i]) < x.Addr(accts[j]) })
	seen := map[types.Address]bool{}
	for _, a := range accts {
		if seen[a] {
			continue
		}
		seen[a] = true
		m, err := h.nd.Ch.GetFrontierAccountStore(a).GetBalanceMap()
		if err != nil {
			panic(err)
		}
		var zs []types.ZenonTokenStandard
		for z := range m {
			zs = append(zs, z)
		}
		sort.Slice(zs, func(i, j int) bool { return x.Zts(zs[i]) < x.Zts(zs[j]) })
		for _, z := range zs {
			if m[z].Sign() != 0 {
				ls.bal = append(ls.bal, Tup(Tup(I64(x.Addr(a)), I64(x.Zts(z))), Big(m[z])))
			}
		}
	}
	toks, err := definition.GetTokenInfoList(h.nd.Ch.GetFrontierAccountStore(types.TokenContract).Storage())
	if err != nil {
		panic(err)
	}
	sort.Slice(toks, func(i, j int) bool { return toks[i].TokenStandard.String() < toks[j].TokenStandard.String() })
	for _, t := range toks {
		ls.toks = append(ls.toks, Tup(I64(x.Zts(t.TokenStandard)), Con("mkToken", Big(t.TotalSupply), Big(t.MaxSupply), I64(x.Addr(t.Owner)), t.IsMintable, t.IsBurnable)))
	}
	if send != nil {
		ch, _ := h.nd.Ch.GetFrontierMomentumStore().GetBlockConfirmationHeight(send.Hash)
		ls.conf = ch != 0
		for _, a := range rcvCandidates {
			if h.nd.Ch.GetFrontierAccountStore(a).IsReceived(send.Hash) {
				ls.rcvBy = append(ls.rcvBy, a)
			}
		}
	}
	return ls
}

// term: full = with markers (input of the model); otherwise garbage-collected (what gc gives)
func (ls *localState) term(x *IDs, full bool, extraSend *nom.AccountBlock) M {
	sends, rcv, conf := Lst(), Lst(), Lst()
	if ls.send != nil && (full || len(ls.rcvBy) == 0) {
		b := ls.send
		sends = append(sends, Con("mkSend", I64(x.Hash(b.Hash)), I64(x.Addr(b.Address)), I64(x.Addr(b.ToAddress)), I64(x.Zts(b.TokenStandard)), Big(b.Amount)))
		if ls.conf {
			conf = append(conf, Tup(I64(x.Addr(b.ToAddress)), I64(x.Hash(b.Hash))))
		}
	}
	if full {
		for _, a := range ls.rcvBy {
			rcv = append(rcv, Tup(I64(x.Addr(a)), I64(x.Hash(ls.send.Hash))))
		}
	}
	if extraSend != nil {
		b := extraSend
		sends = append(sends, Con("mkSend", I64(x.Hash(b.Hash)), I64(x.Addr(b.Address)), I64(x.Addr(b.ToAddress)), I64(x.Zts(b.TokenStandard)), Big(b.Amount)))
	}
	return Con("mkState", ls.bal, ls.toks, sends, rcv, conf, Lst())
}

func (h *hist) pickAmount(bal *big.Int) *big.Int {
	switch h.rng.Intn(12) {
	case 0:
		return big.NewInt(0)
	case 1:
		return new(big.Int).Set(bal)
	case 2:
		return new(big.Int).Add(bal, big.NewInt(1))
	case 3:
		return big.NewInt(-1 - int64(h.rng.Intn(1000)))
	case 4:
		return new(big.Int).Lsh(big.NewInt(1), 255)
	case 5:
		return new(big.Int).Sub(new(big.Int).Lsh(big.NewInt(1), 255), big.NewInt(1))
	case 6:
		return new(big.Int).Lsh(big.NewInt(1), uint(h.rng.Intn(200)))
	default:
		if bal.Sign() <= 0 {
			return big.NewInt(int64(h.rng.Intn(5)))
		}
		return new(big.Int).Rand(h.rng, new(big.Int).Add(new(big.Int).Div(bal, big.NewInt(int64(1+h.rng.Intn(50)))), big.NewInt(1)))
	}
}

func (h *hist) attemptSend(call bool) {
	rng := h.rng
	kp := h.actors[rng.Intn(len(h.actors))]
	if h.forced != nil {
		kp = h.forced.kp
	}
	b := &nom.AccountBlock{BlockType: nom.BlockTypeUserSend, Address: kp.Address}
	tag := "transfer"
	if call {
		c := RandomCall(rng, kp.Address, h.tokens, h.owned[kp.Address], h.users)
		if h.forced != nil {
			c = h.forced.c
		}
		b.ToAddress, b.TokenStandard, b.Amount, b.Data = c.To, c.Zts, c.Amount, c.Data
		tag = "call:" + c.Name
	} else {
		switch rng.Intn(6) {
		case 0:
			rng.Read(b.ToAddress[:])
			b.ToAddress[0] = 0 // a user address nobody owns
		default:
			b.ToAddress = h.users[rng.Intn(len(h.users))]
		}
		zs := append([]types.ZenonTokenStandard{types.ZnnTokenStandard, types.QsrTokenStandard, types.ZnnTokenStandard, types.QsrTokenStandard}, h.tokens...)
		b.TokenStandard = zs[rng.Intn(len(zs))]
		switch rng.Intn(15) {
		case 0:
			b.TokenStandard = types.ZeroTokenStandard
		case 1:
			rng.Read(b.TokenStandard[:]) // a token nobody issued
		}
		bal, _ := h.nd.Ch.GetFrontierAccountStore(kp.Address).GetBalance(b.TokenStandard)
		b.Amount = h.pickAmount(bal)
		if rng.Intn(4) == 0 {
			b.Data = make([]byte, rng.Intn(60))
			rng.Read(b.Data)
		}
	}
	h.nd.Fill(b)
	h.nd.SetPlasma(b)
	vok := h.nd.SendValidates(b)
	Sign(b, kp)
	x := h.ids
	pre := h.readLocal([]types.Address{b.Address, b.ToAddress}, nil, nil)
	amt := new(big.Int).Set(b.Amount)
	opTerm := Con("OSend", I64(x.Hash(b.Hash)), I64(x.Addr(b.Address)), I64(x.Addr(b.ToAddress)), I64(x.Zts(b.TokenStandard)), Big(amt), vok)
	tx, err := h.nd.Apply(b)
	code := errCode(err)
	if code < 0 {
		if !vok {
			code = 4
		} else {
			h.out.Count("c01:skipped-send:" + err.Error())
			return
		}
	}
	var post M
	if code == 0 {
		if e := h.nd.Insert(tx); e != nil {
			h.out.Count("c01:insert-failed")
			return
		}
		post = h.readLocal([]types.Address{b.Address, b.ToAddress}, nil, nil).term(x, false, tx.Block)
	} else {
		post = pre.term(x, false, nil)
	}
	h.out.Case("c01_step", Tup(true, pre.term(x, true, nil), opTerm), Tup(I64(code), post), tag+":"+codeName[code])
	// the statement on the verdict: an accepted send never exceeds the balance and has 0 <= amount < 2^255
	if code == 0 {
		bal := new(big.Int)
		for _, e := range pre.bal {
			t := e.(M)["t"].([]interface{})
			k := t[0].(M)["t"].([]interface{})
			if fmt.Sprint(k[0]) == fmt.Sprint(x.Addr(b.Address)) && fmt.Sprint(k[1]) == fmt.Sprint(x.Zts(b.TokenStandard)) {
				bal.SetString(fmt.Sprint(t[1]), 10)
			}
		}
		ok := amt.Sign() >= 0 && amt.BitLen() <= 255 && (b.TokenStandard == types.ZeroTokenStandard || amt.Cmp(bal) <= 0)
		h.out.Oracle(ok, "c01-send-within-balance", M{"amount": Big(amt), "balance": Big(bal)})
	}
}

func (h *hist) attemptReceive() {
	rng := h.rng
	x := h.ids
	pl := h.sc.Scan(true)
	// candidate sends: in flight (confirmed or not), or already received ones
	var cands []*nom.AccountBlock
	mode := rng.Intn(10)
	for _, s := range pl.Sends {
		if types.IsEmbeddedAddress(s.Block.ToAddress) {
			continue
		}
		recvd := len(pl.ReceivedBy[s.Block.Hash]) > 0
		switch {
		case mode < 6 && !recvd && s.Confirmed:
			cands = append(cands, s.Block)
		case mode == 6 && recvd:
			cands = append(cands, s.Block)
		case mode == 7 && !s.Confirmed:
			cands = append(cands, s.Block)
		case mode >= 8 && !recvd && s.Confirmed:
			cands = append(cands, s.Block)
		}
	}
	var send *nom.AccountBlock
	var fromHash types.Hash
	if len(cands) > 0 {
		send = cands[rng.Intn(len(cands))]
		fromHash = send.Hash
	} else {
		rng.Read(fromHash[:])
		mode = 9
	}
	// receiver: the addressee, or somebody else (mode 8), or anybody for an unknown hash
	var kp *wallet.KeyPair
	if send != nil {
		kp = KeyOf(send.ToAddress)
	}
	if kp == nil || mode == 8 {
		kp = h.actors[rng.Intn(len(h.actors))]
	}
	b := &nom.AccountBlock{BlockType: nom.BlockTypeUserReceive, Address: kp.Address, FromBlockHash: fromHash}
	h.nd.Fill(b)
	h.nd.SetPlasma(b)
	Sign(b, kp)
	accts := []types.Address{b.Address}
	if send != nil {
		accts = append(accts, send.ToAddress)
	}
	pre := h.readLocal(accts, send, accts)
	tx, err := h.nd.Apply(b)
	code := errCode(err)
	if code < 0 {
		h.out.Count("c01:skipped-receive:" + err.Error())
		return
	}
	var post M
	if code == 0 {
		if e := h.nd.Insert(tx); e != nil {
			h.out.Count("c01:insert-failed")
			return
		}
		post = h.readLocal(accts, send, accts).term(x, false, nil)
	} else {
		post = pre.term(x, false, nil)
	}
	h.out.Case("c01_step", Tup(true, pre.term(x, true, nil), Con("OReceive", I64(x.Addr(b.Address)), I64(x.Hash(fromHash)))),
		Tup(I64(code), post), "receive:"+codeName[code])
}

// statementOracles: (a) the recorded supply of a token changes only if the segment contains a successful
// IssueToken / Mint / Burn received by the token contract; (b) a failed call that carried an amount is refunded
// by exactly one send of that amount and token back to the caller, a failed call without amount emits nothing.
func (h *hist) statementOracles(pre, post *Scan, blocks []*nom.AccountBlock, tag string) {
	tokenOp := false
	for _, b := range blocks {
		if b.BlockType != nom.BlockTypeContractReceive {
			continue
		}
		send := h.findBlock(b.FromBlockHash)
		if send == nil {
			continue
		}
		success := common.BytesToUint64(b.Data) == 1
		if success && b.Address == types.TokenContract {
			if m, err := definition.ABIToken.MethodById(send.Data); err == nil &&
				(m.Name == definition.IssueMethodName || m.Name == definition.MintMethodName || m.Name == definition.BurnMethodName) {
				tokenOp = true
			}
		}
		if !success {
			ok := true
			if send.Amount.Sign() > 0 {
				ok = len(b.DescendantBlocks) == 1 && b.DescendantBlocks[0].ToAddress == send.Address &&
					b.DescendantBlocks[0].Amount.Cmp(send.Amount) == 0 && b.DescendantBlocks[0].TokenStandard == send.TokenStandard
			} else {
				ok = len(b.DescendantBlocks) == 0
			}
			h.out.Oracle(ok, "c01-refund-exact", M{"receive": fmt.Sprint(b.Header()), "send-amount": Big(send.Amount), "descendants": len(b.DescendantBlocks)})
		}
	}
	old := map[types.ZenonTokenStandard]*big.Int{}
	for _, t := range pre.Tokens {
		old[t.TokenStandard] = t.TotalSupply
	}
	changed := ""
	for _, t := range post.Tokens {
		o, ok := old[t.TokenStandard]
		if !ok || o.Cmp(t.TotalSupply) != 0 {
			changed = t.TokenStandard.String()
		}
		delete(old, t.TokenStandard)
	}
	for z := range old {
		changed = z.String() + " (vanished)"
	}
	h.out.Oracle(changed == "" || tokenOp, "c01-supply-changes-only-by-token-ops", M{"token": changed, "segment": tag, "height": post.Height})
}

var contractABI = map[types.Address]struct {
	name string
	abi  interface {
		MethodById([]byte) (*abi.Method, error)
	}
}{}

func init() {
	contractABI[types.PillarContract] = struct {
		name string
		abi  interface {
			MethodById([]byte) (*abi.Method, error)
		}
	}{"pillar", &definition.ABIPillars}
	contractABI[types.SentinelContract] = struct {
		name string
		abi  interface {
			MethodById([]byte) (*abi.Method, error)
		}
	}{"sentinel", &definition.ABISentinel}
	contractABI[types.StakeContract] = struct {
		name string
		abi  interface {
			MethodById([]byte) (*abi.Method, error)
		}
	}{"stake", &definition.ABIStake}
	contractABI[types.PlasmaContract] = struct {
		name string
		abi  interface {
			MethodById([]byte) (*abi.Method, error)
		}
	}{"plasma", &definition.ABIPlasma}
	contractABI[types.AcceleratorContract] = struct {
		name string
		abi  interface {
			MethodById([]byte) (*abi.Method, error)
		}
	}{"accelerator", &definition.ABIAccelerator}
	contractABI[types.LiquidityContract] = struct {
		name string
		abi  interface {
			MethodById([]byte) (*abi.Method, error)
		}
	}{"liquidity", &definition.ABILiquidity}
	contractABI[types.TokenContract] = struct {
		name string
		abi  interface {
			MethodById([]byte) (*abi.Method, error)
		}
	}{"token", &definition.ABIToken}
}

func methodName(send *nom.AccountBlock) string {
	c, ok := contractABI[send.ToAddress]
	if !ok {
		return "other-contract"
	}
	m, err := c.abi.MethodById(send.Data)
	if err != nil {
		return c.name + ".?"
	}
	return c.name + "." + m.Name
}

// embTerm: the receive of one of the methods whose body is concrete in the model (coq/theories/Emb.v via LedgerEmb.v):
// the op carries the send data, the frontier momentum of the receive context and the ONE storage entry the body reads,
// read from the contract's storage as it was below the receive block. nil = not such a method / storage not available.
func (h *hist) embTerm(send, recv *nom.AccountBlock, dh []interface{}) (M, string) {
	name := methodName(send)
	as := h.nd.Ch.GetAccountStore(recv.Address, recv.Previous())
	ms := h.nd.Ch.GetMomentumStore(recv.MomentumAcknowledged)
	if as == nil || ms == nil {
		return nil, name
	}
	fm, err := ms.GetFrontierMomentum()
	if err != nil || fm == nil {
		return nil, name
	}
	st := as.Storage()
	var m M
	switch name {
	case "accelerator.Donate", "liquidity.Donate":
		m = Con("MDonate")
	case "pillar.DepositQsr", "sentinel.DepositQsr":
		m = Con("MDepositQsr")
	case "pillar.WithdrawQsr", "sentinel.WithdrawQsr":
		d, err := definition.GetQsrDeposit(st, &send.Address)
		if err != nil {
			return nil, name
		}
		m = Con("MWithdrawQsr", Big(d.Qsr))
	case "pillar.CollectReward", "sentinel.CollectReward", "stake.CollectReward", "liquidity.CollectReward":
		d, err := definition.GetRewardDeposit(st, &send.Address)
		if err != nil {
			return nil, name
		}
		m = Con("MCollectReward", Big(d.Znn), Big(d.Qsr))
	case "plasma.Fuse":
		m = Con("MFuse")
	case "plasma.CancelFuse":
		id := new(types.Hash)
		if err := definition.ABIPlasma.UnpackMethod(id, definition.CancelFuseMethodName, send.Data); err != nil {
			return nil, name
		}
		e, err := definition.GetFusionInfo(st, send.Address, *id)
		if err == constants.ErrDataNonExistent {
			m = Con("MCancelFuse", None())
		} else if err != nil {
			return nil, name
		} else {
			m = Con("MCancelFuse", Some(Tup(Big(e.Amount), U64(e.ExpirationHeight))))
		}
	case "stake.Stake":
		m = Con("MStake")
	case "stake.Cancel":
		id := new(types.Hash)
		if err := definition.ABIStake.UnpackMethod(id, definition.CancelStakeMethodName, send.Data); err != nil {
			return nil, name
		}
		e, err := definition.GetStakeInfo(st, *id, send.Address)
		if err == constants.ErrDataNonExistent {
			m = Con("MCancelStake", None())
		} else if err != nil {
			return nil, name
		} else {
			m = Con("MCancelStake", Some(Tup(Big(e.Amount), I64(e.ExpirationTime))))
		}
	default:
		return nil, name
	}
	x := h.ids
	return Con("XEmb", I64(x.Addr(recv.Address)), I64(x.Hash(recv.FromBlockHash)), m, I64(fm.Timestamp.Unix()), U64(fm.Height),
		Byt(send.Data), dh, true, true), name
}

// ownerMint: the owner of a mintable user token mints within the remaining supply
func (h *hist) ownerMint() bool {
	if h.prev == nil {
		return false
	}
	var cands []*definition.TokenInfo
	for _, t := range h.prev.Tokens {
		if t.IsMintable && KeyOf(t.Owner) != nil && new(big.Int).Sub(t.MaxSupply, t.TotalSupply).Sign() > 0 {
			for _, kp := range h.actors {
				if kp.Address == t.Owner {
					cands = append(cands, t)
				}
			}
		}
	}
	if len(cands) == 0 {
		return false
	}
	t := cands[h.rng.Intn(len(cands))]
	gap := new(big.Int).Sub(t.MaxSupply, t.TotalSupply)
	amt := new(big.Int).Add(new(big.Int).Rand(h.rng, gap), big.NewInt(1))
	if amt.Cmp(gap) > 0 {
		amt = gap
	}
	to := h.users[h.rng.Intn(len(h.users))]
	if h.rng.Intn(4) == 0 {
		to = []types.Address{types.LiquidityContract, types.AcceleratorContract}[h.rng.Intn(2)]
	}
	h.sendCall(KeyOf(t.Owner), Call{"token.Mint", types.TokenContract, types.ZnnTokenStandard, big.NewInt(0),
		definition.ABIToken.PackMethodPanic(definition.MintMethodName, t.TokenStandard, amt, to)})
	// several operations on the SAME token inside one momentum (the token contract receives them back to back, each on
	// top of the unconfirmed effects of the one before): a burn by the owner and / or an UpdateToken right after the
	// mint ("mint the last tranche, then lock minting"; ownership handed on)
	if h.rng.Intn(2) == 0 {
		if t.IsBurnable && h.rng.Intn(2) == 0 {
			if bal := h.prev.Bal[t.Owner][t.TokenStandard]; bal != nil && bal.Sign() > 0 {
				h.sendCall(KeyOf(t.Owner), Call{"token.Burn", types.TokenContract, t.TokenStandard, h.pickAmount(bal),
					definition.ABIToken.PackMethodPanic(definition.BurnMethodName)})
			}
		}
		owner := t.Owner
		if h.rng.Intn(3) == 0 {
			owner = h.users[h.rng.Intn(len(h.users))]
		}
		h.sendCall(KeyOf(t.Owner), Call{"token.UpdateToken", types.TokenContract, types.ZnnTokenStandard, big.NewInt(0),
			definition.ABIToken.PackMethodPanic(definition.UpdateTokenMethodName, t.TokenStandard, owner, h.rng.Intn(2) == 0, h.rng.Intn(4) != 0)})
		h.out.Count("c01:same-token-operations-in-one-momentum")
	}
	return true
}

// ---------------------------------------------------------------- histories with reward minting
// Epochs of 600 s (the shortest consensus supports): the pillar / sentinel / stake / liquidity contracts are updated by
// the producers one hour after an epoch ends, users that delegate or stake collect (the contract sends Mint calls to
// the token contract, which mints ZNN / QSR), stakes are cancelled and fusions cancelled after their lock.
func rewardHistory(rng *rand.Rand, out *Out) {
	if rng.Intn(2) == 0 {
		defer tightCap(rng, out)()
	}
	nd := NewNodeEpoch(600 * time.Second)
	defer nd.Stop()
	h := &hist{nd: nd, rng: rng, out: out, ids: NewIDs(), sc: NewScanner(nd), actors: append(Actors(), g.Pillar4, g.Pillar5), xcache: map[types.Hash]M{}, quiet: true}
	for _, kp := range h.actors {
		h.users = append(h.users, kp.Address)
	}
	h.prev = h.sc.Scan(false)
	ok, d := h.prev.SupplyOracle()
	out.Oracle(ok, "c01-genesis-supply", d)
	out.Count("c01:reward-history")
	// early: stakes, a fusion, liquidity donations
	for i := 0; i < 3; i++ {
		kp := h.actors[rng.Intn(len(h.actors))]
		h.sendCall(kp, Call{"stake.Stake", types.StakeContract, types.ZnnTokenStandard, zx(int64(5 + rng.Intn(40))),
			definition.ABIStake.PackMethodPanic(definition.StakeMethodName, int64(constants.StakeTimeMinSec))})
	}
	h.sendCall(h.actors[0], Call{"plasma.Fuse", types.PlasmaContract, types.QsrTokenStandard, zx(20),
		definition.ABIPlasma.PackMethodPanic(definition.FuseMethodName, h.actors[1].Address)})
	total := 615 + rng.Intn(40)
	collectFrom := 606
	for i := 0; i < total; i++ {
		if i >= collectFrom && rng.Intn(4) == 0 {
			kp := h.actors[rng.Intn(len(h.actors))]
			c := []types.Address{types.PillarContract, types.PillarContract, types.StakeContract, types.SentinelContract}[rng.Intn(4)]
			h.sendCall(kp, Call{"common.CollectReward", c, types.ZnnTokenStandard, big.NewInt(0),
				definition.ABICommon.PackMethodPanic(definition.CollectRewardMethodName)})
		}
		if i >= collectFrom && rng.Intn(6) == 0 {
			h.attemptReceive()
		}
		if rng.Intn(40) == 0 {
			h.attemptSend(false)
		}
		if i == 380 {
			// the fusion can be cancelled after FuseExpiration momentums
			pl := h.sc.Scan(true)
			for _, s := range pl.Sends {
				if s.Confirmed && s.Block.ToAddress == types.PlasmaContract && s.Block.Address == h.actors[0].Address {
					h.sendCall(h.actors[0], Call{"plasma.CancelFuse", types.PlasmaContract, types.ZnnTokenStandard, big.NewInt(0),
						definition.ABIPlasma.PackMethodPanic(definition.CancelFuseMethodName, s.Block.Hash)})
				}
			}
		}
		h.momentum()
	}
	for i := 0; i < 4; i++ {
		h.attemptReceive()
		h.momentum()
	}
}

func zx(n int64) *big.Int { return new(big.Int).Mul(big.NewInt(n), big.NewInt(100000000)) }

// sendCall submits a contract call of the given actor (counted as a c01_step case like every candidate)
func (h *hist) sendCall(kp *wallet.KeyPair, c Call) {
	h.forced = &forcedCall{kp, c}
	h.attemptSend(true)
	h.forced = nil
}

type forcedCall struct {
	kp *wallet.KeyPair
	c  Call
}
