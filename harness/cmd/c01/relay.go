package main

// Relay probe: a follower node that holds the producer's chain receives, through the gossip entry point
// (ChainBridge.AddAccountBlocks), forged copies of the producer's UNCONFIRMED contract receives: a descendant send with
// another amount / recipient / token and every hash recomputed (embedded-contract blocks carry no signature, anybody can
// make one). "The equality ... is preserved by every accepted account block": if the follower accepts such a block its
// pool state must still satisfy the supply equation (on the unchanged code it refuses the block: the receive is
// regenerated and compared).

import (
	"math/big"

	. "zharness/hz"

	"github.com/zenon-network/go-zenon/chain/nom"
	"github.com/zenon-network/go-zenon/common/types"
)

func forgeDescendant(b *nom.AccountBlock, i int, mut func(d *nom.AccountBlock)) *nom.AccountBlock {
	f := WireCopyBlock(b)
	mut(f.DescendantBlocks[i])
	prev := f.DescendantBlocks[i].PreviousHash
	for j := i; j < len(f.DescendantBlocks); j++ {
		x := f.DescendantBlocks[j]
		x.PreviousHash = prev
		x.Hash = x.ComputeHash()
		prev = x.Hash
	}
	f.PreviousHash = prev
	f.Hash = f.ComputeHash()
	return f
}

func (h *hist) relayProbe() bool {
	var crecv *nom.AccountBlock
	for _, p := range h.sc.PoolBlocks() {
		if p.BlockType != nom.BlockTypeContractReceive || len(p.DescendantBlocks) == 0 {
			continue
		}
		for _, d := range p.DescendantBlocks {
			if d.Amount != nil && d.Amount.Sign() > 0 && (crecv == nil || h.rng.Intn(2) == 0) {
				crecv = p
			}
		}
	}
	if crecv == nil {
		return false
	}
	f := OpenBare("")
	defer f.Destroy()
	top := h.nd.FrontierHeight()
	if top >= 2 {
		if _, err := f.Br.InsertChain(WireCopyAll(DetailedRange(h.nd.Ch, 2, top))); err != nil {
			h.out.Count("c01:relay-probe:follower-did-not-sync")
			return true
		}
	}
	// the genuine block is acceptable to the follower (control)
	g0 := OpenBare("")
	if top >= 2 {
		g0.Br.InsertChain(WireCopyAll(DetailedRange(h.nd.Ch, 2, top)))
	}
	errGenuine := g0.Br.AddAccountBlocks([]*nom.AccountBlock{WireCopyBlock(crecv)})
	g0.Destroy()
	if errGenuine != nil {
		h.out.Count("c01:relay-probe:genuine-receive-not-acceptable-to-follower")
		return false
	}
	others := []types.Address{h.users[h.rng.Intn(len(h.users))], types.LiquidityContract}
	for i, d := range crecv.DescendantBlocks {
		if d.Amount == nil || d.Amount.Sign() <= 0 {
			continue
		}
		muts := []func(x *nom.AccountBlock){
			func(x *nom.AccountBlock) { x.Amount = new(big.Int).Add(x.Amount, big.NewInt(1)) },
			func(x *nom.AccountBlock) { x.Amount = new(big.Int).Mul(x.Amount, big.NewInt(1000)) },
			func(x *nom.AccountBlock) { x.Amount = big.NewInt(0) },
			func(x *nom.AccountBlock) { x.ToAddress = others[h.rng.Intn(len(others))] },
			func(x *nom.AccountBlock) {
				if x.TokenStandard == types.ZnnTokenStandard {
					x.TokenStandard = types.QsrTokenStandard
				} else {
					x.TokenStandard = types.ZnnTokenStandard
				}
			},
		}
		forged := forgeDescendant(crecv, i, muts[h.rng.Intn(len(muts))])
		err := f.Br.AddAccountBlocks([]*nom.AccountBlock{forged})
		accepted := err == nil && f.Ch.GetPatch(forged.Address, forged.Identifier()) != nil
		if !accepted {
			h.out.Count("c01:relay-probe:forged-contract-receive-refused")
			h.out.Oracle(true, "c01-supply-after-relayed-contract-receive", nil)
			continue
		}
		h.out.Count("c01:relay-probe:forged-contract-receive-ACCEPTED")
		sc := NewScannerOf(f.Ch).Scan(true)
		ok, det := sc.SupplyOracle()
		if det == nil {
			det = M{}
		}
		det["relayed"] = "forged contract receive " + forged.Hash.String() + " accepted by a follower node"
		h.out.Oracle(ok, "c01-supply-after-relayed-contract-receive", det)
		return true
	}
	return true
}
