package main

import "github.com/zenon-network/go-zenon/common/types"

func init() { collectors = append(collectors, collectC20) }

// C20: the addresses / token standards the genesis validators name
func collectC20() {
	b := func(x []byte) []int64 {
		r := make([]int64, len(x))
		for i := range x {
			r[i] = int64(x[i])
		}
		return r
	}
	cL("PlasmaContractAddr", b(types.PlasmaContract.Bytes()))
	cL("PillarContractAddr", b(types.PillarContract.Bytes()))
	cL("SwapContractAddr", b(types.SwapContract.Bytes()))
	cL("TokenContractAddr", b(types.TokenContract.Bytes()))
	cL("SporkContractAddr", b(types.SporkContract.Bytes()))
	cL("ZnnZts", b(types.ZnnTokenStandard.Bytes()))
	cL("QsrZts", b(types.QsrTokenStandard.Bytes()))
}
