package main

import (
	"time"

	"github.com/zenon-network/go-zenon/p2p"
	"github.com/zenon-network/go-zenon/protocol"
	"github.com/zenon-network/go-zenon/protocol/downloader"
)

func init() { collectors = append(collectors, collectC15) }

// protocol limits, message codes and error classes (C15)
func collectC15() {
	cU("ProtocolMaxMsgSize", protocol.ProtocolMaxMsgSize)
	cU("MaxHashFetch", uint64(downloader.MaxHashFetch))
	cU("MaxBlockFetch", uint64(downloader.MaxBlockFetch))
	cU("StatusMsg", protocol.StatusMsg)
	cU("NewBlockHashesMsg", protocol.NewBlockHashesMsg)
	cU("TxMsg", protocol.TxMsg)
	cU("GetBlockHashesMsg", protocol.GetBlockHashesMsg)
	cU("BlockHashesMsg", protocol.BlockHashesMsg)
	cU("GetBlocksMsg", protocol.GetBlocksMsg)
	cU("BlocksMsg", protocol.BlocksMsg)
	cU("NewBlockMsg", protocol.NewBlockMsg)
	cU("GetBlockHashesFromNumberMsg", protocol.GetBlockHashesFromNumberMsg)
	cU("ErrMsgTooLarge", protocol.ErrMsgTooLarge)
	cU("ErrDecode", protocol.ErrDecode)
	cU("ErrInvalidMsgCode", protocol.ErrInvalidMsgCode)
	cU("ErrProtocolVersionMismatch", protocol.ErrProtocolVersionMismatch)
	cU("ErrNetworkIdMismatch", protocol.ErrNetworkIdMismatch)
	cU("ErrGenesisBlockMismatch", protocol.ErrGenesisBlockMismatch)
	cU("ErrNoStatusMsg", protocol.ErrNoStatusMsg)
	cU("ErrExtraStatusMsg", protocol.ErrExtraStatusMsg)
	// connection timers in seconds
	cI("HandshakeTimeoutSec", int64(p2p.VerifHandshakeTimeout/time.Second))
	cI("FrameReadTimeoutSec", int64(p2p.VerifFrameReadTimeout/time.Second))
	cI("FrameWriteTimeoutSec", int64(p2p.VerifFrameWriteTimeout/time.Second))
	cI("PingIntervalSec", int64(p2p.VerifPingInterval/time.Second))
	// base (devp2p) protocol of a connection: code space, handshake limits, disconnect reasons
	cU("BaseProtocolLength", p2p.VerifBaseProtocolLength)
	cU("BaseProtocolMaxMsgSize", p2p.VerifBaseProtocolMaxMsgSize)
	cU("BaseProtocolVersion", p2p.VerifBaseProtocolVersion)
	cU("EthProtocolLength", protocol.ProtocolLengths[0])
	cU("HandshakeMsg", p2p.VerifHandshakeMsg)
	cU("DiscMsg", p2p.VerifDiscMsg)
	cU("PingMsg", p2p.VerifPingMsg)
	cU("PongMsg", p2p.VerifPongMsg)
	cU("DiscRequested", uint64(p2p.DiscRequested))
	cU("DiscNetworkError", uint64(p2p.DiscNetworkError))
	cU("DiscProtocolError", uint64(p2p.DiscProtocolError))
	cU("DiscUselessPeer", uint64(p2p.DiscUselessPeer))
	cU("DiscTooManyPeers", uint64(p2p.DiscTooManyPeers))
	cU("DiscAlreadyConnected", uint64(p2p.DiscAlreadyConnected))
	cU("DiscIncompatibleVersion", uint64(p2p.DiscIncompatibleVersion))
	cU("DiscInvalidIdentity", uint64(p2p.DiscInvalidIdentity))
	cU("DiscUnexpectedIdentity", uint64(p2p.DiscUnexpectedIdentity))
	cU("DiscSubprotocolError", uint64(p2p.DiscSubprotocolError))
	// encryption handshake: field and message sizes of p2p/rlpx.go
	cI("HsSigLen", p2p.VerifSigLen)
	cI("HsPubLen", p2p.VerifPubLen)
	cI("HsShaLen", p2p.VerifShaLen)
	cI("AuthMsgLen", p2p.VerifAuthMsgLen)
	cI("AuthRespLen", p2p.VerifAuthRespLen)
	cI("EciesOverhead", p2p.VerifEciesOverhead)
	cI("EncAuthMsgLen", p2p.VerifEncAuthMsgLen)
	cI("EncAuthRespLen", p2p.VerifEncAuthRespLen)
}
