package main

import (
	"time"

	"github.com/zenon-network/go-zenon/p2p"
	"github.com/zenon-network/go-zenon/protocol"
	"github.com/zenon-network/go-zenon/protocol/downloader"
)

func init() { collectors = append(collectors, collectC15) }

// protocol limits, message codes and error classes (C15)
func collectC15() {
	cU("ProtocolMaxMsgSize", protocol.ProtocolMaxMsgSize)
	cU("MaxHashFetch", uint64(downloader.MaxHashFetch))
	cU("MaxBlockFetch", uint64(downloader.MaxBlockFetch))
	cU("StatusMsg", protocol.StatusMsg)
	cU("NewBlockHashesMsg", protocol.NewBlockHashesMsg)
	cU("TxMsg", protocol.TxMsg)
	cU("GetBlockHashesMsg", protocol.GetBlockHashesMsg)
	cU("BlockHashesMsg", protocol.BlockHashesMsg)
	cU("GetBlocksMsg", protocol.GetBlocksMsg)
	cU("BlocksMsg", protocol.BlocksMsg)
	cU("NewBlockMsg", protocol.NewBlockMsg)
	cU("GetBlockHashesFromNumberMsg", protocol.GetBlockHashesFromNumberMsg)
	cU("ErrMsgTooLarge", protocol.ErrMsgTooLarge)
	cU("ErrDecode", protocol.ErrDecode)
	cU("ErrInvalidMsgCode", protocol.ErrInvalidMsgCode)
	cU("ErrProtocolVersionMismatch", protocol.ErrProtocolVersionMismatch)
	cU("ErrNetworkIdMismatch", protocol.ErrNetworkIdMismatch)
	cU("ErrGenesisBlockMismatch", protocol.ErrGenesisBlockMismatch)
	cU("ErrNoStatusMsg", protocol.ErrNoStatusMsg)
	cU("ErrExtraStatusMsg", protocol.ErrExtraStatusMsg)
	// connection timers in seconds
	cI("HandshakeTimeoutSec", int64(p2p.VerifHandshakeTimeout/time.Second))
	cI("FrameReadTimeoutSec", int64(p2p.VerifFrameReadTimeout/time.Second))
	cI("FrameWriteTimeoutSec", int64(p2p.VerifFrameWriteTimeout/time.Second))
	cI("PingIntervalSec", int64(p2p.VerifPingInterval/time.Second))
}
