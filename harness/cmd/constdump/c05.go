package main

import (
	"github.com/zenon-network/go-zenon/chain"
	"github.com/zenon-network/go-zenon/vm/constants"
)

func init() { collectors = append(collectors, collectC05) }

// constants of the election and of the momentum verifier (C05, C16)
func collectC05() {
	cU("ConsensusRandCount", uint64(constants.ConsensusConfig.RandCount))
	cU("MaxAccountBlocksInMomentum", uint64(chain.MaxAccountBlocksInMomentum))
}
