package main

import "github.com/zenon-network/go-zenon/common"

func init() { collectors = append(collectors, collectC12Pow) }

// big.Int package variables referenced by the translated pow.getTargetByDifficulty (C12)
func collectC12Pow() {
	cB("Big2", common.Big2)
	cB("Big64", common.Big64)
}
