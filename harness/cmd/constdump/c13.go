package main

import (
	"github.com/zenon-network/go-zenon/chain/nom"
	"github.com/zenon-network/go-zenon/common/types"
	"google.golang.org/protobuf/reflect/protoreflect"
)

func init() { collectors = append(collectors, collectC13) }

// C13: sizes of the fixed-width types and the field numbers of the protobuf descriptors
// (coq/theories/CodecPbProofs.v compares them with the numbers written in the model).
func collectC13() {
	cU("HashSize", types.HashSize)
	cU("AddressSize", types.AddressSize)
	cU("ZenonTokenStandardSize", types.ZenonTokenStandardSize)
	cU("AccountBlockHeaderRawLen", nom.AccountBlockHeaderRawLen)
	dump := func(prefix string, md protoreflect.MessageDescriptor) {
		fs := md.Fields()
		nums := make([]int64, 0, fs.Len())
		for i := 0; i < fs.Len(); i++ {
			f := fs.Get(i)
			cU(prefix+"_"+string(f.Name()), uint64(f.Number()))
			// kind: 1 = uint64 varint, 2 = bytes, 3 = message, 4 = repeated message, 0 = anything else
			k := int64(0)
			switch {
			case f.Kind() == protoreflect.Uint64Kind && !f.IsList():
				k = 1
			case f.Kind() == protoreflect.BytesKind && !f.IsList():
				k = 2
			case f.Kind() == protoreflect.MessageKind && !f.IsList():
				k = 3
			case f.Kind() == protoreflect.MessageKind && f.IsList():
				k = 4
			}
			nums = append(nums, int64(f.Number()), k)
		}
		cL(prefix+"_fields", nums)
	}
	dump("PbAB", (&nom.AccountBlockProto{}).ProtoReflect().Descriptor())
	dump("PbMom", (&nom.MomentumProto{}).ProtoReflect().Descriptor())
	dump("PbHash", (&types.HashProto{}).ProtoReflect().Descriptor())
	dump("PbAddress", (&types.AddressProto{}).ProtoReflect().Descriptor())
	dump("PbHashHeight", (&types.HashHeightProto{}).ProtoReflect().Descriptor())
	dump("PbAccountHeader", (&types.AccountHeaderProto{}).ProtoReflect().Descriptor())
}
