package main

import (
	"sort"

	"github.com/zenon-network/go-zenon/common/types"
	"github.com/zenon-network/go-zenon/vm/abi"
	"github.com/zenon-network/go-zenon/vm/constants"
	"github.com/zenon-network/go-zenon/vm/embedded/definition"
)

func init() { collectors = append(collectors, collectC10) }

// C10 (liquidity stakes, bridge unwrap requests): selectors of the two contracts, their addresses, the constants
// the modelled methods read
func collectC10() {
	for _, a := range []struct {
		n string
		a abi.ABIContract
	}{{"liquidity", definition.ABILiquidity}, {"bridge", definition.ABIBridge}} {
		var names []string
		for n := range a.a.Methods {
			names = append(names, n)
		}
		sort.Strings(names)
		for _, n := range names {
			cBytes("Sel_"+a.n+"_"+n, a.a.Methods[n].Id())
		}
	}
	cBytes("AddrLiquidityContract", types.LiquidityContract.Bytes())
	cBytes("AddrBridgeContract", types.BridgeContract.Bytes())
	cBytes("AddrAcceleratorContract", types.AcceleratorContract.Bytes())
	cI("BridgeMinGuardians", int64(constants.MinGuardians))
}
