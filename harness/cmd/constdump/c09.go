package main

import (
	"sort"

	"github.com/zenon-network/go-zenon/common/types"
	"github.com/zenon-network/go-zenon/vm/abi"
	"github.com/zenon-network/go-zenon/vm/embedded/definition"
)

func init() { collectors = append(collectors, collectC09) }

func cBytes(name string, b []byte) {
	l := make([]int64, len(b))
	for i, x := range b {
		l[i] = int64(x)
	}
	cL(name, l)
}

// C09/C10: ABI selectors of the modelled contracts (first 4 bytes of SHA3 of the signature, computed by
// the real abi package), the two native token standards and the contract addresses, as byte lists
func collectC09() {
	for _, a := range []struct {
		n string
		a abi.ABIContract
	}{{"plasma", definition.ABIPlasma}, {"stake", definition.ABIStake}, {"htlc", definition.ABIHtlc}, {"token", definition.ABIToken},
		{"common", definition.ABICommon}, {"pillars", definition.ABIPillars}, {"sentinel", definition.ABISentinel}} {
		var names []string
		for n := range a.a.Methods {
			names = append(names, n)
		}
		sort.Strings(names)
		for _, n := range names {
			cBytes("Sel_"+a.n+"_"+n, a.a.Methods[n].Id())
		}
	}
	cBytes("ZtsZnn", types.ZnnTokenStandard.Bytes())
	cBytes("ZtsQsr", types.QsrTokenStandard.Bytes())
	cBytes("ZtsZero", types.ZeroTokenStandard.Bytes())
	cBytes("AddrTokenContract", types.TokenContract.Bytes())
	cBytes("AddrPlasmaContract", types.PlasmaContract.Bytes())
	cBytes("AddrStakeContract", types.StakeContract.Bytes())
	cBytes("AddrHtlcContract", types.HtlcContract.Bytes())
	cI("ContractAddrByte", int64(types.ContractAddrByte))
	cI("PillarTypeLegacy", int64(definition.LegacyPillarType))
	cI("PillarTypeNormal", int64(definition.NormalPillarType))
	cI("HashTypeSHA3", int64(definition.HashTypeSHA3))
	cI("HashTypeSHA256", int64(definition.HashTypeSHA256))
	cI("HashDigestSizeSHA3", int64(definition.HashTypeDigestSizes[definition.HashTypeSHA3]))
	cI("HashDigestSizeSHA256", int64(definition.HashTypeDigestSizes[definition.HashTypeSHA256]))
}
