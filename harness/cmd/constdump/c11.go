package main

import (
	"github.com/zenon-network/go-zenon/common"
	"github.com/zenon-network/go-zenon/vm/constants"
)

func init() { collectors = append(collectors, collectC11) }

// big.Int package variables referenced by the translated reward-weight functions (C11)
func collectC11() {
	cB("Big0", common.Big0)
	cB("Big1", common.Big1)
	cB("Big100", common.Big100)
	cI("ConsensusBlockTime", constants.ConsensusConfig.BlockTime)
	cI("ConsensusNodeCount", int64(constants.ConsensusConfig.NodeCount))
}
