package main

import (
	"math/big"

	"github.com/zenon-network/go-zenon/common/types"
)

func init() { collectors = append(collectors, collectC03) }

// fixed-size byte values referenced by the translated accountBlockVerifier methods (C03): the bytes as one big-endian
// number; a HashHeight as hash * 2^64 + height
func collectC03() {
	cB("ZeroTokenStandard", new(big.Int).SetBytes(types.ZeroTokenStandard[:]))
	cB("ZeroAddress", new(big.Int).SetBytes(types.ZeroAddress[:]))
	hh := new(big.Int).SetBytes(types.ZeroHashHeight.Hash[:])
	hh.Lsh(hh, 64)
	hh.Add(hh, new(big.Int).SetUint64(types.ZeroHashHeight.Height))
	cB("ZeroHashHeight", hh)
}

func init() { collectors = append(collectors, collectTokenStandards) }

// the two protocol token standards as numbers (referenced by the translated release methods of the embedded contracts)
func collectTokenStandards() {
	cB("ZnnTokenStandard", new(big.Int).SetBytes(types.ZnnTokenStandard[:]))
	cB("QsrTokenStandard", new(big.Int).SetBytes(types.QsrTokenStandard[:]))
}
