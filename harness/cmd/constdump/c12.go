package main

import (
	"math/big"

	"github.com/zenon-network/go-zenon/vm/embedded"
)

func init() { collectors = append(collectors, collectC12Methods) }

// base plasma of every embedded method: key = (20-byte contract address ‖ 4-byte selector) read as one big-endian
// number; parallel lists
func collectC12Methods() {
	var keys, vals []*big.Int
	for _, e := range embedded.VerifMethodPlasma() {
		k := new(big.Int).SetBytes(append(append([]byte{}, e.Contract[:]...), e.Selector...))
		keys = append(keys, k)
		vals = append(vals, new(big.Int).SetUint64(e.Plasma))
	}
	consts.list["MethodPlasmaKeys"] = keys
	consts.list["MethodPlasmaVals"] = vals
}
