package main

import (
	"math/big"
	. "zharness/hz"
)

func init() { collectors = append(collectors, collectC12Methods) }

// base plasma of every embedded method of every method table (origin, accelerator, bridge-and-liquidity, htlc), as
// embedded.GetEmbeddedMethod + Method.GetPlasma answer under the sporks of that table: key = (table index + 1) ‖ 20-byte
// contract address ‖ 4-byte selector read as one big-endian number; parallel lists
func collectC12Methods() {
	var keys, vals []*big.Int
	for _, mc := range MethodCosts() {
		if !mc.Priced {
			continue
		}
		keys = append(keys, MethodCostKey(mc.Regime, mc.Contract, mc.Selector))
		vals = append(vals, new(big.Int).SetUint64(mc.Plasma))
	}
	consts.list["MethodPlasmaKeys"] = keys
	consts.list["MethodPlasmaVals"] = vals
}
