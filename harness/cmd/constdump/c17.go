package main

import (
	"encoding/binary"

	"github.com/zenon-network/go-zenon/common/types"
	"github.com/zenon-network/go-zenon/vm/embedded"
	"github.com/zenon-network/go-zenon/vm/embedded/definition"
)

func init() { collectors = append(collectors, collectC17) }

// the method tables of vm/embedded/embedded.go as the node has them in memory (C17):
// SporkTable<Regime>   : callable (contract, method) pairs, encoded contractIndex * 2^32 + selector
// SporkContracts<Regime>: indices of the contracts present in the table
// contractIndex = position in types.EmbeddedContracts
func collectC17() {
	idx := map[types.Address]int64{}
	for i, a := range types.EmbeddedContracts {
		idx[a] = int64(i)
	}
	cI("EmbeddedContractCount", int64(len(types.EmbeddedContracts)))
	names := [4]string{"Origin", "Accelerator", "Bridge", "Htlc"}
	for r, tbl := range embedded.VerifMethodTables() {
		pairs := []int64{}
		cset := map[int64]bool{}
		for _, e := range tbl {
			ci, ok := idx[e.Contract]
			if !ok {
				panic("method table has a contract that is not in types.EmbeddedContracts")
			}
			cset[ci] = true
			if e.Selector == nil {
				continue // in the method map but not in the contract's ABI: cannot be selected
			}
			pairs = append(pairs, ci<<32+int64(binary.BigEndian.Uint32(e.Selector)))
		}
		cs := []int64{}
		for i := int64(0); i < int64(len(types.EmbeddedContracts)); i++ {
			if cset[i] {
				cs = append(cs, i)
			}
		}
		sortI64(pairs)
		cL("SporkTable"+names[r], pairs)
		cL("SporkContracts"+names[r], cs)
	}
	// well-known features, by name: encoded (contract, selector) of one method per spork-gated feature
	feature := func(coq string, c types.Address, method string) {
		// any table: a feature missing from the newest table is for the theorems (C17_features_available) and the
		// node suite to report, not for the constant dump to crash on
		tabs := embedded.VerifMethodTables()
		for t := len(tabs) - 1; t >= 0; t-- {
			for _, e := range tabs[t] {
				if e.Contract == c && e.Name == method && e.Selector != nil {
					cI(coq, idx[c]<<32+int64(binary.BigEndian.Uint32(e.Selector)))
					return
				}
			}
		}
		panic("feature method in no method table: " + method)
	}
	feature("FeaturePlasmaFuse", types.PlasmaContract, definition.FuseMethodName)
	feature("FeatureSporkActivate", types.SporkContract, definition.SporkActivateMethodName)
	feature("FeatureAcceleratorCreateProject", types.AcceleratorContract, definition.CreateProjectMethodName)
	feature("FeatureLiquidityFund", types.LiquidityContract, definition.FundMethodName)
	feature("FeaturePillarCollectReward", types.PillarContract, definition.CollectRewardMethodName)
	feature("FeatureBridgeWrapToken", types.BridgeContract, definition.WrapTokenMethodName)
	feature("FeatureBridgeRedeem", types.BridgeContract, definition.RedeemUnwrapMethodName)
	feature("FeatureLiquidityStake", types.LiquidityContract, definition.LiquidityStakeMethodName)
	feature("FeatureHtlcCreate", types.HtlcContract, definition.CreateHtlcMethodName)
	feature("FeatureHtlcUnlock", types.HtlcContract, definition.UnlockHtlcMethodName)
}

func sortI64(a []int64) {
	for i := 1; i < len(a); i++ {
		for j := i; j > 0 && a[j-1] > a[j]; j-- {
			a[j-1], a[j] = a[j], a[j-1]
		}
	}
}
