package main

import "github.com/zenon-network/go-zenon/rpc/api"

func init() { collectors = append(collectors, collectC18) }

// RPC paging limits (C18)
func collectC18() {
	cU("RpcMaxPageSize", api.RpcMaxPageSize)
	cU("RpcMaxCountSize", api.RpcMaxCountSize)
}
