package main

// Forks delivered through protocol.ChainBridge.InsertChain: a generator node produces a common prefix and two
// branches; on both branches the same confirmed send is received by its addressee, by DIFFERENT blocks (competing
// receives on different forks), and sends to one contract are confirmed in different orders.  A receiving node (chain,
// consensus, verifier, supervisor, chain bridge; no pillars) is fed prefix + branch A, then the longer branch B from
// the fork point (rollback + insertion inside InsertChain), then is offered the abandoned receive again.
// Oracle on the receiver after each phase; the whole delivery replayed through the model as events.
import (
	"math/big"
	"math/rand"
	. "zharness/hz"

	"github.com/zenon-network/go-zenon/chain/nom"
	"github.com/zenon-network/go-zenon/common/types"
	"github.com/zenon-network/go-zenon/vm/embedded/definition"
	"github.com/zenon-network/go-zenon/wallet"
)

func runFork(rng *rand.Rand, n int, out *Out, _ []string) {
	for i := 0; i < n; i++ {
		forkHistory(rng, out)
	}
}

type gen struct {
	nd     *Node
	rng    *rand.Rand
	out    *Out
	actors []*wallet.KeyPair
}

func (g *gen) submit(b *nom.AccountBlock, kp *wallet.KeyPair) *nom.AccountBlock {
	g.nd.Fill(b)
	g.nd.SetPlasma(b)
	Sign(b, kp)
	tx, err := g.nd.Apply(b)
	if err != nil {
		return nil
	}
	if g.nd.Insert(tx) != nil {
		return nil
	}
	return tx.Block
}
func (g *gen) transfer() *nom.AccountBlock {
	kp := g.actors[g.rng.Intn(len(g.actors))]
	amount := int64(1 + g.rng.Intn(5000))
	if g.rng.Intn(4) == 0 { // a send that carries nothing is a send
		amount = 0
	}
	return g.submit(&nom.AccountBlock{BlockType: nom.BlockTypeUserSend, Address: kp.Address, ToAddress: g.actors[g.rng.Intn(len(g.actors))].Address,
		TokenStandard: types.ZnnTokenStandard, Amount: big.NewInt(amount)}, kp)
}
func (g *gen) call() *nom.AccountBlock {
	kp := g.actors[g.rng.Intn(len(g.actors))]
	return g.submit(&nom.AccountBlock{BlockType: nom.BlockTypeUserSend, Address: kp.Address, ToAddress: types.AcceleratorContract,
		TokenStandard: types.ZnnTokenStandard, Amount: big.NewInt(int64(1 + g.rng.Intn(500))),
		Data: definition.ABICommon.PackMethodPanic(definition.DonateMethodName)}, kp)
}

// momentum: the node's own producer, or (every second one) a momentum as another producer may list it (hz/c04_listed.go):
// the receiving node gets it through InsertChain and has to queue the sends to a contract in the LISTED order.
func (g *gen) momentum() {
	if g.rng.Intn(2) == 0 {
		g.nd.Momentum()
		return
	}
	unsorted, _, err := g.nd.MomentumListed(g.rng, 0) // (everything in the pool: the branches rely on the prefix confirming every send)
	switch {
	case err != nil:
		g.out.Count("c04:fork:listed-momentum-failed:" + err.Error())
	case unsorted:
		g.out.Count("c04:fork:momentum-listing:other-producer:unsorted")
	default:
		g.out.Count("c04:fork:momentum-listing:other-producer:same-as-sorted")
	}
}

// receive send by its addressee; pad = a preceding send of the same account, so that the receiving block differs
func (g *gen) receive(send *nom.AccountBlock, pad bool) *nom.AccountBlock {
	kp := KeyOf(send.ToAddress)
	if kp == nil {
		return nil
	}
	if pad {
		g.submit(&nom.AccountBlock{BlockType: nom.BlockTypeUserSend, Address: kp.Address, ToAddress: g.actors[g.rng.Intn(len(g.actors))].Address,
			TokenStandard: types.ZnnTokenStandard, Amount: big.NewInt(int64(1 + g.rng.Intn(50)))}, kp)
	}
	return g.submit(&nom.AccountBlock{BlockType: nom.BlockTypeUserReceive, Address: kp.Address, FromBlockHash: send.Hash}, kp)
}

func forkHistory(rng *rand.Rand, out *Out) {
	G := NewNode()
	g := &gen{nd: G, rng: rng, out: out, actors: Actors()}
	// prefix: sends between users and to a contract, confirmed
	var sends []*nom.AccountBlock
	P := 2 + rng.Intn(4)
	for i := 0; i < P; i++ {
		for k := 1 + rng.Intn(3); k > 0; k-- {
			if b := g.transfer(); b != nil {
				sends = append(sends, b)
			}
		}
		for k := rng.Intn(4); k > 0; k-- {
			g.call()
		}
		g.momentum()
	}
	g.momentum()
	forkH := G.FrontierHeight()
	if len(sends) == 0 {
		G.Stop()
		return
	}
	rng.Shuffle(len(sends), func(i, j int) { sends[i], sends[j] = sends[j], sends[i] })
	contested := sends[:1+rng.Intn(len(sends))]
	branch := func(L int, pad bool, receiveAll bool) {
		for i := 0; i < L; i++ {
			if i == 0 {
				for _, s := range contested {
					if receiveAll || rng.Intn(4) != 0 {
						g.receive(s, pad && rng.Intn(4) != 0)
					}
				}
			}
			for k := rng.Intn(3); k > 0; k-- {
				g.transfer()
			}
			for k := rng.Intn(3); k > 0; k-- {
				g.call()
			}
			g.momentum()
		}
	}
	LA := 1 + rng.Intn(4)
	LB := LA + 1 + rng.Intn(3)
	branch(LB, false, true)
	chainB := WireCopyAll(DetailedRange(G.Ch, 2, G.FrontierHeight()))
	if err := G.RollbackTo(forkH); err != nil {
		out.Count("c04:fork:generator-rollback-failed")
		G.Stop()
		return
	}
	branch(LA, true, false)
	chainA := WireCopyAll(DetailedRange(G.Ch, 2, G.FrontierHeight()))
	G.Stop()
	if uint64(len(chainA)) != forkH-1+uint64(LA) || uint64(len(chainB)) != forkH-1+uint64(LB) ||
		chainA[forkH-1].Momentum.Hash == chainB[forkH-1].Momentum.Hash {
		out.Count("c04:fork:no-real-fork-skipped")
		return
	}

	R := OpenBare("")
	defer R.Destroy()
	ids := NewIDs()
	sc := NewScannerOf(R.Ch)
	events, codes := Lst(), Lst()
	h := &hist{ids: ids} // only for blkTerm
	deliver := func(ch []*nom.DetailedMomentum) {
		for _, d := range ch {
			sel := Lst()
			for _, b := range d.AccountBlocks {
				if b.BlockType == nom.BlockTypeContractSend {
					continue
				}
				events = append(events, Con("EBlock", I64(99), true, h.blkTerm(b)))
				codes = append(codes, I64(0))
				sel = append(sel, I64(ids.Hash(b.Hash)))
			}
			events = append(events, Con("EMomentum", sel))
			codes = append(codes, I64(0))
		}
	}
	oracle := func(when string) *Scan {
		s := sc.Scan(true)
		ok, d := s.ReceiveOracle()
		d["when"] = when
		out.Oracle(ok, "c04-receive-once-addressee-fifo", d)
		ok, d = FifoListedOracle(R.Ch, true)
		d["when"] = when
		out.Oracle(ok, "c04-fifo-listed-confirmation-order", d)
		return s
	}
	if _, err := R.Br.InsertChain(chainA); err != nil {
		out.Count("c04:fork:receiver-rejected-branch-A:" + err.Error())
		return
	}
	deliver(chainA)
	sa := oracle("fork-on-branch-A")
	// the receiving blocks of the contested sends on branch A
	recvA := map[types.Hash]*nom.AccountBlock{}
	for _, s := range contested {
		if l := sa.ReceivedBy[s.Hash]; len(l) == 1 {
			recvA[s.Hash] = l[0]
		}
	}
	// the switch
	if _, err := R.Br.InsertChain(chainB[forkH-1:]); err != nil {
		out.Count("c04:fork:receiver-rejected-branch-B:" + err.Error())
		return
	}
	for i := 0; i < LA; i++ {
		events = append(events, Con("ERollback"))
		codes = append(codes, I64(0))
	}
	deliver(chainB[forkH-1:])
	sb := oracle("fork-after-switch-to-branch-B")
	nContested := 0
	for _, s := range contested {
		l := sb.ReceivedBy[s.Hash]
		ra := recvA[s.Hash]
		if ra != nil && len(l) == 1 && l[0].Hash != ra.Hash {
			nContested++
		}
		out.Oracle(len(l) == 1 && l[0].Address == s.ToAddress, "c04-fork-competing-receives-one-survivor",
			M{"send": s.Hash.String(), "receivers": len(l)})
		// the abandoned receive is offered again (gossip of an old block): it must not be accepted
		if ra != nil && (len(l) != 1 || l[0].Hash != ra.Hash) {
			_, err := R.Sv.ApplyBlock(WireCopyBlock(ra))
			out.Oracle(err != nil, "c04-fork-abandoned-receive-refused", M{"send": s.Hash.String(), "block": ra.Hash.String()})
			out.Count("c04:fork:abandoned-receive-offered")
		}
	}
	out.Count("c04:fork:histories")
	for i := 0; i < nContested; i++ {
		out.Count("c04:fork:sends-received-by-different-blocks-on-the-two-branches")
	}
	// the model on the same delivery
	got := map[types.Address][]interface{}{}
	inbox := map[types.Address][]interface{}{}
	accts := map[types.Address]bool{}
	for _, r := range sb.Recvs {
		got[r.Block.Address] = append(got[r.Block.Address], I64(ids.Hash(r.Block.FromBlockHash)))
		accts[r.Block.Address] = true
	}
	for _, s := range sb.Sends {
		if s.Confirmed {
			inbox[s.Block.ToAddress] = append(inbox[s.Block.ToAddress], I64(ids.Hash(s.Block.Hash)))
			accts[s.Block.ToAddress] = true
		}
	}
	at, rt, it := Lst(), Lst(), Lst()
	for _, a := range sb.Accounts {
		if accts[a] {
			at = append(at, I64(ids.Addr(a)))
			rt = append(rt, Lst(got[a]...))
			it = append(it, Lst(inbox[a]...))
		}
	}
	out.Case("c04_hist", Tup(U64(0), events, at), Tup(codes, rt, it), "fork-insertchain")
}
