package main

// Sends addressed to ODD addresses, and several accounts competing for each of them.
// "Every send is received at most once, and only by the account it is addressed to" is a statement about EVERY send block
// the verifier lets onto a chain, whatever its ToAddress: the zero address ("ToAddress can be null" in amounts()), an
// address nobody holds a key of, the sender itself, an embedded-prefixed address that is no contract, a contract without
// the called method (the last two are refused when the send is made: counted, nothing to receive). Nobody can receive
// the first two kinds at all once the receiver rule is in force; the sender alone receives a send to itself.
//   oddSend   - a user send to such an address (one in six of the user-to-user sends of a history, and on demand)
//   oddProbe  - one confirmed odd send, and receive attempts for it by SEVERAL different accounts one after the other
//               (the addressee where one exists, the sender, strangers; inserted when accepted; sometimes a momentum in
//               between, so the attempts meet the earlier receive unconfirmed and confirmed), then one of them again
// Every attempt is an event of the model with its verdict class (c04_check + c04_hist); the ledger-scan oracle
// c04-receive-once-addressee-fifo afterwards states the property for these sends like for every other one
// (received-twice / wrong-receiver; below the enforcement height the legacy rule: once per account, user blocks only).
import (
	"math/big"
	. "zharness/hz"

	"github.com/zenon-network/go-zenon/chain/nom"
	"github.com/zenon-network/go-zenon/common/types"
	"github.com/zenon-network/go-zenon/wallet"
)

const (
	oddZero = iota
	oddNobody
	oddSelf
	oddNoContract
	oddNoMethod
	oddKinds
)

var oddName = []string{"zero-address", "address-nobody-holds", "sender-itself", "embedded-prefix-no-contract", "contract-without-the-method"}

// oddTarget: the ToAddress (and data) of an odd send of sender
func (h *hist) oddTarget(kind int, sender types.Address) (types.Address, []byte) {
	rng := h.rng
	switch kind {
	case oddZero:
		return types.ZeroAddress, nil
	case oddNobody:
		var a types.Address
		rng.Read(a[:])
		a[0] = types.UserAddrByte
		return a, nil
	case oddSelf:
		return sender, nil
	case oddNoContract:
		var a types.Address
		rng.Read(a[:])
		a[0] = types.ContractAddrByte
		return a, nil
	}
	data := make([]byte, 4+rng.Intn(3)*32)
	rng.Read(data)
	return []types.Address{types.PillarContract, types.TokenContract, types.AcceleratorContract, types.PlasmaContract}[rng.Intn(4)], data
}

// oddSend: one user send to an odd address; returns the block when the verifier took it
func (h *hist) oddSend(kind int) *nom.AccountBlock {
	rng := h.rng
	kp := h.actors[rng.Intn(len(h.actors))]
	b := &nom.AccountBlock{BlockType: nom.BlockTypeUserSend, Address: kp.Address, TokenStandard: types.ZnnTokenStandard, Amount: big.NewInt(int64(1 + rng.Intn(1000)))}
	h.payload(b)
	to, data := h.oddTarget(kind, kp.Address)
	b.ToAddress = to
	if data != nil {
		b.Data = data
	}
	h.nd.Fill(b)
	h.nd.SetPlasma(b)
	_, code := h.apply(b, kp, true, "user-send-to:"+oddName[kind])
	if code != 0 {
		h.out.Count("c04:odd-send-refused:" + oddName[kind])
		return nil
	}
	h.out.Count("c04:odd-send:" + oddName[kind])
	return b
}

// oddKindOf: which kind of odd send a send block is ("" for an ordinary one)
func oddKindOf(b *nom.AccountBlock) string {
	switch {
	case b.BlockType != nom.BlockTypeUserSend || types.IsEmbeddedAddress(b.ToAddress):
		return ""
	case b.ToAddress == types.ZeroAddress:
		return oddName[oddZero]
	case b.ToAddress == b.Address:
		return oddName[oddSelf]
	case KeyOf(b.ToAddress) == nil:
		return oddName[oddNobody]
	}
	return ""
}

func (h *hist) oddProbe() {
	rng := h.rng
	confirmedOdd := func() []*nom.AccountBlock {
		var l []*nom.AccountBlock
		for _, s := range h.sc.Scan(true).Sends {
			if s.Confirmed && oddKindOf(s.Block) != "" {
				l = append(l, s.Block)
			}
		}
		return l
	}
	cands := confirmedOdd()
	if len(cands) == 0 || rng.Intn(3) == 0 {
		// two times in three the send to the zero address: the only odd address every node agrees on
		kind := oddZero
		if rng.Intn(3) == 0 {
			kind = rng.Intn(oddKinds)
		}
		made := h.oddSend(kind)
		h.momentum()
		if made != nil {
			for _, c := range confirmedOdd() {
				if c.Hash == made.Hash {
					cands = []*nom.AccountBlock{c}
				}
			}
		}
	}
	if len(cands) == 0 {
		h.out.Count("c04:odd-probe:nothing-confirmed")
		return
	}
	send := cands[rng.Intn(len(cands))]
	kind := oddKindOf(send)
	// the receivers: a random order of the actors (the sender and, for a send to itself, the addressee are among them)
	order := rng.Perm(len(h.actors))
	k := 2 + rng.Intn(len(order)-1)
	accepted := 0
	var tried []*wallet.KeyPair
	for _, i := range order[:k] {
		kp := h.actors[i]
		tried = append(tried, kp)
		who := "stranger"
		switch {
		case kp.Address == send.ToAddress:
			who = "addressee"
		case kp.Address == send.Address:
			who = "sender"
		}
		b := &nom.AccountBlock{BlockType: nom.BlockTypeUserReceive, Address: kp.Address, FromBlockHash: send.Hash}
		h.nd.Fill(b)
		h.nd.SetPlasma(b)
		_, code := h.apply(b, kp, true, "receive-of-send-to:"+kind+":by-"+who)
		if code == 0 {
			accepted++
		}
		if rng.Intn(4) == 0 {
			h.momentum()
		}
	}
	// and one of them again
	kp := tried[rng.Intn(len(tried))]
	b := &nom.AccountBlock{BlockType: nom.BlockTypeUserReceive, Address: kp.Address, FromBlockHash: send.Hash}
	h.nd.Fill(b)
	h.nd.SetPlasma(b)
	if _, code := h.apply(b, kp, true, "receive-of-send-to:"+kind+":again"); code == 0 {
		accepted++
	}
	switch {
	case accepted == 0:
		h.out.Count("c04:odd-probe:" + kind + ":" + h.regimeNow() + ":nobody-received")
	case accepted == 1:
		h.out.Count("c04:odd-probe:" + kind + ":" + h.regimeNow() + ":one-received")
	default:
		h.out.Count("c04:odd-probe:" + kind + ":" + h.regimeNow() + ":several-received")
	}
	h.oracle("after-odd-probe")
}

func (h *hist) regimeNow() string {
	if h.nd.EnforcedNow() {
		return "enforced"
	}
	return "legacy"
}
