package main

// Contract inboxes with k >= 1 sends IN LINE, and contract receives offered for every kind of send through every door
// the product has (hz/c04_inbox.go). The pillar's worker empties the inboxes after each of its momentums, so the state in
// which the next-in-line check decides anything only exists between a momentum of another producer and the receives
// that follow it. inboxProbe builds that state (one to four calls, to one contract or two, confirmed by ONE momentum whose
// producer's receives have not arrived) or takes it as a rollback / restart left it, and then walks every such contract
// down its line: with k, k-1, ... 1 sends in line it offers receives of the contract for
//     the 2nd in line · every kind of ALREADY RECEIVED send (the one received last - usually confirmed by the same
//     momentum as the head -, an earlier one) · a send addressed to another contract · a send between users · an unknown hash
// each through a door drawn at random (GenerateAutoReceive of the chosen send / a relayed well-formed ContractReceive
// through ChainBridge.AddAccountBlocks / the same block inside a momentum delivered through ChainBridge.InsertChain), and
// then the head itself (generated and inserted, or generated elsewhere and relayed), which moves the line on by one.
//   ORACLES  c04-contract-receive-accepted-iff-head-of-inbox   per offer: accepted <=> the send is the head of the
//                                                              contract's inbox as the ledger shows it
//            c04-send-in-line-receivable                       afterwards the line can be received to its end, in order
//            (+ the two ledger-scan oracles of the suite after the walk)
// Every offer is also an event of the model (EBlock at the contract's frontier, inserted or not) with its verdict class.
import (
	"fmt"
	"sort"
	"strings"
	. "zharness/hz"

	"github.com/zenon-network/go-zenon/chain/nom"
	"github.com/zenon-network/go-zenon/common/types"
	"github.com/zenon-network/go-zenon/protocol"
	"github.com/zenon-network/go-zenon/vm"
	"github.com/zenon-network/go-zenon/vm/embedded/definition"
	"math/big"
)

const (
	doorGenerate = iota // vm.Supervisor.GenerateAutoReceive(send)
	doorRelayed         // protocol.ChainBridge.AddAccountBlocks([block])
	doorMomentum        // protocol.ChainBridge.InsertChain([momentum listing the block])
)

var doorName = []string{"generate-auto-receive", "relayed-block", "delivered-momentum"}

// callTo: a call of contract c by a random actor (pooled if the verifier takes it)
func (h *hist) callTo(c types.Address) {
	rng := h.rng
	kp := h.actors[rng.Intn(len(h.actors))]
	b := &nom.AccountBlock{BlockType: nom.BlockTypeUserSend, Address: kp.Address, ToAddress: c, TokenStandard: types.ZnnTokenStandard,
		Amount: big.NewInt(int64(1 + rng.Intn(100)))}
	switch c {
	case types.PillarContract:
		if rng.Intn(2) == 0 {
			b.TokenStandard = types.QsrTokenStandard
			b.Data = definition.ABICommon.PackMethodPanic(definition.DepositQsrMethodName)
		} else {
			b.Amount = big.NewInt(0)
			b.Data = definition.ABICommon.PackMethodPanic(definition.WithdrawQsrMethodName)
		}
	case types.TokenContract:
		b.Data = definition.ABIToken.PackMethodPanic(definition.BurnMethodName)
	default:
		b.ToAddress = types.AcceleratorContract
		b.Data = definition.ABICommon.PackMethodPanic(definition.DonateMethodName)
	}
	h.nd.Fill(b)
	h.nd.SetPlasma(b)
	h.apply(b, kp, true, "contract-call")
}

func (h *hist) inboxes() map[types.Address]*Inbox {
	inb, err := Inboxes(h.nd.Ch)
	if err != nil {
		h.out.Count("c04:inbox-probe:scan-failed:" + err.Error())
		return nil
	}
	return inb
}

func withLine(inb map[types.Address]*Inbox) []types.Address {
	var cs []types.Address
	for c, i := range inb {
		if i.Pending() > 0 {
			cs = append(cs, c)
		}
	}
	sort.Slice(cs, func(i, j int) bool { return cs[i].String() < cs[j].String() })
	return cs
}

func (h *hist) inboxProbe() {
	rng := h.rng
	inb := h.inboxes()
	if inb == nil {
		return
	}
	if len(withLine(inb)) == 0 || rng.Intn(3) == 0 {
		// one to four calls confirmed by ONE momentum of another producer; its receives have not arrived
		targets := []types.Address{types.AcceleratorContract, types.PillarContract, types.TokenContract}
		c1, c2 := targets[rng.Intn(3)], targets[rng.Intn(3)]
		for k := 1 + rng.Intn(4); k > 0; k-- {
			if rng.Intn(4) == 0 {
				h.callTo(c2)
			} else {
				h.callTo(c1)
			}
		}
		h.momentumKind(momListedUndrained)
		if inb = h.inboxes(); inb == nil {
			return
		}
	}
	cs := withLine(inb)
	if len(cs) == 0 {
		h.out.Count("c04:inbox-probe:nothing-in-line")
		return
	}
	br := BridgeOf(h.nd)
	for _, c := range cs {
		h.walkLine(br, c)
	}
	h.oracle("after-inbox-probe")
	if rng.Intn(2) == 0 {
		// whatever is still in line can be received to the end, in order, the way the producer's worker does it
		before := h.known()
		_, err := h.nd.GenerateContractReceives()
		for _, b := range h.sc.PoolBlocks() {
			if b.BlockType == nom.BlockTypeContractReceive && !before[b.Hash] {
				h.checkCaseOfInserted(b)
				h.event(b, true, 0, "auto:contract-receive")
			}
		}
		left := 0
		d := M{}
		if inb = h.inboxes(); inb != nil {
			for c, i := range inb {
				if l := i.Line(); len(l) > 0 {
					left += len(l)
					d["unreceived"] = fmt.Sprintf("%v: %v, confirmed and not received by the contract, is not receivable", c, l[0])
				}
			}
		}
		d["left-in-line"] = left
		if err != nil {
			d["error"] = err.Error()
		}
		h.out.Oracle(err == nil && left == 0, "c04-send-in-line-receivable", d)
		h.oracle("after-inbox-drained")
	}
}

// the unconfirmed blocks the history knows of (mirror of the model's pool)
func (h *hist) known() map[types.Hash]bool {
	known := map[types.Hash]bool{}
	for _, l := range h.mirror {
		for _, e := range l {
			known[e.hash] = true
		}
	}
	return known
}

func isLast(cd lineCand) bool { return strings.HasPrefix(cd.kind, "already-received:last") }

type lineCand struct {
	kind string
	from types.Hash
	send *nom.AccountBlock // nil: unknown hash
	data []byte            // what the original receive of an already received send carries
}

// walkLine: offers for every position of the line of contract c
func (h *hist) walkLine(br protocol.ChainBridge, c types.Address) {
	rng := h.rng
	for round := 0; round < 6; round++ {
		inb := h.inboxes()
		if inb == nil || inb[c].Pending() == 0 {
			return
		}
		in := inb[c]
		line, recvd := in.Line(), in.Received()
		k := len(line)
		switch {
		case k == 1:
			h.out.Count("c04:inbox-probe:in-line:1")
		case k == 2:
			h.out.Count("c04:inbox-probe:in-line:2")
		default:
			h.out.Count("c04:inbox-probe:in-line:3+")
		}
		ms := h.nd.Ch.GetFrontierMomentumStore()
		head := line[0]
		headAt, _ := ms.GetBlockConfirmationHeight(head)
		var cands []lineCand
		add := func(kind string, from types.Hash) {
			sb, _ := ms.GetAccountBlockByHash(from)
			if sb == nil {
				return
			}
			cd := lineCand{kind: kind, from: from, send: sb}
			if at, _ := ms.GetBlockConfirmationHeight(from); at == headAt {
				cd.kind += ":confirmed-with-the-head"
			}
			cands = append(cands, cd)
		}
		if k >= 2 {
			add("second-in-line", line[1])
		}
		if n := len(recvd); n > 0 {
			add("already-received:last", recvd[n-1])
			if n > 1 {
				add("already-received:earlier", recvd[rng.Intn(n-1)])
			}
		}
		// a send addressed to another contract (in line there or received there), a send between users
		var others []types.Hash
		for d, o := range inb {
			if d != c {
				others = append(others, o.Order...)
			}
		}
		if len(others) > 0 {
			sort.Slice(others, func(i, j int) bool { return others[i].String() < others[j].String() })
			add("addressed-to-another-contract", others[rng.Intn(len(others))])
		}
		if rng.Intn(2) == 0 {
			var us []types.Hash
			for _, s := range h.sc.Scan(false).Sends {
				if s.Confirmed && !types.IsEmbeddedAddress(s.Block.ToAddress) {
					us = append(us, s.Block.Hash)
				}
			}
			if len(us) > 0 {
				add("addressed-to-a-user", us[rng.Intn(len(us))])
			}
		}
		if rng.Intn(2) == 0 {
			var x types.Hash
			rng.Read(x[:])
			cands = append(cands, lineCand{kind: "unknown-hash", from: x})
		}
		// the data the contract's own earlier receive of a send carries
		for i := range cands {
			if cands[i].send != nil && cands[i].send.ToAddress == c {
				if hd := ms.GetAccountMailbox(c).GetBlockWhichReceives(cands[i].from); hd != nil {
					if rb, _ := h.nd.Ch.GetFrontierAccountStore(c).ByHash(hd.Hash); rb != nil {
						cands[i].data = rb.Data
					}
				}
			}
		}
		// three offers per position of the line: the send received last always, the others drawn
		if len(cands) > 3 {
			rng.Shuffle(len(cands), func(i, j int) { cands[i], cands[j] = cands[j], cands[i] })
			sort.SliceStable(cands, func(i, j int) bool { return isLast(cands[i]) && !isLast(cands[j]) })
			cands = cands[:3]
		}
		if k >= 3 && rng.Intn(2) == 0 {
			cands = nil // (a long line: half of its far positions only move the line on)
		}
		for _, cd := range cands {
			h.offerNotHead(br, c, cd, rng.Intn(3), k)
		}
		hb, _ := ms.GetAccountBlockByHash(head)
		if hb == nil {
			h.out.Oracle(false, "c04-contract-receive-accepted-iff-head-of-inbox", M{"contract": c.String(), "head-not-in-store": head.String()})
			return
		}
		if !h.offerHead(br, c, hb, rng.Intn(2), k) || rng.Intn(6) == 0 {
			return
		}
	}
}

// the verdict of one offer, as oracle and as event of the model. accepted: the block passed; inPool: it is in the pool now
func (h *hist) verdict(c types.Address, b *nom.AccountBlock, kind string, door int, k int, isHead bool, err error, inPool bool) {
	accepted := err == nil
	d := M{"contract": c.String(), "from": b.FromBlockHash.String(), "offered": kind, "door": doorName[door], "in-line": k,
		"is-head-of-inbox": isHead, "accepted": accepted, "in-pool-afterwards": inPool, "block": fmt.Sprintf("%v", b.Header())}
	if err != nil {
		d["error"] = err.Error()
	}
	h.out.Oracle(accepted == isHead && (isHead || !inPool), "c04-contract-receive-accepted-iff-head-of-inbox", d)
	what := "inbox-probe:" + kind
	h.out.Count("c04:inbox-probe:door:" + doorName[door])
	code := errCode(err)
	if code < 0 {
		h.out.Count("c04:skipped:" + what + ":" + err.Error())
		return
	}
	h.checkCase(b, code, what)
	h.event(b, inPool, code, what)
}

func (h *hist) inPool(b *nom.AccountBlock) bool {
	return h.nd.Ch.GetPatch(b.Address, b.Identifier()) != nil
}

// offerNotHead: a receive of contract c for a send that is not the head of its inbox. Must be refused at every door.
func (h *hist) offerNotHead(br protocol.ChainBridge, c types.Address, cd lineCand, door int, k int) {
	if cd.send == nil && door == doorGenerate {
		// the generator is handed a send block; an unknown one is a block nobody confirmed
		cd.send = &nom.AccountBlock{BlockType: nom.BlockTypeUserSend, Address: h.actors[0].Address, ToAddress: c, Hash: cd.from,
			TokenStandard: types.ZnnTokenStandard, Amount: big.NewInt(1)}
	}
	switch door {
	case doorGenerate:
		cp := *cd.send
		cp.ToAddress = c // the generator receives the send for the address the block names
		res, err, crash := h.generate(&cp)
		if crash != "" {
			// the generator has no recover of its own: the template passed the verifier and the VM ran on a send it cannot run on
			b := h.formed(c, cd.from, cd.data)
			h.out.Oracle(false, "c04-contract-receive-accepted-iff-head-of-inbox", M{"contract": c.String(), "from": cd.from.String(), "offered": cd.kind,
				"door": doorName[door], "in-line": k, "is-head-of-inbox": false, "passed-the-verifier": true, "vm-panic": crash, "block": fmt.Sprintf("%v", b.Header())})
			return
		}
		if err == nil && res != nil && res.Transaction != nil {
			// (it must not be: insert it as the producer would, so that the ledger shows what follows from it)
			b := res.Transaction.Block
			ierr := h.nd.Insert(res.Transaction)
			h.verdict(c, b, cd.kind, door, k, false, nil, ierr == nil)
			return
		}
		h.verdict(c, h.formed(c, cd.from, cd.data), cd.kind, door, k, false, err, false)
	case doorRelayed:
		b := h.formed(c, cd.from, cd.data)
		err := br.AddAccountBlocks([]*nom.AccountBlock{WireCopyBlock(b)})
		h.verdict(c, b, cd.kind, door, k, false, err, h.inPool(b))
	default:
		b := h.formed(c, cd.from, cd.data)
		_, err := br.InsertChain([]*nom.DetailedMomentum{h.nd.DeliveredMomentumWith([]*nom.AccountBlock{WireCopyBlock(b)})})
		in := h.inPool(b)
		if err == nil {
			// (a momentum of the harness' making is never a valid one; its account blocks are looked at first)
			h.out.Count("c04:inbox-probe:delivered-momentum-adopted")
		}
		if in {
			err = nil // the block itself passed
		}
		h.verdict(c, b, cd.kind, door, k, false, err, in)
	}
}

// offerHead: the receive of the head of the line. Must be accepted; it is inserted, the line moves on.
func (h *hist) offerHead(br protocol.ChainBridge, c types.Address, send *nom.AccountBlock, door int, k int) bool {
	res, err, crash := h.generate(send)
	if crash != "" {
		err = harnessErr("panic: " + crash)
	}
	if err != nil || res == nil || res.Transaction == nil {
		b := h.formed(c, send.Hash, nil)
		if err == nil {
			err = errNoBlock
		}
		h.verdict(c, b, "head", doorGenerate, k, true, err, false)
		return false
	}
	b := res.Transaction.Block
	if door == doorGenerate {
		if ierr := h.nd.Insert(res.Transaction); ierr != nil {
			h.out.Count("c04:insert-failed:" + ierr.Error())
			h.verdict(c, b, "head", door, k, true, nil, false)
			return false
		}
		h.verdict(c, b, "head", door, k, true, nil, true)
		return true
	}
	// generated by the producer, relayed to this node
	err = br.AddAccountBlocks([]*nom.AccountBlock{WireCopyBlock(b)})
	in := h.inPool(b)
	h.verdict(c, b, "head", doorRelayed, k, true, err, in)
	return err == nil && in
}

// formed: the well-formed contract receive of c for from at c's frontier (hz.ContractReceiveFor)
func (h *hist) formed(c types.Address, from types.Hash, data []byte) *nom.AccountBlock {
	b, executed := h.nd.ContractReceiveFor(c, from, data)
	if executed {
		h.out.Count("c04:inbox-probe:offered-block:as-executing-the-send-gives-it")
	} else {
		h.out.Count("c04:inbox-probe:offered-block:bare-template")
	}
	return b
}

// generate: vm.Supervisor.GenerateAutoReceive, a panic of the VM reported as such
func (h *hist) generate(send *nom.AccountBlock) (res *vm.ContractExecution, err error, crash string) {
	defer func() {
		if r := recover(); r != nil {
			crash = fmt.Sprintf("%v", r)
		}
	}()
	res, err = h.nd.Sv.GenerateAutoReceive(send)
	return
}

type harnessErr string

func (e harnessErr) Error() string { return string(e) }

var errNoBlock error = harnessErr("no block returned")
