package main

// C04 harness: histories on a real in-process node with competing receive attempts (same account twice, another
// account, before/after confirmation, replacement of an unconfirmed receive by a competing block, re-receiving after
// a rollback of the momentum, restarts), sends to contracts from several accounts confirmed in the pool's own order,
// crafted contract receives out of order.
//   ORACLE (independent of the model, on a full ledger scan after every momentum / pool state / rollback / restart):
//     send-hash -> receiving blocks has size <= 1, the receiver is the send's ToAddress, the send is confirmed;
//     every contract chain receives exactly a prefix of the confirmed sends addressed to it, in confirmation order
//   c04_check : per receive candidate, the facts the verifier reads -> verdict class
//   c04_hist  : the whole history as model events -> verdict class of every event + final receive sequences / inboxes
import (
	"math/big"
	"math/rand"
	"sort"
	. "zharness/hz"

	"github.com/zenon-network/go-zenon/chain"
	"github.com/zenon-network/go-zenon/chain/nom"
	"github.com/zenon-network/go-zenon/common/types"
	"github.com/zenon-network/go-zenon/verifier"
	"github.com/zenon-network/go-zenon/vm/embedded/definition"
	"github.com/zenon-network/go-zenon/wallet"
)

func main() { Main(map[string]Runner{"hist": runHist, "fork": runFork}) }

// Of eight histories five enforce the receiver rule from genesis (enforcement height 0), one runs wholly below the
// enforcement height, two have the enforcement height in the middle: the switch-over is crossed by momentums and crossed
// back by rollbacks.
func runHist(rng *rand.Rand, n int, out *Out, _ []string) {
	for i := 0; i < n; i++ {
		var enf uint64
		switch i % 8 {
		case 7:
			enf = 1 << 60
		case 3, 5:
			enf = uint64(3 + rng.Intn(12))
		}
		history(rng, out, 60+rng.Intn(60), enf)
	}
}

func errCode(err error) int64 {
	switch err {
	case nil:
		return 0
	case verifier.ErrABFromBlockMissing:
		return 6
	case verifier.ErrABFromBlockReceiverMismatch:
		return 7
	case verifier.ErrABFromBlockAlreadyReceived:
		return 8
	case verifier.ErrABSequencerNothing:
		return 9
	case verifier.ErrABSequencerNotNext:
		return 10
	case verifier.ErrABMAMissing:
		return 16
	}
	return -1
}

var codeName = map[int64]string{0: "accepted", 6: "from-missing", 7: "receiver-mismatch", 8: "already-received",
	9: "sequencer-nothing", 10: "sequencer-not-next", 16: "ma-missing"}

type poolEntry struct {
	first uint64 // height of the first block of the batch (descendants come first)
	last  uint64
	hash  types.Hash
}

type hist struct {
	nd     *Node
	rng    *rand.Rand
	out    *Out
	ids    *IDs
	sc     *Scanner
	actors []*wallet.KeyPair
	enf    uint64                // verifier.ReceiverMismatchEnforcementHeight of this history
	legacy map[types.Hash]bool   // blocks the node accepted while its frontier was below the enforcement height
	events []interface{}
	codes  []interface{}
	mirror map[types.Address][]poolEntry // the unconfirmed batches per account, as the model sees them
	nEv    map[string]int
}

func history(rng *rand.Rand, out *Out, steps int, enf uint64) {
	nd := NewNodeEnforcedAt(enf)
	defer ResetEnforcement()
	defer nd.Stop()
	h := &hist{nd: nd, rng: rng, out: out, ids: NewIDs(), sc: NewScanner(nd), actors: Actors(), enf: enf, legacy: map[types.Hash]bool{},
		events: Lst(), codes: Lst(), mirror: map[types.Address][]poolEntry{}, nEv: map[string]int{}}
	out.Count("c04:history-regime:" + h.regime())
	for s := 0; s < steps; s++ {
		switch k := rng.Intn(100); {
		case k < 22:
			h.send(false)
		case k < 40:
			h.send(true)
		case k < 59:
			h.receive()
		case k < 62:
			h.oddProbe()
		case k < 70:
			h.replace()
		case k < 73:
			h.contractAttempt()
		case k < 76:
			h.pendingAttempt()
		case k < 79:
			h.inboxProbe()
		case k < 93:
			h.momentum()
		case k < 97:
			h.rollback()
		default:
			h.restart()
		}
	}
	h.momentum()
	h.momentum()
	h.finish()
}

func (h *hist) regime() string {
	switch {
	case h.enf <= 1:
		return "enforced"
	case h.enf >= 1<<59:
		return "pre-enforcement"
	}
	return "switch-over"
}

// ---------------------------------------------------------------- model blocks / events

func (h *hist) blkTerm(b *nom.AccountBlock) M {
	x := h.ids
	var kind M
	if b.IsSendBlock() {
		kind = Con("BSend", I64(x.Addr(b.ToAddress)))
	} else {
		kind = Con("BRecv", I64(x.Hash(b.FromBlockHash)))
	}
	descs := Lst()
	for _, d := range b.DescendantBlocks {
		descs = append(descs, Tup(I64(x.Hash(d.Hash)), I64(x.Addr(d.ToAddress))))
	}
	return Con("mkBlk", I64(x.Hash(b.Hash)), I64(x.Addr(b.Address)), kind, U64(b.MomentumAcknowledged.Height), descs)
}

func firstHeight(b *nom.AccountBlock) uint64 {
	if len(b.DescendantBlocks) > 0 {
		return b.DescendantBlocks[0].Height
	}
	return b.Height
}

// keepFor: how many unconfirmed batches of the account stay below the candidate
func (h *hist) keepFor(b *nom.AccountBlock) int64 {
	fh := firstHeight(b)
	k := int64(0)
	for _, e := range h.mirror[b.Address] {
		if e.last < fh {
			k++
		}
	}
	return k
}

func (h *hist) event(b *nom.AccountBlock, commit bool, code int64, what string) {
	keep := h.keepFor(b)
	h.events = append(h.events, Con("EBlock", I64(keep), commit, h.blkTerm(b)))
	h.codes = append(h.codes, I64(code))
	h.out.Count("c04:event:" + what + ":" + codeName[code])
	if commit && code == 0 {
		m := h.mirror[b.Address]
		if int64(len(m)) > keep {
			h.out.Count("c04:replaced-unconfirmed-blocks")
			m = m[:keep]
		}
		h.mirror[b.Address] = append(m, poolEntry{firstHeight(b), b.Height, b.Hash})
	}
}

// ---------------------------------------------------------------- the verifier's facts for one receive candidate

func (h *hist) checkCase(b *nom.AccountBlock, code int64, tag string) {
	x := h.ids
	ms := h.nd.Ch.GetMomentumStore(b.MomentumAcknowledged)
	as := h.nd.Ch.GetAccountStore(b.Address, b.Previous())
	if ms == nil || as == nil {
		return
	}
	sendto := None()
	if sb, err := ms.GetAccountBlockByHash(b.FromBlockHash); err == nil && sb != nil {
		sendto = Some(I64(x.Addr(sb.ToAddress)))
	}
	next := None()
	if types.IsEmbeddedAddress(b.Address) {
		if hd := as.SequencerFront(ms.GetAccountMailbox(b.Address)); hd != nil {
			next = Some(I64(x.Hash(hd.Hash)))
		}
	}
	h.out.Case("c04_check", Tup(Tup(U64(h.enf), U64(h.nd.FrontierHeight())), I64(x.Addr(b.Address)), I64(x.Hash(b.FromBlockHash)), sendto, as.IsReceived(b.FromBlockHash), next),
		I64(code), tag+":"+codeName[code])
}

// ---------------------------------------------------------------- actions

func (h *hist) apply(b *nom.AccountBlock, kp *wallet.KeyPair, commit bool, what string) (*nom.AccountBlockTransaction, int64) {
	if kp != nil {
		Sign(b, kp)
	}
	tx, err := h.nd.Apply(b)
	code := errCode(err)
	if code < 0 {
		h.out.Count("c04:skipped:" + what + ":" + err.Error())
		return nil, code
	}
	if b.IsReceiveBlock() {
		h.checkCase(b, code, what)
		if code == 0 {
			h.out.Count("c04:accepted-receive:" + h.receiverKind(b))
			if !h.nd.EnforcedNow() {
				h.legacy[b.Hash] = true
			}
		}
	}
	if code == 0 && commit {
		if e := h.nd.Insert(tx); e != nil {
			// the pool refused it (priority); the verdict of the verifier still stands
			if e == chain.ErrPlasmaRatioIsWorse || e == chain.ErrHashTieBreak {
				h.out.Count("c04:pool-priority-refused")
			} else {
				h.out.Count("c04:insert-failed:" + e.Error())
			}
			commit = false
		}
	}
	h.event(b, commit && code == 0, code, what)
	return tx, code
}

// receiverKind: who receives, and in which regime (distribution counter)
func (h *hist) receiverKind(b *nom.AccountBlock) string {
	reg := "enforced"
	if !h.nd.EnforcedNow() {
		reg = "legacy"
	}
	if sb, _ := h.nd.Ch.GetFrontierMomentumStore().GetAccountBlockByHash(b.FromBlockHash); sb != nil && sb.ToAddress != b.Address {
		return reg + ":non-addressee"
	}
	return reg + ":addressee"
}

func (h *hist) send(toContract bool) {
	rng := h.rng
	if !toContract && rng.Intn(6) == 0 {
		h.oddSend(rng.Intn(oddKinds)) // addressed to the zero address, to nobody, to the sender, ... (odd.go)
		return
	}
	kp := h.actors[rng.Intn(len(h.actors))]
	b := &nom.AccountBlock{BlockType: nom.BlockTypeUserSend, Address: kp.Address, TokenStandard: types.ZnnTokenStandard, Amount: big.NewInt(int64(1 + rng.Intn(1000)))}
	if !toContract {
		h.payload(b)
	}
	if toContract {
		switch rng.Intn(4) {
		case 0:
			b.ToAddress, b.TokenStandard = types.PillarContract, types.QsrTokenStandard
			b.Data = definition.ABICommon.PackMethodPanic(definition.DepositQsrMethodName)
		case 1:
			b.ToAddress = types.AcceleratorContract
			b.Data = definition.ABICommon.PackMethodPanic(definition.DonateMethodName)
		case 2:
			b.ToAddress, b.Amount = types.PillarContract, big.NewInt(0)
			b.Data = definition.ABICommon.PackMethodPanic(definition.WithdrawQsrMethodName)
		default:
			b.ToAddress, b.Amount = types.TokenContract, big.NewInt(int64(1+rng.Intn(50)))
			b.Data = definition.ABIToken.PackMethodPanic(definition.BurnMethodName)
		}
	} else {
		b.ToAddress = h.actors[rng.Intn(len(h.actors))].Address
	}
	h.nd.Fill(b)
	h.nd.SetPlasma(b)
	what := "user-send"
	if toContract {
		what = "contract-call"
	}
	h.apply(b, kp, true, what)
}

// payload: what a send between users carries. A send is a send whatever it carries: the boundary amounts (nothing, one
// unit, the sender's whole balance), the other coin, the zero token standard (amount 0 only), with and without data.
func (h *hist) payload(b *nom.AccountBlock) {
	rng := h.rng
	switch rng.Intn(8) {
	case 0, 1: // nothing
		b.Amount = big.NewInt(0)
	case 2: // nothing, of no token
		b.Amount, b.TokenStandard = big.NewInt(0), types.ZeroTokenStandard
	case 3: // one unit
		b.Amount = big.NewInt(1)
	}
	if rng.Intn(3) == 0 && b.TokenStandard != types.ZeroTokenStandard {
		b.TokenStandard = types.QsrTokenStandard
	}
	if rng.Intn(40) == 0 && b.TokenStandard != types.ZeroTokenStandard { // everything the sender has
		if bal, err := h.nd.Ch.GetFrontierAccountStore(b.Address).GetBalance(b.TokenStandard); err == nil && bal.Sign() > 0 {
			b.Amount = bal
		}
	}
	if rng.Intn(4) == 0 { // a message
		b.Data = make([]byte, 1+rng.Intn(40))
		rng.Read(b.Data)
	}
	kind := "some"
	switch {
	case b.Amount.Sign() == 0:
		kind = "zero"
	case b.Amount.Cmp(big.NewInt(1)) == 0:
		kind = "one"
	}
	zts := map[types.ZenonTokenStandard]string{types.ZnnTokenStandard: "znn", types.QsrTokenStandard: "qsr", types.ZeroTokenStandard: "zero-zts"}[b.TokenStandard]
	data := ""
	if len(b.Data) > 0 {
		data = ":data"
	}
	h.out.Count("c04:user-send-payload:amount-" + kind + ":" + zts + data)
}

func (h *hist) receive() { h.receiveMode(-1) }

// receiveMode: one receive attempt; mode < 0 draws the kind of attempt
func (h *hist) receiveMode(mode int) {
	rng := h.rng
	pl := h.sc.Scan(true)
	if mode < 0 {
		mode = rng.Intn(10)
		if !h.nd.EnforcedNow() && rng.Intn(3) == 0 {
			mode = 5 + rng.Intn(5) // below the enforcement height: more repeated and foreign attempts
		}
	}
	var cands []*nom.AccountBlock
	for _, s := range pl.Sends {
		if types.IsEmbeddedAddress(s.Block.ToAddress) && !(mode >= 8 && rng.Intn(4) == 0) {
			continue // (a send to a contract only as the target of an attempt by another account)
		}
		recvd := len(pl.ReceivedBy[s.Block.Hash]) > 0
		switch {
		case mode <= 4 && !recvd && s.Confirmed: // valid
			cands = append(cands, s.Block)
		case (mode == 5 || mode == 6) && recvd: // again, by an account that has received it (addressee or not)
			cands = append(cands, s.Block)
		case mode == 7 && !s.Confirmed: // not yet confirmed
			cands = append(cands, s.Block)
		case mode >= 8 && s.Confirmed: // by another account (received or not)
			cands = append(cands, s.Block)
		}
	}
	var from types.Hash
	var send *nom.AccountBlock
	if len(cands) > 0 {
		send = cands[rng.Intn(len(cands))]
		from = send.Hash
	} else {
		rng.Read(from[:])
	}
	var kp *wallet.KeyPair
	if send != nil && mode < 8 {
		kp = KeyOf(send.ToAddress)
		if l := pl.ReceivedBy[send.Hash]; (mode == 5 || mode == 6) && len(l) > 0 {
			if k := KeyOf(l[rng.Intn(len(l))].Address); k != nil {
				kp = k
			}
		}
	}
	if kp == nil {
		kp = h.actors[rng.Intn(len(h.actors))]
	}
	b := &nom.AccountBlock{BlockType: nom.BlockTypeUserReceive, Address: kp.Address, FromBlockHash: from}
	h.nd.Fill(b)
	h.nd.SetPlasma(b)
	h.apply(b, kp, rng.Intn(8) != 0, "user-receive")
}

// replace: a competing block at the height of an unconfirmed block of the same account, with a better plasma ratio
func (h *hist) replace() {
	rng := h.rng
	var accts []types.Address
	for a, l := range h.mirror {
		if len(l) > 0 && !types.IsEmbeddedAddress(a) && KeyOf(a) != nil {
			accts = append(accts, a)
		}
	}
	if len(accts) == 0 {
		h.out.Count("c04:replace-nothing-unconfirmed")
		return
	}
	sort.Slice(accts, func(i, j int) bool { return accts[i].String() < accts[j].String() })
	a := accts[rng.Intn(len(accts))]
	kp := KeyOf(a)
	l := h.mirror[a]
	victim := l[rng.Intn(len(l))]
	fr := h.nd.Ch.GetFrontierAccountStore(a)
	vb, err := fr.ByHeight(victim.first)
	if err != nil || vb == nil {
		h.out.Count("c04:replace-victim-not-found")
		return
	}
	b := &nom.AccountBlock{Address: a, PreviousHash: vb.PreviousHash, Height: vb.Height}
	switch rng.Intn(3) {
	case 0: // the same receive again, as a competing block (valid: the marker of the victim is not below it)
		if vb.IsReceiveBlock() {
			b.BlockType, b.FromBlockHash = nom.BlockTypeUserReceive, vb.FromBlockHash
			break
		}
		fallthrough
	case 1: // another receive
		pl := h.sc.Scan(true)
		for _, s := range pl.Sends {
			if s.Confirmed && s.Block.ToAddress == a && rng.Intn(3) == 0 {
				b.BlockType, b.FromBlockHash = nom.BlockTypeUserReceive, s.Block.Hash
				break
			}
		}
		if b.BlockType != 0 {
			break
		}
		fallthrough
	default:
		b.BlockType, b.ToAddress = nom.BlockTypeUserSend, h.actors[rng.Intn(len(h.actors))].Address
		b.TokenStandard, b.Amount = types.ZnnTokenStandard, big.NewInt(int64(rng.Intn(3)*(1+rng.Intn(100))))
	}
	h.nd.Fill(b)
	h.nd.SetPlasma(b)
	b.FusedPlasma = b.FusedPlasma*2 + uint64(rng.Intn(1000)) // better ratio than the victim's exact base
	h.apply(b, kp, true, "replacement")
}

// contractAttempt: re-verify an unconfirmed contract receive at its own position, or a later one at an earlier position
func (h *hist) contractAttempt() {
	rng := h.rng
	var cs []types.Address
	for a, l := range h.mirror {
		if len(l) > 0 && types.IsEmbeddedAddress(a) {
			cs = append(cs, a)
		}
	}
	if len(cs) == 0 || rng.Intn(3) == 0 {
		// several accounts call one contract, one momentum confirms them: the node queues them in content order
		for k := 2 + rng.Intn(3); k > 0; k-- {
			kp := h.actors[rng.Intn(len(h.actors))]
			b := &nom.AccountBlock{BlockType: nom.BlockTypeUserSend, Address: kp.Address, ToAddress: types.AcceleratorContract,
				TokenStandard: types.ZnnTokenStandard, Amount: big.NewInt(int64(1 + rng.Intn(100))),
				Data: definition.ABICommon.PackMethodPanic(definition.DonateMethodName)}
			h.nd.Fill(b)
			h.nd.SetPlasma(b)
			h.apply(b, kp, true, "contract-call")
		}
		h.momentum()
		cs = cs[:0]
		for a, l := range h.mirror {
			if len(l) > 0 && types.IsEmbeddedAddress(a) {
				cs = append(cs, a)
			}
		}
	}
	if len(cs) == 0 {
		h.out.Count("c04:contract-attempt-nothing-unconfirmed")
		return
	}
	sort.Slice(cs, func(i, j int) bool { return cs[i].String() < cs[j].String() })
	c := cs[rng.Intn(len(cs))]
	l := h.mirror[c]
	fr := h.nd.Ch.GetFrontierAccountStore(c)
	i := rng.Intn(len(l))
	j := i + rng.Intn(len(l)-i)
	if i > 0 && rng.Intn(3) == 0 {
		j = rng.Intn(i) // a send the contract has received BELOW that position, presented again as a competing block
	}
	at, err1 := fr.ByHeight(l[i].last)
	what, err2 := fr.ByHeight(l[j].last)
	if err1 != nil || err2 != nil || at == nil || what == nil || !at.IsReceiveBlock() || !what.IsReceiveBlock() {
		h.out.Count("c04:contract-attempt-not-found")
		return
	}
	if j < i {
		// the position of receive #i with the from-hash of receive #j: at least one send is in line there (the one #i takes)
		b, _ := h.nd.ContractReceiveAt(c, what.FromBlockHash, at.Previous(), what.Data)
		_, code := h.apply(b, nil, false, "contract-receive-of-a-received-send-at-earlier-position")
		h.out.Oracle(code != 0, "c04-contract-receive-accepted-iff-head-of-inbox", M{"contract": c.String(), "from": what.FromBlockHash.String(),
			"offered": "already-received:below-the-position", "door": "apply-block", "position": b.Height, "is-head-of-inbox": false, "accepted": code == 0})
		return
	}
	if i == j && rng.Intn(3) == 0 {
		// the frontier position: nothing (or the wrong thing) is next in line there
		b := &nom.AccountBlock{BlockType: nom.BlockTypeContractReceive, Address: c, FromBlockHash: what.FromBlockHash,
			MomentumAcknowledged: what.MomentumAcknowledged}
		h.nd.Fill(b)
		b.Hash = b.ComputeHash()
		h.apply(b, nil, false, "contract-receive-at-frontier")
		return
	}
	prev := at.Previous()
	b := &nom.AccountBlock{BlockType: nom.BlockTypeContractReceive, Address: c, FromBlockHash: what.FromBlockHash,
		MomentumAcknowledged: what.MomentumAcknowledged, PreviousHash: prev.Hash, Height: prev.Height + 1,
		Version: 1, ChainIdentifier: what.ChainIdentifier, Amount: big.NewInt(0), Data: what.Data}
	if i == j {
		// exactly the block that is there: regenerated and accepted
		cp := *what
		b = &cp
	} else {
		b.Hash = b.ComputeHash()
	}
	h.apply(b, nil, false, "contract-receive-at-earlier-position")
}

// pendingAttempt: after a rollback / restart the contract queues hold confirmed sends whose receives are gone.
// Ask the supervisor to generate the receive of a pending send that is NOT the next in line (must be refused),
// or of the head (accepted and inserted, as a producer would).
func (h *hist) pendingAttempt() {
	rng := h.rng
	sc := h.sc.Scan(true)
	pending := map[types.Address][]*nom.AccountBlock{}
	var cs []types.Address
	for _, s := range sc.Sends {
		if s.Confirmed && types.IsEmbeddedAddress(s.Block.ToAddress) && len(sc.ReceivedBy[s.Block.Hash]) == 0 {
			if len(pending[s.Block.ToAddress]) == 0 {
				cs = append(cs, s.Block.ToAddress)
			}
			pending[s.Block.ToAddress] = append(pending[s.Block.ToAddress], s.Block)
		}
	}
	if len(cs) == 0 {
		h.out.Count("c04:pending-attempt-no-queue")
		return
	}
	sort.Slice(cs, func(i, j int) bool { return cs[i].String() < cs[j].String() })
	c := cs[rng.Intn(len(cs))]
	q := pending[c]
	k := rng.Intn(len(q))
	send := q[k]
	ch, _ := h.nd.Ch.GetFrontierMomentumStore().GetBlockConfirmationHeight(send.Hash)
	cm, _ := h.nd.Ch.GetFrontierMomentumStore().GetMomentumByHeight(ch)
	res, err := h.nd.Sv.GenerateAutoReceive(send)
	if err == nil && res != nil && res.Transaction != nil {
		b := res.Transaction.Block
		h.checkCase(b, 0, "generated-from-queue")
		if e := h.nd.Insert(res.Transaction); e != nil {
			h.out.Count("c04:insert-failed:" + e.Error())
			return
		}
		h.event(b, true, 0, "generated-from-queue")
		return
	}
	code := errCode(err)
	if code < 0 {
		h.out.Count("c04:skipped:generated-from-queue:" + err.Error())
		return
	}
	// the template the supervisor verified
	b := &nom.AccountBlock{BlockType: nom.BlockTypeContractReceive, Address: c, FromBlockHash: send.Hash, MomentumAcknowledged: cm.Identifier()}
	h.nd.Fill(b)
	h.checkCase(b, code, "generated-from-queue")
	h.event(b, false, code, "generated-from-queue")
}

// momentum: the node's own producer (sorted content, everything in the pool), or - one in three - a momentum as another
// producer may build it: the pool blocks listed in a random order the verifier accepts, sometimes only a per-account
// prefix of them (hz/c04_listed.go). The listed order is the confirmation order.
func (h *hist) momentum() {
	if h.rng.Intn(3) == 0 {
		h.momentumKind(momListed)
	} else {
		h.momentumKind(momOwn)
	}
}

const (
	momOwn             = iota // the node's own producer: sorted content, the worker's contract receives afterwards
	momListed                 // another producer's listing, then the contract receives as the producer's worker makes them
	momListedUndrained        // another producer's listing and nothing else: the sends to contracts it confirms stay IN LINE (inbox.go)
)

func (h *hist) momentumKind(kind int) {
	before := h.nd.FrontierHeight()
	switch kind {
	case momListed:
		unsorted, listed, err := h.nd.MomentumListed(h.rng, h.rng.Intn(3))
		if err != nil {
			h.out.Count("c04:listed-momentum-failed:" + err.Error())
		}
		h.countListing(unsorted, listed)
	case momListedUndrained:
		unsorted, listed, err := h.nd.MomentumListedUndrained(h.rng, 0)
		if err != nil {
			h.out.Count("c04:listed-momentum-failed:" + err.Error())
		}
		h.countListing(unsorted, listed)
		h.out.Count("c04:momentum-listing:other-producer:receives-not-generated")
	default:
		h.nd.Momentum()
	}
	after := h.nd.FrontierHeight()
	if after != before+1 {
		h.out.Count("c04:momentum-not-inserted")
		return
	}
	h.sc.Scan(false)
	sel := Lst()
	confirmed := map[types.Hash]bool{}
	for _, b := range h.sc.BlocksOfMomentum(after) {
		confirmed[b.Hash] = true
		if b.BlockType == nom.BlockTypeContractSend {
			continue
		}
		sel = append(sel, I64(h.ids.Hash(b.Hash)))
	}
	h.events = append(h.events, Con("EMomentum", sel))
	h.codes = append(h.codes, I64(0))
	h.out.Count("c04:event:momentum")
	for a, l := range h.mirror {
		var keep []poolEntry
		for _, e := range l {
			if !confirmed[e.hash] {
				keep = append(keep, e)
			}
		}
		h.mirror[a] = keep
	}
	// blocks the node produced by itself after the momentum: contract receives, update calls
	known := map[types.Hash]bool{}
	for _, l := range h.mirror {
		for _, e := range l {
			known[e.hash] = true
		}
	}
	for _, b := range h.sc.PoolBlocks() {
		if b.BlockType == nom.BlockTypeContractSend || known[b.Hash] {
			continue
		}
		what := "auto:user-send"
		if b.BlockType == nom.BlockTypeContractReceive {
			what = "auto:contract-receive"
			h.checkCaseOfInserted(b)
		}
		h.event(b, true, 0, what)
	}
	h.oracle("after-momentum")
	// at the edge of the switch-over (the last momentum below the enforcement height, the first one at it): a burst of
	// attempts by other accounts and of repeated attempts
	if after+1 == h.enf || after == h.enf {
		h.out.Count("c04:switch-over-edge-burst")
		for k := 0; k < 4; k++ {
			h.receiveMode([]int{8, 9, 5, 8}[k])
		}
	}
}

// distribution of the listings: sorted or not, and how many sends to one contract from different accounts one listing confirms
func (h *hist) countListing(unsorted bool, listed []*nom.AccountBlock) {
	if !unsorted {
		h.out.Count("c04:momentum-listing:other-producer:same-as-sorted")
		return
	}
	h.out.Count("c04:momentum-listing:other-producer:unsorted")
	senders := map[types.Address]map[types.Address]bool{}
	for _, b := range listed {
		if b.IsSendBlock() && types.IsEmbeddedAddress(b.ToAddress) {
			if senders[b.ToAddress] == nil {
				senders[b.ToAddress] = map[types.Address]bool{}
			}
			senders[b.ToAddress][b.Address] = true
		}
	}
	for _, m := range senders {
		if len(m) >= 2 {
			h.out.Count("c04:momentum-listing:unsorted-with-sends-of-several-accounts-to-one-contract")
			return
		}
	}
}

// the facts for a block that is already in the pool: evaluate them at its own position
func (h *hist) checkCaseOfInserted(b *nom.AccountBlock) { h.checkCase(b, 0, "auto-contract-receive") }

func (h *hist) rollback() {
	cur := h.nd.FrontierHeight()
	if cur <= 2 {
		return
	}
	k := uint64(1 + h.rng.Intn(3))
	if k > cur-1 {
		k = cur - 1
	}
	if err := h.nd.RollbackTo(cur - k); err != nil {
		h.out.Count("c04:rollback-failed:" + err.Error())
		return
	}
	for i := uint64(0); i < k; i++ {
		h.events = append(h.events, Con("ERollback"))
		h.codes = append(h.codes, I64(0))
	}
	h.out.Count("c04:event:rollback")
	h.mirror = map[types.Address][]poolEntry{}
	h.oracle("after-rollback")
	for i := h.rng.Intn(3); i > 0; i-- {
		h.pendingAttempt()
	}
}

func (h *hist) restart() {
	h.nd.Restart()
	h.sc = NewScanner(h.nd)
	h.events = append(h.events, Con("ERestart"))
	h.codes = append(h.codes, I64(0))
	h.out.Count("c04:event:restart")
	h.mirror = map[types.Address][]poolEntry{}
	h.oracle("after-restart")
	for i := h.rng.Intn(3); i > 0; i-- {
		h.pendingAttempt()
	}
}

// the property on a full ledger scan, stated for the regime(s) the history went through (hz/regime.go)
func (h *hist) oracle(when string) {
	sc := h.sc.Scan(true)
	ok, d := sc.ReceiveOracleAt(h.enf, func(b *nom.AccountBlock) bool { return h.legacy[b.Hash] })
	d["when"] = when
	h.out.Oracle(ok, "c04-receive-once-addressee-fifo", d)
	ok, d = FifoListedOracle(h.nd.Ch, true)
	d["when"] = when
	h.out.Oracle(ok, "c04-fifo-listed-confirmation-order", d)
}

func (h *hist) finish() {
	h.oracle("end")
	sc := h.sc.Scan(true)
	x := h.ids
	got := map[types.Address][]interface{}{}
	inbox := map[types.Address][]interface{}{}
	accts := map[types.Address]bool{}
	for _, r := range sc.Recvs {
		got[r.Block.Address] = append(got[r.Block.Address], I64(x.Hash(r.Block.FromBlockHash)))
		accts[r.Block.Address] = true
	}
	for _, s := range sc.Sends {
		if s.Confirmed {
			inbox[s.Block.ToAddress] = append(inbox[s.Block.ToAddress], I64(x.Hash(s.Block.Hash)))
			accts[s.Block.ToAddress] = true
		}
	}
	var al []types.Address
	for a := range accts {
		al = append(al, a)
	}
	sort.Slice(al, func(i, j int) bool { return x.Addr(al[i]) < x.Addr(al[j]) })
	at, rt, it := Lst(), Lst(), Lst()
	for _, a := range al {
		at = append(at, I64(x.Addr(a)))
		rt = append(rt, Lst(got[a]...))
		it = append(it, Lst(inbox[a]...))
	}
	h.out.Case("c04_hist", Tup(U64(h.enf), h.events, at), Tup(h.codes, rt, it), h.regime())
}
