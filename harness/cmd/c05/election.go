package main

import (
	"fmt"
	"math/big"
	"math/rand"
	"time"
	. "zharness/hz"

	"github.com/zenon-network/go-zenon/common/types"
	"github.com/zenon-network/go-zenon/consensus"
	"github.com/zenon-network/go-zenon/vm/constants"
)

// ---- terms shared by the suites

// Hashes and addresses are only compared for equality by the model: they are sent as 40-bit identifiers (bytes
// 0..4 of a hash, bytes 1..5 of an address). Long decimal literals are what makes the in-Coq evaluation slow.
func addrZ(a types.Address) interface{} { return Big(new(big.Int).SetBytes(a.Bytes()[1:6])) }
func hashZ(h types.Hash) interface{}    { return Big(new(big.Int).SetBytes(h.Bytes()[:5])) }

func delegTerm(d *types.PillarDelegation) interface{} {
	return Tup(Byt([]byte(d.Name)), addrZ(d.Producing), Big(d.Weight))
}
func delegsTerm(ds []*types.PillarDelegation) []interface{} {
	r := Lst()
	for _, d := range ds {
		r = append(r, delegTerm(d))
	}
	return r
}

// permEntry is the ORACLE: what math/rand really returns for (seed, n)
func permEntry(seed int64, n int) interface{} {
	p := rand.New(rand.NewSource(seed)).Perm(n)
	l := Lst()
	for _, v := range p {
		l = append(l, I64(int64(v)))
	}
	return Tup(I64(seed), I64(int64(n)), l)
}

type permSet struct {
	seen map[[2]int64]bool
	list []interface{}
}

func newPermSet() *permSet { return &permSet{seen: map[[2]int64]bool{}, list: Lst()} }
func (p *permSet) add(seed int64, n int) {
	if n < 0 {
		return
	}
	k := [2]int64{seed, int64(n)}
	if p.seen[k] {
		return
	}
	p.seen[k] = true
	p.list = append(p.list, permEntry(seed, n))
}

func cloneDelegs(ds []*types.PillarDelegation) []*types.PillarDelegation {
	r := make([]*types.PillarDelegation, len(ds))
	for i, d := range ds {
		r[i] = &types.PillarDelegation{Name: d.Name, Producing: d.Producing, Weight: new(big.Int).Set(d.Weight)}
	}
	return r
}

func randName(rng *rand.Rand, i int) string {
	switch rng.Intn(5) {
	case 0:
		return fmt.Sprintf("p%d", i) // prefixes of one another: p1, p10, p100
	case 1:
		return fmt.Sprintf("pillar_%d", i)
	case 2:
		return fmt.Sprintf("P%c%d", byte(rng.Intn(256)), i) // bytes above 0x7f: unsigned comparison
	case 3:
		return fmt.Sprintf("%d", i)
	default:
		b := make([]byte, 1+rng.Intn(6))
		rng.Read(b)
		return string(b) + fmt.Sprintf("-%d", i)
	}
}

// one random election input: NodeCount / RandCount, delegations (shuffled), proof height
func randElectionConfig(rng *rand.Rand) (nc, rc, np, wmode int, ds []*types.PillarDelegation, height uint64) {
	switch rng.Intn(4) {
	case 0:
		nc, rc = 30, 15 // production configuration
	case 1:
		nc = 1 + rng.Intn(8)
		rc = rng.Intn(nc + 1)
	default:
		nc = 1 + rng.Intn(40)
		rc = rng.Intn(nc + 1)
	}
	switch rng.Intn(6) {
	case 0:
		np = nc
	case 1:
		np = nc + 1
	case 2:
		np = 1 + rng.Intn(3)
	case 3:
		if nc > 1 {
			np = nc - 1
		} else {
			np = 1
		}
	default:
		np = 1 + rng.Intn(60)
	}
	wmode = rng.Intn(4)
	ds = make([]*types.PillarDelegation, np)
	for i := range ds {
		var w *big.Int
		switch wmode {
		case 0:
			w = big.NewInt(1000) // all equal: order decided by name only
		case 1:
			w = big.NewInt(int64(rng.Intn(3))) // many ties, zero weights
		case 2:
			w = big.NewInt(rng.Int63n(1 << 40))
			if rng.Intn(8) == 0 {
				w = new(big.Int).Mul(big.NewInt(rng.Int63()), big.NewInt(rng.Int63())) // beyond 64 bits
			}
		default:
			w = big.NewInt(int64(1000 - i))
		}
		var a types.Address
		rng.Read(a[:])
		ds[i] = &types.PillarDelegation{Name: randName(rng, i), Producing: a, Weight: w}
	}
	rng.Shuffle(len(ds), func(i, j int) { ds[i], ds[j] = ds[j], ds[i] })
	height = BoundaryU64(rng)
	if rng.Intn(3) == 0 {
		height = uint64(rng.Intn(100000))
	}
	if rng.Intn(25) == 0 {
		height = (uint64(1) << 63) - 1 // seed+1 wraps
	}

	return
}

// the correspondence case of one election answer: the observed rand.Perm tables are handed to the model
func emitElectionCase(out *Out, nc, rc, np int, height uint64, ds, res []*types.PillarDelegation, tagPrefix string) {
	seed := int64(height)
	ps := newPermSet()
	lenA := np
	if lenA > nc {
		lenA = nc
	}
	for _, s := range []int64{seed, seed + 1} {
		for _, k := range []int{lenA, nc, np, np - nc + rc, rc} {
			ps.add(s, k)
		}
	}
	tag := "full"
	if np < nc {
		tag = "fill-up"
	} else if np == nc {
		tag = "exact"
	}
	out.Case("election", Tup(I64(int64(nc)), I64(int64(rc)), U64(height), delegsTerm(ds), ps.list),
		Tup(I64(0), delegsTerm(res)), tagPrefix+tag)
}

// (i) random pillar / delegation configurations through the real SelectProducers
func runElection(rng *rand.Rand, n int, out *Out, _ []string) {
	saved := *constants.ConsensusConfig
	defer func() { *constants.ConsensusConfig = saved }()
	for it := 0; it < n; it++ {
		nc, rc, np, wmode, ds, height := randElectionConfig(rng)

		constants.ConsensusConfig = &constants.Consensus{BlockTime: 10, NodeCount: uint8(nc), RandCount: uint8(rc), CountingZTS: types.ZnnTokenStandard}
		ctx := consensus.NewConsensusContext(time.Unix(1000000000, 0))
		algo := consensus.NewElectionAlgorithm(ctx)
		in := cloneDelegs(ds)
		res := algo.SelectProducers(consensus.NewAlgorithmContext(in, &types.HashHeight{Height: height}))

		emitElectionCase(out, nc, rc, np, height, ds, res, "")
		out.Count(fmt.Sprintf("election:weights-mode-%d", wmode))

		// ---- the property's own statement on the implementation
		byName := map[string]*types.PillarDelegation{}
		for _, d := range ds {
			byName[d.Name] = d
		}
		okLen := len(res) == nc
		okReg := true
		distinct := true
		seen := map[string]bool{}
		for _, r := range res {
			d, ok := byName[r.Name]
			if !ok || d.Producing != r.Producing || d.Weight.Cmp(r.Weight) != 0 {
				okReg = false
			}
			if seen[r.Name] {
				distinct = false
			}
			seen[r.Name] = true
		}
		out.Oracle(okLen && okReg, "election-one-registered-pillar-per-slot",
			M{"nc": nc, "rc": rc, "pillars": np, "height": U64(height), "got": len(res)})
		if np >= nc {
			out.Oracle(distinct, "election-no-pillar-twice-when-enough", M{"nc": nc, "rc": rc, "pillars": np, "height": U64(height)})
		}
		// deterministic in the SET of delegations: any input order gives the same ordered schedule
		sh := cloneDelegs(ds)
		rng.Shuffle(len(sh), func(i, j int) { sh[i], sh[j] = sh[j], sh[i] })
		res2 := algo.SelectProducers(consensus.NewAlgorithmContext(sh, &types.HashHeight{Height: height}))
		same := len(res) == len(res2)
		for i := 0; same && i < len(res); i++ {
			same = res[i].Name == res2[i].Name && res[i].Producing == res2[i].Producing
		}
		out.Oracle(same, "election-independent-of-input-order", M{"nc": nc, "rc": rc, "pillars": np, "height": U64(height)})
	}

	// F4 (DESIGN section 6): with no active pillar the fill-up loop never ends. Observed here for the record only
	// (hypothesis `ds <> []` of C05_one_per_slot); the spinning goroutine dies with the process.
	constants.ConsensusConfig = &constants.Consensus{BlockTime: 10, NodeCount: 30, RandCount: 15, CountingZTS: types.ZnnTokenStandard}
	algo := consensus.NewElectionAlgorithm(consensus.NewConsensusContext(time.Unix(1000000000, 0)))
	done := make(chan int, 1)
	go func() {
		done <- len(algo.SelectProducers(consensus.NewAlgorithmContext(nil, &types.HashHeight{Height: 7})))
	}()
	select {
	case <-done:
		out.Count("election:zero-pillars-returned")
	case <-time.After(300 * time.Millisecond):
		out.Count("election:zero-pillars-loop-does-not-terminate(F4)")
	}
}
