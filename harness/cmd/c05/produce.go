package main

// C05, clause "a momentum is accepted only if ... it is signed by the pillar elected for the time slot of its timestamp",
// on the node's OWN production path: pillar manager -> worker.generateMomentum -> Supervisor.GenerateMomentum (verify,
// execute, sign, verify the transaction) -> Broadcaster.CreateMomentum (AddMomentumTransaction + broadcast).
// At many points of a history every key a node could hold (each registered pillar, a key of no pillar, a user) tries to
// PRODUCE the momentum of a slot: directly through the real Supervisor.GenerateMomentum and through a real pillar
// manager that is handed a producer event. Events are also STALE: computed (ElectionByTick) for the coming ticks, then
// the proof momentum of the tick is replaced (late momentums of the tick before, a reorganisation across the proof
// time) before the event is acted on. pillar.manager only compares the event with its own coinbase, so the election as
// of the current chain has to be enforced by the production path itself.
//   oracle own-momentum-only-when-elected: production succeeds (a transaction is handed out / the frontier moves)
//   iff the key is the elected producer of that slot on the current chain (reference election of the harness).

import (
	"fmt"
	"math/rand"
	"sort"
	"time"
	. "zharness/hz"

	g "github.com/zenon-network/go-zenon/chain/genesis/mock"
	"github.com/zenon-network/go-zenon/chain/nom"
	"github.com/zenon-network/go-zenon/common/types"
	"github.com/zenon-network/go-zenon/consensus"
	"github.com/zenon-network/go-zenon/pillar"
	"github.com/zenon-network/go-zenon/vm/constants"
	"github.com/zenon-network/go-zenon/wallet"
)

func runProduce(rng *rand.Rand, n int, out *Out, _ []string) {
	for h := 0; h < n; h++ {
		produceHistory(rng, out)
	}
}

type staleEvent struct {
	ev       consensus.ProducerEvent
	computed types.HashHeight // frontier when the event was computed
}

type producer struct {
	l     *ledger
	out   *Out
	rng   *rand.Rand
	keys  []*wallet.KeyPair
	stale []staleEvent
}

func keyKind(kp *wallet.KeyPair) string {
	for i, p := range g.PillarKeys {
		if p.Address == kp.Address {
			if i < 3 {
				return "registered pillar"
			}
			return "pillar key without registration"
		}
	}
	return "user"
}

func (p *producer) template(ts int64, withContent bool) *nom.DetailedMomentum {
	nd := p.l.nd
	prev := frontierOf(nd.Ch)
	var blocks []*nom.AccountBlock
	if withContent {
		blocks = nd.Ch.GetNewMomentumContent()
	}
	m := &nom.Momentum{ChainIdentifier: nd.Ch.ChainIdentifier(), PreviousHash: prev.Hash, Height: prev.Height + 1,
		TimestampUnix: uint64(ts), Content: nom.NewMomentumContent(blocks), Version: 1}
	m.EnsureCache()
	return &nom.DetailedMomentum{Momentum: m, AccountBlocks: blocks}
}

func addrStr(a *types.Address) string {
	if a == nil {
		return "nobody (no slot starts at this instant)"
	}
	return a.String()
}

// every key tries the real Supervisor.GenerateMomentum for the slot ts (nothing is inserted)
func (p *producer) trySupervisor(ts int64) {
	nd := p.l.nd
	fr := frontierOf(nd.Ch)
	elected := p.l.refProducer(ts)
	p.rng.Shuffle(len(p.keys), func(i, j int) { p.keys[i], p.keys[j] = p.keys[j], p.keys[i] })
	for _, kp := range p.keys {
		tx, err := nd.Sv.GenerateMomentum(p.template(ts, p.rng.Intn(2) == 0), kp.Signer)
		produced := err == nil && tx != nil
		want := elected != nil && *elected == kp.Address
		p.out.Oracle(produced == want, "own-momentum-only-when-elected",
			M{"path": "Supervisor.GenerateMomentum", "frontier": fmt.Sprint(fr.Identifier()), "frontier_ts": U64(fr.TimestampUnix), "slot_ts": ts,
				"key": kp.Address.String(), "key_is": keyKind(kp), "elected_for_slot": addrStr(elected), "produced": produced, "result": className[errClass(err)]})
		switch {
		case want && produced:
			p.out.Count("produce:supervisor:elected-key-produced")
		case !want && !produced:
			p.out.Count("produce:supervisor:" + keyKind(kp) + " not elected -> " + className[errClass(err)])
		}
	}
	if elected == nil {
		p.out.Count("produce:slot:no-slot-starts-at-the-instant")
	}
}

// a real pillar manager holding kp is handed the event; reports whether the node's frontier moved
func (p *producer) tryPillar(kp *wallet.KeyPair, ev consensus.ProducerEvent, stale *staleEvent) {
	nd := p.l.nd
	before := frontierOf(nd.Ch)
	ts := ev.StartTime.Unix()
	elected := p.l.refProducer(ts)
	pm := pillar.NewPillar(nd.Ch, nd.Cs, nd.Z.Broadcaster())
	pm.SetCoinBase(kp)
	if err := pm.Init(); err != nil {
		panic(err)
	}
	if err := pm.Start(); err != nil {
		panic(err)
	}
	if task := pm.Process(ev); task != nil {
		task.Wait()
	}
	if err := pm.Stop(); err != nil {
		panic(err)
	}
	after := frontierOf(nd.Ch)
	moved := after.Identifier() != before.Identifier()
	want := elected != nil && *elected == kp.Address && ts > int64(before.TimestampUnix)
	d := M{"path": "pillar manager Process(event) -> worker -> GenerateMomentum -> CreateMomentum", "frontier": fmt.Sprint(before.Identifier()),
		"frontier_ts": U64(before.TimestampUnix), "slot_ts": ts, "key": kp.Address.String(), "key_is": keyKind(kp),
		"elected_for_slot_on_current_chain": addrStr(elected), "frontier_moved": moved, "now": fmt.Sprint(after.Identifier()), "stale_event": stale != nil}
	if stale != nil {
		d["event_computed_at_frontier"] = fmt.Sprint(stale.computed)
		if want {
			p.out.Count("produce:stale-event:pillar-still-elected")
		} else {
			p.out.Count("produce:stale-event:pillar-no-longer-elected")
		}
	}
	p.out.Oracle(moved == want, "own-momentum-only-when-elected", d)
	if moved {
		p.out.Oracle(after.Height == before.Height+1 && after.PreviousHash == before.Hash && int64(after.TimestampUnix) == ts &&
			after.Producer() == kp.Address && sigOK(after), "own-momentum-is-the-event's-momentum", d)
	}
	switch {
	case moved && want:
		p.out.Count("produce:pillar:elected-key-produced-and-inserted")
		p.l.record()
	case moved && !want:
		// keep the history on the chain the property allows
		if err := rollbackTo(nd.Ch, before.Identifier()); err != nil {
			panic(err)
		}
		p.l.record()
	case !moved && !want:
		p.out.Count("produce:pillar:" + keyKind(kp) + " not elected -> frontier unchanged")
	}
}

func eventAt(addr types.Address, ts int64) consensus.ProducerEvent {
	bt := constants.ConsensusConfig.BlockTime
	return consensus.ProducerEvent{Producer: addr, StartTime: time.Unix(ts, 0), EndTime: time.Unix(ts+bt, 0)}
}

// the producer events of the coming ticks as the consensus worker would compute them now
func (p *producer) computeEvents() {
	nd := p.l.nd
	fr := frontierOf(nd.Ch)
	k := uint64((int64(fr.TimestampUnix) - genesisTs) / tickLen())
	for _, t := range []uint64{k, k + 1, k + 2, k + 3} {
		evs, _, err := consensus.VerifElectionByTick(nd.Cs, t)
		if err != nil {
			continue
		}
		for _, e := range evs {
			if e.StartTime.Unix() > int64(fr.TimestampUnix) && p.rng.Intn(3) == 0 {
				p.stale = append(p.stale, staleEvent{*e, fr.Identifier()})
			}
		}
	}
	p.out.Count("produce:events-computed-for-the-coming-ticks")
}

// act on remembered events whose slot is still ahead of the frontier, in the order of their slots
func (p *producer) deliverStale(max int) {
	sort.SliceStable(p.stale, func(i, j int) bool { return p.stale[i].ev.StartTime.Before(p.stale[j].ev.StartTime) })
	var keep []staleEvent
	done := 0
	for i := range p.stale {
		s := p.stale[i]
		fr := frontierOf(p.l.nd.Ch)
		if s.ev.StartTime.Unix() <= int64(fr.TimestampUnix) {
			continue // its slot has passed
		}
		if s.computed == fr.Identifier() || done >= max || p.rng.Intn(2) == 0 {
			keep = append(keep, s)
			continue
		}
		// a slot more than two ticks ahead of the frontier is elected from the frontier itself; nothing special, but slow
		if s.ev.StartTime.Unix() > int64(fr.TimestampUnix)+3*tickLen() {
			keep = append(keep, s)
			continue
		}
		kp := KeyOf(s.ev.Producer)
		if kp == nil {
			continue
		}
		done++
		p.tryPillar(kp, s.ev, &s)
	}
	p.stale = keep
}

func produceHistory(rng *rand.Rand, out *Out) {
	nd := NewNode()
	defer nd.Stop()
	l := newLedger(nd)
	p := &producer{l: l, out: out, rng: rng,
		keys: []*wallet.KeyPair{g.Pillar1, g.Pillar2, g.Pillar3, g.PillarKeys[3+rng.Intn(5)], backers[rng.Intn(len(backers))]}}
	// several momentums per tick, so that momentums arriving late in a tick replace the proof momentum of the tick after the next
	l.dt = func(rng *rand.Rand) int64 {
		switch rng.Intn(8) {
		case 0:
			return 300
		case 1:
			return 10 * int64(25+rng.Intn(12))
		case 2:
			return 10 * int64(55+rng.Intn(30))
		default:
			return 10 * int64(1+rng.Intn(12))
		}
	}
	steps := 10 + rng.Intn(16)
	for s := 0; s < steps; s++ {
		l.step(rng, out)
		fr := frontierOf(nd.Ch)
		bt := constants.ConsensusConfig.BlockTime
		if rng.Intn(2) == 0 {
			// a slot ahead of the frontier (next slot, later slots, other ticks), sometimes an instant inside a slot
			ts := int64(fr.TimestampUnix) + randDt(rng)
			if rng.Intn(6) == 0 {
				ts += int64(1 + rng.Intn(int(bt)-1))
			}
			p.trySupervisor(ts)
		}
		if rng.Intn(3) == 0 {
			// fresh events: every key is told "it is your slot", the elected one last (it moves the frontier)
			ts := int64(fr.TimestampUnix) + bt*int64(1+rng.Intn(4))
			if rng.Intn(8) == 0 {
				ts += int64(1 + rng.Intn(int(bt)-1))
			}
			elected := l.refProducer(ts)
			var last *wallet.KeyPair
			rng.Shuffle(len(p.keys), func(i, j int) { p.keys[i], p.keys[j] = p.keys[j], p.keys[i] })
			for _, kp := range p.keys {
				if elected != nil && kp.Address == *elected {
					last = kp
					continue
				}
				if rng.Intn(2) == 0 {
					p.tryPillar(kp, eventAt(kp.Address, ts), nil)
				}
			}
			if last != nil && rng.Intn(3) != 0 {
				p.tryPillar(last, eventAt(last.Address, ts), nil)
			}
		}
		if rng.Intn(4) == 0 {
			p.computeEvents()
		}
		if len(p.stale) > 0 && rng.Intn(5) == 0 {
			// reorganisation across the proof time of the remembered events: drop 1..12 momentums, grow another branch
			k := uint64(1 + rng.Intn(12))
			if k >= fr.Height {
				k = fr.Height - 1
			}
			if k > 0 {
				target, _ := nd.Ch.GetFrontierMomentumStore().GetMomentumByHeight(fr.Height - k)
				if err := rollbackTo(nd.Ch, target.Identifier()); err != nil {
					panic(err)
				}
				l.record()
				for i := 0; i < 1+rng.Intn(6); i++ {
					l.step(rng, out)
				}
				out.Count("produce:reorganisation-after-events-were-computed")
			}
		}
		if len(p.stale) > 0 && rng.Intn(2) == 0 {
			p.deliverStale(3)
		}
	}
	p.deliverStale(8)
}
