package main

import (
	"crypto/ed25519"
	"fmt"
	"math/big"
	"math/rand"
	"sort"
	"time"
	. "zharness/hz"

	"github.com/zenon-network/go-zenon/chain"
	g "github.com/zenon-network/go-zenon/chain/genesis/mock"
	"github.com/zenon-network/go-zenon/chain/nom"
	"github.com/zenon-network/go-zenon/chain/store"
	"github.com/zenon-network/go-zenon/common/types"
	"github.com/zenon-network/go-zenon/vm/constants"
	"github.com/zenon-network/go-zenon/vm/embedded/definition"
	"github.com/zenon-network/go-zenon/wallet"
	"github.com/zenon-network/go-zenon/zenon/mock"
)

const genesisTs = int64(1000000000)

// ledger = what the election reads, recorded WHILE the node is live (each momentum's delegations are read from
// the frontier store at the moment that momentum is the frontier), independent of historical views.
type ledger struct {
	nd     *Node
	delegs map[uint64][]*types.PillarDelegation // by momentum height
	dt     func(rng *rand.Rand) int64           // spacing of the momentums of a history (nil: randDt)
}

func (l *ledger) nextDt(rng *rand.Rand) int64 {
	if l.dt != nil {
		return l.dt(rng)
	}
	return randDt(rng)
}

func newLedger(nd *Node) *ledger {
	l := &ledger{nd: nd, delegs: map[uint64][]*types.PillarDelegation{}}
	l.record()
	return l
}
func frontierOf(ch chain.Chain) *nom.Momentum {
	m, err := ch.GetFrontierMomentumStore().GetFrontierMomentum()
	if err != nil {
		panic(err)
	}
	return m
}
func (l *ledger) record() {
	st := l.nd.Ch.GetFrontierMomentumStore()
	fr := frontierOf(l.nd.Ch)
	det, err := st.ComputePillarDelegations()
	if err != nil {
		panic(err)
	}
	l.delegs[fr.Height] = types.ToPillarDelegation(det)
	for h := range l.delegs {
		if h > fr.Height {
			delete(l.delegs, h)
		}
	}
}
func delegKey(ds []*types.PillarDelegation) string {
	s := ""
	for _, d := range ds {
		s += fmt.Sprintf("%s|%x|%s;", d.Name, d.Producing.Bytes(), d.Weight.String())
	}
	return s
}

// term: (momentums, delegation table, perm table, genesis time). The chain is complete; the delegation and
// permutation tables are pruned to what an election for the given timestamps can read (the proof momentum
// according to the harness' own reference, and its neighbours): a model that picked another proof momentum
// would find no table entry and disagree visibly.
func (l *ledger) term(tss ...int64) interface{} {
	fr := frontierOf(l.nd.Ch)
	st := l.nd.Ch.GetFrontierMomentumStore()
	chainT := Lst()
	nc := int(constants.ConsensusConfig.NodeCount)
	rc := int(constants.ConsensusConfig.RandCount)
	need := map[uint64]bool{}
	for _, ts := range tss {
		if p := l.refProof(ts); p != nil {
			for _, h := range []uint64{p.Height - 1, p.Height, p.Height + 1} {
				if h >= 1 && h <= fr.Height {
					need[h] = true
				}
			}
		}
	}
	tab := Lst()
	ps := newPermSet()
	last := "-"
	for h := uint64(1); h <= fr.Height; h++ {
		m, err := st.GetMomentumByHeight(h)
		if err != nil || m == nil {
			panic("missing momentum")
		}
		chainT = append(chainT, Tup(hashZ(m.Hash), U64(m.Height), U64(m.TimestampUnix)))
		if !need[h] {
			continue
		}
		ds, ok := l.delegs[h]
		if !ok {
			panic(fmt.Sprintf("no delegations recorded for height %d", h))
		}
		if k := delegKey(ds); k != last {
			tab = append(tab, Tup(U64(h), delegsTerm(ds)))
			last = k
		}
		np := len(ds)
		lenA := np
		if lenA > nc {
			lenA = nc
		}
		ps.add(int64(h), lenA)
		ps.add(int64(h), nc)
		if np >= nc {
			ps.add(int64(h)+1, np-nc+rc)
		}
	}
	return Tup(chainT, tab, ps.list, I64(genesisTs))
}

// ---- independent reference for the oracle: who is elected for the slot starting at ts, given the recorded ledger
func refSortDelegs(ds []*types.PillarDelegation) []*types.PillarDelegation {
	r := cloneDelegs(ds)
	sort.SliceStable(r, func(i, j int) bool {
		c := r[i].Weight.Cmp(r[j].Weight)
		if c != 0 {
			return c > 0
		}
		return r[i].Name < r[j].Name
	})
	return r
}
func refSchedule(ds []*types.PillarDelegation, height uint64, nc, rc int) []*types.PillarDelegation {
	s := refSortDelegs(ds)
	seed := int64(height)
	var res []*types.PillarDelegation
	if len(s) == 0 {
		return nil
	}
	if len(s) < nc {
		p := rand.New(rand.NewSource(seed)).Perm(len(s))
		for len(res) < nc {
			for _, i := range p {
				res = append(res, s[i])
			}
		}
		res = res[:nc]
	} else {
		a, b := s[:nc], append([]*types.PillarDelegation{}, s[nc:]...)
		p := rand.New(rand.NewSource(seed)).Perm(nc)
		for i := 0; i < nc-rc; i++ {
			res = append(res, a[p[i]])
		}
		for i := nc - rc; i < nc; i++ {
			b = append(b, a[p[i]])
		}
		q := rand.New(rand.NewSource(seed + 1)).Perm(len(b))
		for i := 0; i < rc; i++ {
			res = append(res, b[q[i]])
		}
	}
	p := rand.New(rand.NewSource(seed)).Perm(len(res))
	out := make([]*types.PillarDelegation, len(res))
	for i, v := range p {
		out[i] = res[v]
	}
	return out
}

// refProof: the proof momentum of the tick of ts = the last momentum strictly before the start of the previous tick
func (l *ledger) refProof(ts int64) *nom.Momentum {
	nc := int(constants.ConsensusConfig.NodeCount)
	bt := constants.ConsensusConfig.BlockTime
	tl := bt * int64(nc)
	if ts < genesisTs || ts > genesisTs+(1<<40) {
		return nil
	}
	tick := (ts - genesisTs) / tl
	proofTime := genesisTs + 1
	if tick >= 2 {
		proofTime = genesisTs + (tick-1)*tl
	}
	st := l.nd.Ch.GetFrontierMomentumStore()
	fr := frontierOf(l.nd.Ch)
	var proof *nom.Momentum
	for h := uint64(1); h <= fr.Height; h++ {
		m, _ := st.GetMomentumByHeight(h)
		if int64(m.TimestampUnix) < proofTime {
			proof = m
		} else {
			break
		}
	}
	return proof
}

// refTick: the ordered producers of a whole tick by the reference election (nil: no proof momentum / no schedule)
func (l *ledger) refTick(tick uint64) []types.Address {
	nc := int(constants.ConsensusConfig.NodeCount)
	rc := int(constants.ConsensusConfig.RandCount)
	tl := constants.ConsensusConfig.BlockTime * int64(nc)
	proof := l.refProof(genesisTs + int64(tick)*tl)
	if proof == nil {
		return nil
	}
	sch := refSchedule(l.delegs[proof.Height], proof.Height, nc, rc)
	if len(sch) != nc {
		return nil
	}
	r := make([]types.Address, nc)
	for i, d := range sch {
		r[i] = d.Producing
	}
	return r
}

// refProducer: nil if ts is no slot start or there is no proof momentum
func (l *ledger) refProducer(ts int64) *types.Address {
	nc := int(constants.ConsensusConfig.NodeCount)
	rc := int(constants.ConsensusConfig.RandCount)
	bt := constants.ConsensusConfig.BlockTime
	tl := bt * int64(nc)
	if ts < genesisTs {
		return nil
	}
	off := (ts - genesisTs) % tl
	if off%bt != 0 {
		return nil
	}
	proof := l.refProof(ts)
	if proof == nil {
		return nil
	}
	sch := refSchedule(l.delegs[proof.Height], proof.Height, nc, rc)
	if len(sch) != nc {
		return nil
	}
	a := sch[off/bt].Producing
	return &a
}

// ---- driving the node

var backers = []*wallet.KeyPair{g.User1, g.User2, g.User3, g.User4, g.User5}

// produceAt makes the elected pillar produce the next momentum dt seconds after the frontier (the mock's own
// InsertNewMomentum always uses +10 s): same steps as pillar/worker_momentum.go.
func buildNext(nd *Node, prev *nom.Momentum, dt int64, withContent bool) (*nom.MomentumTransaction, []*nom.AccountBlock, error) {
	t := time.Unix(int64(prev.TimestampUnix)+dt, 0)
	exp, err := nd.Cs.GetMomentumProducer(t)
	if err != nil {
		return nil, nil, err
	}
	kp := KeyOf(*exp)
	var blocks []*nom.AccountBlock
	if withContent {
		blocks = nd.Ch.GetNewMomentumContent()
	}
	m := &nom.Momentum{ChainIdentifier: nd.Ch.ChainIdentifier(), PreviousHash: prev.Hash, Height: prev.Height + 1,
		TimestampUnix: uint64(t.Unix()), Content: nom.NewMomentumContent(blocks), Version: 1}
	m.EnsureCache()
	tx, err := nd.Sv.GenerateMomentum(&nom.DetailedMomentum{Momentum: m, AccountBlocks: blocks}, kp.Signer)
	return tx, blocks, err
}
func addMomentum(ch chain.Chain, tx *nom.MomentumTransaction) error {
	ins := ch.AcquireInsert("zharness momentum")
	defer ins.Unlock()
	return ch.AddMomentumTransaction(ins, tx)
}
func rollbackTo(ch chain.Chain, id types.HashHeight) error {
	ins := ch.AcquireInsert("zharness rollback")
	defer ins.Unlock()
	return ch.RollbackTo(ins, id)
}
func produceAt(nd *Node, dt int64) error {
	tx, _, err := buildNext(nd, frontierOf(nd.Ch), dt, true)
	if err != nil {
		return err
	}
	return addMomentum(nd.Ch, tx)
}

func randDt(rng *rand.Rand) int64 {
	switch rng.Intn(12) {
	case 0:
		return 20
	case 1:
		return 30 + 10*int64(rng.Intn(5))
	case 2:
		return 300 // exactly one tick
	case 3:
		return 10 * int64(25+rng.Intn(12)) // around a tick boundary
	case 4:
		return 10 * int64(55+rng.Intn(80)) // more than two ticks: the proof momentum is the parent itself
	default:
		return 10
	}
}

// one step of history: a transfer between backers (moves pillar weights), a (un)delegation, or nothing; then a momentum
func (l *ledger) step(rng *rand.Rand, out *Out) {
	nd := l.nd
	switch rng.Intn(6) {
	case 0, 1:
		from := backers[rng.Intn(len(backers))]
		to := backers[rng.Intn(len(backers))]
		bal, _ := nd.Ch.GetFrontierAccountStore(from.Address).GetBalance(types.ZnnTokenStandard)
		if bal.Sign() > 0 && from != to {
			amt := new(big.Int).Rand(rng, bal)
			if rng.Intn(3) == 0 {
				amt = new(big.Int).Set(bal)
			}
			nd.Z.InsertSendBlock(&nom.AccountBlock{Address: from.Address, ToAddress: to.Address,
				TokenStandard: types.ZnnTokenStandard, Amount: amt}, nil, mock.SkipVmChanges)
			out.Count("history:transfer")
		}
	case 2:
		u := backers[rng.Intn(len(backers))]
		name := []string{g.Pillar1Name, g.Pillar2Name, g.Pillar3Name}[rng.Intn(3)]
		nd.Z.InsertSendBlock(&nom.AccountBlock{Address: u.Address, ToAddress: types.PillarContract,
			Data: definition.ABIPillars.PackMethodPanic(definition.DelegateMethodName, name)}, nil, mock.SkipVmChanges)
		nd.Momentum() // the mock's own producer also generates the contract receive
		l.record()
		out.Count("history:delegate")
	case 4:
		// every backer of one pillar leaves it: a registered, active pillar with delegated weight exactly zero
		// (it still gets slots; its stored election entry has an empty weight)
		if rng.Intn(3) == 0 {
			name := []string{g.Pillar1Name, g.Pillar2Name, g.Pillar3Name}[rng.Intn(3)]
			if dl, err := definition.GetDelegationsList(nd.Ch.GetFrontierAccountStore(types.PillarContract).Storage()); err == nil {
				n := 0
				for _, d := range dl {
					if d.Name != name {
						continue
					}
					if kp := KeyOf(d.Backer); kp != nil {
						nd.Z.InsertSendBlock(&nom.AccountBlock{Address: kp.Address, ToAddress: types.PillarContract,
							Data: definition.ABIPillars.PackMethodPanic(definition.UndelegateMethodName)}, nil, mock.SkipVmChanges)
						n++
					}
				}
				if n > 0 {
					nd.Momentum()
					l.record()
					out.Count("history:pillar-drained-of-all-backers")
				}
			}
		}
	case 3:
		if rng.Intn(3) == 0 {
			u := backers[rng.Intn(len(backers))]
			nd.Z.InsertSendBlock(&nom.AccountBlock{Address: u.Address, ToAddress: types.PillarContract,
				Data: definition.ABIPillars.PackMethodPanic(definition.UndelegateMethodName)}, nil, mock.SkipVmChanges)
			nd.Momentum()
			l.record()
			out.Count("history:undelegate")
		}
	}
	if rng.Intn(8) == 0 {
		// a momentum exactly at the start of a tick (slot 0), the rest of that tick missed: the frontier's timestamp IS the
		// proof time of the tick after the next (boundary of "the last momentum before the proof time")
		fts := int64(frontierOf(nd.Ch).TimestampUnix)
		dt := 300 - (fts-genesisTs)%300
		if err := produceAt(nd, dt); err != nil {
			panic(err)
		}
		l.record()
		if err := produceAt(nd, 300+10*int64(rng.Intn(30))); err != nil {
			panic(err)
		}
		l.record()
		out.Count("history:momentum-at-tick-start-then-tick-missed")
		return
	}
	if rng.Intn(4) == 0 {
		nd.Momentum()
	} else if err := produceAt(nd, l.nextDt(rng)); err != nil {
		panic(err)
	}
	l.record()
}

// what the delegation computation reads, for the compute_delegations tie
func delegationInputs(st store.Momentum) (interface{}, error) {
	pillars, err := st.GetActivePillars()
	if err != nil {
		return nil, err
	}
	pt := Lst()
	for _, p := range pillars {
		pt = append(pt, Tup(Byt([]byte(p.Name)), addrZ(p.BlockProducingAddress)))
	}
	dl, err := definition.GetDelegationsList(st.GetAccountStore(types.PillarContract).Storage())
	if err != nil {
		return nil, err
	}
	dt := Lst()
	bt := Lst()
	seen := map[types.Address]bool{}
	for _, d := range dl {
		dt = append(dt, Tup(Byt([]byte(d.Name)), addrZ(d.Backer)))
		if !seen[d.Backer] {
			seen[d.Backer] = true
			bal, err := st.GetAccountStore(d.Backer).GetBalance(types.ZnnTokenStandard)
			if err != nil {
				return nil, err
			}
			bt = append(bt, Tup(addrZ(d.Backer), Big(bal)))
		}
	}
	return Tup(pt, dt, bt), nil
}

func sigOK(m *nom.Momentum) bool {
	return len(m.PublicKey) == ed25519.PublicKeySize && ed25519.Verify(m.PublicKey, m.Hash.Bytes(), m.Signature)
}
