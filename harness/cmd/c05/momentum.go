package main

import (
	"errors"
	"fmt"
	"math/big"
	"math/rand"
	"os"
	"time"
	. "zharness/hz"

	"github.com/inconshreveable/log15"
	g "github.com/zenon-network/go-zenon/chain/genesis/mock"
	"github.com/zenon-network/go-zenon/common"
	"github.com/zenon-network/go-zenon/chain/nom"
	"github.com/zenon-network/go-zenon/common/types"
	"github.com/zenon-network/go-zenon/verifier"
	"github.com/zenon-network/go-zenon/vm/constants"
	"github.com/zenon-network/go-zenon/wallet"
)

// error class by sentinel identity (verifier/errors.go); numbering = MomentumVerif.verr_code
func errClass(err error) int64 {
	if err == nil {
		return 0
	}
	tab := []struct {
		e error
		c int64
	}{
		{verifier.ErrMNotGenesis, 1}, {verifier.ErrMPrevHashMissing, 2}, {verifier.ErrMPreviousMissing, 3},
		{verifier.ErrABChainIdentifierMissing, 4}, {verifier.ErrABChainIdentifierMismatch, 5},
		{verifier.ErrMVersionMissing, 6}, {verifier.ErrMVersionInvalid, 7}, {verifier.ErrMTimestampMissing, 8},
		{verifier.ErrMTimestampInTheFuture, 9}, {verifier.ErrMTimestampNotIncreasing, 10},
		{verifier.ErrMDataMustBeZero, 11}, {verifier.ErrMContentTooBig, 12},
		{constants.ErrVmRunPanic, 14},
		{verifier.ErrMChangesHashInvalid, 16}, {verifier.ErrMHashInvalid, 17}, {verifier.ErrMSignatureMissing, 18},
		{verifier.ErrMPublicKeyMissing, 19}, {verifier.ErrVerifierInternal, 20}, {verifier.ErrMSignatureInvalid, 21},
		{verifier.ErrMProducerInvalid, 22},
	}
	for _, t := range tab {
		if errors.Is(err, t.e) {
			return t.c
		}
	}
	return 13 // errors.Errorf without sentinel: only the content checks produce those before execution
}

var className = map[int64]string{0: "accepted", 1: "not-genesis", 2: "prev-hash-missing", 3: "previous-missing", 4: "chain-id-missing",
	5: "chain-id-mismatch", 6: "version-missing", 7: "version-invalid", 8: "timestamp-missing", 9: "timestamp-future",
	10: "timestamp-not-increasing", 11: "data-not-empty", 12: "content-too-big", 13: "content-mismatch", 14: "panic-recovered",
	15: "exec-error", 16: "changes-hash", 17: "hash", 18: "signature-missing", 19: "public-key-missing", 20: "internal",
	21: "signature-invalid", 22: "producer-invalid"}

type seal int

const (
	sealNone   seal = iota // mutated bytes as they are
	sealResign             // recompute hash, sign with the given key (ChangesHash kept)
	sealRegen              // recompute ChangesHash by execution, hash, sign with the given key
)

type cand struct {
	d   *nom.DetailedMomentum
	tag string
}

func resign(m *nom.Momentum, kp *wallet.KeyPair) {
	m.Hash = m.ComputeHash()
	m.Signature = kp.Sign(m.Hash.Bytes())
	m.PublicKey = kp.Public
}

// regen lets the supervisor fill ChangesHash/Hash/Signature as a producer holding kp would.
func regen(nd *Node, d *nom.DetailedMomentum, kp *wallet.KeyPair) {
	d.Momentum.ChangesHash = types.ZeroHash
	d.Momentum.Hash = types.ZeroHash
	d.Momentum.Signature, d.Momentum.PublicKey = nil, nil
	c := WireCopy(d)
	nd.Sv.GenerateMomentum(c, kp.Signer)
	d.Momentum.ChangesHash = c.Momentum.ChangesHash
	resign(d.Momentum, kp)
}

func fresh(d *nom.DetailedMomentum) *nom.DetailedMomentum { return WireCopy(d) }

func flip(h types.Hash, rng *rand.Rand) types.Hash {
	h[rng.Intn(5)] ^= byte(1 << uint(rng.Intn(8))) // inside the part the model sees
	return h
}

// every single-field mutation of a valid momentum, raw and re-sealed, plus other signers
func mutations(l *ledger, rng *rand.Rand, base *nom.DetailedMomentum, elected *wallet.KeyPair, parent *nom.Momentum) []cand {
	nd := l.nd
	var cs []cand
	add := func(tag string, s seal, kp *wallet.KeyPair, f func(d *nom.DetailedMomentum)) {
		d := fresh(base)
		f(d)
		d.Momentum.Timestamp = nil
		d.Momentum.EnsureCache()
		switch s {
		case sealResign:
			resign(d.Momentum, kp)
			tag += "/resigned"
		case sealRegen:
			if kp == nil { // whoever is elected for the (possibly mutated) timestamp
				kp = elected
				if a := l.refProducer(int64(d.Momentum.TimestampUnix)); a != nil && KeyOf(*a) != nil {
					kp = KeyOf(*a)
				}
			}
			regen(nd, d, kp)
			tag += "/regenerated"
		}
		d = WireCopy(d) // clears cached producer / timestamp
		cs = append(cs, cand{d, tag})
	}
	both := func(tag string, f func(d *nom.DetailedMomentum)) {
		add(tag, sealNone, nil, f)
		add(tag, sealRegen, nil, f)
	}
	add("valid", sealNone, nil, func(d *nom.DetailedMomentum) {})
	both("version=0", func(d *nom.DetailedMomentum) { d.Momentum.Version = 0 })
	both("version=2", func(d *nom.DetailedMomentum) { d.Momentum.Version = 2 + uint64(rng.Intn(3)) })
	both("chain-id=0", func(d *nom.DetailedMomentum) { d.Momentum.ChainIdentifier = 0 })
	both("chain-id-other", func(d *nom.DetailedMomentum) { d.Momentum.ChainIdentifier = 1 + uint64(rng.Intn(99)) })
	add("hash-flipped", sealNone, nil, func(d *nom.DetailedMomentum) { d.Momentum.Hash = flip(d.Momentum.Hash, rng) })
	add("hash-flipped+signed", sealNone, nil, func(d *nom.DetailedMomentum) {
		d.Momentum.Hash = flip(d.Momentum.Hash, rng)
		d.Momentum.Signature = elected.Sign(d.Momentum.Hash.Bytes())
	})
	both("prev-hash=0", func(d *nom.DetailedMomentum) { d.Momentum.PreviousHash = types.ZeroHash })
	both("prev-hash-random", func(d *nom.DetailedMomentum) { rng.Read(d.Momentum.PreviousHash[:]) })
	both("height+1", func(d *nom.DetailedMomentum) { d.Momentum.Height++ })
	both("height-1", func(d *nom.DetailedMomentum) { d.Momentum.Height-- })
	both("height=1", func(d *nom.DetailedMomentum) { d.Momentum.Height = 1 })
	both("height=0", func(d *nom.DetailedMomentum) { d.Momentum.Height = 0 })
	both("timestamp=0", func(d *nom.DetailedMomentum) { d.Momentum.TimestampUnix = 0 })
	both("timestamp=parent", func(d *nom.DetailedMomentum) { d.Momentum.TimestampUnix = parent.TimestampUnix })
	both("timestamp<parent", func(d *nom.DetailedMomentum) { d.Momentum.TimestampUnix = parent.TimestampUnix - 10*uint64(1+rng.Intn(40)) })
	both("timestamp-off-grid", func(d *nom.DetailedMomentum) { d.Momentum.TimestampUnix += uint64(1 + rng.Intn(9)) })
	both("timestamp-other-slot", func(d *nom.DetailedMomentum) { d.Momentum.TimestampUnix += 10 * uint64(1+rng.Intn(70)) })
	now := time.Now().Unix()
	grid := func(t int64) uint64 { return uint64(t - (t-genesisTs)%10) }
	both("timestamp=now+10", func(d *nom.DetailedMomentum) { d.Momentum.TimestampUnix = uint64(now + 10) })
	both("timestamp=now+12", func(d *nom.DetailedMomentum) { d.Momentum.TimestampUnix = uint64(now + 12) })
	both("timestamp-last-slot-not-in-future", func(d *nom.DetailedMomentum) { d.Momentum.TimestampUnix = grid(now + 8) })
	both("timestamp-first-slot-in-future", func(d *nom.DetailedMomentum) { d.Momentum.TimestampUnix = grid(now+8) + 20 })
	both("timestamp-far-future", func(d *nom.DetailedMomentum) { d.Momentum.TimestampUnix = grid(now + 86400*int64(1+rng.Intn(4000))) })
	both("timestamp>=2^63", func(d *nom.DetailedMomentum) {
		d.Momentum.TimestampUnix = []uint64{1 << 63, (1 << 63) - 62135596800 + uint64(rng.Intn(3)) - 1, ^uint64(0) - uint64(rng.Intn(20))}[rng.Intn(3)]
	})
	both("data-not-empty", func(d *nom.DetailedMomentum) { d.Momentum.Data = []byte{byte(rng.Intn(256))} })
	both("changes-hash-flipped", func(d *nom.DetailedMomentum) { d.Momentum.ChangesHash = flip(d.Momentum.ChangesHash, rng) })
	add("changes-hash-flipped", sealResign, elected, func(d *nom.DetailedMomentum) { d.Momentum.ChangesHash = flip(d.Momentum.ChangesHash, rng) })
	// content
	rndHeader := func() *types.AccountHeader {
		var h types.AccountHeader
		h.Address = backers[rng.Intn(len(backers))].Address
		rng.Read(h.Hash[:])
		h.Height = uint64(1 + rng.Intn(5))
		return &h
	}
	both("content-extra-header", func(d *nom.DetailedMomentum) { d.Momentum.Content = append(d.Momentum.Content, rndHeader()) })
	both("content-extra-header+block", func(d *nom.DetailedMomentum) {
		h := rndHeader()
		d.Momentum.Content = append(d.Momentum.Content, h)
		d.AccountBlocks = append(d.AccountBlocks, &nom.AccountBlock{Version: 1, ChainIdentifier: 100, BlockType: nom.BlockTypeUserSend,
			Address: h.Address, Hash: h.Hash, Height: h.Height, Amount: nil})
	})
	both("prefetched-extra-block", func(d *nom.DetailedMomentum) {
		h := rndHeader()
		d.AccountBlocks = append(d.AccountBlocks, &nom.AccountBlock{Version: 1, ChainIdentifier: 100, BlockType: nom.BlockTypeUserSend,
			Address: h.Address, Hash: h.Hash, Height: h.Height})
	})
	both("prefetched-extra-contract-send", func(d *nom.DetailedMomentum) {
		// a send block of an embedded contract that no header names (such blocks are exempt from the linking test)
		var hh types.Hash
		rng.Read(hh[:])
		b := &nom.AccountBlock{Version: 1, ChainIdentifier: 100, BlockType: nom.BlockTypeContractSend, Address: types.TokenContract,
			ToAddress: backers[rng.Intn(len(backers))].Address, Hash: hh, Height: uint64(1 + rng.Intn(50)), Amount: big.NewInt(int64(rng.Intn(1000))),
			TokenStandard: types.ZnnTokenStandard}
		i := rng.Intn(len(d.AccountBlocks) + 1)
		d.AccountBlocks = append(append(append([]*nom.AccountBlock{}, d.AccountBlocks[:i]...), b), d.AccountBlocks[i:]...)
	})
	if len(base.Momentum.Content) > 0 {
		both("prefetched-block-twice", func(d *nom.DetailedMomentum) {
			d.AccountBlocks = append(d.AccountBlocks, WireCopyBlock(d.AccountBlocks[rng.Intn(len(d.AccountBlocks))]))
		})
		both("prefetched-block-of-named-account-extra", func(d *nom.DetailedMomentum) {
			// one more block of an account that has blocks in the momentum, linked to the last of them
			last := d.AccountBlocks[rng.Intn(len(d.AccountBlocks))]
			for _, b := range d.AccountBlocks {
				if b.Address == last.Address && b.Height > last.Height {
					last = b
				}
			}
			var hh types.Hash
			rng.Read(hh[:])
			d.AccountBlocks = append(d.AccountBlocks, &nom.AccountBlock{Version: 1, ChainIdentifier: 100, BlockType: nom.BlockTypeUserSend,
				Address: last.Address, Hash: hh, Height: last.Height + 1, PreviousHash: last.Hash, Amount: big.NewInt(1), TokenStandard: types.ZnnTokenStandard})
		})
		both("content-header-dropped", func(d *nom.DetailedMomentum) {
			i := rng.Intn(len(d.Momentum.Content))
			d.Momentum.Content = append(append(nom.MomentumContent{}, d.Momentum.Content[:i]...), d.Momentum.Content[i+1:]...)
		})
		both("prefetched-block-dropped", func(d *nom.DetailedMomentum) {
			i := rng.Intn(len(d.AccountBlocks))
			d.AccountBlocks = append(append([]*nom.AccountBlock{}, d.AccountBlocks[:i]...), d.AccountBlocks[i+1:]...)
		})
		both("content+prefetched-block-dropped", func(d *nom.DetailedMomentum) {
			i := rng.Intn(len(d.Momentum.Content))
			h := d.Momentum.Content[i]
			d.Momentum.Content = append(append(nom.MomentumContent{}, d.Momentum.Content[:i]...), d.Momentum.Content[i+1:]...)
			var nb []*nom.AccountBlock
			for _, b := range d.AccountBlocks {
				if b.Hash != h.Hash {
					nb = append(nb, b)
				}
			}
			d.AccountBlocks = nb
		})
		both("prefetched-block-replaced", func(d *nom.DetailedMomentum) {
			i := rng.Intn(len(d.AccountBlocks))
			h := rndHeader()
			d.AccountBlocks[i] = &nom.AccountBlock{Version: 1, ChainIdentifier: 100, BlockType: nom.BlockTypeUserSend,
				Address: h.Address, Hash: h.Hash, Height: h.Height}
		})
		both("content-header-duplicated", func(d *nom.DetailedMomentum) {
			d.Momentum.Content = append(d.Momentum.Content, d.Momentum.Content[rng.Intn(len(d.Momentum.Content))])
		})
		both("content-reversed", func(d *nom.DetailedMomentum) {
			c := d.Momentum.Content
			for i, j := 0, len(c)-1; i < j; i, j = i+1, j-1 {
				c[i], c[j] = c[j], c[i]
			}
		})
	}
	both("content-phantom-block-linked", func(d *nom.DetailedMomentum) {
		// a header + block that link correctly to the account's confirmed frontier but were never applied on this node
		var a types.Address
		rng.Read(a[:])
		a[0] = types.UserAddrByte
		var hh types.Hash
		rng.Read(hh[:])
		d.Momentum.Content = append(d.Momentum.Content, &types.AccountHeader{Address: a, HashHeight: types.HashHeight{Hash: hh, Height: 1}})
		d.AccountBlocks = append(d.AccountBlocks, &nom.AccountBlock{Version: 1, ChainIdentifier: 100, BlockType: nom.BlockTypeUserReceive,
			Address: a, Hash: hh, Height: 1})
	})
	both("content-101-headers", func(d *nom.DetailedMomentum) {
		for len(d.Momentum.Content) <= 100 {
			d.Momentum.Content = append(d.Momentum.Content, rndHeader())
		}
	})
	// keys and signatures
	add("public-key-empty", sealNone, nil, func(d *nom.DetailedMomentum) { d.Momentum.PublicKey = nil })
	add("public-key-31-bytes", sealNone, nil, func(d *nom.DetailedMomentum) { d.Momentum.PublicKey = d.Momentum.PublicKey[:31] })
	add("signature-empty", sealNone, nil, func(d *nom.DetailedMomentum) { d.Momentum.Signature = nil })
	add("signature-bit-flipped", sealNone, nil, func(d *nom.DetailedMomentum) {
		d.Momentum.Signature[rng.Intn(len(d.Momentum.Signature))] ^= byte(1 << uint(rng.Intn(8)))
	})
	for _, kp := range g.PillarKeys[:5] {
		if kp.Address == elected.Address {
			continue
		}
		kp := kp
		add("public-key-of-other-pillar", sealNone, nil, func(d *nom.DetailedMomentum) { d.Momentum.PublicKey = kp.Public })
		add("signed-by-non-elected-pillar", sealResign, kp, func(d *nom.DetailedMomentum) {})
		add("produced-by-non-elected-pillar", sealRegen, kp, func(d *nom.DetailedMomentum) {})
	}
	add("signed-by-user", sealResign, g.User1, func(d *nom.DetailedMomentum) {})
	return cs
}

func momTerm(m *nom.Momentum) interface{} {
	ct := Lst()
	for _, h := range m.Content {
		ct = append(ct, Tup(addrZ(h.Address), hashZ(h.Hash), U64(h.Height)))
	}
	return Tup(U64(m.Version), U64(m.ChainIdentifier), hashZ(m.Hash), hashZ(m.PreviousHash), U64(m.Height), U64(m.TimestampUnix),
		I64(int64(len(m.Data))), hashZ(m.ChangesHash), I64(int64(len(m.PublicKey))), I64(int64(len(m.Signature))),
		addrZ(types.PubKeyToAddress(m.PublicKey)), ct)
}

// observe one candidate: context for the model, real verdict, insertion, direct oracle
func observe(l *ledger, out *Out, c cand, poolBlocks []*nom.AccountBlock) {
	nd := l.nd
	d := c.d
	m := d.Momentum
	old := frontierOf(nd.Ch)
	ledgerT := l.term(int64(m.TimestampUnix))

	pre := Lst()
	acct := Lst()
	seen := map[types.Address]bool{}
	parentStore := nd.Ch.GetMomentumStore(m.Previous())
	addAcct := func(a types.Address) {
		if seen[a] || parentStore == nil {
			return
		}
		seen[a] = true
		fb, err := parentStore.GetFrontierAccountBlock(a)
		if err == nil && fb != nil {
			acct = append(acct, Tup(addrZ(a), hashZ(fb.Hash), U64(fb.Height)))
		}
	}
	for _, b := range d.AccountBlocks {
		pre = append(pre, Tup(addrZ(b.Address), hashZ(b.Hash), U64(b.Height), hashZ(b.PreviousHash), b.IsSendBlock() && types.IsEmbeddedAddress(b.Address)))
	}
	for _, h := range m.Content {
		addAcct(h.Address)
	}
	// execution oracle: what a producer computes as ChangesHash for exactly this content over this parent
	ex := WireCopy(d)
	ex.Momentum.ChangesHash = types.ZeroHash
	_, exErr := nd.Sv.GenerateMomentum(ex, g.Pillar1.Signer)
	var exT interface{}
	switch {
	case !ex.Momentum.ChangesHash.IsZero():
		exT = Con("XOk", hashZ(ex.Momentum.ChangesHash))
	case errors.Is(exErr, constants.ErrVmRunPanic):
		exT = Con("XPanic")
	default:
		exT = Con("XErr")
	}
	now0 := time.Now().Unix()
	tx, err := nd.Sv.ApplyMomentum(WireCopy(d))
	now1 := time.Now().Unix()
	if now0 != now1 {
		out.Count("momentum:skipped-second-ticked")
		return
	}
	cls := errClass(err)
	inserted := false
	// consensus.points.InsertMomentum walks over every tick since the previous momentum: a candidate dated at the
	// real clock (25 years after the mock genesis) is only verified, not inserted
	far := m.TimestampUnix > old.TimestampUnix+20000
	if err == nil && !far {
		if e := addMomentum(nd.Ch, tx); e != nil {
			out.Count("momentum:add-refused")
		}
		nf := frontierOf(nd.Ch)
		inserted = nf.Hash == m.Hash && nf.Height == m.Height && old.Hash != m.Hash
		if nf.Identifier() != old.Identifier() {
			if nf.Height > old.Height {
				if e := rollbackTo(nd.Ch, old.Identifier()); e != nil {
					panic(e)
				}
			}
			back := frontierOf(nd.Ch)
			// a momentum that replaced the frontier at the same height cannot be undone by RollbackTo
			out.Oracle(back.Identifier() == old.Identifier(), "accepted-momentum-replaced-frontier",
				M{"candidate": c.tag, "old": fmt.Sprint(old.Identifier()), "now": fmt.Sprint(back.Identifier())})
			if back.Identifier() != old.Identifier() {
				panic("node state lost: " + c.tag)
			}
			// a rollback empties the account pool (accountPool.DeleteMomentum): put the unconfirmed blocks back
			cp := make([]*nom.AccountBlock, len(poolBlocks))
			for i, b := range poolBlocks {
				cp[i] = WireCopyBlock(b)
			}
			if e := BridgeOf(nd).AddAccountBlocks(cp); e != nil {
				panic(e)
			}
		}
	}
	ctxT := Tup(U64(nd.Ch.ChainIdentifier()), I64(now0), pre, acct, exT, hashZ(m.ComputeHash()), sigOK(m))
	if far {
		out.Case("apply_only", Tup(ledgerT, ctxT, momTerm(m)), I64(cls), c.tag+" -> "+className[cls])
	} else {
		out.Case("apply", Tup(ledgerT, ctxT, momTerm(m)), Tup(I64(cls), inserted), c.tag+" -> "+className[cls])
	}
	out.Count("momentum:class:" + className[cls])

	// ---- the property's own statement, on the implementation
	if inserted || (far && err == nil && m.Previous() == old.Identifier()) {
		ref := l.refProducer(int64(m.TimestampUnix))
		okProd := ref != nil && *ref == types.PubKeyToAddress(m.PublicKey)
		okLink := m.PreviousHash == old.Hash && m.Height == old.Height+1
		okTime := m.TimestampUnix > old.TimestampUnix && int64(m.TimestampUnix) <= now0+10
		okHash := m.Hash == m.ComputeHash() && !ex.Momentum.ChangesHash.IsZero() && m.ChangesHash == ex.Momentum.ChangesHash
		out.Oracle(okProd, "accepted-momentum-from-elected-pillar", M{"candidate": c.tag, "ts": U64(m.TimestampUnix)})
		out.Oracle(okLink, "accepted-momentum-extends-frontier", M{"candidate": c.tag, "prev": fmt.Sprint(m.Previous()), "frontier": fmt.Sprint(old.Identifier())})
		out.Oracle(okTime, "accepted-momentum-timestamp", M{"candidate": c.tag, "ts": U64(m.TimestampUnix), "parent": U64(old.TimestampUnix), "now": now0})
		out.Oracle(okHash && sigOK(m), "accepted-momentum-hash-commits", M{"candidate": c.tag})
	}
	// content / prefetch clause: an accepted momentum was presented with EXACTLY the account blocks its content names -
	// as many distinct blocks (by identifier) as headers, every header names a presented block, and per address the
	// blocks link (previous = the head so far / the account's frontier in the parent's store; blocks of embedded
	// contracts' send batches are exempt, as in the code)
	if err == nil && parentStore != nil {
		ids := map[types.HashHeight]*nom.AccountBlock{}
		for _, b := range d.AccountBlocks {
			ids[b.Identifier()] = b
		}
		named, linked := true, true
		heads := map[types.Address]types.HashHeight{}
		for _, h := range m.Content {
			b, ok := ids[h.Identifier()]
			if !ok {
				named = false
				continue
			}
			if b.IsSendBlock() && types.IsEmbeddedAddress(b.Address) {
				continue
			}
			prev, seen := heads[h.Address]
			if !seen {
				if fb, e := parentStore.GetFrontierAccountBlock(h.Address); e == nil && fb != nil {
					prev = fb.Identifier()
				}
			}
			linked = linked && b.Previous() == prev
			heads[h.Address] = b.Identifier()
		}
		out.Oracle(len(ids) == len(m.Content) && named && linked, "accepted-momentum-carries-exactly-the-blocks-its-content-names",
			M{"candidate": c.tag, "headers": len(m.Content), "presented_blocks": len(d.AccountBlocks), "distinct_presented_blocks": len(ids),
				"every_header_names_a_presented_block": named, "blocks_link_per_address": linked, "written_to_chain": inserted})
	}
	if c.tag == "valid" {
		out.Oracle(inserted, "valid-momentum-accepted", M{"class": className[cls], "err": fmt.Sprint(err)})
	}
}

// (ii) valid next momentums, their mutations, other signers, stale parents, through Supervisor.ApplyMomentum
func runMomentum(rng *rand.Rand, n int, out *Out, _ []string) {
	for h := 0; h < n; h++ {
		momentumHistory(rng, out)
	}
}

func momentumHistory(rng *rand.Rand, out *Out) {
	nd := NewNode()
	defer nd.Stop()
	if os.Getenv("ZH_DEBUG") != "" {
		common.SupervisorLogger.SetHandler(log15.StderrHandler)
	}
	l := newLedger(nd)
	steps := 4 + rng.Intn(10)
	for s := 0; s < steps; s++ {
		l.step(rng, out)
	}
	// leave some unconfirmed blocks so that the candidate has content
	if rng.Intn(4) != 0 {
		for k := 0; k < 1+rng.Intn(3); k++ {
			from := backers[rng.Intn(len(backers))]
			to := backers[rng.Intn(len(backers))]
			bal, _ := nd.Ch.GetFrontierAccountStore(from.Address).GetBalance(types.ZnnTokenStandard)
			if bal.Sign() > 0 {
				nd.Z.InsertSendBlock(&nom.AccountBlock{Address: from.Address, ToAddress: to.Address,
					TokenStandard: types.ZnnTokenStandard, Amount: big.NewInt(1)}, nil, "PASS-VM-CHANGES")
			}
		}
	}
	fr := frontierOf(nd.Ch)
	dt := randDt(rng)
	tx, blocks, err := buildNext(nd, fr, dt, true)
	if err != nil {
		panic(err)
	}
	base := &nom.DetailedMomentum{Momentum: tx.Momentum, AccountBlocks: blocks}
	elected := KeyOf(types.PubKeyToAddress(tx.Momentum.PublicKey))
	cs := mutations(l, rng, base, elected, fr)

	// stale parent: a correctly produced momentum on top of an older own momentum (a sibling of the frontier chain)
	if fr.Height > 2 {
		back := uint64(1 + rng.Intn(int(fr.Height-2)))
		if back > 3 {
			back = uint64(1 + rng.Intn(3))
		}
		par, _ := nd.Ch.GetFrontierMomentumStore().GetMomentumByHeight(fr.Height - back)
		for _, ddt := range []int64{10, int64(fr.TimestampUnix-par.TimestampUnix) + 10} {
			if stx, _, err := buildNext(nd, par, ddt, false); err == nil && !known(nd, stx.Momentum) {
				cs = append(cs, cand{WireCopy(&nom.DetailedMomentum{Momentum: stx.Momentum}), fmt.Sprintf("stale-parent(depth %d)", back)})
			} else {
				out.Count("momentum:stale-parent-not-buildable")
			}
		}
	}
	// a sample of the candidates per history keeps the run short; "valid" and the signer cases always
	for i, c := range cs {
		if i == 0 || rng.Intn(3) == 0 || len(c.tag) > 6 && (c.tag[:6] == "signed" || c.tag[:6] == "produc" || c.tag[:5] == "stale") {
			observe(l, out, c, blocks)
		}
	}
}

func known(nd *Node, m *nom.Momentum) bool {
	x, _ := nd.Ch.GetFrontierMomentumStore().GetMomentumByHash(m.Hash)
	return x != nil
}
