package main

// C05, clause "the schedule of a tick is a pure function of the ledger as of that tick's proof momentum: every node -
// computing it live, from its cache, after a restart - derives the same ordered list": the CONCURRENCY family.
//
// A node asks its election manager from several goroutines without a common lock: the consensus worker
// (ElectionByTick), the verifier of delivered momentums (VerifyMomentumProducer -> ElectionByTime), the chain listeners
// electionManager.InsertMomentum / points.InsertMomentum of the inserting goroutine, RPC readers. Here
//   - a node with COLD caches (no LRU, consensus DB deleted) is asked for the elections of many different ticks by
//     2..16 goroutines at once (different proof momentums in flight at the same moment), through ElectionByTick
//     (hook consensus.VerifElectionByTick) and through GetMomentumProducer;
//   - the same while a writer goroutine feeds the second half of the chain through ChainBridge.InsertChain
//     (verification of every momentum + the insert listeners ask elections of later ticks);
//   - one election algorithm object (as electionManager.algo) is asked for many random configurations at once.
// Every answer is compared with the answer of a second cold node that was asked one tick at a time, with the harness'
// own reference election and (correspondence cases `producer` / `election`) with the model; then the node is asked
// again (LRU) and after a restart (consensus DB): what was cached under the proof hash has to be the fresh answer.

import (
	"bufio"
	"bytes"
	"fmt"
	"math/rand"
	"os"
	"os/exec"
	"path/filepath"
	"strings"
	"sync"
	"time"
	. "zharness/hz"

	"github.com/zenon-network/go-zenon/chain/nom"
	"github.com/zenon-network/go-zenon/common/types"
	"github.com/zenon-network/go-zenon/consensus"
	"github.com/zenon-network/go-zenon/vm/constants"
)

func runConcurrent(rng *rand.Rand, n int, out *Out, args []string) {
	for h := 0; h < n; h++ {
		concurrentHistory(rng, out)
	}
	concurrentAlgorithm(rng, out, 2*n)
	for _, a := range args {
		if a == "race" {
			raceRun(rng, n, out)
		}
	}
}

// what one goroutine got for one tick
type tickAns struct {
	tick  uint64
	via   string
	prods []types.Address // nil: error
	errs  string
	pan   string
}

func sameAddrs(a, b []types.Address) bool {
	if len(a) != len(b) {
		return false
	}
	for i := range a {
		if a[i] != b[i] {
			return false
		}
	}
	return true
}
func short(as []types.Address) string {
	s := ""
	for _, a := range as {
		s += fmt.Sprintf("%x ", a.Bytes()[1:3])
	}
	return s
}

func tickLen() int64 {
	return constants.ConsensusConfig.BlockTime * int64(constants.ConsensusConfig.NodeCount)
}

// askTick: the ordered producers of a tick as the node answers now, through one of its read paths
func askTick(cs consensus.Consensus, tick uint64, via int) (a tickAns) {
	a.tick = tick
	defer func() {
		if r := recover(); r != nil {
			a.prods, a.pan = nil, fmt.Sprint(r)
		}
	}()
	switch via {
	case 0:
		a.via = "ElectionByTick"
		evs, _, err := consensus.VerifElectionByTick(cs, tick)
		if err != nil {
			a.errs = err.Error()
			return
		}
		for _, e := range evs {
			a.prods = append(a.prods, e.Producer)
		}
	default:
		a.via = "GetMomentumProducer"
		nc := int(constants.ConsensusConfig.NodeCount)
		bt := constants.ConsensusConfig.BlockTime
		for i := 0; i < nc; i++ {
			p, err := cs.GetMomentumProducer(time.Unix(genesisTs+int64(tick)*tickLen()+int64(i)*bt, 0))
			if err != nil {
				a.prods, a.errs = nil, err.Error()
				return
			}
			a.prods = append(a.prods, *p)
		}
	}
	return
}

// one goroutine's order over the ticks: rotated (at any moment the goroutines are at different, still uncomputed ticks),
// shuffled, or descending
func tickOrder(rng *rand.Rand, ticks []uint64, gi, g, mode int) []uint64 {
	r := make([]uint64, len(ticks))
	switch mode {
	case 0:
		off := gi * len(ticks) / g
		for i := range ticks {
			r[i] = ticks[(i+off)%len(ticks)]
		}
	case 1:
		copy(r, ticks)
		rng.Shuffle(len(r), func(i, j int) { r[i], r[j] = r[j], r[i] })
	default:
		off := gi * len(ticks) / g
		for i := range ticks {
			r[i] = ticks[(len(ticks)-1-i+off)%len(ticks)]
		}
	}
	return r
}

func concurrentHistory(rng *rand.Rand, out *Out) {
	nd := NewNode()
	defer nd.Stop()
	l := newLedger(nd)
	// most momentums in a tick of their own: (nearly) every tick gets its own proof momentum, i.e. its own election
	l.dt = func(rng *rand.Rand) int64 {
		switch rng.Intn(6) {
		case 0:
			return 10 * int64(1+rng.Intn(5))
		case 1:
			return 10 * int64(55+rng.Intn(40))
		default:
			return 10 * int64(12+rng.Intn(40))
		}
	}
	steps := 28 + rng.Intn(30)
	for s := 0; s < steps; s++ {
		l.step(rng, out)
	}
	fr := frontierOf(nd.Ch)
	lastTick := uint64((int64(fr.TimestampUnix)-genesisTs)/tickLen()) + 3
	var ticks []uint64
	for t := uint64(0); t <= lastTick; t++ {
		ticks = append(ticks, t)
	}
	ref := map[uint64][]types.Address{}
	proofs := map[types.Hash]bool{}
	for _, t := range ticks {
		ref[t] = l.refTick(t)
		if p := l.refProof(genesisTs + int64(t)*tickLen()); p != nil {
			proofs[p.Hash] = true
		}
	}
	out.Count(fmt.Sprintf("concurrent:distinct-proof-momentums-of-a-history-%02d+", len(proofs)/10*10))

	all := WireCopyAll(DetailedRange(nd.Ch, 2, fr.Height))
	feed := func(b *BareNode, ds []*nom.DetailedMomentum, stage string) bool {
		for len(ds) > 0 {
			k := 1 + rng.Intn(8)
			if k > len(ds) {
				k = len(ds)
			}
			if idx, err := b.Br.InsertChain(ds[:k]); err != nil {
				out.Oracle(false, "concurrent-sync-accepts-chain", M{"stage": stage, "index": idx, "err": err.Error(), "height": U64(ds[idx].Momentum.Height)})
				return false
			}
			ds = ds[k:]
		}
		return true
	}

	// regime A: the whole chain is there, caches cold; regime B: half of the chain is there (cold), a writer goroutine
	// delivers the rest while the readers ask the ticks whose proof momentum is already final
	withWriter := rng.Intn(2) == 0
	split := len(all)
	if withWriter {
		split = len(all)/3 + rng.Intn(len(all)/3+1)
	}
	base := OpenBare("")
	if !feed(base, all[:split], "prefix") {
		base.Destroy()
		return
	}
	seq := base.CloneCold()
	defer seq.Destroy()
	conc := base.ReopenCold()
	defer func() { conc.Destroy() }()

	// sequential reference: a cold node asked one tick at a time (regime B: after it got the rest of the chain)
	if withWriter && !feed(seq, WireCopyAll(all[split:]), "sequential node, rest") {
		return
	}
	seqAns := map[uint64][]types.Address{}
	for _, t := range ticks {
		a := askTick(seq.Cs, t, 0)
		seqAns[t] = a.prods
		out.Oracle(sameAddrs(a.prods, ref[t]), "sequential-election-matches-reference-election",
			M{"tick": U64(t), "got": short(a.prods), "want": short(ref[t]), "err": a.errs})
	}

	// the ticks whose election cannot change while the writer extends the chain: proof time <= timestamp of the prefix
	readTicks := ticks
	if withWriter {
		hf := conc.Frontier()
		k := uint64((int64(hf.TimestampUnix) - genesisTs) / tickLen())
		readTicks = nil
		for _, t := range ticks {
			if t <= k+1 {
				readTicks = append(readTicks, t)
			}
		}
		out.Count("concurrent:regime:readers-next-to-InsertChain-writer")
	} else {
		out.Count("concurrent:regime:readers-on-cold-node")
	}
	g := 2 + rng.Intn(15)
	mode := rng.Intn(3)
	orders := make([][]uint64, g)
	vias := make([]int, g)
	for gi := range orders {
		orders[gi] = tickOrder(rng, readTicks, gi, g, mode)
		vias[gi] = rng.Intn(3) % 2 // two thirds ElectionByTick
	}
	answers := make([][]tickAns, g)
	start := make(chan struct{})
	var wg sync.WaitGroup
	for gi := 0; gi < g; gi++ {
		wg.Add(1)
		go func(gi int) {
			defer wg.Done()
			<-start
			for _, t := range orders[gi] {
				answers[gi] = append(answers[gi], askTick(conc.Cs, t, vias[gi]))
			}
		}(gi)
	}
	writerOK := true
	if withWriter {
		rest := WireCopyAll(all[split:])
		wg.Add(1)
		go func() {
			defer wg.Done()
			<-start
			writerOK = feed(conc, rest, "writer next to readers")
		}()
	}
	close(start)
	wg.Wait()
	out.Count(fmt.Sprintf("concurrent:goroutines-%02d", g))
	if !writerOK {
		return
	}
	out.Oracle(conc.Frontier().Hash == fr.Hash, "concurrent-sync-accepts-chain", M{"stage": "frontier after writer", "want": fmt.Sprint(fr.Identifier())})

	wrong := map[uint64][]types.Address{}
	for gi, as := range answers {
		for _, a := range as {
			out.Count("concurrent:asked-via-" + a.via)
			ok := a.pan == "" && sameAddrs(a.prods, seqAns[a.tick])
			out.Oracle(ok, "concurrent-election-equals-sequential",
				M{"level": "node", "tick": U64(a.tick), "via": a.via, "goroutine": gi, "goroutines": g, "writer": withWriter, "order": mode,
					"got": short(a.prods), "sequential": short(seqAns[a.tick]), "err": a.errs, "panic": a.pan})
			out.Oracle(a.pan == "" && sameAddrs(a.prods, ref[a.tick]), "concurrent-election-matches-reference-election",
				M{"tick": U64(a.tick), "via": a.via, "goroutines": g, "writer": withWriter, "got": short(a.prods), "want": short(ref[a.tick]), "panic": a.pan})
			if !ok && a.prods != nil {
				wrong[a.tick] = a.prods
			}
		}
	}
	// the model's answer (Election.v through the `producer` tie) for a sample of the slots as answered concurrently
	nc := int(constants.ConsensusConfig.NodeCount)
	emit := func(t uint64, prods []types.Address, tag string) {
		if len(prods) != nc {
			return
		}
		i := rng.Intn(nc)
		ts := genesisTs + int64(t)*tickLen() + int64(i)*constants.ConsensusConfig.BlockTime
		out.Case("producer", Tup(l.term(ts), I64(ts)), prodObs{0, prods[i]}.term(), tag)
	}
	for k := 0; k < 12 && len(answers) > 0; k++ {
		as := answers[rng.Intn(len(answers))]
		if len(as) > 0 {
			a := as[rng.Intn(len(as))]
			emit(a.tick, a.prods, "concurrent:slot")
		}
	}
	k := 0
	for t, p := range wrong {
		if k++; k > 4 {
			break
		}
		for i := 0; i < 4; i++ {
			emit(t, p, "concurrent:slot")
		}
	}

	// what the node remembered: asked again in the same process (LRU), and after a restart (consensus DB)
	for _, t := range ticks {
		a := askTick(conc.Cs, t, 0)
		out.Oracle(a.pan == "" && sameAddrs(a.prods, seqAns[t]), "cached-election-equals-fresh",
			M{"stage": "same process, after the concurrent phase", "tick": U64(t), "got": short(a.prods), "fresh": short(seqAns[t]), "err": a.errs})
	}
	conc = conc.Reopen()
	for _, t := range ticks {
		a := askTick(conc.Cs, t, rng.Intn(2))
		out.Oracle(a.pan == "" && sameAddrs(a.prods, seqAns[t]), "cached-election-equals-fresh",
			M{"stage": "after restart (consensus DB)", "tick": U64(t), "via": a.via, "got": short(a.prods), "fresh": short(seqAns[t]), "err": a.errs})
	}
}

// ---- one election algorithm object asked by several goroutines (electionManager.algo is one object per node)
func concurrentAlgorithm(rng *rand.Rand, out *Out, batches int) {
	saved := *constants.ConsensusConfig
	defer func() { *constants.ConsensusConfig = saved }()
	type cfg struct {
		np     int
		ds     []*types.PillarDelegation
		height uint64
		want   []*types.PillarDelegation
	}
	same := func(a, b []*types.PillarDelegation) bool {
		if len(a) != len(b) {
			return false
		}
		for i := range a {
			if a[i].Name != b[i].Name || a[i].Producing != b[i].Producing || a[i].Weight.Cmp(b[i].Weight) != 0 {
				return false
			}
		}
		return true
	}
	for b := 0; b < batches; b++ {
		nc, rc, _, _, _, _ := randElectionConfig(rng)
		constants.ConsensusConfig = &constants.Consensus{BlockTime: 10, NodeCount: uint8(nc), RandCount: uint8(rc), CountingZTS: types.ZnnTokenStandard}
		ctx := consensus.NewConsensusContext(time.Unix(genesisTs, 0))
		cfgs := make([]*cfg, 16+rng.Intn(48))
		for i := range cfgs {
			_, _, _, _, ds, height := randElectionConfig(rng)
			if rng.Intn(3) == 0 && i > 0 {
				ds = cloneDelegs(cfgs[i-1].ds) // same pillars, another proof height
			}
			// sequential reference: a fresh algorithm object per election
			want := consensus.NewElectionAlgorithm(ctx).SelectProducers(consensus.NewAlgorithmContext(cloneDelegs(ds), &types.HashHeight{Height: height}))
			cfgs[i] = &cfg{len(ds), ds, height, want}
		}
		shared := consensus.NewElectionAlgorithm(ctx)
		g := 2 + rng.Intn(15)
		got := make([][][]*types.PillarDelegation, g)
		pans := make([][]string, g)
		orders := make([][]int, g)
		for gi := range orders {
			orders[gi] = rng.Perm(len(cfgs))
			got[gi] = make([][]*types.PillarDelegation, len(cfgs))
			pans[gi] = make([]string, len(cfgs))
		}
		start := make(chan struct{})
		var wg sync.WaitGroup
		for gi := 0; gi < g; gi++ {
			wg.Add(1)
			go func(gi int) {
				defer wg.Done()
				<-start
				for _, ci := range orders[gi] {
					func() {
						defer func() {
							if r := recover(); r != nil {
								pans[gi][ci] = fmt.Sprint(r)
							}
						}()
						c := cfgs[ci]
						got[gi][ci] = shared.SelectProducers(consensus.NewAlgorithmContext(cloneDelegs(c.ds), &types.HashHeight{Height: c.height}))
					}()
				}
			}(gi)
		}
		close(start)
		wg.Wait()
		emitted := 0
		for gi := 0; gi < g; gi++ {
			for ci, c := range cfgs {
				ok := pans[gi][ci] == "" && same(got[gi][ci], c.want)
				out.Oracle(ok, "concurrent-election-equals-sequential",
					M{"level": "algorithm object", "nc": nc, "rc": rc, "pillars": c.np, "height": U64(c.height), "goroutines": g, "goroutine": gi,
						"got_len": len(got[gi][ci]), "panic": pans[gi][ci]})
				// the model on the answers given under concurrency (a few per batch; a wrong one always)
				if pans[gi][ci] == "" && (!ok && emitted < 6 || gi == 0 && ci < 2) {
					emitted++
					emitElectionCase(out, nc, rc, c.np, c.height, c.ds, got[gi][ci], "concurrent:")
				}
			}
		}
		out.Count("concurrent:algorithm-object-batches")
	}
}

// ---- the same family in a build with the race detector (supporting exploration, as c14's race suite): the number of
// reports is recorded, and a report is a failure of the clause "every node derives the same list" only in so far as the
// readers of one node are not allowed to disturb each other: the unchanged tree runs without a single report.
func raceRun(rng *rand.Rand, n int, out *Out) {
	exe, _ := os.Executable()
	root := filepath.Dir(filepath.Dir(filepath.Dir(exe))) // <verif>/.build/bin/c05 -> <verif>
	bin := filepath.Join(root, ".build", "bin", "c05race")
	build := exec.Command("go", "build", "-race", "-tags", "verif", "-o", bin, "./cmd/c05")
	build.Dir = filepath.Join(root, "harness")
	build.Env = append(os.Environ(), "GOFLAGS=-mod=mod", "GOPROXY=off", "GOSUMDB=off", "GOTOOLCHAIN=local", "CGO_ENABLED=1")
	if b, err := build.CombinedOutput(); err != nil {
		out.Count("race:build-unavailable")
		fmt.Fprintln(os.Stderr, "race build failed:", err, string(b))
		return
	}
	tmp, _ := os.CreateTemp("", "c05race*.jsonl")
	tmp.Close()
	defer os.Remove(tmp.Name())
	cmd := exec.Command(bin, "concurrent", "-seed", fmt.Sprint(rng.Int63()), "-n", fmt.Sprint(n), "-out", tmp.Name())
	var stderr bytes.Buffer
	cmd.Stderr = &stderr
	cmd.Env = append(os.Environ(), "GORACE=halt_on_error=0 exitcode=0")
	err := cmd.Run()
	// only reports with a frame of the node's own code count (not those inside the harness alone)
	races, first := 0, ""
	for _, rep := range strings.Split(stderr.String(), "WARNING: DATA RACE")[1:] {
		if i := strings.Index(rep, "=================="); i >= 0 {
			rep = rep[:i]
		}
		if strings.Contains(rep, "github.com/zenon-network/go-zenon/") {
			races++
			if first == "" {
				first = "WARNING: DATA RACE" + rep
				if len(first) > 3000 {
					first = first[:3000]
				}
				fmt.Fprintln(os.Stderr, first)
			}
		} else {
			out.Count("race:reports-inside-the-harness-only")
		}
	}
	out.Count(fmt.Sprintf("race:data-race-reports=%d", races))
	out.Oracle(races == 0, "no-data-race-between-concurrent-elections", Tup(I64(int64(races)), first))
	out.Oracle(err == nil, "race-run-completes", Tup(fmt.Sprint(err)))
	if f, e := os.Open(tmp.Name()); e == nil {
		sc := bufio.NewScanner(f)
		sc.Buffer(make([]byte, 1<<20), 64<<20)
		for sc.Scan() {
			line := sc.Text()
			if strings.Contains(line, `"k":"oracle"`) {
				out.Oracle(false, "race-build:"+oracleKey(line), line[:minInt(len(line), 1500)])
			}
		}
		f.Close()
	}
}

func oracleKey(line string) string {
	i := strings.Index(line, `"key":"`)
	if i < 0 {
		return "oracle"
	}
	rest := line[i+7:]
	if j := strings.Index(rest, `"`); j >= 0 {
		return rest[:j]
	}
	return "oracle"
}
func minInt(a, b int) int {
	if a < b {
		return a
	}
	return b
}
