package main

import (
	"errors"
	"fmt"
	"math/rand"
	"time"
	. "zharness/hz"

	"github.com/zenon-network/go-zenon/common/types"
	"github.com/zenon-network/go-zenon/consensus"
)

type prodObs struct {
	cls  int64
	addr types.Address
}

func observeProducer(cs consensus.Consensus, ts int64) prodObs {
	a, err := cs.GetMomentumProducer(time.Unix(ts, 0))
	switch {
	case err == nil:
		return prodObs{0, *a}
	case errors.Is(err, consensus.ErrElectionBeforeGenesis):
		return prodObs{1, types.Address{}}
	default:
		return prodObs{3, types.Address{}}
	}
}
func (p prodObs) term() interface{} { return Tup(I64(p.cls), addrZ(p.addr)) }

func runSchedule(rng *rand.Rand, n int, out *Out, _ []string) {
	for h := 0; h < n; h++ {
		scheduleHistory(rng, out)
	}
}

func scheduleHistory(rng *rand.Rand, out *Out) {
	nd := NewNode()
	defer nd.Stop()
	l := newLedger(nd)
	emitDelegs := func() {
		st := nd.Ch.GetFrontierMomentumStore()
		in, err := delegationInputs(st)
		if err != nil {
			panic(err)
		}
		det, err := st.ComputePillarDelegations()
		if err != nil {
			panic(err)
		}
		out.Case("delegations", in, delegsTerm(types.ToPillarDelegation(det)), "compute-pillar-delegations")
	}
	steps := 8 + rng.Intn(30)
	for s := 0; s < steps; s++ {
		l.step(rng, out)
		if rng.Intn(4) == 0 {
			emitDelegs()
		}
	}
	tag := "live"
	// warm every cache of the long-running node on the branch it is about to leave: the schedule of every slot up to
	// two ticks past the frontier is asked BEFORE the reorganisation (a schedule remembered from the abandoned branch
	// must not survive the switch); asked again afterwards and compared with a restarted node
	warmBefore := func() {
		fr := frontierOf(nd.Ch)
		for ts := genesisTs; ts <= int64(fr.TimestampUnix)+700; ts += 10 {
			if rng.Intn(3) != 0 {
				observeProducer(nd.Cs, ts)
			}
		}
		out.Count("schedule:asked-before-reorg")
	}
	// reorganisation: drop up to 30 momentums, grow another branch past two ticks so that later elections
	// take their proof momentum from the new branch
	for round := 0; round < 2; round++ {
		if rng.Intn(3) != 0 {
			if rng.Intn(4) != 0 {
				warmBefore()
			}
			fr := frontierOf(nd.Ch)
			k := uint64(1 + rng.Intn(30))
			if k >= fr.Height {
				k = fr.Height - 1
			}
			if k > 0 {
				target, _ := nd.Ch.GetFrontierMomentumStore().GetMomentumByHeight(fr.Height - k)
				if err := rollbackTo(nd.Ch, target.Identifier()); err != nil {
					panic(err)
				}
				l.record()
				for s := 0; s < 5+rng.Intn(20); s++ {
					l.step(rng, out)
				}
				tag = "reorganised"
				out.Count(fmt.Sprintf("schedule:reorg-depth-%02d", k))
			}
		}
	}
	fr := frontierOf(nd.Ch)

	// a second node that receives the same chain through the chain bridge, then restarts (cold caches)
	synced := OpenBare("")
	all := WireCopyAll(DetailedRange(nd.Ch, 2, fr.Height))
	for len(all) > 0 {
		k := 1 + rng.Intn(12)
		if k > len(all) {
			k = len(all)
		}
		if idx, err := synced.Br.InsertChain(all[:k]); err != nil {
			out.Oracle(false, "schedule-second-node-accepts-chain", M{"index": idx, "err": err.Error(), "height": U64(all[idx].Momentum.Height)})
			synced.Destroy()
			return
		}
		all = all[k:]
	}
	out.Oracle(synced.Frontier().Hash == fr.Hash, "schedule-second-node-accepts-chain", M{"frontier": fmt.Sprint(fr.Identifier())})

	// every momentum of the chain the node built and accepted was produced by the pillar that the reference election
	// (computed from the ledger as of the tick's proof momentum) names for its slot — whatever the frontier was at the
	// moment the node itself computed that election
	if st := nd.Ch.GetFrontierMomentumStore(); true {
		for hgt := uint64(2); hgt <= fr.Height; hgt++ {
			m, err := st.GetMomentumByHeight(hgt)
			if err != nil || m == nil {
				continue
			}
			ref := l.refProducer(int64(m.TimestampUnix))
			out.Oracle(ref != nil && m.Producer() == *ref, "chain-momentum-produced-by-reference-elected-pillar",
				M{"height": U64(hgt), "ts": I64(int64(m.TimestampUnix)), "producer": m.Producer().String(), "node": tag})
		}
	}
	// slots: every slot start from before genesis to two ticks past the frontier, plus off-grid instants
	var slots []int64
	for ts := genesisTs - 30; ts <= int64(fr.TimestampUnix)+700; ts += 10 {
		slots = append(slots, ts)
		if rng.Intn(15) == 0 {
			slots = append(slots, ts+int64(1+rng.Intn(9)))
		}
	}
	rng.Shuffle(len(slots), func(i, j int) { slots[i], slots[j] = slots[j], slots[i] })
	warm := map[int64]prodObs{}
	for _, ts := range slots {
		warm[ts] = observeProducer(nd.Cs, ts)
	}
	syncedObs := map[int64]prodObs{}
	for _, ts := range slots {
		syncedObs[ts] = observeProducer(synced.Cs, ts)
	}
	cold := synced.Reopen()
	defer cold.Destroy()
	registered := map[types.Address]bool{}
	for _, ds := range l.delegs {
		for _, d := range ds {
			registered[d.Producing] = true
		}
	}
	emitted := 0
	for _, ts := range slots {
		c := observeProducer(cold.Cs, ts)
		w, s := warm[ts], syncedObs[ts]
		out.Oracle(w == c && s == c, "schedule-equal-on-live-synced-restarted-node",
			M{"ts": ts, "node": tag, "live": fmt.Sprint(w), "synced": fmt.Sprint(s), "restarted": fmt.Sprint(c)})
		ref := l.refProducer(ts)
		if ref != nil {
			out.Oracle(w.cls == 0 && w.addr == *ref, "schedule-matches-reference-election", M{"ts": ts, "node": tag, "got": fmt.Sprint(w), "want": ref.String()})
			out.Oracle(w.cls != 0 || registered[w.addr], "schedule-slot-filled-by-registered-pillar", M{"ts": ts})
		} else {
			out.Oracle(w.cls != 0, "schedule-no-producer-outside-slots", M{"ts": ts, "got": fmt.Sprint(w)})
		}
		if emitted < 25 || (ts-genesisTs)%10 != 0 {
			emitted++
			kind := "slot"
			if w.cls != 0 {
				kind = "no-slot"
			}
			out.Case("producer", Tup(l.term(ts), I64(ts)), w.term(), tag+":"+kind)
		}
	}
}
