package main

// C05, clause "the schedule of a tick is a pure function of the ledger as of that tick's proof momentum: every node -
// computing it live, from its cache, after a restart - derives the same ordered list": the COLD-START family.
//
// A node may lose its consensus database while it keeps its chain (cache directory deleted, chain DB bootstrapped from a
// snapshot, consensus DB recreated after a crash). From then on its stored elections are written by whoever asks first:
// the verifier of the next delivered momentum (ElectionByTime), RPC readers, and the chain listener
// electionManager.InsertMomentum, which pre-computes the election of the tick that has just ended on EVERY insert event.
// On a node that followed the chain from genesis the listener only ever computes when the first momentum of a tick
// arrives; on a node that starts with an empty consensus DB in the middle of a tick it computes at whatever position the
// node happens to be, with later momentums (pillar registrations and revocations, delegations, transfers between
// backers) already on the chain.
//
// Histories: several momentums per tick, slot gaps up to a few ticks, delegate / undelegate / all backers of a pillar
// leave / transfers between backers / registration of a fourth and fifth pillar / revocation of one of them, at any
// position relative to the tick boundaries. The chain is then replayed into nodes whose consensus DB is deleted
//   (A) before EVERY momentum (every position inside every tick), and
//   (B) at random positions, the node then running on for 2..12 momentums,
// the following momentums are delivered one by one through ChainBridge.InsertChain (empty and non-empty ones; verification
// and the insert listeners run), and AFTER each delivery the node is asked for the schedule of the ticks around its
// frontier (answered from what it has just stored), in a quarter of the positions once more after a plain restart
// (consensus LevelDB read back). Oracle `cold-started-consensus-schedule-equals-live`: every answer equals the answer of
// the node that followed the chain from genesis with an intact consensus DB and the harness' reference election computed
// from the ledger recorded at the tick's proof momentum; a sample of the answers (a wrong one always) goes to the model.

import (
	"fmt"
	"math/big"
	"math/rand"
	. "zharness/hz"

	g "github.com/zenon-network/go-zenon/chain/genesis/mock"
	"github.com/zenon-network/go-zenon/chain/nom"
	"github.com/zenon-network/go-zenon/common/types"
	"github.com/zenon-network/go-zenon/vm/constants"
	"github.com/zenon-network/go-zenon/vm/embedded/definition"
	"github.com/zenon-network/go-zenon/wallet"
	"github.com/zenon-network/go-zenon/zenon/mock"
)

func runColdStart(rng *rand.Rand, n int, out *Out, _ []string) {
	for h := 0; h < n; h++ {
		coldStartHistory(rng, out)
	}
}

// a call of the mock that ends in t.Fatalf (a panic of FakeT) is simply not part of the history
func tryCall(f func()) (ok bool) {
	defer func() {
		if r := recover(); r != nil {
			ok = false
		}
	}()
	f()
	return true
}

func coldStartHistory(rng *rand.Rand, out *Out) {
	// short lock / revoke windows (as the pillar tests of the repository do): a registered pillar can be revoked
	// within the history
	lock, revoke := constants.PillarEpochLockTime, constants.PillarEpochRevokeTime
	constants.PillarEpochLockTime, constants.PillarEpochRevokeTime = 60, 60
	defer func() { constants.PillarEpochLockTime, constants.PillarEpochRevokeTime = lock, revoke }()

	nd := NewNode()
	defer nd.Stop()
	l := newLedger(nd)
	l.dt = func(rng *rand.Rand) int64 {
		switch rng.Intn(24) {
		case 0:
			return 10 * int64(28+rng.Intn(6)) // about a tick
		case 1:
			return 10 * int64(58+rng.Intn(40)) // more than two ticks
		case 2, 3, 4:
			return 10 * int64(2+rng.Intn(4))
		default:
			return 10
		}
	}
	momentum := func() {
		nd.Momentum()
		l.record()
	}
	type extra struct {
		kp         *wallet.KeyPair
		name       string
		registered bool
	}
	extras := []*extra{{g.Pillar4, g.Pillar4Name, false}, {g.Pillar5, g.Pillar5Name, false}}
	steps := 34 + rng.Intn(16)
	for s := 0; s < steps; s++ {
		switch rng.Intn(14) {
		case 0:
			// a new pillar registers: QSR deposit, then the registration (its election weight is zero until somebody delegates)
			for _, e := range extras {
				if e.registered {
					continue
				}
				e.registered = true
				tryCall(func() {
					nd.Z.InsertSendBlock(&nom.AccountBlock{Address: e.kp.Address, ToAddress: types.PillarContract, TokenStandard: types.QsrTokenStandard,
						Amount: big.NewInt(150000 * g.Zexp), Data: definition.ABIPillars.PackMethodPanic(definition.DepositQsrMethodName)}, nil, mock.SkipVmChanges)
				})
				momentum()
				momentum()
				tryCall(func() {
					nd.Z.InsertSendBlock(&nom.AccountBlock{Address: e.kp.Address, ToAddress: types.PillarContract, TokenStandard: types.ZnnTokenStandard,
						Amount: constants.PillarStakeAmount,
						Data:   definition.ABIPillars.PackMethodPanic(definition.RegisterMethodName, e.name, e.kp.Address, e.kp.Address, uint8(0), uint8(100))}, nil, mock.SkipVmChanges)
				})
				momentum()
				out.Count("history:pillar-registration")
				break
			}
		case 1:
			// somebody delegates to a newly registered pillar / the pillar is revoked (inside its revoke window)
			for _, e := range extras {
				if !e.registered {
					continue
				}
				if rng.Intn(2) == 0 {
					u := backers[rng.Intn(len(backers))]
					tryCall(func() {
						nd.Z.InsertSendBlock(&nom.AccountBlock{Address: u.Address, ToAddress: types.PillarContract,
							Data: definition.ABIPillars.PackMethodPanic(definition.DelegateMethodName, e.name)}, nil, mock.SkipVmChanges)
					})
					out.Count("history:delegate-to-new-pillar")
				} else {
					tryCall(func() {
						nd.Z.InsertSendBlock(&nom.AccountBlock{Address: e.kp.Address, ToAddress: types.PillarContract,
							Data: definition.ABIPillars.PackMethodPanic(definition.RevokeMethodName, e.name)}, nil, mock.SkipVmChanges)
					})
					out.Count("history:pillar-revocation-attempt")
				}
				momentum()
				break
			}
		}
		l.step(rng, out)
	}
	fr := frontierOf(nd.Ch)
	all := WireCopyAll(DetailedRange(nd.Ch, 2, fr.Height))
	tl := tickLen()
	tickOf := func(ts uint64) uint64 { return uint64((int64(ts) - genesisTs) / tl) }
	lastTick := tickOf(fr.TimestampUnix) + 1

	// what changed in the election's inputs, by momentum height (for the counters and the failing input)
	changedAt := map[uint64]bool{}
	pillarsAt := map[uint64]int{}
	for h := uint64(1); h <= fr.Height; h++ {
		pillarsAt[h] = len(l.delegs[h])
		if h > 1 && delegKey(l.delegs[h]) != delegKey(l.delegs[h-1]) {
			changedAt[h] = true
			if pillarsAt[h] > pillarsAt[h-1] {
				out.Count("history:pillar-set-grew")
			} else if pillarsAt[h] < pillarsAt[h-1] {
				out.Count("history:pillar-set-shrank")
			}
		}
	}

	// the node that followed from genesis (intact consensus DB), and the reference election
	live, ref := map[uint64][]types.Address{}, map[uint64][]types.Address{}
	for t := uint64(0); t <= lastTick; t++ {
		a := askTick(nd.Cs, t, 0)
		live[t], ref[t] = a.prods, l.refTick(t)
		out.Oracle(a.pan == "" && sameAddrs(a.prods, ref[t]), "schedule-matches-reference-election",
			M{"node": "followed the chain from genesis", "tick": U64(t), "got": short(a.prods), "want": short(ref[t]), "err": a.errs, "panic": a.pan})
	}

	nc := int(constants.ConsensusConfig.NodeCount)
	emitted := 0
	emit := func(t uint64, prods []types.Address, force bool) {
		if len(prods) != nc || (!force && emitted >= 10) {
			return
		}
		emitted++
		i := rng.Intn(nc)
		ts := genesisTs + int64(t)*tl + int64(i)*constants.ConsensusConfig.BlockTime
		out.Case("producer", Tup(l.term(ts), I64(ts)), prodObs{0, prods[i]}.term(), "cold-start:slot")
	}

	// one replay: cold(i) says whether the consensus DB is deleted right before momentum all[i] is delivered
	replay := func(regime string, cold func(i int) bool) {
		c := OpenBare("")
		defer func() { c.Destroy() }()
		startH, fed := uint64(0), []string{}
		wrongTicks := map[uint64]bool{}
		for i, d := range all {
			m := d.Momentum
			if cold(i) {
				c = c.ReopenCold()
				startH, fed = m.Height-1, nil
				pos := (int64(all[maxI(i-1, 0)].Momentum.TimestampUnix) - genesisTs) % tl / constants.ConsensusConfig.BlockTime
				bucket := []string{"slot-00(first-of-tick)", "slots-01..09", "slots-10..19", "slots-20..28", "slot-29(last-of-tick)"}[(pos+9)/10]
				if pos == int64(nc)-1 {
					bucket = "slot-29(last-of-tick)"
				}
				out.Count(fmt.Sprintf("cold-start:%s:frontier-of-the-cold-node-in-%s", regime, bucket))
			}
			if idx, err := c.Br.InsertChain([]*nom.DetailedMomentum{d}); err != nil {
				out.Oracle(false, "cold-started-node-accepts-chain", M{"regime": regime, "consensus_db_deleted_at_height": U64(startH), "index": idx,
					"height": U64(m.Height), "fed_since": fed, "err": err.Error()})
				return
			}
			kind := "empty"
			if len(m.Content) > 0 {
				kind = "with-blocks"
			}
			fed = append(fed, fmt.Sprintf("%d(tick %d, %s)", m.Height, tickOf(m.TimestampUnix), kind))
			if startH == 0 {
				continue // still the node that followed from genesis
			}
			T := tickOf(m.TimestampUnix)
			if len(fed) == 1 {
				// ledger changes between the end of the previous tick and the first momentum after the cold start
				ch := "no-change"
				for h := m.Height; h > 1 && tickOf(all[h-2].Momentum.TimestampUnix) == T; h-- {
					if changedAt[h] {
						ch = "election-inputs-changed"
					}
				}
				out.Count(fmt.Sprintf("cold-start:%s:first-momentum-%s:%s-since-tick-boundary", regime, kind, ch))
			}
			// the ticks whose proof momentum is final for this node: up to T+1
			ticks := []uint64{T + 1, T}
			if T > 0 && rng.Intn(3) == 0 {
				ticks = append(ticks, uint64(rng.Intn(int(T))))
			}
			ask := func(stage string) {
				var changed []uint64
				for h := uint64(2); h <= m.Height; h++ {
					if changedAt[h] {
						changed = append(changed, h)
					}
				}
				for ti, t := range ticks {
					a := askTick(c.Cs, t, 0)
					ok := a.pan == "" && sameAddrs(a.prods, live[t]) && sameAddrs(a.prods, ref[t])
					if ok && ti == 0 && rng.Intn(3) == 0 {
						// the read path of the verifier / the pillar: a few slots of the tick through GetMomentumProducer
						for k := 0; k < 3 && len(ref[t]) == nc; k++ {
							i := rng.Intn(nc)
							o := observeProducer(c.Cs, genesisTs+int64(t)*tl+int64(i)*constants.ConsensusConfig.BlockTime)
							if o.cls != 0 || o.addr != ref[t][i] {
								ok, a.via, a.errs = false, "GetMomentumProducer", fmt.Sprintf("slot %d: %v", i, o)
							}
						}
					}
					detail := M{"regime": regime, "stage": stage, "via": a.via, "tick": U64(t), "consensus_db_deleted_at_height": U64(startH),
						"momentums_delivered_since": fed, "node_frontier_height": U64(m.Height), "node_frontier_tick": U64(T)}
					detail["heights_where_election_inputs_changed"] = changed
					detail["got"], detail["live_node"], detail["reference"] = short(a.prods), short(live[t]), short(ref[t])
					detail["err"], detail["panic"] = a.errs, a.pan
					out.Oracle(ok, "cold-started-consensus-schedule-equals-live", detail)
					if !ok && !wrongTicks[t] {
						wrongTicks[t] = true
						for k := 0; k < 3; k++ {
							emit(t, a.prods, true)
						}
					} else if ok && rng.Intn(40) == 0 {
						emit(t, a.prods, false)
					}
				}
			}
			ask("after the listener ran (same process)")
			if rng.Intn(4) == 0 {
				c = c.Reopen()
				ask("after one more restart (consensus DB read back)")
				out.Count("cold-start:" + regime + ":asked-again-after-restart")
			}
		}
		out.Oracle(c.Frontier().Hash == fr.Hash, "cold-started-node-accepts-chain", M{"regime": regime, "frontier": fmt.Sprint(fr.Identifier())})
	}
	// (A) every position
	replay("every-position", func(i int) bool { return i > 0 })
	// (B) random positions, the node runs on for 2..12 momentums
	next := 1 + rng.Intn(6)
	replay("runs", func(i int) bool {
		if i == next {
			next = i + 2 + rng.Intn(11)
			return true
		}
		return false
	})
}

func maxI(a, b int) int {
	if a > b {
		return a
	}
	return b
}
