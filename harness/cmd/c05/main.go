package main

import (
	"math/rand"
	. "zharness/hz"
)

// C05 — momentums come only from the elected pillar; the schedule is deterministic.
//
//	election  : random pillar/delegation configurations through the real SelectProducers
//	momentum  : valid next momentums, every single-field mutation, other signers, through Supervisor.ApplyMomentum
//	schedule  : GetMomentumProducer for every slot on a live / reorganised node vs cold and restarted nodes
//	coldstart : nodes whose consensus DB is deleted at every position inside a tick, fed on momentum by momentum (coldstart.go)
func main() {
	Main(map[string]Runner{"election": runElection, "momentum": runMomentum, "schedule": runSchedule, "concurrent": runConcurrent,
		"concurrent-race": func(rng *rand.Rand, n int, out *Out, _ []string) { raceRun(rng, n, out) }, "produce": runProduce, "coldstart": runColdStart})
}
