package main

import (
	"bytes"
	"crypto/ed25519"
	"crypto/hmac"
	"crypto/sha512"
	"encoding/binary"
	"encoding/hex"
	"encoding/json"
	"fmt"
	"math/rand"
	"os"
	"path/filepath"
	"runtime"
	"strconv"
	"strings"
	. "zharness/hz"

	"github.com/ethereum/go-ethereum/common/hexutil"

	"github.com/zenon-network/go-zenon/common/types"
	"github.com/zenon-network/go-zenon/wallet"
)

func main() {
	Main(map[string]Runner{"glue": runGlue, "keys": runKeys})
}

func txt(s string) M { return Byt([]byte(s)) }

// ---------------------------------------------------------------- independent SLIP-0010 chain (spec)
func specChain(seed []byte, nums []uint64) (pub []byte, ok bool) {
	mac := hmac.New(sha512.New, []byte("ed25519 seed"))
	mac.Write(seed)
	sum := mac.Sum(nil)
	k, c := sum[:32], sum[32:]
	for _, n := range nums {
		if n >= 1<<31 {
			return nil, false // would not be a hardened child
		}
		i := uint32(n) + 0x80000000
		ib := make([]byte, 4)
		binary.BigEndian.PutUint32(ib, i)
		mac = hmac.New(sha512.New, c)
		mac.Write([]byte{0})
		mac.Write(k)
		mac.Write(ib)
		sum = mac.Sum(nil)
		k, c = sum[:32], sum[32:]
	}
	priv := ed25519.NewKeyFromSeed(k)
	return priv.Public().(ed25519.PublicKey), true
}

func rPath(rng *rand.Rand) string {
	num := func() string {
		switch rng.Intn(10) {
		case 0:
			return "0"
		case 1:
			return strconv.FormatUint(uint64(1<<31)-1+uint64(rng.Intn(3)), 10) // around 2^31
		case 2:
			return strconv.FormatUint(uint64(1<<32)-2+uint64(rng.Intn(4)), 10) // around 2^32
		case 3:
			return "00" + strconv.Itoa(rng.Intn(100))
		case 4:
			return strconv.FormatUint(rng.Uint64(), 10)
		case 5:
			return "99999999999999999999999999"
		default:
			return strconv.Itoa(rng.Intn(100000))
		}
	}
	k := rng.Intn(18)
	if k >= 15 {
		k = 0
	} else if k >= 12 {
		k = 11
	}
	switch k {
	case 0:
		return fmt.Sprintf("m/44'/73404'/%s'", num())
	case 1:
		return "m"
	case 2:
		return "m/"
	case 3:
		return fmt.Sprintf("m/44/73404/%s", num()) // not hardened
	case 4:
		return fmt.Sprintf("m/44'/73404'/%s", num())
	case 5:
		return fmt.Sprintf("M/44'/73404'/%s'", num())
	case 6:
		return fmt.Sprintf("m/44'/73404'/%s''", num())
	case 7:
		return fmt.Sprintf("m/44'//%s'", num())
	case 8:
		return fmt.Sprintf(" m/44'/%s'", num())
	case 9:
		return fmt.Sprintf("m/-1'/%s'", num())
	case 10:
		return fmt.Sprintf("m/%s'/x'", num())
	default:
		segs := 1 + rng.Intn(5)
		s := "m"
		for i := 0; i < segs; i++ {
			s += "/" + num() + "'"
		}
		return s
	}
}

func errClass(err error) string {
	switch err {
	case nil:
		return "ok"
	case wallet.ErrInvalidPath:
		return "EInvalidPath"
	case wallet.ErrNoPublicDerivation:
		return "ENoPublicDerivation"
	case wallet.ErrKeyFileInvalidVersion:
		return "EVersion"
	case wallet.ErrKeyFileInvalidCipher:
		return "ECipher"
	case wallet.ErrKeyFileInvalidKDF:
		return "EKdf"
	case wallet.ErrWrongPassword:
		return "EWrongPassword"
	}
	return "other:" + err.Error()
}

func rHexText(rng *rand.Rand) string {
	b := make([]byte, rng.Intn(6))
	rng.Read(b)
	s := hex.EncodeToString(b)
	switch rng.Intn(9) {
	case 0:
		return ""
	case 1:
		return "0x"
	case 2:
		return s // prefix missing
	case 3:
		return "0X" + s
	case 4:
		return "0x" + strings.ToUpper(s)
	case 5:
		return "0x" + s + "a" // odd
	case 6:
		return "0x" + s + "zz"
	case 7:
		return "0"
	default:
		return "0x" + s
	}
}

type kfJSON struct {
	base, cipherName, kdf, cipher, nonce, salt string
	version, timestamp                         int64
}

func (k kfJSON) doc() []byte {
	q := func(s string) string { b, _ := json.Marshal(s); return string(b) }
	return []byte(fmt.Sprintf(`{"baseAddress":%s,"crypto":{"cipherName":%s,"kdf":%s,"cipherData":%s,"nonce":%s,"argon2Params":{"salt":%s}},"version":%d,"timestamp":%d}`,
		q(k.base), q(k.cipherName), q(k.kdf), q(k.cipher), q(k.nonce), q(k.salt), k.version, k.timestamp))
}
func (k kfJSON) term(base types.Address) M {
	return Con("mkKFT", Byt(base[:]), txt(k.cipherName), txt(k.kdf), txt(k.cipher), txt(k.nonce), txt(k.salt), I64(k.version), I64(k.timestamp))
}
func kfTerm(f *wallet.KeyFile) M {
	return Con("mkKF", Byt(f.BaseAddress[:]), txt(f.Crypto.CipherName), txt(f.Crypto.KDF), Byt(f.Crypto.CipherData), Byt(f.Crypto.AesNonce),
		Byt(f.Crypto.Argon2Params.Salt), I64(int64(f.Version)), I64(f.Timestamp))
}

func runGlue(rng *rand.Rand, n int, out *Out, _ []string) {
	dir, _ := os.MkdirTemp("", "c19")
	defer os.RemoveAll(dir)
	seed := make([]byte, 64)
	rng.Read(seed)
	for i := 0; i < n; i++ {
		// hexutil.Bytes text form
		b := make([]byte, []int{0, 1, 12, 16, 32, 48}[rng.Intn(6)])
		rng.Read(b)
		t, _ := hexutil.Bytes(b).MarshalText()
		out.Case("hexutil_enc", Byt(b), Byt(t), "bytes")
		s := rHexText(rng)
		var hb hexutil.Bytes
		if err := hb.UnmarshalText([]byte(s)); err == nil {
			out.Case("hexutil_dec", txt(s), Some(Byt(hb)), "accepted")
		} else {
			out.Case("hexutil_dec", txt(s), None(), "refused")
		}
		// path grammar, ParseUint 32, hardened offset
		p := rPath(rng)
		valid := wallet.VerifIsValidPath(p)
		kp, err := wallet.DeriveForPath(p, seed)
		cls := errClass(err)
		out.Count("path:" + cls)
		if valid {
			var nums []uint64
			var lst []interface{}
			for _, sg := range strings.Split(p, "/")[1:] {
				v, _ := strconv.ParseUint(strings.TrimRight(sg, "'"), 10, 32)
				nums = append(nums, v)
				lst = append(lst, U64(v))
			}
			out.Case("parse_path", txt(p), Some(lst), "valid")
			pub, ok := specChain(seed, nums)
			// the keys the implementation derived are those of the chain over exactly these child numbers
			out.Oracle((err == nil) == ok && (!ok || bytes.Equal(pub, kp.Public)), "derivation-differs-from-slip10", M{"path": p})
			out.Oracle(ok || err == wallet.ErrNoPublicDerivation, "non-hardened-child-accepted", M{"path": p})
		} else {
			out.Case("parse_path", txt(p), None(), "invalid")
			out.Oracle(err == wallet.ErrInvalidPath, "invalid-path-accepted", M{"path": p})
		}
		if !strings.HasPrefix(cls, "other") {
			out.Case("derive_class", txt(p), Con(map[string]string{"ok": "DOk_", "EInvalidPath": "DInvalid", "ENoPublicDerivation": "DNoPublic"}[cls]), cls)
		}
		// index form
		idx := []uint32{0, 1, 2, 127, 128, 1<<31 - 2, 1<<31 - 1, 1 << 31, 1<<31 + 1, 1<<32 - 1, rng.Uint32(), rng.Uint32() >> 1}[rng.Intn(12)]
		out.Case("format_path", U64(uint64(idx)), txt(fmt.Sprintf(wallet.ZenonAccountPathFormat, idx)), "index")
		kpi, erri := wallet.DeriveWithIndex(idx, seed)
		out.Case("derive_index_ok", U64(uint64(idx)), erri == nil, errClass(erri))
		out.Oracle((erri == nil) == (idx < 1<<31), "hardened-only", M{"index": U64(uint64(idx))})
		if erri == nil {
			pub, _ := specChain(seed, []uint64{44, 73404, uint64(idx)})
			out.Oracle(bytes.Equal(pub, kpi.Public), "derivation-differs-from-slip10", M{"index": U64(uint64(idx))})
		}
		// ReadKeyFile checks
		var base types.Address
		rng.Read(base[:])
		base[0] = 0
		k := kfJSON{base: base.String(), cipherName: "aes-256-gcm", kdf: "argon2.IDKey", cipher: "0x" + hex.EncodeToString(b), nonce: "0x0102030405060708090a0b0c",
			salt: "0x000102030405060708090a0b0c0d0e0f", version: 1, timestamp: int64(rng.Intn(2000000000))}
		switch rng.Intn(12) {
		case 0:
			k.version = []int64{0, 2, -1, 1 << 40}[rng.Intn(4)]
		case 1:
			k.cipherName = []string{"", "aes-256-gcm ", "AES-256-GCM", "aes-128-gcm"}[rng.Intn(4)]
		case 2:
			k.kdf = []string{"", "argon2.IDKey2", "scrypt", "argon2.idkey"}[rng.Intn(4)]
		case 3:
			k.cipher = rHexText(rng)
		case 4:
			k.nonce = rHexText(rng)
		case 5:
			k.salt = rHexText(rng)
		case 6:
			k.version, k.cipherName = 2, "x"
		case 7:
			k.cipherName, k.kdf = "x", "y"
		}
		path := filepath.Join(dir, "kf.json")
		os.WriteFile(path, k.doc(), 0600)
		f, err := wallet.ReadKeyFile(path)
		if k.version != 1 || k.cipherName != "aes-256-gcm" || k.kdf != "argon2.IDKey" {
			out.Oracle(err != nil, "keyfile-check-skipped", M{"version": k.version, "cipher": k.cipherName, "kdf": k.kdf})
		}
		if err == nil {
			out.Case("read_kf", k.term(base), Con("WOk", kfTerm(f)), "ok")
		} else if c := errClass(err); !strings.HasPrefix(c, "other") {
			out.Case("read_kf", k.term(base), Con("WErr", Con(c)), c)
		} else {
			out.Case("read_kf", k.term(base), Con("WErr", Con("EJson")), "EJson")
		}
	}
}

// ---------------------------------------------------------------- real key files (argon2 + AES-GCM)
func passwords(rng *rand.Rand) []string {
	long := strings.Repeat("p", 300+rng.Intn(200))
	return []string{"", "a", "password", "pässwörd-ü", "密码🔑", long, "pass word", "\x00", "Password"}
}

func rewrite(path string, mutate func(m map[string]interface{})) {
	data, _ := os.ReadFile(path)
	var m map[string]interface{}
	d := json.NewDecoder(bytes.NewReader(data))
	d.UseNumber()
	if err := d.Decode(&m); err != nil {
		panic(err)
	}
	mutate(m)
	b, _ := json.Marshal(m)
	os.WriteFile(path, b, 0600)
}
func flipHex(s string, byteIdx int, bit uint) string {
	raw, _ := hex.DecodeString(s[2:])
	raw[byteIdx] ^= 1 << bit
	return "0x" + hex.EncodeToString(raw)
}

func runKeys(rng *rand.Rand, n int, out *Out, args []string) {
	allBits := (len(args) > 0 && args[0] == "allbits") || n >= 30 // thorough tier: all eight bits of every byte
	dir, _ := os.MkdirTemp("", "c19k")
	defer os.RemoveAll(dir)
	sizes := []int{16, 20, 24, 28, 32}
	goldenKeyFiles(out)
	for i := 0; i < n; i++ {
		size := sizes[i%len(sizes)]
		entropy := make([]byte, size)
		rng.Read(entropy)
		ks, err := wallet.VerifKeyStoreFromEntropy(entropy)
		if err != nil {
			out.Oracle(false, "valid-entropy-refused", M{"size": size})
			continue
		}
		out.Count(fmt.Sprintf("entropy-size:%d", size))
		// deterministic derivation: a second construction gives the same mnemonic, seed, keys, addresses
		ks2, _ := wallet.VerifKeyStoreFromEntropy(append([]byte{}, entropy...))
		same := ks2 != nil && ks.Mnemonic == ks2.Mnemonic && bytes.Equal(ks.Seed, ks2.Seed) && ks.BaseAddress == ks2.BaseAddress
		for _, idx := range []uint32{0, 1, uint32(rng.Intn(1000)), 1<<31 - 1} {
			_, a, e1 := ks.DeriveForIndexPath(idx)
			_, b, e2 := ks2.DeriveForIndexPath(idx)
			same = same && e1 == nil && e2 == nil && bytes.Equal(a.Private, b.Private) && a.Address == b.Address
			if e1 == nil {
				msg := make([]byte, rng.Intn(100))
				rng.Read(msg)
				sig := a.Sign(msg)
				ok1, _ := wallet.VerifySignature(a.Public, msg, sig)
				ok2, _ := wallet.VerifySignature(a.Public, append(msg, 1), sig)
				out.Oracle(ok1 && !ok2 && types.PubKeyToAddress(a.Public) == a.Address && a.Address[0] == types.UserAddrByte,
					"signature-address-chain", M{"index": U64(uint64(idx))})
			}
		}
		out.Oracle(same, "derivation-not-deterministic", M{"size": size})
		_, kp0, _ := ks.DeriveForIndexPath(0)
		out.Oracle(ks.BaseAddress == kp0.Address, "base-address-not-index0", M{"size": size})
		_, _, eh := ks.DeriveForIndexPath(1 << 31)
		out.Oracle(eh != nil, "non-hardened-child-accepted", M{"index": "2^31"})

		pws := passwords(rng)
		pw := pws[i%len(pws)]
		kf, err := ks.Encrypt(pw)
		if err != nil {
			out.Oracle(false, "encrypt-failed", M{"err": err.Error()})
			continue
		}
		kf.Path = filepath.Join(dir, fmt.Sprintf("kf%d.json", i))
		if err := kf.Write(); err != nil {
			panic(err)
		}
		keyLifeCycle(rng, out, entropy, kf.Path, pw, size)
		if i%3 == 1 {
			heldKeyFile(rng, out, entropy, pw, size)
		}
		// a key file is a function of (entropy, password, salt, nonce) only: written and read under different numbers of
		// usable CPUs (GOMAXPROCS is what a container limit or a small VPS changes)
		if i%3 == 0 {
			procs := []int{1, 2, 3, 8}
			wp, rp := procs[rng.Intn(len(procs))], procs[rng.Intn(len(procs))]
			old := runtime.GOMAXPROCS(wp)
			ksw, _ := wallet.VerifKeyStoreFromEntropy(append([]byte{}, entropy...))
			var kfw *wallet.KeyFile
			var ew error
			if ksw != nil {
				kfw, ew = ksw.Encrypt(pw)
			}
			runtime.GOMAXPROCS(rp)
			okRT := false
			var er error
			if kfw != nil && ew == nil {
				var back *wallet.KeyStore
				back, er = kfw.Decrypt(pw)
				okRT = er == nil && back != nil && bytes.Equal(back.Entropy, entropy)
			}
			// and the file written above with the default setting, read under the other one
			rf2, e2 := wallet.ReadKeyFile(kf.Path)
			okOld := false
			if e2 == nil {
				b2, e3 := rf2.Decrypt(pw)
				okOld = e3 == nil && b2 != nil && bytes.Equal(b2.Entropy, entropy)
			}
			runtime.GOMAXPROCS(old)
			out.Oracle(okRT && okOld, "keyfile-roundtrip", M{"where": "written and read under different GOMAXPROCS", "write_procs": wp, "read_procs": rp, "default_written_file_ok": okOld, "err": fmt.Sprint(ew, er)})
			out.Count("keys:gomaxprocs-roundtrip")
		}
		rf, err := wallet.ReadKeyFile(kf.Path)
		ok := err == nil
		var dks *wallet.KeyStore
		if ok {
			dks, err = rf.Decrypt(pw)
			ok = err == nil && bytes.Equal(dks.Entropy, entropy) && dks.Mnemonic == ks.Mnemonic && bytes.Equal(dks.Seed, ks.Seed) && dks.BaseAddress == ks.BaseAddress
		}
		out.Oracle(ok, "keyfile-roundtrip", M{"size": size, "password_len": len(pw)})
		if !ok {
			continue
		}
		out.Oracle(rf.BaseAddress == kp0.Address, "file-base-address-not-index0", M{"size": size})
		// the written document against the model of Write / Read
		data, _ := os.ReadFile(kf.Path)
		var doc struct {
			Crypto struct {
				CipherData, Nonce string
				Argon2Params      struct{ Salt string }
			}
		}
		json.Unmarshal(data, &doc)
		out.Case("write_kf", kfTerm(kf), Con("mkKFT", Byt(kf.BaseAddress[:]), txt("aes-256-gcm"), txt("argon2.IDKey"), txt(doc.Crypto.CipherData), txt(doc.Crypto.Nonce),
			txt(doc.Crypto.Argon2Params.Salt), I64(int64(kf.Version)), I64(kf.Timestamp)), "written")
		out.Oracle(len(kf.Crypto.CipherData) == size+16 && len(kf.Crypto.AesNonce) == 12 && len(kf.Crypto.Argon2Params.Salt) == 16, "keyfile-shape", M{"size": size})
		// wrong passwords
		for j, w := range pws {
			if w == pw || (j+i)%2 == 0 && !allBits {
				continue
			}
			_, err := rf.Decrypt(w)
			out.Oracle(err == wallet.ErrWrongPassword, "wrong-password-accepted", M{"len": len(w)})
		}
		for _, w := range []string{pw + " ", pw + "\x00", strings.ToUpper(pw) + "x"} {
			_, err := rf.Decrypt(w)
			out.Oracle(err == wallet.ErrWrongPassword, "wrong-password-accepted", M{"len": len(w)})
		}
		// the same key-file object again, after successful and failed attempts: decrypting is an observation, it must
		// not change the key file (still the same entropy with the right password; written again it is the same document)
		again, err := rf.Decrypt(pw)
		out.Oracle(err == nil && again != nil && bytes.Equal(again.Entropy, entropy), "keyfile-decrypts-again-after-other-attempts", M{"size": size, "err": fmt.Sprint(err)})
		rf.Path = filepath.Join(dir, fmt.Sprintf("kf%d-rewritten.json", i))
		if err := rf.Write(); err == nil {
			data2, _ := os.ReadFile(rf.Path)
			var d1, d2 map[string]interface{}
			json.Unmarshal(data, &d1)
			json.Unmarshal(data2, &d2)
			j1, _ := json.Marshal(d1["crypto"])
			j2, _ := json.Marshal(d2["crypto"])
			out.Oracle(bytes.Equal(j1, j2), "keyfile-unchanged-by-decrypt", M{"size": size})
			rf2, err := wallet.ReadKeyFile(rf.Path)
			var ks3 *wallet.KeyStore
			if err == nil {
				ks3, err = rf2.Decrypt(pw)
			}
			out.Oracle(err == nil && ks3 != nil && bytes.Equal(ks3.Entropy, entropy), "keyfile-roundtrip-after-rewrite", M{"size": size, "err": fmt.Sprint(err)})
		}
		// single-bit corruptions of every byte of ciphertext, nonce, salt (in the file)
		fields := []struct {
			name string
			get  func(m map[string]interface{}) map[string]interface{}
			key  string
			len  int
		}{
			{"cipherData", func(m map[string]interface{}) map[string]interface{} { return m["crypto"].(map[string]interface{}) }, "cipherData", size + 16},
			{"nonce", func(m map[string]interface{}) map[string]interface{} { return m["crypto"].(map[string]interface{}) }, "nonce", 12},
			{"salt", func(m map[string]interface{}) map[string]interface{} {
				return m["crypto"].(map[string]interface{})["argon2Params"].(map[string]interface{})
			}, "salt", 16},
		}
		tmp := filepath.Join(dir, "corrupt.json")
		for _, f := range fields {
			for b := 0; b < f.len; b++ {
				bits := []uint{uint((b + i) % 8)}
				if allBits {
					bits = []uint{0, 1, 2, 3, 4, 5, 6, 7}
				}
				for _, bit := range bits {
					os.WriteFile(tmp, data, 0600)
					rewrite(tmp, func(m map[string]interface{}) {
						o := f.get(m)
						o[f.key] = flipHex(o[f.key].(string), b, bit)
					})
					cf, err := wallet.ReadKeyFile(tmp)
					if err == nil {
						_, err = cf.Decrypt(pw)
					}
					out.Count("corruption:" + f.name)
					out.Oracle(err != nil, "corrupted-keyfile-accepted", M{"field": f.name, "byte": b, "bit": bit})
				}
			}
		}
		// changes of LENGTH of the three fields (the single-bit corruptions above keep the length): bytes appended (zero,
		// non-zero, a copy of the field), the last byte removed, a trailing / leading byte prepended, the field emptied
		for _, f := range fields {
			variants := []func(b []byte) []byte{
				func(b []byte) []byte { return append(append([]byte{}, b...), 0) },
				func(b []byte) []byte { return append(append([]byte{}, b...), 0xff) },
				func(b []byte) []byte { return append(append([]byte{}, b...), 1, 2, 3, 4) },
				func(b []byte) []byte { return append(append([]byte{}, b...), b...) },
				func(b []byte) []byte { return append([]byte{}, b[:len(b)-1]...) },
				func(b []byte) []byte { return append([]byte{0}, b...) },
				func(b []byte) []byte { return []byte{} },
			}
			for vi, v := range variants {
				os.WriteFile(tmp, data, 0600)
				rewrite(tmp, func(m map[string]interface{}) {
					o := f.get(m)
					hx := strings.TrimPrefix(o[f.key].(string), "0x")
					raw, err := hex.DecodeString(hx)
					if err != nil {
						return
					}
					o[f.key] = "0x" + hex.EncodeToString(v(raw))
				})
				cf, err := wallet.ReadKeyFile(tmp)
				if err == nil {
					err = safeDecrypt(cf, pw)
				}
				out.Count("length-corruption:" + f.name)
				out.Oracle(err != nil, "corrupted-keyfile-accepted", M{"field": f.name, "length_variant": vi})
			}
		}
		// not part of the statement, counted only: the recorded base address is not authenticated
		os.WriteFile(tmp, data, 0600)
		rewrite(tmp, func(m map[string]interface{}) { m["baseAddress"] = types.PillarContract.String() })
		if cf, err := wallet.ReadKeyFile(tmp); err == nil {
			if _, err := cf.Decrypt(pw); err == nil {
				out.Count("observation:base-address-field-not-authenticated")
			}
		}
	}
}

// Decrypt under recover: a key file whose fields have unusual lengths must be refused, not crash the wallet
func safeDecrypt(cf *wallet.KeyFile, pw string) (err error) {
	defer func() {
		if r := recover(); r != nil {
			err = fmt.Errorf("panic: %v", r)
		}
	}()
	_, err = cf.Decrypt(pw)
	return err
}

// keyLifeCycle: a key pair handed out by a key store keeps working whatever happens to the store afterwards (the
// pillar keeps its producing key pair; the store is locked, zeroed, unlocked again, the manager stopped): same
// private / public key and address as when it was derived, its signatures verify under its public key, and a later
// derivation of the same index is an equal but independent pair
// heldKeyFile: a key file OBJECT is held while the wallet goes on working — other key stores are encrypted, the
// proof-of-work and anybody else draw from the wallet's random source — and must still be the same file afterwards: the
// same JSON, decrypting with its password to the entropy it was made from. The drawn values themselves are values: one
// draw never changes under a later one.
func heldKeyFile(rng *rand.Rand, out *Out, entropy []byte, pw string, size int) {
	ks, err := wallet.VerifKeyStoreFromEntropy(append([]byte{}, entropy...))
	if err != nil {
		return
	}
	kf, err := ks.Encrypt(pw)
	if err != nil || kf == nil {
		return
	}
	before, _ := json.Marshal(kf)
	type draw struct{ got, copy []byte }
	var draws []draw
	total := 0
	for total < 6000 {
		n := []int{8, 12, 16, 24, 32, 64, 128, 1 + rng.Intn(200)}[rng.Intn(8)]
		d := wallet.GetEntropyCSPRNG(n)
		draws = append(draws, draw{d, append([]byte{}, d...)})
		total += n
	}
	for i := 0; i < 2; i++ {
		if other, err := wallet.VerifKeyStoreFromEntropy(wallet.GetEntropyCSPRNG(size)); err == nil {
			other.Encrypt("another password")
		}
	}
	after, _ := json.Marshal(kf)
	out.Oracle(bytes.Equal(before, after), "held-keyfile-unchanged-by-later-wallet-activity",
		M{"entropy_size": size, "bytes_drawn_meanwhile": total, "before": string(before), "after": string(after)})
	back, derr := kf.Decrypt(pw)
	okBack := derr == nil && back != nil && bytes.Equal(back.Entropy, entropy)
	out.Oracle(okBack, "held-keyfile-still-decrypts-to-its-entropy", M{"entropy_size": size, "bytes_drawn_meanwhile": total, "err": fmt.Sprint(derr)})
	stable, distinct := true, true
	seen := map[string]bool{}
	for _, d := range draws {
		stable = stable && bytes.Equal(d.got, d.copy)
		if len(d.copy) >= 8 {
			distinct = distinct && !seen[string(d.copy)]
			seen[string(d.copy)] = true
		}
	}
	out.Oracle(stable, "random-draw-unchanged-by-later-draws", M{"draws": len(draws)})
	out.Oracle(distinct, "random-draws-distinct", M{"draws": len(draws)})
	out.Count("held-keyfile-history")
}

func keyLifeCycle(rng *rand.Rand, out *Out, entropy []byte, path, pw string, size int) {
	type kept struct {
		kp            *wallet.KeyPair
		priv, pub     []byte
		addr          types.Address
		idx           uint32
		after, origin string
	}
	var pairs []kept
	keep := func(ks *wallet.KeyStore, origin string) {
		for _, idx := range []uint32{0, uint32(1 + rng.Intn(5))} {
			if _, kp, err := ks.DeriveForIndexPath(idx); err == nil && kp != nil {
				pairs = append(pairs, kept{kp: kp, priv: append([]byte{}, kp.Private...), pub: append([]byte{}, kp.Public...), addr: kp.Address, idx: idx, origin: origin})
			}
		}
	}
	check := func(after string) {
		for _, k := range pairs {
			msg := make([]byte, 1+rng.Intn(64))
			rng.Read(msg)
			okSig := false
			func() {
				defer func() { recover() }()
				sig := k.kp.Sign(msg)
				okSig, _ = wallet.VerifySignature(k.pub, msg, sig)
			}()
			same := bytes.Equal(k.kp.Private, k.priv) && bytes.Equal(k.kp.Public, k.pub) && k.kp.Address == k.addr
			out.Oracle(same && okSig, "derived-keypair-stable-after-keystore-operations",
				M{"entropy_size": size, "index": U64(uint64(k.idx)), "obtained_from": k.origin, "after": after, "fields_unchanged": same, "signature_verifies": okSig})
		}
	}
	// directly on key stores
	ks, err := wallet.VerifKeyStoreFromEntropy(append([]byte{}, entropy...))
	if err != nil {
		return
	}
	keep(ks, "keystore")
	_, again, _ := ks.DeriveForIndexPath(0)
	check("second derivation of index 0")
	if again != nil && len(again.Private) > 0 {
		// equal but independent: scribbling over the second pair must not reach the first
		saved := append([]byte{}, again.Private...)
		for j := range again.Private {
			again.Private[j] = 0
		}
		check("second pair of index 0 overwritten by its holder")
		copy(again.Private, saved)
	}
	ks.FindAddress(pairs[len(pairs)-1].addr)
	check("FindAddress")
	ks.Encrypt(pw)
	check("Encrypt")
	ks.Zero()
	check("KeyStore.Zero")
	// through the manager: unlock, derive, lock / unlock again / stop
	m := wallet.New(&wallet.Config{WalletDir: filepath.Dir(path)})
	if m.Start() != nil {
		return
	}
	if err := m.Unlock(path, pw); err != nil {
		out.Oracle(false, "manager-unlock-failed", M{"err": err.Error()})
		return
	}
	mks, err := m.GetKeyStore(path)
	if err != nil || mks == nil {
		out.Oracle(false, "manager-unlock-failed", M{"err": fmt.Sprint(err)})
		return
	}
	keep(mks, "manager")
	check("Manager.Unlock")
	// an unlocked key file is no licence: every other password is still refused, through every entry of the manager
	for _, wrong := range []string{"", pw + " ", "x" + pw, "wrong-password"} {
		if wrong == pw {
			continue
		}
		ks2, e1 := m.GetKeyFileAndDecrypt(path, wrong)
		e2 := m.Unlock(path, wrong)
		out.Oracle(e1 != nil && ks2 == nil && e2 != nil, "wrong-password-accepted", M{"where": "manager, key file already unlocked", "GetKeyFileAndDecrypt_err": fmt.Sprint(e1), "Unlock_err": fmt.Sprint(e2)})
	}
	if ks3, e := m.GetKeyFileAndDecrypt(path, pw); e != nil || ks3 == nil || !bytes.Equal(ks3.Entropy, entropy) {
		out.Oracle(false, "keyfile-roundtrip", M{"where": "manager.GetKeyFileAndDecrypt, key file already unlocked", "err": fmt.Sprint(e)})
	}
	check("wrong passwords offered to the manager")
	m.Lock(path)
	check("Manager.Lock")
	if m.Unlock(path, pw) == nil {
		if mks2, err := m.GetKeyStore(path); err == nil && mks2 != nil {
			_, kp2, _ := mks2.DeriveForIndexPath(0)
			out.Oracle(kp2 != nil && bytes.Equal(kp2.Private, pairs[0].priv), "derivation-not-deterministic", M{"size": size, "after": "lock and unlock"})
			keep(mks2, "manager-after-relock")
		}
	}
	check("second Manager.Unlock")
	m.Stop()
	check("Manager.Stop")
	out.Count("keys:life-cycle")
}
