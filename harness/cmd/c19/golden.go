package main

import (
	"bytes"
	"embed"
	"encoding/hex"
	"encoding/json"
	"fmt"
	"os"
	"path/filepath"

	"github.com/zenon-network/go-zenon/wallet"
	. "zharness/hz"
)

// Key files written by the wallet code of the pinned tree (golden/*.json; entropies 16..32 bytes, among the passwords
// the empty one, one with surrounding white space, a non-ASCII one). "A key file decrypts with its password to exactly
// the entropy it was created from" also holds for the files users already have: a change of the key derivation, of the
// cipher parameters or of the file format shows here even when a fresh round trip on the changed code still works.
//
//go:embed golden/*.json
var goldenFS embed.FS

func goldenKeyFiles(out *Out) {
	raw, err := goldenFS.ReadFile("golden/index.json")
	if err != nil {
		panic(err)
	}
	var idx []struct{ File, Password, Entropy string }
	if err := json.Unmarshal(raw, &idx); err != nil {
		panic(err)
	}
	dir, _ := os.MkdirTemp("", "c19g")
	defer os.RemoveAll(dir)
	for _, e := range idx {
		data, _ := goldenFS.ReadFile("golden/" + e.File)
		p := filepath.Join(dir, e.File)
		os.WriteFile(p, data, 0600)
		want, _ := hex.DecodeString(e.Entropy)
		kf, err := wallet.ReadKeyFile(p)
		ok := false
		var derr error
		if err == nil {
			var ks *wallet.KeyStore
			func() {
				defer func() {
					if r := recover(); r != nil {
						derr = fmt.Errorf("panic: %v", r)
					}
				}()
				ks, derr = kf.Decrypt(e.Password)
			}()
			ok = derr == nil && ks != nil && bytes.Equal(ks.Entropy, want)
			if ok {
				// and not with another password
				_, werr := kf.Decrypt(e.Password + "x")
				out.Oracle(werr != nil, "wrong-password-accepted", M{"where": "golden key file", "file": e.File})
			}
		}
		out.Oracle(ok, "keyfile-roundtrip", M{"where": "key file written by the pinned tree", "file": e.File, "read_err": fmt.Sprint(err), "decrypt_err": fmt.Sprint(derr)})
		out.Count("keys:golden-file")
	}
}
