package main

// nodecrash suite (C08 at node level): the process dies while a momentum delivered by a peer is being committed
// (ChainBridge.InsertChain -> chain.AddMomentumTransaction -> store commit). The chain database sits on a
// fault-injecting goleveldb storage; the directory is copied at the crash and reopened by a fresh node, which must
// be exactly before or exactly after that momentum, and must reach the crash-free state when the rest of the chain
// (including the interrupted momentum again) is delivered.
import (
	"errors"
	"fmt"
	"math/rand"
	"os"
	"os/exec"
	"sync/atomic"

	"github.com/syndtr/goleveldb/leveldb/storage"

	"github.com/zenon-network/go-zenon/chain"
	"github.com/zenon-network/go-zenon/chain/genesis"
	g "github.com/zenon-network/go-zenon/chain/genesis/mock"
	"github.com/zenon-network/go-zenon/chain/nom"
	"github.com/zenon-network/go-zenon/common/db"
	"github.com/zenon-network/go-zenon/consensus"
	"github.com/zenon-network/go-zenon/protocol"
	"github.com/zenon-network/go-zenon/verifier"
	"github.com/zenon-network/go-zenon/vm"
	. "zharness/hz"
)

type faultStorage struct {
	storage.Storage
	budget *int64 // remaining journal writes; < 0 = unlimited
	used   *int64
	tear   bool
	torn   bool
}

var errInjected = errors.New("injected crash: write refused")

type faultWriter struct {
	storage.Writer
	fs      *faultStorage
	journal bool
}

func (w *faultWriter) Write(p []byte) (int, error) {
	if w.journal {
		if b := atomic.LoadInt64(w.fs.budget); b == 0 {
			if w.fs.tear && !w.fs.torn && len(p) > 1 {
				w.fs.torn = true
				w.Writer.Write(p[:len(p)/2])
			}
			return 0, errInjected
		} else if b > 0 {
			atomic.AddInt64(w.fs.budget, -1)
		}
		atomic.AddInt64(w.fs.used, 1)
	}
	return w.Writer.Write(p)
}
func (s *faultStorage) Create(fd storage.FileDesc) (storage.Writer, error) {
	w, err := s.Storage.Create(fd)
	if err != nil {
		return nil, err
	}
	return &faultWriter{Writer: w, fs: s, journal: fd.Type == storage.TypeJournal}, nil
}

type faultNode struct {
	dir    string
	st     storage.Storage
	budget int64
	used   int64
	fs     *faultStorage
	ch     chain.Chain
	cs     consensus.Consensus
	br     protocol.ChainBridge
}

func openFaultNode(dir string) *faultNode {
	verifier.ReceiverMismatchEnforcementHeight = 0
	st, err := storage.OpenFile(dir, false)
	if err != nil {
		panic(err)
	}
	n := &faultNode{dir: dir, st: st, budget: -1}
	n.fs = &faultStorage{Storage: st, budget: &n.budget, used: &n.used}
	m, err := db.NewLevelDBManagerOnStorage(n.fs)
	if err != nil {
		panic(err)
	}
	n.ch = chain.NewChain(m, genesis.NewGenesis(g.EmbeddedGenesis))
	n.cs = consensus.NewConsensus(db.NewMemDB(), n.ch, true)
	if err := n.ch.Init(); err != nil {
		panic(err)
	}
	n.cs.Init()
	n.ch.Start()
	n.cs.Start()
	sv := vm.NewSupervisor(n.ch, n.cs)
	n.br = protocol.NewChainBridge(n.ch, n.cs, verifier.NewVerifier(n.ch, n.cs), sv)
	Quiet()
	return n
}

func copyDir(src string) string {
	dst, _ := os.MkdirTemp("", "c08node")
	os.RemoveAll(dst)
	if out, err := exec.Command("cp", "-r", src, dst).CombinedOutput(); err != nil {
		panic(fmt.Sprint(err, string(out)))
	}
	os.Remove(dst + "/LOCK")
	return dst
}

func safeInsert(br protocol.ChainBridge, ms []*nom.DetailedMomentum) (err error) {
	defer func() {
		if r := recover(); r != nil {
			err = fmt.Errorf("panic: %v", r)
		}
	}()
	_, err = br.InsertChain(ms)
	return err
}

func stateOf(b *BareNode) string {
	fm := b.Frontier()
	return fmt.Sprintf("%v@%d|%s", fm.Hash, fm.Height, dumpStore(b.Ch.GetFrontierMomentumStore()))
}

func runNodeCrash(rng *rand.Rand, n int, out *Out, _ []string) {
	for i := 0; i < n; i++ {
		nodeCrash(rng, out)
	}
}

func nodeCrash(rng *rand.Rand, out *Out) {
	G := NewNode()
	N := 3 + rng.Intn(10)
	produce(rng, G, N, out, users)
	chainAll := WireCopyAll(DetailedRange(G.Ch, 2, G.FrontierHeight()))
	G.Stop()
	if len(chainAll) < 3 {
		return
	}
	j := 1 + rng.Intn(len(chainAll)-1) // the momentum during whose commit the process dies

	// reference states: before = chain[:j], after = chain[:j+1], final = whole chain
	ref := OpenBare("")
	defer ref.Destroy()
	if err := safeInsert(ref.Br, chainAll[:j]); err != nil {
		out.Oracle(false, "nodecrash-reference-rejected-chain", M{"err": err.Error()})
		return
	}
	before := stateOf(ref)
	safeInsert(ref.Br, chainAll[j:j+1])
	after := stateOf(ref)
	safeInsert(ref.Br, chainAll[j+1:])
	final := stateOf(ref)

	dir, _ := os.MkdirTemp("", "c08n")
	defer os.RemoveAll(dir)
	base := openFaultNode(dir)
	if err := safeInsert(base.br, chainAll[:j]); err != nil {
		out.Oracle(false, "nodecrash-fault-node-rejected-prefix", M{"err": err.Error()})
		return
	}
	base.cs.Stop()
	base.ch.Stop()
	base.st.Close()

	// number of journal writes of the commit, from a crash-free run on a copy
	d0 := copyDir(dir)
	n0 := openFaultNode(d0)
	n0.used = 0
	safeInsert(n0.br, chainAll[j:j+1])
	total := n0.used
	n0.cs.Stop()
	n0.ch.Stop()
	n0.st.Close()
	os.RemoveAll(d0)
	out.Count(fmt.Sprintf("nodecrash:writes-per-momentum=%d", total))

	for kk := int64(0); kk <= 2*total; kk++ {
		k := kk / 2
		d := copyDir(dir)
		nk := openFaultNode(d)
		nk.used = 0
		nk.budget = k
		nk.fs.tear = kk%2 == 1
		safeInsert(nk.br, chainAll[j:j+1])
		img := copyDir(d)
		nk.budget = 0
		nk.st.Close()
		os.RemoveAll(d)

		re := OpenBare(img)
		got := stateOf(re)
		which := int64(-1)
		if got == before {
			which = 0
		} else if got == after {
			which = 1
		}
		tag := "mid"
		if k == 0 {
			tag = "first"
		} else if k == total {
			tag = "complete"
		}
		if kk%2 == 1 {
			tag += "-torn"
		}
		out.Case("crash_point", Tup(I64(total), I64(k), kk%2 == 1), I64(which), "node-commit-"+tag)
		out.Oracle(which >= 0, "node-crash-atomic-commit", M{"writes_total": total, "crash_after": k, "momentum_index": j})
		if which >= 0 {
			// deliver everything again from the interrupted momentum on (a peer re-sends it)
			err := safeInsert(re.Br, chainAll[j:])
			end := stateOf(re)
			out.Oracle(err == nil && end == final, "node-crash-continue-equiv", M{"crash_after": k, "err": fmt.Sprint(err)})
		}
		re.Stop()
		os.RemoveAll(img)
	}
}
