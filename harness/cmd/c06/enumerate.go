package main

// Oracle frontier-enumeration-equals-fresh-node: every ENUMERATING read of the frontier ledger (the readers that walk a
// key range instead of asking for one key) answers on the reorganised node exactly what it answers on a node that only
// ever saw the adopted branch. A rollback does not remove the keys the abandoned momentums created: ldbManager.Pop
// overwrites them with the store's tombstone, which Get hides and which the iterators of the frontier view hand to
// their callers with a nil value; what the reader does with such an entry (and with anything else an abandoned branch
// may leave behind) is only visible through the readers themselves, not through a raw dump that skips tombstones.
//
// Readers, each through the view of the frontier momentum store AND through the view of the account pool where both
// exist: balance map of every account; unreceived-block listing and sequencer of every mailbox; account blocks by
// height; momentums by height; every list getter of vm/embedded/definition on the storage of its contract (tokens,
// pillars, delegations, legacy pillars, pillar epoch history, sentinels, sporks, stake entries, fusion entries per owner,
// swap assets, accelerator projects, bridge networks and requests, liquidity stake entries); the embedded getters of the
// momentum store (defined sporks, active pillars, pillar delegations, fused plasma per beneficiary); raw prefix scans
// of every account store (nil-valued entries skipped: a RAW scan has to, the tombstone is how the store writes
// "deleted"); and the same through the RPC layer (ledger.getAccountInfoByAddress, getUnreceivedBlocksByAddress,
// embedded.token/plasma/stake/pillar/sentinel/spork/swap/accelerator/liquidity list calls).
// A reader that panics is rendered as "PANIC: ..." (a panic on one node only is a difference).

import (
	"encoding/json"
	"fmt"
	"sort"
	"strings"

	"github.com/zenon-network/go-zenon/chain"
	gm "github.com/zenon-network/go-zenon/chain/genesis/mock"
	"github.com/zenon-network/go-zenon/chain/nom"
	"github.com/zenon-network/go-zenon/chain/store"
	"github.com/zenon-network/go-zenon/common/db"
	"github.com/zenon-network/go-zenon/common/types"
	"github.com/zenon-network/go-zenon/consensus"
	"github.com/zenon-network/go-zenon/pillar"
	"github.com/zenon-network/go-zenon/protocol"
	"github.com/zenon-network/go-zenon/rpc/api"
	"github.com/zenon-network/go-zenon/rpc/api/embedded"
	"github.com/zenon-network/go-zenon/verifier"
	"github.com/zenon-network/go-zenon/vm/embedded/definition"
	"github.com/zenon-network/go-zenon/zenon"
	. "zharness/hz"
)

type kv struct{ K, V string }

// reader name + " @ " + account (or "-") -> entries in the order the reader gave them (maps: sorted by key)
type reading struct {
	keys []string
	m    map[string][]kv
}

func (r *reading) put(name string, l []kv) {
	if _, ok := r.m[name]; !ok {
		r.keys = append(r.keys, name)
	}
	r.m[name] = l
}

func render(l []kv) string {
	var sb strings.Builder
	for _, e := range l {
		sb.WriteString(e.K)
		if e.V != "" {
			sb.WriteString("=")
			sb.WriteString(e.V)
		}
		sb.WriteString("; ")
	}
	return sb.String()
}

func js(v interface{}) string {
	b, err := json.Marshal(v)
	if err != nil {
		return fmt.Sprintf("%+v", v)
	}
	return string(b)
}
func jse(v interface{}, err error) string {
	if err != nil {
		return "error: " + err.Error()
	}
	return js(v)
}

// a panic of a reader is an answer of the node, not a crash of the harness
func protect(f func() []kv) (res []kv) {
	defer func() {
		if e := recover(); e != nil {
			s := fmt.Sprint(e)
			if len(s) > 300 {
				s = s[:300]
			}
			res = []kv{{"PANIC", s}}
		}
	}()
	return f()
}

func one(s string) []kv { return []kv{{"", s}} }

func rawScan(x interface{}) []kv {
	d, ok := x.(iterable)
	if !ok {
		return one("not-iterable")
	}
	var l []kv
	it := d.NewIterator(nil)
	defer it.Release()
	for it.Next() {
		if it.Value() == nil {
			continue
		}
		l = append(l, kv{fmt.Sprintf("%x", it.Key()), fmt.Sprintf("%x", it.Value())})
	}
	if err := it.Error(); err != nil {
		l = append(l, kv{"iterator-error", err.Error()})
	}
	return l
}

func balanceMap(as store.Account) []kv {
	m, err := as.GetBalanceMap()
	if err != nil {
		return one("error: " + err.Error())
	}
	var l []kv
	for z, v := range m {
		l = append(l, kv{z.String(), fmt.Sprint(v)})
	}
	sort.Slice(l, func(i, j int) bool { return l[i].K < l[j].K })
	return l
}

// MoreByHeight answers count entries whatever the height of the account chain is (nil above the frontier): ask for the
// chain and two heights above it
func blockList(bl []*nom.AccountBlock, err error) []kv {
	if err != nil {
		return one("error: " + err.Error())
	}
	var l []kv
	for i, b := range bl {
		if b == nil {
			continue
		}
		l = append(l, kv{fmt.Sprint(i + 1), fmt.Sprintf("%d/%v", b.Height, b.Hash)})
	}
	return l
}
func blocksByHeight(as store.Account) []kv {
	return blockList(as.MoreByHeight(1, as.Identifier().Height+2))
}

// the list getters of one contract's storage; view = "momentum-store-view" | "pool-view"
func contractLists(r *reading, view string, st func(types.Address) db.DB, accounts []types.Address, epochs uint64) {
	g := func(name string, f func() []kv) { r.put(name+" / "+view+" @ -", protect(f)) }
	g("token-list", func() []kv {
		l, err := definition.GetTokenInfoList(st(types.TokenContract))
		if err != nil {
			return one("error: " + err.Error())
		}
		var res []kv
		for _, t := range l {
			res = append(res, kv{t.TokenStandard.String(), js(t)})
		}
		return res
	})
	for _, c := range []struct {
		name   string
		active bool
		typ    uint8
	}{{"pillar-list", false, definition.AnyPillarType}, {"pillar-list-active", true, definition.AnyPillarType}, {"pillar-list-legacy", false, definition.LegacyPillarType}} {
		c := c
		g(c.name, func() []kv {
			l, err := definition.GetPillarsList(st(types.PillarContract), c.active, c.typ)
			if err != nil {
				return one("error: " + err.Error())
			}
			var res []kv
			for _, p := range l {
				res = append(res, kv{p.Name, js(p)})
			}
			return res
		})
	}
	g("delegation-list", func() []kv {
		l, err := definition.GetDelegationsList(st(types.PillarContract))
		if err != nil {
			return one("error: " + err.Error())
		}
		var res []kv
		for _, d := range l {
			res = append(res, kv{d.Backer.String(), d.Name})
		}
		return res
	})
	g("legacy-pillar-list", func() []kv {
		l, err := definition.GetLegacyPillarList(st(types.PillarContract))
		if err != nil {
			return one("error: " + err.Error())
		}
		var res []kv
		for _, d := range l {
			res = append(res, kv{d.KeyIdHash.String(), fmt.Sprint(d.PillarCount)})
		}
		return res
	})
	g("pillar-epoch-history", func() []kv {
		var res []kv
		for e := uint64(0); e <= epochs; e++ {
			l, err := definition.GetPillarEpochHistoryList(st(types.PillarContract), e)
			if err != nil {
				res = append(res, kv{fmt.Sprint(e), "error: " + err.Error()})
				continue
			}
			for _, h := range l {
				res = append(res, kv{fmt.Sprintf("%d/%s", e, h.Name), js(h)})
			}
		}
		return res
	})
	g("sentinel-list", func() []kv {
		var res []kv
		for _, s := range definition.GetAllSentinelInfo(st(types.SentinelContract)) {
			res = append(res, kv{s.Owner.String(), js(s)})
		}
		return res
	})
	g("sentinel-iterate", func() []kv {
		var res []kv
		err := definition.IterateSentinelEntries(st(types.SentinelContract), func(s *definition.SentinelInfo) error {
			res = append(res, kv{s.Owner.String(), js(s)})
			return nil
		})
		if err != nil {
			res = append(res, kv{"error", err.Error()})
		}
		return res
	})
	g("spork-list", func() []kv {
		var res []kv
		for _, s := range definition.GetAllSporks(st(types.SporkContract)) {
			res = append(res, kv{s.Id.String(), js(s)})
		}
		return res
	})
	g("stake-entries", func() []kv {
		var res []kv
		err := definition.IterateStakeEntries(st(types.StakeContract), func(s *definition.StakeInfo) error {
			res = append(res, kv{s.Id.String(), js(s)})
			return nil
		})
		if err != nil {
			res = append(res, kv{"error", err.Error()})
		}
		return res
	})
	g("swap-assets", func() []kv {
		l, err := definition.GetSwapAssets(st(types.SwapContract))
		if err != nil {
			return one("error: " + err.Error())
		}
		var res []kv
		for _, s := range l {
			res = append(res, kv{s.KeyIdHash.String(), js(s)})
		}
		return res
	})
	g("project-list", func() []kv {
		l, err := definition.GetProjectList(st(types.AcceleratorContract))
		if err != nil {
			return one("error: " + err.Error())
		}
		var res []kv
		for _, s := range l {
			res = append(res, kv{s.Id.String(), js(s)})
		}
		return res
	})
	g("bridge-network-list", func() []kv { return one(jse(definition.GetNetworkList(st(types.BridgeContract)))) })
	g("bridge-wrap-requests", func() []kv { return one(jse(definition.GetWrapTokenRequests(st(types.BridgeContract)))) })
	g("bridge-unwrap-requests", func() []kv { return one(jse(definition.GetUnwrapTokenRequests(st(types.BridgeContract)))) })
	g("liquidity-stake-entries", func() []kv {
		var res []kv
		for _, s := range definition.GetAllLiquidityStakeEntries(st(types.LiquidityContract)) {
			res = append(res, kv{s.Id.String(), js(s)})
		}
		return res
	})
	for _, a := range accounts {
		a := a
		if types.IsEmbeddedAddress(a) {
			continue // the contracts own no fusions and no stakes
		}
		ga := func(name string, f func() []kv) { r.put(name+" / "+view+" @ "+a.String(), protect(f)) }
		ga("fusion-entries-by-owner", func() []kv {
			l, total, err := definition.GetFusionInfoListByOwner(st(types.PlasmaContract), a)
			if err != nil {
				return one("error: " + err.Error())
			}
			var res []kv
			for _, f := range l {
				res = append(res, kv{f.Id.String(), js(f)})
			}
			if len(res) > 0 {
				res = append(res, kv{"total", fmt.Sprint(total)})
			}
			return res
		})
		ga("stake-list-by-address", func() []kv {
			l, total, weighted, err := definition.GetStakeListByAddress(st(types.StakeContract), a)
			if err != nil {
				return one("error: " + err.Error())
			}
			var res []kv
			for _, f := range l {
				res = append(res, kv{f.Id.String(), js(f)})
			}
			if len(res) > 0 {
				res = append(res, kv{"total", fmt.Sprint(total, "/", weighted)})
			}
			return res
		})
		ga("liquidity-stake-list-by-address", func() []kv {
			l, total, weighted, err := definition.GetLiquidityStakeListByAddress(st(types.LiquidityContract), a)
			if err != nil {
				return one("error: " + err.Error())
			}
			var res []kv
			for _, f := range l {
				res = append(res, kv{f.Id.String(), js(f)})
			}
			if len(res) > 0 {
				res = append(res, kv{"total", fmt.Sprint(total, "/", weighted)})
			}
			return res
		})
	}
}

// enumerateLight: the readers countFirstWrites looks at (balance maps, account chains and contract tables through the view
// of the momentum store), for counting what a branch of the generator wrote
func enumerateLight(ch chain.Chain, accounts []types.Address) *reading {
	r := &reading{m: map[string][]kv{}}
	ms := ch.GetFrontierMomentumStore()
	for _, a := range accounts {
		a := a
		r.put("balance-map / momentum-store-view @ "+a.String(), protect(func() []kv { return balanceMap(ms.GetAccountStore(a)) }))
		r.put("account-blocks-by-height / momentum-store-view @ "+a.String(), protect(func() []kv { return blocksByHeight(ms.GetAccountStore(a)) }))
	}
	contractLists(r, "momentum-store-view", func(c types.Address) db.DB { return ms.GetAccountStore(c).Storage() }, accounts, 0)
	return r
}

// enumerateChain: every enumerating read that needs nothing but the chain
func enumerateChain(ch chain.Chain, accounts []types.Address) *reading {
	r := &reading{m: map[string][]kv{}}
	ms := ch.GetFrontierMomentumStore()
	fm, err := ms.GetFrontierMomentum()
	if err != nil {
		r.put("frontier-momentum @ -", one("error: "+err.Error()))
		return r
	}
	epochs := (fm.TimestampUnix - ch.GetGenesisMomentum().TimestampUnix) / uint64(consensus.EpochDuration.Seconds())
	for _, a := range accounts {
		a := a
		g := func(name string, f func() []kv) { r.put(name+" @ "+a.String(), protect(f)) }
		g("balance-map / momentum-store-view", func() []kv { return balanceMap(ms.GetAccountStore(a)) })
		g("balance-map / pool-view", func() []kv { return balanceMap(ch.GetFrontierAccountStore(a)) })
		g("unreceived-hashes / mailbox", func() []kv {
			l, err := ms.GetAccountMailbox(a).GetUnreceivedAccountBlockHashes(100000)
			if err != nil {
				return one("error: " + err.Error())
			}
			var res []kv
			for _, h := range l {
				res = append(res, kv{h.String(), ""})
			}
			return res
		})
		g("sequencer / mailbox", func() []kv {
			mb := ms.GetAccountMailbox(a)
			n := mb.SequencerSize()
			res := []kv{{"size", fmt.Sprint(n)}}
			for i := uint64(1); i <= n+2 && i < 5000; i++ {
				h := mb.SequencerByHeight(i)
				if h == nil {
					if i <= n {
						res = append(res, kv{fmt.Sprint(i), "missing"})
					}
					continue
				}
				res = append(res, kv{fmt.Sprint(i), fmt.Sprintf("%v/%d/%v", h.Address, h.Height, h.Hash)})
			}
			return res
		})
		g("account-blocks-by-height / momentum-store-view", func() []kv { return blocksByHeight(ms.GetAccountStore(a)) })
		g("account-blocks-by-height / pool-view", func() []kv { return blocksByHeight(ch.GetFrontierAccountStore(a)) })
		g("account-blocks-by-height / momentum-store", func() []kv {
			return blockList(ms.GetAccountBlocksByHeight(a, 1, ms.GetAccountStore(a).Identifier().Height+2))
		})
		g("raw-scan / account-store / momentum-store-view", func() []kv { return rawScan(ms.GetAccountDB(a)) })
		g("raw-scan / account-store / pool-view", func() []kv { return rawScan(ch.GetFrontierAccountStore(a)) })
		g("raw-scan / mailbox", func() []kv { return rawScan(ms.GetAccountMailbox(a)) })
		g("fused-plasma / momentum-store", func() []kv {
			v, err := ms.GetStakeBeneficialAmount(a)
			if err != nil {
				return one("error: " + err.Error())
			}
			if v.Sign() == 0 {
				return nil
			}
			return one(fmt.Sprint(v))
		})
	}
	g := func(name string, f func() []kv) { r.put(name+" @ -", protect(f)) }
	g("momentums-by-height / momentum-store", func() []kv {
		l, err := ms.GetMomentumsByHeight(1, true, fm.Height+2)
		if err != nil {
			return one("error: " + err.Error())
		}
		var res []kv
		for i, m := range l {
			if m == nil {
				continue
			}
			res = append(res, kv{fmt.Sprint(i + 1), fmt.Sprintf("%d/%v", m.Height, m.Hash)})
		}
		return res
	})
	g("defined-sporks / momentum-store", func() []kv {
		l, err := ms.GetAllDefinedSporks()
		if err != nil {
			return one("error: " + err.Error())
		}
		var res []kv
		for _, s := range l {
			res = append(res, kv{s.Id.String(), js(s)})
		}
		return res
	})
	g("active-pillars / momentum-store", func() []kv {
		l, err := ms.GetActivePillars()
		if err != nil {
			return one("error: " + err.Error())
		}
		var res []kv
		for _, s := range l {
			res = append(res, kv{s.Name, js(s)})
		}
		return res
	})
	g("pillar-delegations / momentum-store", func() []kv {
		l, err := ms.ComputePillarDelegations()
		if err != nil {
			return one("error: " + err.Error())
		}
		var res []kv
		for _, s := range l {
			res = append(res, kv{s.Name, js(s)})
		}
		return res
	})
	contractLists(r, "momentum-store-view", func(c types.Address) db.DB { return ms.GetAccountStore(c).Storage() }, accounts, epochs)
	contractLists(r, "pool-view", func(c types.Address) db.DB { return ch.GetFrontierAccountStore(c).Storage() }, accounts, epochs)
	return r
}

// ---- the same through the RPC layer: a BareNode seen as a zenon.Zenon (no p2p, no producer)

type bareZenon struct{ b *BareNode }

func (z bareZenon) Init() error                         { return nil }
func (z bareZenon) Start() error                        { return nil }
func (z bareZenon) Stop() error                         { return nil }
func (z bareZenon) Chain() chain.Chain                  { return z.b.Ch }
func (z bareZenon) Consensus() consensus.Consensus      { return z.b.Cs }
func (z bareZenon) Verifier() verifier.Verifier         { return verifier.NewVerifier(z.b.Ch, z.b.Cs) }
func (z bareZenon) Protocol() *protocol.ProtocolManager { return nil }
func (z bareZenon) Producer() pillar.Manager            { return nil }
func (z bareZenon) Config() *zenon.Config               { return nil }
func (z bareZenon) Broadcaster() protocol.Broadcaster   { return nil }

var _ zenon.Zenon = bareZenon{}

func enumerateRpc(b *BareNode, accounts []types.Address, r *reading) {
	z := bareZenon{b}
	ledger := api.NewLedgerApi(z)
	tok := embedded.NewTokenApi(z)
	plasma := embedded.NewPlasmaApi(z)
	stake := embedded.NewStakeApi(z)
	plr := embedded.NewPillarApi(z, true)
	sent := embedded.NewSentinelApi(z)
	spork := embedded.NewSporkApi(z)
	swap := embedded.NewSwapApi(z)
	acc := embedded.NewAcceleratorApi(z)
	liq := embedded.NewLiquidityApi(z)
	byOwner := map[types.Address]bool{gm.Pillar1.Address: true, gm.Pillar4.Address: true}
	for _, a := range accounts {
		a := a
		g := func(name string, f func() string) {
			r.put("rpc "+name+" @ "+a.String(), protect(func() []kv { return one(f()) }))
		}
		g("ledger.getAccountInfoByAddress", func() string { return jse(ledger.GetAccountInfoByAddress(a)) })
		if types.IsEmbeddedAddress(a) {
			continue // the contracts own no tokens, fusions, stakes, pillars, sentinels; their mailboxes are read above
		}
		g("ledger.getUnreceivedBlocksByAddress", func() string { return jse(ledger.GetUnreceivedBlocksByAddress(a, 0, 5)) })
		g("embedded.token.getByOwner", func() string { return jse(tok.GetByOwner(a, 0, 100)) })
		g("embedded.plasma.get", func() string { return jse(plasma.Get(a)) })
		g("embedded.plasma.getEntriesByAddress", func() string { return jse(plasma.GetEntriesByAddress(a, 0, 100)) })
		g("embedded.stake.getEntriesByAddress", func() string { return jse(stake.GetEntriesByAddress(a, 0, 100)) })
		if byOwner[a] { // (recomputes the pillar weights and the statistics of the running epoch at every call)
			g("embedded.pillar.getByOwner", func() string { return jse(plr.GetByOwner(a)) })
		}
		g("embedded.pillar.getDelegatedPillar", func() string { return jse(plr.GetDelegatedPillar(a)) })
		g("embedded.pillar.getDepositedQsr", func() string { return jse(plr.GetDepositedQsr(a)) })
		g("embedded.sentinel.getByOwner", func() string { return jse(sent.GetByOwner(a)) })
		g("embedded.sentinel.getDepositedQsr", func() string { return jse(sent.GetDepositedQsr(a)) })
		g("embedded.liquidity.getLiquidityStakeEntriesByAddress", func() string { return jse(liq.GetLiquidityStakeEntriesByAddress(a, 0, 100)) })
	}
	g := func(name string, f func() string) {
		r.put("rpc "+name+" @ -", protect(func() []kv { return one(f()) }))
	}
	g("embedded.token.getAll", func() string { return jse(tok.GetAll(0, 1000)) })
	g("embedded.pillar.getAll", func() string { return jse(plr.GetAll(0, 1000)) })
	g("embedded.pillar.getQsrRegistrationCost", func() string { return jse(plr.GetQsrRegistrationCost()) })
	g("embedded.sentinel.getAllActive", func() string { return jse(sent.GetAllActive(0, 1000)) })
	g("embedded.spork.getAll", func() string { return jse(spork.GetAll(0, 1000)) })
	g("embedded.swap.getAssets", func() string { return jse(swap.GetAssets()) })
	g("embedded.swap.getLegacyPillars", func() string { return jse(swap.GetLegacyPillars()) })
	g("embedded.accelerator.getAll", func() string { return jse(acc.GetAll(0, 1000)) })
	g("ledger.getMomentumsByPage", func() string { return jse(ledger.GetMomentumsByPage(0, 10)) })
	// the history of the pillars per finished epoch, and per pillar (every pillar name a branch of an experiment may register)
	epochs := uint64(0)
	if fm, err := b.Ch.GetFrontierMomentumStore().GetFrontierMomentum(); err == nil {
		epochs = (fm.TimestampUnix - b.Ch.GetGenesisMomentum().TimestampUnix) / uint64(consensus.EpochDuration.Seconds())
	}
	for e := uint64(0); e <= epochs; e++ {
		e := e
		g(fmt.Sprintf("embedded.pillar.getPillarsHistoryByEpoch(%d)", e), func() string { return jse(plr.GetPillarsHistoryByEpoch(e, 0, 100)) })
	}
	for _, name := range []string{gm.Pillar1Name, gm.Pillar4Name, gm.Pillar5Name} {
		name := name
		g("embedded.pillar.getPillarEpochHistory("+name+")", func() string { return jse(plr.GetPillarEpochHistory(name, 0, 10)) })
	}
	br := embedded.NewBridgeApi(z)
	g("embedded.bridge.getAllNetworks", func() string { return jse(br.GetAllNetworks(0, 100)) })
	g("embedded.bridge.getAllWrapTokenRequests", func() string { return jse(br.GetAllWrapTokenRequests(0, 100)) })
	g("embedded.bridge.getAllUnwrapTokenRequests", func() string { return jse(br.GetAllUnwrapTokenRequests(0, 100)) })
}

func enumerateNode(b *BareNode, accounts []types.Address, rpc bool) *reading {
	r := enumerateChain(b.Ch, accounts)
	if rpc {
		enumerateRpc(b, accounts, r)
	}
	return r
}

// compareEnumerations: one verdict per reader and account; the failing detail names the reader, the account and both answers
func compareEnumerations(out *Out, where string, got, want *reading, ctx M) bool {
	all := true
	shown := 0
	for _, k := range want.keys {
		if _, asked := got.m[k]; !asked {
			continue // (the RPC layer is asked only in the comparison right after the switch)
		}
		g, w := render(got.m[k]), render(want.m[k])
		ok := g == w
		if ok || shown < 12 {
			parts := strings.SplitN(k, " @ ", 2)
			d := M{"where": where, "reader": parts[0], "account": parts[1]}
			if !ok {
				shown++
				d["reorganised_node"], d["fresh_node"] = clip(g), clip(w)
				d["only_on_reorganised_node"], d["only_on_fresh_node"] = diffEntries(got.m[k], want.m[k])
				for ck, cv := range ctx {
					d[ck] = cv
				}
			}
			out.Oracle(ok, "frontier-enumeration-equals-fresh-node", d)
		}
		all = all && ok
	}
	for _, k := range got.keys {
		if _, ok := want.m[k]; !ok {
			out.Oracle(false, "frontier-enumeration-equals-fresh-node", M{"where": where, "reader": k, "fresh_node": "reader missing"})
			all = false
		}
	}
	return all
}

func clip(s string) string {
	if len(s) > 1500 {
		return s[:1500] + "…"
	}
	return s
}

func diffEntries(a, b []kv) (onlyA, onlyB []string) {
	in := func(l []kv) map[kv]bool {
		m := map[kv]bool{}
		for _, e := range l {
			m[e] = true
		}
		return m
	}
	ma, mb := in(a), in(b)
	for _, e := range a {
		if !mb[e] && len(onlyA) < 6 {
			onlyA = append(onlyA, clip(e.K+"="+e.V))
		}
	}
	for _, e := range b {
		if !ma[e] && len(onlyB) < 6 {
			onlyB = append(onlyB, clip(e.K+"="+e.V))
		}
	}
	return
}

// newEntries: for every reader and account the entry keys listed in `after` and not in `before` (what a branch wrote
// for the first time, as seen through the readers); used only to count what the generator reached
func newEntries(before, after *reading) map[string][]string {
	res := map[string][]string{}
	for _, k := range after.keys {
		old := map[string]bool{}
		for _, e := range before.m[k] {
			old[e.K] = true
		}
		for _, e := range after.m[k] {
			if !old[e.K] {
				res[k] = append(res[k], e.K)
			}
		}
	}
	return res
}
