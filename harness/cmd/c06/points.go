package main

// Suite "points": the consensus statistics (consensus/points.go) of a real node under insertions, rollbacks and queries,
// compared with the model coq/theories/Points.v (C06_points_coherent: every answer is the answer of a node with an
// empty consensus DB on the current chain) and, independently, with a second consensus instance that has an empty DB
// on the very same chain (oracle points-answer-equals-fresh-consensus).

import (
	"fmt"
	"math/big"
	"math/rand"
	"sort"
	"time"
	. "zharness/hz"

	"github.com/zenon-network/go-zenon/chain/nom"
	"github.com/zenon-network/go-zenon/common/db"
	"github.com/zenon-network/go-zenon/common/types"
	"github.com/zenon-network/go-zenon/consensus"
	"github.com/zenon-network/go-zenon/consensus/storage"
	"github.com/zenon-network/go-zenon/zenon/mock"
)

type ptsHist struct {
	nd      *Node
	rng     *rand.Rand
	out     *Out
	hashId  map[types.Hash]int64
	nameId  map[string]int64
	addrId  map[types.Address]int64
	chain   []*nom.Momentum // current chain, genesis first
	gts     int64
	dur     int64
	mult    int64
	ops     []interface{}
	answers []interface{}
	tab     []interface{}
	seenEl  map[string]bool
}

func (h *ptsHist) hid(x types.Hash) int64 {
	if v, ok := h.hashId[x]; ok {
		return v
	}
	v := int64(len(h.hashId) + 1)
	h.hashId[x] = v
	return v
}
func (h *ptsHist) nid(s string) int64 {
	if s == "" {
		return 0
	}
	if v, ok := h.nameId[s]; ok {
		return v
	}
	v := int64(len(h.nameId) + 1)
	h.nameId[s] = v
	return v
}
func (h *ptsHist) aid(a types.Address) int64 {
	if v, ok := h.addrId[a]; ok {
		return v
	}
	v := int64(len(h.addrId) + 1)
	h.addrId[a] = v
	return v
}
func (h *ptsHist) momTerm(m *nom.Momentum) interface{} {
	return Con("mkMom", I64(h.hid(m.Hash)), I64(h.hid(m.PreviousHash)), I64(m.Timestamp.Unix()), I64(h.aid(m.Producer())))
}
func (h *ptsHist) reload() {
	st := h.nd.Ch.GetFrontierMomentumStore()
	top := h.nd.FrontierHeight()
	h.chain = h.chain[:0]
	for i := uint64(1); i <= top; i++ {
		m, err := st.GetMomentumByHeight(i)
		if err != nil || m == nil {
			panic(fmt.Sprint("momentum missing ", i, err))
		}
		h.chain = append(h.chain, m)
	}
}

// the last momentum before the end of the tick (chainTicker.GetEndBlock)
func (h *ptsHist) endBlock(tick int64) *nom.Momentum {
	end := h.gts + (tick+1)*h.dur
	var r *nom.Momentum
	for _, m := range h.chain {
		if m.Timestamp.Unix() < end {
			r = m
		} else {
			break
		}
	}
	return r
}
func (h *ptsHist) frontierTick() int64 {
	return (h.chain[len(h.chain)-1].Timestamp.Unix() - h.gts) / h.dur
}

// elections of every started tick on the current chain, keyed by the tick's end block
func (h *ptsHist) recordElections() {
	for t := int64(0); t <= h.frontierTick(); t++ {
		eb := h.endBlock(t)
		if eb == nil {
			continue
		}
		key := fmt.Sprintf("%d/%d", h.hid(eb.Hash), t)
		if h.seenEl[key] {
			continue
		}
		h.seenEl[key] = true
		prods, delegs, err := consensus.VerifElectionByTick(h.nd.Cs, uint64(t))
		if err != nil {
			h.out.Count("points:election-error")
			continue
		}
		pl := Lst()
		for _, p := range prods {
			pl = append(pl, Tup(I64(h.aid(p.Producer)), I64(h.nid(p.Name))))
		}
		dl := Lst()
		for _, d := range delegs {
			dl = append(dl, Tup(I64(h.nid(d.Name)), Big(d.Weight)))
		}
		h.tab = append(h.tab, Tup(I64(h.hid(eb.Hash)), I64(t), Con("mkE", pl, dl)))
	}
}

func (h *ptsHist) pointTerm(p *storage.Point, err error) interface{} {
	if err != nil {
		return Con("PErr")
	}
	if p == nil {
		return Con("PNone")
	}
	type kv struct {
		k int64
		d *storage.ProducerDetail
	}
	var l []kv
	for n, d := range p.Pillars {
		l = append(l, kv{h.nid(n), d})
	}
	sort.Slice(l, func(i, j int) bool { return l[i].k < l[j].k })
	pl := Lst()
	for _, e := range l {
		pl = append(pl, Tup(I64(e.k), Con("mkD", I64(int64(e.d.ExpectedNum)), I64(int64(e.d.FactualNum)), Big(e.d.Weight))))
	}
	return Con("PSome", Con("mkP", I64(h.hid(p.PrevHash)), I64(h.hid(p.EndHash)), pl, Big(p.TotalWeight)))
}
func pointString(p *storage.Point, err error) string {
	if err != nil {
		return "error"
	}
	if p == nil {
		return "nil"
	}
	var names []string
	for n := range p.Pillars {
		names = append(names, n)
	}
	sort.Strings(names)
	s := fmt.Sprintf("%v..%v total=%v", p.PrevHash, p.EndHash, p.TotalWeight)
	for _, n := range names {
		d := p.Pillars[n]
		s += fmt.Sprintf(" %s:%d/%d/%v", n, d.FactualNum, d.ExpectedNum, d.Weight)
	}
	return s
}

func (h *ptsHist) query(epoch bool, tick int64) {
	pts := consensus.VerifPoints(h.nd.Cs)
	// a consensus instance with an empty DB over the same chain: what a node that only ever saw this chain answers
	fresh := consensus.VerifPoints(consensus.NewConsensus(db.NewMemDB(), h.nd.Ch, true))
	var got, want *storage.Point
	var e1, e2 error
	if epoch {
		got, e1 = pts.GetEpochPoints().GetPoint(uint64(tick))
		want, e2 = fresh.GetEpochPoints().GetPoint(uint64(tick))
		h.ops = append(h.ops, Con("TEpoch", I64(tick)))
	} else {
		got, e1 = pts.GetPeriodPoints().GetPoint(uint64(tick))
		want, e2 = fresh.GetPeriodPoints().GetPoint(uint64(tick))
		h.ops = append(h.ops, Con("TPeriod", I64(tick)))
	}
	h.answers = append(h.answers, h.pointTerm(got, e1))
	// the transient of C06_points_coherent (frontier = last momentum before the end of an epoch that an abandoned branch
	// had finished) cannot arise here: rollbacks in this suite are always followed by a new momentum before a query
	h.out.Oracle(pointString(got, e1) == pointString(want, e2), "points-answer-equals-fresh-consensus",
		M{"epoch": epoch, "tick": tick, "got": pointString(got, e1), "fresh": pointString(want, e2)})
}

func (h *ptsHist) insert() {
	if h.rng.Intn(4) == 0 {
		mock.VerifInsertMomentumSkipping(h.nd.Z, 1+h.rng.Intn(12))
		h.out.Count("points:insert-after-empty-slots")
	} else {
		h.nd.Momentum()
	}
	h.reload()
	h.ops = append(h.ops, Con("TInsert", h.momTerm(h.chain[len(h.chain)-1])))
	h.answers = append(h.answers, Con("PNone"))
	h.recordElections()
}

func pointsHistory(rng *rand.Rand, out *Out) {
	mult := int64(2 + rng.Intn(2))
	consensus.EpochDuration = time.Duration(300*mult) * time.Second
	nd := NewNode()
	defer nd.Stop()
	h := &ptsHist{nd: nd, rng: rng, out: out, hashId: map[types.Hash]int64{}, nameId: map[string]int64{}, addrId: map[types.Address]int64{},
		dur: 300, mult: mult, seenEl: map[string]bool{}}
	h.reload()
	h.gts = h.chain[0].Timestamp.Unix()
	gen := h.momTerm(h.chain[0])
	h.recordElections()
	steps := 40 + rng.Intn(60)
	for s := 0; s < steps; s++ {
		switch k := rng.Intn(10); {
		case k < 5:
			h.insert()
		case k < 6 && len(h.chain) > 3:
			// rollback of 1..30 momentums, immediately followed by a momentum of the new branch (different slot pattern)
			d := 1 + rng.Intn(30)
			if d > len(h.chain)-2 {
				d = len(h.chain) - 2
			}
			if err := h.nd.RollbackTo(uint64(len(h.chain) - d)); err != nil {
				out.Oracle(false, "harness-rollback-failed", M{"err": err.Error()})
				return
			}
			h.reload()
			h.ops = append(h.ops, Con("TRollback", I64(int64(d))))
			h.answers = append(h.answers, Con("PNone"))
			out.Count(fmt.Sprintf("points:rollback-depth-%02d", d))
			h.insert()
		case k < 8:
			t := h.frontierTick() - int64(rng.Intn(5)) + int64(rng.Intn(2))
			if t < 0 {
				t = 0
			}
			h.query(false, t)
		default:
			e := h.frontierTick()/h.mult - int64(rng.Intn(3)) + int64(rng.Intn(2))
			if e < 0 {
				e = 0
			}
			h.query(true, e)
		}
	}
	out.Case("points", Tup(I64(h.gts), I64(h.dur), I64(h.mult), h.tab, gen, h.ops), h.answers, fmt.Sprintf("mult=%d", mult))
}

func runPoints(rng *rand.Rand, n int, out *Out, _ []string) {
	for i := 0; i < n; i++ {
		pointsHistory(rng, out)
	}
}

var _ = big.NewInt
