package main

// Readers of the unconfirmed pool that run while the chain notifies its listeners: a MomentumEventListener registered
// through the chain's public Register API (exactly what the RPC subscription server, the consensus modules and the
// event printer are; the pillar's contract worker and the RPC ledger calls read the pool without the insert lock at any
// moment, a listener makes "at the moment of the notification" a deterministic schedule). On every insert / delete
// notification it reads the pool of every account the way those readers do: GetFrontierAccountStore,
// GetUncommittedAccountBlocksByAddress, GetAllUncommittedAccountBlocks, GetPatch.

import (
	"fmt"

	"github.com/zenon-network/go-zenon/chain"
	g "github.com/zenon-network/go-zenon/chain/genesis/mock"
	"github.com/zenon-network/go-zenon/chain/nom"
	"github.com/zenon-network/go-zenon/common/types"
	. "zharness/hz"
)

func allAccounts() []types.Address {
	var l []types.Address
	for _, kp := range g.AllKeyPairs {
		l = append(l, kp.Address)
	}
	return append(l, types.EmbeddedContracts...)
}

type poolReader struct {
	ch       chain.Chain
	accounts []types.Address
	inserts  int
	deletes  int
	reads    int
}

// the accounts read at a notification: every account with a block in the momentum the notification is about (those are the
// ones whose ledger changes), the user accounts, and two of all the others in turn (so every account, also the embedded
// contracts the contract worker reads, is read at some notification of a run)
func (p *poolReader) readAll(d *nom.DetailedMomentum) {
	seen := map[types.Address]bool{}
	var l []types.Address
	add := func(a types.Address) {
		if !seen[a] {
			seen[a] = true
			l = append(l, a)
		}
	}
	for _, h := range d.Momentum.Content {
		add(h.Address)
	}
	for _, u := range users {
		add(u.Address)
	}
	n := p.inserts + p.deletes
	add(p.accounts[(2*n)%len(p.accounts)])
	add(p.accounts[(2*n+1)%len(p.accounts)])
	for _, a := range l {
		st := p.ch.GetFrontierAccountStore(a)
		id := st.Identifier()
		p.ch.GetUncommittedAccountBlocksByAddress(a)
		p.ch.GetPatch(a, id)
		p.reads++
	}
	p.ch.GetAllUncommittedAccountBlocks()
}
func (p *poolReader) InsertMomentum(d *nom.DetailedMomentum) { p.inserts++; p.readAll(d) }
func (p *poolReader) DeleteMomentum(d *nom.DetailedMomentum) { p.deletes++; p.readAll(d) }

func withReaders(ch chain.Chain) *poolReader {
	p := &poolReader{ch: ch, accounts: allAccounts()}
	ch.Register(p)
	return p
}

// per account: frontier of the pool (what the next block of the account is built on, what the RPC shows as the account's
// frontier) and the unconfirmed blocks; frontier of the ledger (confirmed blocks of the frontier momentum store)
type acctPool struct {
	poolFrontier   types.HashHeight
	ledgerFrontier types.HashHeight
	uncommitted    []*nom.AccountBlock
}

func readPool(ch chain.Chain, a types.Address) acctPool {
	return acctPool{
		poolFrontier:   ch.GetFrontierAccountStore(a).Identifier(),
		ledgerFrontier: ch.GetFrontierMomentumStore().GetAccountStore(a).Identifier(),
		uncommitted:    ch.GetUncommittedAccountBlocksByAddress(a),
	}
}

// the pool is a view on top of the ledger of the CURRENT frontier momentum: per account its unconfirmed blocks are a
// hash-linked chain on the ledger frontier and the pool frontier is the top of that chain
func poolOnLedger(ch chain.Chain, out *Out, where string) {
	for _, a := range allAccounts() {
		p := readPool(ch, a)
		prev, ok := p.ledgerFrontier, true
		for _, b := range p.uncommitted {
			if b.Height != prev.Height+1 || b.PreviousHash != prev.Hash {
				ok = false
			}
			prev = b.Identifier()
		}
		out.Oracle(ok && p.poolFrontier == prev, "pool-frontier-is-ledger-frontier-plus-unconfirmed",
			M{"where": where, "account": a.String(), "pool_frontier": p.poolFrontier.Height, "ledger_frontier": p.ledgerFrontier.Height, "unconfirmed": len(p.uncommitted)})
	}
}

// after momentums were rolled back the pool is dropped: nothing of the abandoned momentums (no block they confirmed, no
// block that was built on them) is left in it, every account's frontier is its ledger frontier
func poolEmptyAfterRollback(ch chain.Chain, out *Out, where string) bool {
	all := true
	check := func(ok bool, detail M) {
		out.Oracle(ok, "rollback-leaves-abandoned-blocks-in-pool", detail)
		all = all && ok
	}
	for _, a := range allAccounts() {
		p := readPool(ch, a)
		check(p.poolFrontier == p.ledgerFrontier && len(p.uncommitted) == 0,
			M{"where": where, "account": a.String(), "pool_frontier": p.poolFrontier.Height, "ledger_frontier": p.ledgerFrontier.Height, "unconfirmed": len(p.uncommitted)})
	}
	check(len(ch.GetAllUncommittedAccountBlocks()) == 0, M{"where": where, "account": "all"})
	check(len(ch.GetNewMomentumContent()) == 0, M{"where": where, "account": "offered as content of the next momentum"})
	out.W.Flush()
	return all
}

func poolString(ch chain.Chain) string {
	s := ""
	for _, a := range allAccounts() {
		p := readPool(ch, a)
		if len(p.uncommitted) == 0 && p.poolFrontier == p.ledgerFrontier {
			continue
		}
		s += fmt.Sprintf("%v:frontier=%v@%d:", a, p.poolFrontier.Hash, p.poolFrontier.Height)
		for _, b := range p.uncommitted {
			s += fmt.Sprintf("%v,", b.Hash)
		}
		s += ";"
	}
	return s
}
