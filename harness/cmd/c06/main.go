package main

// c06 (node level): a node that saw branch A and then adopted the longer branch B must be indistinguishable from
// a node that only ever saw B — ledger state, historical views, unconfirmed pool, consensus statistics.
// Generator node G (real pillars) produces prefix+B, is rolled back to the fork point and produces A; receiver R
// is fed prefix+A then B through the real ChainBridge.InsertChain; reference F is fed prefix+B only.
import (
	"bytes"
	"encoding/json"
	"fmt"
	"math/big"
	"math/rand"
	"os"
	"os/exec"
	"strings"
	"time"

	g "github.com/zenon-network/go-zenon/chain/genesis/mock"
	"github.com/zenon-network/go-zenon/chain/nom"
	"github.com/zenon-network/go-zenon/common/db"
	"github.com/zenon-network/go-zenon/common/types"
	"github.com/zenon-network/go-zenon/consensus"
	"github.com/zenon-network/go-zenon/wallet"
	. "zharness/hz"
)

func main() {
	Main(map[string]Runner{"nodereorg": runNodeReorg, "nodecrash": runNodeCrash, "points": runPoints})
}

var users = []*wallet.KeyPair{g.User1, g.User2, g.User3, g.User4, g.User5}

// a few random accepted blocks (transfers, receives of pending sends, contract calls), then a momentum
func produce(rng *rand.Rand, nd *Node, momentums int, out *Out, actors []*wallet.KeyPair) {
	produceWith(rng, nd, momentums, out, actors, nil)
}

// extra(m) runs before the random blocks of momentum m (firsts.go: operations that write ledger keys for the first time)
func produceWith(rng *rand.Rand, nd *Node, momentums int, out *Out, actors []*wallet.KeyPair, extra func(m int)) {
	addrs := make([]types.Address, len(users))
	for i, u := range users {
		addrs[i] = u.Address
	}
	for m := 0; m < momentums; m++ {
		if extra != nil {
			extra(m)
		}
		nb := rng.Intn(4)
		for i := 0; i < nb; i++ {
			u := actors[rng.Intn(len(actors))]
			b := &nom.AccountBlock{BlockType: nom.BlockTypeUserSend, Address: u.Address}
			if rng.Intn(3) == 0 {
				c := RandomCall(rng, u.Address, nil, nil, addrs)
				b.ToAddress, b.TokenStandard, b.Amount, b.Data = c.To, c.Zts, c.Amount, c.Data
			} else {
				b.ToAddress = users[rng.Intn(len(users))].Address
				b.TokenStandard = []types.ZenonTokenStandard{types.ZnnTokenStandard, types.QsrTokenStandard}[rng.Intn(2)]
				b.Amount = big.NewInt(int64(1 + rng.Intn(100000)))
			}
			nd.Fill(b)
			nd.SetPlasma(b)
			Sign(b, u)
			tx, err := nd.Apply(b)
			if err != nil {
				out.Count("gen:block-rejected")
				continue
			}
			if err := nd.Insert(tx); err != nil {
				out.Count("gen:insert-failed")
			}
		}
		// now and then a producer misses its slot(s): the statistics of the epoch (produced / expected per pillar)
		// then depend on the branch
		if gaps && rng.Intn(5) == 0 {
			if err := ProduceAt(nd, int64(10*(2+rng.Intn(3)))); err != nil {
				nd.Momentum()
			} else {
				out.Count("gen:momentum-after-empty-slots")
			}
		} else {
			nd.Momentum()
		}
	}
}

var gaps = true

type iterable interface {
	NewIterator(prefix []byte) db.StorageIterator
}

func dumpStore(x interface{}) string {
	d, ok := x.(iterable)
	if !ok {
		return "not-iterable"
	}
	var sb bytes.Buffer
	it := d.NewIterator(nil)
	defer it.Release()
	for it.Next() {
		if it.Value() == nil {
			continue
		}
		fmt.Fprintf(&sb, "%x=%x;", it.Key(), it.Value())
	}
	return sb.String()
}

type observation struct {
	frontier string
	state    string
	views    map[uint64]string
	pool     string
	stats    string
	sched    string
}

func observe(b *BareNode, heights []uint64) observation {
	o := observation{views: map[uint64]string{}}
	fm := b.Frontier()
	o.frontier = fmt.Sprintf("%v@%d", fm.Hash, fm.Height)
	fs := b.Ch.GetFrontierMomentumStore()
	o.state = dumpStore(fs)
	for _, h := range heights {
		m, err := fs.GetMomentumByHeight(h)
		if err != nil || m == nil {
			o.views[h] = "missing"
			continue
		}
		st := b.Ch.GetMomentumStore(m.Identifier())
		if st == nil {
			o.views[h] = "nil-store"
			continue
		}
		o.views[h] = dumpStore(st)
	}
	var pb bytes.Buffer
	for _, blk := range b.Ch.GetAllUncommittedAccountBlocks() {
		fmt.Fprintf(&pb, "%v;", blk.Hash)
	}
	o.pool = pb.String() + "|" + poolString(b.Ch)
	// consensus statistics of every epoch up to the frontier and the schedule of the next slots
	pr := b.Cs.FrontierPillarReader()
	var sb bytes.Buffer
	epoch := pr.EpochTicker().ToTick(*fm.Timestamp)
	for e := uint64(0); e <= epoch; e++ {
		st, err := pr.EpochStats(e)
		j, _ := json.Marshal(st)
		fmt.Fprintf(&sb, "e%d:%s:%v|", e, j, err)
	}
	w, err := pr.GetPillarWeights()
	j, _ := json.Marshal(w)
	fmt.Fprintf(&sb, "weights:%s:%v", j, err)
	o.stats = sb.String()
	var sc bytes.Buffer
	for i := 1; i <= 12; i++ {
		t := fm.Timestamp.Add(time.Duration(i) * 10 * time.Second)
		p, err := b.Cs.GetMomentumProducer(t)
		fmt.Fprintf(&sc, "%v:%v;", p, err)
	}
	o.sched = sc.String()
	return o
}

// The experiments run in a child process whose output is flushed after every experiment: a panic inside a listener
// while the chain notifies them (AddMomentumTransaction / RollbackTo have unlocked their mutex for the notification and
// unlock it again in a defer) is a Go "fatal error" that no recover() catches, i.e. the node under test takes the whole
// process down. The parent turns "the node died during the reorganisation" into a failing oracle with the experiment
// that was running as its input, and keeps everything the child had reported before.
func runNodeReorg(rng *rand.Rand, n int, out *Out, args []string) {
	consensus.EpochDuration = 600 * time.Second // two election ticks (2 x 30 slots of 10 s): the shortest epoch consensus/points.go supports
	for _, a := range args {
		switch a {
		case "nospork":
			sporkFirsts = false
		case "nosentinel":
			sentinelFirsts = false
		case "noaccelerator":
			acceleratorFirsts = false
		case "nospecials":
			specials = false
		case "nodeepspecials":
			deepSpecials = false
		}
	}
	if len(args) > 0 && args[0] == "inproc" {
		for i := 0; i < n; i++ {
			out.Emit(M{"k": "note", "experiment": i})
			nodeReorg(rng, out)
			out.W.Flush()
			// first writes that need a long branch / a long preparation: one experiment each per run (special.go)
			if specials && i == 0 {
				out.Emit(M{"k": "note", "experiment": "special epoch-history"})
				specialReorg(rng, out, epochHistorySpecial(false))
				if deepSpecials && n > 100 { // an abandoned branch of 70-80 momentums: thorough tier
					specialReorg(rng, out, epochHistorySpecial(true))
				}
				out.W.Flush()
			}
			if specials && i == 1 {
				out.Emit(M{"k": "note", "experiment": "special bridge"})
				specialReorg(rng, out, bridgeSpecial)
				out.W.Flush()
			}
		}
		return
	}
	exe, err := os.Executable()
	if err != nil {
		panic(err)
	}
	tmp := out.F.Name() + ".child"
	defer os.Remove(tmp)
	cmd := exec.Command(exe, append([]string{"nodereorg", "-seed", fmt.Sprint(rng.Int63()), "-n", fmt.Sprint(n), "-out", tmp, "inproc"}, args...)...)
	var buf bytes.Buffer
	cmd.Stdout, cmd.Stderr = &buf, &buf
	runErr := cmd.Run()
	raw, _ := os.ReadFile(tmp)
	lines := bytes.Split(raw, []byte("\n"))
	if runErr != nil && len(lines) > 0 {
		lines = lines[:len(lines)-1] // the last line may be cut
	}
	last := M{}
	for _, l := range lines {
		if len(l) == 0 {
			continue
		}
		var m M
		if json.Unmarshal(l, &m) != nil {
			continue
		}
		if m["k"] == "note" {
			last = m
			continue
		}
		out.W.Write(l)
		out.W.WriteByte('\n')
	}
	if runErr != nil {
		log := buf.String()
		at := strings.Index(log, "fatal error:")
		if p := strings.Index(log, "panic:"); at < 0 || (p >= 0 && p < at) {
			at = p
		}
		if at < 0 {
			at = len(log) - min(len(log), 1500)
		}
		out.Oracle(false, "node-dies-during-reorganisation", M{"error": runErr.Error(), "running": last, "trace": log[at : at+min(len(log)-at, 2500)]})
	}
}

func min(a, b int) int {
	if a < b {
		return a
	}
	return b
}

var specials, deepSpecials = true, true

var experimentNo int // experiments with first writes so far (every sixth one runs with the accelerator spork enforced)

func nodeReorg(rng *rand.Rand, out *Out) {
	G := NewNode()
	// pool readers run on every insert / delete notification of every node of the experiment (readers.go)
	gr := withReaders(G.Ch)
	P := 2 + rng.Intn(8)       // prefix length (momentums after genesis)
	LA := 1 + rng.Intn(12)     // abandoned branch
	LB := LA + 1 + rng.Intn(4) // adopted branch, strictly longer
	// which branch holds FIRST WRITES (firsts.go): the abandoned one only (most runs), both, the adopted one only, none
	// (the regime before: transfers and contract calls of accounts that hold everything from the genesis on)
	fg := &firstsGen{rng: rng, nd: G, out: out}
	mode := rng.Intn(10)
	firstsA, firstsB := mode <= 7, mode >= 6 && mode <= 8
	out.Count(fmt.Sprintf("reorg:first-writes:abandoned=%v,adopted=%v", firstsA, firstsB))
	var prepare, perform func(int)
	if firstsA || firstsB {
		prepare = func(m int) { fg.prepare(m == 0) }
		perform = func(int) { fg.perform() }
		experimentNo++
		if acceleratorFirsts && experimentNo%6 == 1 {
			// the accelerator spork is enforced before the fork, so that a branch can hold the first accelerator project
			fg.accel = true
			P = 11 + rng.Intn(3)
			restore := func() {}
			defer func() { restore() }()
			prepare = func(m int) {
				if r := fg.acceleratorSpork(m); r != nil {
					restore = r
				}
				fg.prepare(m == 0)
			}
			out.Count("reorg:accelerator-spork-enforced-before-the-fork")
		}
	}
	produceWith(rng, G, P, out, users, prepare)
	if rng.Intn(3) == 0 {
		// fork shortly before the end of an epoch (60 slots of 10 s), so that the abandoned branch crosses the epoch
		// boundary: the statistics of the finished epoch are computed (and stored) on the abandoned branch first
		gts := int64(G.Ch.GetGenesisMomentum().TimestampUnix)
		left := int64(1 + rng.Intn(6))
		for (int64(FrontierOf(G.Ch).TimestampUnix)-gts)/10%60 < 60-left-4 {
			produceWith(rng, G, 1, out, users, func(int) {
				if prepare != nil && rng.Intn(3) == 0 {
					fg.prepare(false)
				}
			})
		}
		LA = int(left) + 1 + rng.Intn(8)
		LB = LA + 1 + rng.Intn(4)
		out.Count("reorg:fork-shortly-before-epoch-end")
	}
	forkH := G.FrontierHeight()
	accts := allAccounts()
	gFork := enumerateChain(G.Ch, accts)
	gForkPoolEmpty := len(G.Ch.GetAllUncommittedAccountBlocks()) == 0
	if firstsB {
		produceWith(rng, G, LB, out, users, perform)
	} else {
		produce(rng, G, LB, out, users)
	}
	countFirstWrites(out, "adopted-branch", gFork, enumerateLight(G.Ch, accts))
	chainB := WireCopyAll(DetailedRange(G.Ch, 2, G.FrontierHeight()))
	if err := G.RollbackTo(forkH); err != nil {
		out.Oracle(false, "generator-rollback-failed", M{"err": err.Error()})
		G.Stop()
		return
	}
	out.Oracle(gr.deletes == LB && gr.reads > 0, "harness-pool-readers-notified", M{"deletes": gr.deletes, "lb": LB})
	// the generator is itself a node that abandons a branch: nothing of it may be left in its pool ...
	if !poolEmptyAfterRollback(G.Ch, out, "generator after RollbackTo") {
		G.Stop()
		return
	}
	// ... and every enumerating reader of its frontier ledger answers what it answered before the branch was produced
	if gForkPoolEmpty {
		compareEnumerations(out, "generator after RollbackTo to the fork point, compared with the same node before it produced the branch", enumerateChain(G.Ch, accts), gFork, M{"fork": forkH, "lb": LB})
	}
	// only some of the accounts are active on the abandoned branch
	na := 1 + rng.Intn(3)
	if firstsA {
		produceWith(rng, G, LA, out, users[:na], perform)
	} else {
		produce(rng, G, LA, out, users[:na])
	}
	countFirstWrites(out, "abandoned-branch", gFork, enumerateLight(G.Ch, accts))
	chainA := WireCopyAll(DetailedRange(G.Ch, 2, G.FrontierHeight()))
	poolOnLedger(G.Ch, out, "generator after producing the other branch")
	G.Stop()
	if uint64(len(chainA)) != forkH-1+uint64(LA) || uint64(len(chainB)) != forkH-1+uint64(LB) {
		// the generator itself is a node that was rolled back: it must keep producing (one momentum per slot)
		out.Oracle(false, "rolled-back-node-stops-producing", M{"fork": forkH, "la": LA, "lb": LB, "got_a": len(chainA), "got_b": len(chainB)})
		return
	}
	if chainA[forkH-1].Momentum.Hash == chainB[forkH-1].Momentum.Hash {
		// both branches start with the same momentum (e.g. both empty): not a fork at this height
		out.Count("reorg:no-real-fork-skipped")
		return
	}
	out.Count(fmt.Sprintf("reorg:depth=%d", LA))
	out.Emit(M{"k": "note", "experiment": "receiver switches branches", "fork": forkH, "la": LA, "lb": LB})
	out.W.Flush()

	R := OpenBare("")
	defer R.Destroy()
	F := OpenBare("")
	defer F.Destroy()
	rr := withReaders(R.Ch) // (the reference F only ever sees the adopted branch, nobody reads its pool in between)
	if _, err := R.Br.InsertChain(chainA); err != nil {
		out.Oracle(false, "receiver-rejected-branch-A", M{"err": err.Error()})
		return
	}
	// queries before the switch: historical views at every height (warm overlay caches), consensus statistics
	var hs []uint64
	for h := uint64(1); h <= forkH+uint64(LB); h++ {
		hs = append(hs, h)
	}
	if rng.Intn(4) != 0 {
		observe(R, hs)
		out.Count("reorg:views-opened-before-switch")
	}
	// unconfirmed blocks in R's pool that depend on branch A (they acknowledge its frontier); senders are users
	// with or without blocks in the abandoned momentums
	pooled := 0
	for _, u := range users {
		if rng.Intn(2) == 0 {
			continue
		}
		tmpl := &nom.AccountBlock{BlockType: nom.BlockTypeUserSend, Address: u.Address, ToAddress: users[rng.Intn(len(users))].Address,
			TokenStandard: types.ZnnTokenStandard, Amount: big.NewInt(int64(1 + rng.Intn(1000)))}
		tx, err := R.Sv.GenerateFromTemplate(tmpl, u.Signer)
		if err != nil {
			out.Count("reorg:pool-block-rejected")
			continue
		}
		ins := R.Ch.AcquireInsert("c06 pool")
		err = R.Ch.AddAccountBlockTransaction(ins, tx)
		ins.Unlock()
		if err == nil {
			pooled++
		}
	}
	out.Count(fmt.Sprintf("reorg:pooled-before-switch=%d", pooled))
	// the switch: the same entry point the downloader/fetcher use; in half of the runs its two halves (RollbackTo to the
	// fork point, then insertion of the other branch) are made one after the other, so that the node is observed in between
	ctx := M{"fork": forkH, "la": LA, "lb": LB}
	fHasPrefix := false
	if rng.Intn(2) == 0 {
		if err := RollbackTo(R.Ch, chainA[forkH-2].Momentum.Identifier()); err != nil {
			out.Oracle(false, "receiver-rollback-failed", M{"err": err.Error()})
			return
		}
		out.Oracle(rr.deletes == LA, "harness-pool-readers-notified", M{"deletes": rr.deletes, "la": LA})
		if !poolEmptyAfterRollback(R.Ch, out, "receiver after RollbackTo, before the adopted branch") {
			return
		}
		// rolling back restores exactly the state before the rolled-back momentums, for every key, as the ledger's own
		// readers see it: R at the fork point against a node that only ever saw the common prefix
		if _, err := F.Br.InsertChain(chainB[:forkH-1]); err != nil {
			out.Oracle(false, "reference-rejected-branch-B", M{"err": err.Error()})
			return
		}
		fHasPrefix = true
		compareEnumerations(out, "receiver after RollbackTo to the fork point, compared with a node that only saw the common prefix", enumerateNode(R, accts, false), enumerateNode(F, accts, false), ctx)
		out.Count("reorg:switch-in-two-steps")
	} else {
		out.Count("reorg:switch-by-InsertChain")
	}
	if _, err := R.Br.InsertChain(chainB[forkH-1:]); err != nil {
		out.Oracle(false, "receiver-rejected-longer-branch-B", M{"err": err.Error(), "fork": forkH, "la": LA, "lb": LB})
		return
	}
	restB := chainB
	if fHasPrefix {
		restB = chainB[forkH-1:]
	}
	if _, err := F.Br.InsertChain(restB); err != nil {
		out.Oracle(false, "reference-rejected-branch-B", M{"err": err.Error()})
		return
	}
	out.Oracle(rr.deletes == LA, "harness-pool-readers-notified", M{"deletes": rr.deletes, "la": LA})
	poolOnLedger(R.Ch, out, "receiver after the switch")
	or, of := observe(R, hs), observe(F, hs)
	out.Oracle(or.frontier == of.frontier, "reorg-frontier-differs", M{"r": or.frontier, "f": of.frontier})
	out.Oracle(or.state == of.state, "reorg-ledger-state-differs", M{"fork": forkH, "la": LA, "lb": LB})
	for _, h := range hs {
		out.Oracle(or.views[h] == of.views[h], "reorg-historical-view-differs", M{"height": h, "fork": forkH, "la": LA, "lb": LB})
	}
	out.Oracle(or.pool == of.pool, "reorg-pool-differs", M{"r": or.pool, "f": of.pool, "fork": forkH, "la": LA, "lb": LB, "pooled": pooled, "rfrontier": or.frontier, "ffrontier": of.frontier})
	out.Oracle(or.stats == of.stats, "reorg-consensus-stats-differ", M{"r": or.stats, "f": of.stats})
	out.Oracle(or.sched == of.sched, "reorg-schedule-differs", M{"r": or.sched, "f": of.sched})
	eF := enumerateNode(F, accts, true)
	compareEnumerations(out, "receiver after the switch, compared with a node that only saw the adopted branch", enumerateNode(R, accts, true), eF, ctx)
	// and after a restart of R (cold caches) still the same
	R2 := R.Reopen()
	defer R2.Destroy()
	or2 := observe(R2, hs)
	out.Oracle(or2.state == of.state && or2.stats == of.stats && or2.sched == of.sched, "reorg-then-restart-differs", M{})
	compareEnumerations(out, "receiver after the switch and a restart, compared with a node that only saw the adopted branch", enumerateNode(R2, accts, false), eF, ctx)
	out.Case("node_reorg", Tup(I64(int64(forkH)), I64(int64(LA)), I64(int64(LB))), or.frontier == of.frontier && or.state == of.state, "fork-depth")
}
