package main

// Reorganisations whose abandoned branch holds a first write that needs a LONG branch or a long preparation (they run as
// experiments of their own, once per run of the suite, through the same comparison as nodeReorg: reorganised receiver
// against a node that only saw the adopted branch, every enumerating reader, also after a restart).
//   epoch-history : the QSR for a pillar is deposited on the common prefix; the abandoned branch registers the pillar a
//                   few slots before an election tick, runs to the end of the epoch and receives the pillar contract's
//                   epoch Update, which writes the history entry (epoch, name) of a pillar that exists on that branch
//                   only; the adopted branch has no such pillar. Readers: definition.GetPillarEpochHistoryList(epoch),
//                   rpc embedded.pillar.getPillarsHistoryByEpoch / getPillarEpochHistory.
//   bridge        : bridge spork enforced on the prefix; the abandoned branch holds the first network of the bridge
//                   (SetNetwork by the administrator). Readers: GetNetworkList, rpc embedded.bridge.getAllNetworks.

import (
	"encoding/base64"
	"fmt"
	"github.com/zenon-network/go-zenon/wallet"
	"math/big"
	"math/rand"

	eabi "github.com/ethereum/go-ethereum/accounts/abi"
	ecommon "github.com/ethereum/go-ethereum/common"
	"github.com/ethereum/go-ethereum/crypto"
	g "github.com/zenon-network/go-zenon/chain/genesis/mock"
	"github.com/zenon-network/go-zenon/common/types"
	"github.com/zenon-network/go-zenon/vm/constants"
	"github.com/zenon-network/go-zenon/vm/embedded/definition"
	"github.com/zenon-network/go-zenon/vm/embedded/implementation"
	. "zharness/hz"
)

type special struct {
	name    string
	twoStep bool                                                          // the switch is always made in its two halves (RollbackTo, then InsertChain): ChainBridge.InsertChain refuses forks deeper than 30
	prefix  func(fg *firstsGen, rng *rand.Rand) (restore func(), ok bool) // on the generator, before the fork
	branchA func(fg *firstsGen, rng *rand.Rand) bool                      // produces the abandoned branch; false = the first write was not reached
}

func slotOf(nd *Node) int64 {
	return (int64(FrontierOf(nd.Ch).TimestampUnix) - int64(nd.Ch.GetGenesisMomentum().TimestampUnix)) / 10
}

// deep = true: the pillar variant (abandoned branch of 40-50 momentums); false: the abandoned branch only crosses the point at
// which the finished epoch is rewarded (6-12 momentums): the history entries of that epoch are first written on it
func epochHistorySpecial(deep bool) special {
	name := "epoch-history-of-abandoned-pillar"
	if !deep {
		name = "epoch-history-first-written-on-abandoned-branch"
	}
	lastUpdate := func(nd *Node) int64 {
		le, err := definition.GetLastEpochUpdate(nd.Ch.GetFrontierMomentumStore().GetAccountStore(types.PillarContract).Storage())
		if err != nil {
			return -2
		}
		return le.LastEpoch
	}
	var atFork int64
	return special{
		name:    name,
		twoStep: true,
		prefix: func(fg *firstsGen, rng *rand.Rand) (func(), bool) {
			need := new(big.Int).Add(constants.PillarQsrStakeBaseAmount, constants.PillarQsrStakeIncreaseAmount)
			kp := rich[0]
			// the reward parameters scaled like the epoch of these experiments (600 s instead of a day): the contracts are updated
			// 30 s (not an hour) after the end of an epoch, at most every 5 (not 300) momentums; process globals, restored
			oldLimit, oldMin := constants.RewardTimeLimit, constants.UpdateMinNumMomentums
			constants.RewardTimeLimit, constants.UpdateMinNumMomentums = 30, 5
			restore := func() { constants.RewardTimeLimit, constants.UpdateMinNumMomentums = oldLimit, oldMin }
			if !fg.send(kp, types.PillarContract, types.QsrTokenStandard, need, definition.ABICommon.PackMethodPanic(definition.DepositQsrMethodName), "pillar-deposit-qsr") {
				return restore, false
			}
			produce(rng, fg.nd, 3, fg.out, users)
			dep, err := definition.GetQsrDeposit(fg.nd.Ch.GetFrontierMomentumStore().GetAccountStore(types.PillarContract).Storage(), &kp.Address)
			if err != nil || dep.Qsr.Cmp(need) < 0 {
				return restore, false
			}
			if deep {
				// fork a few slots before the second election tick of an epoch (not the first epoch: its elections are made on the genesis)
				for slotOf(fg.nd) < 70 || slotOf(fg.nd)%60 < 20 || slotOf(fg.nd)%60 > 24 {
					produce(rng, fg.nd, 1, fg.out, users)
				}
			} else {
				// fork at the end of an epoch, before it is rewarded. Inside the epoch the delegation weights CHANGE from
				// tick to tick (a new backer, backers of the genesis delegations moving funds), so that the epoch's
				// delegation average differs from every single tick's
				fg.send(users[0], types.PillarContract, types.ZnnTokenStandard, big.NewInt(0),
					definition.ABIPillars.PackMethodPanic(definition.DelegateMethodName, g.Pillar2Name), "delegate-inside-epoch")
				k := 0
				// (not one of the first two epochs: the proof momentum of the first ticks is the genesis)
				for slotOf(fg.nd) < 125 || slotOf(fg.nd)%60 < int64(56+rng.Intn(3)) {
					if k%7 == 3 {
						backer := []*wallet.KeyPair{g.User1, g.User2, users[0]}[rng.Intn(3)]
						fg.send(backer, users[1].Address, types.ZnnTokenStandard, big.NewInt(int64(1+rng.Intn(50))*100000000), nil, "backer-moves-funds")
						fg.out.Count("reorg:special:delegation-weight-changed-inside-epoch")
					}
					k++
					produce(rng, fg.nd, 1, fg.out, users)
				}
			}
			atFork = lastUpdate(fg.nd)
			return restore, true
		},
		branchA: func(fg *firstsGen, rng *rand.Rand) bool {
			kp, name := rich[0], richNames[0]
			if !deep {
				for i := 0; i < 14; i++ {
					produce(rng, fg.nd, 1, fg.out, users[:2])
					if lastUpdate(fg.nd) > atFork {
						produce(rng, fg.nd, rng.Intn(3), fg.out, users[:2])
						fg.out.Count("reorg:special:epoch-rewarded-on-the-abandoned-branch-first")
						return true
					}
				}
				return false
			}
			if !fg.send(kp, types.PillarContract, types.ZnnTokenStandard, new(big.Int).Set(constants.PillarStakeAmount),
				definition.ABIPillars.PackMethodPanic(definition.RegisterMethodName, name, kp.Address, kp.Address, uint8(rng.Intn(101)), uint8(rng.Intn(101))), "pillar-register") {
				return false
			}
			for i := 0; i < 100; i++ {
				produce(rng, fg.nd, 1, fg.out, users[:2])
				st := fg.nd.Ch.GetFrontierMomentumStore().GetAccountStore(types.PillarContract).Storage()
				for e := uint64(0); e <= uint64(slotOf(fg.nd)/60); e++ {
					l, err := definition.GetPillarEpochHistoryList(st, e)
					if err != nil {
						continue
					}
					for _, h := range l {
						if h.Name == name {
							fg.out.Count("reorg:special:epoch-history-entry-of-a-pillar-registered-on-the-abandoned-branch")
							return true
						}
					}
				}
			}
			return false
		},
	}
}

// one call of the bridge's administrator, confirmed and received by the contract
func (f *firstsGen) bridgeCall(rng *rand.Rand, data []byte, what string, wait int) bool {
	if !f.send(g.User5, types.BridgeContract, types.ZnnTokenStandard, big.NewInt(0), data, what) {
		return false
	}
	produce(rng, f.nd, 3+wait, f.out, users[:2])
	return true
}

var bridgeSpecial = special{
	name: "bridge",
	prefix: func(fg *firstsGen, rng *rand.Rand) (func(), bool) {
		if !fg.send(g.Spork, types.SporkContract, types.ZnnTokenStandard, big.NewInt(0),
			definition.ABISpork.PackMethodPanic(definition.SporkCreateMethodName, "spork-bridge", "bridge and liquidity"), "bridge-spork-create") {
			return nil, false
		}
		produce(rng, fg.nd, 3, fg.out, users)
		var restore func()
		for _, sp := range definition.GetAllSporks(fg.nd.Ch.GetFrontierMomentumStore().GetAccountStore(types.SporkContract).Storage()) {
			if sp.Name == "spork-bridge" && !sp.Activated {
				id, old := sp.Id, types.BridgeAndLiquiditySpork.SporkId
				if !fg.send(g.Spork, types.SporkContract, types.ZnnTokenStandard, big.NewInt(0), definition.ABISpork.PackMethodPanic(definition.SporkActivateMethodName, id), "bridge-spork-activate") {
					return nil, false
				}
				// the bridge's administrator is a genesis key and its delays are scaled down (main-net: days); process globals, restored
				oldAdmin, oldAD, oldSD, oldUH, oldMG := constants.InitialBridgeAdministrator, constants.MinAdministratorDelay, constants.MinSoftDelay, constants.MinUnhaltDurationInMomentums, constants.MinGuardians
				types.BridgeAndLiquiditySpork.SporkId = id
				types.ImplementedSporksMap[id] = true
				constants.InitialBridgeAdministrator.SetBytes(g.User5.Address.Bytes())
				constants.MinAdministratorDelay, constants.MinSoftDelay, constants.MinUnhaltDurationInMomentums, constants.MinGuardians = 4, 3, 1, 4
				restore = func() {
					types.BridgeAndLiquiditySpork.SporkId = old
					delete(types.ImplementedSporksMap, id)
					constants.InitialBridgeAdministrator, constants.MinAdministratorDelay, constants.MinSoftDelay, constants.MinUnhaltDurationInMomentums, constants.MinGuardians = oldAdmin, oldAD, oldSD, oldUH, oldMG
				}
			}
		}
		if restore == nil {
			return nil, false
		}
		produce(rng, fg.nd, int(constants.SporkMinHeightDelay)+3, fg.out, users)
		// orchestrator, guardians, tss key, one network with one token pair (time challenges: the call is made twice, the
		// delay apart)
		guardians := []types.Address{g.User1.Address, g.User2.Address, g.User3.Address, g.User4.Address, g.User5.Address}
		tss := "AsAQx1M3LVXCuozDOqO5b9adj/PItYgwZFG/xTDBiZzT"
		pair := definition.ABIBridge.PackMethodPanic(definition.SetTokenPairMethod, uint32(2), uint32(123), types.ZnnTokenStandard, "0x5fbdb2315678afecb367f032d93f642f64180aa3",
			true, true, false, big.NewInt(100), uint32(15), uint32(20), `{"APR": 15, "LockingPeriod": 100}`)
		ok := fg.bridgeCall(rng, definition.ABIBridge.PackMethodPanic(definition.SetOrchestratorInfoMethodName, uint64(6), uint32(3), uint32(15), uint32(10)), "bridge-orchestrator", 0) &&
			fg.bridgeCall(rng, definition.ABIBridge.PackMethodPanic(definition.NominateGuardiansMethodName, guardians), "bridge-guardians-1", int(constants.MinAdministratorDelay)+2) &&
			fg.bridgeCall(rng, definition.ABIBridge.PackMethodPanic(definition.NominateGuardiansMethodName, guardians), "bridge-guardians-2", 0) &&
			fg.bridgeCall(rng, definition.ABIBridge.PackMethodPanic(definition.ChangeTssECDSAPubKeyMethodName, tss, "", ""), "bridge-tss-1", int(constants.MinSoftDelay)+2) &&
			fg.bridgeCall(rng, definition.ABIBridge.PackMethodPanic(definition.ChangeTssECDSAPubKeyMethodName, tss, "", ""), "bridge-tss-2", 0) &&
			fg.bridgeCall(rng, definition.ABIBridge.PackMethodPanic(definition.SetNetworkMethodName, uint32(2), uint32(123), "Ethereum", "0x323b5d4c32345ced77393b3530b1eed0f346429d", "{}"), "bridge-network", 0) &&
			fg.bridgeCall(rng, pair, "bridge-token-pair-1", int(constants.MinSoftDelay)+2) &&
			fg.bridgeCall(rng, pair, "bridge-token-pair-2", 0)
		return restore, ok
	},
	branchA: func(fg *firstsGen, rng *rand.Rand) bool {
		// the first wrap request of the bridge and a second network
		fg.send(g.User1, types.BridgeContract, types.ZnnTokenStandard, big.NewInt(15*g.Zexp),
			definition.ABIBridge.PackMethodPanic(definition.WrapTokenMethodName, uint32(2), uint32(123), "0xb794f5ea0ba39494ce839613fffba74279579268"), "bridge-wrap-token")
		fg.send(g.User5, types.BridgeContract, types.ZnnTokenStandard, big.NewInt(0),
			definition.ABIBridge.PackMethodPanic(definition.SetNetworkMethodName, uint32(2), uint32(200+rng.Intn(100)), "Other", "0x323b5d4c32345ced77393b3530b1eed0f346429d", "{}"), "bridge-set-network")
		// ... and the first unwrap request (signed with the tss key the prefix installed)
		txHash := types.HexToHashPanic("0123456789012345678901234567890123456789012345678901234567890123")
		amount, token := big.NewInt(100*g.Zexp), "0x5fbdb2315678afecb367f032d93f642f64180aa3"
		if sig, err := unwrapSignature(2, 123, txHash, 200, g.User2.Address, token, amount); err == nil {
			fg.send(g.User1, types.BridgeContract, types.ZnnTokenStandard, big.NewInt(0),
				definition.ABIBridge.PackMethodPanic(definition.UnwrapTokenMethodName, uint32(2), uint32(123), txHash, uint32(200), g.User2.Address, token, amount, sig), "bridge-unwrap-token")
		}
		produce(rng, fg.nd, 3+rng.Intn(6), fg.out, users[:2])
		st := fg.nd.Ch.GetFrontierMomentumStore().GetAccountStore(types.BridgeContract).Storage()
		if ul, err := definition.GetUnwrapTokenRequests(st); err == nil && len(ul) > 0 {
			fg.out.Count("reorg:special:first-unwrap-request-on-the-abandoned-branch")
		}
		nl, _ := definition.GetNetworkList(st)
		wl, err := definition.GetWrapTokenRequests(st)
		if len(nl) >= 2 {
			fg.out.Count("reorg:special:bridge-network-first-created-on-the-abandoned-branch")
		}
		if err == nil && len(wl) > 0 {
			fg.out.Count("reorg:special:first-wrap-request-on-the-abandoned-branch")
		}
		return len(nl) >= 2 || (err == nil && len(wl) > 0)
	},
}

func specialReorg(rng *rand.Rand, out *Out, sp special) {
	G := NewNode()
	fg := &firstsGen{rng: rng, nd: G, out: out}
	produce(rng, G, 1+rng.Intn(3), out, users)
	restore, ok := sp.prefix(fg, rng)
	if restore != nil {
		defer restore()
	}
	if !ok {
		out.Count("reorg:special:" + sp.name + ":prefix-not-reached")
		G.Stop()
		return
	}
	forkH := G.FrontierHeight()
	accts := allAccounts()
	if !sp.branchA(fg, rng) {
		out.Count("reorg:special:" + sp.name + ":first-write-not-reached")
		G.Stop()
		return
	}
	LA := int(G.FrontierHeight() - forkH)
	chainA := WireCopyAll(DetailedRange(G.Ch, 2, G.FrontierHeight()))
	if err := G.RollbackTo(forkH); err != nil {
		out.Oracle(false, "generator-rollback-failed", M{"err": err.Error()})
		G.Stop()
		return
	}
	gAfter := enumerateChain(G.Ch, accts)
	LB := LA + 1 + rng.Intn(3)
	produce(rng, G, LB, out, users)
	chainB := WireCopyAll(DetailedRange(G.Ch, 2, G.FrontierHeight()))
	G.Stop()
	ctx := M{"experiment": sp.name, "fork": forkH, "la": LA, "lb": LB}
	if uint64(len(chainB)) != forkH-1+uint64(LB) {
		out.Oracle(false, "rolled-back-node-stops-producing", ctx)
		return
	}
	out.Count("reorg:special:" + sp.name)
	out.Count(fmt.Sprintf("reorg:special:%s:depth>=%d", sp.name, LA/10*10))
	out.Emit(M{"k": "note", "experiment": "special " + sp.name, "fork": forkH, "la": LA, "lb": LB})
	out.W.Flush()

	R := OpenBare("")
	defer R.Destroy()
	F := OpenBare("")
	defer F.Destroy()
	if _, err := R.Br.InsertChain(chainA); err != nil {
		out.Oracle(false, "receiver-rejected-branch-A", M{"err": err.Error(), "experiment": sp.name})
		return
	}
	if sp.twoStep || rng.Intn(2) == 0 {
		// the two halves of the switch one after the other: the node at the fork point against a node that saw the prefix only
		if err := RollbackTo(R.Ch, chainA[forkH-2].Momentum.Identifier()); err != nil {
			out.Oracle(false, "receiver-rollback-failed", M{"err": err.Error()})
			return
		}
		P := OpenBare("")
		if _, err := P.Br.InsertChain(chainB[:forkH-1]); err == nil {
			eP := enumerateNode(P, accts, true)
			compareEnumerations(out, "receiver after RollbackTo to the fork point, compared with a node that only saw the common prefix", enumerateNode(R, accts, true), eP, ctx)
			compareEnumerations(out, "generator after RollbackTo to the fork point, compared with a node that only saw the common prefix", gAfter, eP, ctx)
		}
		P.Destroy()
	}
	if _, err := R.Br.InsertChain(chainB[forkH-1:]); err != nil {
		out.Oracle(false, "receiver-rejected-longer-branch-B", M{"err": err.Error(), "experiment": sp.name, "fork": forkH, "la": LA, "lb": LB})
		return
	}
	if _, err := F.Br.InsertChain(chainB); err != nil {
		out.Oracle(false, "reference-rejected-branch-B", M{"err": err.Error()})
		return
	}
	eF := enumerateNode(F, accts, true)
	compareEnumerations(out, "receiver after the switch, compared with a node that only saw the adopted branch", enumerateNode(R, accts, true), eF, ctx)
	fs, rs := dumpStore(F.Ch.GetFrontierMomentumStore()), dumpStore(R.Ch.GetFrontierMomentumStore())
	out.Oracle(fs == rs, "reorg-ledger-state-differs", ctx)
	R2 := R.Reopen()
	defer R2.Destroy()
	compareEnumerations(out, "receiver after the switch and a restart, compared with a node that only saw the adopted branch", enumerateNode(R2, accts, true), eF, ctx)
}

// signature of the bridge's tss key (the key pair of the bridge tests of /repo) over an unwrap request
func unwrapSignature(networkClass, chainId uint32, txHash types.Hash, logIndex uint32, to types.Address, tokenAddress string, amount *big.Int) (string, error) {
	args := eabi.Arguments{{Type: definition.Uint256Ty}, {Type: definition.Uint256Ty}, {Type: definition.Uint256Ty}, {Type: definition.Uint256Ty}, {Type: definition.Uint256Ty}, {Type: definition.AddressTy}, {Type: definition.Uint256Ty}}
	msg, err := args.PackValues([]interface{}{big.NewInt(int64(networkClass)), big.NewInt(int64(chainId)), new(big.Int).SetBytes(txHash.Bytes()), big.NewInt(int64(logIndex)),
		new(big.Int).SetBytes(to.Bytes()), ecommon.HexToAddress(tokenAddress), amount})
	if err != nil {
		return "", err
	}
	h, err := implementation.HashByNetworkClass(msg, networkClass)
	if err != nil {
		return "", err
	}
	kb, err := base64.StdEncoding.DecodeString("tuSwrTEUyJI1/3y5J8L8DSjzT/AQG2IK3JG+93qhhhI=")
	if err != nil {
		return "", err
	}
	key, err := crypto.ToECDSA(kb)
	if err != nil {
		return "", err
	}
	sig, err := crypto.Sign(h, key)
	if err != nil {
		return "", err
	}
	return base64.StdEncoding.EncodeToString(sig), nil
}
