package main

// Generator of FIRST WRITES: operations that create ledger keys which did not exist before, so that a branch which holds
// them, once abandoned, leaves the store with keys that exist only as tombstones (ldbManager.Pop does not remove a key
// the popped momentum created, it overwrites it with the empty value):
//   - the first ever credit of a token to an account: QSR sent to the genesis pillars that hold only ZNN, ZNN / QSR sent
//     to accounts that are not in the genesis at all (User6..User10), the initial supply / a mint of a freshly issued
//     ZTS token; the sends are confirmed first (pending entry in the addressee's mailbox), the addressee then receives
//     them with a UserReceive block built from the unreceived listing of its mailbox;
//   - the first block of a brand-new account (User6..User10 own no plasma: somebody fuses QSR for them first);
//   - the first entry of a contract table: first stake entry of an address, fusion for a new beneficiary, token issue,
//     delegation of an account that never delegated, QSR deposit at the pillar / sentinel contract, sentinel and pillar
//     registration of the accounts that can afford them, creation of a spork.
// The prefix phase mostly PREPARES (pending sends, plasma for the new accounts, issued tokens), the branch phases
// perform. Everything is stateless (decisions are taken from the node's current ledger), so the generator node can be
// rolled back between the branches.

import (
	"fmt"
	"math/big"
	"math/rand"

	g "github.com/zenon-network/go-zenon/chain/genesis/mock"
	"github.com/zenon-network/go-zenon/chain/nom"
	"github.com/zenon-network/go-zenon/common/types"
	"github.com/zenon-network/go-zenon/vm/constants"
	"github.com/zenon-network/go-zenon/vm/embedded/definition"
	"github.com/zenon-network/go-zenon/wallet"
	. "zharness/hz"
)

var (
	znnOnly     = []*wallet.KeyPair{g.Pillar1, g.Pillar2, g.Pillar3}                       // hold ZNN only in the genesis
	newAccounts = []*wallet.KeyPair{g.User6, g.User7, g.User8, g.User9, g.User10}          // not in the genesis at all
	rich        = []*wallet.KeyPair{g.Pillar4, g.Pillar5, g.Pillar6, g.Pillar7, g.Pillar8} // 16000 ZNN, 200000 QSR, never delegated
	richNames   = []string{g.Pillar4Name, g.Pillar5Name, g.Pillar6Name, g.Pillar7Name, g.Pillar8Name}
	// creation of a spork / registration of a sentinel among the first-entry operations; accelerator spork enforced before
	// the fork in every sixth experiment + accelerator projects among the first-entry operations (suite arguments
	// "nospork", "nosentinel", "noaccelerator" switch them off)
	sporkFirsts       = true
	sentinelFirsts    = true
	acceleratorFirsts = true
)

type firstsGen struct {
	rng            *rand.Rand
	nd             *Node
	out            *Out
	accel          bool // the accelerator spork is created and activated at the start of the prefix (acceleratorSpork)
	accelActivated bool
}

// acceleratorSpork: momentum 0 of the prefix creates a spork, momentum 2 (once the contract has received the creation)
// activates it and makes it THE accelerator spork
// of this process (types.AcceleratorSpork / ImplementedSporksMap are process globals shared by the nodes of the
// experiment; restore undoes it). It is enforced SporkMinHeightDelay momentums later: the prefix is made long enough.
func (f *firstsGen) acceleratorSpork(m int) (restore func()) {
	switch {
	case m == 0:
		f.send(g.Spork, types.SporkContract, types.ZnnTokenStandard, big.NewInt(0),
			definition.ABISpork.PackMethodPanic(definition.SporkCreateMethodName, "spork-accelerator", "accelerator contract"), "accelerator-spork-create")
	case !f.accelActivated:
		for _, sp := range definition.GetAllSporks(f.nd.Ch.GetFrontierMomentumStore().GetAccountStore(types.SporkContract).Storage()) {
			if sp.Name == "spork-accelerator" && !sp.Activated {
				id, old := sp.Id, types.AcceleratorSpork.SporkId
				f.accelActivated = true
				f.send(g.Spork, types.SporkContract, types.ZnnTokenStandard, big.NewInt(0),
					definition.ABISpork.PackMethodPanic(definition.SporkActivateMethodName, id), "accelerator-spork-activate")
				types.AcceleratorSpork.SporkId = id
				types.ImplementedSporksMap[id] = true
				return func() {
					types.AcceleratorSpork.SporkId = old
					delete(types.ImplementedSporksMap, id)
				}
			}
		}
	}
	return nil
}

func zx(n int64) *big.Int { return new(big.Int).Mul(big.NewInt(n), big.NewInt(g.Zexp)) }

func (f *firstsGen) submit(b *nom.AccountBlock, kp *wallet.KeyPair, what string) (ok bool) {
	// the base plasma of the block is computed outside the supervisor (hz.SetPlasma, as the RPC call
	// embedded.plasma.getRequiredPoWForAccountBlock does): a panic of the ledger readers under it is the node's answer
	defer func() {
		if e := recover(); e != nil {
			f.out.Oracle(false, "generator-node-panics-while-preparing-a-block", M{"what": what, "panic": fmt.Sprint(e), "frontier": f.nd.FrontierHeight()})
			ok = false
		}
	}()
	f.nd.Fill(b)
	f.nd.SetPlasma(b)
	Sign(b, kp)
	tx, err := f.nd.Apply(b)
	if err != nil {
		f.out.Count("gen:first-write-rejected:" + what)
		return false
	}
	if err := f.nd.Insert(tx); err != nil {
		f.out.Count("gen:first-write-insert-failed:" + what)
		return false
	}
	f.out.Count("gen:first-write-block:" + what)
	return true
}

func (f *firstsGen) send(kp *wallet.KeyPair, to types.Address, zts types.ZenonTokenStandard, amount *big.Int, data []byte, what string) bool {
	return f.submit(&nom.AccountBlock{BlockType: nom.BlockTypeUserSend, Address: kp.Address, ToAddress: to, TokenStandard: zts, Amount: amount, Data: data}, kp, what)
}

func (f *firstsGen) hasPlasma(a types.Address) bool {
	v, err := f.nd.Ch.GetFrontierMomentumStore().GetStakeBeneficialAmount(a)
	return err == nil && v != nil && v.Sign() > 0
}

// receive up to max confirmed, not yet received sends addressed to kp
func (f *firstsGen) receive(kp *wallet.KeyPair, max int) int {
	if !f.hasPlasma(kp.Address) {
		return 0
	}
	ms := f.nd.Ch.GetFrontierMomentumStore()
	hashes, err := ms.GetAccountMailbox(kp.Address).GetUnreceivedAccountBlockHashes(8)
	if err != nil {
		return 0
	}
	n := 0
	for _, h := range hashes {
		if n >= max {
			break
		}
		if f.nd.Ch.GetFrontierAccountStore(kp.Address).IsReceived(h) {
			continue // received by an unconfirmed block already
		}
		if f.submit(&nom.AccountBlock{BlockType: nom.BlockTypeUserReceive, Address: kp.Address, FromBlockHash: h}, kp, "receive") {
			n++
		}
	}
	return n
}

func (f *firstsGen) pick(l []*wallet.KeyPair) *wallet.KeyPair { return l[f.rng.Intn(len(l))] }

func (f *firstsGen) token() types.ZenonTokenStandard {
	return []types.ZenonTokenStandard{types.ZnnTokenStandard, types.QsrTokenStandard}[f.rng.Intn(2)]
}

// user tokens issued so far, with their owners
func (f *firstsGen) issued() []*definition.TokenInfo {
	l, err := definition.GetTokenInfoList(f.nd.Ch.GetFrontierMomentumStore().GetAccountStore(types.TokenContract).Storage())
	if err != nil {
		return nil
	}
	var res []*definition.TokenInfo
	for _, t := range l {
		if t.TokenStandard != types.ZnnTokenStandard && t.TokenStandard != types.QsrTokenStandard {
			res = append(res, t)
		}
	}
	return res
}

// a send whose receipt will be the first credit of that token to the addressee
func (f *firstsGen) sendToNeverCredited() {
	switch f.rng.Intn(4) {
	case 0:
		f.send(f.pick(users), f.pick(znnOnly).Address, types.QsrTokenStandard, big.NewInt(int64(1+f.rng.Intn(1000000))), nil, "qsr-to-znn-only-account")
	case 1, 2:
		f.send(f.pick(users), f.pick(newAccounts).Address, f.token(), big.NewInt(int64(1+f.rng.Intn(1000000))), nil, "funds-to-new-account")
	default:
		toks := f.issued()
		if len(toks) == 0 {
			f.issueToken()
			return
		}
		t := toks[f.rng.Intn(len(toks))]
		owner := KeyOf(t.Owner)
		if owner == nil {
			return
		}
		all := append(append(append([]*wallet.KeyPair{}, users...), newAccounts...), znnOnly...)
		to := f.pick(all).Address
		bal, _ := f.nd.Ch.GetFrontierAccountStore(owner.Address).GetBalance(t.TokenStandard)
		if bal != nil && bal.Sign() > 0 && f.rng.Intn(2) == 0 {
			amt := big.NewInt(1 + f.rng.Int63n(bal.Int64()))
			f.send(owner, to, t.TokenStandard, amt, nil, "zts-transfer")
		} else if t.IsMintable && f.hasPlasma(owner.Address) {
			room := new(big.Int).Sub(t.MaxSupply, t.TotalSupply)
			if room.Sign() <= 0 {
				return
			}
			amt := big.NewInt(1 + f.rng.Int63n(1+room.Int64()/4))
			f.send(owner, types.TokenContract, types.ZnnTokenStandard, big.NewInt(0),
				definition.ABIToken.PackMethodPanic(definition.MintMethodName, t.TokenStandard, amt, to), "zts-mint")
		}
	}
}

func (f *firstsGen) issueToken() {
	total := big.NewInt(int64(1 + f.rng.Intn(5000)))
	max := new(big.Int).Add(total, big.NewInt(int64(1+f.rng.Intn(20000))))
	name := fmt.Sprintf("tok%d", f.rng.Intn(1000))
	f.send(f.pick(users), types.TokenContract, types.ZnnTokenStandard, new(big.Int).Set(constants.TokenIssueAmount),
		definition.ABIToken.PackMethodPanic(definition.IssueMethodName, name, "T"+string(rune('A'+f.rng.Intn(26))), "", total, max, uint8(f.rng.Intn(10)), true, f.rng.Intn(2) == 0, false),
		"token-issue")
}

func (f *firstsGen) fuseForNewAccount() {
	// prefer a new account that has no plasma yet
	var cand []*wallet.KeyPair
	for _, kp := range newAccounts {
		if !f.hasPlasma(kp.Address) {
			cand = append(cand, kp)
		}
	}
	if len(cand) == 0 || f.rng.Intn(5) == 0 {
		cand = newAccounts
	}
	f.send(f.pick(users), types.PlasmaContract, types.QsrTokenStandard, zx(int64(30+f.rng.Intn(40))),
		definition.ABIPlasma.PackMethodPanic(definition.FuseMethodName, f.pick(cand).Address), "fuse-for-new-beneficiary")
}

// accelerator project (the contract exists once the accelerator spork is enforced)
func (f *firstsGen) createProject() {
	f.send(f.pick(users), types.AcceleratorContract, types.ZnnTokenStandard, new(big.Int).Set(constants.ProjectCreationAmount),
		definition.ABIAccelerator.PackMethodPanic(definition.CreateProjectMethodName, fmt.Sprintf("project %d", f.rng.Intn(1000)), "created by the c06 harness", "c06.test",
			big.NewInt(int64(1+f.rng.Intn(1000))), big.NewInt(int64(1+f.rng.Intn(1000)))), "accelerator-project")
}

// an operation whose receipt by the contract writes a table entry that never existed
func (f *firstsGen) firstContractEntry() {
	ms := f.nd.Ch.GetFrontierMomentumStore()
	n := 10
	if f.accel {
		n = 13
	}
	k := f.rng.Intn(n)
	if k == 9 && !sporkFirsts {
		k = f.rng.Intn(9)
	}
	switch k {
	case 0: // nobody has a stake entry in the genesis
		all := append(append([]*wallet.KeyPair{}, users...), rich...)
		f.send(f.pick(all), types.StakeContract, types.ZnnTokenStandard, zx(int64(1+f.rng.Intn(20))),
			definition.ABIStake.PackMethodPanic(definition.StakeMethodName, int64(constants.StakeTimeMinSec*int64(1+f.rng.Intn(12)))), "stake")
	case 1:
		f.fuseForNewAccount()
	case 2:
		f.issueToken()
	case 3, 4: // delegation of an account that never delegated
		var cand []*wallet.KeyPair
		for _, kp := range append(append(append([]*wallet.KeyPair{}, rich...), newAccounts...), g.Spork) {
			if f.hasPlasma(kp.Address) {
				cand = append(cand, kp)
			}
		}
		f.send(f.pick(cand), types.PillarContract, types.ZnnTokenStandard, big.NewInt(0),
			definition.ABIPillars.PackMethodPanic(definition.DelegateMethodName, []string{g.Pillar1Name, g.Pillar2Name, g.Pillar3Name}[f.rng.Intn(3)]), "delegate")
	case 5, 6: // sentinel: QSR deposit, then registration
		cand := append(append([]*wallet.KeyPair{}, rich...), g.User1, g.User2, g.Spork)
		for _, kp := range cand { // whoever has deposited and is no sentinel yet registers
			dep, err := definition.GetQsrDeposit(ms.GetAccountStore(types.SentinelContract).Storage(), &kp.Address)
			if sentinelFirsts && err == nil && dep.Qsr.Cmp(constants.SentinelQsrDepositAmount) >= 0 {
				f.send(kp, types.SentinelContract, types.ZnnTokenStandard, new(big.Int).Set(constants.SentinelZnnRegisterAmount),
					definition.ABISentinel.PackMethodPanic(definition.RegisterSentinelMethodName), "sentinel-register")
				return
			}
		}
		f.send(f.pick(cand), types.SentinelContract, types.QsrTokenStandard, new(big.Int).Set(constants.SentinelQsrDepositAmount),
			definition.ABICommon.PackMethodPanic(definition.DepositQsrMethodName), "sentinel-deposit-qsr")
	case 7, 8: // pillar: QSR deposit, then registration (the node of the experiment has a producer for every genesis key)
		need := new(big.Int).Add(constants.PillarQsrStakeBaseAmount, constants.PillarQsrStakeIncreaseAmount)
		var fresh []int
		for i, kp := range rich { // whoever has deposited registers
			dep, err := definition.GetQsrDeposit(ms.GetAccountStore(types.PillarContract).Storage(), &kp.Address)
			if err == nil && dep.Qsr.Cmp(need) >= 0 {
				f.send(kp, types.PillarContract, types.ZnnTokenStandard, new(big.Int).Set(constants.PillarStakeAmount),
					definition.ABIPillars.PackMethodPanic(definition.RegisterMethodName, richNames[i], kp.Address, kp.Address, uint8(f.rng.Intn(101)), uint8(f.rng.Intn(101))), "pillar-register")
				return
			}
			if err == nil && dep.Qsr.Sign() == 0 {
				fresh = append(fresh, i)
			}
		}
		if len(fresh) > 0 {
			f.send(rich[fresh[f.rng.Intn(len(fresh))]], types.PillarContract, types.QsrTokenStandard, need,
				definition.ABICommon.PackMethodPanic(definition.DepositQsrMethodName), "pillar-deposit-qsr")
		}
	case 10, 11, 12:
		f.createProject()
	case 9:
		f.send(g.Spork, types.SporkContract, types.ZnnTokenStandard, big.NewInt(0),
			definition.ABISpork.PackMethodPanic(definition.SporkCreateMethodName, fmt.Sprintf("spork-%d", f.rng.Intn(1000)), "created by the c06 harness"), "spork-create")
	}
}

func (f *firstsGen) receivers() []*wallet.KeyPair {
	l := append(append(append([]*wallet.KeyPair{}, znnOnly...), newAccounts...), users...)
	f.rng.Shuffle(len(l), func(i, j int) { l[i], l[j] = l[j], l[i] })
	return l
}

// prepare: called for every momentum of the prefix (first = the first one): pending sends, plasma, tokens; few receipts
func (f *firstsGen) prepare(first bool) {
	p := 8
	if first {
		p = 1
	}
	for _, kp := range newAccounts {
		if f.rng.Intn(2*p) == 0 {
			f.send(f.pick(users), types.PlasmaContract, types.QsrTokenStandard, zx(int64(30+f.rng.Intn(40))),
				definition.ABIPlasma.PackMethodPanic(definition.FuseMethodName, kp.Address), "fuse-for-new-beneficiary")
		}
	}
	for i := 0; i < 3; i++ {
		if f.rng.Intn(p) == 0 {
			f.sendToNeverCredited()
		}
	}
	if f.rng.Intn(2*p) == 0 {
		f.issueToken()
	}
	if !first && f.rng.Intn(6) == 0 {
		f.receive(f.pick(f.receivers()), 1)
	}
}

// perform: called for every momentum of a branch that holds first writes
func (f *firstsGen) perform() {
	for _, kp := range f.receivers()[:1+f.rng.Intn(3)] {
		f.receive(kp, 1+f.rng.Intn(2))
	}
	if f.rng.Intn(2) == 0 {
		f.firstContractEntry()
	}
	if f.accel && f.rng.Intn(2) == 0 {
		f.createProject()
	}
	if f.rng.Intn(2) == 0 {
		f.sendToNeverCredited()
	}
}

// what the branch wrote for the first time, as seen through the enumerating readers of the generator node
func countFirstWrites(out *Out, branch string, atFork, atEnd *reading) {
	credit, account, entry := false, false, false
	for k, l := range newEntries(atFork, atEnd) {
		if len(l) == 0 {
			continue
		}
		contract := false
		if a, err := types.ParseAddress(k[indexOf(k, " @ ")+3:]); err == nil {
			contract = types.IsEmbeddedAddress(a)
		}
		switch {
		case hasPrefix(k, "balance-map / momentum-store-view"):
			if contract {
				out.Count("reorg:first-credit-to-a-contract-on-" + branch)
			} else {
				credit = true
			}
		case hasPrefix(k, "account-blocks-by-height / momentum-store-view"):
			if len(atFork.m[k]) == 0 && !contract {
				account = true
			}
		case hasPrefix(k, "token-list / momentum-store-view"), hasPrefix(k, "pillar-list / momentum-store-view"), hasPrefix(k, "delegation-list / momentum-store-view"),
			hasPrefix(k, "sentinel-list / momentum-store-view"), hasPrefix(k, "spork-list / momentum-store-view"), hasPrefix(k, "stake-entries / momentum-store-view"),
			hasPrefix(k, "fusion-entries-by-owner / momentum-store-view"), hasPrefix(k, "pillar-epoch-history / momentum-store-view"), hasPrefix(k, "project-list / momentum-store-view"):
			entry = true
			out.Count("reorg:first-entry-on-" + branch + ":" + k[:indexOf(k, " / ")])
		}
	}
	if credit {
		out.Count("reorg:first-credit-on-" + branch)
	}
	if account {
		out.Count("reorg:new-account-on-" + branch)
	}
	if entry {
		out.Count("reorg:first-contract-entry-on-" + branch)
	}
	if !credit && !account && !entry {
		out.Count("reorg:no-first-write-on-" + branch)
	}
}

func hasPrefix(s, p string) bool { return len(s) >= len(p) && s[:len(p)] == p }
func indexOf(s, sub string) int {
	for i := 0; i+len(sub) <= len(s); i++ {
		if s[i:i+len(sub)] == sub {
			return i
		}
	}
	return len(s)
}
