package main

// Fork candidates: while the node's pool holds unconfirmed blocks of an account, candidates whose stated predecessor is
// an EARLIER block of that account (the confirmed frontier, or an unconfirmed block below the pool frontier; as a
// control also the pool frontier itself): user send, user call, user receive, with amounts chosen around the balance at
// the stated predecessor and at the pool frontier, and fused plasma around what is available at either. (The contract
// side of the same situation, a contract receive verified at its own / an earlier unconfirmed position, is a base of
// candidates().) Every candidate goes through the comparison with the model and the validity oracle, which reads the
// store at the STATED predecessor. One accepted fork candidate per state is then given to the pool
// (AddAccountBlockTransaction or ForceAddAccountBlockTransaction) and the resulting account state is compared with
// "state at the stated predecessor + this block".

import (
	"fmt"
	"math/big"
	"sort"
	. "zharness/hz"

	"github.com/zenon-network/go-zenon/chain"
	"github.com/zenon-network/go-zenon/chain/nom"
	"github.com/zenon-network/go-zenon/chain/store"
	"github.com/zenon-network/go-zenon/common/types"
	"github.com/zenon-network/go-zenon/vm"
	"github.com/zenon-network/go-zenon/vm/embedded/definition"
	"github.com/zenon-network/go-zenon/wallet"
)

type forkCand struct {
	b    *nom.AccountBlock
	prev types.HashHeight
}

func (h *hist) forkCandidates() {
	rng, nd := h.rng, h.nd
	h.pl = h.sc.Scan(true)
	fms := nd.Ch.GetFrontierMomentumStore()
	var accts []*wallet.KeyPair
	for _, kp := range h.actors {
		if len(nd.Ch.GetUncommittedAccountBlocksByAddress(kp.Address)) > 0 {
			accts = append(accts, kp)
		}
	}
	if len(accts) == 0 {
		h.out.Count("c03:fork:no-account-with-unconfirmed-blocks")
		return
	}
	var accepted []forkCand
	rng.Shuffle(len(accts), func(i, j int) { accts[i], accts[j] = accts[j], accts[i] })
	if keep := 1 + rng.Intn(3)/2; len(accts) > keep {
		accts = accts[:keep]
	}
	for _, kp := range accts {
		addr := kp.Address
		fr := nd.Ch.GetFrontierAccountStore(addr)
		stable := fms.GetAccountStore(addr).Identifier()
		top := fr.Identifier()
		h.out.Count(fmt.Sprintf("c03:fork:unconfirmed-depth:%d", top.Height-stable.Height))
		// positions: a random one below the pool frontier, sometimes a second one, sometimes the frontier (control)
		var ps []uint64
		ps = append(ps, stable.Height+uint64(rng.Intn(int(top.Height-stable.Height))))
		if top.Height-stable.Height > 1 && rng.Intn(3) == 0 {
			if p2 := stable.Height + uint64(rng.Intn(int(top.Height-stable.Height))); p2 != ps[0] {
				ps = append(ps, p2)
			}
		}
		if rng.Intn(5) == 0 {
			ps = append(ps, top.Height)
		}
		for _, p := range ps {
			prev := types.ZeroHashHeight
			if p > 0 {
				pb, err := fr.ByHeight(p)
				if err != nil || pb == nil {
					continue
				}
				prev = pb.Identifier()
			}
			asP := nd.Ch.GetAccountStore(addr, prev)
			if asP == nil {
				h.out.Count("c03:fork:no-store-at-position")
				continue
			}
			where := "below-frontier"
			if p == stable.Height {
				where = "confirmed-frontier"
			}
			if p == top.Height {
				where = "pool-frontier"
			}
			blocks, fused := h.forkBlocksAt(kp, prev, asP, fr)
			for _, b := range blocks {
				h.prepare(b, kp)
				if fp, ok := fused[b]; ok { // prepare puts exactly the base plasma
					b.FusedPlasma = fp
					Sign(b, kp)
				}
				tn := typeName(b)
				code := h.try(b, "fork:"+where+":"+tn)
				h.out.Count("c03:fork:" + where + ":" + tn + ":" + codeName[code])
				if code == 0 && p < top.Height {
					accepted = append(accepted, forkCand{b, prev})
				}
				// a mutation of the fork candidate now and then
				if rng.Intn(6) == 0 {
					m := clone(b)
					name := h.mutate(m, h.pl)
					if rng.Intn(2) == 0 && name != "Hash" && name != "Signature" && name != "PublicKey" && name != "SignedByOtherKey" {
						h.resign(m, kp)
					}
					h.try(m, "fork:"+where+":"+tn+":mutated")
					h.out.Count("c03:mutated-field:" + name)
				}
			}
		}
	}
	if len(accepted) > 0 && rng.Intn(3) != 0 {
		h.insertFork(accepted[rng.Intn(len(accepted))])
	}
}

// forkBlocksAt: the candidates for one stated predecessor, and the fused plasma chosen for some of them
func (h *hist) forkBlocksAt(kp *wallet.KeyPair, prev types.HashHeight, asP, fr store.Account) ([]*nom.AccountBlock, map[*nom.AccountBlock]uint64) {
	rng, nd := h.rng, h.nd
	forkPlasma := map[*nom.AccountBlock]uint64{}
	addr := kp.Address
	mk := func(bt uint64) *nom.AccountBlock {
		return &nom.AccountBlock{BlockType: bt, Address: addr, PreviousHash: prev.Hash, Height: prev.Height + 1}
	}
	one := big.NewInt(1)
	amounts := func(z types.ZenonTokenStandard) []*big.Int {
		bp, _ := asP.GetBalance(z)
		bf, _ := fr.GetBalance(z)
		lo, hi := bp, bf
		if lo.Cmp(hi) > 0 {
			lo, hi = hi, lo
		}
		mid := new(big.Int).Rsh(new(big.Int).Add(lo, hi), 1)
		l := []*big.Int{new(big.Int).Set(bp), new(big.Int).Add(bp, one), new(big.Int).Set(bf), new(big.Int).Add(bf, one), mid,
			new(big.Int).Add(lo, one), new(big.Int).Add(hi, one), big.NewInt(1 + int64(rng.Intn(1000)))}
		if bp.Sign() > 0 {
			l = append(l, new(big.Int).Sub(bp, one))
		}
		return l
	}
	zts := func() types.ZenonTokenStandard {
		if rng.Intn(4) == 0 {
			return types.QsrTokenStandard
		}
		return types.ZnnTokenStandard
	}
	var res []*nom.AccountBlock
	// user sends
	for k := 0; k < 3; k++ {
		z := zts()
		am := amounts(z)
		b := mk(nom.BlockTypeUserSend)
		b.ToAddress, b.TokenStandard, b.Amount = h.actors[rng.Intn(len(h.actors))].Address, z, am[rng.Intn(len(am))]
		res = append(res, b)
	}
	// user calls
	for k := 1 + rng.Intn(2); k > 0; k-- {
		z := zts()
		am := amounts(z)
		b := mk(nom.BlockTypeUserSend)
		b.ToAddress, b.TokenStandard, b.Amount = types.AcceleratorContract, z, am[rng.Intn(len(am))]
		b.Data = definition.ABICommon.PackMethodPanic(definition.DonateMethodName)
		if rng.Intn(3) == 0 {
			b.ToAddress, b.TokenStandard = types.PlasmaContract, types.QsrTokenStandard
			am = amounts(types.QsrTokenStandard)
			b.Amount = am[rng.Intn(len(am))]
			b.Data = definition.ABIPlasma.PackMethodPanic(definition.FuseMethodName, addr)
		}
		res = append(res, b)
	}
	// user receives: of a send that an unconfirmed block ABOVE the stated predecessor receives (not yet received there), of a
	// send received at or below it, of an unreceived one, of one addressed to somebody else
	var above, below, open, foreign []types.Hash
	for _, s := range h.pl.Sends {
		if !s.Confirmed {
			continue
		}
		if s.Block.ToAddress != addr {
			foreign = append(foreign, s.Block.Hash)
		}
		mine := false
		for _, r := range h.pl.ReceivedBy[s.Block.Hash] {
			if r.Address == addr {
				mine = true
				if r.Height > prev.Height {
					above = append(above, s.Block.Hash)
				} else {
					below = append(below, s.Block.Hash)
				}
			}
		}
		if !mine && s.Block.ToAddress == addr {
			open = append(open, s.Block.Hash)
		}
	}
	for _, l := range [][]types.Hash{above, above, below, open, foreign} {
		if len(l) > 0 && rng.Intn(2) == 0 {
			b := mk(nom.BlockTypeUserReceive)
			b.FromBlockHash = l[rng.Intn(len(l))]
			res = append(res, b)
		}
	}
	// fused plasma around what is available at the stated predecessor / at the pool frontier
	if ms := nd.Ch.GetFrontierMomentumStore(); ms != nil {
		avP, e1 := vm.AvailablePlasma(ms, asP)
		avF, e2 := vm.AvailablePlasma(ms, fr)
		if e1 == nil && e2 == nil {
			for _, fp := range []uint64{avP, avP + 1, avF, avF + 1} {
				if rng.Intn(3) != 0 {
					continue
				}
				b := mk(nom.BlockTypeUserSend)
				b.ToAddress, b.TokenStandard, b.Amount = h.actors[rng.Intn(len(h.actors))].Address, types.ZnnTokenStandard, big.NewInt(int64(rng.Intn(50)))
				if rng.Intn(3) == 0 && len(open) > 0 {
					b = mk(nom.BlockTypeUserReceive)
					b.FromBlockHash = open[rng.Intn(len(open))]
				}
				forkPlasma[b] = fp
				res = append(res, b)
			}
		}
	}
	return res, forkPlasma
}

// insertFork: what the pool does with an accepted block whose stated predecessor lies below the pool frontier.
// ORACLE c03-fork-block-inserted-on-stated-predecessor: if the pool takes it, the account's frontier is this block, the
// unconfirmed blocks above the stated predecessor are gone, and balances / chain plasma / received markers are those at
// the stated predecessor changed by exactly this block; if the pool refuses it by priority, nothing changes.
func (h *hist) insertFork(fc forkCand) {
	nd, b := h.nd, fc.b
	addr := b.Address
	asP := nd.Ch.GetAccountStore(addr, fc.prev)
	if asP == nil {
		return
	}
	balP, _ := asP.GetBalanceMap()
	plasmaP, _ := asP.GetChainPlasma()
	before := nd.Ch.GetFrontierAccountStore(addr).Identifier()
	popped := nd.Ch.GetUncommittedAccountBlocksByAddress(addr)
	markedP := map[types.Hash]bool{}
	for _, pb := range popped {
		if pb.IsReceiveBlock() {
			markedP[pb.FromBlockHash] = asP.IsReceived(pb.FromBlockHash)
		}
	}
	// the very block that already sits at that height (a receive is determined by its fields): the pool keeps what it has
	there := false
	if tb, _ := nd.Ch.GetFrontierAccountStore(addr).ByHeight(b.Height); tb != nil && tb.Identifier() == b.Identifier() {
		there = true
	}
	cp := clone(b)
	tx, err := nd.Apply(cp)
	if err != nil || tx == nil {
		h.out.Count("c03:fork-insert:not-accepted-again")
		return
	}
	force := h.rng.Intn(2) == 0
	ins := nd.Ch.AcquireInsert("zharness-fork")
	if force {
		err = nd.Ch.ForceAddAccountBlockTransaction(ins, tx)
	} else {
		err = nd.Ch.AddAccountBlockTransaction(ins, tx)
	}
	ins.Unlock()
	after := nd.Ch.GetFrontierAccountStore(addr)
	o := func(ok bool, detail string) {
		h.out.Oracle(ok, "c03-fork-block-inserted-on-stated-predecessor", M{"block": fmt.Sprint(b.Header()), "type": b.BlockType,
			"stated-predecessor": fmt.Sprint(fc.prev), "pool-frontier-before": fmt.Sprint(before), "forced": force, "detail": detail})
	}
	if err != nil {
		if !force && (err == chain.ErrPlasmaRatioIsWorse || err == chain.ErrHashTieBreak) {
			h.out.Count("c03:fork-insert:refused-by-priority")
			o(after.Identifier() == before, "refused by priority but the pool frontier moved to "+fmt.Sprint(after.Identifier()))
			return
		}
		h.out.Count("c03:fork-insert:failed:" + err.Error())
		return
	}
	if there {
		h.out.Count("c03:fork-insert:already-there")
		o(after.Identifier() == before, "the block was already in the pool but the pool frontier moved to "+fmt.Sprint(after.Identifier()))
		return
	}
	h.out.Count("c03:fork-insert:inserted")
	want := map[types.ZenonTokenStandard]*big.Int{}
	for z, v := range balP {
		want[z] = new(big.Int).Set(v)
	}
	adj := func(z types.ZenonTokenStandard, d *big.Int) {
		if want[z] == nil {
			want[z] = new(big.Int)
		}
		want[z].Add(want[z], d)
	}
	if b.IsSendBlock() {
		adj(b.TokenStandard, new(big.Int).Neg(b.Amount))
	} else if sb, _ := nd.Ch.GetFrontierMomentumStore().GetAccountBlockByHash(b.FromBlockHash); sb != nil {
		adj(sb.TokenStandard, sb.Amount)
	}
	got, _ := after.GetBalanceMap()
	var zs []types.ZenonTokenStandard
	seen := map[types.ZenonTokenStandard]bool{}
	for z := range want {
		zs, seen[z] = append(zs, z), true
	}
	for z := range got {
		if !seen[z] {
			zs = append(zs, z)
		}
	}
	sort.Slice(zs, func(i, j int) bool { return zs[i].String() < zs[j].String() })
	var bad []string
	for _, z := range zs {
		w, g := want[z], got[z]
		if w == nil {
			w = new(big.Int)
		}
		if g == nil {
			g = new(big.Int)
		}
		if w.Cmp(g) != 0 {
			bad = append(bad, fmt.Sprintf("balance of %v is %v, at the stated predecessor %v -> expected %v", z, g, balP[z], w))
		}
	}
	if after.Identifier() != b.Identifier() {
		bad = append(bad, fmt.Sprintf("the account frontier is %v", after.Identifier()))
	}
	plasmaA, _ := after.GetChainPlasma()
	if plasmaA.Cmp(new(big.Int).Add(plasmaP, new(big.Int).SetUint64(b.FusedPlasma))) != 0 {
		bad = append(bad, fmt.Sprintf("chain plasma %v, at the stated predecessor %v + %d fused", plasmaA, plasmaP, b.FusedPlasma))
	}
	for from, was := range markedP {
		wantM := was || (b.IsReceiveBlock() && b.FromBlockHash == from)
		if after.IsReceived(from) != wantM {
			bad = append(bad, fmt.Sprintf("received marker of %v is %v, expected %v", from, !wantM, wantM))
		}
	}
	if b.IsReceiveBlock() && !after.IsReceived(b.FromBlockHash) {
		bad = append(bad, "the received send is not marked")
	}
	o(len(bad) == 0, fmt.Sprint(bad))
}
