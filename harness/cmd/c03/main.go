package main

// C03 harness: on ledger states reached by random histories of a real in-process node, valid candidate blocks of every
// type and single / double field mutations of them (raw, and re-hashed + re-signed) go through vm.Supervisor.ApplyBlock.
//   c03_apply case: (what the node knows for this candidate, read through the public store API; the candidate) -> verdict
//                   class by sentinel identity
//   ORACLE (independent of the model): every ACCEPTED candidate is checked against the clauses of the property with
//                   fresh computations (ComputeHash, ed25519, address of the key, scan of the account chain, momentum
//                   lookup by height, balance, regeneration of contract receives)
import (
	"bytes"
	"crypto/ed25519"
	"errors"
	"fmt"
	"math/big"
	"math/rand"
	"os"
	"runtime/debug"
	"strings"
	"time"
	. "zharness/hz"

	"github.com/zenon-network/go-zenon/chain/nom"
	"github.com/zenon-network/go-zenon/common/types"
	"github.com/zenon-network/go-zenon/pow"
	"github.com/zenon-network/go-zenon/verifier"
	"github.com/zenon-network/go-zenon/vm"
	"github.com/zenon-network/go-zenon/vm/constants"
	"github.com/zenon-network/go-zenon/vm/embedded/definition"
	"github.com/zenon-network/go-zenon/wallet"
)

func main() { Main(map[string]Runner{"cands": runCands}) }

func runCands(rng *rand.Rand, n int, out *Out, _ []string) {
	legacyNonSendReproducer(rng, out)
	for i := 0; i < n; i++ {
		if i == 1 {
			manyDescendantsHistory(rng, out)
		}
		history(rng, out, i)
	}
}

// the known finding c03-legacy-receive-references-non-send-block, reproduced in every run on a node below the enforcement
// height: user 2 receives a send, the receive is confirmed, then user 2 "receives" that receive block; the same candidate
// on a node that enforces the receiver rule is refused
func legacyNonSendReproducer(rng *rand.Rand, out *Out) {
	for _, enf := range []uint64{1 << 60, 0} {
		func() {
			nd := NewNodeEnforcedAt(enf)
			defer ResetEnforcement()
			defer nd.Stop()
			h := &hist{nd: nd, rng: rng, out: out, ids: NewIDs(), sc: NewScanner(nd), actors: Actors(), enf: enf}
			a, b := h.actors[0], h.actors[1]
			if !h.traffic(&nom.AccountBlock{BlockType: nom.BlockTypeUserSend, Address: a.Address, ToAddress: b.Address,
				TokenStandard: types.ZnnTokenStandard, Amount: big.NewInt(1000)}, a, "reproducer-send") {
				return
			}
			nd.Momentum()
			send := nd.Ch.GetFrontierAccountStore(a.Address).Identifier()
			if !h.traffic(&nom.AccountBlock{BlockType: nom.BlockTypeUserReceive, Address: b.Address, FromBlockHash: send.Hash}, b, "reproducer-receive") {
				return
			}
			nd.Momentum()
			recv := nd.Ch.GetFrontierAccountStore(b.Address).Identifier()
			cand := &nom.AccountBlock{BlockType: nom.BlockTypeUserReceive, Address: b.Address, FromBlockHash: recv.Hash}
			h.prepare(cand, b)
			code := h.try(cand, "reproducer:receive-of-a-receive-block")
			out.Count(fmt.Sprintf("c03:reproducer:receive-of-a-receive-block:enforcement-height-%d:%s", enf, codeName[code]))
		}()
	}
}

// a contract receive with several descendant blocks: with epochs of 600 s the producers update the liquidity contract
// after ~600 momentums and its receive carries one Mint call per token and epoch
func manyDescendantsHistory(rng *rand.Rand, out *Out) {
	nd := NewNodeEpoch(600 * time.Second)
	defer nd.Stop()
	h := &hist{nd: nd, rng: rng, out: out, ids: NewIDs(), sc: NewScanner(nd), actors: Actors()}
	for i := 0; i < 598; i++ {
		nd.Momentum()
	}
	for i := 0; i < 14; i++ {
		nd.Momentum()
		for _, p := range h.sc.PoolBlocks() {
			if p.BlockType == nom.BlockTypeContractReceive && len(p.DescendantBlocks) >= 2 {
				out.Count("c03:base:contract-receive-with-several-descendants")
				h.candidatesWith(p)
				return
			}
		}
	}
	out.Count("c03:no-receive-with-several-descendants-found")
}

// ---------------------------------------------------------------- verdict classes (coq/theories/Verifier.v)

var sentinels = []struct {
	err  error
	code int64
	name string
}{
	{verifier.ErrABVersionMissing, 1, "VersionMissing"}, {verifier.ErrABVersionInvalid, 2, "VersionInvalid"},
	{verifier.ErrMChainIdentifierMissing, 3, "ChainIdMissing"}, {verifier.ErrMChainIdentifierMismatch, 4, "ChainIdMismatch"},
	{verifier.ErrABTypeInvalidExternal, 5, "TypeInvalidExternal"}, {verifier.ErrABTypeMissing, 6, "TypeMissing"},
	{verifier.ErrABTypeMustNotBeGenesis, 7, "TypeMustNotBeGenesis"}, {verifier.ErrABTypeUnsupported, 8, "TypeUnsupported"},
	{verifier.ErrABTypeMustBeContract, 9, "TypeMustBeContract"}, {verifier.ErrABTypeMustBeUser, 10, "TypeMustBeUser"},
	{verifier.ErrABMHeightMissing, 11, "HeightMissing"}, {verifier.ErrABPrevHeightExists, 12, "PrevHeightExists"},
	{verifier.ErrABPrevHasCementedOnTop, 13, "PrevHasCementedOnTop"}, {verifier.ErrABPrevHashMissing, 14, "PrevHashMissing"},
	{verifier.ErrABPrevHashMustBeZero, 15, "PrevHashMustBeZero"}, {verifier.ErrABAmountNegative, 16, "AmountNegative"},
	{verifier.ErrABAmountTooBig, 17, "AmountTooBig"}, {verifier.ErrABAmountMustBeZero, 18, "AmountMustBeZero"},
	{verifier.ErrABZtsMissing, 19, "ZtsMissing"}, {verifier.ErrABZtsMustBeZero, 20, "ZtsMustBeZero"},
	{verifier.ErrABToAddressMustBeZero, 21, "ToAddressMustBeZero"}, {verifier.ErrABHashMissing, 22, "HashMissing"},
	{verifier.ErrABHashInvalid, 23, "HashInvalid"}, {verifier.ErrABPublicKeyWrongAddress, 24, "PublicKeyWrongAddress"},
	{verifier.ErrABPublicKeyMissing, 25, "PublicKeyMissing"}, {verifier.ErrABPublicKeyMustBeZero, 26, "PublicKeyMustBeZero"},
	{verifier.ErrABSignatureInvalid, 27, "SignatureInvalid"}, {verifier.ErrABSignatureMissing, 28, "SignatureMissing"},
	{verifier.ErrABSignatureMustBeZero, 29, "SignatureMustBeZero"}, {verifier.ErrABPoWInvalid, 30, "PoWInvalid"},
	{verifier.ErrABDescendantMustBeZero, 31, "DescendantMustBeZero"}, {verifier.ErrABDescendantVerify, 32, "DescendantVerify"},
	{verifier.ErrABPreviousMissing, 33, "PreviousMissing"}, {verifier.ErrABMAGap, 34, "MAGap"},
	{verifier.ErrABMAMustBeTheSame, 35, "MAMustBeTheSame"}, {verifier.ErrABMAInvalidForAutoGenerated, 36, "MAInvalidForAutoGenerated"},
	{verifier.ErrABMAMissing, 37, "MAMissing"}, {verifier.ErrABMAMustNotBeZero, 38, "MAMustNotBeZero"},
	{verifier.ErrABFromBlockHashMissing, 39, "FromBlockHashMissing"}, {verifier.ErrABFromBlockHashMustBeZero, 40, "FromBlockHashMustBeZero"},
	{verifier.ErrABFromBlockMissing, 41, "FromBlockMissing"}, {verifier.ErrABFromBlockAlreadyReceived, 42, "FromBlockAlreadyReceived"},
	{verifier.ErrABFromBlockReceiverMismatch, 43, "FromBlockReceiverMismatch"},
	{verifier.ErrABSequencerNothing, 44, "SequencerNothing"}, {verifier.ErrABSequencerNotNext, 45, "SequencerNotNext"},
	{verifier.ErrVerifierInternal, 46, "Internal"},
	{constants.ErrNotEnoughPlasma, 50, "NotEnoughPlasma"}, {constants.ErrBlockPlasmaLimitReached, 51, "PlasmaLimit"},
	{constants.ErrNotEnoughTotalPlasma, 52, "NotEnoughTotalPlasma"}, {constants.ErrInsufficientBalance, 53, "InsufficientBalance"},
	{constants.ErrVmRunPanic, 55, "Panic"},
}
var codeName = map[int64]string{0: "accepted", 54: "MethodRefused", 56: "RegenMismatch", 57: "CantApplyContractSend"}

func init() {
	for _, s := range sentinels {
		codeName[s.code] = s.name
	}
}

func verdict(b *nom.AccountBlock, err error) int64 {
	if err == nil {
		return 0
	}
	for _, s := range sentinels {
		if err == s.err || errors.Is(err, s.err) {
			return s.code
		}
	}
	if b.BlockType == nom.BlockTypeContractSend {
		return 57
	}
	if b.IsSendBlock() {
		return 54 // an error of the embedded lookup / ValidateSendBlock
	}
	return 56 // contract receive: generation error or hash / changes-hash mismatch
}

// ---------------------------------------------------------------- extraction of ctx and block

type hist struct {
	nd     *Node
	rng    *rand.Rand
	out    *Out
	ids    *IDs
	sc     *Scanner
	actors []*wallet.KeyPair
	enf    uint64 // verifier.ReceiverMismatchEnforcementHeight of this history
	pl     *Scan  // the ledger (chain + pool) the current candidates are built on
}

func optI(v *int64) M {
	if v == nil {
		return None()
	}
	return Some(I64(*v))
}

func (h *hist) addrID(a types.Address) int64 {
	if a == types.ZeroAddress {
		return 0
	}
	return h.ids.Addr(a)
}
func (h *hist) ztsID(z types.ZenonTokenStandard) int64 { return h.ids.Zts(z) }

func amountTerm(a *big.Int) M {
	if a == nil {
		return None()
	}
	return Some(Big(a))
}

func (h *hist) descTerm(d *nom.AccountBlock) M {
	return Con("mkD", I64(h.ids.Hash(d.Hash)), I64(h.ids.Hash(d.ComputeHash())), U64(d.Version), U64(d.ChainIdentifier), U64(d.BlockType), types.IsEmbeddedAddress(d.Address),
		U64(d.Height), I64(h.ids.Hash(d.PreviousHash)), I64(h.ids.Hash(d.MomentumAcknowledged.Hash)), U64(d.MomentumAcknowledged.Height),
		amountTerm(d.Amount), I64(h.ztsID(d.TokenStandard)), I64(h.addrID(d.ToAddress)), I64(h.ids.Hash(d.FromBlockHash)), U64(d.Difficulty))
}

func sigOK(b *nom.AccountBlock) bool {
	ok, err := wallet.VerifySignature(b.PublicKey, b.Hash.Bytes(), b.Signature)
	return ok && err == nil
}

func (h *hist) blockTerm(b *nom.AccountBlock) M {
	descs := Lst()
	for _, d := range b.DescendantBlocks {
		descs = append(descs, h.descTerm(d))
	}
	return Con("mkV", U64(b.Version), U64(b.ChainIdentifier), U64(b.BlockType),
		I64(h.ids.Hash(b.Hash)), I64(h.ids.Hash(b.ComputeHash())),
		I64(h.ids.Hash(b.PreviousHash)), U64(b.Height),
		I64(h.ids.Hash(b.MomentumAcknowledged.Hash)), U64(b.MomentumAcknowledged.Height),
		I64(h.addrID(b.Address)), I64(h.addrID(b.ToAddress)), amountTerm(b.Amount), I64(h.ztsID(b.TokenStandard)),
		I64(h.ids.Hash(b.FromBlockHash)), descs,
		U64(b.FusedPlasma), U64(b.Difficulty), b.Difficulty != 0 && pow.CheckPoWNonce(b),
		I64(h.ids.Hash(b.ChangesHash)), I64(int64(len(b.PublicKey))), I64(int64(len(b.Signature))), sigOK(b),
		I64(h.addrID(types.PubKeyToAddress(b.PublicKey))))
}

// facts: what the node knows for this candidate, each read through the public store API
type facts struct {
	maKnown, acctStore, prevKnownGlobal, received, methodOK, fromIsSend bool
	globalFrontier, prevMAHeight, fromTo, next                          *int64
	frontierHash, frontierHeight                                        *int64
	fromConf, frontierMomHeight                                         uint64
	fused, committed, uncommitted, balance                              *big.Int
	base                                                                *int64
	regenHash, regenChanges                                             *int64
	regenBlock                                                          *nom.AccountBlock
}

func i64p(v int64) *int64 { return &v }

func (h *hist) facts(b *nom.AccountBlock) (f *facts) {
	f = &facts{fused: new(big.Int), committed: new(big.Int), uncommitted: new(big.Int), balance: new(big.Int)}
	defer func() {
		if r := recover(); r != nil {
			h.out.Count(fmt.Sprintf("c03:facts-panic:%v", r))
			if os.Getenv("C03_DEBUG") != "" {
				debug.PrintStack()
				fmt.Fprintf(os.Stderr, "FACTS-PANIC ma=%v frontier=%v addr=%v type=%d height=%d\n", b.MomentumAcknowledged, h.nd.Ch.GetFrontierMomentumStore().Identifier(), b.Address, b.BlockType, b.Height)
				if ms := h.nd.Ch.GetMomentumStore(b.MomentumAcknowledged); ms != nil {
					fm, err := ms.GetFrontierMomentum()
					fmt.Fprintf(os.Stderr, "  store frontier momentum: %v %v ; identifier %v\n", fm, err, ms.Identifier())
				}
			}
		}
	}()
	nd := h.nd
	x := h.ids
	fms := nd.Ch.GetFrontierMomentumStore()
	f.frontierMomHeight = fms.Identifier().Height
	ms := nd.Ch.GetMomentumStore(b.MomentumAcknowledged)
	if b.MomentumAcknowledged.IsZero() {
		ms = nil // chain.GetMomentumStore(zero) is an empty store; the verifier refuses a zero identifier before asking
	}
	f.maKnown = ms != nil
	global := fms.GetAccountStore(b.Address)
	if gf, err := global.Frontier(); err == nil && gf != nil {
		f.globalFrontier = i64p(int64(gf.Height))
	}
	if pb, err := global.ByHash(b.PreviousHash); err == nil && pb != nil {
		f.prevKnownGlobal = true
	}
	if b.Height == 0 {
		return
	}
	as := nd.Ch.GetAccountStore(b.Address, b.Previous())
	f.acctStore = as != nil
	if as != nil {
		if fr, err := as.Frontier(); err == nil && fr != nil {
			f.frontierHash, f.frontierHeight = i64p(x.Hash(fr.Hash)), i64p(int64(fr.Height))
		}
		if pb, err := as.ByHeight(b.Previous().Height); err == nil && pb != nil {
			f.prevMAHeight = i64p(int64(pb.MomentumAcknowledged.Height))
		}
		f.received = as.IsReceived(b.FromBlockHash)
		if bal, err := as.GetBalance(b.TokenStandard); err == nil {
			f.balance = bal
		}
		if u, err := as.GetChainPlasma(); err == nil {
			f.uncommitted = u
		}
	}
	if ms != nil {
		if sb, err := ms.GetAccountBlockByHash(b.FromBlockHash); err == nil && sb != nil {
			f.fromTo = i64p(h.addrID(sb.ToAddress))
			f.fromIsSend = sb.IsSendBlock()
		}
		f.fromConf, _ = ms.GetBlockConfirmationHeight(b.FromBlockHash)
		if c, err := ms.GetAccountStore(b.Address).GetChainPlasma(); err == nil {
			f.committed = c
		}
		if fa, err := ms.GetStakeBeneficialAmount(b.Address); err == nil && fa != nil {
			f.fused = fa
		}
	}
	if ms != nil && as != nil {
		if types.IsEmbeddedAddress(b.Address) {
			if hd := as.SequencerFront(ms.GetAccountMailbox(b.Address)); hd != nil {
				f.next = i64p(x.Hash(hd.Hash))
			}
		}
		ctx := nd.Context(b)
		if ctx != nil {
			func() {
				defer func() { recover() }()
				cp := b.Copy()
				if base, err := vm.GetBasePlasmaForAccountBlock(ctx, cp); err == nil {
					f.base = i64p(int64(base))
				}
			}()
			f.methodOK = nd.SendValidates(b)
			if b.BlockType == nom.BlockTypeContractReceive && types.IsEmbeddedAddress(b.Address) {
				func() {
					defer func() { recover() }()
					g, err := vm.VerifGenerateEmbeddedReceive(nd.Context(b), b.FromBlockHash)
					if err == nil && g != nil {
						f.regenBlock = g
						f.regenHash, f.regenChanges = i64p(x.Hash(g.ComputeHash())), i64p(x.Hash(g.ChangesHash))
					}
				}()
			}
		}
	}
	return
}

func (h *hist) ctxTerm(f *facts) M {
	fr := None()
	if f.frontierHash != nil {
		fr = Some(Tup(I64(*f.frontierHash), I64(*f.frontierHeight)))
	}
	regen := None()
	if f.regenHash != nil {
		regen = Some(Tup(I64(*f.regenHash), I64(*f.regenChanges)))
	}
	return Con("mkC", U64(h.nd.Ch.ChainIdentifier()), f.maKnown, f.acctStore, optI(f.globalFrontier), f.prevKnownGlobal, fr,
		optI(f.prevMAHeight), optI(f.fromTo), f.fromIsSend, U64(f.fromConf), f.received, optI(f.next), U64(f.frontierMomHeight),
		U64(verifier.ReceiverMismatchEnforcementHeight), Big(f.fused), Big(f.committed), Big(f.uncommitted), optI(f.base),
		f.methodOK, Big(f.balance), regen)
}

// ---------------------------------------------------------------- the property's clauses on an accepted block

func (h *hist) validityOracle(b *nom.AccountBlock, f *facts) {
	nd := h.nd
	o := func(ok bool, key string, detail string) {
		h.out.Oracle(ok, key, M{"block": fmt.Sprint(b.Header()), "type": b.BlockType, "detail": detail})
	}
	emb := types.IsEmbeddedAddress(b.Address)
	o(b.ComputeHash() == b.Hash && !b.Hash.IsZero(), "c03-accepted-hash-matches-content", "")
	if emb {
		ok := len(b.PublicKey) == 0 && len(b.Signature) == 0 && b.BlockType == nom.BlockTypeContractReceive
		if ok {
			g, err := vm.VerifGenerateEmbeddedReceive(nd.Context(b), b.FromBlockHash)
			ok = err == nil && g != nil && g.ComputeHash() == b.Hash && g.ChangesHash == b.ChangesHash && sameContent(g, b)
		}
		o(ok, "c03-accepted-contract-block-reproduced", "")
	} else {
		ok := len(b.PublicKey) == ed25519.PublicKeySize && ed25519.Verify(b.PublicKey, b.Hash.Bytes(), b.Signature) &&
			types.PubKeyToAddress(b.PublicKey) == b.Address
		o(ok, "c03-accepted-signed-by-account-key", "")
		o(b.BlockType == nom.BlockTypeUserSend || b.BlockType == nom.BlockTypeUserReceive, "c03-accepted-type-fits-account", "")
		o(len(b.DescendantBlocks) == 0, "c03-accepted-user-block-without-descendants", "")
	}
	// extends the chain by exactly one height from its stated predecessor
	as := nd.Ch.GetAccountStore(b.Address, b.Previous())
	okChain := as != nil && b.Height >= 1
	if okChain {
		id := as.Identifier()
		first := b
		if len(b.DescendantBlocks) > 0 {
			first = b.DescendantBlocks[0]
		}
		okChain = id.Hash == first.PreviousHash && id.Height+1 == first.Height && (first.Height == 1) == first.PreviousHash.IsZero()
		// the batch is contiguous
		hh, ph := first.Height, first.PreviousHash
		for _, d := range append(append([]*nom.AccountBlock{}, b.DescendantBlocks...), b) {
			if d.Height != hh || d.PreviousHash != ph {
				okChain = false
			}
			hh, ph = d.Height+1, d.Hash
		}
	}
	o(okChain, "c03-accepted-extends-chain-by-one", "")
	// momentum acknowledged is on the node's chain
	fms := nd.Ch.GetFrontierMomentumStore()
	m, err := fms.GetMomentumByHeight(b.MomentumAcknowledged.Height)
	okMA := err == nil && m != nil && m.Hash == b.MomentumAcknowledged.Hash
	if okMA && as != nil {
		if emb {
			ch, _ := fms.GetBlockConfirmationHeight(b.FromBlockHash)
			okMA = ch == b.MomentumAcknowledged.Height
		} else if b.Height > 1 {
			pb, _ := as.ByHeight(b.Height - 1)
			okMA = pb != nil && pb.MomentumAcknowledged.Height <= b.MomentumAcknowledged.Height
		}
	}
	o(okMA, "c03-accepted-momentum-acknowledged", "")
	if b.IsSendBlock() {
		ok := b.Amount != nil && b.Amount.Sign() >= 0 && b.Amount.BitLen() <= 255
		if ok && as != nil && b.TokenStandard != types.ZeroTokenStandard {
			bal, _ := as.GetBalance(b.TokenStandard)
			ok = bal.Cmp(b.Amount) >= 0
		}
		if ok && b.TokenStandard == types.ZeroTokenStandard {
			ok = b.Amount.Sign() == 0
		}
		o(ok, "c03-accepted-amount-within-balance", "")
	} else {
		// references a confirmed, not yet received send addressed to the receiver
		ch, _ := fms.GetBlockConfirmationHeight(b.FromBlockHash)
		sb, _ := fms.GetAccountBlockByHash(b.FromBlockHash)
		ok := sb != nil && ch != 0 && ch <= b.MomentumAcknowledged.Height && sb.IsSendBlock()
		dsend := ""
		if !ok && sb != nil {
			dsend = fmt.Sprintf("references %v of block type %d confirmed at %d, acknowledges %d, enforcement height %d, frontier %d", sb.Header(), sb.BlockType, ch, b.MomentumAcknowledged.Height, h.enf, fms.Identifier().Height)
		}
		if sb != nil && ch != 0 && ch <= b.MomentumAcknowledged.Height && !sb.IsSendBlock() && fms.Identifier().Height < h.enf && !emb {
			// known finding, legacy regime only: fromHash() never asks whether the referenced block is a send block; below the
			// enforcement height the zero ToAddress of a non-send block passes as a tolerated receiver mismatch
			o(false, "c03-legacy-receive-references-non-send-block", dsend)
		} else {
			o(ok, "c03-accepted-receive-of-confirmed-send", dsend)
		}
		if sb != nil && fms.Identifier().Height >= verifier.ReceiverMismatchEnforcementHeight {
			o(sb.ToAddress == b.Address, "c03-accepted-receive-by-addressee", "")
		}
		// not yet received: no earlier block of this account's chain (below the candidate) receives the same send
		dup := false
		if as != nil {
			top := as.Identifier().Height
			for i := uint64(1); i <= top; i++ {
				pb, _ := as.ByHeight(i)
				if pb != nil && pb.IsReceiveBlock() && pb.FromBlockHash == b.FromBlockHash {
					dup = true
				}
			}
		}
		o(!dup, "c03-accepted-receive-not-yet-received", "")
		// a chain that enforces the receiver from its genesis on: no block of any other account, confirmed or
		// unconfirmed, receives the same send (blocks of the same account above the stated predecessor compete for the
		// same position and are replaced)
		if h.enf <= 1 && h.pl != nil {
			var by string
			for _, r := range h.pl.ReceivedBy[b.FromBlockHash] {
				if r.Address != b.Address {
					by = fmt.Sprint(r.Header())
				}
			}
			o(by == "", "c03-accepted-receive-unreceived-ledger-wide", by)
		}
	}
	// plasma (user blocks): what the block fuses, together with what the account's blocks between the acknowledged
	// momentum and the STATED predecessor fused, is covered by the plasma of the QSR fused for the account; PoW + fused
	// plasma reach the base plasma of the block
	if !emb && as != nil {
		okP := false
		var detail string
		if ms := nd.Ch.GetMomentumStore(b.MomentumAcknowledged); ms != nil {
			fusedQsr, _ := ms.GetStakeBeneficialAmount(b.Address)
			have := new(big.Int).SetUint64(vm.FussedAmountToPlasma(fusedQsr))
			spent := new(big.Int).SetUint64(b.FusedPlasma)
			for i := ms.GetAccountStore(b.Address).Identifier().Height + 1; i <= as.Identifier().Height; i++ {
				if pb, _ := as.ByHeight(i); pb != nil {
					spent.Add(spent, new(big.Int).SetUint64(pb.FusedPlasma))
				}
			}
			total := new(big.Int).Add(new(big.Int).SetUint64(vm.DifficultyToPlasma(b.Difficulty)), new(big.Int).SetUint64(b.FusedPlasma))
			base := uint64(0)
			var berr error
			func() {
				defer func() {
					if r := recover(); r != nil {
						berr = fmt.Errorf("%v", r)
					}
				}()
				base, berr = vm.GetBasePlasmaForAccountBlock(nd.Context(b), b.Copy())
			}()
			okP = spent.Cmp(have) <= 0 && berr == nil && total.Cmp(new(big.Int).SetUint64(base)) >= 0 &&
				total.Cmp(new(big.Int).SetUint64(constants.MaxPlasmaForAccountBlock)) <= 0
			detail = fmt.Sprintf("fused since the acknowledged momentum incl. this block %v, plasma of the fused QSR %v, pow+fused %v, base %d (%v)", spent, have, total, base, berr)
		}
		o(okP, "c03-accepted-plasma-covered-at-predecessor", detail)
	}
}

// sameContent: every field that enters the hash, of the block and of each descendant, is equal
func sameContent(a, b *nom.AccountBlock) bool {
	eq := func(x, y *nom.AccountBlock) bool {
		xa, ya := x.Amount, y.Amount
		if xa == nil {
			xa = new(big.Int)
		}
		if ya == nil {
			ya = new(big.Int)
		}
		return x.Version == y.Version && x.ChainIdentifier == y.ChainIdentifier && x.BlockType == y.BlockType &&
			x.PreviousHash == y.PreviousHash && x.Height == y.Height && x.MomentumAcknowledged == y.MomentumAcknowledged &&
			x.Address == y.Address && x.ToAddress == y.ToAddress && xa.Cmp(ya) == 0 && x.TokenStandard == y.TokenStandard &&
			x.FromBlockHash == y.FromBlockHash && bytes.Equal(x.Data, y.Data) && x.FusedPlasma == y.FusedPlasma &&
			x.Difficulty == y.Difficulty && x.Nonce == y.Nonce && len(x.DescendantBlocks) == len(y.DescendantBlocks)
	}
	if !eq(a, b) {
		return false
	}
	for i := range a.DescendantBlocks {
		if !eq(a.DescendantBlocks[i], b.DescendantBlocks[i]) {
			return false
		}
	}
	return true
}

// ---------------------------------------------------------------- candidates

func (h *hist) try(b *nom.AccountBlock, tag string) int64 {
	code, _ := h.tryTx(b, tag)
	return code
}

// tryTx: one candidate through Supervisor.ApplyBlock (no insertion): tie case, and the validity oracle when accepted
func (h *hist) tryTx(b *nom.AccountBlock, tag string) (int64, *nom.AccountBlockTransaction) {
	f := h.facts(b)
	ctx := h.ctxTerm(f)
	blk := h.blockTerm(b)
	cp := b.Copy()
	cp.Hash, cp.ChangesHash, cp.PublicKey = b.Hash, b.ChangesHash, b.PublicKey
	if b.Amount == nil {
		cp.Amount = nil
	}
	tx, err := h.nd.Apply(cp)
	code := verdict(b, err)
	h.out.Case("c03_apply", Tup(ctx, blk), I64(code), tag)
	h.out.Count("c03:verdict:" + codeName[code])
	if code == 0 {
		h.validityOracle(b, f)
	}
	return code, tx
}

func (h *hist) prepare(b *nom.AccountBlock, kp *wallet.KeyPair) {
	h.nd.Fill(b)
	h.nd.SetPlasma(b)
	Sign(b, kp)
}

func typeName(b *nom.AccountBlock) string {
	switch b.BlockType {
	case nom.BlockTypeUserSend:
		if types.IsEmbeddedAddress(b.ToAddress) {
			return "user-call"
		}
		return "user-send"
	case nom.BlockTypeUserReceive:
		return "user-receive"
	case nom.BlockTypeContractSend:
		return "contract-send"
	case nom.BlockTypeContractReceive:
		return "contract-receive"
	case nom.BlockTypeGenesisReceive:
		return "genesis-receive"
	}
	return "other"
}

// history: one node, one regime of the receiver rule. Of four histories two run enforced from genesis (height 0), one
// wholly below the enforcement height, one with the enforcement height in the middle (the switch-over is crossed).
func history(rng *rand.Rand, out *Out, idx int) {
	var enf uint64
	regime := "enforced"
	switch idx % 4 {
	case 2:
		enf, regime = 1<<60, "legacy"
	case 3:
		enf, regime = uint64(3+rng.Intn(8)), "switch-over"
	}
	nd := NewNodeEnforcedAt(enf)
	defer ResetEnforcement()
	defer nd.Stop()
	out.Count("c03:history-regime:" + regime)
	h := &hist{nd: nd, rng: rng, out: out, ids: NewIDs(), sc: NewScanner(nd), actors: Actors(), enf: enf}
	users := []types.Address{}
	for _, kp := range h.actors {
		users = append(users, kp.Address)
	}
	rounds := 3 + rng.Intn(3)
	for r := 0; r < rounds; r++ {
		// advance the ledger: some accepted traffic
		for i := 2 + rng.Intn(5); i > 0; i-- {
			kp := h.actors[rng.Intn(len(h.actors))]
			b := &nom.AccountBlock{BlockType: nom.BlockTypeUserSend, Address: kp.Address}
			if rng.Intn(2) == 0 {
				c := RandomCall(rng, kp.Address, nil, nil, users)
				b.ToAddress, b.TokenStandard, b.Amount, b.Data = c.To, c.Zts, c.Amount, c.Data
			} else {
				b.ToAddress, b.TokenStandard, b.Amount = users[rng.Intn(len(users))], types.ZnnTokenStandard, big.NewInt(int64(1+rng.Intn(100000)))
			}
			h.prepare(b, kp)
			if tx, err := nd.Apply(b); err == nil {
				nd.Insert(tx)
			}
		}
		nd.Momentum()
		if rng.Intn(2) == 0 {
			nd.Momentum()
		}
		// some of the confirmed sends are received (so that 'already received' candidates exist): by the addressee, and
		// by accounts that are not the addressee (accepted below the enforcement height only), some of them twice
		sc := h.sc.Scan(true)
		h.pl = sc
		for _, s := range sc.Sends {
			if !s.Confirmed {
				continue
			}
			if len(sc.ReceivedBy[s.Block.Hash]) == 0 && rng.Intn(3) == 0 {
				if kp := KeyOf(s.Block.ToAddress); kp != nil {
					h.traffic(&nom.AccountBlock{BlockType: nom.BlockTypeUserReceive, Address: kp.Address, FromBlockHash: s.Block.Hash}, kp, "addressee-receive")
				}
			}
			if rng.Intn(5) == 0 {
				kp := h.actors[rng.Intn(len(h.actors))]
				if kp.Address == s.Block.ToAddress {
					continue
				}
				for k := 1 + rng.Intn(3)/2; k > 0; k-- {
					h.traffic(&nom.AccountBlock{BlockType: nom.BlockTypeUserReceive, Address: kp.Address, FromBlockHash: s.Block.Hash}, kp, "other-receive")
				}
			}
		}
		if rng.Intn(3) == 0 {
			nd.Momentum()
		}
		// now and then the chain advances while the pool stays unconfirmed (a producer publishes an empty momentum): the
		// unconfirmed contract receives then acknowledge a momentum BELOW the frontier, and a copy regenerated against a
		// later momentum can be offered (candidates: contract-receive-regenerated-at-other-momentum)
		if rng.Intn(3) == 0 {
			if tx, _, err := BuildNext(nd, FrontierOf(nd.Ch), 10, false); err == nil && AddMomentum(nd.Ch, tx) == nil {
				out.Count("c03:empty-momentum-with-unconfirmed-pool")
			}
		}
		h.deepen()
		h.candidates()
		h.forkCandidates()
	}
}

// traffic: a block of the history itself; it goes through the same comparison and oracle as a candidate and is
// inserted when accepted
func (h *hist) traffic(b *nom.AccountBlock, kp *wallet.KeyPair, what string) bool {
	h.prepare(b, kp)
	code, tx := h.tryTx(b, "traffic:"+what)
	h.out.Count("c03:traffic:" + what + ":" + codeName[code])
	if code != 0 || tx == nil {
		return false
	}
	return h.nd.Insert(tx) == nil
}

// deepen: one or two accounts get a stack of 1-4 unconfirmed blocks, receives (the balance rises) and sends of a
// sizeable part of the balance (it falls), so that earlier positions of the account chain differ from the pool frontier
func (h *hist) deepen() {
	rng, nd := h.rng, h.nd
	sc := h.sc.Scan(true)
	used := map[types.Hash]bool{}
	for k := 1 + rng.Intn(2); k > 0; k-- {
		kp := h.actors[rng.Intn(len(h.actors))]
		for d := 1 + rng.Intn(4); d > 0; d-- {
			var from *nom.AccountBlock
			for _, s := range sc.Sends {
				if s.Confirmed && s.Block.ToAddress == kp.Address && len(sc.ReceivedBy[s.Block.Hash]) == 0 && !used[s.Block.Hash] {
					from = s.Block
					if rng.Intn(2) == 0 {
						break
					}
				}
			}
			if from != nil && rng.Intn(5) < 3 {
				used[from.Hash] = true
				h.traffic(&nom.AccountBlock{BlockType: nom.BlockTypeUserReceive, Address: kp.Address, FromBlockHash: from.Hash}, kp, "stacked-receive")
				continue
			}
			zts := []types.ZenonTokenStandard{types.ZnnTokenStandard, types.ZnnTokenStandard, types.QsrTokenStandard}[rng.Intn(3)]
			bal, _ := nd.Ch.GetFrontierAccountStore(kp.Address).GetBalance(zts)
			amt := new(big.Int).Div(new(big.Int).Mul(bal, big.NewInt(int64(1+rng.Intn(6)))), big.NewInt(10))
			h.traffic(&nom.AccountBlock{BlockType: nom.BlockTypeUserSend, Address: kp.Address, ToAddress: h.actors[rng.Intn(len(h.actors))].Address,
				TokenStandard: zts, Amount: amt}, kp, "stacked-send")
		}
	}
}

// candidates: valid blocks of every type at the current state + mutations
func (h *hist) candidates() { h.candidatesWith(nil) }

func (h *hist) candidatesWith(prefer *nom.AccountBlock) {
	rng := h.rng
	nd := h.nd
	pl := h.sc.Scan(true)
	h.pl = pl
	var bases []*nom.AccountBlock
	var keys []*wallet.KeyPair
	kind := map[*nom.AccountBlock]string{}
	// user send / user call
	for i := 0; i < 2; i++ {
		kp := h.actors[rng.Intn(len(h.actors))]
		b := &nom.AccountBlock{BlockType: nom.BlockTypeUserSend, Address: kp.Address, ToAddress: h.actors[rng.Intn(len(h.actors))].Address,
			TokenStandard: types.ZnnTokenStandard, Amount: big.NewInt(int64(1 + rng.Intn(1000000)))}
		if i == 1 {
			b.ToAddress, b.Data = types.AcceleratorContract, definition.ABICommon.PackMethodPanic(definition.DonateMethodName)
		}
		if rng.Intn(4) == 0 {
			b.Data = append(b.Data[:len(b.Data):len(b.Data)], make([]byte, 0)...)
		}
		h.prepare(b, kp)
		bases, keys = append(bases, b), append(keys, kp)
	}
	// user receive
	for _, s := range pl.Sends {
		if s.Confirmed && !types.IsEmbeddedAddress(s.Block.ToAddress) && len(pl.ReceivedBy[s.Block.Hash]) == 0 {
			if kp := KeyOf(s.Block.ToAddress); kp != nil {
				b := &nom.AccountBlock{BlockType: nom.BlockTypeUserReceive, Address: kp.Address, FromBlockHash: s.Block.Hash}
				h.prepare(b, kp)
				bases, keys = append(bases, b), append(keys, kp)
				if rng.Intn(2) == 0 {
					break
				}
			}
		}
		if len(bases) >= 4 {
			break
		}
	}
	// user receives by an account that is NOT the addressee of the send (users and contracts as addressees): below the
	// enforcement height valid once per receiving account, from it on refused. One by an account that has already
	// received that send as a non-addressee, up to two by random other accounts (send received by nobody / by its
	// addressee / by a third account).
	{
		var again []*nom.AccountBlock
		var conf []*nom.AccountBlock
		for _, s := range pl.Sends {
			if !s.Confirmed {
				continue
			}
			conf = append(conf, s.Block)
			for _, r := range pl.ReceivedBy[s.Block.Hash] {
				if r.Address != s.Block.ToAddress && KeyOf(r.Address) != nil {
					again = append(again, r)
				}
			}
		}
		if len(again) > 0 {
			r := again[rng.Intn(len(again))]
			kp := KeyOf(r.Address)
			b := &nom.AccountBlock{BlockType: nom.BlockTypeUserReceive, Address: kp.Address, FromBlockHash: r.FromBlockHash}
			h.prepare(b, kp)
			bases, keys = append(bases, b), append(keys, kp)
			kind[b] = "user-receive-again-by-non-addressee"
		}
		for k := 0; k < 1 && len(conf) > 0; k++ {
			sb := conf[rng.Intn(len(conf))]
			kp := h.actors[rng.Intn(len(h.actors))]
			if kp.Address == sb.ToAddress {
				continue
			}
			b := &nom.AccountBlock{BlockType: nom.BlockTypeUserReceive, Address: kp.Address, FromBlockHash: sb.Hash}
			h.prepare(b, kp)
			bases, keys = append(bases, b), append(keys, kp)
			kind[b] = "user-receive-by-non-addressee"
		}
	}
	// contract receive (an unconfirmed one generated by the node, re-verified at its own position) and one of its
	// descendant sends as a stand-alone block
	var crecv *nom.AccountBlock
	for _, p := range h.sc.PoolBlocks() {
		if p.BlockType == nom.BlockTypeContractReceive && (crecv == nil || (len(p.DescendantBlocks) > 0 && rng.Intn(2) == 0)) {
			crecv = p
		}
	}
	if prefer != nil {
		crecv = prefer
	}
	if crecv != nil {
		bases, keys = append(bases, crecv.Copy()), append(keys, nil)
		bases[len(bases)-1].Hash, bases[len(bases)-1].ChangesHash = crecv.Hash, crecv.ChangesHash
		if len(crecv.DescendantBlocks) > 0 {
			d := crecv.DescendantBlocks[0].Copy()
			d.Hash = crecv.DescendantBlocks[0].Hash
			bases, keys = append(bases, d), append(keys, nil)
		}
	}
	// the same contract receive regenerated by the VM against OTHER acknowledged momentums (every hash is consistent,
	// no signature is needed): the only acceptable one acknowledges exactly the momentum that confirmed the send
	if crecv != nil {
		fh := FrontierOf(nd.Ch).Height
		for _, mh := range []uint64{crecv.MomentumAcknowledged.Height + 1, fh, crecv.MomentumAcknowledged.Height - 1} {
			m, err := nd.Ch.GetFrontierMomentumStore().GetMomentumByHeight(mh)
			if err != nil || m == nil || mh == crecv.MomentumAcknowledged.Height || mh == 0 {
				continue
			}
			// at the very position of the node's own (unconfirmed) receive: same predecessor, same height
			first := crecv
			if len(crecv.DescendantBlocks) > 0 {
				first = crecv.DescendantBlocks[0]
			}
			t := &nom.AccountBlock{BlockType: nom.BlockTypeContractReceive, Address: crecv.Address, FromBlockHash: crecv.FromBlockHash,
				MomentumAcknowledged: m.Identifier(), PreviousHash: first.PreviousHash, Height: first.Height}
			nd.Fill(t)
			func() {
				defer func() { _ = recover() }()
				if g, err := vm.VerifGenerateEmbeddedReceive(nd.Context(t), crecv.FromBlockHash); err == nil && g != nil {
					bases, keys = append(bases, g), append(keys, nil)
					kind[g] = "contract-receive-regenerated-at-other-momentum"
				}
			}()
		}
	}
	// a contract receive at the frontier of a contract whose queue is empty (nothing next in line)
	if crecv != nil {
		b := &nom.AccountBlock{BlockType: nom.BlockTypeContractReceive, Address: crecv.Address, FromBlockHash: crecv.FromBlockHash,
			MomentumAcknowledged: crecv.MomentumAcknowledged}
		nd.Fill(b)
		b.Hash = b.ComputeHash()
		bases, keys = append(bases, b), append(keys, nil)
	}
	// a genesis-type block
	{
		kp := h.actors[rng.Intn(len(h.actors))]
		b := &nom.AccountBlock{BlockType: nom.BlockTypeGenesisReceive, Address: kp.Address}
		h.prepare(b, kp)
		bases, keys = append(bases, b), append(keys, kp)
	}
	for i, base := range bases {
		tn := typeName(base)
		nm := 10
		if k := kind[base]; k != "" {
			tn, nm = k, 4
		}
		code := h.try(base, tn+":unmutated")
		h.out.Count("c03:base:" + tn + ":" + codeName[code])
		if tn == "contract-send" || tn == "genesis-receive" {
			nm = 3
		}
		if tn == "contract-receive" {
			nm = 24
			if len(base.DescendantBlocks) >= 2 {
				nm = 120
			}
		}
		for k := 0; k < nm; k++ {
			m := clone(base)
			var name string
			if nd2 := len(m.DescendantBlocks); nd2 >= 2 && k < 16 {
				i, j := rng.Intn(nd2), rng.Intn(nd2)
				for j == i {
					j = rng.Intn(nd2)
				}
				m.DescendantBlocks[i], m.DescendantBlocks[j] = m.DescendantBlocks[j], m.DescendantBlocks[i]
				name = "DescendantBlocksOrder"
			} else {
				name = h.mutate(m, pl)
			}
			variant := "raw"
			if rng.Intn(3) == 0 { // double mutation
				name += "+" + h.mutate(m, pl)
				variant = "double-raw"
			}
			if rng.Intn(2) == 0 && name != "Hash" && name != "Signature" && name != "PublicKey" && name != "SignedByOtherKey" && name != "DescendantContent" {
				h.resign(m, keys[i])
				variant = "resigned"
			}
			code := h.try(m, tn+":"+variant)
			res := "rejected"
			if code == 0 {
				res = "accepted-and-valid"
			}
			for _, nmf := range strings.Split(name, "+") {
				h.out.Count("c03:mutated-field:" + nmf)
			}
			if !strings.Contains(name, "+") {
				h.out.Count("c03:single-field:" + name + ":" + res)
			}
		}
	}
	_ = nd
}

func clone(b *nom.AccountBlock) *nom.AccountBlock {
	c := b.Copy()
	c.Hash, c.ChangesHash = b.Hash, b.ChangesHash
	c.PublicKey = append(ed25519.PublicKey{}, b.PublicKey...)
	if len(b.PublicKey) == 0 {
		c.PublicKey = nil
	}
	if b.Amount == nil {
		c.Amount = nil
	}
	for i, d := range b.DescendantBlocks {
		c.DescendantBlocks[i].Hash = d.Hash
	}
	return c
}

func (h *hist) resign(b *nom.AccountBlock, kp *wallet.KeyPair) {
	if kp == nil || types.IsEmbeddedAddress(b.Address) {
		b.Hash = b.ComputeHash()
		return
	}
	if k := KeyOf(b.Address); k != nil && h.rng.Intn(3) != 0 {
		kp = k
	}
	Sign(b, kp)
}

func flip(hh types.Hash, rng *rand.Rand) types.Hash {
	hh[rng.Intn(len(hh))] ^= byte(1 << uint(rng.Intn(8)))
	return hh
}

// mutate changes one field; returns its name
func (h *hist) mutate(b *nom.AccountBlock, pl *Scan) string {
	rng := h.rng
	nd := h.nd
	other := h.actors[rng.Intn(len(h.actors))]
	randHash := func() types.Hash { var x types.Hash; rng.Read(x[:]); return x }
	someSend := func(pred func(s SendRec) bool) types.Hash {
		var c []types.Hash
		for _, s := range pl.Sends {
			if pred(s) {
				c = append(c, s.Block.Hash)
			}
		}
		if len(c) == 0 {
			return randHash()
		}
		return c[rng.Intn(len(c))]
	}
	u64s := func(v uint64) uint64 {
		return []uint64{0, 1, v + 1, v - 1, ^uint64(0), 2, v + uint64(rng.Intn(5))}[rng.Intn(7)]
	}
	switch rng.Intn(27) {
	case 24: // the order of the descendant blocks
		if len(b.DescendantBlocks) >= 2 {
			i := rng.Intn(len(b.DescendantBlocks) - 1)
			b.DescendantBlocks[i], b.DescendantBlocks[i+1] = b.DescendantBlocks[i+1], b.DescendantBlocks[i]
			return "DescendantBlocksOrder"
		}
		fallthrough
	case 25: // not covered by the hash, recomputed by the vm
		b.BasePlasma = []uint64{0, 1, b.BasePlasma + 1, ^uint64(0)}[rng.Intn(4)]
		return "BasePlasma"
	case 26:
		b.TotalPlasma = []uint64{0, 1, b.TotalPlasma + 1, ^uint64(0)}[rng.Intn(4)]
		return "TotalPlasma"
	case 21: // signed correctly, but by the key of another account
		if !types.IsEmbeddedAddress(b.Address) {
			b.PublicKey = other.Public
			b.Signature = other.Sign(b.Hash.Bytes())
			return "SignedByOtherKey"
		}
		fallthrough
	case 22: // a descendant with other content under its old hash (the parent's hash does not change)
		if len(b.DescendantBlocks) > 0 {
			d := b.DescendantBlocks[rng.Intn(len(b.DescendantBlocks))]
			switch rng.Intn(3) {
			case 0:
				d.Amount = new(big.Int).Add(d.Amount, big.NewInt(int64(1+rng.Intn(7777))))
			case 1:
				d.ToAddress = other.Address
			default:
				d.TokenStandard = types.QsrTokenStandard
				if rng.Intn(2) == 0 {
					d.Data = []byte{1, 2, 3}
				}
			}
			return "DescendantContent"
		}
		fallthrough
	case 23: // a send that this very account has already received (as its addressee or, below the enforcement height, not)
		if b.IsReceiveBlock() {
			b.FromBlockHash = someSend(func(s SendRec) bool {
				for _, r := range pl.ReceivedBy[s.Block.Hash] {
					if r.Address == b.Address {
						return true
					}
				}
				return false
			})
			return "FromBlockHash"
		}
		fallthrough
	case 0:
		b.Version = []uint64{0, 2, ^uint64(0)}[rng.Intn(3)]
		return "Version"
	case 1:
		b.ChainIdentifier = []uint64{0, 1, b.ChainIdentifier + 1, ^uint64(0)}[rng.Intn(4)]
		return "ChainIdentifier"
	case 2:
		b.BlockType = []uint64{0, 1, 2, 3, 4, 5, 6, ^uint64(0)}[rng.Intn(8)]
		return "BlockType"
	case 3:
		b.Hash = []types.Hash{types.ZeroHash, flip(b.Hash, rng), b.PreviousHash, randHash()}[rng.Intn(4)]
		return "Hash"
	case 4:
		fr := nd.Ch.GetFrontierAccountStore(b.Address)
		older := types.ZeroHash
		if top := fr.Identifier().Height; top > 1 {
			if ob, _ := fr.ByHeight(1 + uint64(rng.Intn(int(top)))); ob != nil {
				older = ob.Hash
			}
		}
		b.PreviousHash = []types.Hash{types.ZeroHash, flip(b.PreviousHash, rng), older, nd.Ch.GetFrontierAccountStore(other.Address).Identifier().Hash}[rng.Intn(4)]
		return "PreviousHash"
	case 5:
		b.Height = u64s(b.Height)
		return "Height"
	case 6:
		fms := nd.Ch.GetFrontierMomentumStore()
		switch rng.Intn(5) {
		case 0:
			b.MomentumAcknowledged = types.ZeroHashHeight
		case 1:
			if m, _ := fms.GetMomentumByHeight(1 + uint64(rng.Intn(int(fms.Identifier().Height)))); m != nil {
				b.MomentumAcknowledged = m.Identifier()
			}
		case 2:
			b.MomentumAcknowledged.Hash = flip(b.MomentumAcknowledged.Hash, rng)
		case 3:
			b.MomentumAcknowledged.Height = u64s(b.MomentumAcknowledged.Height)
		default:
			b.MomentumAcknowledged = types.HashHeight{Hash: randHash(), Height: fms.Identifier().Height + 1}
		}
		return "MomentumAcknowledged"
	case 7:
		b.Address = []types.Address{other.Address, types.PillarContract, types.TokenContract, types.ZeroAddress, b.ToAddress}[rng.Intn(5)]
		return "Address"
	case 8:
		var ra types.Address
		rng.Read(ra[:])
		b.ToAddress = []types.Address{types.ZeroAddress, other.Address, types.AcceleratorContract, ra, b.Address}[rng.Intn(5)]
		return "ToAddress"
	case 9:
		bal := big.NewInt(0)
		if as := nd.Ch.GetFrontierAccountStore(b.Address); as != nil {
			bal, _ = as.GetBalance(b.TokenStandard)
		}
		cur := b.Amount
		if cur == nil {
			cur = big.NewInt(0)
		}
		b.Amount = []*big.Int{nil, big.NewInt(0), big.NewInt(-1), new(big.Int).Add(cur, big.NewInt(1)), new(big.Int).Add(bal, big.NewInt(1)),
			new(big.Int).Set(bal), new(big.Int).Lsh(big.NewInt(1), 255), new(big.Int).Sub(new(big.Int).Lsh(big.NewInt(1), 255), big.NewInt(1)),
			new(big.Int).Lsh(big.NewInt(1), 256), new(big.Int).Neg(cur)}[rng.Intn(10)]
		return "Amount"
	case 10:
		var rz types.ZenonTokenStandard
		rng.Read(rz[:])
		b.TokenStandard = []types.ZenonTokenStandard{types.ZeroTokenStandard, types.QsrTokenStandard, types.ZnnTokenStandard, rz}[rng.Intn(4)]
		return "TokenStandard"
	case 11:
		b.FromBlockHash = []types.Hash{types.ZeroHash, randHash(), flip(b.FromBlockHash, rng),
			someSend(func(s SendRec) bool { return s.Confirmed && s.Block.ToAddress == b.Address }),
			someSend(func(s SendRec) bool { return s.Confirmed && s.Block.ToAddress != b.Address }),
			someSend(func(s SendRec) bool { return len(pl.ReceivedBy[s.Block.Hash]) > 0 }),
			someSend(func(s SendRec) bool { return !s.Confirmed }), b.PreviousHash}[rng.Intn(8)]
		return "FromBlockHash"
	case 12:
		if len(b.DescendantBlocks) > 0 && rng.Intn(2) == 0 {
			if rng.Intn(2) == 0 {
				b.DescendantBlocks = b.DescendantBlocks[:len(b.DescendantBlocks)-1]
			} else {
				d := b.DescendantBlocks[0]
				switch rng.Intn(4) {
				case 0:
					d.Amount = new(big.Int).Add(d.Amount, big.NewInt(1))
				case 1:
					d.ToAddress = other.Address
				case 2:
					d.MomentumAcknowledged.Height++
				default:
					d.Version = 0
				}
			}
		} else {
			d := &nom.AccountBlock{Version: 1, ChainIdentifier: b.ChainIdentifier, BlockType: nom.BlockTypeContractSend, Address: b.Address,
				ToAddress: other.Address, Amount: big.NewInt(int64(rng.Intn(3))), TokenStandard: types.ZnnTokenStandard,
				MomentumAcknowledged: b.MomentumAcknowledged, PreviousHash: b.PreviousHash, Height: b.Height}
			if rng.Intn(2) == 0 {
				d.Address, d.BlockType = types.TokenContract, nom.BlockTypeContractSend
			}
			d.Hash = d.ComputeHash()
			b.DescendantBlocks = append(b.DescendantBlocks, d)
		}
		return "DescendantBlocks"
	case 13:
		b.Data = make([]byte, rng.Intn(80))
		rng.Read(b.Data)
		return "Data"
	case 14:
		b.FusedPlasma = []uint64{0, b.FusedPlasma - 1, b.FusedPlasma + 1, ^uint64(0), constants.MaxPlasmaForAccountBlock, constants.MaxPlasmaForAccountBlock + 1, 1 << 40}[rng.Intn(7)]
		return "FusedPlasma"
	case 15:
		b.Difficulty = []uint64{1, 1000, ^uint64(0), 1 << 63}[rng.Intn(4)]
		if rng.Intn(3) == 0 {
			b.Difficulty = uint64(1 + rng.Intn(3000))
			nonce := pow.GetPoWNonce(new(big.Int).SetUint64(b.Difficulty), pow.GetAccountBlockHash(b))
			b.Nonce = nom.DeSerializeNonce(nonce)
		}
		return "Difficulty"
	case 16:
		rng.Read(b.Nonce.Data[:])
		return "Nonce"
	case 17:
		b.ChangesHash = []types.Hash{types.ZeroHash, randHash(), flip(b.ChangesHash, rng), b.Hash}[rng.Intn(4)]
		return "ChangesHash"
	case 18:
		rk := make([]byte, 32)
		rng.Read(rk)
		b.PublicKey = [][]byte{nil, other.Public, rk, rk[:16], bytes.Repeat([]byte{0}, 32)}[rng.Intn(5)]
		return "PublicKey"
	case 19:
		sig := append([]byte{}, b.Signature...)
		if len(sig) > 0 {
			sig[rng.Intn(len(sig))] ^= 1
		}
		b.Signature = [][]byte{nil, sig, other.Sign(b.Hash.Bytes()), make([]byte, 64), make([]byte, 10)}[rng.Intn(5)]
		return "Signature"
	default: // swap sibling fields
		switch rng.Intn(3) {
		case 0:
			b.Address, b.ToAddress = b.ToAddress, b.Address
			return "swap:Address/ToAddress"
		case 1:
			b.PreviousHash, b.FromBlockHash = b.FromBlockHash, b.PreviousHash
			return "swap:PreviousHash/FromBlockHash"
		default:
			b.Hash, b.ChangesHash = b.ChangesHash, b.Hash
			return "swap:Hash/ChangesHash"
		}
	}
}
