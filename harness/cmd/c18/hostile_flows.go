package main

// Subscription life cycle on the stream transports with hostile variations: subscribe (single, inside a batch, as
// a notification), notifications after a momentum, unsubscribe (wrong id, twice, through another namespace, wrong
// types), responses / subscription notifications sent by the client, connections dropped with live subscriptions.

import (
	"bytes"
	"encoding/json"
	"fmt"
	"net"
	"strings"
	"time"

	. "zharness/hz"
)

type streamConn interface {
	send(b []byte) error
	recv(d time.Duration) (json.RawMessage, error)
	close()
}

type ipcConn struct {
	c   net.Conn
	dec *json.Decoder
}

func (i *ipcConn) send(b []byte) error {
	i.c.SetWriteDeadline(time.Now().Add(20 * time.Second))
	_, err := i.c.Write(append(b, '\n'))
	return err
}
func (i *ipcConn) recv(d time.Duration) (json.RawMessage, error) {
	i.c.SetReadDeadline(time.Now().Add(d))
	var raw json.RawMessage
	err := i.dec.Decode(&raw)
	return raw, err
}
func (i *ipcConn) close() { i.c.Close() }

type wsConn struct{ c *rawWS }

func (w *wsConn) send(b []byte) error {
	w.c.c.SetWriteDeadline(time.Now().Add(20 * time.Second))
	return w.c.writeText(b)
}
func (w *wsConn) recv(d time.Duration) (json.RawMessage, error) {
	w.c.c.SetReadDeadline(time.Now().Add(d))
	return w.c.readMessage()
}
func (w *wsConn) close() { w.c.close() }

func (h *hostileRun) dialStream(transport string) (streamConn, error) {
	if transport == "ipc" {
		c, err := net.Dial("unix", h.c.info.IPC)
		if err != nil {
			return nil, err
		}
		d := json.NewDecoder(c)
		d.UseNumber()
		return &ipcConn{c, d}, nil
	}
	c, err := dialWS(h.c.info.WS)
	if err != nil {
		return nil, err
	}
	return &wsConn{c}, nil
}

// reads until a reply document (not a notification) arrives; notifications are collected
func recvReply(c streamConn, notes *[]json.RawMessage) (replyDoc, bool) {
	for {
		raw, err := c.recv(15 * time.Second)
		if err != nil {
			return replyDoc{}, false
		}
		docs, ns, well := parseReplyDocs(raw)
		*notes = append(*notes, ns...)
		if len(docs) == 1 && well {
			return docs[0], true
		}
		if len(docs) > 0 {
			return replyDoc{}, false
		}
	}
}

func (h *hostileRun) flow(transport string) {
	out := h.out
	g := h.g
	fail := func(step string, detail ...interface{}) {
		out.Oracle(false, "subscription-flow-answers", Tup(append([]interface{}{transport, step}, detail...)...))
	}
	c, err := h.dialStream(transport)
	if err != nil {
		fail("dial", err.Error())
		return
	}
	var notes []json.RawMessage
	call := func(text string) (replyDoc, bool) {
		if err := c.send([]byte(text)); err != nil {
			return replyDoc{}, false
		}
		return recvReply(c, &notes)
	}
	subID := func(r reply) string {
		var s string
		json.Unmarshal(r.result, &s)
		return s
	}
	// 1. a subscription
	d, ok := call(`{"jsonrpc":"2.0","id":1,"method":"ledger.subscribe","params":["momentums"]}`)
	if !ok || d.batch || d.replies[0].kind != 0 || !strings.HasPrefix(subID(d.replies[0]), "0x") {
		fail("subscribe", fmt.Sprint(d))
		c.close()
		return
	}
	s1 := subID(d.replies[0])
	// 2. two more inside a batch, between a probe call, a hostile element and a subscribe that cannot work
	d, ok = call(`[{"jsonrpc":"2.0","id":2,"method":"ledger.subscribe","params":["allAccountBlocks"]},null,` + g.probeElem("3") +
		`,{"jsonrpc":"2.0","id":4,"method":"ledger.subscribe","params":["accountBlocksByAddress","` + h.c.info.Addresses[0] + `"]},{"jsonrpc":"2.0","id":5,"method":"ledger.subscribe","params":["accountBlocksByAddress",7]},{"jsonrpc":"2.0","id":6,"method":"ledger.subscribe","params":["momentums"]}]`)
	if !ok || !d.batch || len(d.replies) != 6 || d.replies[0].kind != 0 || d.replies[1].kind != -32600 || d.replies[2].kind != 0 || d.replies[3].kind != 0 || d.replies[4].kind != -32602 || d.replies[5].kind != 0 {
		fail("subscribe-in-batch", fmt.Sprint(d))
		c.close()
		return
	}
	s2, s6 := subID(d.replies[0]), subID(d.replies[5])
	// 3. a subscribe without id is a notification: it is executed, nothing is answered
	c.send([]byte(`{"jsonrpc":"2.0","method":"ledger.subscribe","params":["momentums"]}`))
	c.send([]byte(`{"jsonrpc":"2.0","method":"ledger.subscription","params":{"subscription":"` + s1 + `","result":[{"hash":"00","height":1}]}}`))
	c.send([]byte(`{"jsonrpc":"2.0","id":1,"result":"0x5"}`))
	// 4. a momentum: every momentum subscription of this connection is notified (s1, s6 and the anonymous one)
	if !h.c.momentum() {
		fail("momentum")
		c.close()
		return
	}
	deadline := time.Now().Add(10 * time.Second)
	seen := map[string]int{}
	count := func() {
		for _, n := range notes {
			var m struct {
				Method string `json:"method"`
				Params struct {
					Subscription string          `json:"subscription"`
					Result       json.RawMessage `json:"result"`
				} `json:"params"`
			}
			if json.Unmarshal(n, &m) == nil && m.Method == "ledger.subscription" {
				seen[m.Params.Subscription]++
			}
		}
		notes = nil
	}
	for count(); (seen[s1] == 0 || seen[s6] == 0) && time.Now().Before(deadline); count() {
		raw, err := c.recv(time.Until(deadline))
		if err != nil {
			break
		}
		_, ns, _ := parseReplyDocs(raw)
		notes = append(notes, ns...)
	}
	out.Oracle(seen[s1] > 0 && seen[s6] > 0, "subscription-flow-answers", Tup(transport, "notifications", fmt.Sprint(seen)))
	if seen[s1] == 0 || seen[s6] == 0 {
		c.close()
		return
	}
	// 5. unsubscribe: hostile forms first
	steps := []struct {
		text string
		kind int64
	}{
		{`{"jsonrpc":"2.0","id":10,"method":"ledger.unsubscribe","params":["0xdeadbeef"]}`, -32000},
		{`{"jsonrpc":"2.0","id":11,"method":"ledger.unsubscribe","params":[7]}`, -32602},
		{`{"jsonrpc":"2.0","id":12,"method":"ledger.unsubscribe","params":[]}`, -32602},
		{`{"jsonrpc":"2.0","id":13,"method":"ledger.unsubscribe","params":["` + s1 + `","x"]}`, -32602},
		{`{"jsonrpc":"2.0","id":14,"method":"ledger.unsubscribe","params":["` + s1 + `"]}`, 0},
		{`{"jsonrpc":"2.0","id":15,"method":"ledger.unsubscribe","params":["` + s1 + `"]}`, -32000},
		{`{"jsonrpc":"2.0","id":16,"method":"nosuch.unsubscribe","params":["` + s2 + `"]}`, 0},
		{`{"jsonrpc":"2.0","id":17,"method":"ledger.unsubscribe","params":null}`, -32602},
	}
	for _, st := range steps {
		d, ok := call(st.text)
		if !ok || d.batch || d.replies[0].kind != st.kind {
			fail("unsubscribe", st.text, fmt.Sprint(d))
			c.close()
			return
		}
	}
	out.Oracle(true, "subscription-flow-answers", nil)
	// 6. another momentum with the remaining subscriptions, then the connection is dropped with live subscriptions
	h.c.momentum()
	switch g.rng.Intn(3) {
	case 0:
		c.send([]byte(`{"jsonrpc":"2.0","id":20,"method":"ledger.subscribe","params":["allAccountBlocks"]}`)) // dropped before the answer is read
	case 1:
		c.send([]byte(`[{"jsonrpc":"2.0","id":21,"method":"ledger.subscribe","params":["momentums"]},{"jsonrpc":"2.0","id":22,"method":"ledger.unsubscribe","params":["` + s6 + `"]}`)) // cut
	}
	c.close()
	h.c.momentum()
	h.c.momentum()
	// 7. subscriptions are refused over http with an error reply
	o := viaHTTP(h.c, []byte(`[{"jsonrpc":"2.0","id":30,"method":"ledger.subscribe","params":["momentums"]},{"jsonrpc":"2.0","id":31,"method":"ledger.unsubscribe","params":["`+s6+`"]}]`), "application/json", "POST")
	docs, _, well := parseReplyDocs(o.body)
	out.Oracle(o.terr == "" && o.status == 200 && well && len(docs) == 1 && len(docs[0].replies) == 2 && docs[0].replies[0].kind == -32000 && docs[0].replies[1].kind == -32000,
		"every-request-gets-a-response-or-clean-close", Tup("http", "subscribe over http", o.terr, clip(o.body)))
}

func (h *hostileRun) flows() {
	for _, t := range []string{"ipc", "ws"} {
		if h.restarts >= 4 {
			return
		}
		h.flow(t)
		if h.alive(t, []byte("subscription flow"), true) {
			h.probeAfter(t, []byte("subscription flow"))
		}
	}
	_ = bytes.MinRead
}
