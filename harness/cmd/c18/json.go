package main

import (
	"bytes"
	"encoding/json"
	"fmt"
	"io"
	"math/rand"
	"net/http"
	"net/http/httptest"
	"strings"
	"time"

	g "github.com/zenon-network/go-zenon/chain/genesis/mock"
	"github.com/zenon-network/go-zenon/chain/nom"
	"github.com/zenon-network/go-zenon/common/types"
	"github.com/zenon-network/go-zenon/rpc"
	"github.com/zenon-network/go-zenon/rpc/api"
	"github.com/zenon-network/go-zenon/rpc/api/embedded"
	rpcs "github.com/zenon-network/go-zenon/rpc/server"
	"github.com/zenon-network/go-zenon/zenon/mock"
	. "zharness/hz"
)

// ---- a block returned as JSON and fed back parses to the same block with the same hash
func runJson(rng *rand.Rand, n int, out *Out, _ []string) {
	for h := 0; h < n; h++ {
		nd := NewNode()
		hs := buildHistory(rng, out, nd)
		ledger := api.NewLedgerApi(nd.Z)
		check := func(b *api.AccountBlock, where string) {
			if b == nil {
				return
			}
			raw, err := json.Marshal(b)
			if err != nil {
				out.Oracle(false, "block-json-roundtrip", Tup(where, "marshal", err.Error()))
				return
			}
			back := new(api.AccountBlock)
			if err := json.Unmarshal(raw, back); err != nil {
				out.Oracle(false, "block-json-roundtrip", Tup(where, "unmarshal", err.Error(), string(raw)))
				return
			}
			lb, err := back.ToLedgerBlock()
			ok := err == nil && lb.ComputeHash() == b.Hash && lb.Hash == b.Hash
			if ok {
				// every field, not only the hashed ones: second marshal is byte-identical
				raw2, _ := json.Marshal(back)
				ok = bytes.Equal(raw, raw2)
			}
			kind := fmt.Sprintf("blocktype=%d", b.BlockType)
			out.Count("json:" + kind)
			out.Oracle(ok, "block-json-roundtrip", Tup(where, b.Hash.String()))
			if b.PairedAccountBlock != nil {
				out.Count("json:paired")
			}
			// the ledger block itself (nom.AccountBlock with its descendants) and the texts it is never printed as
			nb := &b.AccountBlock
			if nraw, err := json.Marshal(nb); err == nil {
				roundtrip(out, nb, nraw, "ledger")
				if rng.Intn(3) == 0 {
					nonCanonical(rng, out, nb, membersOf(nraw))
				}
			} else {
				out.Oracle(false, "json-roundtrip-same-hash", Tup(where, "marshal", err.Error()))
			}
		}
		addrs := []types.Address{g.User1.Address, g.User2.Address, g.User3.Address, types.TokenContract, types.PlasmaContract, types.StakeContract}
		for _, a := range addrs {
			if l, err := ledger.GetAccountBlocksByPage(a, 0, 200); err == nil {
				for _, b := range l.List {
					check(b, "GetAccountBlocksByPage")
					if rng.Intn(4) == 0 {
						bb, _ := ledger.GetAccountBlockByHash(b.Hash)
						check(bb, "GetAccountBlockByHash")
					}
				}
			}
			if l, err := ledger.GetUnconfirmedBlocksByAddress(a, 0, 200); err == nil {
				for _, b := range l.List {
					check(b, "GetUnconfirmedBlocksByAddress")
				}
			}
			if l, err := ledger.GetUnreceivedBlocksByAddress(a, 0, 50); err == nil {
				for _, b := range l.List {
					check(b, "GetUnreceivedBlocksByAddress")
				}
			}
			if b, err := ledger.GetFrontierAccountBlock(a); err == nil {
				check(b, "GetFrontierAccountBlock")
			}
		}
		// momentums: JSON -> parse -> same hash
		if l, err := ledger.GetMomentumsByPage(0, 100); err == nil {
			for _, m := range l.List {
				raw, err := json.Marshal(m)
				back := new(api.Momentum)
				ok := err == nil && json.Unmarshal(raw, back) == nil && back.Momentum != nil && back.Momentum.ComputeHash() == m.Hash
				out.Oracle(ok, "momentum-json-roundtrip", Tup(U64(m.Height)))
			}
		}
		_ = hs
		nd.Stop()
	}
	runJsonText(rng, 12*n, out)
}

// ---- reward / pillar-history pagers need epochs: a node with one-hour epochs, a few hundred momentums
func runRewards(rng *rand.Rand, n int, out *Out, _ []string) {
	t := &FakeT{}
	z := mock.NewMockZenonWithCustomEpochDuration(t, time.Hour)
	Quiet()
	defer func() { z.StopPanic(); t.Cleanup() }()
	z.InsertMomentumsTo(uint64(60*6*(n+2) + 20))
	pillar := embedded.NewPillarApi(z, true)
	sentinel := embedded.NewSentinelApi(z)
	stake := embedded.NewStakeApi(z)
	first, err := pillar.GetFrontierRewardByPage(g.Pillar1.Address, 0, 1)
	if err != nil {
		out.Oracle(false, "list-readable", Tup("reward", err.Error()))
		return
	}
	last := first.Count - 1
	out.Count(fmt.Sprintf("rewards:lastEpoch=%d", last))
	type pager struct {
		name string
		call func(i, s uint32) ([]int64, int64, error)
	}
	pagers := []pager{
		{"pillar.GetFrontierRewardByPage", func(i, s uint32) ([]int64, int64, error) {
			r, err := pillar.GetFrontierRewardByPage(g.Pillar1.Address, i, s)
			if err != nil {
				return nil, 0, err
			}
			var e []int64
			for _, x := range r.List {
				e = append(e, x.Epoch)
			}
			return e, r.Count, nil
		}},
		{"sentinel.GetFrontierRewardByPage", func(i, s uint32) ([]int64, int64, error) {
			r, err := sentinel.GetFrontierRewardByPage(g.User1.Address, i, s)
			if err != nil {
				return nil, 0, err
			}
			var e []int64
			for _, x := range r.List {
				e = append(e, x.Epoch)
			}
			return e, r.Count, nil
		}},
		{"stake.GetFrontierRewardByPage", func(i, s uint32) ([]int64, int64, error) {
			r, err := stake.GetFrontierRewardByPage(g.User1.Address, i, s)
			if err != nil {
				return nil, 0, err
			}
			var e []int64
			for _, x := range r.List {
				e = append(e, x.Epoch)
			}
			return e, r.Count, nil
		}},
		{"pillar.GetPillarEpochHistory", func(i, s uint32) ([]int64, int64, error) {
			r, err := pillar.GetPillarEpochHistory(g.Pillar1Name, i, s)
			if err != nil {
				return nil, 0, err
			}
			var e []int64
			for _, x := range r.List {
				e = append(e, int64(x.Epoch))
			}
			return e, r.Count, nil
		}},
	}
	nEp := int(last + 1)
	for _, pg := range pagers {
		for _, size := range sizesFor(rng, nEp) {
			one := func(idx uint32, tag string) ([]int64, bool) {
				e, cnt, err := pg.call(idx, size)
				if err != nil {
					out.Oracle(size > api.RpcMaxPageSize && err == api.ErrPageSizeParamTooBig, "page-size-limit-error-only-above-limit", Tup(pg.name, U64(uint64(size))))
					return nil, false
				}
				l := Lst()
				for _, x := range e {
					l = append(l, I64(x))
				}
				out.Case("epoch_page", Tup(I64(last), U64(uint64(idx)), U64(uint64(size))), l, tag)
				out.Oracle(size <= api.RpcMaxPageSize && uint64(len(e)) <= uint64(size), "reply-within-page-limit", Tup(pg.name, U64(uint64(size)), I64(int64(len(e)))))
				out.Oracle(cnt == last+1, "count-is-total", Tup(pg.name, I64(cnt), I64(last+1)))
				return e, true
			}
			if size == 0 || size > api.RpcMaxPageSize {
				one(bU32(rng), "size0-or-above-limit")
				continue
			}
			pages := (uint64(nEp) + uint64(size) - 1) / uint64(size)
			var cat []int64
			good := true
			for i := uint64(0); i < pages && pages <= 64; i++ {
				e, ok := one(uint32(i), "in-range")
				good = good && ok
				cat = append(cat, e...)
			}
			want := true
			if len(cat) != nEp {
				want = false
			}
			for i := range cat {
				want = want && cat[i] == last-int64(i)
			}
			out.Oracle(good && want, "epoch-pages-concat-descending", Tup(pg.name, I64(last), U64(uint64(size))))
			for _, idx := range farIndices(rng, nEp, size) {
				e, ok := one(idx, "beyond-end")
				if ok {
					out.Oracle(len(e) == 0, "page-beyond-end-empty", Tup(pg.name, I64(last), U64(uint64(idx)), U64(uint64(size)), I64(int64(len(e)))))
				}
			}
		}
	}
}

// ---- JSON-RPC server robustness (exploration): the real rpc/server with the public APIs, fed raw HTTP bodies
func runServer(rng *rand.Rand, n int, out *Out, _ []string) {
	nd := NewNode()
	defer nd.Stop()
	buildHistory(rng, out, nd)
	srv := rpcs.NewServer()
	for _, a := range rpc.GetApis(nd.Z, nil, "ledger", "embedded") {
		if err := srv.RegisterName(a.Namespace, a.Service); err != nil {
			out.Oracle(false, "server-register", Tup(a.Namespace, err.Error()))
		}
	}
	post := func(body []byte, tag string) {
		req := httptest.NewRequest(http.MethodPost, "/", bytes.NewReader(body))
		req.Header.Set("Content-Type", "application/json")
		w := httptest.NewRecorder()
		done := make(chan interface{}, 1)
		go func() {
			defer func() { done <- recover() }()
			srv.ServeHTTP(w, req)
		}()
		select {
		case p := <-done:
			if p != nil {
				out.Oracle(false, "server-survives-request", Tup(tag, fmt.Sprint(p)))
				return
			}
		case <-time.After(20 * time.Second):
			out.Oracle(false, "server-answers-in-time", Tup(tag))
			return
		}
		out.Oracle(true, "server-survives-request", nil)
		res := w.Result()
		rb, _ := io.ReadAll(res.Body)
		class := fmt.Sprintf("http%d", res.StatusCode)
		switch {
		case bytes.Contains(rb, []byte(`"error"`)):
			class += ":error-reply"
		case bytes.Contains(rb, []byte(`"result"`)):
			class += ":result"
		case len(rb) == 0:
			class += ":empty"
		}
		out.Count("server:" + tag + ":" + class)
		out.Oracle(len(rb) <= 64<<20, "server-reply-size", Tup(tag, I64(int64(len(rb)))))
	}
	valid := func(method string, params string) []byte {
		return []byte(fmt.Sprintf(`{"jsonrpc":"2.0","id":%d,"method":"%s","params":%s}`, rng.Intn(1000), method, params))
	}
	methods := []string{"ledger.getFrontierMomentum", "ledger.getMomentumsByPage", "ledger.getAccountBlocksByPage", "ledger.getAccountBlocksByHeight",
		"ledger.getUnconfirmedBlocksByAddress", "ledger.getMomentumsByHeight", "ledger.getAccountBlockByHash", "ledger.publishRawTransaction",
		"embedded.token.getAll", "embedded.pillar.getAll", "embedded.accelerator.getAll", "embedded.plasma.getEntriesByAddress", "embedded.pillar.getByName", "rpc_modules"}
	for i := 0; i < n; i++ {
		m := methods[rng.Intn(len(methods))]
		switch rng.Intn(14) {
		case 0:
			post(valid("ledger.getMomentumsByPage", fmt.Sprintf("[%d,%d]", bU32(rng), bU32(rng))), "valid-paged")
		case 1:
			post(valid("embedded.accelerator.getAll", fmt.Sprintf("[%d,%d]", bU32(rng), bU32(rng))), "valid-paged-nolimit")
		case 2:
			post(valid(m, `[1e400, -1, 18446744073709551616]`), "huge-numbers")
		case 3:
			post(valid(m, `["`+strings.Repeat("z", rng.Intn(200000))+`"]`), "long-string")
		case 4:
			d := 1000 + rng.Intn(200000)
			post([]byte(strings.Repeat("[", d)+strings.Repeat("]", d)), "deep-nesting")
		case 5:
			d := 1000 + rng.Intn(100000)
			post(valid(m, strings.Repeat(`{"a":`, d)+"1"+strings.Repeat("}", d)), "deep-nesting-params")
		case 6:
			b := valid(m, "[]")
			post(b[:rng.Intn(len(b))], "truncated")
		case 7:
			b := make([]byte, rng.Intn(4000))
			rng.Read(b)
			post(b, "random-bytes")
		case 8:
			k := rng.Intn(3000)
			parts := make([]string, k)
			for j := range parts {
				parts[j] = string(valid(methods[rng.Intn(len(methods))], "[]"))
			}
			post([]byte("["+strings.Join(parts, ",")+"]"), "batch")
		case 9:
			post([]byte("[]"), "empty-batch")
		case 10:
			post(valid(m, `[null,null,null,null,null,null]`), "wrong-arity-nulls")
		case 11:
			post(valid(m, `{"x":1}`), "params-object")
		case 12:
			post(bytes.Repeat([]byte("A"), 5*1024*1024+rng.Intn(1000)), "oversized")
		case 13:
			post(valid("ledger.getAccountBlocksByHeight", fmt.Sprintf(`["%s",%d,%d]`, g.User1.Address, BoundaryU64(rng), BoundaryU64(rng)%2000)), "valid-byheight")
		}
	}
	// still alive and answering correctly afterwards
	req := httptest.NewRequest(http.MethodPost, "/", strings.NewReader(`{"jsonrpc":"2.0","id":1,"method":"ledger.getFrontierMomentum","params":[]}`))
	req.Header.Set("Content-Type", "application/json")
	w := httptest.NewRecorder()
	srv.ServeHTTP(w, req)
	rb, _ := io.ReadAll(w.Result().Body)
	var reply struct {
		Result *nom.Momentum `json:"result"`
	}
	ok := json.Unmarshal(rb, &reply) == nil && reply.Result != nil && reply.Result.Height == nd.FrontierHeight()
	out.Oracle(ok, "server-serves-after-bad-input", Tup(string(rb[:min(len(rb), 200)])))
}

func min(a, b int) int {
	if a < b {
		return a
	}
	return b
}
