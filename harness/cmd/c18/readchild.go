package main

// The server side of the `readers` suite: a CHILD process with the real rpc/server (net/http handler, websocket handler,
// unix-socket listener) in front of the public apis of a node whose history is buildRich's. It reads the LEDGER ITSELF -
// account stores block by block, the momentum store height by height, the contract storages through vm/embedded/definition -
// and tells the parent, for every read method of the ledger api and every account / hash / height the history touched,
// what a right answer contains (`readSpec`: the members the answer must have, compared as JSON), and for every paged list
// method of the ledger and embedded apis the complete list in its documented order (`listSpec`). The parent asks the
// real server; a panic while an answer is marshalled (handler.runMethod does that outside callback.call's recover) ends
// THIS process, which the parent observes.
//
//	c18 readchild <seed> <dir>

import (
	"bufio"
	"bytes"
	"encoding/json"
	"fmt"
	"math/rand"
	"net"
	"net/http/httptest"
	"os"
	"path/filepath"
	"sort"
	"strconv"
	"time"

	"github.com/inconshreveable/log15"
	g "github.com/zenon-network/go-zenon/chain/genesis/mock"
	"github.com/zenon-network/go-zenon/chain/nom"
	"github.com/zenon-network/go-zenon/common"
	"github.com/zenon-network/go-zenon/common/types"
	"github.com/zenon-network/go-zenon/rpc"
	"github.com/zenon-network/go-zenon/rpc/api/embedded"
	"github.com/zenon-network/go-zenon/rpc/api/subscribe"
	rpcs "github.com/zenon-network/go-zenon/rpc/server"
	"github.com/zenon-network/go-zenon/vm/embedded/definition"
	. "zharness/hz"
)

// one call with what its answer must contain
type readSpec struct {
	Method string          `json:"m"`
	Params json.RawMessage `json:"p"`
	// every member of Want must be in the result with the same value (objects: member by member; arrays: same length,
	// element by element; scalars: the same JSON text). null = the result is null.
	Want json.RawMessage `json:"w"`
	// members of the result (path of member names, "/"-separated) that are JSON objects used as maps: the keys the answer
	// must have and the keys it may have besides
	MapPath string   `json:"mp,omitempty"`
	MapMust []string `json:"mm,omitempty"`
	MapMay  []string `json:"my,omitempty"`
	// any answer (result or error) is right; only the server's survival is looked at (hashes of pool blocks, ...)
	Any  bool   `json:"a,omitempty"`
	Note string `json:"n,omitempty"`
	// the answer has to show a block that names a token standard the token contract does not know
	Odd bool `json:"o,omitempty"`
}

// one paged list method: Args are the leading arguments, (pageIndex, pageSize) follow
type listSpec struct {
	Method  string            `json:"m"`
	Args    []json.RawMessage `json:"a"`
	Limit   uint32            `json:"l"` // advertised page-size limit; 0 = none
	MaxIdx  uint32            `json:"x"` // page indices from this one on are refused (0 = no such rule)
	ListKey string            `json:"k"` // member of the result that holds the page
	IdKeys  []string          `json:"i"` // members of an element that identify it
	Truth   []string          `json:"t"` // ids of the complete list, read from the stores, in the documented order
	Keys    []string          `json:"o"` // when given: the order is documented only up to equal Keys (parallel to Truth)
	Count   string            `json:"c"` // member that holds the total ("count")
	Elems   []json.RawMessage `json:"e"` // when given: members every element must have (parallel to Truth)
	Note    string            `json:"n"`
	Odd     bool              `json:"d"` // the list holds a block that names a token standard the token contract does not know
}

type readInfo struct {
	HTTP  string         `json:"http"`
	WS    string         `json:"ws"`
	IPC   string         `json:"ipc"`
	Reads []readSpec     `json:"reads"`
	Lists []listSpec     `json:"lists"`
	Notes map[string]int `json:"notes"`
}

func rawJSON(x interface{}) json.RawMessage {
	b, err := json.Marshal(x)
	if err != nil {
		panic(err)
	}
	return b
}
func rawArgs(xs ...interface{}) []json.RawMessage {
	r := []json.RawMessage{}
	for _, x := range xs {
		r = append(r, rawJSON(x))
	}
	return r
}

type expecter struct {
	nd     *Node
	r      *rich
	rng    *rand.Rand
	info   *readInfo
	tokens map[types.ZenonTokenStandard]*definition.TokenInfo // the token table of the confirmed ledger
	confH  map[types.Hash]uint64                              // block hash -> height of the confirming momentum
	recvOf map[types.Hash]*nom.AccountBlock                   // send hash -> confirmed block that receives it
	byHash map[types.Hash]*nom.AccountBlock                   // confirmed blocks (batched contract sends too)
	F      uint64
}

func (e *expecter) read(method string, want interface{}, params ...interface{}) *readSpec {
	if params == nil {
		params = []interface{}{}
	}
	w := rawJSON(want)
	e.info.Reads = append(e.info.Reads, readSpec{Method: method, Params: rawJSON(params), Want: w, Odd: e.namesUndeclared(w)})
	return &e.info.Reads[len(e.info.Reads)-1]
}

// the JSON text names one of the history's token standards the token contract does not know
func (e *expecter) namesUndeclared(w json.RawMessage) bool {
	for _, z := range e.r.oddZts {
		if e.tokens[z] == nil && bytes.Contains(w, []byte(z.String())) {
			return true
		}
	}
	return false
}

func (e *expecter) tokenWant(z types.ZenonTokenStandard) interface{} {
	t := e.tokens[z]
	if t == nil {
		return nil
	}
	return M{"name": t.TokenName, "symbol": t.TokenSymbol, "domain": t.TokenDomain, "totalSupply": t.TotalSupply.String(), "maxSupply": t.MaxSupply.String(),
		"decimals": t.Decimals, "owner": t.Owner, "tokenStandard": t.TokenStandard, "isBurnable": t.IsBurnable, "isMintable": t.IsMintable, "isUtility": t.IsUtility}
}

func (e *expecter) confirmationWant(h types.Hash) interface{} {
	ch, ok := e.confH[h]
	if !ok {
		return nil
	}
	m, _ := e.nd.Ch.GetFrontierMomentumStore().GetMomentumByHeight(ch)
	return M{"numConfirmations": e.F - ch + 1, "momentumHeight": ch, "momentumHash": m.Hash, "momentumTimestamp": m.Timestamp.Unix()}
}

// the members of a block as the ledger holds it (nom JSON form) and what the api adds: token record, confirmation, pair
func (e *expecter) blockWant(b *nom.AccountBlock, withPair bool) M {
	var w M
	if err := json.Unmarshal(rawJSON(b), &w); err != nil {
		panic(err)
	}
	dropEmptyData(w)
	if b.TokenStandard == types.ZeroTokenStandard {
		w["token"] = nil
	} else {
		w["token"] = e.tokenWant(b.TokenStandard)
	}
	w["confirmationDetail"] = e.confirmationWant(b.Hash)
	if !withPair || b.BlockType == nom.BlockTypeGenesisReceive {
		return w
	}
	var p *nom.AccountBlock
	if b.IsSendBlock() {
		p = e.recvOf[b.Hash]
	} else {
		p = e.byHash[b.FromBlockHash]
	}
	if p == nil {
		w["pairedAccountBlock"] = nil
	} else {
		w["pairedAccountBlock"] = e.blockWant(p, false)
	}
	return w
}

// a block without data: the ledger's JSON form says null, the api's copy of the block ""; both are the empty byte string
func dropEmptyData(w M) {
	if d, ok := w["data"]; ok && (d == nil || d == "") {
		delete(w, "data")
	}
	if l, ok := w["descendantBlocks"].([]interface{}); ok {
		for _, x := range l {
			if m, ok := x.(map[string]interface{}); ok {
				dropEmptyData(m)
			}
		}
	}
}

func (e *expecter) momentumWant(m *nom.Momentum) M {
	var w M
	if err := json.Unmarshal(rawJSON(m), &w); err != nil {
		panic(err)
	}
	w["producer"] = m.Producer()
	if m.Data == nil {
		w["data"] = ""
	}
	if m.Content == nil {
		w["content"] = []interface{}{}
	}
	return w
}

func hashLess(a, b types.Hash) bool { return bytes.Compare(a[:], b[:]) < 0 }

func (e *expecter) ledger() {
	nd := e.nd
	ms := nd.Ch.GetFrontierMomentumStore()
	e.F = ms.Identifier().Height
	sc := NewScanner(nd)
	scan := sc.Scan(true)
	// the confirmed ledger, momentum by momentum
	e.confH, e.recvOf, e.byHash = map[types.Hash]uint64{}, map[types.Hash]*nom.AccountBlock{}, map[types.Hash]*nom.AccountBlock{}
	sentTo := map[types.Address][]*nom.AccountBlock{}
	var noteBlock func(b *nom.AccountBlock, h uint64)
	noteBlock = func(b *nom.AccountBlock, h uint64) {
		if _, seen := e.confH[b.Hash]; seen {
			return
		}
		e.confH[b.Hash] = h
		e.byHash[b.Hash] = b
		if b.IsSendBlock() {
			sentTo[b.ToAddress] = append(sentTo[b.ToAddress], b)
		} else if b.BlockType != nom.BlockTypeGenesisReceive {
			e.recvOf[b.FromBlockHash] = b
		}
		for _, d := range b.DescendantBlocks {
			noteBlock(d, h)
		}
	}
	for h := uint64(1); h <= e.F; h++ {
		for _, b := range sc.BlocksOfMomentum(h) {
			noteBlock(b, h)
		}
	}
	e.tokens = map[types.ZenonTokenStandard]*definition.TokenInfo{}
	if l, err := definition.GetTokenInfoList(ms.GetAccountStore(types.TokenContract).Storage()); err == nil {
		for _, t := range l {
			e.tokens[t.TokenStandard] = t
		}
	}

	var unknown types.Address
	e.rng.Read(unknown[:])
	unknown[0] = types.UserAddrByte
	accounts := append([]types.Address{unknown}, scan.Accounts...)
	for _, a := range e.r.oddTo {
		accounts = append(accounts, a)
	}
	seenAcc := map[types.Address]bool{}
	for _, a := range accounts {
		if seenAcc[a] {
			continue
		}
		seenAcc[a] = true
		as := nd.Ch.GetFrontierAccountStore(a)
		h := as.Identifier().Height
		confirmed := ms.GetAccountStore(a).Identifier().Height
		var blocks []*nom.AccountBlock
		for i := uint64(1); i <= h; i++ {
			b, err := as.ByHeight(i)
			if err != nil || b == nil {
				panic(fmt.Sprintf("account %v has no block at %d: %v", a, i, err))
			}
			blocks = append(blocks, b)
		}
		// ---- account info
		bal, err := as.GetBalanceMap()
		if err != nil {
			panic(err)
		}
		bw := M{}
		var must, may []string
		for z, v := range bal {
			if e.tokens[z] != nil {
				bw[z.String()] = M{"balance": v.String(), "token": e.tokenWant(z)}
				must = append(must, z.String())
			} else {
				may = append(may, z.String())
			}
		}
		sort.Strings(must)
		sort.Strings(may)
		rs := e.read("ledger.getAccountInfoByAddress", M{"address": a, "accountHeight": h, "balanceInfoMap": bw}, a)
		rs.MapPath, rs.MapMust, rs.MapMay = "balanceInfoMap", must, may
		if len(may) > 0 {
			rs.Note = "the account store holds a balance entry of a token standard the token contract does not know"
			e.info.Notes["account-with-undeclared-token-balance"]++
		}
		// ---- frontier block, blocks by height (whole chain in chunks, some inner ranges), by hash
		if h == 0 {
			e.read("ledger.getFrontierAccountBlock", nil, a)
			e.read("ledger.getAccountBlocksByHeight", M{"count": 0, "list": []interface{}{}}, a, 1, 10)
		} else {
			e.read("ledger.getFrontierAccountBlock", e.blockWant(blocks[h-1], true), a)
		}
		wants := make([]M, len(blocks))
		for i, b := range blocks {
			wants[i] = e.blockWant(b, true)
		}
		chunk := uint64(40)
		for lo := uint64(1); lo <= h; lo += chunk {
			hi := lo + chunk - 1
			if hi > h {
				hi = h
			}
			e.read("ledger.getAccountBlocksByHeight", M{"count": h, "list": wants[lo-1 : hi]}, a, lo, chunk)
		}
		for k := 0; k < 3 && h > 1; k++ {
			lo := 1 + uint64(e.rng.Int63n(int64(h)))
			c := 1 + uint64(e.rng.Intn(6))
			hi := lo + c - 1
			if hi > h {
				hi = h
			}
			e.read("ledger.getAccountBlocksByHeight", M{"count": h, "list": wants[lo-1 : hi]}, a, lo, c)
		}
		isUser := !types.IsEmbeddedAddress(a)
		for i, b := range blocks {
			if !isUser && i%3 != 0 && b.TokenStandard != types.ZeroTokenStandard && e.tokens[b.TokenStandard] != nil && uint64(i) < confirmed {
				continue // contract chains are long: every third block, and every block that is unusual
			}
			if uint64(i) < confirmed {
				e.read("ledger.getAccountBlockByHash", wants[i], b.Hash)
			} else {
				rs := e.read("ledger.getAccountBlockByHash", nil, b.Hash)
				rs.Any, rs.Note = true, "hash of a block in the pool"
			}
		}
		// ---- pages of the account chain (descending), of its pool blocks, of its unreceived blocks
		var desc, pool []string
		var descW, poolW []json.RawMessage
		oddChain, oddPool := false, false
		for i := len(blocks) - 1; i >= 0; i-- {
			desc = append(desc, blocks[i].Hash.String())
			descW = append(descW, rawJSON(wants[i]))
			oddChain = oddChain || e.namesUndeclared(descW[len(descW)-1])
		}
		e.info.Lists = append(e.info.Lists, listSpec{Method: "ledger.getAccountBlocksByPage", Args: rawArgs(a), Limit: 1024, ListKey: "list", IdKeys: []string{"hash"}, Truth: desc, Count: "count", Elems: descW, Odd: oddChain})
		for i := confirmed; i < h; i++ {
			pool = append(pool, blocks[i].Hash.String())
			poolW = append(poolW, rawJSON(wants[i]))
			oddPool = oddPool || e.namesUndeclared(poolW[len(poolW)-1])
		}
		e.info.Lists = append(e.info.Lists, listSpec{Method: "ledger.getUnconfirmedBlocksByAddress", Args: rawArgs(a), Limit: 1024, ListKey: "list", IdKeys: []string{"hash"}, Truth: pool, Count: "count", Elems: poolW, Odd: oddPool})
		// a user's receive marks the send as received when the block is made; a contract's receive is made by the node and
		// the mark is set when a momentum confirms it
		received := map[types.Hash]bool{}
		for i, b := range blocks {
			if !isUser && uint64(i) >= confirmed {
				break
			}
			if b.IsReceiveBlock() {
				received[b.FromBlockHash] = true
			}
		}
		var unrec []types.Hash
		for _, s := range sentTo[a] {
			if !received[s.Hash] {
				unrec = append(unrec, s.Hash)
			}
		}
		sort.Slice(unrec, func(i, j int) bool { return hashLess(unrec[i], unrec[j]) })
		if len(unrec) <= 500 {
			var ids []string
			var ew []json.RawMessage
			odd := false
			for _, x := range unrec {
				ids = append(ids, x.String())
				ew = append(ew, rawJSON(e.blockWant(e.byHash[x], false)))
				odd = odd || e.namesUndeclared(ew[len(ew)-1])
			}
			e.info.Lists = append(e.info.Lists, listSpec{Method: "ledger.getUnreceivedBlocksByAddress", Args: rawArgs(a), Limit: 50, MaxIdx: 10, ListKey: "list", IdKeys: []string{"hash"}, Truth: ids, Count: "count", Elems: ew, Odd: odd})
		}
	}

	// ---- momentums
	var moms []*nom.Momentum
	var momW []M
	for h := uint64(1); h <= e.F; h++ {
		m, err := ms.GetMomentumByHeight(h)
		if err != nil || m == nil {
			panic(fmt.Sprintf("no momentum at %d: %v", h, err))
		}
		moms = append(moms, m)
		momW = append(momW, e.momentumWant(m))
	}
	e.read("ledger.getFrontierMomentum", momW[e.F-1])
	chunk := uint64(64)
	for lo := uint64(1); lo <= e.F; lo += chunk {
		hi := lo + chunk - 1
		if hi > e.F {
			hi = e.F
		}
		e.read("ledger.getMomentumsByHeight", M{"count": e.F, "list": momW[lo-1 : hi]}, lo, chunk)
	}
	var desc []string
	for i := len(moms) - 1; i >= 0; i-- {
		desc = append(desc, moms[i].Hash.String())
	}
	e.info.Lists = append(e.info.Lists, listSpec{Method: "ledger.getMomentumsByPage", Args: rawArgs(), Limit: 1024, ListKey: "list", IdKeys: []string{"hash"}, Truth: desc, Count: "count"})
	for i, m := range moms {
		if len(m.Content) == 0 && i%4 != 0 && uint64(i) < e.F-3 {
			continue
		}
		e.read("ledger.getMomentumByHash", momW[i], m.Hash)
	}
	var none types.Hash
	e.rng.Read(none[:])
	e.read("ledger.getMomentumByHash", nil, none).Any = true
	e.read("ledger.getAccountBlockByHash", nil, none)
	// detailed momentums: every momentum with exactly the blocks of its content
	dchunk := uint64(16)
	for lo := uint64(1); lo <= e.F; lo += dchunk {
		hi := lo + dchunk - 1
		if hi > e.F {
			hi = e.F
		}
		var l []M
		for h := lo; h <= hi; h++ {
			var bl []M
			for _, hd := range moms[h-1].Content {
				b := e.byHash[hd.Hash]
				if b == nil {
					panic("content block unknown")
				}
				bl = append(bl, e.blockWant(b, true))
			}
			if bl == nil {
				bl = []M{}
			}
			l = append(l, M{"momentum": momW[h-1], "blocks": bl})
		}
		e.read("ledger.getDetailedMomentumsByHeight", M{"count": e.F, "list": l}, lo, dchunk)
	}
	// the last momentum strictly before a time
	for k := 0; k < 8; k++ {
		i := e.rng.Intn(len(moms))
		for _, dt := range []int64{1, 0} {
			t := moms[i].Timestamp.Unix() + dt
			var want interface{}
			for y := len(moms) - 1; y >= 0; y-- {
				if moms[y].Timestamp.Unix() < t {
					want = momW[y]
					break
				}
			}
			e.read("ledger.getMomentumBeforeTime", want, t)
		}
	}
}

func rpcChildReaders(args []string) {
	seed, _ := strconv.ParseInt(args[0], 10, 64)
	dir := args[1]
	rng := rand.New(rand.NewSource(seed))
	nd := NewNodeEpoch(10 * time.Minute)
	if os.Getenv("C18_RICH_DEBUG") != "" { // the embedded contracts say on stderr why a call failed
		common.EmbeddedLogger.SetHandler(log15.StreamHandler(os.Stderr, log15.LogfmtFormat()))
		common.VmLogger.SetHandler(log15.StreamHandler(os.Stderr, log15.LogfmtFormat()))
	}
	r := buildRich(rng, nd)

	sub := subscribe.GetSubscribeServer(nd.Ch)
	sub.Init()
	sub.Start()
	srv := rpcs.NewServer()
	for _, a := range rpc.GetApis(nd.Z, nil, "ledger", "ledgerSubscribe", "embedded") {
		svc := a.Service
		if a.Namespace == "embedded.pillar" {
			// the node's pillar api serves weights from a cache it refreshes in the background; the variant the tests of /repo
			// use computes them at every call
			svc = embedded.NewPillarApi(nd.Z, true)
		}
		if err := srv.RegisterName(a.Namespace, svc); err != nil {
			fmt.Fprintln(os.Stderr, "register:", a.Namespace, err)
			os.Exit(3)
		}
	}
	info := &readInfo{Notes: r.notes}
	hs := httptest.NewServer(srv)
	ws := httptest.NewServer(srv.WebsocketHandler([]string{"*"}))
	info.HTTP, info.WS = hs.URL, "ws"+ws.URL[len("http"):]
	info.IPC = filepath.Join(dir, "c18r.ipc")
	os.Remove(info.IPC)
	l, err := net.Listen("unix", info.IPC)
	if err != nil {
		fmt.Fprintln(os.Stderr, "listen:", err)
		os.Exit(3)
	}
	go srv.ServeListener(l)

	e := &expecter{nd: nd, r: r, rng: rng, info: info}
	e.ledger()
	e.embedded()

	line, _ := json.Marshal(info)
	w := bufio.NewWriterSize(os.Stdout, 1<<20)
	w.Write(line)
	w.WriteByte('\n')
	w.Flush()
	in := bufio.NewReader(os.Stdin)
	for {
		c, err := in.ReadByte()
		if err != nil || c == 'q' {
			os.Exit(0)
		}
	}
}

var _ = g.User1
