package main

// A history that FILLS the lists of the embedded contracts and holds what relay / sync can legally put into a ledger
// although ledger.publishRawTransaction would refuse it (the blocks are made by the supervisor, which is what a node does
// with a block that arrives from a peer: verifier + vm, no look at the token table):
//   - every spork active (accelerator, htlc, bridge and liquidity) plus sporks that were only created;
//   - tokens of several owners, fusions, stakes, sentinels, registered pillars, accelerator projects (voted, with phases),
//     bridge networks / token pairs / wrap requests (some signed) / unwrap requests, liquidity stake entries, htlcs;
//   - zero-amount sends that name a token standard the token contract does not know (received by the addressee, left
//     unreceived, left in the pool, towards a contract), zero-amount sends without a token standard, sends to the zero
//     address and to addresses nobody holds, sends to oneself, sends with data between users.
// Used by the child process of the `readers` suite (readchild.go): the constants it shortens are process globals.

import (
	"encoding/base64"
	"fmt"
	"math/big"
	"math/rand"
	"os"

	eabi "github.com/ethereum/go-ethereum/accounts/abi"
	ecommon "github.com/ethereum/go-ethereum/common"
	"github.com/ethereum/go-ethereum/crypto"
	g "github.com/zenon-network/go-zenon/chain/genesis/mock"
	"github.com/zenon-network/go-zenon/chain/nom"
	"github.com/zenon-network/go-zenon/common/types"
	"github.com/zenon-network/go-zenon/vm/constants"
	"github.com/zenon-network/go-zenon/vm/embedded/definition"
	"github.com/zenon-network/go-zenon/vm/embedded/implementation"
	"github.com/zenon-network/go-zenon/vm/vm_context"
	"github.com/zenon-network/go-zenon/wallet"
	"github.com/zenon-network/go-zenon/zenon/mock"
	. "zharness/hz"
)

const (
	richTssPub  = "AsAQx1M3LVXCuozDOqO5b9adj/PItYgwZFG/xTDBiZzT" // the key pair of /repo's bridge tests
	richTssPriv = "tuSwrTEUyJI1/3y5J8L8DSjzT/AQG2IK3JG+93qhhhI="
)

type richNet struct {
	class, chain uint32
	contract     string
}

type rich struct {
	nd      *Node
	rng     *rand.Rand
	notes   map[string]int // what was reached (reported to the parent, which counts it)
	tokens  []types.ZenonTokenStandard
	oddZts  []types.ZenonTokenStandard
	oddTo   []types.Address // addressees nobody holds a key for
	nets    []richNet
	pairs   map[types.ZenonTokenStandard]string // foreign-chain token address of a bridged token
	toAddrs []string                            // foreign-chain addressees of the wrap requests
	admin   *wallet.KeyPair
}

func (r *rich) note(k string) { r.notes[k]++ }

// a send made by the supervisor; nil when verifier or vm refuse it
func (r *rich) send(from *wallet.KeyPair, to types.Address, zts types.ZenonTokenStandard, amount *big.Int, data []byte) (b *nom.AccountBlock) {
	defer func() {
		if p := recover(); p != nil {
			if os.Getenv("C18_RICH_DEBUG") != "" {
				fmt.Fprintf(os.Stderr, "rich: send refused: %v -> %v zts %v amount %v data %x: %.300q\n", from.Address, to, zts, amount, data, fmt.Sprint(p))
			}
			b = nil
		}
	}()
	return r.nd.Z.InsertSendBlock(&nom.AccountBlock{Address: from.Address, ToAddress: to, TokenStandard: zts, Amount: new(big.Int).Set(amount), Data: data}, nil, mock.SkipVmChanges)
}

func (r *rich) receive(s *nom.AccountBlock) (b *nom.AccountBlock) {
	defer func() {
		if p := recover(); p != nil {
			b = nil
		}
	}()
	return r.nd.Z.InsertReceiveBlock(s.Header(), nil, nil, mock.SkipVmChanges)
}

func (r *rich) moms(n int) {
	for i := 0; i < n; i++ {
		r.nd.Momentum()
	}
}

// a call of an embedded contract, confirmed and received by the contract
func (r *rich) call(from *wallet.KeyPair, to types.Address, zts types.ZenonTokenStandard, amount *big.Int, data []byte, what string) *nom.AccountBlock {
	b := r.send(from, to, zts, amount, data)
	if b == nil {
		r.note("refused:" + what)
		fmt.Fprintln(os.Stderr, "rich: refused:", what)
		return nil
	}
	r.moms(2)
	return b
}

func (r *rich) storage(c types.Address) vm_context.AccountVmContext {
	return vm_context.NewAccountContext(r.nd.Ch.GetFrontierMomentumStore(), r.nd.Ch.GetFrontierAccountStore(c), nil)
}

var z0 = big.NewInt(0)

func zx(n int64) *big.Int { return new(big.Int).Mul(big.NewInt(n), big.NewInt(g.Zexp)) }

func (r *rich) activate(spork *types.ImplementedSpork, name string, activate bool) {
	b := r.call(g.Spork, types.SporkContract, types.ZnnTokenStandard, z0, definition.ABISpork.PackMethodPanic(definition.SporkCreateMethodName, name, "spork "+name), "spork-create")
	if b == nil || !activate {
		return
	}
	if r.call(g.Spork, types.SporkContract, types.ZnnTokenStandard, z0, definition.ABISpork.PackMethodPanic(definition.SporkActivateMethodName, b.Hash), "spork-activate") == nil {
		return
	}
	spork.SporkId = b.Hash
	types.ImplementedSporksMap[b.Hash] = true
	for i := 0; i < 40; i++ {
		if ok, _ := r.nd.Ch.GetFrontierMomentumStore().IsSporkActive(spork); ok {
			r.note("spork-active")
			return
		}
		r.moms(1)
	}
}

// time-challenged administrator calls: made twice, the delay apart
func (r *rich) twice(to types.Address, delay uint64, what string, datas ...[]byte) {
	for round := 0; round < 2; round++ {
		for _, d := range datas {
			if r.send(r.admin, to, types.ZnnTokenStandard, z0, d) == nil {
				r.note("refused:" + what)
				fmt.Fprintln(os.Stderr, "rich: refused:", what, round)
			}
		}
		r.moms(2)
		if round == 0 {
			r.moms(int(delay) + 1)
		}
	}
}

func richPairAddr(z types.ZenonTokenStandard, k byte) string {
	b := make([]byte, 20)
	copy(b, z.Bytes())
	b[18], b[19] = k, 0x5a
	return ecommon.BytesToAddress(b).Hex()
}

func richTssSign(h []byte) string {
	raw, _ := base64.StdEncoding.DecodeString(richTssPriv)
	k, err := crypto.ToECDSA(raw)
	if err != nil {
		panic(err)
	}
	sig, err := crypto.Sign(h, k)
	if err != nil {
		panic(err)
	}
	return base64.StdEncoding.EncodeToString(sig)
}

func richUnwrapSignature(networkClass, chainId uint32, txHash types.Hash, logIndex uint32, to types.Address, tokenAddress string, amount *big.Int) (string, error) {
	args := eabi.Arguments{{Type: definition.Uint256Ty}, {Type: definition.Uint256Ty}, {Type: definition.Uint256Ty}, {Type: definition.Uint256Ty}, {Type: definition.Uint256Ty}, {Type: definition.AddressTy}, {Type: definition.Uint256Ty}}
	msg, err := args.PackValues([]interface{}{big.NewInt(int64(networkClass)), big.NewInt(int64(chainId)), new(big.Int).SetBytes(txHash.Bytes()), big.NewInt(int64(logIndex)),
		new(big.Int).SetBytes(to.Bytes()), ecommon.HexToAddress(tokenAddress), amount})
	if err != nil {
		return "", err
	}
	h, err := implementation.HashByNetworkClass(msg, networkClass)
	if err != nil {
		return "", err
	}
	return richTssSign(h), nil
}

func buildRich(rng *rand.Rand, nd *Node) *rich {
	r := &rich{nd: nd, rng: rng, notes: map[string]int{}, pairs: map[types.ZenonTokenStandard]string{}, admin: g.User5}
	// delays of main-net (days) scaled down; process globals of the child
	constants.MinAdministratorDelay, constants.MinSoftDelay, constants.MinUnhaltDurationInMomentums, constants.MinGuardians = 4, 3, 1, 4
	constants.SporkMinHeightDelay = 2
	// the node has epochs of ten minutes (readchild): the contracts are updated 30 s (not an hour) after the end of an epoch, at
	// most every 5 (not 300) momentums
	constants.RewardTimeLimit, constants.UpdateMinNumMomentums = 30, 5
	constants.InitialBridgeAdministrator.SetBytes(r.admin.Address.Bytes())
	r.moms(1 + rng.Intn(3))

	// ---- sporks: three activated, two only created
	r.activate(types.AcceleratorSpork, "spork-accelerator", true)
	r.activate(types.HtlcSpork, "spork-htlc", true)
	r.activate(types.BridgeAndLiquiditySpork, "spork-bridge", true)
	r.activate(nil, "spork-future-a", false)
	r.activate(nil, "spork-future-b", false)

	// ---- tokens of three owners
	nt := 5 + rng.Intn(4)
	for i := 0; i < nt; i++ {
		u := []*wallet.KeyPair{g.User1, g.User1, g.User2, g.User3}[rng.Intn(4)]
		b := r.send(u, types.TokenContract, types.ZnnTokenStandard, constants.TokenIssueAmount,
			definition.ABIToken.PackMethodPanic(definition.IssueMethodName, fmt.Sprintf("tok-%d", i), fmt.Sprintf("T%c", 'A'+i), "",
				big.NewInt(100000), big.NewInt(100000000), uint8(rng.Intn(9)), true, true, false))
		if b != nil {
			r.tokens = append(r.tokens, types.NewZenonTokenStandard(b.Hash.Bytes()))
		}
	}
	r.moms(3)
	// the issuers receive the initial supply
	for _, u := range []*wallet.KeyPair{g.User1, g.User2, g.User3} {
		r.receiveAll(u, 20)
	}
	r.moms(1)

	// ---- fusions, stakes (user1 and user2)
	for i, nf := 0, 5+rng.Intn(4); i < nf; i++ {
		u := []*wallet.KeyPair{g.User1, g.User1, g.User2}[rng.Intn(3)]
		r.send(u, types.PlasmaContract, types.QsrTokenStandard, zx(int64(10+rng.Intn(50))),
			definition.ABIPlasma.PackMethodPanic(definition.FuseMethodName, g.AllKeyPairs[rng.Intn(len(g.AllKeyPairs))].Address))
		if rng.Intn(2) == 0 {
			r.moms(1)
		}
	}
	for i, ns := 0, 5+rng.Intn(4); i < ns; i++ {
		u := []*wallet.KeyPair{g.User1, g.User1, g.User2}[rng.Intn(3)]
		r.send(u, types.StakeContract, types.ZnnTokenStandard, zx(int64(10+rng.Intn(50))),
			definition.ABIStake.PackMethodPanic(definition.StakeMethodName, constants.StakeTimeMinSec*int64(1+rng.Intn(12))))
		if rng.Intn(2) == 0 {
			r.moms(1)
		}
	}
	r.moms(2)

	// ---- sentinels and pillars
	for _, kp := range []*wallet.KeyPair{g.Pillar5, g.Pillar6, g.Pillar7, g.User2} {
		r.send(kp, types.SentinelContract, types.QsrTokenStandard, constants.SentinelQsrDepositAmount, definition.ABISentinel.PackMethodPanic(definition.DepositQsrMethodName))
	}
	need := new(big.Int).Add(constants.PillarQsrStakeBaseAmount, new(big.Int).Mul(constants.PillarQsrStakeIncreaseAmount, big.NewInt(3)))
	for _, kp := range []*wallet.KeyPair{g.Pillar4, g.Pillar8} {
		r.send(kp, types.PillarContract, types.QsrTokenStandard, need, definition.ABIPillars.PackMethodPanic(definition.DepositQsrMethodName))
	}
	r.moms(3)
	for _, kp := range []*wallet.KeyPair{g.Pillar5, g.Pillar6, g.Pillar7, g.User2} {
		r.send(kp, types.SentinelContract, types.ZnnTokenStandard, constants.SentinelZnnRegisterAmount, definition.ABISentinel.PackMethodPanic(definition.RegisterSentinelMethodName))
	}
	for i, kp := range []*wallet.KeyPair{g.Pillar4, g.Pillar8} {
		r.send(kp, types.PillarContract, types.ZnnTokenStandard, constants.PillarStakeAmount,
			definition.ABIPillars.PackMethodPanic(definition.RegisterMethodName, fmt.Sprintf("rich-pillar-%d", i), kp.Address, kp.Address, uint8(rng.Intn(101)), uint8(rng.Intn(101))))
		r.moms(3)
	}
	r.moms(3)

	// ---- accelerator: projects of several owners, votes of the pillars, a phase on the accepted ones
	var projects []types.Hash
	for i, np := 0, 6+rng.Intn(4); i < np; i++ {
		u := []*wallet.KeyPair{g.User1, g.User2, g.User3}[rng.Intn(3)]
		b := r.send(u, types.AcceleratorContract, types.ZnnTokenStandard, constants.ProjectCreationAmount,
			definition.ABIAccelerator.PackMethodPanic(definition.CreateProjectMethodName, fmt.Sprintf("project %d", i), "description", "www.example.com/p", zx(int64(1+rng.Intn(50))), zx(int64(1+rng.Intn(500)))))
		if b != nil {
			projects = append(projects, b.Hash)
		}
		if rng.Intn(3) > 0 { // several projects in one momentum: equal LastUpdateTimestamp
			r.moms(1)
		}
	}
	r.moms(3)
	r.call(g.User1, types.AcceleratorContract, types.ZnnTokenStandard, zx(100), definition.ABICommon.PackMethodPanic(definition.DonateMethodName), "accelerator-donate")
	r.call(g.User1, types.AcceleratorContract, types.QsrTokenStandard, zx(1000), definition.ABICommon.PackMethodPanic(definition.DonateMethodName), "accelerator-donate")
	for i, id := range projects {
		if i%2 == 1 {
			continue
		}
		for k, kp := range []*wallet.KeyPair{g.Pillar1, g.Pillar2, g.Pillar3} {
			r.send(kp, types.AcceleratorContract, types.ZnnTokenStandard, z0,
				definition.ABIAccelerator.PackMethodPanic(definition.VoteByNameMethodName, id, []string{g.Pillar1Name, g.Pillar2Name, g.Pillar3Name}[k], uint8(definition.VoteYes)))
		}
		r.moms(1)
	}
	r.moms(3)
	r.call(g.User4, types.AcceleratorContract, types.ZnnTokenStandard, z0, definition.ABIAccelerator.PackMethodPanic(definition.UpdateMethodName), "accelerator-update")
	if l, err := definition.GetProjectList(r.storage(types.AcceleratorContract).Storage()); err == nil {
		for _, p := range l {
			if p.Status == definition.ActiveStatus {
				r.note("project-accepted")
				if kp := KeyOf(p.Owner); kp != nil {
					r.send(kp, types.AcceleratorContract, types.ZnnTokenStandard, z0,
						definition.ABIAccelerator.PackMethodPanic(definition.AddPhaseMethodName, p.Id, "phase 1", "first phase", "www.example.com/1", big.NewInt(1), big.NewInt(1)))
				}
			}
		}
	}
	r.moms(3)

	// ---- bridge: orchestrator, guardians, tss key, networks, token pairs
	bc, lc := types.BridgeContract, types.LiquidityContract
	guardians := []types.Address{g.User1.Address, g.User2.Address, g.User3.Address, g.User4.Address, g.User5.Address}
	r.call(r.admin, bc, types.ZnnTokenStandard, z0, definition.ABIBridge.PackMethodPanic(definition.SetOrchestratorInfoMethodName, uint64(6), uint32(3), uint32(15), uint32(10)), "bridge-orchestrator")
	r.twice(bc, constants.MinAdministratorDelay, "bridge-guardians", definition.ABIBridge.PackMethodPanic(definition.NominateGuardiansMethodName, guardians))
	r.twice(lc, constants.MinAdministratorDelay, "liquidity-guardians", definition.ABILiquidity.PackMethodPanic(definition.NominateGuardiansMethodName, guardians))
	r.twice(bc, constants.MinSoftDelay, "bridge-tss", definition.ABIBridge.PackMethodPanic(definition.ChangeTssECDSAPubKeyMethodName, richTssPub, "", ""))
	for i, nn := 0, 3+rng.Intn(3); i < nn; i++ {
		n := richNet{2, uint32(100 + i), ecommon.BytesToAddress([]byte{0x32, byte(i)}).Hex()}
		if r.call(r.admin, bc, types.ZnnTokenStandard, z0, definition.ABIBridge.PackMethodPanic(definition.SetNetworkMethodName, n.class, n.chain, fmt.Sprintf("net-%d", i), n.contract, "{}"), "bridge-network") != nil {
			r.nets = append(r.nets, n)
		}
	}
	bridged := []types.ZenonTokenStandard{types.ZnnTokenStandard, types.QsrTokenStandard}
	if len(r.tokens) > 0 {
		bridged = append(bridged, r.tokens[0])
	}
	// one time challenge per method: the pairs are set one after the other
	for ni, n := range r.nets {
		if ni >= 2 {
			break
		}
		for zi, z := range bridged {
			if ni == 1 && zi == 2 {
				continue
			}
			addr := richPairAddr(z, byte(zi))
			r.pairs[z] = addr
			r.twice(bc, constants.MinSoftDelay, "bridge-token-pair",
				definition.ABIBridge.PackMethodPanic(definition.SetTokenPairMethod, n.class, n.chain, z, addr, true, true, false, big.NewInt(100), uint32(15), uint32(2+rng.Intn(20)), `{}`))
		}
	}
	if os.Getenv("C18_RICH_DEBUG") != "" {
		nl, err := definition.GetNetworkList(r.storage(bc).Storage())
		fmt.Fprintf(os.Stderr, "rich: networks %d %v\n", len(nl), err)
		for _, n := range nl {
			fmt.Fprintf(os.Stderr, "rich:   network %d/%d pairs %d\n", n.NetworkClass, n.Id, len(n.TokenPairs))
		}
	}

	// ---- wrap requests of several senders towards several foreign addressees; some get the orchestrator's signature
	for i := 0; i < 4; i++ {
		r.toAddrs = append(r.toAddrs, ecommon.BytesToAddress([]byte{0xb7, byte(i), byte(rng.Intn(256))}).Hex())
	}
	var wraps []types.Hash
	for i, nw := 0, 7+rng.Intn(4); i < nw && len(r.nets) > 0; i++ {
		u := []*wallet.KeyPair{g.User1, g.User2, g.User3}[rng.Intn(3)]
		n := r.nets[rng.Intn(2)%len(r.nets)]
		z := bridged[rng.Intn(2)]
		if z == types.QsrTokenStandard && u == g.User3 {
			z = types.ZnnTokenStandard
		}
		if len(bridged) > 2 && rng.Intn(4) == 0 && r.balance(u.Address, bridged[2]).Cmp(big.NewInt(1000)) >= 0 {
			z = bridged[2]
		}
		amt := zx(int64(1 + rng.Intn(5)))
		if z == bridged[len(bridged)-1] && len(bridged) > 2 {
			amt = big.NewInt(int64(100 + rng.Intn(900)))
		}
		if b := r.send(u, bc, z, amt, definition.ABIBridge.PackMethodPanic(definition.WrapTokenMethodName, n.class, n.chain, r.toAddrs[rng.Intn(len(r.toAddrs))])); b != nil {
			wraps = append(wraps, b.Hash)
		}
		if rng.Intn(2) == 0 {
			r.moms(1)
		}
	}
	r.moms(3)
	for i, id := range wraps {
		if i%3 != 0 {
			continue
		}
		req, err := definition.GetWrapTokenRequestById(r.storage(bc).Storage(), id)
		if err != nil || req == nil {
			continue
		}
		ni, err := definition.GetNetworkInfoVariable(r.storage(bc).Storage(), req.NetworkClass, req.ChainId)
		if err != nil || ni == nil {
			continue
		}
		ca := ecommon.HexToAddress(ni.ContractAddress)
		msg, err := implementation.GetWrapTokenRequestMessage(req, &ca)
		if err != nil {
			continue
		}
		r.send(g.User4, bc, types.ZnnTokenStandard, z0, definition.ABIBridge.PackMethodPanic(definition.UpdateWrapRequestMethodName, id, richTssSign(msg)))
	}
	r.moms(3)

	// ---- unwrap requests towards several addressees (several per addressee, spread over momentums)
	for i, nu := 0, 7+rng.Intn(4); i < nu && len(r.nets) > 0; i++ {
		n := r.nets[rng.Intn(2)%len(r.nets)]
		z := bridged[rng.Intn(2)]
		to := []*wallet.KeyPair{g.User1, g.User2, g.User2, g.User3}[rng.Intn(4)].Address
		var tx types.Hash
		rng.Read(tx[:])
		log := uint32(rng.Intn(1000))
		amt := zx(int64(1 + rng.Intn(50)))
		sig, err := richUnwrapSignature(n.class, n.chain, tx, log, to, r.pairs[z], amt)
		if err != nil {
			continue
		}
		r.send(g.User4, bc, types.ZnnTokenStandard, z0, definition.ABIBridge.PackMethodPanic(definition.UnwrapTokenMethodName, n.class, n.chain, tx, log, to, r.pairs[z], amt, sig))
		if rng.Intn(2) == 0 {
			r.moms(1)
		}
	}
	r.moms(3)

	// ---- liquidity: token tuples, stake entries of two users
	liq := []types.ZenonTokenStandard{types.ZnnTokenStandard, types.QsrTokenStandard}
	zs, zp, qp, mins := []string{}, []uint32{}, []uint32{}, []*big.Int{}
	for _, z := range liq {
		zs, zp, qp, mins = append(zs, z.String()), append(zp, 5000), append(qp, 5000), append(mins, big.NewInt(1000))
	}
	r.twice(lc, constants.MinSoftDelay, "liquidity-token-tuple", definition.ABILiquidity.PackMethodPanic(definition.SetTokenTupleMethodName, zs, zp, qp, mins))
	for i, nl := 0, 6+rng.Intn(4); i < nl; i++ {
		u := []*wallet.KeyPair{g.User1, g.User1, g.User2}[rng.Intn(3)]
		r.send(u, lc, liq[rng.Intn(2)], zx(int64(1+rng.Intn(20))), definition.ABILiquidity.PackMethodPanic(definition.LiquidityStakeMethodName, constants.StakeTimeMinSec*int64(1+rng.Intn(12))))
		if rng.Intn(2) == 0 {
			r.moms(1)
		}
	}
	r.moms(3)

	// ---- a few reward epochs more (ten-minute epochs: 60 momentums each)
	r.moms(100 + rng.Intn(60))

	// ---- htlcs
	for i := 0; i < 3; i++ {
		lock := make([]byte, 32)
		rng.Read(lock)
		r.send(g.User1, types.HtlcContract, types.ZnnTokenStandard, zx(int64(1+i)),
			definition.ABIHtlc.PackMethodPanic(definition.CreateHtlcMethodName, g.User2.Address, int64(FrontierOf(nd.Ch).TimestampUnix)+3600, uint8(0), uint8(32), lock))
	}
	r.moms(3)

	r.odd()
	r.traffic()
	return r
}

func (r *rich) balance(a types.Address, z types.ZenonTokenStandard) *big.Int {
	b, err := r.nd.Ch.GetFrontierAccountStore(a).GetBalance(z)
	if err != nil || b == nil {
		return big.NewInt(0)
	}
	return b
}

// the addressee receives up to max of its unreceived blocks
func (r *rich) receiveAll(kp *wallet.KeyPair, max int) {
	hashes, err := r.nd.Ch.GetFrontierMomentumStore().GetAccountMailbox(kp.Address).GetUnreceivedAccountBlockHashes(uint64(max))
	if err != nil {
		return
	}
	for _, h := range hashes {
		if r.nd.Ch.GetFrontierAccountStore(kp.Address).IsReceived(h) {
			continue
		}
		if s, err := r.nd.Ch.GetFrontierMomentumStore().GetAccountBlockByHash(h); err == nil && s != nil {
			r.receive(s)
		}
	}
}

// blocks the verifier and the vm accept and ledger.publishRawTransaction refuses (or nobody would make)
func (r *rich) odd() {
	rng := r.rng
	users := []*wallet.KeyPair{g.User1, g.User2, g.User3, g.User4}
	for i := 0; i < 3; i++ {
		var z types.ZenonTokenStandard
		rng.Read(z[:])
		r.oddZts = append(r.oddZts, z)
		var a types.Address
		rng.Read(a[:])
		a[0] = types.UserAddrByte
		r.oddTo = append(r.oddTo, a)
	}
	r.oddTo = append(r.oddTo, types.ZeroAddress)
	var toReceive []*nom.AccountBlock
	sendOdd := func(what string, from *wallet.KeyPair, to types.Address, z types.ZenonTokenStandard, amount *big.Int, data []byte) *nom.AccountBlock {
		b := r.send(from, to, z, amount, data)
		if b != nil {
			r.note("odd:" + what)
		} else {
			r.note("odd-refused:" + what)
		}
		return b
	}
	// zero amount, undeclared token standard: user to user (received later), to an address nobody holds, to a contract
	for i, z := range r.oddZts {
		from, to := users[i%len(users)], users[(i+1)%len(users)]
		if b := sendOdd("unknown-zts-to-user", from, to.Address, z, z0, nil); b != nil && i < 2 {
			toReceive = append(toReceive, b)
		}
		sendOdd("unknown-zts-to-nobody", from, r.oddTo[i], z, z0, nil)
	}
	sendOdd("unknown-zts-with-data", g.User3, g.User4.Address, r.oddZts[0], z0, []byte("hello"))
	sendOdd("unknown-zts-donation-to-contract", g.User1, types.AcceleratorContract, r.oddZts[1], z0, definition.ABICommon.PackMethodPanic(definition.DonateMethodName))
	// zero amount without a token standard, to the zero address, to oneself, known token with amount zero
	sendOdd("zero-zts", g.User2, g.User3.Address, types.ZeroTokenStandard, z0, nil)
	sendOdd("to-zero-address", g.User2, types.ZeroAddress, types.ZnnTokenStandard, big.NewInt(7), nil)
	sendOdd("to-zero-address-zero-zts", g.User1, types.ZeroAddress, types.ZeroTokenStandard, z0, []byte{1, 2, 3})
	sendOdd("to-oneself", g.User1, g.User1.Address, types.QsrTokenStandard, big.NewInt(5), nil)
	sendOdd("known-zts-zero-amount", g.User3, g.User1.Address, types.ZnnTokenStandard, z0, nil)
	if len(r.tokens) > 0 {
		sendOdd("issued-zts-zero-amount-from-a-non-holder", g.User4, g.User5.Address, r.tokens[len(r.tokens)-1], z0, nil)
	}
	r.moms(2)
	for _, b := range toReceive {
		if r.receive(b) != nil {
			r.note("odd:unknown-zts-received")
		}
	}
	r.moms(1)
	// left in the pool at the end: see traffic
}

// plain traffic at the end: sends, some received, some left unreceived; blocks left in the pool (among them one more
// zero-amount send of an undeclared token standard and the receive of one)
func (r *rich) traffic() {
	rng := r.rng
	users := []*wallet.KeyPair{g.User1, g.User2, g.User3}
	for s, steps := 0, 8+rng.Intn(20); s < steps; s++ {
		u, v := users[rng.Intn(3)], users[rng.Intn(3)]
		z := types.ZnnTokenStandard
		if len(r.tokens) > 0 && rng.Intn(3) == 0 {
			if t := r.tokens[rng.Intn(len(r.tokens))]; r.balance(u.Address, t).Sign() > 0 {
				z = t
			}
		}
		amt := big.NewInt(int64(1 + rng.Intn(1000)))
		if r.balance(u.Address, z).Cmp(amt) < 0 {
			continue
		}
		b := r.send(u, v.Address, z, amt, nil)
		if rng.Intn(3) == 0 {
			r.moms(1)
			if b != nil && rng.Intn(2) == 0 {
				r.receive(b)
			}
		}
	}
	r.moms(1 + rng.Intn(2))
	var z types.ZenonTokenStandard
	rng.Read(z[:])
	r.oddZts = append(r.oddZts, z)
	if b := r.send(g.User2, g.User1.Address, z, z0, nil); b != nil {
		r.note("odd:unknown-zts-confirmed-then-received-in-pool")
		r.moms(1)
		r.receive(b)
	}
	for i, np := 0, 2+rng.Intn(5); i < np; i++ {
		u := users[rng.Intn(3)]
		r.send(u, users[rng.Intn(3)].Address, types.ZnnTokenStandard, big.NewInt(int64(1+rng.Intn(1000))), nil)
	}
	if r.send(g.User3, g.User2.Address, r.oddZts[0], z0, nil) != nil {
		r.note("odd:unknown-zts-in-pool")
	}
}
