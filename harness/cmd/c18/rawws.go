package main

// A minimal websocket client (RFC 6455: handshake, masked client frames, fragmented server messages, ping / pong /
// close), so that raw bytes of any shape can be sent as one text message to the server's websocket handler.

import (
	"bufio"
	"encoding/binary"
	"errors"
	"fmt"
	"io"
	"net"
	"net/http"
	"strings"
	"time"
)

var errWSClosed = errors.New("websocket: closed by the server")

type rawWS struct {
	c  net.Conn
	br *bufio.Reader
}

func dialWS(url string) (*rawWS, error) {
	host := strings.TrimPrefix(url, "ws://")
	c, err := net.DialTimeout("tcp", host, 20*time.Second)
	if err != nil {
		return nil, err
	}
	c.SetDeadline(time.Now().Add(20 * time.Second))
	fmt.Fprintf(c, "GET / HTTP/1.1\r\nHost: %s\r\nUpgrade: websocket\r\nConnection: Upgrade\r\nSec-WebSocket-Key: dGhlIHNhbXBsZSBub25jZQ==\r\nSec-WebSocket-Version: 13\r\n\r\n", host)
	br := bufio.NewReaderSize(c, 64<<10)
	resp, err := http.ReadResponse(br, nil)
	if err != nil {
		c.Close()
		return nil, err
	}
	if resp.StatusCode != http.StatusSwitchingProtocols {
		c.Close()
		return nil, fmt.Errorf("websocket handshake: status %d", resp.StatusCode)
	}
	c.SetDeadline(time.Time{})
	return &rawWS{c, br}, nil
}

func (w *rawWS) writeFrame(op byte, payload []byte) error {
	n := len(payload)
	hdr := []byte{0x80 | op}
	switch {
	case n < 126:
		hdr = append(hdr, 0x80|byte(n))
	case n < 65536:
		hdr = append(hdr, 0x80|126, byte(n>>8), byte(n))
	default:
		hdr = append(hdr, 0x80|127, 0, 0, 0, 0, 0, 0, 0, 0)
		binary.BigEndian.PutUint64(hdr[2:], uint64(n))
	}
	mask := [4]byte{0x37, 0xfa, 0x21, 0x3d}
	buf := make([]byte, 0, len(hdr)+4+n)
	buf = append(append(buf, hdr...), mask[:]...)
	for i, b := range payload {
		buf = append(buf, b^mask[i%4])
	}
	_, err := w.c.Write(buf)
	return err
}

func (w *rawWS) writeText(b []byte) error { return w.writeFrame(1, b) }

// the next data message; errWSClosed when the server sends a close frame, io.EOF when it just closes
func (w *rawWS) readMessage() ([]byte, error) {
	var msg []byte
	for {
		var h [2]byte
		if _, err := io.ReadFull(w.br, h[:]); err != nil {
			return nil, err
		}
		fin, op := h[0]&0x80 != 0, h[0]&0x0f
		n := uint64(h[1] & 0x7f)
		switch n {
		case 126:
			var e [2]byte
			if _, err := io.ReadFull(w.br, e[:]); err != nil {
				return nil, err
			}
			n = uint64(binary.BigEndian.Uint16(e[:]))
		case 127:
			var e [8]byte
			if _, err := io.ReadFull(w.br, e[:]); err != nil {
				return nil, err
			}
			n = binary.BigEndian.Uint64(e[:])
		}
		var mask [4]byte
		if h[1]&0x80 != 0 {
			if _, err := io.ReadFull(w.br, mask[:]); err != nil {
				return nil, err
			}
		}
		if n > 1<<30 {
			return nil, fmt.Errorf("websocket: frame of %d bytes", n)
		}
		p := make([]byte, n)
		if _, err := io.ReadFull(w.br, p); err != nil {
			return nil, err
		}
		if h[1]&0x80 != 0 {
			for i := range p {
				p[i] ^= mask[i%4]
			}
		}
		switch op {
		case 8:
			return nil, errWSClosed
		case 9:
			w.writeFrame(10, p)
		case 10:
		default:
			msg = append(msg, p...)
			if fin {
				return msg, nil
			}
		}
	}
}

func (w *rawWS) close() { w.c.Close() }

// one frame whose payload is streamed from r (n bytes): fin / opcode free, so that a message can be sent as a
// sequence of fragments (first: the data opcode, then opcode 0) and payloads larger than anything held in memory.
// The masking key is zero (the payload goes out as it is; the mask bit is set as RFC 6455 demands of a client).
func (w *rawWS) writeFrameFrom(op byte, fin bool, r io.Reader, n int) error {
	b0 := op
	if fin {
		b0 |= 0x80
	}
	hdr := []byte{b0}
	switch {
	case n < 126:
		hdr = append(hdr, 0x80|byte(n))
	case n < 65536:
		hdr = append(hdr, 0x80|126, byte(n>>8), byte(n))
	default:
		hdr = append(hdr, 0x80|127, 0, 0, 0, 0, 0, 0, 0, 0)
		binary.BigEndian.PutUint64(hdr[2:], uint64(n))
	}
	hdr = append(hdr, 0, 0, 0, 0)
	bw := bufio.NewWriterSize(w.c, 64<<10)
	if _, err := bw.Write(hdr); err != nil {
		return err
	}
	if _, err := io.CopyN(bw, r, int64(n)); err != nil {
		return err
	}
	return bw.Flush()
}

// a text message as fragments of the given sizes (their sum is the length of the message); optionally a ping
// control frame between two fragments (control frames may be interleaved with the fragments of a message)
func (w *rawWS) writeFragments(r io.Reader, sizes []int, pings bool) error {
	for i, sz := range sizes {
		op := byte(0)
		if i == 0 {
			op = 1
		}
		if err := w.writeFrameFrom(op, i == len(sizes)-1, r, sz); err != nil {
			return err
		}
		if pings && i < len(sizes)-1 && i%3 == 0 {
			if err := w.writeFrame(9, []byte("p")); err != nil {
				return err
			}
		}
	}
	return nil
}
