package main

// "A block returned as JSON and fed back parses to the same block with the same hash."
//   - the text form of every scalar field against the print / parse model (coq/theories/JsonText.v): boundary
//     values through the real MarshalJSON, canonical and mutated texts through the real UnmarshalJSON of
//     nom.AccountBlock and api.AccountBlock, field by field (cases jt_print / jt_parse)
//   - oracle json-roundtrip-same-hash: synthetic blocks of every type with boundary values, descendants and
//     contract receives (the blocks of real histories are covered by runJson)
//   - oracle non-canonical-json-text-rejected-or-same-block: a text that differs from what MarshalJSON prints only
//     in representation (letter case of hex / bech32, sign and leading zeros of amounts, bech32m checksum, short
//     bech32 payload, line breaks and unused bits in base64, arrays for byte strings, null for zero values, member
//     names under case folding, escapes, white space, repeated and unknown members) is refused or gives the same block

import (
	"bytes"
	"crypto/ed25519"
	"encoding/base64"
	"encoding/hex"
	"encoding/json"
	"fmt"
	"math/big"
	"math/rand"
	"strings"
	"unicode/utf8"

	"github.com/zenon-network/go-zenon/chain/nom"
	"github.com/zenon-network/go-zenon/common/types"
	"github.com/zenon-network/go-zenon/rpc/api"
	. "zharness/hz"
)

// ---- bech32 with either checksum constant (to build the texts the library accepts but never prints)
const b32chars = "qpzry9x8gf2tvdw0s3jn54khce6mua7l"

func b32polymod(vals []byte) uint32 {
	gen := []uint32{0x3b6a57b2, 0x26508e6d, 0x1ea119fa, 0x3d4233dd, 0x2a1462b3}
	chk := uint32(1)
	for _, v := range vals {
		b := chk >> 25
		chk = (chk&0x1ffffff)<<5 ^ uint32(v)
		for i := 0; i < 5; i++ {
			if (b>>uint(i))&1 == 1 {
				chk ^= gen[i]
			}
		}
	}
	return chk
}

func b32encode(hrp string, groups []byte, konst uint32) string {
	var vals []byte
	for i := 0; i < len(hrp); i++ {
		vals = append(vals, hrp[i]>>5)
	}
	vals = append(vals, 0)
	for i := 0; i < len(hrp); i++ {
		vals = append(vals, hrp[i]&31)
	}
	vals = append(vals, groups...)
	p := b32polymod(append(append([]byte{}, vals...), 0, 0, 0, 0, 0, 0)) ^ konst
	var sb strings.Builder
	sb.WriteString(hrp)
	sb.WriteByte('1')
	for _, g := range groups {
		sb.WriteByte(b32chars[g&31])
	}
	for i := 0; i < 6; i++ {
		sb.WriteByte(b32chars[(p>>uint(5*(5-i)))&31])
	}
	return sb.String()
}

func to5bits(b []byte) []byte {
	var out []byte
	acc, n := uint32(0), 0
	for _, x := range b {
		acc = acc<<8 | uint32(x)
		n += 8
		for n >= 5 {
			out = append(out, byte(acc>>uint(n-5))&31)
			n -= 5
		}
	}
	if n > 0 {
		out = append(out, byte(acc<<uint(5-n))&31)
	}
	return out
}

// ---- blocks
func rndBytes(rng *rand.Rand, n int) []byte {
	b := make([]byte, n)
	switch rng.Intn(6) {
	case 0: // zeros
	case 1:
		for i := range b {
			b[i] = 0xff
		}
	case 2:
		rng.Read(b)
		if n > 0 {
			b[n-1] &= 0xe0 // the last five bits zero: a bech32 payload one group shorter decodes to the same bytes
		}
	default:
		rng.Read(b)
	}
	return b
}

func boundaryBig(rng *rand.Rand) *big.Int {
	x := new(big.Int)
	switch rng.Intn(9) {
	case 0:
		return big.NewInt(int64(rng.Intn(3)))
	case 1:
		x.Lsh(big.NewInt(1), uint(rng.Intn(300)))
		x.Add(x, big.NewInt(int64(rng.Intn(3)-1)))
	case 2:
		x.Exp(big.NewInt(10), big.NewInt(int64(rng.Intn(80))), nil)
		x.Add(x, big.NewInt(int64(rng.Intn(3)-1)))
	case 3:
		x.SetUint64(BoundaryU64(rng))
	case 4:
		x.Lsh(big.NewInt(1), 256)
		x.Sub(x, big.NewInt(int64(rng.Intn(3))))
	default:
		x.SetBytes(rndBytes(rng, 1+rng.Intn(40)))
	}
	if rng.Intn(5) == 0 {
		x.Neg(x)
	}
	return x
}

func synthBlock(rng *rand.Rand, depth int, blockType uint64) *nom.AccountBlock {
	b := &nom.AccountBlock{
		Version: BoundaryU64(rng), ChainIdentifier: BoundaryU64(rng), BlockType: blockType,
		Height: BoundaryU64(rng), FusedPlasma: BoundaryU64(rng), Difficulty: BoundaryU64(rng),
		BasePlasma: BoundaryU64(rng), TotalPlasma: BoundaryU64(rng), Amount: boundaryBig(rng),
	}
	copy(b.PreviousHash[:], rndBytes(rng, 32))
	copy(b.MomentumAcknowledged.Hash[:], rndBytes(rng, 32))
	b.MomentumAcknowledged.Height = BoundaryU64(rng)
	copy(b.Address[:], rndBytes(rng, 20))
	copy(b.ToAddress[:], rndBytes(rng, 20))
	copy(b.TokenStandard[:], rndBytes(rng, 10))
	copy(b.FromBlockHash[:], rndBytes(rng, 32))
	copy(b.ChangesHash[:], rndBytes(rng, 32))
	copy(b.Nonce.Data[:], rndBytes(rng, 8))
	switch rng.Intn(5) {
	case 0: // nil
	case 1:
		b.Data = []byte{}
	default:
		b.Data = rndBytes(rng, []int{1, 2, 3, 4, 5, 31, 32, 33, 100, 1000, 16384}[rng.Intn(11)])
	}
	if rng.Intn(3) > 0 {
		b.PublicKey = ed25519.PublicKey(rndBytes(rng, 32))
		b.Signature = rndBytes(rng, 64)
	}
	if depth > 0 && (blockType == nom.BlockTypeContractReceive || rng.Intn(6) == 0) {
		for i, k := 0, rng.Intn(4); i < k; i++ {
			b.DescendantBlocks = append(b.DescendantBlocks, synthBlock(rng, depth-1, nom.BlockTypeContractSend))
		}
	}
	b.Hash = b.ComputeHash()
	return b
}

func sameBytes(a, b []byte) bool { return bytes.Equal(a, b) } // nil and empty are the same byte string

func sameBlock(a, b *nom.AccountBlock) bool {
	amt := func(x *big.Int) *big.Int {
		if x == nil {
			return big.NewInt(0)
		}
		return x
	}
	if a.Version != b.Version || a.ChainIdentifier != b.ChainIdentifier || a.BlockType != b.BlockType || a.Hash != b.Hash ||
		a.PreviousHash != b.PreviousHash || a.Height != b.Height || a.MomentumAcknowledged != b.MomentumAcknowledged ||
		a.Address != b.Address || a.ToAddress != b.ToAddress || amt(a.Amount).Cmp(amt(b.Amount)) != 0 || a.TokenStandard != b.TokenStandard ||
		a.FromBlockHash != b.FromBlockHash || !sameBytes(a.Data, b.Data) || a.FusedPlasma != b.FusedPlasma || a.Difficulty != b.Difficulty ||
		a.Nonce != b.Nonce || a.BasePlasma != b.BasePlasma || a.TotalPlasma != b.TotalPlasma || a.ChangesHash != b.ChangesHash ||
		!sameBytes(a.PublicKey, b.PublicKey) || !sameBytes(a.Signature, b.Signature) || len(a.DescendantBlocks) != len(b.DescendantBlocks) {
		return false
	}
	for i := range a.DescendantBlocks {
		if !sameBlock(a.DescendantBlocks[i], b.DescendantBlocks[i]) {
			return false
		}
	}
	return true
}

// ---- the JSON object of a block as an ordered list of members (the text of every value kept as it is)
type member struct {
	key string
	val json.RawMessage
}

func membersOf(raw []byte) []member {
	var ms []member
	dec := json.NewDecoder(bytes.NewReader(raw))
	dec.UseNumber()
	dec.Token()
	for dec.More() {
		k, _ := dec.Token()
		var v json.RawMessage
		dec.Decode(&v)
		ms = append(ms, member{k.(string), v})
	}
	return ms
}

func objectOf(ms []member) []byte {
	var sb bytes.Buffer
	sb.WriteByte('{')
	for i, m := range ms {
		if i > 0 {
			sb.WriteByte(',')
		}
		sb.WriteString(jsonString(m.key))
		sb.WriteByte(':')
		sb.Write(m.val)
	}
	sb.WriteByte('}')
	return sb.Bytes()
}

func withMember(ms []member, key string, val string) []member {
	out := make([]member, len(ms))
	copy(out, ms)
	for i := range out {
		if out[i].key == key {
			out[i].val = json.RawMessage(val)
		}
	}
	return out
}

func getMember(ms []member, key string) json.RawMessage {
	for _, m := range ms {
		if m.key == key {
			return m.val
		}
	}
	return nil
}

func unquote(raw json.RawMessage) string {
	var s string
	json.Unmarshal(raw, &s)
	return s
}

// both unmarshallers on a text; nil = refused
func parseBoth(text []byte) (*nom.AccountBlock, *api.AccountBlock, interface{}) {
	var nb *nom.AccountBlock
	var ab *api.AccountBlock
	p := protect(func() {
		x := new(nom.AccountBlock)
		if json.Unmarshal(text, x) == nil {
			nb = x
		}
		y := new(api.AccountBlock)
		if json.Unmarshal(text, y) == nil {
			ab = y
		}
	})
	return nb, ab, p
}

// ---- text mutations
func mutateText(rng *rand.Rand, t string, alphabet string) string {
	b := []byte(t)
	pos := func() int {
		if len(b) == 0 {
			return 0
		}
		return rng.Intn(len(b))
	}
	pick := func(s string) byte { return s[rng.Intn(len(s))] }
	switch rng.Intn(16) {
	case 0:
		return strings.ToUpper(t)
	case 1:
		if len(b) > 0 {
			p := pos()
			b[p] = strings.ToUpper(string(b[p]))[0]
		}
	case 2:
		return strings.ToLower(t)
	case 3:
		return []string{"0", "00", "+", "-", " ", "\n", "0x", "="}[rng.Intn(8)] + t
	case 4:
		return t + []string{" ", "\n", "0", "=", "==", "\r\n", "A", "q", "."}[rng.Intn(9)]
	case 5:
		if len(b) > 0 {
			b = b[:len(b)-1-rng.Intn(imin(len(b), 3))]
		}
	case 6:
		if len(b) > 0 {
			b = b[1:]
		}
	case 7:
		p := pos()
		b = append(b[:p:p], append([]byte{pick("\n\r \t")}, b[p:]...)...)
	case 8:
		if len(b) > 1 {
			p := rng.Intn(len(b) - 1)
			b[p], b[p+1] = b[p+1], b[p]
		}
	case 9:
		if len(b) > 0 {
			b[pos()] = pick(alphabet)
		}
	case 10:
		if len(b) > 0 {
			b[pos()] = pick("!=gGOb1io_-+/. \"\\\x7f\x00\xff")
		}
	case 11:
		p := pos()
		b = append(b[:p:p], append([]byte{pick(alphabet)}, b[p:]...)...)
	case 12:
		return ""
	case 13:
		return t + t
	case 14:
		if len(b) > 0 { // the last character replaced by its neighbour in the alphabet (unused low bits)
			if i := strings.IndexByte(alphabet, b[len(b)-1]); i >= 0 {
				b[len(b)-1] = alphabet[(i+1)%len(alphabet)]
			}
		}
	}
	return string(b)
}

func imin(a, b int) int {
	if a < b {
		return a
	}
	return b
}

func optBytes(b []byte, ok bool) interface{} {
	if !ok {
		return None()
	}
	l := Lst()
	for _, x := range b {
		l = append(l, I64(int64(x)))
	}
	return Some(l)
}

const hexAlphabet = "0123456789abcdefABCDEF"
const b64Alphabet = "ABCDEFGHIJKLMNOPQRSTUVWXYZabcdefghijklmnopqrstuvwxyz0123456789+/"

// what the JSON decoder hands on for a string: every byte that is not part of valid UTF-8 becomes U+FFFD
func decodedString(s string) []byte {
	var out []byte
	for i := 0; i < len(s); {
		r, size := utf8.DecodeRuneInString(s[i:])
		if r == utf8.RuneError && size == 1 {
			out = append(out, "\uFFFD"...)
		} else {
			out = append(out, s[i:i+size]...)
		}
		i += size
	}
	return out
}

// ---- field by field
func runJsonText(rng *rand.Rand, n int, out *Out) {
	u64Fields := []string{"version", "chainIdentifier", "blockType", "height", "fusedPlasma", "difficulty", "basePlasma", "usedPlasma"}
	hashFields := []string{"hash", "previousHash", "fromBlockHash", "changesHash"}
	for it := 0; it < n; it++ {
		b := synthBlock(rng, 1, uint64(1+rng.Intn(5)))
		raw, err := json.Marshal(b)
		if err != nil {
			out.Oracle(false, "json-roundtrip-same-hash", Tup("marshal", err.Error()))
			continue
		}
		ms := membersOf(raw)
		// ---------- print side: what MarshalJSON wrote for every field
		out.Case("jt_print", Con("PAmount", Big(b.Amount)), unquote(getMember(ms, "amount")), "amount")
		for _, f := range u64Fields[:2+rng.Intn(3)] {
			var v json.Number
			json.Unmarshal(getMember(ms, f), &v)
			out.Case("jt_print", Con("PU64", v), string(getMember(ms, f)), "u64")
		}
		out.Case("jt_print", Con("PNonce", Byt(b.Nonce.Data[:])), unquote(getMember(ms, "nonce")), "nonce")
		out.Case("jt_print", Con("PHash", Byt(b.PreviousHash[:])), unquote(getMember(ms, "previousHash")), "hash")
		out.Case("jt_print", Con("PAddr", Byt(b.Address[:])), unquote(getMember(ms, "address")), "address")
		out.Case("jt_print", Con("PZts", Byt(b.TokenStandard[:])), unquote(getMember(ms, "tokenStandard")), "zts")
		if b.Data != nil {
			if len(b.Data) <= 400 { // longer byte strings: the round-trip oracle only (the terms get large)
				out.Case("jt_print", Con("PData", Byt(b.Data)), unquote(getMember(ms, "data")), "data")
			}
		} else {
			out.Oracle(string(getMember(ms, "data")) == "null", "json-nil-data-is-null", Tup(string(getMember(ms, "data"))))
		}

		// ---------- parse side: one field replaced by a text, both unmarshallers
		try := func(field, val string) (*nom.AccountBlock, *api.AccountBlock, bool) {
			nb, ab, p := parseBoth(objectOf(withMember(ms, field, val)))
			out.Oracle(p == nil, "json-parse-never-panics", Tup(field, val, fmt.Sprint(p)))
			// the two unmarshallers agree on everything except the nonce
			agree := (nb == nil) == (ab == nil) || field == "nonce"
			if nb != nil && ab != nil {
				x := ab.AccountBlock
				x.Nonce = nb.Nonce
				agree = sameBlock(nb, &x)
			}
			out.Oracle(agree, "json-nom-and-api-unmarshal-agree", Tup(field, val))
			return nb, ab, p == nil
		}
		str := func(s string) string { return jsonString(s) }
		textOf := func(s string) interface{} { return Byt(decodedString(s)) }

		// amounts
		for k := 0; k < 6; k++ {
			var t string
			switch rng.Intn(5) {
			case 0:
				t = []string{"", "-", "+", "-0", "+0", "00", "007", "+5", "--1", "+-1", "1e3", "0x10", "1_000", " 1", "1 ", "١٢", "1.0", "-00012", "+000", "9" + strings.Repeat("0", 400), "<nil>", "NaN", "0b1", "1,000"}[rng.Intn(24)]
			case 1:
				t = boundaryBig(rng).String()
			default:
				t = mutateText(rng, boundaryBig(rng).String(), "0123456789+-")
			}
			if nb, _, ok := try("amount", str(t)); ok && nb != nil {
				out.Case("jt_parse", Con("JAmount", textOf(t)), Some(Lst(Big(nb.Amount))), "amount")
			} else if ok {
				out.Case("jt_parse", Con("JAmount", textOf(t)), None(), "amount-refused")
			}
		}
		// uint64 fields (the raw JSON token)
		for k := 0; k < 5; k++ {
			f := u64Fields[rng.Intn(len(u64Fields))]
			var t string
			switch rng.Intn(4) {
			case 0:
				t = []string{"null", "0", "-0", "1.0", "1e0", "1E2", "-1", "18446744073709551615", "18446744073709551616", "9223372036854775808", "01", "+1", "1.", ".5", "true", `"5"`, "0.0", "00", "1e-1", "123456789012345678901234567890", "0x1", "1_0", "١"}[rng.Intn(23)]
			case 1:
				t = fmt.Sprint(BoundaryU64(rng))
			default:
				t = mutateText(rng, fmt.Sprint(BoundaryU64(rng)), "0123456789eE.-+")
			}
			if strings.ContainsAny(t, "{}[],:\" \n\r\t\\") && t != `"5"` {
				continue // would change the structure of the document, not the field
			}
			nb, _, ok := try(f, t)
			if !ok {
				continue
			}
			if nb == nil {
				out.Case("jt_parse", Con("JU64", Byt([]byte(t))), None(), "u64-refused")
				continue
			}
			v := map[string]uint64{"version": nb.Version, "chainIdentifier": nb.ChainIdentifier, "blockType": nb.BlockType, "height": nb.Height,
				"fusedPlasma": nb.FusedPlasma, "difficulty": nb.Difficulty, "basePlasma": nb.BasePlasma, "usedPlasma": nb.TotalPlasma}[f]
			out.Case("jt_parse", Con("JU64", Byt([]byte(t))), Some(Lst(U64(v))), "u64")
		}
		// nonce (nom refuses what Nonce.UnmarshalText refuses; api keeps the zero nonce)
		for k := 0; k < 4; k++ {
			t := mutateText(rng, hex.EncodeToString(rndBytes(rng, 8)), hexAlphabet)
			if rng.Intn(4) == 0 {
				t = hex.EncodeToString(rndBytes(rng, 8))
			}
			nb, ab, ok := try("nonce", str(t))
			if !ok {
				continue
			}
			if nb == nil {
				out.Case("jt_parse", Con("JNonceNom", textOf(t)), None(), "nonce-nom-refused")
			} else {
				out.Case("jt_parse", Con("JNonceNom", textOf(t)), optBytes(nb.Nonce.Data[:], true), "nonce-nom")
			}
			if ab != nil {
				out.Case("jt_parse", Con("JNonceApi", textOf(t)), optBytes(ab.Nonce.Data[:], true), "nonce-api")
			} else {
				out.Oracle(false, "json-api-nonce-never-refused", Tup(t))
			}
		}
		// hashes
		for k := 0; k < 4; k++ {
			f := hashFields[rng.Intn(len(hashFields))]
			t := mutateText(rng, hex.EncodeToString(rndBytes(rng, 32)), hexAlphabet)
			if rng.Intn(4) == 0 {
				t = hex.EncodeToString(rndBytes(rng, 32))
			}
			nb, _, ok := try(f, str(t))
			if !ok {
				continue
			}
			if nb == nil {
				out.Case("jt_parse", Con("JHash", textOf(t)), None(), "hash-refused")
				continue
			}
			h := map[string]types.Hash{"hash": nb.Hash, "previousHash": nb.PreviousHash, "fromBlockHash": nb.FromBlockHash, "changesHash": nb.ChangesHash}[f]
			out.Case("jt_parse", Con("JHash", textOf(t)), optBytes(h[:], true), "hash")
		}
		// addresses and token standards
		for k := 0; k < 8; k++ {
			isZts := rng.Intn(3) == 0
			size, hrp, field, con := 20, "z", []string{"address", "toAddress"}[rng.Intn(2)], "JAddr"
			if isZts {
				size, hrp, field, con = 10, "zts", "tokenStandard", "JZts"
			}
			payload := rndBytes(rng, size)
			groups := to5bits(payload)
			var t string
			switch rng.Intn(12) {
			case 0:
				t = b32encode(hrp, groups, 1)
			case 1:
				t = b32encode(hrp, groups, 0x2bc830a3) // bech32m
			case 2:
				t = b32encode(hrp, groups[:len(groups)-1], 1) // one group short: padded with zero bits
			case 3:
				t = b32encode(hrp, append(groups, byte(rng.Intn(32))), 1) // one group too many
			case 4:
				t = strings.ToUpper(b32encode(hrp, groups, 1))
			case 5:
				t = b32encode([]string{"zts", "z", "x", "Z", "z1", ""}[rng.Intn(6)], groups, 1)
			case 6:
				t = b32encode(hrp, groups, uint32(rng.Intn(4))) // another checksum constant
			case 7:
				t = b32encode(hrp, to5bits(rndBytes(rng, []int{0, 1, 5, 19, 21, 25, 40, 60}[rng.Intn(8)])), 1)
			default:
				t = mutateText(rng, b32encode(hrp, groups, 1), b32chars+"1bio")
			}
			nb, _, ok := try(field, str(t))
			if !ok {
				continue
			}
			if nb == nil {
				out.Case("jt_parse", Con(con, textOf(t)), None(), strings.ToLower(con[1:])+"-refused")
				continue
			}
			var got []byte
			switch field {
			case "address":
				got = nb.Address[:]
			case "toAddress":
				got = nb.ToAddress[:]
			default:
				got = nb.TokenStandard[:]
			}
			out.Case("jt_parse", Con(con, textOf(t)), optBytes(got, true), strings.ToLower(con[1:]))
		}
		// byte strings
		for k := 0; k < 8; k++ {
			f := []string{"data", "data", "publicKey", "signature"}[rng.Intn(4)]
			payload := rndBytes(rng, rng.Intn(12))
			var val string
			var term interface{}
			switch rng.Intn(10) {
			case 0:
				val, term = "null", Con("BJNull")
			case 1, 2: // an array of numbers
				var parts []string
				lits := Lst()
				for _, x := range payload {
					l := fmt.Sprint(x)
					if rng.Intn(12) == 0 {
						l = []string{"256", "-1", "1.0", "null", "255", "1e1", "300"}[rng.Intn(7)]
					}
					parts = append(parts, l)
					lits = append(lits, Byt([]byte(l)))
				}
				val, term = "["+strings.Join(parts, ",")+"]", Con("BJArr", lits)
			default:
				t := base64.StdEncoding.EncodeToString(payload)
				switch rng.Intn(6) {
				case 0:
				case 1:
					t = strings.TrimRight(t, "=")
				case 2:
					t = base64.URLEncoding.EncodeToString(payload)
				default:
					t = mutateText(rng, t, b64Alphabet)
				}
				val, term = str(t), Con("BJStr", textOf(t))
			}
			nb, _, ok := try(f, val)
			if !ok {
				continue
			}
			if nb == nil {
				out.Case("jt_parse", Con("JData", term), None(), "bytes-refused")
				continue
			}
			got := map[string][]byte{"data": nb.Data, "publicKey": nb.PublicKey, "signature": nb.Signature}[f]
			out.Case("jt_parse", Con("JData", term), optBytes(got, true), "bytes")
		}

		// ---------- the clause itself on the synthetic block, and the non-canonical texts
		roundtrip(out, b, raw, "synthetic")
		nonCanonical(rng, out, b, ms)
	}
}

// a block printed and parsed again is the same block and has the same hash; printing it again gives the same text
func roundtrip(out *Out, b *nom.AccountBlock, raw []byte, where string) {
	nb, _, p := parseBoth(raw)
	ok := p == nil && nb != nil && sameBlock(b, nb) && nb.ComputeHash() == b.ComputeHash() && nb.Hash == b.Hash
	if ok {
		raw2, err := json.Marshal(nb)
		ok = err == nil && bytes.Equal(raw, raw2)
	}
	// through the api type: the same ledger block
	ab := &api.AccountBlock{AccountBlock: *b}
	araw, err := json.Marshal(ab)
	back := new(api.AccountBlock)
	ok2 := err == nil && json.Unmarshal(araw, back) == nil && sameBlock(b, &back.AccountBlock) && back.AccountBlock.ComputeHash() == b.ComputeHash()
	out.Count(fmt.Sprintf("json:%s:blocktype=%d:descendants=%d", where, b.BlockType, imin(len(b.DescendantBlocks), 2)))
	out.Oracle(ok && ok2, "json-roundtrip-same-hash", Tup(where, string(raw[:imin(len(raw), 1500)])))
}

// texts that MarshalJSON never prints but that stand for the same value
func nonCanonical(rng *rand.Rand, out *Out, b *nom.AccountBlock, ms []member) {
	upperHex := func(raw json.RawMessage) string { return strings.ToUpper(string(raw)) }
	for k := 0; k < 6; k++ {
		m2 := make([]member, len(ms))
		copy(m2, ms)
		what := ""
		set := func(key, val string) { m2 = withMember(m2, key, val) }
		switch rng.Intn(16) {
		case 0:
			what = "amount-plus-or-zeros"
			if b.Amount.Sign() >= 0 {
				set("amount", jsonString([]string{"+", "0", "000", "+00"}[rng.Intn(4)]+b.Amount.String()))
			} else {
				set("amount", jsonString("-"+[]string{"0", "000"}[rng.Intn(2)]+b.Amount.String()[1:]))
			}
		case 1:
			what = "zero-amount-forms"
			if b.Amount.Sign() != 0 {
				continue
			}
			set("amount", []string{`"-0"`, `""`, `null`, `"+0"`, `"00"`}[rng.Intn(5)])
		case 2:
			what = "hex-upper-case"
			f := []string{"hash", "previousHash", "fromBlockHash", "changesHash", "nonce"}[rng.Intn(5)]
			set(f, upperHex(getMember(ms, f)))
		case 3:
			what = "bech32-upper-case"
			f := []string{"address", "toAddress", "tokenStandard"}[rng.Intn(3)]
			set(f, strings.ToUpper(string(getMember(ms, f))))
		case 4:
			what = "bech32m-checksum"
			set("address", jsonString(b32encode("z", to5bits(b.Address[:]), 0x2bc830a3)))
			set("tokenStandard", jsonString(b32encode("zts", to5bits(b.TokenStandard[:]), 0x2bc830a3)))
		case 5:
			what = "bech32-short-payload"
			if b.ToAddress[19]&0x1f != 0 {
				continue
			}
			g := to5bits(b.ToAddress[:])
			set("toAddress", jsonString(b32encode("z", g[:len(g)-1], 1)))
		case 6:
			what = "base64-line-breaks"
			f := []string{"data", "publicKey", "signature"}[rng.Intn(3)]
			t := unquote(getMember(ms, f))
			if len(t) == 0 {
				continue
			}
			p := rng.Intn(len(t) + 1)
			set(f, jsonString(t[:p]+[]string{"\n", "\r\n", "\r"}[rng.Intn(3)]+t[p:]))
		case 7:
			what = "base64-unused-bits"
			t := unquote(getMember(ms, "data"))
			if !strings.HasSuffix(t, "=") {
				continue
			}
			i := len(strings.TrimRight(t, "=")) - 1
			c := strings.IndexByte(b64Alphabet, t[i])
			set("data", jsonString(t[:i]+string(b64Alphabet[c+1])+t[i+1:]))
		case 8:
			what = "bytes-as-array"
			f := []string{"data", "publicKey", "signature"}[rng.Intn(3)]
			v := map[string][]byte{"data": b.Data, "publicKey": b.PublicKey, "signature": b.Signature}[f]
			parts := make([]string, len(v))
			for i, x := range v {
				parts[i] = fmt.Sprint(x)
			}
			set(f, "["+strings.Join(parts, ",")+"]")
		case 9:
			what = "null-for-zero"
			done := false
			for _, f := range []string{"version", "chainIdentifier", "height", "fusedPlasma", "difficulty", "basePlasma", "usedPlasma"} {
				if string(getMember(ms, f)) == "0" {
					set(f, "null")
					done = true
				}
			}
			if len(b.Data) == 0 {
				set("data", []string{"null", `""`, "[]"}[rng.Intn(3)])
				done = true
			}
			if !done {
				continue
			}
		case 10:
			what = "member-name-case"
			i := rng.Intn(len(m2))
			switch rng.Intn(3) {
			case 0:
				m2[i].key = strings.ToUpper(m2[i].key)
			case 1:
				m2[i].key = strings.ToLower(m2[i].key)
			default:
				m2[i].key = strings.Replace(strings.Replace(m2[i].key, "s", "ſ", 1), "k", "K", 1)
			}
		case 11:
			what = "string-escapes"
			i := rng.Intn(len(m2))
			if len(m2[i].val) < 3 || m2[i].val[0] != '"' {
				continue
			}
			s := unquote(m2[i].val)
			p := rng.Intn(len(s))
			m2[i].val = json.RawMessage(`"` + s[:p] + fmt.Sprintf("\\u%04x", s[p]) + s[p+1:] + `"`)
		case 12:
			what = "repeated-member"
			i := rng.Intn(len(m2))
			m2 = append(m2, m2[i])
		case 13:
			what = "unknown-member"
			m2 = append(m2, member{[]string{"extra", "", "Hash2", "amount ", "__proto__"}[rng.Intn(5)], json.RawMessage([]string{"1", "null", `{"a":[1]}`, `"x"`}[rng.Intn(4)])})
		case 14:
			what = "member-order"
			rng.Shuffle(len(m2), func(i, j int) { m2[i], m2[j] = m2[j], m2[i] })
		case 15:
			what = "white-space"
			text := objectOf(m2)
			text = bytes.ReplaceAll(text, []byte(`,"`), []byte(" ,\n\t\""))
			text = bytes.ReplaceAll(text, []byte(`":`), []byte("\" :\r\n "))
			checkNonCanonical(out, b, append([]byte(" \n"), append(text, ' ', '\n')...), what)
			continue
		}
		checkNonCanonical(out, b, objectOf(m2), what)
	}
}

func checkNonCanonical(out *Out, b *nom.AccountBlock, text []byte, what string) {
	nb, ab, p := parseBoth(text)
	ok := p == nil && (nb == nil || sameBlock(b, nb))
	if ok && ab != nil {
		ok = sameBlock(b, &ab.AccountBlock)
	}
	verdict := "refused"
	if nb != nil {
		verdict = "same-block"
	}
	out.Count("json:second-text-form:" + what + ":" + verdict)
	out.Oracle(ok, "non-canonical-json-text-rejected-or-same-block", Tup(what, string(text[:imin(len(text), 1500)])))
}
