package main

import (
	"fmt"
	"math/big"
	"math/rand"

	g "github.com/zenon-network/go-zenon/chain/genesis/mock"
	"github.com/zenon-network/go-zenon/chain/nom"
	"github.com/zenon-network/go-zenon/common/types"
	"github.com/zenon-network/go-zenon/rpc/api"
	"github.com/zenon-network/go-zenon/vm/embedded/definition"
	. "zharness/hz"
)

func heightsFor(rng *rand.Rand, h uint64) []uint64 {
	r := []uint64{0, 1, 2, h, h + 1, h + 2, 1 << 63, 1<<63 - 1, ^uint64(0), ^uint64(0) - 1, ^uint64(0) - 2, BoundaryU64(rng), rng.Uint64()}
	if h > 1 {
		r = append(r, h-1, 1+uint64(rng.Int63n(int64(h))))
	}
	return r
}
func countsFor(rng *rand.Rand, h uint64) []uint64 {
	return []uint64{0, 1, 2, 3, h, h + 1, 1023, 1024, 1025, 1 << 32, 1 << 63, ^uint64(0), uint64(rng.Intn(1025)), uint64(rng.Intn(8)), BoundaryU64(rng)}
}

// [height, height+count) ∩ [1, h], ascending, computed without machine arithmetic
func exactRange(h, height, count uint64) []uint64 {
	var r []uint64
	lo := new(big.Int).SetUint64(height)
	hi := new(big.Int).Add(lo, new(big.Int).SetUint64(count))
	for x := uint64(1); x <= h; x++ {
		bx := new(big.Int).SetUint64(x)
		if bx.Cmp(lo) >= 0 && bx.Cmp(hi) < 0 {
			r = append(r, x)
		}
	}
	return r
}
func eqU64(a, b []uint64) bool {
	if len(a) != len(b) {
		return false
	}
	for i := range a {
		if a[i] != b[i] {
			return false
		}
	}
	return true
}
func lstU64(a []uint64) []interface{} {
	r := Lst()
	for _, x := range a {
		r = append(r, U64(x))
	}
	return r
}

type heightList struct {
	name   string
	h      uint64
	byH    func(height, count uint64) ([]uint64, []types.Hash, int64, error)
	byP    func(idx, size uint32) ([]uint64, []types.Hash, int64, error)
	hashAt func(height uint64) types.Hash
}

func (hs *hist) checkHeightList(hl heightList, fnH, fnP string) {
	out, rng := hs.out, hs.rng
	h := hl.h
	for _, height := range heightsFor(rng, h) {
		for _, count := range countsFor(rng, h) {
			if rng.Intn(3) == 0 {
				continue
			}
			var hts []uint64
			var hashes []types.Hash
			var cnt int64
			var err error
			if p := protect(func() { hts, hashes, cnt, err = hl.byH(height, count) }); p != nil {
				out.Oracle(false, "byheight-call-panics", Tup(hl.name, U64(h), U64(height), U64(count)))
				continue
			}
			ec := errClass(err)
			tag := "ok"
			if ec != 0 {
				tag = "err"
			} else if len(hts) == 0 {
				tag = "empty"
			}
			out.Case(fnH, Tup(U64(h), U64(height), U64(count)), Tup(I64(ec), lstU64(hts), I64(cnt)), tag)
			if ec != 0 {
				out.Oracle((ec == 1 && height == 0) || (ec == 2 && count > api.RpcMaxCountSize), "byheight-error-only-for-bad-params", Tup(hl.name, U64(height), U64(count), I64(ec)))
				continue
			}
			out.Oracle(count <= api.RpcMaxCountSize && uint64(len(hts)) <= count, "reply-within-count-limit", Tup(hl.name, U64(count), I64(int64(len(hts)))))
			out.Oracle(eqU64(hts, exactRange(h, height, count)), "byheight-exact-range", Tup(hl.name, U64(h), U64(height), U64(count), lstU64(hts)))
			out.Oracle(cnt == int64(h), "count-is-total", Tup(hl.name, I64(cnt), U64(h)))
			good := true
			for i, x := range hts {
				good = good && hashes[i] == hl.hashAt(x)
			}
			out.Oracle(good, "byheight-matches-store", Tup(hl.name, U64(height), U64(count)))
		}
	}
	desc := make([]uint64, 0, h)
	for x := h; x >= 1; x-- {
		desc = append(desc, x)
	}
	for _, size := range sizesFor(rng, int(h)) {
		one := func(idx uint32, tag string) ([]uint64, bool) {
			var hts []uint64
			var hashes []types.Hash
			var cnt int64
			var err error
			if p := protect(func() { hts, hashes, cnt, err = hl.byP(idx, size) }); p != nil {
				out.Oracle(false, "bypage-call-panics", Tup(hl.name, U64(h), U64(uint64(idx)), U64(uint64(size))))
				return nil, false
			}
			ec := errClass(err)
			out.Case(fnP, Tup(U64(h), U64(uint64(idx)), U64(uint64(size))), Tup(I64(ec), lstU64(hts), I64(cnt)), tag)
			if ec != 0 {
				out.Oracle(ec == 3 && size > api.RpcMaxPageSize, "page-size-limit-error-only-above-limit", Tup(hl.name, U64(uint64(size)), I64(ec)))
				return nil, false
			}
			out.Oracle(size <= api.RpcMaxPageSize && uint64(len(hts)) <= uint64(size), "reply-within-page-limit", Tup(hl.name, U64(uint64(size)), I64(int64(len(hts)))))
			out.Oracle(cnt == int64(h), "count-is-total", Tup(hl.name, I64(cnt), U64(h)))
			good := true
			for i, x := range hts {
				good = good && hashes[i] == hl.hashAt(x)
			}
			out.Oracle(good, "byheight-matches-store", Tup(hl.name, U64(uint64(idx)), U64(uint64(size))))
			return hts, true
		}
		if size == 0 || size > api.RpcMaxPageSize {
			one(bU32(rng), "size0-or-above-limit")
			continue
		}
		pages := (h + uint64(size) - 1) / uint64(size)
		if pages <= 64 {
			var cat []uint64
			good := true
			for i := uint64(0); i < pages; i++ {
				hts, ok := one(uint32(i), "in-range")
				good = good && ok
				cat = append(cat, hts...)
			}
			out.Oracle(good && eqU64(cat, desc), "bypage-concat-descending", Tup(hl.name, U64(h), U64(uint64(size)), lstU64(cat)))
		}
		for _, idx := range farIndices(rng, int(h), size) {
			hts, ok := one(idx, "beyond-end")
			if ok {
				out.Oracle(len(hts) == 0, "page-beyond-end-empty", Tup(hl.name, U64(h), U64(uint64(idx)), U64(uint64(size)), lstU64(hts)))
			}
		}
	}
}

// pointAnswers: the single-object answers of the ledger api against the ledger read independently (hz.Scanner walks the
// chain block by block; the momentum store is read by height): account info (height, every balance with its token
// record), frontier momentum, momentum by hash, momentum before a time
func (hs *hist) pointAnswers(ledger *api.LedgerApi) {
	nd, out, rng := hs.nd, hs.out, hs.rng
	sc := NewScanner(nd).Scan(true) // chain + pool, what the frontier account stores show
	tok := map[types.ZenonTokenStandard]*definition.TokenInfo{}
	for _, t := range sc.Tokens {
		tok[t.TokenStandard] = t
	}
	var unknown types.Address
	rng.Read(unknown[:])
	unknown[0] = types.UserAddrByte
	accts := append([]types.Address{unknown, types.TokenContract, types.PlasmaContract, types.PillarContract}, sc.Accounts...)
	for _, a := range accts {
		var info *api.AccountInfo
		var err error
		if p := protect(func() { info, err = ledger.GetAccountInfoByAddress(a) }); p != nil {
			out.Oracle(false, "account-info-matches-ledger", M{"address": a.String(), "panic": fmt.Sprint(p)})
			continue
		}
		if err != nil || info == nil {
			out.Oracle(false, "account-info-matches-ledger", M{"address": a.String(), "err": fmt.Sprint(err)})
			continue
		}
		want := map[string]string{}
		for z, b := range sc.Bal[a] {
			if b.Sign() != 0 && tok[z] != nil {
				want[z.String()] = b.String()
			}
		}
		got := map[string]string{}
		okTok := true
		for z, bi := range info.BalanceInfoMap {
			if bi == nil || bi.Balance == nil || bi.TokenInfo == nil {
				okTok = false
				continue
			}
			if bi.Balance.Sign() != 0 {
				got[z.String()] = bi.Balance.String()
			}
			t := tok[z]
			okTok = okTok && t != nil && bi.TokenInfo.ZenonTokenStandard == z && bi.TokenInfo.TokenSymbol == t.TokenSymbol && bi.TokenInfo.Decimals == t.Decimals &&
				bi.TokenInfo.TotalSupply.Cmp(t.TotalSupply) == 0 && bi.TokenInfo.MaxSupply.Cmp(t.MaxSupply) == 0 && bi.TokenInfo.Owner == t.Owner
		}
		h := nd.Ch.GetFrontierAccountStore(a).Identifier().Height
		out.Oracle(info.Address == a && info.AccountHeight == h && fmt.Sprint(want) == fmt.Sprint(got) && okTok, "account-info-matches-ledger",
			M{"address": a.String(), "height": info.AccountHeight, "want_height": h, "balances": fmt.Sprint(got), "want_balances": fmt.Sprint(want), "token_records_match": okTok})
		out.Count("point:account-info")
	}
	ms := nd.Ch.GetFrontierMomentumStore()
	H := ms.Identifier().Height
	fm, err := ledger.GetFrontierMomentum()
	out.Oracle(err == nil && fm != nil && fm.Height == H && fm.Hash == ms.Identifier().Hash, "frontier-momentum-matches-ledger", M{"want_height": H, "err": fmt.Sprint(err)})
	for i := 0; i < 6; i++ {
		x := 1 + uint64(rng.Int63n(int64(H)))
		m, _ := ms.GetMomentumByHeight(x)
		if m == nil {
			continue
		}
		r, err := ledger.GetMomentumByHash(m.Hash)
		out.Oracle(err == nil && r != nil && r.Height == x && r.Hash == m.Hash && r.PreviousHash == m.PreviousHash && r.Timestamp.Unix() == m.Timestamp.Unix() && len(r.Content) == len(m.Content),
			"momentum-by-hash-matches-ledger", M{"height": x, "err": fmt.Sprint(err)})
		// the last momentum strictly before time t: asked at its own second + 1 and at the next momentum's second
		for _, dt := range []int64{1, 0, -1} {
			t := m.Timestamp.Unix() + dt
			var want uint64
			for y := H; y >= 1; y-- {
				if c, _ := ms.GetMomentumByHeight(y); c != nil && c.Timestamp.Unix() < t {
					want = y
					break
				}
			}
			b, err := ledger.GetMomentumBeforeTime(t)
			gotH := uint64(0)
			if b != nil {
				gotH = b.Height
			}
			out.Oracle(err == nil && gotH == want, "momentum-before-time-matches-ledger", M{"time": t, "got": gotH, "want": want, "err": fmt.Sprint(err)})
		}
	}
	var none types.Hash
	rng.Read(none[:])
	r, err := ledger.GetMomentumByHash(none)
	out.Oracle(r == nil || err != nil, "momentum-by-unknown-hash-is-absent", M{"err": fmt.Sprint(err)})
}

func (hs *hist) byHeightAndPage(ledger *api.LedgerApi) {
	hs.pointAnswers(ledger)
	nd, out, rng := hs.nd, hs.out, hs.rng
	var unknown types.Address
	rng.Read(unknown[:])
	unknown[0] = types.UserAddrByte
	for _, addr := range []types.Address{g.User1.Address, g.User2.Address, g.User3.Address, unknown, types.TokenContract, types.PlasmaContract, types.StakeContract} {
		addr := addr
		as := nd.Ch.GetFrontierAccountStore(addr)
		h := as.Identifier().Height
		kind := "user"
		if addr == unknown {
			kind = "unknown"
		} else if types.IsEmbeddedAddress(addr) {
			kind = "contract"
		}
		out.Count("account:" + kind)
		conv := func(r *api.AccountBlockList, err error) ([]uint64, []types.Hash, int64, error) {
			if err != nil {
				return nil, nil, 0, err
			}
			var hts []uint64
			var hashes []types.Hash
			for _, b := range r.List {
				hts = append(hts, b.Height)
				hashes = append(hashes, b.Hash)
			}
			return hts, hashes, int64(r.Count), nil
		}
		hs.checkHeightList(heightList{"ledger.AccountBlocks:" + kind, h,
			func(height, count uint64) ([]uint64, []types.Hash, int64, error) {
				return conv(ledger.GetAccountBlocksByHeight(addr, height, count))
			},
			func(idx, size uint32) ([]uint64, []types.Hash, int64, error) {
				return conv(ledger.GetAccountBlocksByPage(addr, idx, size))
			},
			func(x uint64) types.Hash {
				b, _ := as.ByHeight(x)
				if b == nil {
					return types.ZeroHash
				}
				return b.Hash
			}}, "acc_by_height", "acc_by_page")
	}
	ms := nd.Ch.GetFrontierMomentumStore()
	H := ms.Identifier().Height
	conv := func(r *api.MomentumList, err error) ([]uint64, []types.Hash, int64, error) {
		if err != nil {
			return nil, nil, 0, err
		}
		var hts []uint64
		var hashes []types.Hash
		for _, b := range r.List {
			hts = append(hts, b.Height)
			hashes = append(hashes, b.Hash)
		}
		return hts, hashes, int64(r.Count), nil
	}
	hashAt := func(x uint64) types.Hash {
		m, _ := ms.GetMomentumByHeight(x)
		if m == nil {
			return types.ZeroHash
		}
		return m.Hash
	}
	hs.checkHeightList(heightList{"ledger.Momentums", H,
		func(height, count uint64) ([]uint64, []types.Hash, int64, error) {
			return conv(ledger.GetMomentumsByHeight(height, count))
		},
		func(idx, size uint32) ([]uint64, []types.Hash, int64, error) {
			return conv(ledger.GetMomentumsByPage(idx, size))
		}, hashAt}, "mom_by_height", "mom_by_page")
	// detailed momentums: same range, and every detailed entry carries exactly the blocks of its content
	for k := 0; k < 12; k++ {
		height := heightsFor(rng, H)[rng.Intn(13)]
		count := countsFor(rng, H)[rng.Intn(15)]
		r, err := ledger.GetDetailedMomentumsByHeight(height, count)
		if err != nil {
			out.Oracle(errClass(err) == 1 && height == 0 || errClass(err) == 2 && count > api.RpcMaxCountSize, "byheight-error-only-for-bad-params", Tup("ledger.DetailedMomentums", U64(height), U64(count)))
			continue
		}
		var hts []uint64
		good := true
		for _, d := range r.List {
			hts = append(hts, d.Momentum.Height)
			good = good && len(d.AccountBlocks) == len(d.Momentum.Content)
			for i, b := range d.AccountBlocks {
				good = good && i < len(d.Momentum.Content) && b.Hash == d.Momentum.Content[i].Hash
			}
		}
		out.Oracle(eqU64(hts, exactRange(H, height, count)), "byheight-exact-range", Tup("ledger.DetailedMomentums", U64(H), U64(height), U64(count), lstU64(hts)))
		out.Oracle(good, "detailed-momentum-has-its-content", Tup(U64(height), U64(count)))
	}
	// store level: momentumStore.GetMomentumsByHeight (used by RPC with higher=true and by the protocol handler with higher=false)
	for k := 0; k < 60; k++ {
		height := heightsFor(rng, H)[rng.Intn(13)]
		count := []uint64{0, 1, 2, 3, H, H + 1, 512, 513, 1024, uint64(rng.Intn(1025)), uint64(rng.Intn(8))}[rng.Intn(11)]
		higher := rng.Intn(2) == 0
		var l []*nom.Momentum
		var err error
		tag := "lower"
		if higher {
			tag = "higher"
		}
		if p := protect(func() { l, err = ms.GetMomentumsByHeight(height, higher, count) }); p != nil {
			// makeslice: cap out of range (height+1 wraps with higher=false): not reachable from RPC / protocol callers,
			// which pass higher=true or the height of an existing momentum (theorem C18_store_range_alloc_bounded)
			out.Case("mom_store_range", Tup(U64(H), U64(height), higher, U64(count)), None(), tag+"-alloc-panic")
			continue
		}
		if err != nil {
			continue
		}
		r := Lst()
		for _, m := range l {
			if m == nil {
				r = append(r, U64(0))
			} else {
				r = append(r, U64(m.Height))
			}
		}
		out.Case("mom_store_range", Tup(U64(H), U64(height), higher, U64(count)), Some(r), tag)
	}
	// unreceived blocks: page index < 10, page size <= 50
	for _, addr := range []types.Address{g.User1.Address, g.User2.Address, g.User3.Address} {
		t, err := ledger.GetUnreceivedBlocksByAddress(addr, 0, 50)
		if err != nil {
			out.Oracle(false, "unreceived-error-only-for-bad-params", Tup(U64(0), U64(50), I64(errClass(err))))
			continue
		}
		if t.Count > 50 {
			continue
		}
		out.Count("unreceived:len=" + U64(uint64(t.Count)).String())
		for _, size := range []uint32{0, 1, 2, 3, 49, 50, 51, bU32(rng)} {
			var cat []string
			for idx := uint32(0); idx < 12; idx++ {
				r, err := ledger.GetUnreceivedBlocksByAddress(addr, idx, size)
				if err != nil {
					ec := errClass(err)
					out.Oracle(ec == 3 && size > 50 || ec == 4 && idx >= 10, "unreceived-error-only-for-bad-params", Tup(U64(uint64(idx)), U64(uint64(size)), I64(ec)))
					continue
				}
				out.Oracle(size <= 50 && idx < 10 && uint64(len(r.List)) <= uint64(size), "reply-within-page-limit", Tup("ledger.Unreceived", U64(uint64(idx)), U64(uint64(size))))
				for _, b := range r.List {
					cat = append(cat, b.Hash.String())
				}
			}
			if size > 0 && size <= 50 && uint64(size)*10 >= uint64(t.Count) {
				var want []string
				for _, b := range t.List {
					want = append(want, b.Hash.String())
				}
				out.Oracle(eqStr(cat, want), "page-concat-equals-list", Tup("ledger.Unreceived", U64(uint64(size)), I64(int64(t.Count))))
			}
		}
	}
}
