package main

// Suite `readers`: every read method of the ledger api and of the embedded apis asked through the REAL rpc server (a
// child process, readchild.go) on a ledger that holds what relay / sync can legally put there (rich.go), for every
// account / hash / height the history touched, and every paged list method walked page by page for the page sizes
// 1..7, n-1, n, n+1, the limit.
//   server-process-survives                        the child is alive after the call (a panic while the answer is
//                                                  marshalled is outside the method-call recover and ends the process)
//   every-request-gets-a-response-or-clean-close   HTTP 200 with a JSON-RPC reply object
//   ledger-read-answer-matches-ledger              the answer of a ledger.* call holds every member the ledger (read block by
//   embedded-read-answer-matches-contract-storage  block / from the contract storage) says it must hold
//   page-concat-equals-list, count-is-total, reply-within-page-limit, page-beyond-end-empty, page-size-limit-enforced,
//   list-element-matches-ledger                    the pages of a list method put together are the complete list: each
//                                                  element once, in the documented order, with the right total

import (
	"bytes"
	"encoding/json"
	"fmt"
	"io"
	"math/rand"
	"net/http"
	"os"
	"sort"
	"strings"
	"time"

	. "zharness/hz"
)

type readersRun struct {
	out      *Out
	rng      *rand.Rand
	c        *child
	info     *readInfo
	seed     int64
	restarts int
	client   *http.Client
	nextID   int
	calls    int
}

func startReadChild(seed int64) (*child, *readInfo, error) {
	c, err := startChildMode("readchild", seed)
	if err != nil {
		return nil, nil, err
	}
	info := &readInfo{}
	if err := json.Unmarshal(c.first, info); err != nil {
		c.stop()
		return nil, nil, err
	}
	c.first = nil
	return c, info, nil
}

func decodeJSON(b []byte) (interface{}, error) {
	d := json.NewDecoder(bytes.NewReader(b))
	d.UseNumber()
	var v interface{}
	if err := d.Decode(&v); err != nil {
		return nil, err
	}
	return v, nil
}

// first difference between what the answer must contain and what it contains ("" = none)
func subsetDiff(want, got interface{}, path string) string {
	switch w := want.(type) {
	case map[string]interface{}:
		gm, ok := got.(map[string]interface{})
		if !ok {
			return fmt.Sprintf("%s: want an object, got %s", path, clipS(jsonText(got)))
		}
		keys := make([]string, 0, len(w))
		for k := range w {
			keys = append(keys, k)
		}
		sort.Strings(keys)
		for _, k := range keys {
			gv, ok := gm[k]
			if !ok {
				return fmt.Sprintf("%s/%s: member missing (want %s)", path, k, clipS(jsonText(w[k])))
			}
			if d := subsetDiff(w[k], gv, path+"/"+k); d != "" {
				return d
			}
		}
		return ""
	case []interface{}:
		ga, ok := got.([]interface{})
		if !ok {
			return fmt.Sprintf("%s: want an array of %d, got %s", path, len(w), clipS(jsonText(got)))
		}
		if len(ga) != len(w) {
			return fmt.Sprintf("%s: want %d elements, got %d", path, len(w), len(ga))
		}
		for i := range w {
			if d := subsetDiff(w[i], ga[i], fmt.Sprintf("%s/%d", path, i)); d != "" {
				return d
			}
		}
		return ""
	}
	if jsonText(want) != jsonText(got) {
		return fmt.Sprintf("%s: want %s, got %s", path, clipS(jsonText(want)), clipS(jsonText(got)))
	}
	return ""
}

func jsonText(v interface{}) string {
	b, err := json.Marshal(v)
	if err != nil {
		return "?" + err.Error()
	}
	return string(b)
}

type rpcAnswer struct {
	result  interface{}
	hasRes  bool
	errText string // the error member, when there is one
	terr    string // transport failure / malformed reply
	raw     []byte
}

func (rr *readersRun) call(method string, params json.RawMessage) rpcAnswer {
	rr.nextID++
	rr.calls++
	body := fmt.Sprintf(`{"jsonrpc":"2.0","id":%d,"method":%s,"params":%s}`, rr.nextID, jsonString(method), string(params))
	resp, err := rr.client.Post(rr.info.HTTP, "application/json", strings.NewReader(body))
	if err != nil {
		return rpcAnswer{terr: err.Error()}
	}
	defer resp.Body.Close()
	b, err := io.ReadAll(resp.Body)
	if err != nil {
		return rpcAnswer{terr: "reading the answer: " + err.Error(), raw: b}
	}
	if resp.StatusCode != 200 {
		return rpcAnswer{terr: fmt.Sprintf("http status %d", resp.StatusCode), raw: b}
	}
	v, err := decodeJSON(b)
	if err != nil {
		return rpcAnswer{terr: "answer is not JSON: " + err.Error(), raw: b}
	}
	m, ok := v.(map[string]interface{})
	if !ok || jsonText(m["id"]) != fmt.Sprint(rr.nextID) {
		return rpcAnswer{terr: "answer is not the reply object of the request", raw: b}
	}
	a := rpcAnswer{raw: b}
	if e, ok := m["error"]; ok && e != nil {
		a.errText = jsonText(e)
		return a
	}
	if r, ok := m["result"]; ok {
		a.result, a.hasRes = r, true
		return a
	}
	a.terr = "reply has neither result nor error"
	return a
}

// after a transport failure: did the server die? reports, restarts; false = stop the suite
func (rr *readersRun) transport(method string, params json.RawMessage, a rpcAnswer, note string) bool {
	if a.terr == "" {
		rr.out.Oracle(true, "server-process-survives", nil)
		rr.out.Oracle(true, "every-request-gets-a-response-or-clean-close", nil)
		return true
	}
	if rr.c.isDead(1500 * time.Millisecond) {
		rr.out.Oracle(false, "server-process-survives", M{"transport": "http", "method": method, "params": clipS(string(params)), "death": rr.c.deathNote(), "note": note})
	} else {
		rr.out.Oracle(false, "every-request-gets-a-response-or-clean-close", M{"transport": "http", "method": method, "params": clipS(string(params)), "failure": a.terr, "answer": clip(a.raw), "note": note})
	}
	rr.c.stop()
	rr.restarts++
	if rr.restarts >= 4 {
		return false
	}
	c, info, err := startReadChild(rr.seed)
	if err != nil {
		panic("cannot restart the readers child: " + err.Error())
	}
	rr.c, rr.info.HTTP = c, info.HTTP
	rr.client.CloseIdleConnections()
	return true
}

// reads that have to show a block naming a token standard the token contract does not know, answered with an error
const oddKey = "ledger-read-of-block-naming-undeclared-token"

func oracleKeyFor(method string) string {
	if strings.HasPrefix(method, "ledger.") {
		return "ledger-read-answer-matches-ledger"
	}
	return "embedded-read-answer-matches-contract-storage"
}

func (rr *readersRun) read(s *readSpec) bool {
	a := rr.call(s.Method, s.Params)
	if a.terr != "" {
		return rr.transport(s.Method, s.Params, a, s.Note)
	}
	rr.transport(s.Method, s.Params, a, s.Note)
	rr.out.Count("readers:read:" + s.Method)
	if s.Any {
		return true
	}
	key := oracleKeyFor(s.Method)
	detail := func(why string) M {
		return M{"method": s.Method, "params": clipS(string(s.Params)), "difference": why, "note": s.Note}
	}
	if a.errText != "" {
		if s.Odd {
			key = oddKey
		}
		rr.out.Oracle(false, key, detail("the server answers the error "+clipS(a.errText)+" where the ledger holds "+clipS(string(s.Want))))
		return true
	}
	if s.Odd {
		rr.out.Oracle(true, oddKey, nil)
	}
	want, err := decodeJSON(s.Want)
	if err != nil {
		panic(err)
	}
	if d := subsetDiff(want, a.result, ""); d != "" {
		rr.out.Oracle(false, key, detail(d))
		return true
	}
	if s.MapPath != "" {
		got, _ := a.result.(map[string]interface{})
		m, _ := got[s.MapPath].(map[string]interface{})
		allowed := map[string]bool{}
		for _, k := range s.MapMust {
			allowed[k] = true
			if _, ok := m[k]; !ok {
				rr.out.Oracle(false, key, detail(s.MapPath+": entry "+k+" missing"))
				return true
			}
		}
		for _, k := range s.MapMay {
			allowed[k] = true
		}
		for k := range m {
			if !allowed[k] {
				rr.out.Oracle(false, key, detail(s.MapPath+": entry "+k+" is not in the ledger"))
				return true
			}
		}
	}
	rr.out.Oracle(true, key, nil)
	return true
}

func idOf(el interface{}, keys []string) string {
	m, ok := el.(map[string]interface{})
	if !ok {
		return "<" + clipS(jsonText(el)) + ">"
	}
	var parts []string
	for _, k := range keys {
		switch v := m[k].(type) {
		case string:
			parts = append(parts, v)
		case json.Number:
			parts = append(parts, v.String())
		default:
			parts = append(parts, "<"+jsonText(v)+">")
		}
	}
	return strings.Join(parts, "/")
}

func pageSizes(rng *rand.Rand, n int, limit uint32) []uint32 {
	seen := map[uint32]bool{}
	var r []uint32
	add := func(s int) {
		if s < 1 || (limit > 0 && uint32(s) > limit) || seen[uint32(s)] {
			return
		}
		if pages := (n + s - 1) / s; pages > 64 {
			return
		}
		seen[uint32(s)] = true
		r = append(r, uint32(s))
	}
	for s := 1; s <= 7; s++ {
		add(s)
	}
	add(n - 1)
	add(n)
	add(n + 1)
	add(n/7 + 1)
	add(n/3 + 1)
	add(n/2 + 1)
	add(1 + rng.Intn(n+2))
	if limit > 0 {
		add(int(limit))
	} else {
		add(1 << 20)
	}
	return r
}

func (rr *readersRun) list(s *listSpec) bool {
	out := rr.out
	n := len(s.Truth)
	name := s.Method
	ctx := func(idx, size uint32) M {
		return M{"method": s.Method, "args": clipS(jsonText(s.Args)), "pageIndex": idx, "pageSize": size, "total": n}
	}
	pos := map[string]int{}
	for i, t := range s.Truth {
		pos[t] = i
	}
	page := func(idx, size uint32) (ids []string, els []interface{}, ok, alive bool) {
		args := append(append([]json.RawMessage{}, s.Args...), rawJSON(idx), rawJSON(size))
		params := rawJSON(args)
		a := rr.call(s.Method, params)
		if a.terr != "" {
			return nil, nil, false, rr.transport(s.Method, params, a, s.Note)
		}
		rr.transport(s.Method, params, a, s.Note)
		if a.errText != "" {
			refusedRightly := (s.Limit > 0 && size > s.Limit) || (s.MaxIdx > 0 && idx >= s.MaxIdx)
			if !refusedRightly {
				c := ctx(idx, size)
				c["error"] = clipS(a.errText)
				if s.Odd {
					out.Oracle(false, oddKey, c)
				} else {
					out.Oracle(false, "list-readable", c)
				}
			} else {
				out.Oracle(true, "page-size-limit-error-only-above-limit", nil)
			}
			return nil, nil, false, true
		}
		out.Oracle(s.Limit == 0 || size <= s.Limit, "page-size-limit-enforced", ctx(idx, size))
		res, _ := a.result.(map[string]interface{})
		l, isList := res[s.ListKey].([]interface{})
		if res == nil || (!isList && res[s.ListKey] != nil) {
			c := ctx(idx, size)
			c["answer"] = clip(a.raw)
			out.Oracle(false, "list-readable", c)
			return nil, nil, false, true
		}
		for _, el := range l {
			ids = append(ids, idOf(el, s.IdKeys))
		}
		c := ctx(idx, size)
		c["elements"] = len(l)
		out.Oracle(uint64(len(l)) <= uint64(size) && (s.Limit == 0 || uint32(len(l)) <= s.Limit), "reply-within-page-limit", c)
		c = ctx(idx, size)
		c["count"] = jsonText(res[s.Count])
		out.Oracle(jsonText(res[s.Count]) == fmt.Sprint(n), "count-is-total", c)
		return ids, l, true, true
	}
	var first []string
	for si, size := range pageSizes(rr.rng, n, s.Limit) {
		pages := uint32((n + int(size) - 1) / int(size))
		if s.MaxIdx > 0 && pages > s.MaxIdx {
			continue
		}
		var cat []string
		var els []interface{}
		good := true
		for i := uint32(0); i < pages || (i == 0 && pages == 0); i++ {
			ids, l, ok, alive := page(i, size)
			if !alive {
				return false
			}
			good = good && ok
			cat = append(cat, ids...)
			els = append(els, l...)
		}
		if !good {
			continue
		}
		ok, why := true, ""
		if len(cat) != n {
			ok, why = false, fmt.Sprintf("%d elements in all pages, the list has %d", len(cat), n)
		}
		seen := map[string]bool{}
		for i := 0; ok && i < len(cat); i++ {
			p, known := pos[cat[i]]
			switch {
			case !known:
				ok, why = false, fmt.Sprintf("position %d: %s is not in the list", i, cat[i])
			case seen[cat[i]]:
				ok, why = false, fmt.Sprintf("position %d: %s for the second time", i, cat[i])
			case s.Keys == nil && p != i:
				ok, why = false, fmt.Sprintf("position %d: %s, which is element %d of the list (want %s)", i, cat[i], p, s.Truth[i])
			case s.Keys != nil && s.Keys[p] != s.Keys[i]:
				ok, why = false, fmt.Sprintf("position %d: %s with order key %s, the list has key %s there", i, cat[i], s.Keys[p], s.Keys[i])
			}
			seen[cat[i]] = true
		}
		if ok && first != nil && !eqStr(first, cat) {
			ok, why = false, "the order differs from the order of the pages of another size"
		}
		if first == nil && ok {
			first = cat
		}
		c := ctx(0, size)
		c["difference"], c["pages"] = why, pages
		if !ok {
			c["got"], c["want"] = clipS(strings.Join(cat, " ")), clipS(strings.Join(s.Truth, " "))
		}
		out.Oracle(ok, "page-concat-equals-list", c)
		out.Count(fmt.Sprintf("readers:pages:%s:len>=%d", name, lenClass(n)))
		if ok && si == 0 && s.Elems != nil {
			for i, el := range els {
				want, err := decodeJSON(s.Elems[pos[cat[i]]])
				if err != nil {
					panic(err)
				}
				if d := subsetDiff(want, el, ""); d != "" {
					c := ctx(0, size)
					c["element"], c["difference"] = cat[i], d
					out.Oracle(false, "list-element-matches-ledger", c)
				} else {
					out.Oracle(true, "list-element-matches-ledger", nil)
				}
			}
		}
		// the first page past the end, and a far one
		for _, idx := range []uint32{pages, pages + 1 + uint32(rr.rng.Intn(1000)), bU32(rr.rng)} {
			if idx < pages || (pages == 0 && idx == 0) {
				continue
			}
			if uint64(idx)*uint64(size) < uint64(n) {
				continue
			}
			ids, _, ok, alive := page(idx, size)
			if !alive {
				return false
			}
			if ok {
				c := ctx(idx, size)
				c["elements"] = len(ids)
				out.Oracle(len(ids) == 0, "page-beyond-end-empty", c)
			}
			if si > 1 {
				break
			}
		}
	}
	if s.Limit > 0 {
		if _, _, _, alive := page(0, s.Limit+1+uint32(rr.rng.Intn(5))); !alive {
			return false
		}
	}
	return true
}

func runReaders(rng *rand.Rand, n int, out *Out, _ []string) {
	for round := 0; round < n; round++ {
		seed := rng.Int63()
		c, info, err := startReadChild(seed)
		if err != nil {
			panic(err)
		}
		rr := &readersRun{out: out, rng: rng, c: c, info: info, seed: seed, client: &http.Client{Timeout: 60 * time.Second}}
		for k, v := range info.Notes {
			for i := 0; i < v; i++ {
				out.Count("readers:history:" + k)
			}
		}
		// what the suite is about must be in the history
		for _, k := range []string{"spork-active", "odd:unknown-zts-to-user", "odd:unknown-zts-received", "odd:unknown-zts-in-pool", "account-with-undeclared-token-balance",
			"list:embedded.accelerator.getAll:len>=4", "list:embedded.bridge.getAllWrapTokenRequests:len>=4", "list:embedded.bridge.getAllUnwrapTokenRequests:len>=4", "list:embedded.bridge.getAllNetworks:len>=2",
			"list:embedded.sentinel.getAllActive:len>=4", "list:embedded.spork.getAll:len>=4", "list:embedded.pillar.getAll:len>=4", "list:embedded.token.getAll:len>=4"} {
			if info.Notes[k] == 0 {
				out.Oracle(false, "history-holds-what-the-readers-are-asked-about", M{"missing": k, "seed": seed})
			}
		}
		alive := true
		for i := range info.Reads {
			if alive = rr.read(&info.Reads[i]); !alive {
				break
			}
		}
		for i := range info.Lists {
			if !alive {
				break
			}
			alive = rr.list(&info.Lists[i])
		}
		out.Count(fmt.Sprintf("readers:restarts=%d", rr.restarts))
		fmt.Fprintf(os.Stderr, "readers: round %d: %d reads, %d lists, %d calls, %d restarts\n", round, len(info.Reads), len(info.Lists), rr.calls, rr.restarts)
		rr.c.stop()
	}
}
