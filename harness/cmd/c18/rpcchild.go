package main

// The server side of the `hostile` suite: a CHILD process that runs the real rpc/server with the public
// APIs of a real in-process node behind every transport the package offers (net/http handler, websocket
// handler, unix-socket IPC listener = ServeListener/ServeCodec/NewCodec). The dispatch loop of the stream
// transports (Client.dispatch) and the call goroutines (handler.startCallProc) have no recover: a panic there
// terminates the process, which the parent observes as the child's exit status.
//
//	c18 rpcchild <seed> <dir>
//
// prints one JSON line (endpoints, registered namespaces, method signatures obtained by reflection over the
// registered services, probe calls with the answers computed by calling the API objects directly), then obeys
// one-letter commands on stdin: m = insert a momentum (answers "ok"), c = the number of executions of the
// side-effect probe verif.bump so far (answers "c <n>"), q / EOF = exit 0.

import (
	"bufio"
	"context"
	"encoding/json"
	"fmt"
	"hash/crc32"
	"math/rand"
	"net"
	"net/http/httptest"
	"os"
	"path/filepath"
	"reflect"
	"sort"
	"strconv"
	"sync/atomic"
	"unicode"

	g "github.com/zenon-network/go-zenon/chain/genesis/mock"
	"github.com/zenon-network/go-zenon/common/types"
	"github.com/zenon-network/go-zenon/rpc"
	"github.com/zenon-network/go-zenon/rpc/api"
	"github.com/zenon-network/go-zenon/rpc/api/embedded"
	"github.com/zenon-network/go-zenon/rpc/api/subscribe"
	rpcs "github.com/zenon-network/go-zenon/rpc/server"
	. "zharness/hz"
)

type methodSig struct {
	Name   string   `json:"name"`   // namespace.method
	Params []string `json:"params"` // Go types of the positional parameters
	Sub    bool     `json:"sub"`    // subscription (reached through <namespace>.subscribe)
}
type probeCall struct {
	Method string          `json:"method"`
	Params json.RawMessage `json:"params"`
	Result json.RawMessage `json:"result"`
}
type childInfo struct {
	HTTP       string      `json:"http"`
	WS         string      `json:"ws"`
	IPC        string      `json:"ipc"`
	Namespaces []string    `json:"namespaces"`
	Methods    []methodSig `json:"methods"`
	Probes     []probeCall `json:"probes"`
	Addresses  []string    `json:"addresses"`
	Hashes     []string    `json:"hashes"`
	Tokens     []string    `json:"tokens"`
	// a method with a visible side effect (an execution counter read out of band over stdin, not over the rpc
	// server): lets the parent decide whether a request has been EXECUTED, whatever was answered
	Bump       string   `json:"bump"`
	BumpParams []string `json:"bumpParams"`
}

// the side-effect probe: namespace "verif", method bump(pad, k). Every execution moves the counter; the result is a
// function of the arguments only (the length and checksum of pad show that the whole argument arrived)
type bumpService struct{ n uint64 }

func (b *bumpService) Bump(pad string, k uint64) string {
	atomic.AddUint64(&b.n, 1)
	return bumpResult(len(pad), k, crc32.ChecksumIEEE([]byte(pad)))
}

func bumpResult(padLen int, k uint64, crc uint32) string {
	return fmt.Sprintf("bump:%d:%d:%08x", padLen, k, crc)
}

var (
	ctxType = reflect.TypeOf((*context.Context)(nil)).Elem()
	errType = reflect.TypeOf((*error)(nil)).Elem()
	subType = reflect.TypeOf(rpcs.Subscription{})
)

func lowerFirst(s string) string {
	r := []rune(s)
	if len(r) > 0 {
		r[0] = unicode.ToLower(r[0])
	}
	return string(r)
}

// signatures of the exported methods of a service, as the documentation of rpc/server describes them
// (receiver, optional context, positional parameters; at most one value and one error returned)
func signatures(ns string, svc interface{}) []methodSig {
	var res []methodSig
	t := reflect.TypeOf(svc)
	for i := 0; i < t.NumMethod(); i++ {
		m := t.Method(i)
		if m.PkgPath != "" {
			continue
		}
		ft := m.Func.Type()
		if ft.NumOut() > 2 {
			continue
		}
		if ft.NumOut() == 2 && (ft.Out(0).Implements(errType) || !ft.Out(1).Implements(errType)) {
			continue
		}
		first := 1
		hasCtx := ft.NumIn() > 1 && ft.In(1) == ctxType
		if hasCtx {
			first++
		}
		sig := methodSig{Name: ns + "." + lowerFirst(m.Name), Params: []string{}}
		for j := first; j < ft.NumIn(); j++ {
			sig.Params = append(sig.Params, ft.In(j).String())
		}
		if hasCtx && ft.NumOut() == 2 {
			o := ft.Out(0)
			for o.Kind() == reflect.Ptr {
				o = o.Elem()
			}
			sig.Sub = o == subType
		}
		res = append(res, sig)
	}
	return res
}

func rpcChildMain(args []string) {
	seed, _ := strconv.ParseInt(args[0], 10, 64)
	dir := args[1]
	rng := rand.New(rand.NewSource(seed))
	nd := NewNode()
	sink := NewOut(os.DevNull)
	buildHistory(rng, sink, nd)

	sub := subscribe.GetSubscribeServer(nd.Ch)
	sub.Init()
	sub.Start()

	srv := rpcs.NewServer()
	info := childInfo{}
	for _, a := range rpc.GetApis(nd.Z, nil, "ledger", "ledgerSubscribe", "embedded") {
		if err := srv.RegisterName(a.Namespace, a.Service); err != nil {
			fmt.Fprintln(os.Stderr, "register:", a.Namespace, err)
			os.Exit(3)
		}
		info.Methods = append(info.Methods, signatures(a.Namespace, a.Service)...)
	}
	info.Methods = append(info.Methods, methodSig{Name: "rpc.modules", Params: []string{}}) // the server's own meta service
	// not listed in info.Methods: the document generator does not call it, only the size / framing family does
	bump := &bumpService{}
	if err := srv.RegisterName("verif", bump); err != nil {
		fmt.Fprintln(os.Stderr, "register: verif", err)
		os.Exit(3)
	}
	info.Bump, info.BumpParams = "verif.bump", []string{"string", "uint64"}
	sort.Slice(info.Methods, func(i, j int) bool { return info.Methods[i].Name < info.Methods[j].Name })
	seenNs := map[string]bool{"rpc": true}
	for _, a := range rpc.GetApis(nd.Z, nil, "ledger", "ledgerSubscribe", "embedded") {
		seenNs[a.Namespace] = true
	}
	for ns := range seenNs {
		info.Namespaces = append(info.Namespaces, ns)
	}
	sort.Strings(info.Namespaces)

	hs := httptest.NewServer(srv)
	ws := httptest.NewServer(srv.WebsocketHandler([]string{"*"}))
	info.HTTP, info.WS = hs.URL, "ws"+ws.URL[len("http"):]
	info.IPC = filepath.Join(dir, "c18.ipc")
	os.Remove(info.IPC)
	l, err := net.Listen("unix", info.IPC)
	if err != nil {
		fmt.Fprintln(os.Stderr, "listen:", err)
		os.Exit(3)
	}
	go srv.ServeListener(l)

	// probe calls: answers that do not depend on the frontier momentum, computed on the API objects directly
	ledger := api.NewLedgerApi(nd.Z)
	token := embedded.NewTokenApi(nd.Z)
	pillar := embedded.NewPillarApi(nd.Z, false)
	addProbe := func(method string, params interface{}, res interface{}, err error) {
		if err != nil {
			return
		}
		p, _ := json.Marshal(params)
		r, e := json.Marshal(res)
		if e != nil {
			return
		}
		info.Probes = append(info.Probes, probeCall{method, p, r})
	}
	for _, a := range []types.Address{g.User1.Address, g.User2.Address, types.TokenContract} {
		r, err := ledger.GetAccountBlocksByHeight(a, 1, 3)
		if err == nil {
			for _, b := range r.List {
				info.Hashes = append(info.Hashes, b.Hash.String())
			}
		}
		info.Addresses = append(info.Addresses, a.String())
		r4, err := token.GetByOwner(a, 0, 5)
		addProbe("embedded.token.getByOwner", []interface{}{a, 0, 5}, r4, err)
	}
	{
		r, err := token.GetAll(0, 3)
		addProbe("embedded.token.getAll", []interface{}{0, 3}, r, err)
		if err == nil {
			for _, t := range r.List {
				info.Tokens = append(info.Tokens, t.ZenonTokenStandard.String())
			}
		}
		for _, z := range []types.ZenonTokenStandard{types.ZnnTokenStandard, types.QsrTokenStandard} {
			r3, err := token.GetByZts(z)
			addProbe("embedded.token.getByZts", []interface{}{z}, r3, err)
		}
		r5, err := pillar.GetQsrRegistrationCost()
		addProbe("embedded.pillar.getQsrRegistrationCost", []interface{}{}, r5, err)
		r6, err := pillar.CheckNameAvailability("no-such-pillar")
		addProbe("embedded.pillar.checkNameAvailability", []interface{}{"no-such-pillar"}, r6, err)
	}
	info.Addresses = append(info.Addresses, types.PlasmaContract.String(), g.Pillar1.Address.String(), types.ZeroAddress.String())
	info.Tokens = append(info.Tokens, types.ZnnTokenStandard.String(), types.QsrTokenStandard.String())

	line, _ := json.Marshal(info)
	w := bufio.NewWriter(os.Stdout)
	w.Write(line)
	w.WriteByte('\n')
	w.Flush()

	in := bufio.NewReader(os.Stdin)
	for {
		c, err := in.ReadByte()
		if err != nil || c == 'q' {
			os.Exit(0)
		}
		if c == 'm' {
			nd.Momentum()
			w.WriteString("ok\n")
			w.Flush()
		}
		if c == 'c' {
			fmt.Fprintf(w, "c %d\n", atomic.LoadUint64(&bump.n))
			w.Flush()
		}
	}
}
