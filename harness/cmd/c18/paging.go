package main

import (
	"crypto/sha256"
	"encoding/hex"
	"encoding/json"
	"fmt"
	"math/big"
	"math/rand"
	"time"

	g "github.com/zenon-network/go-zenon/chain/genesis/mock"
	"github.com/zenon-network/go-zenon/chain/nom"
	"github.com/zenon-network/go-zenon/common/types"
	"github.com/zenon-network/go-zenon/rpc/api"
	"github.com/zenon-network/go-zenon/rpc/api/embedded"
	"github.com/zenon-network/go-zenon/vm/constants"
	"github.com/zenon-network/go-zenon/vm/embedded/definition"
	"github.com/zenon-network/go-zenon/wallet"
	"github.com/zenon-network/go-zenon/zenon/mock"
	. "zharness/hz"
)

func errClass(err error) int64 {
	switch err {
	case nil:
		return 0
	case api.ErrHeightParamIsZero:
		return 1
	case api.ErrCountParamTooBig:
		return 2
	case api.ErrPageSizeParamTooBig:
		return 3
	case api.ErrPageIndexParamTooBig:
		return 4
	}
	return 9
}

func jid(x interface{}) string {
	b, err := json.Marshal(x)
	if err != nil {
		return "marshal-error:" + err.Error()
	}
	h := sha256.Sum256(b)
	return hex.EncodeToString(h[:8])
}

// a paged list API: elements identified by a stable id
type pagedList struct {
	name  string
	limit uint32 // advertised page-size limit; 0 = the API states none
	call  func(idx, size uint32) (ids []string, count int64, err error)
	truth func() []string // read directly from the stores, nil = page (0, limit) of the API itself
}

// protect: an RPC method that panics is contained by the server's callback.call; in-process we observe it
func protect(f func()) (panicked interface{}) {
	defer func() { panicked = recover() }()
	f()
	return nil
}

func bU32(rng *rand.Rand) uint32 {
	switch rng.Intn(6) {
	case 0:
		return uint32(rng.Intn(5))
	case 1:
		return ^uint32(0) - uint32(rng.Intn(3))
	case 2:
		return uint32(1)<<uint(rng.Intn(32)) + uint32(rng.Intn(3)) - 1
	case 3:
		return uint32(rng.Intn(2000))
	}
	return rng.Uint32()
}

func runPaging(rng *rand.Rand, n int, out *Out, _ []string) {
	for h := 0; h < n; h++ {
		pagingHistory(rng, out, h)
	}
}

type hist struct {
	nd    *Node
	rng   *rand.Rand
	out   *Out
	users []*wallet.KeyPair
}

func (hs *hist) send(from *wallet.KeyPair, to types.Address, zts types.ZenonTokenStandard, amount *big.Int, data []byte) *nom.AccountBlock {
	return hs.nd.Z.InsertSendBlock(&nom.AccountBlock{Address: from.Address, ToAddress: to, TokenStandard: zts, Amount: amount, Data: data}, nil, mock.SkipVmChanges)
}

func buildHistory(rng *rand.Rand, out *Out, nd *Node) *hist {
	hs := &hist{nd: nd, rng: rng, out: out, users: []*wallet.KeyPair{g.User1, g.User2, g.User3}}
	// tokens (token list, by-owner list)
	nt := rng.Intn(6)
	for i := 0; i < nt; i++ {
		u := hs.users[rng.Intn(2)]
		hs.send(u, types.TokenContract, types.ZnnTokenStandard, constants.TokenIssueAmount,
			definition.ABIToken.PackMethodPanic(definition.IssueMethodName, fmt.Sprintf("tok-%d", i), fmt.Sprintf("T%c", 'A'+i), "",
				big.NewInt(100), big.NewInt(1000), uint8(1), true, true, false))
		nd.Momentum()
		nd.Momentum()
	}
	// fusions of user1 (fusion entries list)
	nf := rng.Intn(7)
	for i := 0; i < nf; i++ {
		b := g.AllKeyPairs[rng.Intn(len(g.AllKeyPairs))].Address
		hs.send(g.User1, types.PlasmaContract, types.QsrTokenStandard, big.NewInt(int64(10+rng.Intn(50))*g.Zexp),
			definition.ABIPlasma.PackMethodPanic(definition.FuseMethodName, b))
		nd.Momentum()
		nd.Momentum()
	}
	// stakes of user1
	ns := rng.Intn(5)
	for i := 0; i < ns; i++ {
		hs.send(g.User1, types.StakeContract, types.ZnnTokenStandard, big.NewInt(int64(10+rng.Intn(50))*g.Zexp),
			definition.ABIStake.PackMethodPanic(definition.StakeMethodName, int64(constants.StakeTimeMinSec*int64(1+rng.Intn(12)))))
		nd.Momentum()
		nd.Momentum()
	}
	// plain traffic: sends, some received, some left unreceived
	steps := 5 + rng.Intn(25)
	for s := 0; s < steps; s++ {
		u := hs.users[rng.Intn(len(hs.users))]
		v := hs.users[rng.Intn(len(hs.users))]
		blk := hs.send(u, v.Address, types.ZnnTokenStandard, big.NewInt(int64(1+rng.Intn(1000))), nil)
		if rng.Intn(3) == 0 {
			nd.Momentum()
			if blk != nil && rng.Intn(2) == 0 {
				nd.Z.InsertReceiveBlock(blk.Header(), nil, nil, mock.SkipVmChanges)
			}
		}
	}
	if rng.Intn(3) > 0 {
		nd.Momentum()
	}
	// blocks left in the pool (unconfirmed list)
	np := rng.Intn(6)
	for i := 0; i < np; i++ {
		u := hs.users[rng.Intn(len(hs.users))]
		hs.send(u, hs.users[rng.Intn(len(hs.users))].Address, types.ZnnTokenStandard, big.NewInt(int64(1+rng.Intn(1000))), nil)
	}
	return hs
}

func sizesFor(rng *rand.Rand, n int) []uint32 {
	s := []uint32{0, 1, 2, 3, 1023, 1024, 1025, 1 << 16, 1 << 31, ^uint32(0), bU32(rng), bU32(rng), uint32(1 + rng.Intn(1024)), uint32(1) << uint(rng.Intn(11))}
	for _, d := range []int{-1, 0, 1} {
		if n+d > 0 {
			s = append(s, uint32(n+d))
		}
	}
	return s
}

// indices that must yield an empty page for (n, size>0): first index past the end, the smallest index whose
// 32-bit product wraps, multiples of 2^32/size, the top of the range, random ones
func farIndices(rng *rand.Rand, n int, size uint32) []uint32 {
	var r []uint32
	add := func(i uint64) {
		if i <= 0xffffffff && i*uint64(size) >= uint64(n) {
			r = append(r, uint32(i))
		}
	}
	first := (uint64(n) + uint64(size) - 1) / uint64(size)
	add(first)
	add(first + 1)
	w := (uint64(1)<<32 + uint64(size) - 1) / uint64(size)
	for k := uint64(1); k <= 3; k++ {
		add(k * w)
		add(k*w + 1)
		add(k*w - 1)
	}
	add(1 << 31)
	add(0xffffffff)
	add(0xfffffffe)
	for k := 0; k < 4; k++ {
		add(uint64(bU32(rng)))
	}
	// an index whose wrapped product lands inside the list: idx*size mod 2^32 in [0,n)
	if size%2 == 1 && n > 0 {
		// size odd: invertible mod 2^32
		inv := uint32(1)
		for i := 0; i < 5; i++ {
			inv *= 2 - size*inv
		}
		add(uint64(inv * uint32(rng.Intn(n))))
	}
	return r
}

func positions(truth []string, ids []string) []interface{} {
	pos := map[string]int{}
	for i, t := range truth {
		pos[t] = i
	}
	r := Lst()
	for _, id := range ids {
		p, ok := pos[id]
		if !ok {
			p = -1
		}
		r = append(r, I64(int64(p)))
	}
	return r
}

func eqStr(a, b []string) bool {
	if len(a) != len(b) {
		return false
	}
	for i := range a {
		if a[i] != b[i] {
			return false
		}
	}
	return true
}

func (hs *hist) checkList(pl pagedList) {
	out, rng := hs.out, hs.rng
	var truth []string
	if pl.truth != nil {
		truth = pl.truth()
	} else {
		lim := pl.limit
		if lim == 0 {
			lim = api.RpcMaxPageSize
		}
		t, cnt, err := pl.call(0, lim)
		if err != nil || int(cnt) != len(t) {
			out.Oracle(false, "list-readable", Tup(pl.name, fmt.Sprint(err), I64(cnt), I64(int64(len(t)))))
			return
		}
		truth = t
	}
	n := len(truth)
	out.Count(fmt.Sprintf("list:%s:len=%d", pl.name, n))
	one := func(idx, size uint32, tag string) (ids []string, ok bool) {
		var cnt int64
		var err error
		if p := protect(func() { ids, cnt, err = pl.call(idx, size) }); p != nil {
			out.Oracle(false, "paged-call-panics", Tup(pl.name, U64(uint64(idx)), U64(uint64(size)), I64(int64(n)), fmt.Sprint(p)))
			return nil, false
		}
		out.Oracle(true, "paged-call-panics", nil)
		in := Tup(U64(uint64(pl.limit)), I64(int64(n)), U64(uint64(idx)), U64(uint64(size)))
		if err != nil {
			out.Case("paged_api", in, None(), "err:"+tag)
			out.Oracle(pl.limit > 0 && size > pl.limit && err == api.ErrPageSizeParamTooBig, "page-size-limit-error-only-above-limit", Tup(pl.name, U64(uint64(size)), fmt.Sprint(err)))
			return nil, false
		}
		out.Case("paged_api", in, Some(positions(truth, ids)), tag)
		out.Oracle(pl.limit == 0 || size <= pl.limit, "page-size-limit-enforced", Tup(pl.name, U64(uint64(size))))
		out.Oracle(uint64(len(ids)) <= uint64(size) && (pl.limit == 0 || uint32(len(ids)) <= pl.limit), "reply-within-page-limit",
			Tup(pl.name, U64(uint64(idx)), U64(uint64(size)), I64(int64(len(ids)))))
		out.Oracle(cnt == int64(n), "count-is-total", Tup(pl.name, I64(cnt), I64(int64(n))))
		return ids, true
	}
	for _, size := range sizesFor(rng, n) {
		if size == 0 || (pl.limit > 0 && size > pl.limit) {
			one(bU32(rng), size, "size0-or-above-limit")
			continue
		}
		// all pages in order: each element exactly once, in the documented (= ground truth) order
		pages := (uint64(n) + uint64(size) - 1) / uint64(size)
		if pages <= 64 {
			var cat []string
			good := true
			for i := uint64(0); i < pages; i++ {
				ids, ok := one(uint32(i), size, "in-range")
				good = good && ok
				cat = append(cat, ids...)
			}
			out.Oracle(good && eqStr(cat, truth), "page-concat-equals-list", Tup(pl.name, U64(uint64(size)), I64(int64(n))))
		}
		for _, idx := range farIndices(rng, n, size) {
			ids, ok := one(idx, size, "beyond-end")
			if ok {
				out.Oracle(len(ids) == 0, "page-beyond-end-empty", Tup(pl.name, U64(uint64(idx)), U64(uint64(size)), I64(int64(n)), I64(int64(len(ids)))))
			}
		}
	}
}

func pagingHistory(rng *rand.Rand, out *Out, h int) {
	nd := NewNode()
	defer nd.Stop()
	hs := buildHistory(rng, out, nd)
	z := nd.Z
	ledger := api.NewLedgerApi(z)
	token := embedded.NewTokenApi(z)
	pillar := embedded.NewPillarApi(z, true)
	plasma := embedded.NewPlasmaApi(z)
	stake := embedded.NewStakeApi(z)
	sentinel := embedded.NewSentinelApi(z)
	spork := embedded.NewSporkApi(z)
	acc := embedded.NewAcceleratorApi(z)

	storage := func(a types.Address) (s interface{}) { return nil }
	_ = storage
	lists := []pagedList{
		{"token.GetAll", api.RpcMaxPageSize, func(i, s uint32) ([]string, int64, error) {
			r, err := token.GetAll(i, s)
			if err != nil {
				return nil, 0, err
			}
			var ids []string
			for _, t := range r.List {
				ids = append(ids, t.ZenonTokenStandard.String())
			}
			return ids, int64(r.Count), nil
		}, func() []string {
			_, ctx, _ := api.GetFrontierContext(nd.Ch, types.TokenContract)
			l, _ := definition.GetTokenInfoList(ctx.Storage())
			var ids []string
			for _, t := range l {
				ids = append(ids, t.TokenStandard.String())
			}
			return ids
		}},
		{"token.GetByOwner", api.RpcMaxPageSize, func(i, s uint32) ([]string, int64, error) {
			r, err := token.GetByOwner(g.User1.Address, i, s)
			if err != nil {
				return nil, 0, err
			}
			var ids []string
			for _, t := range r.List {
				ids = append(ids, t.ZenonTokenStandard.String())
			}
			return ids, int64(r.Count), nil
		}, func() []string {
			_, ctx, _ := api.GetFrontierContext(nd.Ch, types.TokenContract)
			l, _ := definition.GetTokenInfoList(ctx.Storage())
			var ids []string
			for _, t := range l {
				if t.Owner == g.User1.Address {
					ids = append(ids, t.TokenStandard.String())
				}
			}
			return ids
		}},
		{"pillar.GetAll", api.RpcMaxPageSize, func(i, s uint32) ([]string, int64, error) {
			r, err := pillar.GetAll(i, s)
			if err != nil {
				return nil, 0, err
			}
			var ids []string
			for _, t := range r.List {
				ids = append(ids, t.Name)
			}
			return ids, int64(r.Count), nil
		}, nil},
		{"plasma.GetEntriesByAddress", api.RpcMaxPageSize, func(i, s uint32) ([]string, int64, error) {
			r, err := plasma.GetEntriesByAddress(g.User1.Address, i, s)
			if err != nil {
				return nil, 0, err
			}
			var ids []string
			for _, t := range r.Fusions {
				ids = append(ids, t.Id.String())
			}
			return ids, int64(r.Count), nil
		}, nil},
		{"stake.GetEntriesByAddress", api.RpcMaxPageSize, func(i, s uint32) ([]string, int64, error) {
			r, err := stake.GetEntriesByAddress(g.User1.Address, i, s)
			if err != nil {
				return nil, 0, err
			}
			var ids []string
			for _, t := range r.Entries {
				ids = append(ids, t.Id.String())
			}
			return ids, int64(r.Count), nil
		}, nil},
		{"sentinel.GetAllActive", api.RpcMaxPageSize, func(i, s uint32) ([]string, int64, error) {
			r, err := sentinel.GetAllActive(i, s)
			if err != nil {
				return nil, 0, err
			}
			var ids []string
			for _, t := range r.List {
				ids = append(ids, t.Owner.String())
			}
			return ids, int64(r.Count), nil
		}, nil},
		{"spork.GetAll", api.RpcMaxPageSize, func(i, s uint32) ([]string, int64, error) {
			r, err := spork.GetAll(i, s)
			if err != nil {
				return nil, 0, err
			}
			var ids []string
			for _, t := range r.List {
				ids = append(ids, t.Id.String())
			}
			return ids, int64(r.Count), nil
		}, nil},
		{"accelerator.GetAll", 0, func(i, s uint32) ([]string, int64, error) {
			r, err := acc.GetAll(i, s)
			if err != nil {
				return nil, 0, err
			}
			var ids []string
			for _, t := range r.List {
				ids = append(ids, t.Id.String())
			}
			return ids, int64(r.Count), nil
		}, nil},
	}
	for _, u := range []types.Address{g.User1.Address, g.User2.Address, g.User5.Address, types.TokenContract} {
		u := u
		lists = append(lists, pagedList{"ledger.GetUnconfirmedBlocksByAddress", api.RpcMaxPageSize, func(i, s uint32) ([]string, int64, error) {
			r, err := ledger.GetUnconfirmedBlocksByAddress(u, i, s)
			if err != nil {
				return nil, 0, err
			}
			var ids []string
			for _, t := range r.List {
				ids = append(ids, t.Hash.String())
			}
			return ids, int64(r.Count), nil
		}, func() []string {
			var ids []string
			for _, b := range nd.Ch.GetUncommittedAccountBlocksByAddress(u) {
				ids = append(ids, b.Hash.String())
			}
			return ids
		}})
	}
	for _, pl := range lists {
		hs.checkList(pl)
	}
	hs.byHeightAndPage(ledger)
	_ = time.Now
}
