package main

// readchild, second half: the complete lists behind every paged method of the embedded apis, read from the contract
// storages through vm/embedded/definition (not through rpc/api/embedded), in the order the api documents (storage order,
// or the sort key the method names: last update, expiration, registration height, weight), and the single-object getters
// for every element.

import (
	"encoding/json"
	"fmt"
	"sort"

	g "github.com/zenon-network/go-zenon/chain/genesis/mock"
	"github.com/zenon-network/go-zenon/common/types"
	"github.com/zenon-network/go-zenon/vm/embedded/definition"
	. "zharness/hz"
)

func (e *expecter) list(method string, limit uint32, ids []string, keys []string, elems []M, args ...interface{}) {
	if ids == nil {
		ids = []string{}
	}
	ls := listSpec{Method: method, Args: rawArgs(args...), Limit: limit, ListKey: "list", Count: "count", Truth: ids, Keys: keys}
	for _, w := range elems {
		ls.Elems = append(ls.Elems, rawJSON(w))
		ls.Odd = ls.Odd || e.namesUndeclared(ls.Elems[len(ls.Elems)-1])
	}
	e.info.Lists = append(e.info.Lists, ls)
	for _, c := range []int{0, 1, 2, 4, 8} {
		if len(ids) >= c {
			e.info.Notes[fmt.Sprintf("list:%s:len>=%d", method, c)]++
		}
	}
}

func lenClass(n int) int {
	switch {
	case n >= 8:
		return 8
	case n >= 4:
		return 4
	case n >= 2:
		return 2
	}
	return n
}

func (e *expecter) idKeys(method string, keys ...string) {
	for i := range e.info.Lists {
		if e.info.Lists[i].Method == method && e.info.Lists[i].IdKeys == nil {
			e.info.Lists[i].IdKeys = keys
		}
	}
}

func (e *expecter) embedded() {
	r := e.r
	users := []types.Address{g.User1.Address, g.User2.Address, g.User3.Address, g.User4.Address, g.Pillar1.Address, g.Pillar4.Address, g.Pillar5.Address}
	i64s := func(x int64) string { return fmt.Sprintf("%020d", x) }

	// ---- tokens
	tst := r.storage(types.TokenContract).Storage()
	toks, err := definition.GetTokenInfoList(tst)
	if err != nil {
		panic(err)
	}
	var ids []string
	var el []M
	for _, t := range toks {
		ids = append(ids, t.TokenStandard.String())
		el = append(el, M{"tokenStandard": t.TokenStandard, "symbol": t.TokenSymbol, "name": t.TokenName, "owner": t.Owner, "decimals": t.Decimals, "totalSupply": t.TotalSupply.String(), "maxSupply": t.MaxSupply.String()})
		e.read("embedded.token.getByZts", el[len(el)-1], t.TokenStandard)
	}
	e.list("embedded.token.getAll", 1024, ids, nil, el)
	for _, z := range r.oddZts {
		e.read("embedded.token.getByZts", nil, z).Any = true
	}
	for _, u := range users[:4] {
		ids, el = nil, nil
		for _, t := range toks {
			if t.Owner == u {
				ids = append(ids, t.TokenStandard.String())
				el = append(el, M{"tokenStandard": t.TokenStandard, "owner": u})
			}
		}
		e.list("embedded.token.getByOwner", 1024, ids, nil, el, u)
	}
	e.idKeys("embedded.token.getAll", "tokenStandard")
	e.idKeys("embedded.token.getByOwner", "tokenStandard")

	// ---- sporks
	ids, el = nil, nil
	for _, s := range definition.GetAllSporks(r.storage(types.SporkContract).Storage()) {
		ids = append(ids, s.Id.String())
		el = append(el, M{"id": s.Id, "name": s.Name, "activated": s.Activated, "enforcementHeight": s.EnforcementHeight})
	}
	e.list("embedded.spork.getAll", 1024, ids, nil, el)
	e.idKeys("embedded.spork.getAll", "id")

	// ---- pillars (ordered by weight, then name: the weights are the consensus's, only the set is taken from the storage)
	pst := r.storage(types.PillarContract).Storage()
	pl, err := definition.GetPillarsList(pst, true, definition.AnyPillarType)
	if err != nil {
		panic(err)
	}
	ids, el = nil, nil
	var keys []string
	for _, p := range pl {
		ids = append(ids, p.Name)
		keys = append(keys, "*")
		e.read("embedded.pillar.getByName", M{"name": p.Name, "ownerAddress": p.StakeAddress, "producerAddress": p.BlockProducingAddress}, p.Name)
		e.read("embedded.pillar.getByOwner", []M{{"name": p.Name}}, p.StakeAddress)
	}
	e.list("embedded.pillar.getAll", 1024, ids, keys, nil)
	e.idKeys("embedded.pillar.getAll", "name")
	e.read("embedded.pillar.getByName", nil, "no-such-pillar")
	e.read("embedded.pillar.checkNameAvailability", true, "no-such-pillar")
	if len(pl) > 0 {
		e.read("embedded.pillar.checkNameAvailability", false, pl[0].Name)
	}
	// reward and history pagers: one entry per epoch, latest first
	if le, err := definition.GetLastEpochUpdate(pst); err == nil {
		var eps []string
		for x := le.LastEpoch; x >= 0; x-- {
			eps = append(eps, fmt.Sprint(x))
		}
		for _, p := range pl {
			e.list("embedded.pillar.getPillarEpochHistory", 1024, eps, nil, nil, p.Name)
			e.list("embedded.pillar.getFrontierRewardByPage", 1024, eps, nil, nil, p.StakeAddress)
		}
		e.idKeys("embedded.pillar.getPillarEpochHistory", "epoch")
		e.idKeys("embedded.pillar.getFrontierRewardByPage", "epoch")
		for x := uint64(0); int64(x) <= le.LastEpoch+1; x++ {
			hl, err := definition.GetPillarEpochHistoryList(pst, x)
			if err != nil {
				continue
			}
			ids, el = nil, nil
			for _, h := range hl {
				ids = append(ids, h.Name)
				el = append(el, M{"name": h.Name, "epoch": h.Epoch, "producedBlockNum": h.ProducedBlockNum, "expectedBlockNum": h.ExpectedBlockNum, "weight": h.Weight.String()})
			}
			e.list("embedded.pillar.getPillarsHistoryByEpoch", 1024, ids, nil, el, x)
		}
		e.idKeys("embedded.pillar.getPillarsHistoryByEpoch", "name")
	}
	for _, c := range []struct {
		ns   string
		addr types.Address
	}{{"sentinel", types.SentinelContract}, {"stake", types.StakeContract}, {"liquidity", types.LiquidityContract}} {
		if le, err := definition.GetLastEpochUpdate(r.storage(c.addr).Storage()); err == nil {
			var eps []string
			for x := le.LastEpoch; x >= 0; x-- {
				eps = append(eps, fmt.Sprint(x))
			}
			for _, u := range []types.Address{g.User1.Address, g.User2.Address, g.Pillar5.Address} {
				e.list("embedded."+c.ns+".getFrontierRewardByPage", 1024, eps, nil, nil, u)
			}
			e.idKeys("embedded."+c.ns+".getFrontierRewardByPage", "epoch")
		}
	}

	// ---- sentinels (storage order, the revoked ones left out)
	ids, el = nil, nil
	for _, s := range definition.GetAllSentinelInfo(r.storage(types.SentinelContract).Storage()) {
		if s.RevokeTimestamp == 0 {
			ids = append(ids, s.Owner.String())
			el = append(el, M{"owner": s.Owner, "registrationTimestamp": s.RegistrationTimestamp})
			e.read("embedded.sentinel.getByOwner", M{"owner": s.Owner, "registrationTimestamp": s.RegistrationTimestamp}, s.Owner)
		}
	}
	e.list("embedded.sentinel.getAllActive", 1024, ids, nil, el)
	e.idKeys("embedded.sentinel.getAllActive", "owner")

	// ---- fusions by expiration height, stakes and liquidity stakes by expiration time
	for _, u := range users[:3] {
		fl, _, err := definition.GetFusionInfoListByOwner(r.storage(types.PlasmaContract).Storage(), u)
		if err == nil {
			sort.SliceStable(fl, func(i, j int) bool { return fl[i].ExpirationHeight < fl[j].ExpirationHeight })
			ids, keys, el = nil, nil, nil
			for _, f := range fl {
				ids, keys = append(ids, f.Id.String()), append(keys, i64s(int64(f.ExpirationHeight)))
				el = append(el, M{"id": f.Id, "qsrAmount": f.Amount.String(), "beneficiary": f.Beneficiary, "expirationHeight": f.ExpirationHeight})
			}
			e.list("embedded.plasma.getEntriesByAddress", 1024, ids, keys, el, u)
		}
		e.read("embedded.plasma.get", M{}, u)
		sl, _, _, err := definition.GetStakeListByAddress(r.storage(types.StakeContract).Storage(), u)
		if err == nil {
			sort.SliceStable(sl, func(i, j int) bool { return sl[i].ExpirationTime < sl[j].ExpirationTime })
			ids, keys, el = nil, nil, nil
			for _, s := range sl {
				ids, keys = append(ids, s.Id.String()), append(keys, i64s(s.ExpirationTime))
				el = append(el, M{"id": s.Id, "amount": s.Amount.String(), "address": s.StakeAddress, "expirationTimestamp": s.ExpirationTime, "startTimestamp": s.StartTime})
			}
			e.list("embedded.stake.getEntriesByAddress", 1024, ids, keys, el, u)
		}
		ll, _, _, err := definition.GetLiquidityStakeListByAddress(r.storage(types.LiquidityContract).Storage(), u)
		if err == nil {
			sort.SliceStable(ll, func(i, j int) bool { return ll[i].ExpirationTime < ll[j].ExpirationTime })
			ids, keys, el = nil, nil, nil
			for _, s := range ll {
				ids, keys = append(ids, s.Id.String()), append(keys, i64s(s.ExpirationTime))
				el = append(el, M{"id": s.Id, "amount": s.Amount.String(), "stakeAddress": s.StakeAddress, "tokenStandard": s.TokenStandard, "expirationTime": s.ExpirationTime})
			}
			e.list("embedded.liquidity.getLiquidityStakeEntriesByAddress", 1024, ids, keys, el, u)
		}
	}
	e.idKeys("embedded.plasma.getEntriesByAddress", "id")
	e.idKeys("embedded.stake.getEntriesByAddress", "id")
	e.idKeys("embedded.liquidity.getLiquidityStakeEntriesByAddress", "id")
	e.read("embedded.liquidity.getLiquidityInfo", M{}).Any = true
	e.read("embedded.liquidity.getSecurityInfo", M{}).Any = true
	e.read("embedded.liquidity.getTimeChallengesInfo", M{}).Any = true

	// ---- accelerator: latest update first
	ast := r.storage(types.AcceleratorContract).Storage()
	if prj, err := definition.GetProjectList(ast); err == nil {
		sort.SliceStable(prj, func(i, j int) bool { return prj[i].LastUpdateTimestamp > prj[j].LastUpdateTimestamp })
		ids, keys, el = nil, nil, nil
		for _, p := range prj {
			ids, keys = append(ids, p.Id.String()), append(keys, i64s(p.LastUpdateTimestamp))
			phaseIds := []types.Hash{}
			phases := []M{}
			for _, ph := range p.PhaseIds {
				phaseIds = append(phaseIds, ph)
				w := M{"phase": M{"id": ph, "projectID": p.Id}}
				phases = append(phases, w)
				e.read("embedded.accelerator.getPhaseById", w, ph)
			}
			w := M{"id": p.Id, "owner": p.Owner, "name": p.Name, "status": p.Status, "znnFundsNeeded": p.ZnnFundsNeeded.String(), "qsrFundsNeeded": p.QsrFundsNeeded.String(),
				"lastUpdateTimestamp": p.LastUpdateTimestamp, "phaseIds": phaseIds, "phases": phases}
			el = append(el, w)
			e.read("embedded.accelerator.getProjectById", w, p.Id)
			e.read("embedded.accelerator.getVoteBreakdown", M{"id": p.Id}, p.Id)
		}
		e.list("embedded.accelerator.getAll", 0, ids, keys, el)
		e.idKeys("embedded.accelerator.getAll", "id")
	}

	// ---- bridge
	bst := r.storage(types.BridgeContract).Storage()
	e.read("embedded.bridge.getBridgeInfo", M{"administrator": r.admin.Address})
	e.read("embedded.bridge.getOrchestratorInfo", M{})
	e.read("embedded.bridge.getSecurityInfo", M{})
	e.read("embedded.bridge.getTimeChallengesInfo", M{})
	if nl, err := definition.GetNetworkList(bst); err == nil {
		ids, el = nil, nil
		for _, n := range nl {
			ids = append(ids, fmt.Sprintf("%d/%d", n.NetworkClass, n.Id))
			pairs := []M{}
			for _, p := range n.TokenPairs {
				pairs = append(pairs, M{"tokenStandard": p.TokenStandard, "tokenAddress": p.TokenAddress})
			}
			w := M{"networkClass": n.NetworkClass, "chainId": n.Id, "name": n.Name, "contractAddress": n.ContractAddress, "tokenPairs": pairs}
			el = append(el, w)
			e.read("embedded.bridge.getNetworkInfo", w, n.NetworkClass, n.Id)
		}
		e.list("embedded.bridge.getAllNetworks", 1024, ids, nil, el)
		e.idKeys("embedded.bridge.getAllNetworks", "networkClass", "chainId")
	}
	if wl, err := definition.GetWrapTokenRequests(bst); err == nil {
		want := func(q *definition.WrapTokenRequest) M {
			return M{"id": q.Id, "networkClass": q.NetworkClass, "chainId": q.ChainId, "toAddress": q.ToAddress, "tokenStandard": q.TokenStandard, "amount": q.Amount.String(), "fee": q.Fee.String(),
				"signature": q.Signature, "creationMomentumHeight": q.CreationMomentumHeight, "token": e.tokenWant(q.TokenStandard)}
		}
		sel := func(keep func(q *definition.WrapTokenRequest) bool, reverse bool) ([]string, []M) {
			var ids []string
			var el []M
			for _, q := range wl {
				if keep(q) {
					ids, el = append(ids, q.Id.String()), append(el, want(q))
				}
			}
			if reverse {
				for i, j := 0, len(ids)-1; i < j; i, j = i+1, j-1 {
					ids[i], ids[j], el[i], el[j] = ids[j], ids[i], el[j], el[i]
				}
			}
			return ids, el
		}
		ids, el = sel(func(*definition.WrapTokenRequest) bool { return true }, false)
		e.list("embedded.bridge.getAllWrapTokenRequests", 0, ids, nil, el)
		e.list("embedded.bridge.getAllWrapTokenRequestsByToAddress", 0, ids, nil, el, "")
		for _, q := range wl {
			e.read("embedded.bridge.getWrapTokenRequestById", want(q), q.Id)
		}
		ids, el = sel(func(q *definition.WrapTokenRequest) bool { return q.Signature == "" }, true)
		e.list("embedded.bridge.getAllUnsignedWrapTokenRequests", 0, ids, nil, el)
		for _, to := range append(append([]string{}, r.toAddrs...), "0x0000000000000000000000000000000000000001") {
			to := to
			ids, el = sel(func(q *definition.WrapTokenRequest) bool { return q.ToAddress == to }, false)
			e.list("embedded.bridge.getAllWrapTokenRequestsByToAddress", 0, ids, nil, el, to)
			for _, n := range r.nets {
				n := n
				ids, el = sel(func(q *definition.WrapTokenRequest) bool {
					return q.ToAddress == to && q.NetworkClass == n.class && q.ChainId == n.chain
				}, false)
				e.list("embedded.bridge.getAllWrapTokenRequestsByToAddressNetworkClassAndChainId", 0, ids, nil, el, to, n.class, n.chain)
			}
		}
		for _, n := range r.nets {
			n := n
			ids, el = sel(func(q *definition.WrapTokenRequest) bool { return q.NetworkClass == n.class && q.ChainId == n.chain }, false)
			e.list("embedded.bridge.getAllWrapTokenRequestsByToAddressNetworkClassAndChainId", 0, ids, nil, el, "", n.class, n.chain)
		}
		for _, m := range []string{"getAllWrapTokenRequests", "getAllWrapTokenRequestsByToAddress", "getAllUnsignedWrapTokenRequests", "getAllWrapTokenRequestsByToAddressNetworkClassAndChainId"} {
			e.idKeys("embedded.bridge."+m, "id")
		}
	}
	if ul, err := definition.GetUnwrapTokenRequests(bst); err == nil {
		want := func(q *definition.UnwrapTokenRequest) M {
			return M{"transactionHash": q.TransactionHash, "logIndex": q.LogIndex, "networkClass": q.NetworkClass, "chainId": q.ChainId, "toAddress": q.ToAddress, "tokenStandard": q.TokenStandard,
				"amount": q.Amount.String(), "registrationMomentumHeight": q.RegistrationMomentumHeight, "token": e.tokenWant(q.TokenStandard)}
		}
		id := func(q *definition.UnwrapTokenRequest) string {
			return fmt.Sprintf("%s/%d", q.TransactionHash, q.LogIndex)
		}
		ids, el = nil, nil
		for _, q := range ul {
			ids, el = append(ids, id(q)), append(el, want(q))
			e.read("embedded.bridge.getUnwrapTokenRequestByHashAndLog", want(q), q.TransactionHash, q.LogIndex)
		}
		e.list("embedded.bridge.getAllUnwrapTokenRequests", 0, ids, nil, el)
		e.list("embedded.bridge.getAllUnwrapTokenRequestsByToAddress", 0, ids, nil, el, "")
		for _, u := range users[:4] {
			var sel []*definition.UnwrapTokenRequest
			for _, q := range ul {
				if q.ToAddress == u {
					sel = append(sel, q)
				}
			}
			sort.SliceStable(sel, func(i, j int) bool { return sel[i].RegistrationMomentumHeight > sel[j].RegistrationMomentumHeight })
			ids, keys, el = nil, nil, nil
			for _, q := range sel {
				ids, keys, el = append(ids, id(q)), append(keys, i64s(int64(q.RegistrationMomentumHeight))), append(el, want(q))
			}
			e.list("embedded.bridge.getAllUnwrapTokenRequestsByToAddress", 0, ids, keys, el, u.String())
		}
		e.idKeys("embedded.bridge.getAllUnwrapTokenRequests", "transactionHash", "logIndex")
		e.idKeys("embedded.bridge.getAllUnwrapTokenRequestsByToAddress", "transactionHash", "logIndex")
	}
	for _, z := range []types.ZenonTokenStandard{types.ZnnTokenStandard, types.QsrTokenStandard} {
		e.read("embedded.bridge.getFeeTokenPair", M{"tokenStandard": z}, z)
	}

	// ---- htlc, swap: no lists; the getters must answer
	e.read("embedded.swap.getAssets", M{}).Any = true
	e.read("embedded.swap.getLegacyPillars", M{}).Any = true
	for _, u := range users[:3] {
		e.read("embedded.htlc.getProxyUnlockStatus", true, u)
		e.read("embedded.pillar.getDelegatedPillar", nil, u).Any = true
		e.read("embedded.pillar.getDepositedQsr", nil, u).Any = true
		e.read("embedded.sentinel.getDepositedQsr", nil, u).Any = true
		for _, ns := range []string{"pillar", "sentinel", "stake", "liquidity"} {
			e.read("embedded."+ns+".getUncollectedReward", M{"address": u}, u)
		}
	}
	e.read("embedded.pillar.getQsrRegistrationCost", nil).Any = true
	// every send to the htlc contract that created an entry: the id is the hash of the send
	as := e.nd.Ch.GetFrontierAccountStore(g.User1.Address)
	for i := uint64(1); i <= as.Identifier().Height; i++ {
		b, _ := as.ByHeight(i)
		if b != nil && b.IsSendBlock() && b.ToAddress == types.HtlcContract {
			if h, err := definition.GetHtlcInfo(r.storage(types.HtlcContract).Storage(), b.Hash); err == nil && h != nil {
				e.read("embedded.htlc.getById", M{"id": h.Id, "timeLocked": h.TimeLocked, "hashLocked": h.HashLocked, "tokenStandard": h.TokenStandard, "amount": h.Amount.String()}, h.Id)
				e.info.Notes["htlc-entry"]++
			}
		}
	}
}

var _ = json.Marshal
