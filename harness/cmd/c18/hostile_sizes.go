package main

// sizes: "oversized requests produce error responses (and the request size is bounded)". A family of requests whose
// SIZE and FRAMING are hostile, against every transport of the child's real rpc/server:
//
//	sizes     around the bound of the transport (limit-1, limit, limit+1, limit+1 KiB, 2 x limit) and small ones
//	paddings  where the bytes are: white space in front of the document / inside params / between members, one huge
//	          string argument, a huge batch of calls, a huge id (string or number), a huge member the server does not
//	          know, garbage behind a complete request (white space, junk, a second request)
//	framings  http: Content-Length; chunked without Content-Length in one / a few / very many chunks (chunk
//	          extensions, trailers, upper-case sizes); chunked together with a Content-Length header; a body of unknown
//	          length through net/http's client; Content-Length smaller / larger than what is sent; no length at all;
//	          methods and content types. websocket: one frame, a few fragments, very many fragments, control frames
//	          between the fragments. ipc: the document on the stream.
//
// The called method (verif.bump, registered by the child for this purpose) has a side effect that is read out of band,
// so "executed" is observed, not inferred from the answer. Oracles (the clause itself):
//
//	oversized-request-never-executed            a request whose document does not end within the bound, or that declares
//	                                            more than the bound, is answered with an error (http 413 / 4xx, a JSON-RPC
//	                                            error, or the connection is closed) and the counter does not move
//	request-within-limit-same-answer-in-every-framing   a request within the bound is executed exactly once per call and
//	                                            gets the one expected JSON answer, whatever the framing / transport
//	small-request-succeeds-in-every-framing     non-vacuity: an honest small call succeeds in each framing
//	side-effect-only-with-success-answer        in every other case: refused (status >= 400) => counter unchanged
//
// and the decision (refused / no complete document / decoded) is compared with the size gate of RpcMsg.v.

import (
	"bufio"
	"bytes"
	"encoding/json"
	"fmt"
	"hash/crc32"
	"io"
	"net"
	"net/http"
	"os"
	"strings"
	"time"

	. "zharness/hz"
)

// the bounds the server documents (rpc/server http.go maxRequestContentLength, websocket.go wsMessageSizeLimit).
// Written down here and in RpcMsg.v on purpose, not read from the code: a bound that moves is a finding.
const (
	httpBodyLimit  = 5 * 1024 * 1024
	wsMessageLimit = 15 * 1024 * 1024
)

// ------------------------------------------------------------------ bodies that are not held in memory
type seg struct {
	unit  []byte
	reps  int
	block []byte // unit repeated, for copying
}
type vbody struct {
	segs []seg
	n    int
}

func (v *vbody) add(unit string, reps int) {
	if reps <= 0 || len(unit) == 0 {
		return
	}
	s := seg{unit: []byte(unit), reps: reps}
	k := 32768 / len(unit)
	if k < 1 {
		k = 1
	}
	if k > reps {
		k = reps
	}
	s.block = bytes.Repeat(s.unit, k)
	v.segs = append(v.segs, s)
	v.n += len(unit) * reps
}

// count bytes of filler made of unit; what does not divide is filled with the one-byte slack
func (v *vbody) fill(unit string, count int, slack string) {
	if count <= 0 {
		return
	}
	v.add(slack, count%len(unit))
	v.add(unit, count/len(unit))
}

type vreader struct {
	v   *vbody
	si  int
	pos int // bytes of the current segment already delivered
}

func (v *vbody) reader() io.Reader { return &vreader{v: v} }

func (r *vreader) Read(p []byte) (int, error) {
	n := 0
	for n < len(p) {
		if r.si >= len(r.v.segs) {
			if n == 0 {
				return 0, io.EOF
			}
			return n, nil
		}
		s := &r.v.segs[r.si]
		total := len(s.unit) * s.reps
		if r.pos >= total {
			r.si, r.pos = r.si+1, 0
			continue
		}
		src := s.block[r.pos%len(s.block):]
		if len(src) > total-r.pos {
			src = src[:total-r.pos]
		}
		c := copy(p[n:], src)
		n, r.pos = n+c, r.pos+c
	}
	return n, nil
}

// the construction of the body, short enough for a report and sufficient to rebuild it
func (v *vbody) describe() string {
	var b strings.Builder
	for _, s := range v.segs {
		if s.reps == 1 && len(s.unit) <= 400 {
			b.Write(s.unit)
		} else if len(s.unit) <= 80 {
			fmt.Fprintf(&b, "<%q x %d>", s.unit, s.reps)
		} else {
			fmt.Fprintf(&b, "<%q…%q (%d bytes) x %d>", s.unit[:40], s.unit[len(s.unit)-30:], len(s.unit), s.reps)
		}
	}
	return b.String()
}

// ------------------------------------------------------------------ padded calls of the side-effect probe
const (
	padNone = iota
	padWsLead
	padWsParams
	padWsMembers
	padString
	padBatch
	padID
	padMember
	padTrail
	nPad
)

var padNames = []string{"no-padding", "whitespace-before-document", "whitespace-inside-params", "whitespace-between-members", "huge-string-param",
	"huge-batch", "huge-id", "huge-unknown-member", "garbage-after-request"}

type sizedReq struct {
	body  *vbody
	need  int // the bytes up to the end of the first JSON value: what a reader has to consume to decode the request
	pad   int
	sub   string
	batch bool
	wantN int // replies when executed = executions
	// expected replies: all but the last carry resA, the last resB; every reply echoes the id
	resA, resB string
	idText     string // the raw id ("" when huge: then idLen / idCRC)
	idLen      int
	idCRC      uint32
	streamDocs int // documents an ipc stream makes of the bytes (garbage-after-request with a second call: 2)
}

func crcOfFill(unit string, count int, slack string) (int, uint32) {
	// decoded length and checksum of a JSON string body made by vbody.fill(unit, count, slack): the units are
	// either plain characters or the two-byte escape \t
	v := &vbody{}
	dec := func(s string) string { return strings.ReplaceAll(s, `\t`, "\t") }
	v.fill(dec(unit), (count/len(unit))*len(dec(unit)), "")
	v2 := &vbody{}
	v2.add(slack, count%len(unit))
	v2.segs = append(v2.segs, v.segs...)
	v2.n += v.n
	h := crc32.NewIEEE()
	io.Copy(h, v2.reader())
	return v2.n, h.Sum32()
}

func bumpCall(id, padJSON string, k uint64) string {
	return `{"jsonrpc":"2.0","id":` + id + `,"method":"verif.bump","params":[` + padJSON + `,` + fmt.Sprint(k) + `]}`
}

func quotedResult(padLen int, k uint64, crc uint32) string {
	return `"` + bumpResult(padLen, k, crc) + `"`
}

// a call (or batch of calls) of verif.bump of exactly `total` bytes (0: natural size, no filler) padded in the given way
func (g *gen) sizedRequest(pad int, total int) *sizedReq {
	rq := &sizedReq{body: &vbody{}, pad: pad, wantN: 1, streamDocs: 1}
	id := g.freshID()
	rq.idText = id
	k := uint64(g.rng.Intn(1000))
	small := g.pick("p", "", "pad", "é", `x\ty`)
	var smallDec string
	json.Unmarshal([]byte(`"`+small+`"`), &smallDec)
	smallRes := quotedResult(len(smallDec), k, crc32.ChecksumIEEE([]byte(smallDec)))
	rq.resA, rq.resB = smallRes, smallRes
	ws := g.pick(" ", "\n", "\t", "\r", " \n", "\r\n\t ")
	v := rq.body
	doc := bumpCall(id, `"`+small+`"`, k)
	room := func(base int) int { // bytes of filler
		if total == 0 {
			return 0
		}
		if total < base {
			return 0
		}
		return total - base
	}
	switch pad {
	case padNone:
		v.add(doc, 1)
	case padWsLead:
		v.fill(ws, room(len(doc)), " ")
		v.add(doc, 1)
		rq.sub = fmt.Sprintf("%q", ws)
	case padWsParams:
		pre, post := `{"jsonrpc":"2.0","id":`+id+`,"method":"verif.bump","params":[`, `"`+small+`",`+fmt.Sprint(k)+`]}`
		if g.rng.Intn(2) == 0 {
			pre, post = pre+`"`+small+`",`, fmt.Sprint(k)+`]}`
		}
		v.add(pre, 1)
		v.fill(ws, room(len(pre)+len(post)), " ")
		v.add(post, 1)
		rq.sub = fmt.Sprintf("%q", ws)
	case padWsMembers:
		cut := g.pick(`{`, `{"jsonrpc":"2.0",`, `{"jsonrpc":"2.0","id":`, `{"jsonrpc":"2.0","id":`+id+`,"method":`, `{"jsonrpc":"2.0","id":`+id+`,"method":"verif.bump"`)
		pre, post := cut, doc[len(cut):]
		if !strings.HasPrefix(doc, cut) {
			panic("sizedRequest: cut")
		}
		v.add(pre, 1)
		v.fill(ws, room(len(doc)), " ")
		v.add(post, 1)
		rq.sub = fmt.Sprintf("%q after %q", ws, cut)
	case padString:
		unit := g.pick("a", "z", "0", " ", `\t`, "é")
		pre, post := `{"jsonrpc":"2.0","id":`+id+`,"method":"verif.bump","params":["`, `",`+fmt.Sprint(k)+`]}`
		cnt := room(len(pre) + len(post))
		v.add(pre, 1)
		v.fill(unit, cnt, "s")
		v.add(post, 1)
		n, crc := crcOfFill(unit, cnt, "s")
		rq.resA = quotedResult(n, k, crc)
		rq.resB = rq.resA
		rq.sub = fmt.Sprintf("%q", unit)
	case padBatch:
		elemPad := 500 + g.rng.Intn(6000)
		elem := bumpCall(id, `"`+strings.Repeat("b", elemPad)+`"`, k)
		rq.resA = quotedResult(elemPad, k, crc32.ChecksumIEEE(bytes.Repeat([]byte("b"), elemPad)))
		empty := bumpCall(id, `""`, k)
		reps, lastPad := 2, 1
		if total > 0 {
			reps = (total - 2 - len(empty)) / (len(elem) + 1)
			if reps < 0 {
				reps = 0
			}
			lastPad = total - 2 - reps*(len(elem)+1) - len(empty)
			if lastPad < 0 {
				lastPad = 0
			}
		}
		v.add("[", 1)
		v.add(elem+",", reps)
		v.add(`{"jsonrpc":"2.0","id":`+id+`,"method":"verif.bump","params":["`, 1)
		v.add("c", lastPad)
		v.add(`",`+fmt.Sprint(k)+`]}`, 1)
		v.add("]", 1)
		rq.resB = quotedResult(lastPad, k, crc32.ChecksumIEEE(bytes.Repeat([]byte("c"), lastPad)))
		rq.batch, rq.wantN = true, reps+1
		rq.sub = fmt.Sprintf("%d calls of %d bytes", reps+1, len(elem))
	case padID:
		pre, post := `{"jsonrpc":"2.0","id":"`, `","method":"verif.bump","params":["`+small+`",`+fmt.Sprint(k)+`]}`
		unit, lead, tail := g.pick("i", "7", "é"), `"`, `"`
		if g.rng.Intn(2) == 0 { // a number of very many digits
			pre, post = `{"jsonrpc":"2.0","id":1`, `,"method":"verif.bump","params":["`+small+`",`+fmt.Sprint(k)+`]}`
			unit, lead, tail = g.pick("0", "9"), "1", ""
		}
		cnt := room(len(pre) + len(post))
		v.add(pre, 1)
		v.fill(unit, cnt, "1")
		v.add(post, 1)
		idv := &vbody{}
		idv.add(lead, 1)
		idv.fill(unit, cnt, "1")
		idv.add(tail, 1)
		h := crc32.NewIEEE()
		io.Copy(h, idv.reader())
		rq.idText, rq.idLen, rq.idCRC = "", idv.n, h.Sum32()
		rq.sub = fmt.Sprintf("%s%q", lead, unit)
	case padMember:
		name := g.pick("pad", "x", "", "Params ", "jsonrpc2")
		cut := g.pick(`{`, `{"jsonrpc":"2.0",`, `{"jsonrpc":"2.0","id":`+id+`,`)
		if !strings.HasPrefix(doc, cut) {
			panic("sizedRequest: cut")
		}
		pre, post := cut+`"`+name+`":"`, `",`+doc[len(cut):]
		if g.rng.Intn(3) == 0 { // as the last member
			pre, post = doc[:len(doc)-1]+`,"`+name+`":"`, `"}`
		}
		v.add(pre, 1)
		v.fill(g.pick("m", "\\t", " "), room(len(pre)+len(post)), "m")
		v.add(post, 1)
		rq.sub = fmt.Sprintf("%q", name)
	case padTrail:
		v.add(doc, 1)
		switch g.rng.Intn(4) {
		case 0:
			v.fill(ws, room(len(doc)), " ")
			rq.sub = "white space"
		case 1:
			v.fill(g.pick("x", "}", "\x00", "]]", `"`, "\xff"), room(len(doc)), "#")
			rq.sub = "junk"
			rq.streamDocs = -1
		case 2:
			second := bumpCall(g.freshID(), `"second"`, k)
			v.add(second, 1)
			if r := room(len(doc) + len(second)); r > 0 {
				v.fill(ws, r, " ")
			}
			rq.sub = "a second call"
			rq.streamDocs = 2
		case 3:
			v.add(",", 1)
			v.fill(doc+",", room(len(doc)+1), " ")
			rq.sub = "the call again and again, separated by commas"
			rq.streamDocs = -1
		}
		rq.need = len(doc)
		return rq
	}
	rq.need = v.n
	return rq
}

// ------------------------------------------------------------------ what came back
type sizedAnswer struct {
	terr    string // timeout and the like: neither an answer nor a closed connection
	closed  bool   // the server closed the connection without an answer
	status  int    // http
	body    []byte
	matches bool // exactly the expected JSON answer
	hasRes  bool // some member "result" in the answer
	isErr   bool // a JSON-RPC error object (or, over http, a status >= 400)
	errCode int64
}

// is `body` the answer expected for rq? (id echoed byte by byte, result equal, nothing else)
func (rq *sizedReq) check(a *sizedAnswer) {
	body := bytes.TrimSpace(a.body)
	a.hasRes = bytes.Contains(body, []byte(`"result"`))
	one := func(raw []byte, res string) bool {
		pre := []byte(`{"jsonrpc":"2.0","id":`)
		post := []byte(`,"result":` + res + `}`)
		if !bytes.HasPrefix(raw, pre) || !bytes.HasSuffix(raw, post) || len(raw) < len(pre)+len(post) {
			return false
		}
		id := raw[len(pre) : len(raw)-len(post)]
		if rq.idText != "" {
			return string(id) == rq.idText
		}
		return len(id) == rq.idLen && crc32.ChecksumIEEE(id) == rq.idCRC
	}
	if !rq.batch {
		a.matches = one(body, rq.resA)
	} else if len(body) > 2 && body[0] == '[' && body[len(body)-1] == ']' {
		var elems []json.RawMessage
		if json.Unmarshal(body, &elems) == nil && len(elems) == rq.wantN {
			a.matches = true
			for i, e := range elems {
				res := rq.resA
				if i == len(elems)-1 {
					res = rq.resB
				}
				a.matches = a.matches && one(e, res)
			}
		}
	}
	if !a.matches && len(body) > 0 && len(body) < 1<<20 {
		var e struct {
			Error *struct {
				Code int64 `json:"code"`
			} `json:"error"`
		}
		if json.Unmarshal(body, &e) == nil && e.Error != nil {
			a.isErr, a.errCode = true, e.Error.Code
		}
	}
}

func isClose(err error) bool {
	if err == io.EOF || err == io.ErrUnexpectedEOF || err == errWSClosed {
		return true
	}
	s := err.Error()
	return strings.Contains(s, "reset") || strings.Contains(s, "broken pipe") || strings.Contains(s, "EOF") || strings.Contains(s, "closed")
}

// ------------------------------------------------------------------ http
const (
	frCL = iota
	frChunkedOne
	frChunkedFew
	frChunkedMany
	frChunkedWithCL
	frUnknownLength
	frCLShort
	frCLLong
	frNoLength
	nFraming
)

var framingNames = []string{"content-length", "chunked-one-chunk", "chunked-few-chunks", "chunked-many-small-chunks", "chunked-and-content-length",
	"unknown-length-go-client", "content-length-smaller-than-body", "content-length-larger-than-body", "no-length-at-all"}

// keep-alive (see httpSized); the idle connection is closed after every request
var sizesClient = &http.Client{Transport: &http.Transport{}, Timeout: 60 * time.Second}

type httpEnvelope struct {
	method string
	ctype  string
}

// request over a raw connection: head, then the body by the writer while the answer is read (a server that decides
// on the head answers before the body has been sent)
func rawHTTPExchange(addr, head string, body func(w *bufio.Writer) error) (a sizedAnswer) {
	conn, err := net.Dial("tcp", addr)
	if err != nil {
		return sizedAnswer{terr: "dial: " + err.Error()}
	}
	conn.SetDeadline(time.Now().Add(60 * time.Second))
	wdone := make(chan struct{})
	go func() {
		defer close(wdone)
		bw := bufio.NewWriterSize(conn, 64<<10)
		bw.WriteString(head)
		if body(bw) == nil {
			bw.Flush()
		}
	}()
	defer func() { conn.Close(); <-wdone }()
	br := bufio.NewReader(conn)
	var resp *http.Response
	for {
		resp, err = http.ReadResponse(br, nil)
		if err != nil {
			if isClose(err) {
				return sizedAnswer{closed: true}
			}
			return sizedAnswer{terr: "no response: " + err.Error()}
		}
		if resp.StatusCode != 100 {
			break
		}
	}
	b, err := io.ReadAll(resp.Body)
	resp.Body.Close()
	if err != nil && !isClose(err) {
		return sizedAnswer{terr: "reading the answer: " + err.Error(), status: resp.StatusCode, body: b}
	}
	return sizedAnswer{status: resp.StatusCode, body: b}
}

func caseMix(g *gen, s string) string {
	switch g.rng.Intn(4) {
	case 0:
		return strings.ToLower(s)
	case 1:
		return strings.ToUpper(s)
	}
	return s
}

// sends rq in the given framing; declared = the length the head declares (-1: none)
func (h *hostileRun) httpSized(rq *sizedReq, framing int, env httpEnvelope) (a sizedAnswer, declared int, note string) {
	g := h.g
	addr := strings.TrimPrefix(h.c.info.HTTP, "http://")
	n := rq.body.n
	// no "Connection: close": net/http does not drain what a handler left unread of the body of such a request before it
	// closes, the kernel then resets the connection and the part of a large answer that is still unsent is lost
	// (a request that declares more than it sends needs it: without it net/http wants the rest of the body before it
	// answers)
	head := env.method + " / HTTP/1.1\r\nHost: x\r\n"
	if framing == frCLLong {
		head += "Connection: close\r\n"
	}
	if env.ctype != "" {
		head += caseMix(g, "Content-Type") + ": " + env.ctype + "\r\n"
	}
	chunkSizes := func(kind int) []int {
		var sizes []int
		left := n
		switch kind {
		case frChunkedOne, frChunkedWithCL:
			sizes = append(sizes, n)
			left = 0
		case frChunkedFew:
			for k := 1 + g.rng.Intn(5); k > 0 && left > 1; k-- {
				c := 1 + g.rng.Intn(left-1)
				if g.rng.Intn(3) == 0 {
					c = 1 + g.rng.Intn(100)
					if c >= left {
						c = 1
					}
				}
				sizes = append(sizes, c)
				left -= c
			}
		case frChunkedMany:
			hi := []int{700, 4096, 16384, 65536}[g.rng.Intn(4)]
			for left > 0 {
				c := 1 + g.rng.Intn(hi)
				if g.rng.Intn(50) == 0 {
					c = 1
				}
				if c > left {
					c = left
				}
				sizes = append(sizes, c)
				left -= c
			}
		}
		if left > 0 {
			sizes = append(sizes, left)
		}
		return sizes
	}
	chunked := func(sizes []int) func(w *bufio.Writer) error {
		ext := g.pick("", "", ";x=1", ";name=\"v\"")
		upper := g.rng.Intn(3) == 0
		trailer := g.pick("", "", "X-Trailer: 1\r\n")
		return func(w *bufio.Writer) error {
			r := rq.body.reader()
			for _, c := range sizes {
				hx := fmt.Sprintf("%x", c)
				if upper {
					hx = "000" + strings.ToUpper(hx)
				}
				if _, err := w.WriteString(hx + ext + "\r\n"); err != nil {
					return err
				}
				if _, err := io.CopyN(w, r, int64(c)); err != nil {
					return err
				}
				if _, err := w.WriteString("\r\n"); err != nil {
					return err
				}
			}
			_, err := w.WriteString("0\r\n" + trailer + "\r\n")
			return err
		}
	}
	whole := func(w *bufio.Writer) error { _, err := io.Copy(w, rq.body.reader()); return err }
	te := caseMix(g, "Transfer-Encoding") + ": " + g.pick("chunked", "chunked", "Chunked") + "\r\n"
	cl := func(d int) string { return caseMix(g, "Content-Length") + ": " + fmt.Sprint(d) + "\r\n" }
	declared = -1
	switch framing {
	case frCL:
		declared = n
		if g.rng.Intn(4) == 0 {
			head += "Expect: 100-continue\r\n"
			note = "expect-continue"
		}
		return rawHTTPExchange(addr, head+cl(n)+"\r\n", whole), declared, note
	case frChunkedOne, frChunkedFew, frChunkedMany:
		sizes := chunkSizes(framing)
		note = fmt.Sprintf("%d chunks", len(sizes))
		return rawHTTPExchange(addr, head+te+"\r\n", chunked(sizes)), declared, note
	case frChunkedWithCL:
		// Transfer-Encoding overrides Content-Length (RFC 9112 6.3); net/http drops the Content-Length header
		lie := []int{n, 0, 17, httpBodyLimit, httpBodyLimit - 1, 3 * httpBodyLimit}[g.rng.Intn(6)]
		note = fmt.Sprintf("Content-Length: %d beside chunked", lie)
		hs := []string{te, cl(lie)}
		if g.rng.Intn(2) == 0 {
			hs[0], hs[1] = hs[1], hs[0]
		}
		return rawHTTPExchange(addr, head+hs[0]+hs[1]+"\r\n", chunked(chunkSizes(framing))), declared, note
	case frUnknownLength:
		req, err := http.NewRequest(env.method, h.c.info.HTTP, struct{ io.Reader }{rq.body.reader()})
		if err != nil {
			return sizedAnswer{terr: err.Error()}, declared, note
		}
		if env.ctype != "" {
			req.Header.Set("Content-Type", env.ctype)
		}
		resp, err := sizesClient.Do(req)
		defer sizesClient.CloseIdleConnections()
		if err != nil {
			if isClose(err) {
				return sizedAnswer{closed: true}, declared, note
			}
			return sizedAnswer{terr: err.Error()}, declared, note
		}
		defer resp.Body.Close()
		b, err := io.ReadAll(resp.Body)
		if err != nil && !isClose(err) {
			return sizedAnswer{terr: "reading the answer: " + err.Error(), status: resp.StatusCode, body: b}, declared, note
		}
		return sizedAnswer{status: resp.StatusCode, body: b}, declared, note
	case frCLShort:
		declared = n - 1 - g.rng.Intn(2000)
		switch g.rng.Intn(4) {
		case 0:
			declared = g.rng.Intn(40)
		case 1:
			declared = n - 1
		}
		if declared < 0 {
			declared = 0
		}
		return rawHTTPExchange(addr, head+cl(declared)+"\r\n", whole), declared, note
	case frCLLong:
		declared = n + 1 + g.rng.Intn(2000)
		switch g.rng.Intn(4) {
		case 0:
			declared = n + 1
		case 1:
			declared = 3*httpBodyLimit + g.rng.Intn(1000)
		}
		return rawHTTPExchange(addr, head+cl(declared)+"\r\n", whole), declared, note
	case frNoLength:
		declared = 0 // a request without Content-Length and Transfer-Encoding has no body (RFC 9112 6.3)
		return rawHTTPExchange(addr, head+"\r\n", whole), declared, note
	}
	panic("framing")
}

// the decision the bound asks for (also RpcMsg.v http_gate): 0 = refused by the declared length, 1 = no complete
// document within what is read, 2 = the document is decoded (and, being a valid call, executed)
func httpGate(need, n, declared int) int {
	avail := n
	if declared >= 0 {
		if declared > httpBodyLimit {
			return 0
		}
		if declared < avail {
			avail = declared
		}
	}
	if avail > httpBodyLimit {
		avail = httpBodyLimit
	}
	if need <= avail {
		return 2
	}
	return 1
}

func sizeLabel(n, limit int, name string) string {
	switch {
	case n == limit-1:
		return name + "-1"
	case n == limit:
		return name
	case n == limit+1:
		return name + "+1"
	case n == limit+1024:
		return name + "+1KiB"
	case n == 2*limit:
		return "2x" + name
	case n < 1<<20:
		return "small"
	}
	return fmt.Sprintf("%dMiB", n>>20)
}

func (h *hostileRun) counterNow() uint64 {
	c, ok := h.c.counter()
	if !ok {
		return ^uint64(0)
	}
	return c
}

func clipS(s string) string {
	if len(s) > 900 {
		return s[:600] + fmt.Sprintf(" …(%d bytes)… ", len(s)) + s[len(s)-250:]
	}
	return s
}

var acceptedTypes = []string{"application/json", "application/json; charset=utf-8", "application/json-rpc", "application/jsonrequest", "Application/JSON"}

// one request of the family over http
func (h *hostileRun) httpCase(pad, total, framing int, env httpEnvelope, envHostile bool) {
	out := h.out
	rq := h.g.sizedRequest(pad, total)
	n, need := rq.body.n, rq.need
	before := h.counterNow()
	a, declared, note := h.httpSized(rq, framing, env)
	what := Tup("http", env.method, env.ctype, framingNames[framing], note, padNames[pad], rq.sub, "bytes", I64(int64(n)), "document ends at", I64(int64(need)),
		"declared", I64(int64(declared)), "body", clipS(rq.body.describe()))
	if !h.alive("http", []byte(fmt.Sprint(what)), a.terr != "" || a.closed) {
		return
	}
	after := h.counterNow()
	delta := int64(after - before)
	rq.check(&a)
	refusedStatus := a.status >= 400
	got := Tup("status", I64(int64(a.status)), "closed", a.closed, "transport", a.terr, "executions", I64(delta), "answer", clip(a.body))
	label := sizeLabel(n, httpBodyLimit, "limit")
	gate := httpGate(need, n, declared)
	class := "other"
	switch {
	case a.terr != "":
		class = "transport-error"
	case a.closed:
		class = "closed"
	case refusedStatus:
		class = fmt.Sprintf("status-%d", a.status)
	case delta > 0 && a.matches:
		class = "executed"
	case delta == 0 && a.isErr:
		class = fmt.Sprintf("error%d", a.errCode)
	case delta == 0 && len(bytes.TrimSpace(a.body)) == 0:
		class = "silence"
	}
	out.Count(fmt.Sprintf("sizes:http:%s:%s:%s:%s", framingNames[framing], padNames[pad], label, class))
	honest := framing == frCL || framing == frChunkedOne || framing == frChunkedFew || framing == frChunkedMany || framing == frChunkedWithCL || framing == frUnknownLength
	oversized := need > httpBodyLimit || declared > httpBodyLimit
	methodRefused := env.method == "PUT" || env.method == "DELETE"
	typeRefused := env.method != "OPTIONS" && !strIn(acceptedTypes, env.ctype)
	switch {
	case oversized:
		// the clause: never executed, answered with an error (or the connection is closed)
		ok := delta == 0 && !a.hasRes && a.terr == "" && (refusedStatus || a.closed || (a.status == 200 && (a.isErr || len(bytes.TrimSpace(a.body)) == 0)))
		out.Oracle(ok, "oversized-request-never-executed", Tup(what, got))
	case envHostile && (methodRefused || typeRefused):
		ok := delta == 0 && !a.hasRes && a.terr == "" && (refusedStatus || a.closed)
		out.Oracle(ok, "refused-http-envelope-never-executed", Tup(what, got))
	case honest && n <= httpBodyLimit && (!envHostile || env.method == "POST"):
		ok := a.terr == "" && a.status == 200 && a.matches && delta == int64(rq.wantN)
		key := "request-within-limit-same-answer-in-every-framing"
		if n < 1<<20 {
			key = "small-request-succeeds-in-every-framing"
		}
		out.Oracle(ok, key, Tup(what, got))
	default:
		// dishonest framings, garbage beyond the bound behind a complete request, methods other than POST that the
		// server happens to serve: the answer and the side effect agree
		ok := a.terr == "" && (delta == 0 || (a.status == 200 && a.matches && delta == int64(rq.wantN))) && !(refusedStatus && delta != 0) && !(delta == 0 && a.matches)
		out.Oracle(ok, "side-effect-only-with-success-answer", Tup(what, got))
	}
	// the decision against the model of the gate (where the observation determines it)
	if !envHostile && a.terr == "" && !a.closed {
		obs := -1
		switch {
		case a.status == 413:
			obs = 0
		case a.status == 200 && delta == 0 && !a.hasRes:
			obs = 1
		case a.status == 200 && delta > 0:
			obs = 2
		}
		if obs >= 0 {
			var f interface{} = Con("FUndeclared")
			if declared >= 0 {
				f = Con("FDeclared", I64(int64(declared)))
			}
			out.Case("size_gate", Con("GHttp", I64(int64(need)), I64(int64(n)), f), I64(int64(obs)), "http:"+framingNames[framing]+":"+[]string{"refused", "no-document", "decoded"}[gate])
		}
	}
	h.probeAfter("http", []byte(fmt.Sprint(what)))
}

func strIn(xs []string, s string) bool {
	for _, x := range xs {
		if x == s {
			return true
		}
	}
	return false
}

// ------------------------------------------------------------------ websocket
const (
	wsSingle = iota
	wsFew
	wsMany
	wsFewWithPings
	nWsFrag
)

var wsFragNames = []string{"one-frame", "few-fragments", "many-small-fragments", "fragments-with-pings-between"}

// the frames of the message: refused at the first frame whose declared length takes the message over the bound;
// decoded when the document ends within the frames accepted so far (RpcMsg.v ws_gate). 0 / 1 / 2 as httpGate
func wsGate(need int, frames []int) int {
	cum := 0
	for _, f := range frames {
		if cum+f > wsMessageLimit {
			return 0
		}
		cum += f
		if need <= cum {
			return 2
		}
	}
	return 1
}

func (h *hostileRun) wsCase(pad, total, frag int) {
	out, g := h.out, h.g
	rq := g.sizedRequest(pad, total)
	n, need := rq.body.n, rq.need
	var frames []int
	left := n
	switch frag {
	case wsSingle:
	case wsFew, wsFewWithPings:
		for k := 1 + g.rng.Intn(5); k > 0 && left > 1; k-- {
			c := 1 + g.rng.Intn(left-1)
			if g.rng.Intn(3) == 0 {
				c = 1 + g.rng.Intn(200)
				if c >= left {
					c = 1
				}
			}
			frames = append(frames, c)
			left -= c
		}
	case wsMany:
		hi := []int{4096, 65536, 125, 1 << 20}[g.rng.Intn(4)]
		if hi == 125 && n > 1<<20 {
			hi = 4096
		}
		for left > 0 {
			c := 1 + g.rng.Intn(hi)
			if c > left {
				c = left
			}
			frames = append(frames, c)
			left -= c
		}
	}
	if left > 0 {
		frames = append(frames, left)
	}
	what := Tup("ws", wsFragNames[frag], fmt.Sprintf("%d frames", len(frames)), padNames[pad], rq.sub, "bytes", I64(int64(n)), "document ends at", I64(int64(need)),
		"body", clipS(rq.body.describe()))
	before := h.counterNow()
	var a sizedAnswer
	conn, err := dialWS(h.c.info.WS)
	if err != nil {
		a.terr = "dial: " + err.Error()
	} else {
		wdone := make(chan struct{})
		go func() {
			defer close(wdone)
			conn.c.SetWriteDeadline(time.Now().Add(60 * time.Second))
			conn.writeFragments(rq.body.reader(), frames, frag == wsFewWithPings)
		}()
		conn.c.SetReadDeadline(time.Now().Add(60 * time.Second))
		m, err := conn.readMessage()
		switch {
		case err == nil:
			a.body = m
		case isClose(err):
			a.closed = true
		default:
			a.terr = "read: " + err.Error()
		}
		conn.close()
		<-wdone
	}
	if !h.alive("ws", []byte(fmt.Sprint(what)), a.terr != "" || a.closed) {
		return
	}
	after := h.counterNow()
	delta := int64(after - before)
	rq.check(&a)
	got := Tup("closed", a.closed, "transport", a.terr, "executions", I64(delta), "answer", clip(a.body))
	gate := wsGate(need, frames)
	class := "other"
	switch {
	case a.terr != "":
		class = "transport-error"
	case a.closed:
		class = "closed"
	case delta > 0 && a.matches:
		class = "executed"
	case a.isErr:
		class = fmt.Sprintf("error%d", a.errCode)
	}
	out.Count(fmt.Sprintf("sizes:ws:%s:%s:%s:%s", wsFragNames[frag], padNames[pad], sizeLabel(n, wsMessageLimit, "limit"), class))
	switch {
	case gate != 2:
		ok := delta == 0 && !a.hasRes && a.terr == "" && (a.closed || a.isErr)
		out.Oracle(ok, "oversized-request-never-executed", Tup(what, got))
	case n <= wsMessageLimit:
		ok := a.terr == "" && a.matches && delta == int64(rq.wantN)
		key := "request-within-limit-same-answer-in-every-framing"
		if n < 1<<20 {
			key = "small-request-succeeds-in-every-framing"
		}
		out.Oracle(ok, key, Tup(what, got))
	default:
		// a complete request in the first fragments, then garbage beyond the bound: executed or not, but no answer
		// without the side effect
		out.Oracle(a.terr == "" && !(delta == 0 && a.matches), "side-effect-only-with-success-answer", Tup(what, got))
	}
	if len(frames) <= 40 && a.terr == "" && (gate != 2 || n <= wsMessageLimit) {
		obs := 0
		if delta > 0 {
			obs = 2
		}
		fl := Lst()
		for _, f := range frames {
			fl = append(fl, I64(int64(f)))
		}
		out.Case("size_gate", Con("GWs", I64(int64(need)), fl), I64(int64(obs)), "ws:"+wsFragNames[frag]+":"+[]string{"refused", "no-document", "decoded"}[gate])
	}
	h.probeAfter("ws", []byte(fmt.Sprint(what)))
}

// ------------------------------------------------------------------ ipc (no bound of its own: a stream of documents)
func (h *hostileRun) ipcCase(pad, total int) {
	out := h.out
	rq := h.g.sizedRequest(pad, total)
	if rq.streamDocs != 1 {
		return
	}
	n := rq.body.n
	what := Tup("ipc", padNames[pad], rq.sub, "bytes", I64(int64(n)), "body", clipS(rq.body.describe()))
	before := h.counterNow()
	var a sizedAnswer
	conn, err := net.Dial("unix", h.c.info.IPC)
	if err != nil {
		a.terr = "dial: " + err.Error()
	} else {
		conn.SetDeadline(time.Now().Add(60 * time.Second))
		wdone := make(chan struct{})
		go func() {
			defer close(wdone)
			bw := bufio.NewWriterSize(conn, 64<<10)
			io.Copy(bw, rq.body.reader())
			bw.Flush()
			conn.(*net.UnixConn).CloseWrite()
		}()
		b, err := io.ReadAll(conn)
		a.body = b
		if err != nil && !isClose(err) {
			a.terr = "read: " + err.Error()
		}
		a.closed = len(bytes.TrimSpace(b)) == 0
		conn.Close()
		<-wdone
	}
	if !h.alive("ipc", []byte(fmt.Sprint(what)), a.terr != "" || a.closed) {
		return
	}
	delta := int64(h.counterNow() - before)
	rq.check(&a)
	got := Tup("closed", a.closed, "transport", a.terr, "executions", I64(delta), "answer", clip(a.body))
	class := "other"
	switch {
	case a.terr != "":
		class = "transport-error"
	case delta > 0 && a.matches:
		class = "executed"
	case a.closed:
		class = "closed"
	case a.isErr:
		class = fmt.Sprintf("error%d", a.errCode)
	}
	out.Count(fmt.Sprintf("sizes:ipc:%s:%s:%s", padNames[pad], sizeLabel(n, httpBodyLimit, "httplimit"), class))
	if n <= httpBodyLimit {
		// within the smallest bound of any transport: the same answer here as everywhere
		key := "request-within-limit-same-answer-in-every-framing"
		if n < 1<<20 {
			key = "small-request-succeeds-in-every-framing"
		}
		out.Oracle(a.terr == "" && a.matches && delta == int64(rq.wantN), key, Tup(what, got))
	} else {
		ok := a.terr == "" && ((delta == 0 && !a.hasRes) || (a.matches && delta == int64(rq.wantN)))
		out.Oracle(ok, "side-effect-only-with-success-answer", Tup(what, got))
	}
	h.probeAfter("ipc", []byte(fmt.Sprint(what)))
}

// ------------------------------------------------------------------ the schedule
// Every (size, framing) cell once per pass, the padding rotating through the cells (so that over the passes every
// cell meets every padding); the cells "above the bound x no declared length" a second time per pass with a padding
// that makes the DOCUMENT oversized. Passes grow with n.
func (h *hostileRun) sizes(n int) {
	rng := h.g.rng
	if h.c.info.Bump == "" {
		panic("the child offers no side-effect probe")
	}
	if _, ok := h.c.counter(); !ok {
		panic("the child does not report the execution counter")
	}
	t0 := time.Now()
	passes := 1 + n/750
	if passes > 8 {
		passes = 8
	}
	post := httpEnvelope{"POST", "application/json"}
	pads := rng.Perm(nPad - 1) // 1..nPad-1 in random order
	for i := range pads {
		pads[i]++
	}
	// ---- non-vacuity: honest small requests in every framing and transport
	for fr := 0; fr < nFraming && h.restarts < 4; fr++ {
		h.httpCase(padNone, 0, fr, httpEnvelope{"POST", acceptedTypes[rng.Intn(len(acceptedTypes))]}, false)
		h.httpCase(pads[fr%len(pads)], 0, fr, post, false)
		h.httpCase(pads[(fr+3)%len(pads)], 2000+rng.Intn(200000), fr, post, false)
	}
	for fg := 0; fg < nWsFrag && h.restarts < 4; fg++ {
		h.wsCase(padNone, 0, fg)
		h.wsCase(pads[fg%len(pads)], 2000+rng.Intn(200000), fg)
	}
	for i := 0; i < 3 && h.restarts < 4; i++ {
		h.ipcCase([]int{padNone, padBatch, pads[i]}[i], []int{0, 0, 2000 + rng.Intn(200000)}[i])
	}
	lap := func(what string) {
		fmt.Fprintf(os.Stderr, "sizes: %s %.1fs\n", what, time.Since(t0).Seconds())
		t0 = time.Now()
	}
	lap("small")
	// ---- methods and content types, small and oversized
	methods := []string{"POST", "GET", "PUT", "DELETE", "OPTIONS", "PATCH"}
	ctypes := []string{"", "text/plain", "application/x-www-form-urlencoded", "application/json; charset=", ";;;", "multipart/form-data; boundary=x", "application/jsonp", "text/json"}
	// the refused methods with everything else in order (accepted content type, small body): refused for the method alone
	for _, m := range []string{"PUT", "DELETE"} {
		for _, ct := range acceptedTypes {
			if h.restarts < 4 {
				h.httpCase(pads[rng.Intn(len(pads))], 0, []int{frCL, frChunkedFew}[rng.Intn(2)], httpEnvelope{m, ct}, true)
			}
		}
	}
	for i := 0; i < 6*passes && h.restarts < 4; i++ {
		env := httpEnvelope{methods[i%len(methods)], "application/json"}
		if i%2 == 1 || rng.Intn(3) == 0 {
			env.ctype = ctypes[rng.Intn(len(ctypes))]
		}
		if rng.Intn(4) == 0 {
			env.ctype = acceptedTypes[rng.Intn(len(acceptedTypes))]
		}
		total := 0
		if i%3 == 2 {
			total = httpBodyLimit + 1 + rng.Intn(2000)
		}
		h.httpCase(pads[rng.Intn(len(pads))], total, []int{frCL, frChunkedFew, frChunkedMany, frChunkedOne}[rng.Intn(4)], env, true)
	}
	lap("envelopes")
	// ---- http: sizes x framings
	httpSizes := []int{httpBodyLimit - 1, httpBodyLimit, httpBodyLimit + 1, httpBodyLimit + 1024, 2 * httpBodyLimit}
	type cell struct{ size, framing int }
	for p := 0; p < passes && h.restarts < 4; p++ {
		var cells []cell
		for _, s := range httpSizes {
			for fr := 0; fr < nFraming; fr++ {
				if fr == frNoLength && s != httpBodyLimit+1 && p == 0 {
					continue // nothing of such a body is read: once per pass is enough
				}
				cells = append(cells, cell{s, fr})
			}
		}
		rng.Shuffle(len(cells), func(i, j int) { cells[i], cells[j] = cells[j], cells[i] })
		off := rng.Intn(len(pads))
		for i, c := range cells {
			if h.restarts >= 4 {
				return
			}
			h.httpCase(pads[(i+off+p)%len(pads)], c.size, c.framing, post, false)
		}
		// above the bound, no declared length, the document itself oversized
		k := 0
		for _, s := range httpSizes[2:] {
			for _, fr := range []int{frChunkedOne, frChunkedFew, frChunkedMany, frChunkedWithCL, frUnknownLength} {
				pad := pads[(k+off+p)%len(pads)]
				for pad == padTrail {
					k++
					pad = pads[(k+off+p)%len(pads)]
				}
				k++
				if h.restarts >= 4 {
					return
				}
				h.httpCase(pad, s, fr, post, false)
			}
		}
	}
	lap("http")
	// ---- websocket: sizes x fragmentations
	wsSizes := []int{wsMessageLimit - 1, wsMessageLimit, wsMessageLimit + 1, wsMessageLimit + 1024, 2 * wsMessageLimit, httpBodyLimit + 1}
	for p := 0; p < passes && h.restarts < 4; p++ {
		off := rng.Intn(len(pads))
		fo := rng.Intn(nWsFrag)
		for i, s := range wsSizes {
			pad := pads[(i+off)%len(pads)]
			if pad == padID && s > 12<<20 {
				pad = padString // the answer would echo the whole id: not held in memory
			}
			if h.restarts >= 4 {
				return
			}
			h.wsCase(pad, s, (i+fo)%nWsFrag)
		}
		// above the bound in fragments each of which is small, the document itself oversized
		for i, s := range wsSizes[2:4] {
			pad := pads[(i+off+3)%len(pads)]
			if pad == padTrail || pad == padID {
				pad = padBatch
			}
			if h.restarts >= 4 {
				return
			}
			h.wsCase(pad, s, []int{wsMany, wsFewWithPings, wsFew}[(i+p)%3])
		}
	}
	lap("websocket")
	// ---- ipc: the sizes of the http bound on the stream
	for p := 0; p < passes && h.restarts < 4; p++ {
		for i, s := range []int{httpBodyLimit - 1, httpBodyLimit, httpBodyLimit + 1, 2 * httpBodyLimit} {
			pad := pads[(i+p+rng.Intn(2))%len(pads)]
			if pad == padTrail {
				pad = padWsLead
			}
			h.ipcCase(pad, s)
		}
	}
	lap("ipc")
}
