package main

// hostile: "malformed, oversized or hostile JSON-RPC requests produce error responses and never terminate the
// server". A structured generator of hostile JSON-RPC documents (gen*), an abstraction of a byte string to the
// document / message classes of coq/theories/RpcMsg.v (abstract*), clients for the three transports of the child
// (http, websocket, ipc stream), the property's oracles and the correspondence cases for the classifier model.

import (
	"bufio"
	"bytes"
	"encoding/json"
	"fmt"
	"io"
	"math/big"
	"math/rand"
	"net"
	"net/http"
	"os"
	"os/exec"
	"strings"
	"sync"
	"time"

	"github.com/zenon-network/go-zenon/common/types"
	. "zharness/hz"
)

// ------------------------------------------------------------------ the child process
type child struct {
	cmd    *exec.Cmd
	info   childInfo
	stdin  io.WriteCloser
	stdout *bufio.Reader
	errMu  sync.Mutex
	errBuf []byte
	dead   chan struct{}
	werr   error
	dir    string
	first  []byte // the line the child reports itself with
}

func startChild(seed int64) (*child, error) {
	c, err := startChildMode("rpcchild", seed)
	if err != nil {
		return nil, err
	}
	if err := json.Unmarshal(c.first, &c.info); err != nil {
		c.stop()
		return nil, err
	}
	c.first = nil
	return c, nil
}

// mode: rpcchild (hostile suite) or readchild (readers suite)
func startChildMode(mode string, seed int64) (*child, error) {
	dir, err := os.MkdirTemp("", "c18rpc")
	if err != nil {
		return nil, err
	}
	c := &child{dead: make(chan struct{}), dir: dir}
	c.cmd = exec.Command(os.Args[0], mode, fmt.Sprint(seed), dir)
	c.stdin, _ = c.cmd.StdinPipe()
	so, _ := c.cmd.StdoutPipe()
	c.cmd.Stderr = (*childStderr)(c)
	if err := c.cmd.Start(); err != nil {
		return nil, err
	}
	c.stdout = bufio.NewReaderSize(so, 4<<20)
	got := make(chan error, 1)
	go func() {
		for {
			line, err := c.stdout.ReadBytes('\n')
			if err != nil {
				got <- fmt.Errorf("child gave no endpoints: %v", err)
				return
			}
			if len(line) > 0 && line[0] == '{' {
				c.first = line
				got <- nil
				return
			}
		}
	}()
	select {
	case err := <-got:
		if err != nil {
			c.cmd.Process.Kill()
			return nil, err
		}
	case <-time.After(120 * time.Second):
		c.cmd.Process.Kill()
		return nil, fmt.Errorf("child start timeout")
	}
	go func() { c.werr = c.cmd.Wait(); close(c.dead) }()
	return c, nil
}

// the child's stderr (the trace of a fatal panic): head and tail are kept; cmd.Wait returns after the last write
type childStderr child

func (w *childStderr) Write(p []byte) (int, error) {
	c := (*child)(w)
	c.errMu.Lock()
	defer c.errMu.Unlock()
	c.errBuf = append(c.errBuf, p...)
	if len(c.errBuf) > 256<<10 {
		c.errBuf = append(c.errBuf[:64<<10:64<<10], c.errBuf[len(c.errBuf)-(64<<10):]...)
	}
	return len(p), nil
}

func (c *child) isDead(wait time.Duration) bool {
	select {
	case <-c.dead:
		return true
	case <-time.After(wait):
		return false
	}
}

// why the child died: the panic line and the first frames of its trace
func (c *child) deathNote() string {
	c.errMu.Lock()
	defer c.errMu.Unlock()
	s := string(c.errBuf)
	if i := strings.Index(s, "\npanic:"); i >= 0 {
		s = s[i+1:]
	} else if strings.HasPrefix(s, "panic:") {
	} else if i := strings.Index(s, "fatal error:"); i >= 0 {
		s = s[i:]
	} else if len(s) > 600 {
		s = s[len(s)-600:]
	}
	var keep []string
	for _, l := range strings.Split(s, "\n") {
		l = strings.TrimSpace(l)
		if l == "" || strings.HasPrefix(l, "/") || strings.HasPrefix(l, "[signal") {
			continue
		}
		if i := strings.Index(l, "(0x"); i > 0 {
			l = l[:i]
		}
		keep = append(keep, l)
		if len(keep) >= 7 {
			break
		}
	}
	return fmt.Sprintf("exit=%v %s", c.werr, strings.Join(keep, " | "))
}

func (c *child) momentum() bool {
	if _, err := c.stdin.Write([]byte("m")); err != nil {
		return false
	}
	line, err := c.stdout.ReadString('\n')
	return err == nil && strings.TrimSpace(line) == "ok"
}

// executions of the side-effect probe so far (asked out of band, not through the rpc server)
func (c *child) counter() (uint64, bool) {
	if _, err := c.stdin.Write([]byte("c")); err != nil {
		return 0, false
	}
	line, err := c.stdout.ReadString('\n')
	var n uint64
	if err != nil {
		return 0, false
	}
	if _, err := fmt.Sscanf(strings.TrimSpace(line), "c %d", &n); err != nil {
		return 0, false
	}
	return n, true
}

func (c *child) stop() {
	c.stdin.Write([]byte("q"))
	c.stdin.Close()
	if !c.isDead(5 * time.Second) {
		c.cmd.Process.Kill()
		<-c.dead
	}
	os.RemoveAll(c.dir)
}

// ------------------------------------------------------------------ abstraction: bytes -> classes of RpcMsg.v
const (
	docSyntax = iota
	docTrunc
	docEmpty
	docSingle
	docBatch
)
const (
	elNull = iota
	elNonObj
	elObj
)
const (
	idAbsent = iota
	idVal
	idBad
)
const (
	dNotFound = iota
	dBadParams
	dRun
	dAny
)
const (
	sfxNone = iota
	sfxSubscription
	sfxSubscribe
	sfxUnsubscribe
)

type msgAbs struct {
	idKind    int
	idCanon   string // canonical text of a scalar id
	method    string
	params    json.RawMessage // nil = absent
	hasResult bool
	hasError  bool
}
type elemAbs struct {
	kind int
	m    msgAbs
}
type docAbs struct {
	kind  int
	elems []elemAbs
}

func canonJSON(raw []byte) string {
	var v interface{}
	d := json.NewDecoder(bytes.NewReader(raw))
	d.UseNumber()
	if d.Decode(&v) != nil {
		return "?" + string(raw)
	}
	b, err := json.Marshal(v)
	if err != nil {
		return "?" + string(raw)
	}
	return string(b)
}

func firstByte(raw []byte) byte {
	for _, c := range raw {
		if c == ' ' || c == '\t' || c == '\n' || c == '\r' {
			continue
		}
		return c
	}
	return 0
}

var msgFields = []string{"jsonrpc", "id", "method", "params", "error", "result"}

// what json.Unmarshal leaves in a jsonrpcMessage for this object: members in order, names matched exactly or
// under case folding, a wrong-typed or null `method` leaves the field as it was, `id` / `params` / `result` keep
// any value (also null), `error` is a pointer: null clears it, everything else allocates it
func abstractObject(raw json.RawMessage) msgAbs {
	var m msgAbs
	dec := json.NewDecoder(bytes.NewReader(raw))
	dec.UseNumber()
	if t, err := dec.Token(); err != nil || t != json.Delim('{') {
		return m
	}
	for dec.More() {
		kt, err := dec.Token()
		if err != nil {
			return m
		}
		key, _ := kt.(string)
		var val json.RawMessage
		if err := dec.Decode(&val); err != nil {
			return m
		}
		field := ""
		for _, f := range msgFields {
			if f == key {
				field = f
			}
		}
		if field == "" {
			for _, f := range msgFields {
				if strings.EqualFold(f, key) {
					field = f
					break
				}
			}
		}
		fb := firstByte(val)
		switch field {
		case "id":
			if fb == '{' || fb == '[' {
				m.idKind = idBad
			} else {
				m.idKind, m.idCanon = idVal, canonJSON(val)
			}
		case "method":
			if fb == '"' {
				var s string
				if json.Unmarshal(val, &s) == nil {
					m.method = s
				}
			}
		case "params":
			m.params = append(json.RawMessage{}, val...)
		case "result":
			m.hasResult = true
		case "error":
			m.hasError = fb != 'n'
		}
	}
	return m
}

func abstractElem(raw json.RawMessage) elemAbs {
	switch firstByte(raw) {
	case 'n':
		return elemAbs{kind: elNull}
	case '{':
		return elemAbs{kind: elObj, m: abstractObject(raw)}
	}
	return elemAbs{kind: elNonObj}
}

func abstractValue(raw json.RawMessage) docAbs {
	if firstByte(raw) != '[' {
		return docAbs{kind: docSingle, elems: []elemAbs{abstractElem(raw)}}
	}
	d := docAbs{kind: docBatch}
	dec := json.NewDecoder(bytes.NewReader(raw))
	dec.UseNumber()
	dec.Token()
	for dec.More() {
		var e json.RawMessage
		if dec.Decode(&e) != nil {
			break
		}
		d.elems = append(d.elems, abstractElem(e))
	}
	return d
}

// the documents a transport's framing makes of a byte string: http body and websocket message = the first JSON
// value (the rest is ignored), ipc stream = every value up to the first that does not decode
func abstractBytes(b []byte, multi bool) []docAbs {
	var docs []docAbs
	dec := json.NewDecoder(bytes.NewReader(b))
	dec.UseNumber()
	for {
		var raw json.RawMessage
		err := dec.Decode(&raw)
		if err == io.EOF {
			if !multi || len(docs) == 0 {
				docs = append(docs, docAbs{kind: docEmpty})
			}
			return docs
		}
		if err != nil {
			if _, ok := err.(*json.SyntaxError); ok {
				return append(docs, docAbs{kind: docSyntax})
			}
			return append(docs, docAbs{kind: docTrunc})
		}
		docs = append(docs, abstractValue(raw))
		if !multi {
			return docs
		}
	}
}

func (m *msgAbs) validID() bool        { return m.idKind == idVal }
func (m *msgAbs) isNotification() bool { return m.idKind == idAbsent && m.method != "" }
func (m *msgAbs) isResponse() bool {
	return m.validID() && m.method == "" && m.params == nil && (m.hasResult || m.hasError)
}

// JSON-RPC: a request with an id and anything that is not a request at all is answered, notifications and
// responses are not
func (e *elemAbs) needsReply() bool {
	if e.kind != elObj {
		return true
	}
	return !e.m.isNotification() && !e.m.isResponse()
}

func suffixOf(method string) int {
	switch {
	case strings.HasSuffix(method, ".subscription"):
		return sfxSubscription
	case strings.HasSuffix(method, ".subscribe"):
		return sfxSubscribe
	case strings.HasSuffix(method, ".unsubscribe"):
		return sfxUnsubscribe
	}
	return sfxNone
}

// ---- what the registry lookup and the positional-argument decoding give for (method, params): known from the
// method signatures the child reported; dAny when the argument types are not simple enough to be sure
const (
	argGood = iota
	argBad
	argUnknown
)

func intArg(raw json.RawMessage, bits uint, signed bool) int {
	fb := firstByte(raw)
	if fb == 'n' {
		return argGood // null leaves the zero value
	}
	if fb != '-' && (fb < '0' || fb > '9') {
		return argBad
	}
	s := strings.TrimSpace(string(raw))
	if strings.ContainsAny(s, ".eE") || (!signed && fb == '-') {
		return argBad
	}
	v, ok := new(big.Int).SetString(s, 10)
	if !ok {
		return argBad
	}
	lo, hi := big.NewInt(0), new(big.Int).Lsh(big.NewInt(1), bits)
	if signed {
		hi = new(big.Int).Lsh(big.NewInt(1), bits-1)
		lo = new(big.Int).Neg(hi)
	}
	if v.Cmp(lo) >= 0 && v.Cmp(hi) < 0 {
		return argGood
	}
	return argBad
}

func argClass(typ string, raw json.RawMessage) int {
	fb := firstByte(raw)
	switch typ {
	case "uint8":
		return intArg(raw, 8, false)
	case "uint16":
		return intArg(raw, 16, false)
	case "uint32":
		return intArg(raw, 32, false)
	case "uint64", "uint":
		return intArg(raw, 64, false)
	case "int64", "int":
		return intArg(raw, 64, true)
	case "int32":
		return intArg(raw, 32, true)
	case "bool":
		if fb == 't' || fb == 'f' || fb == 'n' {
			return argGood
		}
		return argBad
	case "string", "server.ID":
		if fb == '"' || fb == 'n' {
			return argGood
		}
		return argBad
	case "types.Address", "types.Hash", "types.ZenonTokenStandard":
		if fb == 'n' {
			return argGood
		}
		if fb != '"' {
			return argBad
		}
		var s string
		if json.Unmarshal(raw, &s) != nil {
			return argBad
		}
		var err error
		switch typ {
		case "types.Address":
			_, err = types.ParseAddress(s)
		case "types.Hash":
			_, err = types.HexToHash(s)
		default:
			_, err = types.ParseZTS(s)
		}
		if err != nil {
			return argBad
		}
		return argGood
	}
	return argUnknown
}

func splitArray(raw json.RawMessage) []json.RawMessage {
	var res []json.RawMessage
	dec := json.NewDecoder(bytes.NewReader(raw))
	dec.UseNumber()
	dec.Token()
	for dec.More() {
		var e json.RawMessage
		if dec.Decode(&e) != nil {
			break
		}
		res = append(res, e)
	}
	return res
}

// positional arguments against parameter types (parsePositionalArguments): null / absent = no arguments, an
// array is decoded element by element, anything else is refused; missing trailing arguments must be pointers
func argsClass(params json.RawMessage, typs []string) int {
	var args []json.RawMessage
	switch fb := firstByte(params); {
	case params == nil || fb == 'n':
	case fb == '[':
		args = splitArray(params)
	default:
		return dBadParams
	}
	if len(args) > len(typs) {
		return dBadParams
	}
	unknown := false
	for i, a := range args {
		switch argClass(typs[i], a) {
		case argBad:
			return dBadParams
		case argUnknown:
			unknown = true
		}
	}
	for i := len(args); i < len(typs); i++ {
		if !strings.HasPrefix(typs[i], "*") {
			return dBadParams
		}
	}
	if unknown {
		return dAny
	}
	return dRun
}

type registry struct {
	calls map[string][]string
	subs  map[string][]string
}

func newRegistry(info *childInfo) *registry {
	r := &registry{calls: map[string][]string{}, subs: map[string][]string{}}
	for _, m := range info.Methods {
		if m.Sub {
			r.subs[m.Name] = m.Params
		} else {
			r.calls[m.Name] = m.Params
		}
	}
	if info.Bump != "" {
		r.calls[info.Bump] = info.BumpParams
	}
	return r
}

func (r *registry) dispatch(m *msgAbs) int {
	switch suffixOf(m.method) {
	case sfxSubscribe:
		// parseSubscriptionName, then the subscription table of the namespace, then the arguments
		if firstByte(m.params) != '[' {
			return dBadParams
		}
		args := splitArray(m.params)
		if len(args) == 0 || firstByte(args[0]) != '"' {
			return dBadParams
		}
		var name string
		if json.Unmarshal(args[0], &name) != nil {
			return dAny
		}
		ns := m.method[:strings.LastIndex(m.method, ".")]
		typs, ok := r.subs[ns+"."+name]
		if !ok {
			if strings.ContainsRune(name, '\uFFFD') {
				return dAny
			}
			return dNotFound
		}
		return argsClass(m.params, append([]string{"string"}, typs...))
	case sfxUnsubscribe:
		return argsClass(m.params, []string{"server.ID"})
	}
	typs, ok := r.calls[m.method]
	if !ok {
		return dNotFound
	}
	return argsClass(m.params, typs)
}

// ------------------------------------------------------------------ observed replies
type reply struct {
	idCanon string
	kind    int64 // 0 = result, otherwise the error code
	result  json.RawMessage
	well    bool
	crashed bool // "method handler crashed": a panic inside the API method, contained by callback.call
}
type replyDoc struct {
	batch   bool
	replies []reply
}

func parseReply(raw json.RawMessage) reply {
	var r reply
	var obj map[string]json.RawMessage
	if json.Unmarshal(raw, &obj) != nil {
		return r
	}
	ver, _ := obj["jsonrpc"]
	id, hasID := obj["id"]
	res, hasRes := obj["result"]
	er, hasErr := obj["error"]
	r.well = string(ver) == `"2.0"` && hasID && hasRes != hasErr
	for k := range obj {
		if k != "jsonrpc" && k != "id" && k != "result" && k != "error" {
			r.well = false
		}
	}
	if hasID {
		r.idCanon = canonJSON(id)
	}
	if hasErr {
		var e struct {
			Code    *int64  `json:"code"`
			Message *string `json:"message"`
		}
		if json.Unmarshal(er, &e) != nil || e.Code == nil || e.Message == nil {
			r.well = false
			r.kind = 1
		} else {
			r.kind = *e.Code
			if r.kind == 0 {
				r.kind = 1
			}
			r.crashed = *e.Message == "method handler crashed"
		}
	} else {
		r.result = res
	}
	return r
}

// every JSON value of the text: an object is a single reply, an array a batch reply, anything else malformed
func parseReplyDocs(b []byte) (docs []replyDoc, notes []json.RawMessage, wellFormed bool) {
	wellFormed = true
	dec := json.NewDecoder(bytes.NewReader(b))
	dec.UseNumber()
	for {
		var raw json.RawMessage
		err := dec.Decode(&raw)
		if err == io.EOF {
			return
		}
		if err != nil {
			return docs, notes, false
		}
		switch firstByte(raw) {
		case '{':
			var probe struct {
				Method *string `json:"method"`
			}
			if json.Unmarshal(raw, &probe) == nil && probe.Method != nil {
				notes = append(notes, raw) // a notification of a subscription
				continue
			}
			r := parseReply(raw)
			wellFormed = wellFormed && r.well
			docs = append(docs, replyDoc{false, []reply{r}})
		case '[':
			d := replyDoc{batch: true}
			for _, e := range splitArray(raw) {
				r := parseReply(e)
				wellFormed = wellFormed && r.well
				d.replies = append(d.replies, r)
			}
			wellFormed = wellFormed && len(d.replies) > 0
			docs = append(docs, d)
		default:
			wellFormed = false
		}
	}
}

// ------------------------------------------------------------------ transports
type outcome struct {
	terr   string // transport error: no response / reset / timeout
	status int    // http
	body   []byte // http body, or the concatenation of everything read from a stream
	closed bool   // stream: the server closed the connection before the last sentinel was answered
	reset  bool   // ipc: closed by the server with bytes of the session unread
}

var httpClient = &http.Client{Transport: &http.Transport{DisableKeepAlives: true}, Timeout: 60 * time.Second}

func viaHTTP(c *child, body []byte, ctype string, method string) outcome {
	if method == "POST" {
		return viaRawHTTP(c, body, ctype)
	}
	req, err := http.NewRequest(method, c.info.HTTP, bytes.NewReader(body))
	if err != nil {
		return outcome{terr: err.Error()}
	}
	if ctype != "" {
		req.Header.Set("Content-Type", ctype)
	}
	resp, err := httpClient.Do(req)
	if err != nil {
		return outcome{terr: err.Error()}
	}
	defer resp.Body.Close()
	b, err := io.ReadAll(resp.Body)
	if err != nil {
		return outcome{terr: "reading the body: " + err.Error(), status: resp.StatusCode, body: b}
	}
	return outcome{status: resp.StatusCode, body: b}
}

// ipc: the whole session is written, the write side is closed, everything up to EOF is the answer (the server
// finishes the pending calls before it closes a connection whose read side ended)
func viaIPC(c *child, session []byte) outcome {
	conn, err := net.Dial("unix", c.info.IPC)
	if err != nil {
		return outcome{terr: "dial: " + err.Error()}
	}
	defer conn.Close()
	conn.SetDeadline(time.Now().Add(60 * time.Second))
	done := make(chan error, 1)
	go func() {
		_, err := conn.Write(session)
		conn.(*net.UnixConn).CloseWrite()
		done <- err
	}()
	b, err := io.ReadAll(conn)
	<-done
	if err != nil {
		if strings.Contains(err.Error(), "connection reset") {
			// the server closed while bytes of ours were still unread (it stops reading at a malformed document)
			return outcome{body: b, reset: true}
		}
		return outcome{terr: "read: " + err.Error(), body: b}
	}
	return outcome{body: b}
}

// the request written on a raw connection while the answer is read: a server that refuses a request by its
// headers answers before the body has been sent
func viaRawHTTP(c *child, body []byte, ctype string) outcome {
	conn, err := net.Dial("tcp", strings.TrimPrefix(c.info.HTTP, "http://"))
	if err != nil {
		return outcome{terr: "dial: " + err.Error()}
	}
	defer conn.Close()
	conn.SetDeadline(time.Now().Add(60 * time.Second))
	go func() {
		hdr := ""
		if ctype != "" {
			hdr = "Content-Type: " + ctype + "\r\n"
		}
		// no "Connection: close": for such a request net/http does not drain what the handler left unread of the body
		// (trailing bytes behind the first JSON value) before it closes; the kernel then resets the connection and the
		// unsent part of a large answer is lost. The connection is closed by us after the answer.
		fmt.Fprintf(conn, "POST / HTTP/1.1\r\nHost: x\r\n%sContent-Length: %d\r\n\r\n", hdr, len(body))
		conn.Write(body)
	}()
	resp, err := http.ReadResponse(bufio.NewReader(conn), nil)
	if err != nil {
		return outcome{terr: "no response: " + err.Error()}
	}
	defer resp.Body.Close()
	b, err := io.ReadAll(resp.Body)
	if err != nil {
		return outcome{terr: "reading the body: " + err.Error(), status: resp.StatusCode, body: b}
	}
	return outcome{status: resp.StatusCode, body: b}
}

// websocket: one message per document; `wait` answers are awaited (the sentinels are the last documents)
func viaWS(c *child, msgs [][]byte, wait int, lastID string) outcome {
	conn, err := dialWS(c.info.WS)
	if err != nil {
		return outcome{terr: "dial: " + err.Error()}
	}
	defer conn.close()
	go func() {
		for _, m := range msgs {
			conn.c.SetWriteDeadline(time.Now().Add(30 * time.Second))
			if conn.writeText(m) != nil {
				return // the server may have closed after a malformed message already
			}
		}
	}()
	var all []byte
	got := 0
	sawLast := false
	conn.c.SetReadDeadline(time.Now().Add(30 * time.Second))
	for got < wait || !sawLast {
		m, err := conn.readMessage()
		if err != nil {
			if err == errWSClosed || err == io.EOF || err == io.ErrUnexpectedEOF || strings.Contains(err.Error(), "reset") {
				return outcome{body: all, closed: true}
			}
			if sawLast {
				return outcome{body: all} // a reply is missing: the oracle says which
			}
			return outcome{terr: "read: " + err.Error(), body: all}
		}
		all = append(append(all, m...), '\n')
		got++
		if bytes.Contains(m, []byte(lastID)) {
			sawLast = true
			// the last sentinel is answered: a reply that is still missing gets ten more seconds
			conn.c.SetReadDeadline(time.Now().Add(10 * time.Second))
		}
	}
	return outcome{body: all}
}

// ------------------------------------------------------------------ terms for the model
func (r *registry) docTerm(d *docAbs, ids map[string]int64, http bool) interface{} {
	el := func(e *elemAbs) interface{} {
		switch e.kind {
		case elNull:
			return Con("ENull")
		case elNonObj:
			return Con("ENonObj")
		}
		var id interface{}
		switch e.m.idKind {
		case idAbsent:
			id = Con("IdAbsent")
		case idBad:
			id = Con("IdBad")
		default:
			id = Con("IdVal", I64(idTok(ids, e.m.idCanon)))
		}
		var meth interface{} = Con("MEmpty")
		if e.m.method != "" {
			meth = Con("MName", Con([]string{"SfxNone", "SfxSubscription", "SfxSubscribe", "SfxUnsubscribe"}[suffixOf(e.m.method)]),
				Con([]string{"DNotFound", "DBadParams", "DRun", "DAny"}[r.dispatch(&e.m)]))
		}
		return Con("mkMsg", id, meth, e.m.params != nil, e.m.hasResult, e.m.hasError)
	}
	switch d.kind {
	case docSyntax:
		return Con("DocSyntax")
	case docTrunc:
		return Con("DocTrunc")
	case docEmpty:
		return Con("DocEmpty")
	case docSingle:
		e := el(&d.elems[0])
		if d.elems[0].kind == elObj {
			e = Con("EObj", e)
		}
		return Con("DocSingle", e)
	}
	l := Lst()
	for i := range d.elems {
		e := el(&d.elems[i])
		if d.elems[i].kind == elObj {
			e = Con("EObj", e)
		}
		l = append(l, e)
	}
	return Con("DocBatch", l)
}

func idTok(ids map[string]int64, canon string) int64 {
	if canon == "null" {
		return 0
	}
	if t, ok := ids[canon]; ok {
		return t
	}
	t := int64(len(ids) + 1)
	ids[canon] = t
	return t
}

func replyTerm(docs []replyDoc, ids map[string]int64) interface{} {
	l := Lst()
	for _, d := range docs {
		rs := Lst()
		for _, r := range d.replies {
			tok := int64(-1)
			if r.idCanon == "null" {
				tok = 0
			} else if t, ok := ids[r.idCanon]; ok {
				tok = t
			}
			rs = append(rs, Tup(I64(tok), I64(r.kind)))
		}
		l = append(l, Tup(d.batch, rs))
	}
	return l
}

// ------------------------------------------------------------------ the generator
type gen struct {
	rng    *rand.Rand
	info   *childInfo
	reg    *registry
	nextID int
}

func (g *gen) pick(xs ...string) string { return xs[g.rng.Intn(len(xs))] }

func (g *gen) freshID() string {
	g.nextID++
	return fmt.Sprint(700000 + g.nextID)
}

// a value of the member `id`: every JSON kind
func (g *gen) idText() string {
	switch g.rng.Intn(16) {
	case 0:
		return "null"
	case 1:
		return g.pick("0", "-1", "1.5", "-0", "1e3", "1E-2", "0.0")
	case 2:
		return g.pick("18446744073709551616", "-9223372036854775809", "1e400", "123456789012345678901234567890123456789012345678901234567890", "1"+strings.Repeat("0", 1+g.rng.Intn(30000)))
	case 3:
		return g.pick(`""`, `"a"`, `"null"`, `"1"`, `"\u0000"`, `"<script>&"`, `"\ud800"`, `"\"\\"`, `"é😀"`, "\"\xff\xfe\"", `"`+strings.Repeat("i", 1+g.rng.Intn(40000))+`"`)
	case 4:
		return g.pick("true", "false")
	case 5:
		return g.pick("{}", `{"a":1}`, `{"id":1}`, "[]", "[1]", "[[]]", `[null]`, `{"":{}}`)
	default:
		return g.freshID()
	}
}

func (g *gen) goodArg(typ string) string {
	in := g.info
	switch typ {
	case "uint32", "uint64", "uint8", "uint16", "int64", "int":
		return g.pick("0", "1", "2", "3", "10", "50")
	case "bool":
		return g.pick("true", "false")
	case "string", "server.ID":
		return g.pick(`"pillar1"`, `"x"`, `""`, `"0x1"`)
	case "types.Address":
		return `"` + in.Addresses[g.rng.Intn(len(in.Addresses))] + `"`
	case "types.Hash":
		if len(in.Hashes) > 0 && g.rng.Intn(3) > 0 {
			return `"` + in.Hashes[g.rng.Intn(len(in.Hashes))] + `"`
		}
		return `"` + strings.Repeat(g.pick("0", "a", "F"), 64) + `"`
	case "types.ZenonTokenStandard":
		return `"` + in.Tokens[g.rng.Intn(len(in.Tokens))] + `"`
	}
	return g.pick("null", "{}", "[]", `{"address":"z1qqjnwjjpnue8xmmpanz6csze6tcmtzzdtfsww7","blockType":2}`)
}

func (g *gen) hugeArg(typ string) string {
	switch typ {
	case "uint32":
		return g.pick("4294967295", "4294967296", "2147483648", "1024", "1025")
	case "uint64", "uint":
		return g.pick("18446744073709551615", "18446744073709551616", "9223372036854775808", "9223372036854775807")
	case "int64", "int":
		return g.pick("9223372036854775807", "-9223372036854775808", "9223372036854775808")
	case "string":
		return `"` + strings.Repeat("s", g.rng.Intn(100000)) + `"`
	}
	return g.pick("1e400", "-1", `"`+strings.Repeat("f", 64)+`"`, `"z1`+strings.Repeat("q", 38)+`"`)
}

func (g *gen) badArg() string {
	return g.pick(`"x"`, "-1", "1.5", "1e400", "{}", "[]", "true", `"zz"`, "5", `"z1qqqqqqqqqqqqqqqqqqqqqqqqqqqqqqqqqqqqqq"`, `"`+strings.Repeat("g", 64)+`"`, "\"\xff\"", `[[[]]]`, `{"a":{"b":[]}}`)
}

func (g *gen) knownMethod() methodSig {
	for {
		m := g.info.Methods[g.rng.Intn(len(g.info.Methods))]
		if !m.Sub {
			return m
		}
	}
}

// the value of `params` for a method with the given parameter types
func (g *gen) paramsText(typs []string) (string, bool) {
	args := func(f func(i int, t string) string) string {
		parts := make([]string, len(typs))
		for i, t := range typs {
			parts[i] = f(i, t)
		}
		return "[" + strings.Join(parts, ",") + "]"
	}
	switch g.rng.Intn(14) {
	case 0:
		return "", false // absent
	case 1:
		return "null", true
	case 2:
		return g.pick("{}", `{"x":1}`, "5", `"x"`, "true", `{"0":1,"1":2}`), true
	case 3: // one too many
		good := args(func(i int, t string) string { return g.goodArg(t) })
		if len(typs) == 0 {
			return "[" + g.badArg() + "]", true
		}
		return strings.TrimSuffix(good, "]") + "," + g.pick(g.badArg(), "null", "0") + "]", true
	case 4: // one too few
		if len(typs) > 0 {
			typs = typs[:len(typs)-1]
		}
		return args(func(i int, t string) string { return g.goodArg(t) }), true
	case 5: // one wrong-typed
		k := g.rng.Intn(len(typs) + 1)
		return args(func(i int, t string) string {
			if i == k {
				return g.badArg()
			}
			return g.goodArg(t)
		}), true
	case 6: // huge values
		return args(func(i int, t string) string { return g.hugeArg(t) }), true
	case 7: // nulls
		return args(func(i int, t string) string { return "null" }), true
	case 8:
		d := 1 + g.rng.Intn(3000)
		return strings.Repeat("[", d) + strings.Repeat("]", d), true
	}
	return args(func(i int, t string) string { return g.goodArg(t) }), true
}

func (g *gen) methodAndParams() (method string, hasMethod bool, params string, hasParams bool) {
	hasMethod = true
	switch g.rng.Intn(20) {
	case 0:
		return "", false, "[]", g.rng.Intn(2) == 0
	case 1:
		m := g.pick("null", "5", "true", "{}", `["ledger.getFrontierMomentum"]`, `""`)
		p, hp := g.paramsText(nil)
		return m, true, p, hp
	case 2:
		m := g.pick("foo.bar", "nodot", ".x", "x.", "ledger.", ".", "", "ledger.GetFrontierMomentum", "Ledger.getFrontierMomentum", "ledger.getFrontierMomentum ",
			"ledger_getFrontierMomentum", "rpc_modules", "embedded.getAll", "embedded.token.", "ledger.momentums", "ledger.toString", "embedded.token.getAll.x",
			strings.Repeat("m", 1+g.rng.Intn(50000))+".x", "ledger.\x00", "led\xffger.x", "ledger.subscription", "x.subscription", "ledger.unknown")
		p, hp := g.paramsText([]string{"uint32", "uint32"}[:g.rng.Intn(3)])
		return jsonString(m), true, p, hp
	case 3, 4: // subscribe forms
		m := g.pick("ledger.subscribe", "ledger.subscribe", "foo.subscribe", ".subscribe", "embedded.token.subscribe", "rpc.subscribe", "ledger.x.subscribe")
		p := g.pick(`["momentums"]`, `["allAccountBlocks"]`, `["accountBlocksByAddress","`+g.info.Addresses[0]+`"]`, `["unreceivedAccountBlocksByAddress","`+g.info.Addresses[1]+`"]`,
			`["accountBlocksByAddress"]`, `["accountBlocksByAddress",5]`, `["accountBlocksByAddress","zz"]`, `["momentums",1]`, `["Momentums"]`, `["nosuch"]`, `[]`, `[5]`, `[null]`, `[["momentums"]]`,
			`{"0":"momentums"}`, `"momentums"`, `null`, `[""]`, `["momentums","momentums"]`, `["getFrontierMomentum"]`)
		return jsonString(m), true, p, g.rng.Intn(12) > 0
	case 5: // unsubscribe forms
		m := g.pick("ledger.unsubscribe", "foo.unsubscribe", ".unsubscribe", "embedded.token.unsubscribe")
		p := g.pick(`["0x1"]`, `["0xffffffffffffffffffffffffffffffff"]`, `[""]`, `[null]`, `[5]`, `[]`, `null`, `["a","b"]`, `{}`, `[{}]`, `["`+strings.Repeat("9", 20000)+`"]`)
		return jsonString(m), true, p, g.rng.Intn(12) > 0
	}
	m := g.knownMethod()
	p, hp := g.paramsText(m.Params)
	return jsonString(m.Name), true, p, hp
}

func jsonString(s string) string {
	// like json.Marshal but keeps invalid UTF-8 bytes as they are (the server has to cope with them)
	var b strings.Builder
	b.WriteByte('"')
	for i := 0; i < len(s); i++ {
		c := s[i]
		switch {
		case c == '"' || c == '\\':
			b.WriteByte('\\')
			b.WriteByte(c)
		case c < 0x20:
			fmt.Fprintf(&b, "\\u%04x", c)
		default:
			b.WriteByte(c)
		}
	}
	b.WriteByte('"')
	return b.String()
}

func (g *gen) probeElem(id string) string {
	p := g.info.Probes[g.rng.Intn(len(g.info.Probes))]
	return fmt.Sprintf(`{"jsonrpc":"2.0","id":%s,"method":%s,"params":%s}`, id, jsonString(p.Method), p.Params)
}

// one batch element / single message
func (g *gen) elemText() string {
	switch g.rng.Intn(16) {
	case 0:
		return "null"
	case 1:
		return g.pick("true", "false", "0", "-1.5e3", "1e400", `"str"`, `""`, `"null"`, "123456789012345678901234567890")
	case 2:
		return g.pick("[]", "[[]]", "[null]", "["+g.probeElem(g.freshID())+"]", `[1,"a",{}]`, strings.Repeat("[", 200)+strings.Repeat("]", 200))
	case 3:
		return g.pick("{}", `{"":null}`, `{"jsonrpc":"2.0"}`, `{"a":{"b":{"c":[]}}}`, `{"jsonrpc":"2.0","params":[]}`)
	case 4, 5:
		return g.probeElem(g.freshID())
	case 6: // a response sent as a request
		return g.pick(
			`{"jsonrpc":"2.0","id":`+g.idText()+`,"result":`+g.pick("1", "null", `{"a":1}`, `"0x1"`)+`}`,
			`{"jsonrpc":"2.0","id":`+g.idText()+`,"error":`+g.pick(`{"code":-32000,"message":"x"}`, "null", "5", `"e"`, `{}`, `[]`, `{"code":"x"}`)+`}`,
			`{"jsonrpc":"2.0","id":`+g.idText()+`,"result":1,"error":{"code":1,"message":"m"}}`,
			`{"jsonrpc":"2.0","result":1}`, `{"id":`+g.freshID()+`,"result":true,"params":[]}`, `{"id":`+g.freshID()+`,"result":true,"method":"ledger.getFrontierMomentum"}`,
			`{"jsonrpc":"2.0","method":"ledger.subscription","params":{"subscription":"0x1","result":[]}}`,
			`{"jsonrpc":"2.0","method":"ledger.subscription","params":`+g.pick("null", "5", "[]", `{"subscription":5}`, `"x"`)+`}`,
			`{"jsonrpc":"2.0","method":"ledger.subscription"}`)
	}
	// an object built member by member
	type member struct{ k, v string }
	var ms []member
	switch g.rng.Intn(8) {
	case 0:
	case 1:
		ms = append(ms, member{"jsonrpc", g.pick(`"1.0"`, `2`, `2.0`, "null", `{}`, `""`, `"2.0 "`, `["2.0"]`, "true")})
	default:
		ms = append(ms, member{"jsonrpc", `"2.0"`})
	}
	if g.rng.Intn(6) > 0 { // otherwise a notification
		ms = append(ms, member{"id", g.idText()})
	}
	m, hm, p, hp := g.methodAndParams()
	if hm {
		ms = append(ms, member{"method", m})
	}
	if hp {
		ms = append(ms, member{"params", p})
	}
	if g.rng.Intn(10) == 0 {
		ms = append(ms, member{g.pick("result", "error", "extra", "", "Result"), g.pick("1", "null", `{"code":1,"message":"m"}`, `"x"`)})
	}
	if g.rng.Intn(8) == 0 && len(ms) > 0 { // a duplicated member, possibly of another type
		d := ms[g.rng.Intn(len(ms))]
		if g.rng.Intn(2) == 0 {
			d.v = g.pick("null", "5", `"x"`, "{}", "[]", `"ledger.getFrontierMomentum"`, g.freshID())
		}
		ms = append(ms, d)
	}
	if g.rng.Intn(8) == 0 && len(ms) > 0 { // member names that match only under case folding
		i := g.rng.Intn(len(ms))
		switch g.rng.Intn(3) {
		case 0:
			ms[i].k = strings.ToUpper(ms[i].k)
		case 1:
			ms[i].k = strings.Title(ms[i].k)
		case 2:
			ms[i].k = strings.Replace(strings.Replace(ms[i].k, "s", "ſ", 1), "k", "K", 1)
		}
	}
	g.rng.Shuffle(len(ms), func(i, j int) {
		if g.rng.Intn(3) == 0 {
			ms[i], ms[j] = ms[j], ms[i]
		}
	})
	parts := make([]string, len(ms))
	ws := ""
	if g.rng.Intn(10) == 0 {
		ws = g.pick(" ", "\n", "\t\r\n ")
	}
	for i, m := range ms {
		parts[i] = ws + jsonString(m.k) + ws + ":" + ws + m.v
	}
	return "{" + strings.Join(parts, ",") + ws + "}"
}

// a document: single or batch
func (g *gen) docText() (string, string) {
	switch g.rng.Intn(12) {
	case 0, 1, 2:
		return g.elemText(), "single"
	case 3:
		return g.pick("[]", "[ ]", " [\n]"), "batch-empty"
	case 4:
		return "[" + g.elemText() + "]", "batch-of-1"
	case 5: // a large batch, mostly valid
		k := 100 + g.rng.Intn(900)
		parts := make([]string, k)
		for i := range parts {
			if g.rng.Intn(20) == 0 {
				parts[i] = g.elemText()
			} else {
				parts[i] = g.probeElem(g.freshID())
			}
		}
		return "[" + strings.Join(parts, ",") + "]", "batch-large"
	case 6: // only elements that are not objects
		k := 1 + g.rng.Intn(5)
		parts := make([]string, k)
		for i := range parts {
			parts[i] = g.pick("null", "null", "true", "1", `"s"`, "[]", "{}", "[null]", "-0.0")
		}
		return "[" + strings.Join(parts, ",") + "]", "batch-nonobjects"
	}
	k := 2 + g.rng.Intn(6)
	parts := make([]string, k)
	for i := range parts {
		if g.rng.Intn(3) == 0 {
			parts[i] = g.probeElem(g.freshID())
		} else {
			parts[i] = g.elemText()
		}
	}
	ws := g.pick("", "", "", " ", "\n")
	return ws + "[" + ws + strings.Join(parts, ws+","+ws) + ws + "]" + ws, "batch-mixed"
}

// positions after which a JSON text can be cut: behind every structural character, inside strings, numbers, literals
func structuralPositions(s string) []int {
	var pos []int
	for i := 0; i < len(s); i++ {
		switch s[i] {
		case '{', '}', '[', ']', ':', ',', '"', '\\':
			pos = append(pos, i, i+1)
		}
	}
	return pos
}

// byte-level damage of a document text
func (g *gen) damage(s string) (string, string) {
	switch g.rng.Intn(12) {
	case 0, 1, 2: // truncation at a structural position
		pos := structuralPositions(s)
		if len(pos) == 0 {
			return s, ""
		}
		p := pos[g.rng.Intn(len(pos))]
		if p > len(s) {
			p = len(s)
		}
		return s[:p], "truncated"
	case 3: // truncation anywhere
		return s[:g.rng.Intn(len(s)+1)], "truncated"
	case 4: // invalid UTF-8 somewhere
		p := g.rng.Intn(len(s) + 1)
		return s[:p] + g.pick("\xff", "\xc0\x80", "\xed\xa0\x80", "\xf8\x88\x80\x80\x80", "\x80") + s[p:], "invalid-utf8"
	case 5:
		return "\xef\xbb\xbf" + s, "bom"
	case 6:
		return s + g.pick("x", "}", "]", ",", " null", "\x00", "{}", "[]", " garbage", "\n\n]", `"`, s), "trailing"
	case 7: // one byte changed
		if len(s) == 0 {
			return s, ""
		}
		b := []byte(s)
		p := g.rng.Intn(len(b))
		b[p] = g.pick("{", "}", "[", "]", ",", ":", `"`, "\\", "0", "n", " ", "\x00", "e", "-", ".")[0]
		return string(b), "byte-changed"
	case 8: // nesting
		d := []int{10, 1000, 9999, 10000, 10001, 100000}[g.rng.Intn(6)]
		if g.rng.Intn(2) == 0 {
			return strings.Repeat("[", d) + s + strings.Repeat("]", d), "nested-arrays"
		}
		return strings.Repeat(`{"jsonrpc":`, d) + s + strings.Repeat("}", d), "nested-objects"
	case 9: // a very long number or string in front position of a batch
		return "[" + g.pick("1"+strings.Repeat("0", 200000), "0."+strings.Repeat("9", 100000), "1e"+strings.Repeat("9", 5000), `"`+strings.Repeat("\\u0000", 50000)+`"`, "-"+strings.Repeat("7", 70000)) + "," + s + "]", "long-token"
	case 10:
		return g.pick("", " ", "\n", "\x00", "nul", "tru", "-", "\"", "{", "[", "[,]", "[1,]", "{,}", `{"a"}`, `{"a":}`, "NaN", "Infinity", "'a'", "0x10", "01", "+1", ".5", "1.", "[1 2]", `{"a":1 "b":2}`, "/**/1", "\\", "]", "}"), "not-json"
	}
	return g.pick(" ", "\n", "\r\n\t ") + s + g.pick("", " ", "\n"), "whitespace"
}

// ------------------------------------------------------------------ the suite
type hostileRun struct {
	out      *Out
	c        *child
	reg      *registry
	g        *gen
	seed     int64
	restarts int
}

func clip(b []byte) string {
	if len(b) > 500 {
		return string(b[:300]) + fmt.Sprintf(" …(%d bytes)… ", len(b)) + string(b[len(b)-150:])
	}
	return string(b)
}

// the child must be alive; otherwise: the oracle of the property fails with the document that killed it
func (h *hostileRun) alive(transport string, doc []byte, suspicious bool) bool {
	wait := time.Duration(0)
	if suspicious {
		wait = 400 * time.Millisecond
	}
	if !h.c.isDead(wait) {
		h.out.Oracle(true, "server-process-survives", nil)
		return true
	}
	h.out.Oracle(false, "server-process-survives", Tup(transport, clip(doc), h.c.deathNote()))
	h.c.stop()
	h.restarts++
	nc, err := startChild(h.seed)
	if err != nil {
		panic("cannot restart the rpc child: " + err.Error())
	}
	h.c = nc
	return false
}

// expected replies of a document according to the JSON-RPC statement: (ids in order, probe results)
type want struct {
	idCanon string
	probe   json.RawMessage // exact expected result when the element is one of the child's probe calls
}

func (h *hostileRun) wanted(d *docAbs) (batch bool, ws []want, parseErr bool) {
	switch d.kind {
	case docSyntax:
		return false, nil, true
	case docTrunc, docEmpty:
		return false, nil, false
	}
	if d.kind == docBatch && len(d.elems) == 0 {
		return false, []want{{idCanon: "null"}}, false
	}
	for i := range d.elems {
		e := &d.elems[i]
		if !e.needsReply() {
			continue
		}
		w := want{idCanon: "null"}
		if e.kind == elObj && e.m.validID() {
			w.idCanon = e.m.idCanon
			if e.m.method != "" && e.m.params != nil {
				pc := canonJSON(e.m.params)
				for _, p := range h.c.info.Probes {
					if p.Method == e.m.method && canonJSON(p.Params) == pc {
						w.probe = p.Result
					}
				}
			}
		}
		ws = append(ws, w)
	}
	return d.kind == docBatch, ws, false
}

// does the list of reply documents answer the documents of the session? (order between documents is free on a
// stream: calls run on their own goroutines)
func (h *hostileRun) answered(docs []docAbs, got []replyDoc, httpT bool) (bool, string) {
	used := make([]bool, len(got))
	for di := range docs {
		batch, ws, parseErr := h.wanted(&docs[di])
		if parseErr || (httpT && docs[di].kind == docTrunc) {
			ws, batch, parseErr = []want{{idCanon: "null"}}, false, true
		}
		if len(ws) == 0 {
			if docs[di].kind < docSingle {
				break
			}
			continue
		}
		found := false
		for gi := range got {
			if used[gi] || got[gi].batch != batch || len(got[gi].replies) != len(ws) {
				continue
			}
			ok := true
			for k, w := range ws {
				r := got[gi].replies[k]
				if r.idCanon != w.idCanon {
					ok = false
				}
				if parseErr != (r.kind == -32700) {
					ok = false
				}
				if w.probe != nil && (r.kind != 0 || canonJSON(r.result) != canonJSON(w.probe)) {
					ok = false
				}
			}
			if ok {
				used[gi], found = true, true
				break
			}
		}
		if !found {
			return false, fmt.Sprintf("document %d of the session: no reply document with %d answers (batch=%v) carrying the ids / probe results in order", di, len(ws), batch)
		}
		if docs[di].kind < docSingle {
			break
		}
	}
	for gi := range got {
		if !used[gi] {
			return false, fmt.Sprintf("reply document %d answers no document of the session", gi)
		}
	}
	return true, ""
}

func (h *hostileRun) emitCase(transport string, docs []docAbs, got []replyDoc, tag string) {
	total := 0
	for i := range docs {
		total += len(docs[i].elems)
	}
	if total > 40 {
		return
	}
	ids := map[string]int64{}
	dl := Lst()
	for i := range docs {
		dl = append(dl, h.reg.docTerm(&docs[i], ids, transport == "http"))
	}
	t := "TStream"
	if transport == "http" {
		t = "THttp"
	}
	h.out.Case("rpc_session", Tup(Con(t), dl), replyTerm(got, ids), transport+":"+tag)
}

func (h *hostileRun) probeAfter(transport string, doc []byte) {
	g := h.g
	id := g.freshID()
	p := h.c.info.Probes[g.rng.Intn(len(h.c.info.Probes))]
	text := []byte(fmt.Sprintf(`{"jsonrpc":"2.0","id":%s,"method":%s,"params":%s}`, id, jsonString(p.Method), p.Params))
	var o outcome
	switch transport {
	case "http":
		o = viaHTTP(h.c, text, "application/json", "POST")
	case "ipc":
		o = viaIPC(h.c, text)
	default:
		o = viaWS(h.c, [][]byte{text}, 1, id)
	}
	docs, _, well := parseReplyDocs(o.body)
	ok := o.terr == "" && well && len(docs) == 1 && !docs[0].batch && docs[0].replies[0].kind == 0 && docs[0].replies[0].idCanon == id &&
		canonJSON(docs[0].replies[0].result) == canonJSON(p.Result)
	if o.terr != "" && !h.alive(transport, doc, true) {
		return // the process died after it had answered the document: reported by server-process-survives
	}
	h.out.Oracle(ok, "server-still-answers-a-valid-call-afterwards", Tup(transport, "after", clip(doc), "answer", o.terr, clip(o.body)))
}

func (h *hostileRun) sentinel() ([]byte, string) {
	id := h.g.freshID()
	return []byte(h.g.probeElem(id)), id
}

// one document over the three transports
// verdict of one (transport, document): a dead child is the failure of server-process-survives (with the
// document), otherwise the reply oracle, the model case and the probe afterwards
func (h *hostileRun) verdict(transport string, sent []byte, tag string, docs []docAbs, got []replyDoc, o outcome, ok bool, why string, emit bool) {
	if !h.alive(transport, sent, !ok) {
		return
	}
	h.out.Oracle(ok, "every-request-gets-a-response-or-clean-close", Tup(transport, clip(sent), why, o.terr, I64(int64(o.status)), clip(o.body)))
	h.out.Count(fmt.Sprintf("hostile:%s:%s:%s", transport, tag, classOf(docs, got, o)))
	for _, d := range got {
		for _, r := range d.replies {
			if !r.crashed {
				continue
			}
			for i := range docs {
				for j := range docs[i].elems {
					if m := &docs[i].elems[j].m; m.idKind == idVal && m.idCanon == r.idCanon {
						h.out.Count("hostile:method-panic-contained:" + m.method)
					}
				}
			}
		}
	}
	if emit {
		h.emitCase(transport, docs, got, tag)
	}
	h.probeAfter(transport, sent)
}

// one document over the three transports
func (h *hostileRun) one(doc []byte, tag string) {
	// ---- http
	{
		o := viaHTTP(h.c, doc, "application/json", "POST")
		docs := abstractBytes(doc, false)
		got, _, well := parseReplyDocs(o.body)
		ok, why := o.terr == "" && o.status == 200 && well, "transport error / status / malformed reply"
		if ok {
			ok, why = h.answered(docs, got, true)
		}
		h.verdict("http", doc, tag, docs, got, o, ok, why, o.terr == "" && o.status == 200)
	}
	// ---- ipc stream: the document, then (mostly) a sentinel call, then the write side is closed
	{
		session := append([]byte{}, doc...)
		if h.g.rng.Intn(4) > 0 {
			s, _ := h.sentinel()
			session = append(append(session, '\n'), s...)
		}
		o := viaIPC(h.c, session)
		docs := abstractBytes(session, true)
		got, _, well := parseReplyDocs(o.body)
		ok, why := o.terr == "" && well, "transport error / malformed reply"
		if ok {
			ok, why = h.answered(docs, got, false)
		}
		if ok && o.reset && docs[len(docs)-1].kind != docSyntax {
			ok, why = false, "connection reset although every document of the session was well-formed"
		}
		h.verdict("ipc", session, tag, docs, got, o, ok, why, o.terr == "")
	}
	// ---- websocket: the document and two sentinel calls, one message each
	if len(doc) < 14<<20 {
		s1, _ := h.sentinel()
		s2, id2 := h.sentinel()
		var docs []docAbs
		for _, m := range [][]byte{doc, s1, s2} {
			d := abstractBytes(m, false)
			docs = append(docs, d...)
			if d[0].kind < docSingle {
				break
			}
		}
		wait := 0
		for i := range docs {
			_, ws, pe := h.wanted(&docs[i])
			if len(ws) > 0 || pe {
				wait++
			}
		}
		o := viaWS(h.c, [][]byte{doc, s1, s2}, wait, id2)
		got, _, well := parseReplyDocs(o.body)
		ok, why := o.terr == "" && well, "transport error / malformed reply"
		if ok {
			ok, why = h.answered(docs, got, false)
		}
		if ok && o.closed != (docs[len(docs)-1].kind < docSingle) {
			ok, why = false, "the connection was closed although every document was well-formed JSON (or kept open after a malformed one)"
		}
		h.verdict("ws", doc, tag, docs, got, o, ok, why, o.terr == "")
	}
}

func classOf(docs []docAbs, got []replyDoc, o outcome) string {
	if o.terr != "" {
		return "transport-error"
	}
	k := []string{"syntax", "truncated", "empty", "single", "batch"}[docs[0].kind]
	nerr, nres := 0, 0
	for _, d := range got {
		for _, r := range d.replies {
			if r.kind == 0 {
				nres++
			} else {
				nerr++
			}
		}
	}
	c := func(n int) string {
		switch {
		case n == 0:
			return "0"
		case n == 1:
			return "1"
		}
		return "n"
	}
	return fmt.Sprintf("%s:results=%s:errors=%s", k, c(nres), c(nerr))
}

// requests whose HTTP envelope is hostile: an HTTP error status is a proper answer
func (h *hostileRun) envelope() {
	g := h.g
	body := []byte(g.probeElem(g.freshID()))
	var o outcome
	tag := ""
	switch g.rng.Intn(6) {
	case 0:
		tag, o = "oversized-body", viaRawHTTP(h.c, bytes.Repeat([]byte(" "), 5*1024*1024+1+g.rng.Intn(1000)), "application/json")
	case 1:
		big := "[" + strings.Repeat(string(body)+",", 5*1024*1024/len(body)+1) + "1]"
		tag, o = "oversized-batch", viaRawHTTP(h.c, []byte(big), "application/json")
	case 2:
		tag, o = "content-type", viaHTTP(h.c, body, g.pick("", "text/plain", "application/json; charset=", "application/x-www-form-urlencoded", ";;;", "application/json-rpc"), "POST")
	case 3:
		tag, o = "http-method", viaHTTP(h.c, body, "application/json", g.pick("PUT", "DELETE", "GET", "OPTIONS", "PATCH", "HEAD"))
	case 4:
		tag, o = "empty-body", viaHTTP(h.c, nil, "application/json", g.pick("POST", "GET"))
	case 5: // exactly at the limit: has to be served
		doc := "[" + strings.Repeat(string(body)+",", 20) + string(body) + "]"
		tag, o = "body-at-limit", viaHTTP(h.c, []byte(strings.Repeat(" ", 5*1024*1024-len(doc))+doc), "application/json", "POST")
		docs, _, well := parseReplyDocs(o.body)
		if o.terr == "" && !(o.status == 200 && well && len(docs) == 1 && len(docs[0].replies) == 21) {
			o.terr = "a body of exactly the maximum length was not served"
		}
	}
	if h.alive("http", []byte(tag), o.terr != "") {
		_, _, well := parseReplyDocs(o.body)
		ok := o.terr == "" && (o.status >= 400 || (o.status == 200 && well))
		h.out.Oracle(ok, "every-request-gets-a-response-or-clean-close", Tup("http", tag, o.terr, I64(int64(o.status)), clip(o.body)))
		h.out.Count(fmt.Sprintf("hostile:http-envelope:%s:status=%d", tag, o.status))
		h.probeAfter("http", []byte(tag))
	}
}

func runHostile(rng *rand.Rand, n int, out *Out, _ []string) {
	seed := rng.Int63()
	c, err := startChild(seed)
	if err != nil {
		panic(err)
	}
	h := &hostileRun{out: out, c: c, seed: seed}
	defer func() { h.c.stop() }()
	h.reg = newRegistry(&c.info)
	h.g = &gen{rng: rng, info: &c.info, reg: h.reg}
	if len(c.info.Probes) == 0 {
		panic("the child offers no probe calls")
	}
	out.Count(fmt.Sprintf("hostile:registered-methods=%d", len(c.info.Methods)))
	for i := 0; i < n && h.restarts < 4; i++ {
		switch {
		case i%25 == 24:
			h.envelope()
		default:
			text, tag := h.g.docText()
			if rng.Intn(3) == 0 {
				t2, dtag := h.g.damage(text)
				if dtag != "" {
					text, tag = t2, dtag
				}
			}
			h.one([]byte(text), tag)
		}
	}
	h.flows()
	h.sizes(n)
}
