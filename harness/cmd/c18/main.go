package main

// c18: RPC answers match the ledger, are bounded; the server survives bad input.
//   paging  - random histories on the real node; every paged list API called in-process over the full
//             uint32/uint64 range; oracles = the property's statement; cases = model correspondence
//   json    - AccountBlock JSON -> parse -> same hash
//   server  - in-process rpc/server fed malformed / huge / nested / batched requests (exploration, partial)
import . "zharness/hz"

func main() {
	Main(map[string]Runner{"paging": runPaging, "json": runJson, "server": runServer, "rewards": runRewards})
}
