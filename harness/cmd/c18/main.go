package main

// c18: RPC answers match the ledger, are bounded; the server survives bad input.
//   paging   - random histories on the real node; every paged list API called in-process over the full
//              uint32/uint64 range; oracles = the property's statement; cases = model correspondence
//   json     - AccountBlock JSON -> parse -> same hash (every block type, descendants, contract receives); the text
//              forms of the scalar fields field by field (boundary values, mutated / non-canonical texts) against
//              the print/parse model (JsonText.v)
//   server   - in-process rpc/server fed malformed / huge / nested / batched requests through ServeHTTP (recorder)
//   hostile  - structured hostile JSON-RPC documents (single / batch, every element kind, damaged bytes) over every
//              transport (http, websocket, ipc stream) of a server running in a CHILD process (rpcchild); reply
//              shapes compared with the classifier model (RpcMsg.v)
//   readers  - every read method of the ledger and embedded apis through the real server (child process readchild) on a
//              ledger that holds what relay / sync can put there, every paged list walked page by page
import (
	"os"

	. "zharness/hz"
)

func main() {
	if len(os.Args) > 3 && os.Args[1] == "rpcchild" {
		rpcChildMain(os.Args[2:])
		return
	}
	if len(os.Args) > 3 && os.Args[1] == "readchild" {
		rpcChildReaders(os.Args[2:])
		return
	}
	Main(map[string]Runner{"paging": runPaging, "json": runJson, "server": runServer, "rewards": runRewards, "hostile": runHostile, "readers": runReaders})
}
