package main

import (
	"bufio"
	"encoding/json"
	"fmt"
	"math/rand"
	"os"
	"os/exec"
	"sync"
	"time"

	. "zharness/hz"
)

// runChildren runs n sessions of suite `child` in child processes of at most `chunk` sessions each, up to `par` at
// a time, and merges their output. The node under test lives in the child: a panic on one of its goroutines (none of
// them has a recover) ends the child, which the parent reports through the oracle node-process-survives-session
// together with the last `progress` record of the child (= the input that was being handled).
func runChildren(rng *rand.Rand, n int, out *Out, child string, chunk, par int, limit time.Duration) {
	runChildrenArgs(rng, n, out, child, chunk, par, limit, nil)
}

// the output of the children is merged under one lock (two suites of children may run side by side: runSessionsParent)
var childMergeMu sync.Mutex

// extra: positional arguments of the child that runs sessions first..first+k-1 (nil: none)
func runChildrenArgs(rng *rand.Rand, n int, out *Out, child string, chunk, par int, limit time.Duration, extra func(first, k int) []string) {
	type job struct {
		seed  int64
		k     int
		first int
	}
	var jobs []job
	for done := 0; done < n; done += chunk {
		k := chunk
		if n-done < k {
			k = n - done
		}
		jobs = append(jobs, job{rng.Int63(), k, done})
	}
	mu := &childMergeMu
	sem := make(chan struct{}, par)
	var wg sync.WaitGroup
	for _, j := range jobs {
		wg.Add(1)
		sem <- struct{}{}
		go func(j job) {
			defer wg.Done()
			defer func() { <-sem }()
			tmp, err := os.CreateTemp("", "c15child*.jsonl")
			if err != nil {
				panic(err)
			}
			tmp.Close()
			defer os.Remove(tmp.Name())
			argv := []string{child, "-seed", fmt.Sprint(j.seed), "-n", fmt.Sprint(j.k), "-out", tmp.Name()}
			if extra != nil {
				argv = append(argv, extra(j.first, j.k)...)
			}
			cmd := exec.Command(os.Args[0], argv...)
			cmd.Stdout = os.Stderr
			cmd.Stderr = os.Stderr
			start := time.Now()
			errc := make(chan error, 1)
			if err := cmd.Start(); err != nil {
				panic(err)
			}
			go func() { errc <- cmd.Wait() }()
			var werr error
			timedOut := false
			select {
			case werr = <-errc:
			case <-time.After(limit):
				cmd.Process.Kill()
				werr = <-errc
				timedOut = true
			}
			mu.Lock()
			defer mu.Unlock()
			out.Count("child-runs:" + child)
			var last interface{}
			failsByKey := map[string]int64{}
			if f, err := os.Open(tmp.Name()); err == nil {
				sc := bufio.NewScanner(f)
				sc.Buffer(make([]byte, 1<<20), 64<<20)
				for sc.Scan() {
					var m M
					d := json.NewDecoder(bytesReader(sc.Bytes()))
					d.UseNumber()
					if d.Decode(&m) != nil {
						continue
					}
					switch m["k"] {
					case "case":
						out.Case(m["fn"].(string), m["in"], m["out"], m["tag"].(string))
					case "oracle":
						out.Oracle(false, m["key"].(string), m["detail"])
						failsByKey["oracle:"+m["key"].(string)]++
					case "dist":
						for key, v := range m["dist"].(map[string]interface{}) {
							c, _ := v.(json.Number).Int64()
							if len(key) > 5 && key[:5] == "case:" {
								continue // counted by out.Case above
							}
							fails := failsByKey[key]
							for i := int64(0); i < c-fails; i++ {
								out.Count(key)
							}
						}
					case "progress":
						last = m["session"]
					}
				}
				f.Close()
			}
			out.Oracle(werr == nil && !timedOut, "node-process-survives-session",
				Tup(child, fmt.Sprint(werr), timedOut, "child-seed", I64(j.seed), "last-input", last, time.Since(start).String()))
		}(j)
	}
	wg.Wait()
}

// progress: what the child is about to feed to the node (kept by the parent as the failing input if the child dies)
func progress(out *Out, what interface{}) {
	out.Emit(M{"k": "progress", "session": what})
	out.W.Flush()
}

// lagMeter measures how late a 5 ms sleeper wakes up: a machine-load indicator used to tell a timeout of the node's
// own (production) timers under load from a reaction to a peer's message.
type lagMeter struct {
	mu   sync.Mutex
	max  time.Duration
	stop chan struct{}
}

func newLagMeter() *lagMeter {
	l := &lagMeter{stop: make(chan struct{})}
	go func() {
		for {
			t0 := time.Now()
			select {
			case <-l.stop:
				return
			case <-time.After(5 * time.Millisecond):
			}
			if d := time.Since(t0) - 5*time.Millisecond; d > 0 {
				l.mu.Lock()
				if d > l.max {
					l.max = d
				}
				l.mu.Unlock()
			}
		}
	}()
	return l
}
func (l *lagMeter) reset() { l.mu.Lock(); l.max = 0; l.mu.Unlock() }
func (l *lagMeter) worst() time.Duration {
	l.mu.Lock()
	defer l.mu.Unlock()
	return l.max
}
