package main

// stall: SILENCE and SLOWNESS at every stage of the set-up of a connection, against the real p2p.Server (with the protocol
// manager's sub-protocol, on a mock node) through its TCP listener on loopback. Nothing of the product is patched or
// shortened: the handshake timeout is the production constant (5 s), so the stalled connections of a round are opened at
// once and awaited together. One round = one server with MaxPendingPeers = P and K = P-1 / P / P+1 / P+10 connections
// that stall at a stage:
//   nothing          connected, not a byte sent
//   partial-auth     the first k bytes of a VALID auth message (1 <= k < its length)
//   enc-then-silence the complete encryption handshake (auth sent, response read), then nothing
//   half-hello       encryption handshake, then the first k bytes of the frame of a valid protocol handshake (inside the
//                    header, the whole header, inside the body)
//   trickle-auth     the bytes of a valid auth message one per interval (the message would be complete long after the timeout)
//   trickle-hello    encryption handshake, then the bytes of the protocol handshake frame one per interval
//   no-status        both handshakes complete, then silence: the node has added the peer (the pending slot is free again)
//                    and waits for the status message of the sub-protocol under the frame read timeout (30 s; awaited only
//                    in long runs)
//   slow-in-time     an honest but slow peer: a pause of about a second before every step, everything complete within
//                    the timeout - the control: it has to be accepted
// Oracles: every connection that stalls before it is a peer is closed by the node within the handshake timeout, counted
// from the moment a pending slot was free for it (stalled-handshake-closed-within-timeout), and not before the timeout
// (handshake-timer-not-early); a connection that arrives while the slots are taken by stalled ones - an honest peer - is
// accepted and served within the time that the timeout leaves to those before it
// (node-serves-honest-peer-during-stalled-handshakes); the honest peer that was connected all along is served meanwhile;
// after the round a new honest peer is accepted at once. Each observation of a connection that had a free slot at once is
// also a case of the connection life-cycle model (Session.v, function session_run: events Recv FProgress / Recv FPartial /
// Tick per second). The harness measures its own stalls (lagMeter): a verdict about elapsed time is given only if the
// harness was not held up itself; a connection that is still open long after every bound is a failure whatever the load.

import (
	"bytes"
	"crypto/ecdsa"
	"errors"
	"fmt"
	"io"
	"math/rand"
	"net"
	"os"
	"sync"
	"time"

	"github.com/ethereum/go-ethereum/crypto"
	"github.com/ethereum/go-ethereum/rlp"

	"github.com/zenon-network/go-zenon/common/types"
	"github.com/zenon-network/go-zenon/p2p"
	"github.com/zenon-network/go-zenon/p2p/discover"
	"github.com/zenon-network/go-zenon/protocol"
	"github.com/zenon-network/go-zenon/verifier"
	. "zharness/hz"
)

func runStallParent(rng *rand.Rand, n int, out *Out, _ []string) {
	par := 6
	chunk := (n + par - 1) / par
	if chunk < 1 {
		chunk = 1
	}
	offset := rng.Intn(1 << 16)
	runChildrenArgs(rng, n, out, "stall-child", chunk, par, 1500*time.Second, func(first, k int) []string {
		return []string{fmt.Sprint(offset + first)}
	})
}

var stallStages = []string{"enc-then-silence", "nothing", "half-hello", "partial-auth", "trickle-hello", "trickle-auth", "no-status", "slow-in-time"}

// a writer that records instead of sending (to obtain the bytes of a valid auth message / of a valid frame)
type recConn struct {
	io.Reader
	rec *bytes.Buffer // nil: pass through
	w   io.Writer
}

func (c *recConn) Write(p []byte) (int, error) {
	if c.rec != nil {
		return c.rec.Write(p)
	}
	return c.w.Write(p)
}

type eofReader struct{}

func (eofReader) Read([]byte) (int, error) { return 0, io.EOF }

// the bytes of a valid auth message of key to the server
func authBytes(key *ecdsa.PrivateKey, srv discover.NodeID) []byte {
	rc := &recConn{Reader: eofReader{}, rec: new(bytes.Buffer)}
	p2p.VerifInitiatorHandshake(rc, key, srv)
	return rc.rec.Bytes()
}

type stallConn struct {
	idx      int
	stage    string
	param    string
	interval time.Duration
	k        int
	fd       net.Conn
	t0       time.Time     // connected
	sentAt   time.Duration // the stage's last (or only) piece was on its way
	encDone  bool
	added    bool          // the node's status arrived (no-status, slow-in-time)
	closedAt time.Duration // -1: still open at the end of the watch
	sent     int           // bytes of the stalled message that went out
	err      string
}

type stallRound struct {
	rng    *rand.Rand
	out    *Out
	mu     sync.Mutex
	addr   string
	srvID  discover.NodeID
	hs     time.Duration
	hard   time.Duration // no connection is watched longer
	lag    *lagMeter
	hashAt []types.Hash
}

// watch: read (and discard) until the node closes the connection, until the limit, or until released
func (c *stallConn) watch(limit time.Time, release chan struct{}) {
	buf := make([]byte, 4096)
	var mu sync.Mutex
	released := false
	done := make(chan struct{})
	defer close(done)
	if release != nil {
		go func() {
			select {
			case <-release:
				mu.Lock()
				released = true
				c.fd.SetReadDeadline(time.Now())
				mu.Unlock()
			case <-done:
			}
		}()
	}
	for {
		mu.Lock()
		if !released {
			c.fd.SetReadDeadline(limit)
		}
		mu.Unlock()
		_, err := c.fd.Read(buf)
		if err != nil {
			var ne net.Error
			if errors.As(err, &ne) && ne.Timeout() {
				c.closedAt = -1
			} else {
				c.closedAt = time.Since(c.t0)
			}
			return
		}
	}
}

// send b one byte per interval until it is out, the connection fails or stop is closed
func (c *stallConn) trickle(b []byte, stop chan struct{}) {
	for i := range b {
		c.fd.SetWriteDeadline(time.Now().Add(5 * time.Second))
		if _, err := c.fd.Write(b[i : i+1]); err != nil {
			return
		}
		c.sent = i + 1
		select {
		case <-stop:
			return
		case <-time.After(c.interval):
		}
	}
}

func helloBytes(id discover.NodeID) []byte {
	return enc(&p2p.VerifProtoHandshake{Version: p2p.VerifBaseProtocolVersion, Name: "c15-stall", Caps: []p2p.Cap{{Name: "eth", Version: 61}}, ID: id})
}

func (r *stallRound) play(c *stallConn, seed int64, limit time.Time, wg *sync.WaitGroup, release chan struct{}) {
	defer wg.Done()
	defer c.fd.Close()
	rng := rand.New(rand.NewSource(seed))
	key, _ := ecdsa.GenerateKey(crypto.S256(), rng)
	id := discover.PubkeyID(&key.PublicKey)
	stop := make(chan struct{})
	defer close(stop)
	fail := func(err error) {
		c.err = err.Error()
		c.closedAt = time.Since(c.t0)
	}
	// the frame of a hello under the session secrets, recorded
	frameOf := func(rc *recConn, rw p2p.MsgReadWriter, code uint64, payload []byte) []byte {
		rc.rec = new(bytes.Buffer)
		rw.WriteMsg(p2p.Msg{Code: code, Size: uint32(len(payload)), Payload: bytes.NewReader(payload)})
		b := rc.rec.Bytes()
		rc.rec = nil
		return b
	}
	encHs := func() (*recConn, p2p.MsgReadWriter, bool) {
		rc := &recConn{Reader: c.fd, w: c.fd}
		c.fd.SetDeadline(time.Now().Add(r.hard))
		rw, err := p2p.VerifInitiatorHandshake(rc, key, r.srvID)
		c.fd.SetDeadline(time.Time{})
		if err != nil {
			fail(err)
			return nil, nil, false
		}
		c.encDone = true
		return rc, rw, true
	}
	switch c.stage {
	case "nothing":
	case "partial-auth":
		b := authBytes(key, r.srvID)
		c.k = 1 + rng.Intn(len(b)-1)
		if rng.Intn(4) == 0 {
			c.k = len(b) - 1
		}
		c.param = fmt.Sprintf("%d-of-%d-bytes", c.k, len(b))
		c.fd.Write(b[:c.k])
		c.sent = c.k
	case "trickle-auth":
		b := authBytes(key, r.srvID)
		c.param = fmt.Sprintf("%d-bytes-one-per-%v", len(b), c.interval)
		go c.trickle(b, stop)
	case "enc-then-silence":
		if _, _, ok := encHs(); !ok {
			return
		}
	case "half-hello", "trickle-hello":
		rc, rw, ok := encHs()
		if !ok {
			return
		}
		b := frameOf(rc, rw, hsCode, helloBytes(id))
		if c.stage == "half-hello" {
			c.k = []int{1 + rng.Intn(31), 32, 33 + rng.Intn(len(b)-34), len(b) - 1}[rng.Intn(4)]
			c.param = fmt.Sprintf("%d-of-%d-bytes", c.k, len(b))
			c.fd.Write(b[:c.k])
			c.sent = c.k
		} else {
			c.param = fmt.Sprintf("%d-bytes-one-per-%v", len(b), c.interval)
			go c.trickle(b, stop)
		}
	case "no-status", "slow-in-time":
		pause := func() {
			if c.stage == "slow-in-time" {
				time.Sleep(c.interval)
			}
		}
		pause()
		rc := &recConn{Reader: c.fd, w: c.fd}
		c.fd.SetDeadline(time.Now().Add(r.hard))
		rw, err := p2p.VerifInitiatorHandshake(rc, key, r.srvID)
		if err != nil {
			fail(err)
			return
		}
		c.encDone = true
		pause()
		if err := rw.WriteMsg(p2p.Msg{Code: hsCode, Size: uint32(len(helloBytes(id))), Payload: bytes.NewReader(helloBytes(id))}); err != nil {
			fail(err)
			return
		}
		c.sentAt = time.Since(c.t0)
		// the server's hello, then the node's status: the peer is added
		for !c.added {
			m, err := rw.ReadMsg()
			if err != nil {
				fail(err)
				return
			}
			b, _ := io.ReadAll(m.Payload)
			if m.Code == baseLen+protocol.StatusMsg {
				c.added = true
				if c.stage == "slow-in-time" {
					var st statusData
					rlpDecode(b, &st)
					pause()
					st.TD = 0
					sb := enc(&st)
					rw.WriteMsg(p2p.Msg{Code: baseLen + protocol.StatusMsg, Size: uint32(len(sb)), Payload: bytes.NewReader(sb)})
				}
			}
		}
		c.fd.SetDeadline(time.Time{})
	}
	if c.sentAt == 0 {
		c.sentAt = time.Since(c.t0)
	}
	c.watch(limit, release)
}

func rlpDecode(b []byte, v interface{}) error { return rlp.DecodeBytes(b, v) }

// events of the life-cycle model for a connection of this stage that was open for `secs` whole seconds
func (c *stallConn) events(secs int64) []interface{} {
	ev := Lst()
	recv := func(f string) { ev = append(ev, Con("Recv", Con(f))) }
	perTick := 0
	switch c.stage {
	case "nothing":
	case "partial-auth":
		recv("FPartial")
	case "trickle-auth":
		perTick = 1
	case "enc-then-silence":
		recv("FProgress")
	case "half-hello":
		recv("FProgress")
		recv("FPartial")
	case "trickle-hello":
		recv("FProgress")
		perTick = 1
	case "no-status":
		recv("FProgress")
		recv("FProgress")
	}
	if perTick > 0 {
		if n := int(time.Second / c.interval); n > 1 {
			perTick = n
			if perTick > 3 {
				perTick = 3
			}
		}
	}
	for i := int64(0); i < secs; i++ {
		for j := 0; j < perTick; j++ {
			recv("FPartial")
		}
		ev = append(ev, Con("Tick"))
	}
	return ev
}

func (c *stallConn) openPhase() string {
	switch c.stage {
	case "nothing", "partial-auth", "trickle-auth":
		return "PEnc"
	case "no-status":
		return "PWaitStatus"
	}
	return "PProto"
}

func (c *stallConn) term(P, K int) M {
	return Tup("connection", I64(int64(c.idx)), "of", I64(int64(K)), "MaxPendingPeers", I64(int64(P)), "stage", c.stage, c.param,
		"encryption-handshake-done", c.encDone, "bytes-of-the-stalled-message-sent", I64(int64(c.sent)), "closed-by-the-node-after", c.closedAt.String(), c.err)
}

// an honest peer dials now; both handshakes and a served request within d
func (r *stallRound) honestWithin(seed int64, d time.Duration) (time.Duration, error) {
	t0 := time.Now()
	rng := rand.New(rand.NewSource(seed))
	c, err := dialWireD(r.addr, r.srvID, rng, true, d)
	if err != nil {
		return time.Since(t0), err
	}
	defer c.fd.Close()
	timer := time.AfterFunc(d-time.Since(t0), func() { c.fd.Close() })
	defer timer.Stop()
	if _, err := c.establish(true); err != nil {
		return time.Since(t0), err
	}
	if err := c.send(baseLen+protocol.GetBlockHashesFromNumberMsg, enc(&getBlockHashesFromNumberData{1, 2})); err != nil {
		return time.Since(t0), err
	}
	m, ok, _ := c.await(d, baseLen+protocol.BlockHashesMsg)
	if !ok {
		return time.Since(t0), fmt.Errorf("no reply to the hashes request (%v)", c.rerr)
	}
	var hs []types.Hash
	if rlpDecode(m.payload, &hs) != nil || len(hs) != 2 || !((hs[0] == r.hashAt[1] && hs[1] == r.hashAt[2]) || (hs[0] == r.hashAt[2] && hs[1] == r.hashAt[1])) {
		return time.Since(t0), fmt.Errorf("wrong hashes")
	}
	took := time.Since(t0)
	c.send(discCode, enc([]uint64{uint64(p2p.DiscQuitting)}))
	return took, nil
}

func runStallRound(rng *rand.Rand, out *Out, no int, long bool) {
	nd := NewNode()
	defer nd.T.Cleanup()
	for i := 0; i < 6; i++ {
		nd.Momentum()
	}
	hashAt := chainHashes(nd.Ch)
	bridge := protocol.NewChainBridge(nd.Ch, nd.Cs, verifier.NewVerifier(nd.Ch, nd.Cs), nd.Sv)
	pm := protocol.NewProtocolManager(1, networkId, bridge)
	pm.Start()
	key, _ := ecdsa.GenerateKey(crypto.S256(), rng)
	// the round: P pending slots, K stalled connections
	var P, K int
	uniform := "" // every connection of the round stalls at this stage
	switch no % 4 {
	case 0:
		P = 2 + rng.Intn(7)
		K = P + 1
	case 1:
		P = 3 + rng.Intn(8)
		K = P - 1
		if rng.Intn(2) == 0 {
			K = P
		}
	case 2:
		P = 10
		K = P + 10
	default:
		// all pending slots held by connections of ONE kind: a new peer gets in only when their timeout has passed
		P = 2 + rng.Intn(4)
		K = P
		uniform = []string{"enc-then-silence", "half-hello", "trickle-hello", "nothing", "partial-auth", "trickle-auth"}[(no/4)%6]
	}
	srv := &p2p.Server{PrivateKey: key, MaxPeers: 100, MaxPendingPeers: P, Name: "c15-node", Protocols: pm.SubProtocols, ListenAddr: "127.0.0.1:0", NoDial: true}
	if err := srv.Start(); err != nil {
		out.Count("stall:listen-unavailable")
		return
	}
	defer srv.Stop()
	hs := time.Duration(p2p.VerifHandshakeTimeout)
	batches := (K + P - 1) / P // every P connections wait for the timeout of the P before them
	r := &stallRound{rng: rng, out: out, addr: srv.ListenAddr, srvID: discover.PubkeyID(&key.PublicKey), hs: hs, lag: newLagMeter(), hashAt: hashAt}
	r.hard = time.Duration(batches)*hs + 12*time.Second
	input := Tup("stall-round", I64(int64(no)), "MaxPendingPeers", I64(int64(P)), "stalled-connections", I64(int64(K)), "all-of-stage", uniform)
	progress(out, input)

	// the honest peer that is connected all along
	honest, err := dialWire(r.addr, r.srvID, rng, true)
	if err == nil {
		_, err = honest.establish(true)
	}
	if err != nil {
		out.Oracle(false, "well-behaved-peer-is-added", Tup("honest", err.Error()))
		return
	}
	defer honest.fd.Close()
	w := &wireWorld{rng: rng, out: out, addr: r.addr, srvID: r.srvID, srv: srv, honest: honest, hashAt: hashAt, H: uint64(len(hashAt) - 1)}

	r.lag.reset()
	start := time.Now()
	limit := start.Add(r.hard)
	conns := make([]*stallConn, K)
	var wg, wgPeers sync.WaitGroup // connections that stall before they are peers / that become peers
	release := make(chan struct{})
	frt := time.Duration(p2p.VerifFrameReadTimeout)
	if long && r.hard < frt+8*time.Second {
		r.hard = frt + 8*time.Second
		limit = start.Add(r.hard)
	}
	first := rng.Intn(len(stallStages))
	for i := range conns {
		c := &stallConn{idx: i, stage: stallStages[(first+i)%len(stallStages)], closedAt: -1}
		if !long && c.stage == "no-status" && i%2 == 1 {
			c.stage = "enc-then-silence"
		}
		if uniform != "" {
			c.stage = uniform
		}
		c.interval = []time.Duration{50 * time.Millisecond, 250 * time.Millisecond, time.Second}[rng.Intn(3)]
		if c.stage == "slow-in-time" {
			c.interval = time.Duration(600+rng.Intn(500)) * time.Millisecond
		}
		fd, err := net.DialTimeout("tcp", r.addr, 20*time.Second)
		if err != nil {
			out.Oracle(false, "server-accepts-connections", Tup(err.Error(), input))
			return
		}
		c.fd, c.t0 = fd, time.Now()
		conns[i] = c
		if c.stage == "no-status" || c.stage == "slow-in-time" {
			wgPeers.Add(1)
			go r.play(c, rng.Int63(), limit, &wgPeers, release)
		} else {
			wg.Add(1)
			go r.play(c, rng.Int63(), limit, &wg, nil)
		}
	}
	opened := time.Since(start)

	// while they are open: the connected honest peer is served, and a new honest peer gets in as soon as the timeout of the
	// connections before it leaves a slot (K < P: at once)
	time.Sleep(300 * time.Millisecond)
	w.probeHonest(input)
	waitSlots := time.Duration(K/P) * hs
	newBound := waitSlots + 4*time.Second
	took2, err2 := r.honestWithin(rng.Int63(), newBound+10*time.Second)
	lagSoFar := r.lag.worst()
	w.probeHonest(input)

	wg.Wait()
	if long { // the peers that never send their status: until the frame read timeout has passed
		if rest := frt + 6*time.Second - time.Since(start); rest > 0 {
			time.Sleep(rest)
		}
	}
	close(release)
	wgPeers.Wait()
	watched := time.Since(start)
	lag := r.lag.worst()
	quiet := lag < 700*time.Millisecond
	detail := func(extra ...interface{}) M {
		return Tup(append([]interface{}{input, "handshake-timeout", hs.String(), "worst-scheduling-lag", lag.String(), "connections-opened-within", opened.String()}, extra...)...)
	}
	switch {
	case err2 == nil && took2 <= newBound+lagSoFar:
		out.Oracle(true, "node-serves-honest-peer-during-stalled-handshakes", nil)
	case err2 == nil && lagSoFar >= 700*time.Millisecond:
		out.Count("stall:inconclusive-honest-peer-late-under-load")
	default:
		out.Oracle(false, "node-serves-honest-peer-during-stalled-handshakes", detail("an honest peer that connects 0.3 s after the stalled connections", "served-after", took2.String(), fmt.Sprint(err2), "bound", newBound.String()))
	}
	out.Count(fmt.Sprintf("stall:pending-slots-vs-stalled=%s", map[bool]string{true: "slots-left", false: "all-slots-taken"}[K < P]))

	for _, c := range conns {
		out.Count("stall:stage=" + c.stage)
		batch := time.Duration(c.idx / P) // a slot is free for it after the timeout of `batch` batches before it
		bound := (batch+1)*hs + 2*time.Second
		switch c.stage {
		case "slow-in-time":
			// the control: complete within the timeout, so it has to be a peer (judged only if the harness kept its own pace)
			if c.idx < P && quiet && c.sentAt < hs-time.Second {
				out.Oracle(c.added, "slow-honest-peer-is-accepted", detail(c.term(P, K)))
				ph := "PClosed"
				if c.added {
					ph = "PRunning"
				}
				out.Case("session_run", Tup(Con("PEnc"), Lst(Con("Tick"), Con("Recv", Con("FProgress")), Con("Tick"), Con("Recv", Con("FProgress")), Con("Tick"), Con("Recv", Con("FStatusOk")))), Con(ph), "stall:slow-in-time")
			} else {
				out.Count("stall:slow-in-time-not-judged")
			}
			continue
		case "no-status":
			if !c.added {
				out.Count("stall:no-status-not-added")
				continue
			}
			// a peer now: the frame read timeout applies (awaited in long runs only)
			if c.closedAt < 0 {
				if watched > c.sentAt+frt+5*time.Second && quiet {
					out.Oracle(false, "silent-peer-dropped-by-frame-read-timeout", detail(c.term(P, K)))
				} else {
					out.Count("stall:no-status-open-at-the-end-of-the-round")
					if secs := int64((watched - c.sentAt) / time.Second); c.idx < P && secs >= 1 && secs < int64(frt/time.Second)-2 {
						out.Case("session_run", Tup(Con("PEnc"), c.events(secs)), Con("PWaitStatus"), "stall:no-status-open")
					}
				}
			} else {
				out.Oracle(c.closedAt >= frt-2*time.Second || !quiet, "frame-read-timer-not-early", detail(c.term(P, K)))
			}
			continue
		}
		if c.err != "" && !c.encDone && (c.stage == "enc-then-silence" || c.stage == "half-hello" || c.stage == "trickle-hello") {
			// the encryption handshake itself was not served in time (a connection behind the pending slots: its turn came
			// after the harness's own limit) - nothing stalled at the intended stage
			out.Count("stall:stage-not-reached")
			if c.closedAt >= 0 && c.closedAt <= bound+lag {
				continue
			}
		}
		// closed within the timeout, counted from the moment a slot was free for it
		switch {
		case c.closedAt >= 0 && c.closedAt <= bound+lag:
			out.Oracle(true, "stalled-handshake-closed-within-timeout", nil)
		case c.closedAt >= 0 && !quiet:
			out.Count("stall:inconclusive-closed-late-under-load")
		default:
			out.Oracle(false, "stalled-handshake-closed-within-timeout", detail(c.term(P, K), "bound", bound.String(), "watched-for", watched.String()))
		}
		// and not before it
		if c.closedAt >= 0 && c.err == "" {
			out.Oracle(c.closedAt >= hs-300*time.Millisecond, "handshake-timer-not-early", detail(c.term(P, K)))
		}
		// the model of the connection's life cycle on the same observation (connections that had a slot at once)
		if c.idx < P && c.err == "" {
			open := c.openPhase()
			before := int64(hs/time.Second) - 1
			ph := open
			if c.closedAt >= 0 && c.closedAt <= time.Duration(before)*time.Second {
				ph = "PClosed"
			}
			out.Case("session_run", Tup(Con("PEnc"), c.events(before)), Con(ph), "stall:"+c.stage+":before-the-timeout")
			if c.closedAt >= 0 {
				out.Case("session_run", Tup(Con("PEnc"), c.events(int64(c.closedAt/time.Second)+1)), Con("PClosed"), "stall:"+c.stage+":closed")
			} else if quiet {
				out.Case("session_run", Tup(Con("PEnc"), c.events(int64(watched/time.Second)-1)), Con(open), "stall:"+c.stage+":still-open")
			}
		}
	}
	// afterwards a new honest peer is accepted at once
	took3, err3 := r.honestWithin(rng.Int63(), 14*time.Second)
	if lag3 := r.lag.worst(); err3 == nil && took3 <= 4*time.Second+lag3 {
		out.Oracle(true, "node-serves-honest-peer-after-stalled-handshakes", nil)
	} else if err3 == nil && lag3 >= 700*time.Millisecond {
		out.Count("stall:inconclusive-honest-peer-late-under-load")
	} else {
		// (connections that are still open hold their slots: reported above; here the node as a whole)
		out.Oracle(false, "node-serves-honest-peer-after-stalled-handshakes", detail("served-after", took3.String(), fmt.Sprint(err3)))
	}
	w.probeHonest(input)
	fmt.Fprintf(os.Stderr, "c15 stall round %d: P=%d K=%d opened in %v, watched %v, new honest peer during the stall served after %v (%v), afterwards %v (%v), lag %v\n",
		no, P, K, opened, watched, took2, err2, took3, err3, lag)
	stopped := make(chan struct{})
	go func() { pm.Stop(); close(stopped) }()
	select {
	case <-stopped:
	case <-time.After(20 * time.Second):
		out.Count("stall:pm-stop-timeout")
	}
}

func runStallChild(rng *rand.Rand, n int, out *Out, args []string) {
	base := 0
	if len(args) > 0 {
		fmt.Sscan(args[0], &base)
	}
	defer func() {
		if p := recover(); p != nil {
			panic(p)
		}
		out.Close()
		fmt.Printf("suite=stall-child cases=%d oracle_fails=%d\n", out.Cases, out.Fails)
		os.Exit(0)
	}()
	for i := 0; i < n; i++ {
		// (one round in twelve waits for the frame read timeout of the peers that never send their status)
		runStallRound(rng, out, base+i, n >= 2 && i == n-1 && (base+i)%4 == 1)
		out.W.Flush()
	}
}
