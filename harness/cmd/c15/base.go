package main

// base: hostile BASE-protocol messages (devp2p codes 0x00-0x0f of p2p/peer.go: handshake, disconnect, ping, pong, the
// unused rest), sub-protocol codes inside and beyond the negotiated range, before the protocol handshake and on a
// running peer. Three levels, all inside a child process (the read loop of a peer and Server.setupConn run on
// goroutines without a recover):
//   direct - Peer.handle / readProtocolHandshake called on the harness goroutine under recover (the panic value and the
//            input are reported), payload read with and without an input limit
//   piped  - a Peer as the server builds it (newPeer, run: readLoop + pingLoop + protocol goroutines) over a MsgPipe
//   wire   - the real p2p.Server with the protocol manager's sub-protocol on a loopback socket; hostile peers speak
//            real RLPx (encryption handshake, frames); an honest peer stays connected and is probed after every hostile
//            session (only the offending peer is dropped, the node keeps serving the others)
import (
	"bytes"
	"crypto/ecdsa"
	"encoding/binary"
	"fmt"
	"io"
	"math/rand"
	"net"
	"os"
	"sync"
	"time"

	"github.com/ethereum/go-ethereum/crypto"
	"github.com/ethereum/go-ethereum/rlp"

	"github.com/zenon-network/go-zenon/common/types"
	"github.com/zenon-network/go-zenon/p2p"
	"github.com/zenon-network/go-zenon/p2p/discover"
	"github.com/zenon-network/go-zenon/protocol"
	"github.com/zenon-network/go-zenon/verifier"
	. "zharness/hz"
)

const (
	baseLen  = uint64(p2p.VerifBaseProtocolLength)
	hsCode   = uint64(p2p.VerifHandshakeMsg)
	discCode = uint64(p2p.VerifDiscMsg)
	pingCode = uint64(p2p.VerifPingMsg)
	pongCode = uint64(p2p.VerifPongMsg)
	// cases with longer payloads are not handed to the model (vm_compute on byte lists); their oracles still run
	maxModelPayload = 4096
)

func runBaseParent(rng *rand.Rand, n int, out *Out, _ []string) {
	chunk := (n + 1) / 2
	if chunk > 400 {
		chunk = 400
	}
	if chunk < 1 {
		chunk = 1
	}
	runChildren(rng, n, out, "base-child", chunk, 2, 600*time.Second)
}

func enc(v interface{}) []byte {
	b, err := rlp.EncodeToBytes(v)
	if err != nil {
		panic(err)
	}
	return b
}

// rlp header of a string / list with `n` length bytes declaring `size`
func longHeader(base byte, n int, size uint64) []byte {
	var l [8]byte
	binary.BigEndian.PutUint64(l[:], size)
	return append([]byte{base + byte(n)}, l[8-n:]...)
}

type hostile struct {
	class string
	b     []byte
}

var reasonValues = []uint64{0, 1, 2, 3, 4, 5, 8, 11, 12, 13, 14, 16, 0x7f, 0x80, 0xff, 0x100, 1 << 16, 1 << 32, 1 << 63, ^uint64(0)}

// payloads of a base-protocol message that a remote peer can put on the wire
func hostilePayload(rng *rand.Rand, id discover.NodeID) hostile {
	switch rng.Intn(17) {
	case 0, 1:
		return hostile{"valid-reason", enc([]uint64{reasonValues[rng.Intn(len(reasonValues))]})}
	case 2:
		return hostile{"empty", []byte{}}
	case 3:
		return hostile{"empty-list", []byte{0xC0}}
	case 4:
		return hostile{"empty-string", []byte{0x80}}
	case 5:
		return hostile{"single-byte", []byte{byte(rng.Intn(256))}}
	case 6: // a well-formed encoding cut short
		var full []byte
		switch rng.Intn(3) {
		case 0:
			full = enc([]uint64{reasonValues[rng.Intn(len(reasonValues))]})
		case 1:
			full = enc([]uint64{4, 5, 6, BoundaryU64(rng)})
		default:
			full = enc(&p2p.VerifProtoHandshake{Version: p2p.VerifBaseProtocolVersion, Name: "x", Caps: []p2p.Cap{{Name: "eth", Version: 61}}, ID: id})
		}
		return hostile{"truncated", full[:rng.Intn(len(full))]}
	case 7: // more elements than the one reason
		k := []int{2, 3, 55, 56, 300, 3000}[rng.Intn(6)]
		l := make([]uint64, k)
		for i := range l {
			l[i] = uint64(rng.Intn(200))
		}
		return hostile{"long-list", enc(l)}
	case 8: // nested lists
		if rng.Intn(3) == 0 {
			return hostile{"nested", []byte{0xC2, 0xC0, 0xC0}}
		}
		d := []int{1, 2, 3, 50, 1000}[rng.Intn(5)]
		var v interface{} = []interface{}{}
		if rng.Intn(2) == 0 {
			v = []interface{}{uint64(4)}
		}
		for i := 0; i < d; i++ {
			v = []interface{}{v}
		}
		return hostile{"nested", enc(v)}
	case 9: // wrong types
		return hostile{"wrong-type", [][]byte{
			enc("hello"), enc([]interface{}{[]interface{}{uint64(4)}}), enc([]interface{}{make([]byte, 60)}),
			enc([]interface{}{[]byte{1, 2, 3, 4, 5, 6, 7, 8, 9}}), {0xC1, 0x00}, {0xC2, 0x81, 0x05}, {0xC2, 0x81, 0x00}, {0xC3, 0x82, 0x00, 0x04},
			{0xC3, 0x82, 0x01, 0x00}, {0xC9, 0x88, 0xff, 0xff, 0xff, 0xff, 0xff, 0xff, 0xff, 0xff}, {0xC9, 0x88, 0, 0xff, 0xff, 0xff, 0xff, 0xff, 0xff, 0xff},
			enc(uint64(4)), enc([]interface{}{"reason"}), {0xC2, 0x80, 0x04}, {0xC1, 0x80}, {0xC1, 0x7f}, {0xC1, 0xB8}, {0xC3, 0xB8, 0x38, 0x01},
		}[rng.Intn(18)]}
	case 10: // declared size far beyond what follows
		size := []uint64{56, 57, 1 << 16, 1 << 24, 1 << 32, 1 << 63, ^uint64(0), ^uint64(0) - 1}[rng.Intn(8)]
		n := 1
		for s := size >> 8; s > 0; s >>= 8 {
			n++
		}
		if rng.Intn(4) == 0 && n < 8 {
			n++ // leading zero in the length
		}
		base := byte(0xF7)
		if rng.Intn(4) == 0 {
			base = 0xB7
		}
		b := longHeader(base, n, size)
		tail := make([]byte, rng.Intn(12))
		rng.Read(tail)
		if len(tail) > 0 && rng.Intn(2) == 0 {
			tail[0] = byte(1 + rng.Intn(0x7f))
		}
		return hostile{"huge-declared", append(b, tail...)}
	case 11: // non-canonical sizes
		return hostile{"noncanonical", [][]byte{
			{0xF8, 0x01, 0x04}, {0xF8, 0x05, 1, 2, 3, 4, 5}, {0xF8, 0x37}, {0xF9, 0x00, 0x40}, {0xF8}, {0xFF}, {0xF8, 0x38},
			append([]byte{0xF8, 0x38, 0x04}, make([]byte, 55)...), append([]byte{0xF8, 0x39, 0x04}, make([]byte, 55)...),
			append([]byte{0xF9, 0x01, 0x00, 0x81, 0x90}, make([]byte, 254)...), {0xC1, 0x04, 0x05}, {0xC0, 0x04},
		}[rng.Intn(12)]}
	case 12:
		b := make([]byte, 1+rng.Intn(64))
		rng.Read(b)
		return hostile{"random-bytes", b}
	case 13:
		return hostile{"random-rlp", randomRLP(rng, 0)}
	case 14:
		return hostile{"handshake-encoding", enc(&p2p.VerifProtoHandshake{Version: p2p.VerifBaseProtocolVersion, Name: "c15", Caps: []p2p.Cap{{Name: "eth", Version: 61}}, ID: id})}
	case 15: // big
		k := []int{2049, 70000, 1 << 20}[rng.Intn(3)]
		b := make([]byte, k)
		switch rng.Intn(3) {
		case 0:
			rng.Read(b)
		case 1:
			copy(b, longHeader(0xF7, 3, uint64(k-4)))
			b[4] = 0x04
		}
		return hostile{"big", b}
	default: // the reason followed by informational elements
		return hostile{"reason-and-more", enc([]interface{}{reasonValues[rng.Intn(len(reasonValues))], "bye", []interface{}{uint64(1), "x"}})}
	}
}

func hostileCode(rng *rand.Rand, plen uint64) uint64 {
	switch rng.Intn(12) {
	case 0, 1, 2, 3:
		return discCode
	case 4:
		return pingCode
	case 5:
		return []uint64{hsCode, pongCode}[rng.Intn(2)]
	case 6:
		return 4 + uint64(rng.Intn(12))
	case 7:
		if plen > 0 {
			return baseLen + uint64(rng.Int63n(int64(plen)))
		}
		return baseLen
	case 8:
		return baseLen + plen + uint64(rng.Intn(3))
	case 9:
		return []uint64{255, 256, 1 << 32, 1 << 63, ^uint64(0)}[rng.Intn(5)]
	default:
		return uint64(rng.Intn(int(baseLen + plen + 2)))
	}
}

// rawReader hides the concrete reader type: rlp then has no input limit (as with the payload of a piped message)
type rawReader struct{ r io.Reader }

func (x rawReader) Read(p []byte) (int, error) { return x.r.Read(p) }

func payloadReader(b []byte, limited bool) io.Reader {
	if limited {
		return bytes.NewReader(b) // what rlpxFrameRW.ReadMsg hands out
	}
	return rawReader{bytes.NewReader(b)}
}

func guard(f func()) (p interface{}) {
	defer func() { p = recover() }()
	f()
	return nil
}

type oneMsg struct {
	m    p2p.Msg
	used bool
}

func (o *oneMsg) ReadMsg() (p2p.Msg, error) {
	if o.used {
		return p2p.Msg{}, io.EOF
	}
	o.used = true
	return o.m, nil
}

// a handshake message a remote peer can send, with what the model needs to know about it
type hsVariant struct {
	class    string
	b        []byte
	idMatch  bool
	capMatch bool
}

func hostileHandshake(rng *rand.Rand, id discover.NodeID) hsVariant {
	hs := &p2p.VerifProtoHandshake{Version: p2p.VerifBaseProtocolVersion, Name: "c15-remote", Caps: []p2p.Cap{{Name: "eth", Version: 61}}, ListenPort: 0, ID: id}
	v := hsVariant{class: "valid", idMatch: true, capMatch: true}
	switch rng.Intn(12) {
	case 0, 1, 2:
	case 3:
		hs.Version = []uint64{0, 3, 5, 1 << 63, ^uint64(0)}[rng.Intn(5)]
		v.class = "wrong-version"
	case 4:
		hs.ID = discover.NodeID{}
		v.class, v.idMatch = "zero-id", false
	case 5:
		rng.Read(hs.ID[:])
		v.class, v.idMatch = "foreign-id", false
	case 6:
		hs.Caps = [][]p2p.Cap{nil, {{Name: "foo", Version: 1}}, {{Name: "eth", Version: 60}}, {{Name: "eth", Version: 62}, {Name: "", Version: 0}}}[rng.Intn(4)]
		v.class, v.capMatch = "no-matching-cap", false
	case 7: // many capabilities, the matching one among them
		for i := 0; i < 60+rng.Intn(60); i++ {
			hs.Caps = append(hs.Caps, p2p.Cap{Name: fmt.Sprintf("p%d", i), Version: uint(rng.Intn(100))})
		}
		hs.Caps = append(hs.Caps, p2p.Cap{Name: "eth", Version: 60}, p2p.Cap{Name: "eth", Version: 61})
		v.class = "many-caps"
	case 8: // name that pushes the message above baseProtocolMaxMsgSize or just below
		hs.Name = string(make([]byte, []int{1800, 1900, 2000, 2100, 5000}[rng.Intn(5)]))
		v.class = "long-name"
	case 9: // additional / missing fields
		if rng.Intn(2) == 0 {
			v.b = enc([]interface{}{hs.Version, hs.Name, hs.Caps, hs.ListenPort, hs.ID, "extra"})
		} else {
			v.b = enc([]interface{}{hs.Version, hs.Name, hs.Caps})
		}
		v.class = "field-count"
	case 10:
		v.b = enc([]interface{}{"four", hs.Name, hs.Caps, hs.ListenPort, hs.ID[:5]})
		v.class = "field-types"
	default:
		h := hostilePayload(rng, id)
		v.b, v.class = h.b, "junk:"+h.class
	}
	if v.b == nil {
		v.b = enc(hs)
	}
	return v
}

// what readProtocolHandshake's msg.Decode makes of the payload (rlp decoding is an oracle of the model)
func decodeHandshake(b []byte, size uint32, limited bool) (ok bool, version uint64, idZero bool) {
	var hs p2p.VerifProtoHandshake
	if rlp.NewStream(payloadReader(b, limited), uint64(size)).Decode(&hs) != nil {
		return false, 0, false
	}
	return true, hs.Version, hs.ID == discover.NodeID{}
}

func discTerm(err error) (isDisc bool, r uint64) {
	d, ok := err.(p2p.DiscReason)
	return ok, uint64(d)
}

// ---------------------------------------------------------------- direct

type directPeer struct {
	p     *p2p.Peer
	app   *p2p.MsgPipeRW
	pongs chan struct{}
}

func newDirectPeer(rng *rand.Rand) *directPeer {
	var id discover.NodeID
	rng.Read(id[:])
	app, netw := p2p.MsgPipe()
	d := &directPeer{app: app, pongs: make(chan struct{}, 1024)}
	d.p = p2p.VerifNewPeer(id, "c15-direct", nil, nil, netw, func(error) {})
	go func() {
		for {
			m, err := app.ReadMsg()
			if err != nil {
				return
			}
			m.Discard()
			if m.Code == pongCode {
				d.pongs <- struct{}{}
			}
		}
	}()
	return d
}

func (d *directPeer) handleCase(rng *rand.Rand, out *Out, id discover.NodeID) {
	h := hostilePayload(rng, id)
	code := hostileCode(rng, 0)
	limited := rng.Intn(2) == 0
	size := uint32(len(h.b))
	if rng.Intn(6) == 0 { // Size field different from the payload (possible on a pipe only; the frame reader derives it)
		size = []uint32{0, 1, size + 1, size * 2, 1 << 24, ^uint32(0)}[rng.Intn(6)]
	}
	in := Tup(limited, U64(0), U64(code), Byt(h.b))
	progress(out, Tup("direct-handle", U64(code), limited, h.class, Byt(clip(h.b))))
	var err error
	pn := guard(func() {
		err = p2p.VerifPeerHandle(d.p, p2p.Msg{Code: code, Size: size, Payload: payloadReader(h.b, limited)})
	})
	out.Oracle(pn == nil, "hostile-base-message-ends-in-error-not-panic", Tup("Peer.handle", U64(code), limited, h.class, Byt(clip(h.b)), fmt.Sprint(pn)))
	var res M
	switch isDisc, r := discTerm(err); {
	case pn != nil:
		res = Con("HPanic")
	case isDisc:
		res = Con("HDisc", U64(r))
		if len(h.b) <= maxModelPayload {
			out.Case("disc_reason", Tup(limited, Byt(h.b)), U64(r), h.class)
		}
	case err != nil:
		res = Con("HOutOfRange")
	default:
		res = Con("HIgnore")
		if code == pingCode {
			select {
			case <-d.pongs:
				res = Con("HPong")
			case <-time.After(20 * time.Second):
			}
		}
	}
	if len(h.b) <= maxModelPayload {
		out.Case("base_handle", in, res, fmt.Sprintf("direct:code=%s:%s", codeClass(code, 0), h.class))
	} else {
		out.Count("direct:big-payload-oracles-only")
	}
}

func (d *directPeer) handshakeCase(rng *rand.Rand, out *Out, id discover.NodeID) {
	limited := rng.Intn(2) == 0
	var code uint64
	var b []byte
	var class string
	switch rng.Intn(4) {
	case 0, 1:
		v := hostileHandshake(rng, id)
		code, b, class = hsCode, v.b, "hs:"+v.class
	case 2:
		h := hostilePayload(rng, id)
		code, b, class = discCode, h.b, "disc:"+h.class
	default:
		h := hostilePayload(rng, id)
		code, b, class = hostileCode(rng, 9), h.b, "other:"+h.class
	}
	size := uint32(len(b))
	if code != hsCode && rng.Intn(8) == 0 {
		size = []uint32{0, 2048, 2049, 1 << 24}[rng.Intn(4)]
	}
	dec, ver, idz := false, uint64(0), false
	if code == hsCode {
		dec, ver, idz = decodeHandshake(b, size, limited)
	}
	progress(out, Tup("direct-read-handshake", U64(code), limited, class, Byt(clip(b))))
	var err error
	pn := guard(func() {
		_, err = p2p.VerifReadProtocolHandshake(&oneMsg{m: p2p.Msg{Code: code, Size: size, Payload: payloadReader(b, limited)}}, p2p.VerifBaseProtocolVersion)
	})
	out.Oracle(pn == nil, "hostile-base-message-ends-in-error-not-panic", Tup("readProtocolHandshake", U64(code), limited, class, Byt(clip(b)), fmt.Sprint(pn)))
	res := I64(-1)
	switch isDisc, r := discTerm(err); {
	case pn != nil:
		res = I64(-9)
	case isDisc:
		res = U64(r)
	case err != nil:
		res = I64(-2)
	}
	if len(b) <= maxModelPayload {
		out.Case("read_hs", Tup(limited, U64(uint64(size)), U64(code), Byt(b), dec, U64(ver), idz), res, class)
	}
}

func clip(b []byte) []byte {
	if len(b) > 96 {
		return b[:96]
	}
	return b
}

func codeClass(code, plen uint64) string {
	switch {
	case code == hsCode:
		return "handshake"
	case code == discCode:
		return "disc"
	case code == pingCode:
		return "ping"
	case code == pongCode:
		return "pong"
	case code < baseLen:
		return "base-unused"
	case code < baseLen+plen:
		return "sub-protocol"
	default:
		return "beyond-range"
	}
}

// ---------------------------------------------------------------- piped: a Peer with its run loop over a MsgPipe

func barrierReason(rng *rand.Rand) uint64 { return 0x5EED000000000000 | uint64(rng.Int63n(1<<40)) }

func pipedCase(rng *rand.Rand, out *Out) {
	var id discover.NodeID
	rng.Read(id[:])
	plen := uint64([]int{0, 1, 9, 9, 17}[rng.Intn(5)])
	app, netw := p2p.MsgPipe()
	delivered := make(chan uint64, 64)
	var caps []p2p.Cap
	var protos []p2p.Protocol
	if plen > 0 {
		caps = []p2p.Cap{{Name: "rec", Version: 1}}
		protos = []p2p.Protocol{{Name: "rec", Version: 1, Length: plen, Run: func(p *p2p.Peer, rw p2p.MsgReadWriter) error {
			for {
				m, err := rw.ReadMsg()
				if err != nil {
					return err
				}
				m.Discard()
				delivered <- m.Code
			}
		}}}
	}
	closedc := make(chan error, 1)
	p := p2p.VerifNewPeer(id, "c15-piped", caps, protos, netw, func(err error) {
		closedc <- err
		netw.Close()
	})
	resc := make(chan p2p.DiscReason, 1)
	go func() { resc <- p2p.VerifPeerRun(p) }()
	pongs := make(chan struct{}, 16)
	go func() {
		for {
			m, err := app.ReadMsg()
			if err != nil {
				return
			}
			m.Discard()
			if m.Code == pongCode {
				pongs <- struct{}{}
			}
		}
	}()
	defer app.Close()

	h := hostilePayload(rng, id)
	code := hostileCode(rng, plen)
	size := uint32(len(h.b))
	if rng.Intn(6) == 0 {
		size = []uint32{1, size + 1, size * 2, 1 << 24}[rng.Intn(4)]
	}
	// the payload a reader behind the pipe sees: the first min(Size, len) bytes
	seen := h.b
	if int(size) < len(seen) {
		seen = seen[:size]
	}
	progress(out, Tup("piped", U64(plen), U64(code), U64(uint64(size)), h.class, Byt(clip(h.b))))
	// (a pipe write returns when the reader has consumed the payload, or never if the reader stops half way and closes)
	written := make(chan struct{})
	go func() {
		app.WriteMsg(p2p.Msg{Code: code, Size: size, Payload: bytes.NewReader(h.b)})
		close(written)
	}()
	pong := false
	var cerr error
	closed := false
	select {
	case <-written:
	case cerr = <-closedc:
		closed = true
	case <-time.After(30 * time.Second):
		out.Oracle(false, "peer-run-loop-reacts-in-time", Tup("message not consumed", U64(plen), U64(code), h.class, Byt(clip(h.b))))
		return
	}
	if !closed && code == pingCode {
		select {
		case <-pongs:
			pong = true
		case cerr = <-closedc:
			closed = true
		case <-time.After(20 * time.Second):
		}
	}
	barrier := barrierReason(rng)
	if !closed {
		go p2p.SendItems(app, discCode, barrier)
		select {
		case cerr = <-closedc:
			closed = true
		case <-time.After(30 * time.Second):
		}
	}
	if !closed {
		out.Oracle(false, "peer-run-loop-reacts-in-time", Tup(U64(plen), U64(code), h.class, Byt(clip(h.b))))
		return
	}
	var reported p2p.DiscReason
	select {
	case reported = <-resc:
	case <-time.After(30 * time.Second):
		out.Oracle(false, "peer-run-loop-reacts-in-time", Tup("run does not return", U64(plen), U64(code), h.class))
		return
	}
	isDisc, cr := discTerm(cerr)
	out.Oracle(isDisc, "hostile-base-message-ends-in-error-not-panic", Tup("close reason is not a DiscReason", fmt.Sprint(cerr)))
	var got interface{}
	var hres M
	var dl *uint64
	select {
	case c := <-delivered:
		dl = &c
	default:
	}
	switch {
	case cr == barrier && pong:
		got, hres = Tup(I64(0), I64(0), I64(0)), Con("HPong")
	case cr == barrier && dl != nil:
		got, hres = Tup(I64(1), I64(0), I64(0)), Con("HDeliver", U64(*dl))
	case cr == barrier:
		got, hres = Tup(I64(1), I64(0), I64(0)), Con("HIgnore")
	default:
		got = Tup(I64(2), U64(cr), U64(uint64(reported)))
		if reported == p2p.DiscRequested {
			hres = Con("HDisc", U64(cr))
		} else {
			hres = Con("HOutOfRange")
		}
	}
	if len(seen) <= maxModelPayload {
		tag := fmt.Sprintf("piped:code=%s:%s", codeClass(code, plen), h.class)
		out.Case("peer_run", Tup(U64(plen), U64(code), Byt(seen)), got, tag)
		out.Case("base_handle", Tup(false, U64(plen), U64(code), Byt(seen)), hres, tag)
	}
}

// ---------------------------------------------------------------- wire: the real Server

type wireMsg struct {
	code    uint64
	payload []byte
}
type wireClient struct {
	fd   net.Conn
	rw   p2p.MsgReadWriter
	key  *ecdsa.PrivateKey
	id   discover.NodeID
	wmu  sync.Mutex
	in   chan wireMsg
	rerr error // valid after `in` is closed
}

func dialWire(addr string, srv discover.NodeID, rng *rand.Rand, answerPings bool) (*wireClient, error) {
	return dialWireD(addr, srv, rng, answerPings, 30*time.Second)
}

// d: how long the encryption handshake may take
func dialWireD(addr string, srv discover.NodeID, rng *rand.Rand, answerPings bool, d time.Duration) (*wireClient, error) {
	key, err := ecdsa.GenerateKey(crypto.S256(), rng)
	if err != nil {
		return nil, err
	}
	fd, err := net.DialTimeout("tcp", addr, 20*time.Second)
	if err != nil {
		return nil, err
	}
	c := &wireClient{fd: fd, key: key, id: discover.PubkeyID(&key.PublicKey), in: make(chan wireMsg, 8192)}
	fd.SetDeadline(time.Now().Add(d))
	c.rw, err = p2p.VerifInitiatorHandshake(fd, key, srv)
	if err != nil {
		fd.Close()
		return nil, err
	}
	fd.SetDeadline(time.Time{})
	go func() {
		for {
			m, err := c.rw.ReadMsg()
			if err != nil {
				c.rerr = err
				close(c.in)
				return
			}
			b, _ := io.ReadAll(m.Payload)
			if answerPings && m.Code == pingCode {
				c.send(pongCode, []byte{0xC0})
				continue
			}
			c.in <- wireMsg{m.Code, b}
		}
	}()
	return c, nil
}

func (c *wireClient) send(code uint64, payload []byte) error {
	c.wmu.Lock()
	defer c.wmu.Unlock()
	c.fd.SetWriteDeadline(time.Now().Add(60 * time.Second))
	return c.rw.WriteMsg(p2p.Msg{Code: code, Size: uint32(len(payload)), Payload: bytes.NewReader(payload)})
}

// next message with one of the wanted codes; ok=false when the connection ended or the time is up
func (c *wireClient) await(d time.Duration, codes ...uint64) (m wireMsg, ok bool, ended bool) {
	deadline := time.After(d)
	for {
		select {
		case m, open := <-c.in:
			if !open {
				return wireMsg{}, false, true
			}
			for _, w := range codes {
				if m.code == w {
					return m, true, false
				}
			}
		case <-deadline:
			return wireMsg{}, false, false
		}
	}
}

// both handshakes of a well-behaved peer; returns the node's status
func (c *wireClient) establish(withStatus bool) (*statusData, error) {
	if err := c.send(hsCode, enc(&p2p.VerifProtoHandshake{Version: p2p.VerifBaseProtocolVersion, Name: "c15-wire", Caps: []p2p.Cap{{Name: "eth", Version: 61}}, ID: c.id})); err != nil {
		return nil, err
	}
	if _, ok, _ := c.await(30*time.Second, hsCode); !ok {
		return nil, fmt.Errorf("no protocol handshake from the server (%v)", c.rerr)
	}
	m, ok, _ := c.await(30*time.Second, baseLen+protocol.StatusMsg)
	if !ok {
		return nil, fmt.Errorf("no status from the node (%v)", c.rerr)
	}
	var st statusData
	if err := rlp.DecodeBytes(m.payload, &st); err != nil {
		return nil, err
	}
	if withStatus {
		mine := st
		mine.TD = 0
		if err := c.send(baseLen+protocol.StatusMsg, enc(&mine)); err != nil {
			return nil, err
		}
	}
	return &st, nil
}

// read until the connection ends: pongs seen, last disconnect reason seen
type wireEnd struct {
	pongs  int
	disc   *uint64
	ended  bool
	others int
}

func (c *wireClient) drain(d time.Duration, stopAtPong bool) wireEnd {
	var e wireEnd
	deadline := time.After(d)
	for {
		select {
		case m, open := <-c.in:
			if !open {
				e.ended = true
				return e
			}
			switch m.code {
			case pongCode:
				e.pongs++
				if stopAtPong {
					return e
				}
			case discCode:
				var r [1]uint64
				rlp.DecodeBytes(m.payload, &r)
				v := r[0]
				e.disc = &v
			default:
				e.others++
			}
		case <-deadline:
			return e
		}
	}
}

func optU(p *uint64) M {
	if p == nil {
		return None()
	}
	return Some(U64(*p))
}

type wireWorld struct {
	rng    *rand.Rand
	out    *Out
	addr   string
	srvID  discover.NodeID
	srv    *p2p.Server
	honest *wireClient
	hashAt []types.Hash
	H      uint64
}

// the honest peer is still served: a hashes request is answered correctly
func (w *wireWorld) probeHonest(after interface{}) bool {
	k := 1 + uint64(w.rng.Int63n(int64(w.H-2)))
	if err := w.honest.send(baseLen+protocol.GetBlockHashesFromNumberMsg, enc(&getBlockHashesFromNumberData{k, 3})); err != nil {
		w.out.Oracle(false, "only-the-offending-peer-is-dropped", Tup("honest peer cannot write", err.Error(), after))
		return false
	}
	for {
		m, ok, ended := w.honest.await(60*time.Second, baseLen+protocol.BlockHashesMsg)
		if !ok {
			w.out.Oracle(false, "only-the-offending-peer-is-dropped", Tup("honest peer not served", ended, fmt.Sprint(w.honest.rerr), after))
			return false
		}
		var hs []types.Hash
		if rlp.DecodeBytes(m.payload, &hs) == nil && len(hs) == 3 && hs[1] == w.hashAt[k+1] && ((hs[0] == w.hashAt[k] && hs[2] == w.hashAt[k+2]) || (hs[0] == w.hashAt[k+2] && hs[2] == w.hashAt[k])) {
			w.out.Oracle(true, "only-the-offending-peer-is-dropped", nil)
			return true
		}
	}
}

// a hostile message to a running peer
func (w *wireWorld) runningSession() {
	rng, out := w.rng, w.out
	c, err := dialWire(w.addr, w.srvID, rng, false)
	if err != nil {
		out.Oracle(false, "server-accepts-connections", Tup(err.Error()))
		return
	}
	defer c.fd.Close()
	withStatus := rng.Intn(2) == 0
	if _, err := c.establish(withStatus); err != nil {
		out.Oracle(false, "well-behaved-peer-is-added", Tup(err.Error()))
		return
	}
	plen := protocol.ProtocolLengths[0]
	h := hostilePayload(rng, c.id)
	code := hostileCode(rng, plen)
	if rng.Intn(10) == 0 { // a second handshake message
		code, h = hsCode, hostile{"second-handshake", hostileHandshake(rng, c.id).b}
	}
	input := Tup("wire-running", U64(code), withStatus, h.class, Byt(clip(h.b)))
	progress(out, input)
	t0 := time.Now()
	if err := c.send(code, h.b); err != nil {
		out.Oracle(false, "server-accepts-connections", Tup("write", err.Error()))
		return
	}
	wait := 40 * time.Millisecond
	if code == pingCode {
		wait = 30 * time.Second
	}
	e := c.drain(wait, code == pingCode)
	barrier := barrierReason(rng)
	late := false
	if !e.ended {
		c.send(discCode, enc([]uint64{barrier}))
		e2 := c.drain(60*time.Second, false)
		e.pongs += e2.pongs
		e.ended = e2.ended
		if e2.disc != nil {
			e.disc = e2.disc
		}
		late = true
	}
	out.Oracle(e.ended, "hostile-base-message-ends-in-error-not-panic", Tup("connection not closed after a disconnect message", input))
	inRange := code >= baseLen && code < baseLen+plen
	var got M
	switch {
	case e.disc != nil && *e.disc == barrier && e.pongs > 0:
		got = Con("RPong")
	case e.disc != nil && *e.disc == barrier:
		got = Con("RStay")
	case e.disc == nil && late:
		// closed while the barrier was on its way: the reason may have been lost with the reset
		out.Count("wire:closed-reason-unobserved")
		got = nil
	default:
		got = Con("RClosed", optU(e.disc))
	}
	if got != nil && !inRange && len(h.b) <= maxModelPayload && time.Since(t0) < 20*time.Second {
		out.Case("srv_react", Tup(U64(plen), U64(code), Byt(h.b)), got, fmt.Sprintf("wire:code=%s:%s", codeClass(code, plen), h.class))
	} else {
		out.Count("wire:running-oracles-only")
	}
	w.probeHonest(input)
}

// a hostile first message after the encryption handshake
func (w *wireWorld) preSession() {
	rng, out := w.rng, w.out
	c, err := dialWire(w.addr, w.srvID, rng, false)
	if err != nil {
		out.Oracle(false, "server-accepts-connections", Tup(err.Error()))
		return
	}
	defer c.fd.Close()
	t0 := time.Now()
	var code uint64
	var b []byte
	var class string
	idMatch, capMatch := true, true
	switch rng.Intn(5) {
	case 0, 1:
		v := hostileHandshake(rng, c.id)
		code, b, class, idMatch, capMatch = hsCode, v.b, "hs:"+v.class, v.idMatch, v.capMatch
	case 2, 3:
		h := hostilePayload(rng, c.id)
		code, b, class = discCode, h.b, "disc:"+h.class
	default:
		h := hostilePayload(rng, c.id)
		code, b, class = hostileCode(rng, 9), h.b, "other:"+h.class
	}
	dec, ver, idz := false, uint64(0), false
	if code == hsCode {
		dec, ver, idz = decodeHandshake(b, uint32(len(b)), true)
	}
	input := Tup("wire-pre-handshake", U64(code), class, Byt(clip(b)))
	progress(out, input)
	if err := c.send(code, b); err != nil {
		out.Oracle(false, "server-accepts-connections", Tup("write", err.Error()))
		return
	}
	// added: the node's status arrives; refused: the connection ends (after an optional disconnect message)
	var disc *uint64
	added, ended := false, false
	deadline := time.After(60 * time.Second)
loop:
	for {
		select {
		case m, open := <-c.in:
			if !open {
				ended = true
				break loop
			}
			switch m.code {
			case discCode:
				var r [1]uint64
				rlp.DecodeBytes(m.payload, &r)
				v := r[0]
				disc = &v
			case baseLen + protocol.StatusMsg:
				added = true
				break loop
			}
		case <-deadline:
			break loop
		}
	}
	out.Oracle(added || ended, "hostile-base-message-ends-in-error-not-panic", Tup("setupConn neither adds nor refuses", input))
	if !added && !ended {
		return
	}
	var got M
	if added {
		got = Con("SAdded")
		c.send(discCode, enc([]uint64{barrierReason(rng)}))
		c.drain(30*time.Second, false)
	} else {
		got = Con("SRefused", optU(disc))
	}
	// the server allows handshakeTimeout for both handshakes: a session that took longer (machine load) says nothing
	if len(b) <= maxModelPayload && time.Since(t0) < time.Duration(p2p.VerifHandshakeTimeout)*3/5 {
		out.Case("setup_conn", Tup(U64(uint64(len(b))), U64(code), Byt(b), dec, U64(ver), idz, idMatch, capMatch), got, class)
	} else {
		out.Count("wire:pre-oracles-only")
	}
	w.probeHonest(input)
}

// many pings without reading, then all pongs are collected
func (w *wireWorld) pingFlood() {
	rng, out := w.rng, w.out
	c, err := dialWire(w.addr, w.srvID, rng, false)
	if err != nil {
		out.Oracle(false, "server-accepts-connections", Tup(err.Error()))
		return
	}
	defer c.fd.Close()
	if _, err := c.establish(rng.Intn(2) == 0); err != nil {
		out.Oracle(false, "well-behaved-peer-is-added", Tup(err.Error()))
		return
	}
	k := 200 + rng.Intn(1800)
	input := Tup("wire-ping-flood", I64(int64(k)))
	progress(out, input)
	go func() {
		for i := 0; i < k; i++ {
			var p []byte
			if i%7 == 0 {
				p = hostilePayload(rng2(int64(i)), c.id).b
				if len(p) > 4096 {
					p = p[:4096]
				}
			} else {
				p = []byte{0xC0}
			}
			if c.send(pingCode, p) != nil {
				return
			}
		}
	}()
	got := 0
	deadline := time.After(120 * time.Second)
	for got < k {
		select {
		case m, open := <-c.in:
			if !open {
				out.Oracle(false, "ping-flood-answered", Tup(I64(int64(k)), I64(int64(got)), "closed", fmt.Sprint(c.rerr)))
				w.probeHonest(input)
				return
			}
			if m.code == pongCode {
				got++
			}
		case <-deadline:
			out.Oracle(false, "ping-flood-answered", Tup(I64(int64(k)), I64(int64(got)), "timeout"))
			w.probeHonest(input)
			return
		}
	}
	out.Oracle(true, "ping-flood-answered", nil)
	c.send(discCode, enc([]uint64{uint64(p2p.DiscQuitting)}))
	c.drain(30*time.Second, false)
	w.probeHonest(input)
}

func rng2(seed int64) *rand.Rand { return rand.New(rand.NewSource(seed)) }

func runBaseChild(rng *rand.Rand, n int, out *Out, _ []string) {
	nd := NewNode()
	defer func() {
		if p := recover(); p != nil {
			panic(p)
		}
		out.Close()
		nd.T.Cleanup()
		fmt.Printf("suite=base-child cases=%d oracle_fails=%d\n", out.Cases, out.Fails)
		os.Exit(0)
	}()
	for i := 0; i < 12; i++ {
		nd.Momentum()
	}
	ms := nd.Ch.GetFrontierMomentumStore()
	H := ms.Identifier().Height
	hashAt := make([]types.Hash, H+1)
	for h := uint64(1); h <= H; h++ {
		m, _ := ms.GetMomentumByHeight(h)
		hashAt[h] = m.Hash
	}
	var id discover.NodeID
	rng.Read(id[:])

	// ---- direct
	d := newDirectPeer(rng)
	for i := 0; i < 8*n; i++ {
		if i%3 == 2 {
			d.handshakeCase(rng, out, id)
		} else {
			d.handleCase(rng, out, id)
		}
	}
	d.app.Close()
	out.W.Flush()

	// ---- piped
	for i := 0; i < n; i++ {
		pipedCase(rng, out)
		out.W.Flush()
	}

	// ---- wire
	bridge := protocol.NewChainBridge(nd.Ch, nd.Cs, verifier.NewVerifier(nd.Ch, nd.Cs), nd.Sv)
	pm := protocol.NewProtocolManager(1, networkId, bridge)
	pm.Start()
	key, _ := ecdsa.GenerateKey(crypto.S256(), rng)
	srv := &p2p.Server{PrivateKey: key, MaxPeers: 50, MaxPendingPeers: 100, Name: "c15-node", Protocols: pm.SubProtocols, ListenAddr: "127.0.0.1:0", NoDial: true}
	if err := srv.Start(); err != nil {
		out.Count("wire:listen-unavailable")
		return
	}
	w := &wireWorld{rng: rng, out: out, addr: srv.ListenAddr, srvID: discover.PubkeyID(&key.PublicKey), srv: srv, hashAt: hashAt, H: H}
	honest, err := dialWire(w.addr, w.srvID, rng, true)
	if err == nil {
		_, err = honest.establish(true)
	}
	if err != nil {
		out.Oracle(false, "well-behaved-peer-is-added", Tup("honest", err.Error()))
		return
	}
	w.honest = honest
	if !w.probeHonest("start") {
		return
	}
	for i := 0; i < n; i++ {
		switch k := rng.Intn(40); {
		case k == 0:
			w.pingFlood()
		case k < 18:
			w.preSession()
		default:
			w.runningSession()
		}
		out.W.Flush()
	}
	// every hostile peer is gone, the honest one is still a peer
	left := -1
	for i := 0; i < 300; i++ {
		if left = srv.PeerCount(); left == 1 {
			break
		}
		time.Sleep(100 * time.Millisecond)
	}
	out.Oracle(left == 1, "only-the-offending-peer-is-dropped", Tup("peers of the server at the end", I64(int64(left))))
	honest.fd.Close()
}
